// goextract: Tie A of the scipipe verification machinery.
//
// Reads the Go sources of /repo's working tree (syntax only: go/parser + go/ast) and writes
// Lean 4 source describing, for a whitelist of functions, the *skeleton* of each function body
// as a flat list of atoms in source order, plus the package-level string/int constants.
// The Lean side (SciVerif/Tie/*.lean) interprets the skeletons into the semantics records the
// operational models are parametric in, and proves the well-formedness obligations by `decide`.
//
// What is abstracted away is listed in ABSTRACTIONS.md.
package main

import (
	"bytes"
	"crypto/sha256"
	"encoding/hex"
	"fmt"
	"go/ast"
	"go/parser"
	"go/printer"
	"go/token"
	"os"
	"path/filepath"
	"sort"
	"strconv"
	"strings"
)

type atom struct {
	kind string
	name string
	recv string
	args []string
}

var fset = token.NewFileSet()

func pr(n ast.Node) string {
	if n == nil {
		return ""
	}
	var b bytes.Buffer
	printer.Fprint(&b, fset, n)
	s := b.String()
	// one line, single spaces
	s = strings.Join(strings.Fields(s), " ")
	return s
}

// calls that are dropped entirely (logging, formatting, verification hooks)
func dropped(recv, name string) bool {
	switch name {
	case "vhook", "vhookTask":
		return true
	case "Sprintf", "Sprint", "Sprintln", "New", "Error", "String", "Itoa", "Atoi", "Now", "Sub", "Format":
		if recv == "fmt" || recv == "errors" || recv == "strconv" || recv == "time" || name == "Error" || name == "String" {
			return true
		}
	case "Printf", "Println", "Print", "Fatalln":
		return true
	case "Auditf", "Audit":
		return true
	}
	return false
}

type walker struct{ out []atom }

func (w *walker) emit(kind, name, recv string, args ...string) {
	w.out = append(w.out, atom{kind, name, recv, args})
}

func lastSel(e ast.Expr) (recv, name string) {
	switch x := e.(type) {
	case *ast.SelectorExpr:
		return pr(x.X), x.Sel.Name
	case *ast.Ident:
		return "", x.Name
	case *ast.ParenExpr:
		return lastSel(x.X)
	case *ast.IndexExpr:
		r, n := lastSel(x.X)
		return r, n + "[]"
	case *ast.CallExpr:
		r, n := lastSel(x.Fun)
		return r, n + "()"
	}
	return "", pr(e)
}

// expr walks an expression in evaluation order, emitting calls / receives / func literals
func (w *walker) expr(e ast.Expr) {
	switch x := e.(type) {
	case nil:
	case *ast.CallExpr:
		if _, hn := lastSel(x.Fun); hn == "vhook" || hn == "vhookTask" {
			// verification hooks leave no trace in a skeleton; their arguments may call the name / path accessors
			// only — any other call inside a hook's arguments is walked like everywhere else
			for _, a := range x.Args {
				pure := true
				ast.Inspect(a, func(n ast.Node) bool {
					if c, ok := n.(*ast.CallExpr); ok {
						if _, fn := lastSel(c.Fun); fn != "Name" && fn != "Path" && fn != "FifoPath" && fn != "TempDir" {
							pure = false
						}
					}
					return true
				})
				if !pure {
					w.expr(a)
				}
			}
			return
		}
		w.expr(x.Fun)
		for _, a := range x.Args {
			w.expr(a)
		}
		recv, name := lastSel(x.Fun)
		if _, isLit := x.Fun.(*ast.FuncLit); isLit {
			return
		}
		if dropped(recv, name) {
			return
		}
		args := []string{}
		for _, a := range x.Args {
			args = append(args, pr(a))
		}
		w.emit("call", name, recv, args...)
	case *ast.UnaryExpr:
		w.expr(x.X)
		if x.Op == token.ARROW {
			recv, name := lastSel(x.X)
			w.emit("recv", name, recv)
		}
	case *ast.BinaryExpr:
		w.expr(x.X)
		w.expr(x.Y)
	case *ast.ParenExpr:
		w.expr(x.X)
	case *ast.SelectorExpr:
		w.expr(x.X)
	case *ast.IndexExpr:
		w.expr(x.X)
		w.expr(x.Index)
	case *ast.SliceExpr:
		w.expr(x.X)
		w.expr(x.Low)
		w.expr(x.High)
	case *ast.StarExpr:
		w.expr(x.X)
	case *ast.TypeAssertExpr:
		w.expr(x.X)
	case *ast.KeyValueExpr:
		w.expr(x.Value)
	case *ast.CompositeLit:
		for _, el := range x.Elts {
			w.expr(el)
		}
	case *ast.FuncLit:
		w.emit("funcB", "", "")
		w.block(x.Body)
		w.emit("endB", "func", "")
	}
}

func (w *walker) block(b *ast.BlockStmt) {
	if b == nil {
		return
	}
	for _, s := range b.List {
		w.stmt(s)
	}
}

func (w *walker) stmt(s ast.Stmt) {
	switch x := s.(type) {
	case nil:
	case *ast.ExprStmt:
		w.expr(x.X)
	case *ast.SendStmt:
		w.expr(x.Value)
		recv, name := lastSel(x.Chan)
		w.emit("send", name, recv, pr(x.Value))
	case *ast.AssignStmt:
		for _, r := range x.Rhs {
			w.expr(r)
		}
		for _, l := range x.Lhs {
			if ix, ok := l.(*ast.IndexExpr); ok {
				w.expr(ix.Index)
			}
		}
		lhs := []string{}
		for _, l := range x.Lhs {
			lhs = append(lhs, pr(l))
		}
		rhs := []string{}
		for _, r := range x.Rhs {
			rhs = append(rhs, pr(r))
		}
		w.emit("assign", strings.Join(lhs, ","), x.Tok.String(), rhs...)
	case *ast.IncDecStmt:
		w.emit("assign", pr(x.X), x.Tok.String())
	case *ast.DeclStmt:
		if gd, ok := x.Decl.(*ast.GenDecl); ok {
			for _, sp := range gd.Specs {
				if vs, ok := sp.(*ast.ValueSpec); ok {
					for _, v := range vs.Values {
						w.expr(v)
					}
					names := []string{}
					for _, n := range vs.Names {
						names = append(names, n.Name)
					}
					vals := []string{}
					for _, v := range vs.Values {
						vals = append(vals, pr(v))
					}
					w.emit("assign", strings.Join(names, ","), "var", vals...)
				}
			}
		}
	case *ast.GoStmt:
		if fl, ok := x.Call.Fun.(*ast.FuncLit); ok {
			w.emit("goB", "", "")
			w.block(fl.Body)
			w.emit("endB", "go", "")
		} else {
			for _, a := range x.Call.Args {
				w.expr(a)
			}
			recv, name := lastSel(x.Call.Fun)
			w.emit("go", name, recv)
		}
	case *ast.DeferStmt:
		if fl, ok := x.Call.Fun.(*ast.FuncLit); ok {
			w.emit("deferB", "", "")
			w.block(fl.Body)
			w.emit("endB", "defer", "")
		} else {
			recv, name := lastSel(x.Call.Fun)
			args := []string{}
			for _, a := range x.Call.Args {
				args = append(args, pr(a))
			}
			w.emit("defer", name, recv, args...)
		}
	case *ast.ReturnStmt:
		for _, r := range x.Results {
			w.expr(r)
		}
		res := []string{}
		for _, r := range x.Results {
			res = append(res, pr(r))
		}
		w.emit("ret", "", "", res...)
	case *ast.BranchStmt:
		lbl := ""
		if x.Label != nil {
			lbl = x.Label.Name
		}
		w.emit(strings.ToLower(x.Tok.String()), lbl, "")
	case *ast.BlockStmt:
		w.block(x)
	case *ast.IfStmt:
		w.stmt(x.Init)
		w.expr(x.Cond)
		w.emit("ifB", pr(x.Cond), "")
		w.block(x.Body)
		if x.Else != nil {
			w.emit("elseB", "", "")
			w.stmt(x.Else)
		}
		w.emit("endB", "if", "")
	case *ast.ForStmt:
		w.stmt(x.Init)
		w.emit("forB", pr(x.Cond), "")
		w.expr(x.Cond)
		w.block(x.Body)
		w.stmt(x.Post)
		w.emit("endB", "for", "")
	case *ast.RangeStmt:
		w.expr(x.X)
		recv, name := lastSel(x.X)
		w.emit("rangeB", name, recv, pr(x.Key), pr(x.Value))
		w.block(x.Body)
		w.emit("endB", "range", "")
	case *ast.SelectStmt:
		w.emit("selectB", "", "")
		for _, c := range x.Body.List {
			cc := c.(*ast.CommClause)
			if cc.Comm == nil {
				w.emit("caseB", "default", "")
			} else {
				w.emit("caseB", pr(cc.Comm), "")
				w.stmt(cc.Comm)
			}
			for _, st := range cc.Body {
				w.stmt(st)
			}
			w.emit("endB", "case", "")
		}
		w.emit("endB", "select", "")
	case *ast.SwitchStmt:
		w.stmt(x.Init)
		w.expr(x.Tag)
		w.emit("switchB", pr(x.Tag), "")
		for _, c := range x.Body.List {
			cc := c.(*ast.CaseClause)
			if cc.List == nil {
				w.emit("caseB", "default", "")
			} else {
				vals := []string{}
				for _, e := range cc.List {
					vals = append(vals, pr(e))
				}
				w.emit("caseB", strings.Join(vals, ","), "")
			}
			for _, st := range cc.Body {
				w.stmt(st)
			}
			w.emit("endB", "case", "")
		}
		w.emit("endB", "switch", "")
	case *ast.LabeledStmt:
		w.emit("label", x.Label.Name, "")
		w.stmt(x.Stmt)
	case *ast.TypeSwitchStmt:
		w.emit("other", "typeswitch", "")
	default:
		w.emit("other", fmt.Sprintf("%T", s), "")
	}
}

// ---------- access table (C12) ----------
// For every function: the syntactic reads / writes of watched struct fields, with the mutexes that
// are syntactically held at that point (X.Lock() ... X.Unlock(), or Lock + deferred Unlock).

var watched = map[string]bool{"auditInfo": true, "Tags": true, "Upstream": true, "Params": true, "OutFiles": true,
	"RemotePorts": true, "ready": true, "procs": true, "driver": true, "doStream": true, "SubStream": true, "path": true, "buffer": true}

type access struct {
	field string
	recv  string
	write bool
	locks []string
}

type accWalker struct {
	held  []string
	defer_ []string
	out   []access
}

func (a *accWalker) holdCopy() []string {
	c := append([]string{}, a.held...)
	sort.Strings(c)
	return c
}

func (a *accWalker) rec(e ast.Expr, write bool) {
	switch x := e.(type) {
	case *ast.SelectorExpr:
		if watched[x.Sel.Name] {
			a.out = append(a.out, access{x.Sel.Name, pr(x.X), write, a.holdCopy()})
		}
		a.rec(x.X, false)
	case *ast.IndexExpr:
		a.rec(x.X, write) // m[k] = v writes the map held in the field
		a.rec(x.Index, false)
	case *ast.CallExpr:
		// method calls that read / write through accessor methods are separate functions; here only
		// lock tracking and builtin delete
		if sel, ok := x.Fun.(*ast.SelectorExpr); ok {
			if sel.Sel.Name == "Lock" {
				a.held = append(a.held, pr(sel.X))
			} else if sel.Sel.Name == "Unlock" {
				name := pr(sel.X)
				for i := len(a.held) - 1; i >= 0; i-- {
					if a.held[i] == name {
						a.held = append(a.held[:i], a.held[i+1:]...)
						break
					}
				}
			}
			a.rec(sel.X, false)
		}
		if id, ok := x.Fun.(*ast.Ident); ok && id.Name == "delete" && len(x.Args) == 2 {
			a.rec(x.Args[0], true)
			a.rec(x.Args[1], false)
			return
		}
		for _, arg := range x.Args {
			a.rec(arg, false)
		}
	case *ast.UnaryExpr:
		a.rec(x.X, false)
	case *ast.BinaryExpr:
		a.rec(x.X, false)
		a.rec(x.Y, false)
	case *ast.ParenExpr:
		a.rec(x.X, write)
	case *ast.StarExpr:
		a.rec(x.X, write)
	case *ast.KeyValueExpr:
		a.rec(x.Value, false)
	case *ast.CompositeLit:
		for _, el := range x.Elts {
			a.rec(el, false)
		}
	case *ast.FuncLit:
		// runs later, possibly on another goroutine: locks of the enclosing function do not cover it
		inner := &accWalker{}
		inner.block(x.Body)
		a.out = append(a.out, inner.out...)
	}
}

func (a *accWalker) block(b *ast.BlockStmt) {
	if b == nil {
		return
	}
	for _, st := range b.List {
		a.stmt(st)
	}
}

func (a *accWalker) stmt(st ast.Stmt) {
	switch x := st.(type) {
	case *ast.ExprStmt:
		a.rec(x.X, false)
	case *ast.AssignStmt:
		for _, r := range x.Rhs {
			a.rec(r, false)
		}
		for _, l := range x.Lhs {
			a.rec(l, true)
		}
	case *ast.IncDecStmt:
		a.rec(x.X, true)
	case *ast.SendStmt:
		a.rec(x.Chan, false)
		a.rec(x.Value, false)
	case *ast.DeferStmt:
		if sel, ok := x.Call.Fun.(*ast.SelectorExpr); ok && sel.Sel.Name == "Unlock" {
			return // the lock taken next (or before) stays held to the end of the function
		}
		a.rec(x.Call, false)
	case *ast.GoStmt:
		inner := &accWalker{}
		inner.rec(x.Call, false)
		a.out = append(a.out, inner.out...)
	case *ast.ReturnStmt:
		for _, r := range x.Results {
			a.rec(r, false)
		}
	case *ast.BlockStmt:
		a.block(x)
	case *ast.IfStmt:
		a.stmt(x.Init)
		a.rec(x.Cond, false)
		a.block(x.Body)
		a.stmt(x.Else)
	case *ast.ForStmt:
		a.stmt(x.Init)
		a.rec(x.Cond, false)
		a.block(x.Body)
		a.stmt(x.Post)
	case *ast.RangeStmt:
		a.rec(x.X, false)
		a.block(x.Body)
	case *ast.SelectStmt:
		for _, c := range x.Body.List {
			cc := c.(*ast.CommClause)
			a.stmt(cc.Comm)
			for _, s2 := range cc.Body {
				a.stmt(s2)
			}
		}
	case *ast.SwitchStmt:
		a.stmt(x.Init)
		a.rec(x.Tag, false)
		for _, c := range x.Body.List {
			for _, s2 := range c.(*ast.CaseClause).Body {
				a.stmt(s2)
			}
		}
	case *ast.DeclStmt:
		if gd, ok := x.Decl.(*ast.GenDecl); ok {
			for _, sp := range gd.Specs {
				if vs, ok := sp.(*ast.ValueSpec); ok {
					for _, v := range vs.Values {
						a.rec(v, false)
					}
				}
			}
		}
	case *ast.LabeledStmt:
		a.stmt(x.Stmt)
	}
}

func leanStr(s string) string {
	var b strings.Builder
	b.WriteByte('"')
	for _, r := range s {
		switch {
		case r == '"':
			b.WriteString("\\\"")
		case r == '\\':
			b.WriteString("\\\\")
		case r == '\n':
			b.WriteString("\\n")
		case r == '\t':
			b.WriteString("\\t")
		case r < 32 || r > 126:
			b.WriteString(fmt.Sprintf("\\u{%x}", r))
		default:
			b.WriteRune(r)
		}
	}
	b.WriteByte('"')
	return b.String()
}

func leanStrList(ss []string) string {
	q := []string{}
	for _, s := range ss {
		q = append(q, leanStr(s))
	}
	return "[" + strings.Join(q, ", ") + "]"
}

func leanIdent(s string) string {
	r := strings.NewReplacer(".", "_", "*", "", "(", "", ")", "", "/", "_", "-", "_")
	return r.Replace(s)
}

type pkgSpec struct {
	dir  string // relative to repo root
	name string // Lean namespace component
}

func funcKey(fd *ast.FuncDecl) string {
	if fd.Recv != nil && len(fd.Recv.List) > 0 {
		t := fd.Recv.List[0].Type
		if st, ok := t.(*ast.StarExpr); ok {
			t = st.X
		}
		return pr(t) + "." + fd.Name.Name
	}
	return fd.Name.Name
}

func main() {
	if len(os.Args) < 3 {
		fmt.Fprintln(os.Stderr, "usage: goextract <repo> <outdir>")
		os.Exit(2)
	}
	repo, outdir := os.Args[1], os.Args[2]
	os.MkdirAll(outdir, 0755)
	old, _ := filepath.Glob(filepath.Join(outdir, "*.lean"))
	for _, f := range old {
		os.Remove(f)
	}
	pkgs := []pkgSpec{{".", "Scipipe"}, {"components", "Components"}, {"cmd/scipipe", "Cmd"}}

	var skel, consts, acc bytes.Buffer
	acc.WriteString("-- GENERATED by /verif/extract/goextract from /repo's working tree. Do not edit.\nimport SciVerif.Tie.Atom\nnamespace SciVerif.Generated.Access\nopen SciVerif.Tie\n\ndef table : List Acc := [\n")
	firstAcc := true
	skel.WriteString("-- GENERATED by /verif/extract/goextract from /repo's working tree. Do not edit.\nimport SciVerif.Tie.Atom\nnamespace SciVerif.Generated\nopen SciVerif.Tie\n\n")
	consts.WriteString("-- GENERATED by /verif/extract/goextract from /repo's working tree. Do not edit.\nnamespace SciVerif.Generated.Consts\n\n")
	allFuncs := []string{}
	hashes := [][2]string{}
	for _, p := range pkgs {
		files, _ := filepath.Glob(filepath.Join(repo, p.dir, "*.go"))
		sort.Strings(files)
		skel.WriteString("namespace " + p.name + "\n\n")
		consts.WriteString("namespace " + p.name + "\n\n")
		declText := []string{}
		for _, f := range files {
			base := filepath.Base(f)
			if strings.HasSuffix(base, "_test.go") || strings.HasPrefix(base, "verif_") || base == "palettes.go" {
				continue
			}
			af, err := parser.ParseFile(fset, f, nil, 0)
			if err != nil {
				fmt.Fprintln(os.Stderr, "parse error:", err)
				os.Exit(1)
			}
			for _, d := range af.Decls {
				switch x := d.(type) {
				case *ast.FuncDecl:
					if x.Body == nil {
						continue
					}
					w := &walker{}
					w.block(x.Body)
					key := funcKey(x)
					id := leanIdent(key)
					allFuncs = append(allFuncs, p.name+"."+id)
					// string literals in source order
					lits := []string{}
					ast.Inspect(x.Body, func(n ast.Node) bool {
						if bl, ok := n.(*ast.BasicLit); ok && bl.Kind == token.STRING {
							if v, err := strconv.Unquote(bl.Value); err == nil {
								lits = append(lits, v)
							}
						}
						return true
					})
					aw := &accWalker{}
					aw.block(x.Body)
					for _, ac := range aw.out {
						sep := ","
						if firstAcc {
							sep = " "
							firstAcc = false
						}
						fmt.Fprintf(&acc, "  %s⟨%s, %s, %s, %v, %s⟩\n", sep, leanStr(p.name+"."+key), leanStr(ac.field), leanStr(ac.recv), ac.write, leanStrList(ac.locks))
					}
					hs := sha256.New()
					for _, a := range w.out {
						fmt.Fprintf(hs, "%s\x1f%s\x1f%s\x1f%s\x1e", a.kind, a.name, a.recv, strings.Join(a.args, "\x1d"))
					}
					hashes = append(hashes, [2]string{p.name + "." + id, hex.EncodeToString(hs.Sum(nil))[:16]})
					fmt.Fprintf(&skel, "def %s : List Atom := [\n", id)
					for i, a := range w.out {
						sep := ","
						if i == len(w.out)-1 {
							sep = ""
						}
						fmt.Fprintf(&skel, "  ⟨.%s, %s, %s, %s⟩%s\n", a.kind+"_", leanStr(a.name), leanStr(a.recv), leanStrList(a.args), sep)
					}
					skel.WriteString("]\n")
					fmt.Fprintf(&skel, "def %s_lits : List String := %s\n\n", id, leanStrList(lits))
				case *ast.GenDecl:
					// type and var declarations (a new or changed constant only matters through the functions
					// that use it, or through Tie/Consts when it is one of the constants the models mirror)
					if x.Tok == token.TYPE || x.Tok == token.VAR {
						declText = append(declText, pr(x))
					}
					if x.Tok == token.TYPE {
						for _, sp := range x.Specs {
							ts, ok := sp.(*ast.TypeSpec)
							if !ok {
								continue
							}
							if st, ok := ts.Type.(*ast.StructType); ok {
								fields := []string{}
								for _, f := range st.Fields.List {
									typ := pr(f.Type)
									if len(f.Names) == 0 {
										fields = append(fields, typ+" "+typ)
									}
									for _, n := range f.Names {
										fields = append(fields, n.Name+" "+typ)
									}
								}
								fmt.Fprintf(&consts, "def %s_fields : List String := %s\n", ts.Name.Name, leanStrList(fields))
							}
						}
						continue
					}
					if x.Tok != token.CONST && x.Tok != token.VAR {
						continue
					}
					for _, sp := range x.Specs {
						vs, ok := sp.(*ast.ValueSpec)
						if !ok {
							continue
						}
						for i, n := range vs.Names {
							if i >= len(vs.Values) {
								continue
							}
							bl, ok := vs.Values[i].(*ast.BasicLit)
							if !ok {
								continue
							}
							switch bl.Kind {
							case token.STRING:
								v, err := strconv.Unquote(bl.Value)
								if err == nil && len(v) < 200 {
									fmt.Fprintf(&consts, "def %s : String := %s\n", n.Name, leanStr(v))
								}
							case token.INT:
								if iv, err := strconv.ParseInt(bl.Value, 0, 64); err == nil && iv >= 0 {
									fmt.Fprintf(&consts, "def %s : Nat := %d\n", n.Name, iv)
								}
							}
						}
					}
				}
			}
		}
		// all package-level type / var declarations of the package (source order, file by file)
		dh := sha256.Sum256([]byte(strings.Join(declText, "\x1e")))
		hashes = append(hashes, [2]string{p.name + ".#decls", hex.EncodeToString(dh[:])[:16]})
		skel.WriteString("end " + p.name + "\n\n")
		consts.WriteString("\nend " + p.name + "\n\n")
	}
	skel.WriteString("end SciVerif.Generated\n")
	consts.WriteString("end SciVerif.Generated.Consts\n")
	if err := os.WriteFile(filepath.Join(outdir, "Skel.lean"), skel.Bytes(), 0644); err != nil {
		panic(err)
	}
	acc.WriteString("]\n\nend SciVerif.Generated.Access\n")
	var hb bytes.Buffer
	hb.WriteString("-- GENERATED by /verif/extract/goextract from /repo's working tree. Do not edit.\n-- first 16 hex digits of SHA-256 over each function's skeleton atoms\nnamespace SciVerif.Generated\n\ndef hashes : List (String × String) := [\n")
	for i, h := range hashes {
		sep := ","
		if i == len(hashes)-1 {
			sep = ""
		}
		fmt.Fprintf(&hb, "  (%s, %s)%s\n", leanStr(h[0]), leanStr(h[1]), sep)
	}
	hb.WriteString("]\n\nend SciVerif.Generated\n")
	if err := os.WriteFile(filepath.Join(outdir, "Hashes.lean"), hb.Bytes(), 0644); err != nil {
		fmt.Fprintln(os.Stderr, err)
		os.Exit(1)
	}
	if err := os.WriteFile(filepath.Join(outdir, "Access.lean"), acc.Bytes(), 0644); err != nil {
		panic(err)
	}
	if err := os.WriteFile(filepath.Join(outdir, "Consts.lean"), consts.Bytes(), 0644); err != nil {
		panic(err)
	}
	fmt.Printf("goextract: %d functions\n", len(allFuncs))
}
