package sample

import (
	"os"
	"sync"
)

const prefix = "_tmp"

type Box struct {
	mu    sync.Mutex
	items chan int
	Name  string
}

var limit = 3

func helper(x int) (int, error) { return x + 1, nil }

func (b *Box) Run(in chan int, names map[string]string) error {
	defer close(b.items)
	b.mu.Lock()
	for i := 0; i < limit; i++ {
		b.items <- i
	}
	b.mu.Unlock()
	v, err := helper(2)
	if err != nil {
		return err
	} else if v > 2 {
		go b.drain()
	}
	for k, n := range names {
		if k == "" {
			continue
		}
		b.Name = n
		break
	}
	select {
	case x, ok := <-in:
		if !ok {
			in = nil
		}
		_ = x
	case b.items <- 7:
	default:
	}
	switch b.Name {
	case "a":
		os.Remove(prefix + b.Name)
	default:
	}
	go func() {
		<-in
	}()
	return nil
}

func (b *Box) drain() {
	for range b.items {
	}
	vhook("sample.drained", b.Name(), helperName()) // the accessor leaves no trace, the other call does
}
