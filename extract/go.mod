module goextract

go 1.13
