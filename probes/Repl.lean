/-! probe: Go strings.ReplaceAll over List Char (non-empty pattern) -/
def stripPrefix? (pat : List Char) (s : List Char) : Option (List Char) :=
  match pat, s with
  | [], s => some s
  | _ :: _, [] => none
  | p :: ps, c :: cs => if p = c then stripPrefix? ps cs else none

theorem stripPrefix?_length {pat s r : List Char} (h : stripPrefix? pat s = some r) :
    r.length + pat.length = s.length := by
  induction pat generalizing s with
  | nil => simp [stripPrefix?] at h; subst h; simp
  | cons p ps ih =>
    cases s with
    | nil => simp [stripPrefix?] at h
    | cons c cs =>
      simp [stripPrefix?] at h
      have := ih h.2
      simp; omega

def replaceAll (pat rep : List Char) (hp : pat ≠ []) : List Char → List Char
  | [] => []
  | c :: cs =>
    match h : stripPrefix? pat (c :: cs) with
    | some rest => rep ++ replaceAll pat rep hp rest
    | none => c :: replaceAll pat rep hp cs
termination_by s => s.length
decreasing_by
  · have := stripPrefix?_length h
    have : 0 < pat.length := by cases pat <;> simp_all
    simp at *; omega
  · simp

def enc := replaceAll "../".toList "__parent__".toList (by decide)
def dec := replaceAll "__parent__".toList "../".toList (by decide)

#eval String.ofList (enc "../../some/dir".toList)
#eval String.ofList (dec (enc "a/../b/../../c".toList))
#eval String.ofList (dec (enc "__parent../x".toList))
