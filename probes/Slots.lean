/-! Probe: slot semaphore + acquisition mutex, deadlock freedom (C06/C07 shape) -/
namespace Slots

inductive Ph where
  | idle            -- created, not yet asked for slots
  | acq (k : Nat)   -- holds the mutex, has deposited k tokens
  | run             -- command executing, holds `cores` tokens
  | rel (k : Nat)   -- releasing, still holds k tokens
  | done
deriving DecidableEq, Repr

structure Task where
  cores : Nat
  ph    : Ph
deriving DecidableEq, Repr

structure St where
  max    : Nat
  tasks  : List Task
deriving Repr

def held (t : Task) : Nat :=
  match t.ph with
  | .idle => 0 | .acq k => k | .run => t.cores | .rel k => k | .done => 0

def tokens (ts : List Task) : Nat := (ts.map held).sum

def lockHeld (ts : List Task) : Bool := ts.any fun t => match t.ph with | .acq _ => true | _ => false

/-- one step of task `t` given the rest of the system (tokens held by others, lock held by others) -/
def stepTask (max othersTokens : Nat) (othersLock : Bool) (t : Task) : Option Task :=
  match t.ph with
  | .idle => if othersLock then none else
      if t.cores = 0 then some { t with ph := .run } else some { t with ph := .acq 0 }
  | .acq k =>
      if othersTokens + k < max then
        (if k + 1 = t.cores then some { t with ph := .run } else some { t with ph := .acq (k+1) })
      else none
  | .run => some { t with ph := if t.cores = 0 then .done else .rel t.cores }
  | .rel k => some { t with ph := if k ≤ 1 then .done else .rel (k-1) }
  | .done => none

/-- step task number i -/
def step (s : St) (i : Nat) : Option St :=
  match s.tasks[i]? with
  | none => none
  | some t =>
    let others := s.tasks.eraseIdx i
    match stepTask s.max (tokens others) (lockHeld others) t with
    | none => none
    | some t' => some { s with tasks := s.tasks.set i t' }

def run (s : St) : List Nat → Option St
  | [] => some s
  | i :: is => match step s i with | none => none | some s' => run s' is

def wfTask (t : Task) : Prop :=
  match t.ph with
  | .acq k => k < t.cores
  | .rel k => 0 < k ∧ k ≤ t.cores
  | _ => True

def Inv (s : St) : Prop := tokens s.tasks ≤ s.max ∧ ∀ t ∈ s.tasks, wfTask t

def running (ts : List Task) : Nat :=
  (ts.map fun t => match t.ph with | .run => t.cores | _ => 0).sum

theorem running_le_tokens (ts : List Task) : running ts ≤ tokens ts := by
  induction ts with
  | nil => simp [running, tokens]
  | cons t ts ih =>
    simp only [running, tokens, List.map_cons, List.sum_cons] at *
    have : (match t.ph with | .run => t.cores | _ => 0) ≤ held t := by
      unfold held; cases t.ph <;> simp
    omega

end Slots

namespace Slots

theorem tokens_split (ts : List Task) (i : Nat) (t : Task) (h : ts[i]? = some t) :
    tokens ts = tokens (ts.eraseIdx i) + held t := by
  induction ts generalizing i with
  | nil => simp at h
  | cons a as ih =>
    cases i with
    | zero => simp at h; subst h; simp [tokens]; omega
    | succ j =>
      simp at h
      have := ih j h
      simp [tokens, List.eraseIdx_cons_succ] at *
      omega

theorem tokens_set (ts : List Task) (i : Nat) (t t' : Task) (h : ts[i]? = some t) :
    tokens (ts.set i t') = tokens (ts.eraseIdx i) + held t' := by
  induction ts generalizing i with
  | nil => simp at h
  | cons a as ih =>
    cases i with
    | zero => simp [tokens]; omega
    | succ j =>
      simp at h
      have := ih j h
      simp [tokens, List.eraseIdx_cons_succ] at *
      omega

theorem stepTask_held (max o : Nat) (l : Bool) (t t' : Task) (hw : wfTask t)
    (h : stepTask max o l t = some t') :
    (o + held t' ≤ o + held t ∨ o + held t' ≤ max) ∧ wfTask t' ∧ t'.cores = t.cores := by
  obtain ⟨c, ph⟩ := t
  cases ph with
  | idle =>
    simp only [stepTask] at h
    split at h
    · simp at h
    · split at h <;> (simp at h; subst h; simp_all [held, wfTask] <;> omega)
  | acq k =>
    simp only [stepTask] at h
    simp only [wfTask] at hw
    split at h
    · split at h <;> (simp at h; subst h; simp [held, wfTask]; omega)
    · simp at h
  | run =>
    simp only [stepTask] at h
    simp at h; subst h
    by_cases hc : c = 0 <;> simp [held, wfTask, hc]; omega
  | rel k =>
    simp only [stepTask] at h
    simp only [wfTask] at hw
    simp at h; subst h
    by_cases hc : k ≤ 1 <;> simp [held, wfTask, hc] <;> omega
  | done => simp [stepTask] at h

end Slots

namespace Slots

def isAcq (t : Task) : Bool := match t.ph with | .acq _ => true | _ => false
def isBusy (t : Task) : Bool := match t.ph with | .run => true | .rel _ => true | _ => false
def isIdle (t : Task) : Bool := match t.ph with | .idle => true | _ => false
def isDone (t : Task) : Bool := match t.ph with | .done => true | _ => false

theorem lockHeld_eq (ts : List Task) : lockHeld ts = ts.any isAcq := by
  unfold lockHeld isAcq; rfl

/-- tokens of a list in which nobody is busy or acquiring is zero -/
theorem tokens_zero_of_quiet (ts : List Task) (h : ∀ t ∈ ts, isBusy t = false ∧ isAcq t = false) :
    tokens ts = 0 := by
  induction ts with
  | nil => simp [tokens]
  | cons a as ih =>
    have ha := h a (by simp)
    have := ih (fun t ht => h t (by simp [ht]))
    simp [tokens] at *
    refine ⟨?_, this⟩
    obtain ⟨c, ph⟩ := a
    cases ph <;> simp_all [held, isBusy, isAcq]

theorem mem_eraseIdx_mem {α} (l : List α) (i : Nat) (x : α) (h : x ∈ l.eraseIdx i) : x ∈ l :=
  List.mem_of_mem_eraseIdx h

/-- A busy task can always step. -/
theorem busy_steps (s : St) (i : Nat) (t : Task) (hi : s.tasks[i]? = some t) (hb : isBusy t = true) :
    ∃ s', step s i = some s' := by
  obtain ⟨c, ph⟩ := t
  cases ph <;> simp [isBusy] at hb <;> simp [step, hi, stepTask]

/-- mutual exclusion invariant: at most one acquirer -/
def Mutex (ts : List Task) : Prop := ∀ (i j : Nat) (ti tj : Task), ts[i]? = some ti → ts[j]? = some tj →
  isAcq ti = true → isAcq tj = true → i = j

theorem no_deadlock (s : St) (hinv : Inv s) (hmx : Mutex s.tasks)
    (hc : ∀ t ∈ s.tasks, t.cores ≤ s.max)
    (hnd : ∃ t ∈ s.tasks, isDone t = false) : ∃ i s', step s i = some s' := by
  by_cases hbusy : ∃ t ∈ s.tasks, isBusy t = true
  · obtain ⟨t, ht, hb⟩ := hbusy
    obtain ⟨i, hi⟩ := List.getElem?_of_mem ht
    exact ⟨i, busy_steps s i t hi hb⟩
  · have hnb : ∀ t ∈ s.tasks, isBusy t = false := by
      intro t ht
      cases hb : isBusy t with
      | false => rfl
      | true => exact absurd ⟨t, ht, hb⟩ hbusy
    by_cases hacq : ∃ t ∈ s.tasks, isAcq t = true
    · obtain ⟨t, ht, ha⟩ := hacq
      obtain ⟨i, hi⟩ := List.getElem?_of_mem ht
      -- all others are quiet
      have hq : ∀ u ∈ s.tasks.eraseIdx i, isBusy u = false ∧ isAcq u = false := by
        intro u hu
        refine ⟨hnb u (mem_eraseIdx_mem _ _ _ hu), ?_⟩
        cases hua : isAcq u with
        | false => rfl
        | true =>
        exfalso
        obtain ⟨j, hj⟩ := List.getElem?_of_mem hu
        -- position of u in the original list differs from i
        rw [List.getElem?_eraseIdx] at hj
        split at hj
        · have := hmx i j t u hi hj ha hua; omega
        · have := hmx i (j+1) t u hi hj ha hua; omega
      have h0 := tokens_zero_of_quiet _ hq
      obtain ⟨c, ph⟩ := t
      cases ph <;> simp [isAcq] at ha
      rename_i k
      have hw := hinv.2 _ ht
      have hcm := hc _ ht
      simp [wfTask] at hw
      simp at hcm
      refine ⟨i, ?_⟩
      have hk : k < s.max := by omega
      by_cases hkc : k + 1 = c <;> simp [step, hi, stepTask, h0, hk, hkc]
    · have hna : ∀ t ∈ s.tasks, isAcq t = false := by
        intro t ht
        cases hb : isAcq t with
        | false => rfl
        | true => exact absurd ⟨t, ht, hb⟩ hacq
      obtain ⟨t, ht, hd⟩ := hnd
      obtain ⟨i, hi⟩ := List.getElem?_of_mem ht
      have hnl : lockHeld (s.tasks.eraseIdx i) = false := by
        rw [lockHeld_eq]; simp
        intro u hu; exact hna u (mem_eraseIdx_mem _ _ _ hu)
      have hb := hnb t ht
      have ha := hna t ht
      obtain ⟨c, ph⟩ := t
      cases ph <;> simp_all [isBusy, isAcq, isDone]
      refine ⟨i, ?_⟩
      by_cases hc0 : c = 0 <;> simp [step, hi, stepTask, hnl, hc0]

end Slots
#print axioms Slots.no_deadlock
