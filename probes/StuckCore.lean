/-! Probe: the counting core of the C05 stuck-state argument.
   Nodes are numbered 0..n-1 in a topological order (rank = index). -/
namespace StuckCore

inductive Blk where
  | read  (up : Nat)      -- read-blocked; `up` is the (unterminated) upstream of the empty port
  | write (down : Nat)    -- write-blocked; `down` is the consumer owning the full port
  | term
deriving DecidableEq

structure Snap (n : Nat) where
  B   : Nat
  c   : Fin n → Nat        -- tasks created
  f   : Fin n → Nat        -- tasks fully forwarded
  blk : Fin n → Blk

def key {n} (s : Snap n) (v : Fin n) : Nat :=
  match s.blk v with | .read _ => s.c v | .write _ => s.f v | .term => 0

/-- facts the operational invariants provide in a stuck state -/
structure Facts {n} (s : Snap n) : Prop where
  hB    : 1 ≤ s.B
  fc    : ∀ v, s.f v ≤ s.c v
  readCF: ∀ v u, s.blk v = .read u → s.c v = s.f v
  readU : ∀ v u, s.blk v = .read u → ∃ hu : u < n, u < v.val ∧ s.blk ⟨u, hu⟩ ≠ .term ∧ s.f ⟨u, hu⟩ ≤ s.c v
  writeD: ∀ v w, s.blk v = .write w → ∃ hw : w < n, s.blk ⟨w, hw⟩ ≠ .term ∧ s.c ⟨w, hw⟩ + s.B ≤ s.f v

theorem key_le_c {n} (s : Snap n) (h : Facts s) (v : Fin n) : key s v ≤ s.c v := by
  unfold key; split <;> simp [h.fc v]

theorem key_le_f_of_read {n} (s : Snap n) (h : Facts s) (u : Fin n) (hb : ∃ x, s.blk u = .read x) :
    key s u = s.c u := by
  obtain ⟨x, hx⟩ := hb; simp [key, hx]

/-- no node can be the lexicographic minimum of (key, rank) among unterminated nodes -/
theorem no_stuck {n} (s : Snap n) (h : Facts s) : ∀ v : Fin n, s.blk v = .term := by
  -- strong induction on the measure key * n + rank would need key bounded; use well-founded
  -- induction on the lexicographic pair directly
  suffices H : ∀ (k r : Nat) (v : Fin n), key s v = k → v.val = r → s.blk v = .term from
    fun v => H _ _ v rfl rfl
  intro k
  induction k using Nat.strongRecOn with
  | _ k ihk =>
    intro r
    induction r using Nat.strongRecOn with
    | _ r ihr =>
      intro v hk hr
      cases hb : s.blk v with
      | term => rfl
      | write w =>
        exfalso
        obtain ⟨hw, hnt, hcw⟩ := h.writeD v w hb
        have hkv : key s v = s.f v := by simp [key, hb]
        have hkw : key s ⟨w, hw⟩ ≤ s.c ⟨w, hw⟩ := key_le_c s h _
        have : key s ⟨w, hw⟩ < k := by have := h.hB; omega
        exact hnt (ihk _ this _ ⟨w, hw⟩ rfl rfl)
      | read u =>
        exfalso
        obtain ⟨hu, hlt, hnt, hfu⟩ := h.readU v u hb
        have hkv : key s v = s.c v := by simp [key, hb]
        have hku : key s ⟨u, hu⟩ ≤ s.f ⟨u, hu⟩ := by
          cases hbu : s.blk ⟨u, hu⟩ with
          | term => exact absurd hbu hnt
          | write _ => simp [key, hbu]
          | read x => simp [key, hbu, h.readCF _ x hbu]
        by_cases hlt' : key s ⟨u, hu⟩ < k
        · exact hnt (ihk _ hlt' _ ⟨u, hu⟩ rfl rfl)
        · have hek : key s ⟨u, hu⟩ = k := by omega
          have hur : u < r := by omega
          exact hnt (ihr u hur ⟨u, hu⟩ hek rfl)

end StuckCore

#print axioms StuckCore.no_stuck
