module mutgen

go 1.13
