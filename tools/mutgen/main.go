// mutgen: mechanical mutants of scipipe's non-test Go source, one change each, for measuring which
// test-surviving changes the checks notice. Usage: mutgen <repo> <outdir> [skipfile]
// skipfile: one "<Pkg>.<FuncKey>" per line (functions to leave alone, e.g. the pinned ones).
// Writes <outdir>/NNNN/{file (relative path), mutated.go, meta.json}.
package main

import (
	"bytes"
	"encoding/json"
	"fmt"
	"go/ast"
	"go/parser"
	"go/printer"
	"go/token"
	"os"
	"path/filepath"
	"sort"
	"strings"
)

type meta struct {
	File string `json:"file"`
	Func string `json:"func"`
	Op   string `json:"op"`
	Line int    `json:"line"`
	Text string `json:"text"`
}

func funcKey(fd *ast.FuncDecl) string {
	if fd.Recv != nil && len(fd.Recv.List) > 0 {
		t := fd.Recv.List[0].Type
		if st, ok := t.(*ast.StarExpr); ok {
			t = st.X
		}
		var b bytes.Buffer
		printer.Fprint(&b, token.NewFileSet(), t)
		return b.String() + "_" + fd.Name.Name
	}
	return fd.Name.Name
}

func isHook(n ast.Node) bool {
	es, ok := n.(*ast.ExprStmt)
	if !ok {
		return false
	}
	c, ok := es.X.(*ast.CallExpr)
	if !ok {
		return false
	}
	id, ok := c.Fun.(*ast.Ident)
	return ok && (id.Name == "vhook" || id.Name == "vhookTask")
}

func isLog(n ast.Node) bool {
	es, ok := n.(*ast.ExprStmt)
	if !ok {
		return false
	}
	c, ok := es.X.(*ast.CallExpr)
	if !ok {
		return false
	}
	sel, ok := c.Fun.(*ast.SelectorExpr)
	if !ok {
		return false
	}
	if id, ok := sel.X.(*ast.Ident); ok {
		switch id.Name {
		case "Debug", "Info", "Audit", "Warning", "Error", "fmt", "log":
			return true
		}
	}
	return strings.HasPrefix(sel.Sel.Name, "Audit") || strings.HasPrefix(sel.Sel.Name, "Debug")
}

func main() {
	repo, out := os.Args[1], os.Args[2]
	skip := map[string]bool{}
	if len(os.Args) > 3 {
		b, _ := os.ReadFile(os.Args[3])
		for _, l := range strings.Split(string(b), "\n") {
			skip[strings.TrimSpace(l)] = true
		}
	}
	pkgs := []struct{ dir, name string }{{".", "Scipipe"}, {"components", "Components"}, {"cmd/scipipe", "Cmd"}}
	n := 0
	for _, p := range pkgs {
		files, _ := filepath.Glob(filepath.Join(repo, p.dir, "*.go"))
		sort.Strings(files)
		for _, f := range files {
			base := filepath.Base(f)
			if strings.HasSuffix(base, "_test.go") || strings.HasPrefix(base, "verif_") || base == "palettes.go" {
				continue
			}
			src, _ := os.ReadFile(f)
			// count the mutation sites of every function first, then re-parse per mutant
			fset := token.NewFileSet()
			af, err := parser.ParseFile(fset, f, src, parser.ParseComments)
			if err != nil {
				continue
			}
			for fi, d := range af.Decls {
				fd, ok := d.(*ast.FuncDecl)
				if !ok || fd.Body == nil {
					continue
				}
				key := p.name + "." + funcKey(fd)
				// default: leave the listed functions alone; with MUT_ONLY_LISTED: mutate only the listed ones
				if onlyListed := os.Getenv("MUT_ONLY_LISTED") != ""; skip[key] != onlyListed {
					continue
				}
				sites := countSites(fd)
				limit := sites
				maxPer := 14
				if v := os.Getenv("MUT_LIMIT"); v != "" {
					fmt.Sscanf(v, "%d", &maxPer)
				}
				if limit > maxPer {
					limit = maxPer
				}
				for k := 0; k < limit; k++ {
					site := k * sites / limit
					fset2 := token.NewFileSet()
					af2, _ := parser.ParseFile(fset2, f, src, parser.ParseComments)
					fd2 := af2.Decls[fi].(*ast.FuncDecl)
					m := applySite(fset2, fd2, site)
					if m == nil {
						continue
					}
					var buf bytes.Buffer
					cfg := printer.Config{Mode: printer.UseSpaces | printer.TabIndent, Tabwidth: 8}
					if err := cfg.Fprint(&buf, fset2, af2); err != nil {
						continue
					}
					rel, _ := filepath.Rel(repo, f)
					m.File, m.Func = rel, key
					dir := filepath.Join(out, fmt.Sprintf("%04d", n))
					os.MkdirAll(dir, 0755)
					os.WriteFile(filepath.Join(dir, "mutated.go"), buf.Bytes(), 0644)
					mb, _ := json.MarshalIndent(m, "", " ")
					os.WriteFile(filepath.Join(dir, "meta.json"), mb, 0644)
					n++
				}
			}
		}
	}
	fmt.Println("mutants:", n)
}

// a site = one (node, operator) pair, enumerated in a fixed traversal order
type siteFn func() *meta

func sitesOf(fset *token.FileSet, fd *ast.FuncDecl) []siteFn {
	var out []siteFn
	line := func(n ast.Node) int {
		if fset == nil {
			return 0
		}
		return fset.Position(n.Pos()).Line
	}
	txt := func(n ast.Node) string {
		var b bytes.Buffer
		printer.Fprint(&b, token.NewFileSet(), n)
		s := strings.Join(strings.Fields(b.String()), " ")
		if len(s) > 120 {
			s = s[:120]
		}
		return s
	}
	var walkBlock func(list *[]ast.Stmt)
	walkBlock = func(list *[]ast.Stmt) {
		for i := range *list {
			i := i
			st := (*list)[i]
			if isHook(st) || isLog(st) {
				continue
			}
			switch s := st.(type) {
			case *ast.ExprStmt, *ast.SendStmt, *ast.IncDecStmt, *ast.DeferStmt, *ast.GoStmt:
				out = append(out, func() *meta {
					m := &meta{Op: "delete-stmt", Line: line(st), Text: txt(st)}
					*list = append(append([]ast.Stmt{}, (*list)[:i]...), (*list)[i+1:]...)
					return m
				})
			case *ast.AssignStmt:
				if s.Tok != token.DEFINE {
					out = append(out, func() *meta {
						m := &meta{Op: "delete-assign", Line: line(st), Text: txt(st)}
						*list = append(append([]ast.Stmt{}, (*list)[:i]...), (*list)[i+1:]...)
						return m
					})
				}
			case *ast.BranchStmt:
				if s.Tok == token.CONTINUE || s.Tok == token.BREAK {
					out = append(out, func() *meta {
						m := &meta{Op: "swap-branch", Line: line(st), Text: txt(st)}
						if s.Tok == token.CONTINUE {
							s.Tok = token.BREAK
						} else {
							s.Tok = token.CONTINUE
						}
						return m
					})
				}
			case *ast.ReturnStmt:
				for _, r := range s.Results {
					if id, ok := r.(*ast.Ident); ok && (id.Name == "true" || id.Name == "false") {
						id := id
						out = append(out, func() *meta {
							m := &meta{Op: "flip-return-bool", Line: line(st), Text: txt(st)}
							if id.Name == "true" {
								id.Name = "false"
							} else {
								id.Name = "true"
							}
							return m
						})
					}
				}
			}
		}
	}
	ast.Inspect(fd.Body, func(n ast.Node) bool {
		switch x := n.(type) {
		case *ast.FuncLit:
			return true
		case *ast.BlockStmt:
			walkBlock(&x.List)
		case *ast.CaseClause:
			walkBlock(&x.Body)
		case *ast.CommClause:
			walkBlock(&x.Body)
		case *ast.IfStmt:
			out = append(out, func() *meta {
				m := &meta{Op: "negate-if", Line: line(x), Text: txt(x.Cond)}
				x.Cond = &ast.UnaryExpr{Op: token.NOT, X: &ast.ParenExpr{X: x.Cond}}
				return m
			})
		case *ast.BinaryExpr:
			var to token.Token
			switch x.Op {
			case token.EQL:
				to = token.NEQ
			case token.NEQ:
				to = token.EQL
			case token.LSS:
				to = token.LEQ
			case token.LEQ:
				to = token.LSS
			case token.GTR:
				to = token.GEQ
			case token.GEQ:
				to = token.GTR
			case token.LAND:
				to = token.LOR
			case token.LOR:
				to = token.LAND
			}
			if to != 0 {
				out = append(out, func() *meta {
					m := &meta{Op: "swap-op " + x.Op.String() + "->" + to.String(), Line: line(x), Text: txt(x)}
					x.Op = to
					return m
				})
			}
		case *ast.BasicLit:
			if x.Kind == token.INT && (x.Value == "0" || x.Value == "1") {
				out = append(out, func() *meta {
					m := &meta{Op: "int-literal " + x.Value, Line: line(x), Text: x.Value}
					if x.Value == "0" {
						x.Value = "1"
					} else {
						x.Value = "0"
					}
					return m
				})
			}
		}
		return true
	})
	return out
}

func countSites(fd *ast.FuncDecl) int { return len(sitesOf(nil, fd)) }

func applySite(fset *token.FileSet, fd *ast.FuncDecl, k int) *meta {
	s := sitesOf(fset, fd)
	if k >= len(s) {
		return nil
	}
	return s[k]()
}
