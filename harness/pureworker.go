package main

// pureworker: answers the same line protocol as the Lean driver, but by calling the real scipipe
// code in-process. scipipe's Fail is os.Exit(1): the parent treats a dead worker as "FAIL" for the
// request in flight and starts a new one.

import (
	"bufio"
	"fmt"
	"os"
	"path/filepath"
	"sort"
	"strings"

	sp "github.com/scipipe/scipipe"
	spc "github.com/scipipe/scipipe/components"
)

const (
	US = "\x1f"
	RS = "\x1e"
	GS = "\x1d"
)

func plist(s string) []string {
	if s == "" {
		return []string{}
	}
	return strings.Split(s, US)
}
func pkvs(s string) map[string]string {
	m := map[string]string{}
	for _, it := range plist(s) {
		kv := strings.SplitN(it, RS, 2)
		if len(kv) == 2 {
			m[kv[0]] = kv[1]
		}
	}
	return m
}
func pkvl(s string) map[string][]string {
	m := map[string][]string{}
	for _, it := range plist(s) {
		kv := strings.SplitN(it, RS, 2)
		if len(kv) == 2 {
			if kv[1] == "" {
				m[kv[0]] = []string{}
			} else {
				m[kv[0]] = strings.Split(kv[1], GS)
			}
		}
	}
	return m
}
func b01(b bool) string {
	if b {
		return "1"
	}
	return "0"
}

var workerN int

func mkProc(pattern string, outs map[string]string) (*sp.Workflow, *sp.Process) {
	workerN++
	wf := sp.VerifNewWorkflowQuiet(fmt.Sprintf("w%d", workerN), 4)
	p := wf.NewProc("proc", pattern)
	for name, path := range outs {
		path := path
		p.SetOutFunc(name, func(t *sp.Task) string { return path })
	}
	return wf, p
}

func pureHandle(line string) string {
	f := strings.Split(line, "\t")
	switch f[0] {
	case "enc":
		return sp.VerifEncodeParentDirs(f[1])
	case "dec":
		return sp.VerifDecodeParentDirs(f[1])
	case "tmppath":
		ip, err := sp.NewFileIP(f[1])
		if err != nil {
			return "INVALID"
		}
		return ip.TempPath()
	case "decextra":
		// what FinalizePaths does to a path relative to the temp dir
		fin := strings.Replace(f[1], sp.FSRootPlaceHolder+"/", "/", 1)
		return sp.VerifDecodeParentDirs(fin)
	case "prepend":
		return sp.VerifPrependParentDirPath(f[1])
	case "validpath":
		return b01(sp.VerifPathIsValid(f[1]))
	case "sanitize":
		return sp.VerifSanitizePathFragment(f[1])
	case "splitpaths":
		return strings.Join(sp.VerifSplitAllPaths(f[1]), US)
	case "mods":
		return sp.VerifApplyPathModifiers(f[1], plist(f[2]))
	case "placeholders":
		out := []string{}
		for _, m := range sp.VerifPlaceholderMatches(f[1]) {
			out = append(out, strings.Join([]string{m[0], m[1], m[2]}, RS))
		}
		return strings.Join(out, US)
	case "ports":
		_, p := mkProc(f[1], nil)
		infos := sp.VerifPortInfos(p)
		names := []string{}
		for n := range infos {
			names = append(names, n)
		}
		sort.Strings(names)
		out := []string{}
		for _, n := range names {
			i := infos[n]
			out = append(out, strings.Join([]string{n, i.PortType, i.Extension, b01(i.DoStream), b01(i.Join), i.JoinSep}, RS))
		}
		return strings.Join(out, US)
	case "fmtcmd", "fmtspec":
		_, p := mkProc(f[1], pkvs(f[4]))
		p.Prepend = f[7]
		t := sp.VerifNewTask(p, pkvs(f[2]), pkvl(f[3]), pkvs(f[5]), pkvs(f[6]))
		return "OK\t" + t.Command
	case "setout":
		_, p := mkProc("echo {o:out}", nil)
		// in-ports / param ports named in the environment must exist for InPath/Param to work
		p.SetOut("out", f[1])
		ins := pkvs(f[2])
		t := sp.VerifNewTask(p, ins, nil, pkvs(f[3]), pkvs(f[4]))
		return "OK\t" + t.OutIPs["out"].Path()
	case "defpath":
		// pattern with the wanted ports so that the default path function is installed
		ins, params, tags := pkvs(f[4]), pkvs(f[5]), pkvs(f[6])
		pat := "cmd"
		for _, k := range sortedKeys(ins) {
			pat += " {i:" + k + "}"
		}
		for _, k := range sortedKeys(params) {
			pat += " {p:" + k + "}"
		}
		ext := ""
		if f[3] != "" {
			ext = "|." + f[3]
		}
		pat += " {o:" + f[2] + ext + "}"
		wf := sp.VerifNewWorkflowQuiet(fmt.Sprintf("d%d", workerN), 4)
		workerN++
		p := wf.NewProc(f[1], pat)
		t := sp.VerifNewTask(p, ins, nil, params, tags)
		return t.OutIPs[f[2]].Path()
	case "defpath2":
		// like defpath, for a process with several out-ports (f[2] = "port:ext,port:ext,..."): all default paths
		ins, params, tags := pkvs(f[4]), pkvs(f[5]), pkvs(f[6])
		pat := "cmd"
		for _, k := range sortedKeys(ins) {
			pat += " {i:" + k + "}"
		}
		for _, k := range sortedKeys(params) {
			pat += " {p:" + k + "}"
		}
		ports := []string{}
		for _, pe := range strings.Split(f[2], ",") {
			kv := strings.SplitN(pe, ":", 2)
			ports = append(ports, kv[0])
			ext := ""
			if len(kv) == 2 && kv[1] != "" {
				ext = "|." + kv[1]
			}
			pat += " {o:" + kv[0] + ext + "}"
		}
		wf := sp.VerifNewWorkflowQuiet(fmt.Sprintf("d%d", workerN), 4)
		workerN++
		p := wf.NewProc(f[1], pat)
		t := sp.VerifNewTask(p, ins, nil, params, tags)
		out := []string{}
		for _, pn := range ports {
			out = append(out, t.OutIPs[pn].Path())
		}
		return strings.Join(out, US)
	case "tmpdir":
		ins, subs, params, tags := pkvs(f[2]), pkvl(f[3]), pkvs(f[4]), pkvs(f[5])
		pat := "cmd"
		for _, k := range sortedKeys(ins) {
			if _, isSub := subs[k]; isSub {
				pat += " {i:" + k + "|join:,}"
			} else {
				pat += " {i:" + k + "}"
			}
		}
		for _, k := range sortedKeys(params) {
			pat += " {p:" + k + "}"
		}
		wf := sp.VerifNewWorkflowQuiet(fmt.Sprintf("t%d", workerN), 4)
		workerN++
		p := wf.NewProc(f[1], pat)
		t := sp.VerifNewTask(p, ins, subs, params, tags)
		return t.TempDir()
	case "combine":
		in := pkvl(f[2])
		out := spc.VerifCombine(in, plist(f[1]))
		// canonical form: one entry per port; a port absent from the result map carries nothing
		// (FileCombinator/ParamCombinator.Run start no sender for it and close the port)
		ks := append([]string{}, plist(f[1])...)
		sort.Strings(ks)
		res := []string{}
		for _, k := range ks {
			res = append(res, k+RS+strings.Join(out[k], GS))
		}
		return strings.Join(res, US)
	case "base":
		return filepath.Base(f[1])
	case "clean":
		return filepath.Clean(f[1])
	}
	return "bad-request"
}

func pureWorkerMain() {
	// the library's loggers are package variables set by InitLog*(); every real use creates a workflow first,
	// which initialises them. Do the same here, or a request that reaches a Warning.Printf before any
	// workflow-creating request panics on a nil logger (seen with VERIF_SEED=25).
	sp.InitLogError()
	// run in a private scratch directory: NewFileIP stats paths relative to the cwd
	in := bufio.NewReaderSize(os.Stdin, 1<<20)
	out := bufio.NewWriter(os.Stdout)
	for {
		line, err := in.ReadString('\n')
		if err != nil {
			return
		}
		line = strings.TrimRight(line, "\n")
		resp := func() (r string) {
			defer func() {
				if e := recover(); e != nil {
					r = fmt.Sprintf("PANIC")
				}
			}()
			return pureHandle(line)
		}()
		out.WriteString(strings.Replace(resp, "\n", "\\n", -1) + "\n")
		out.Flush()
	}
}
