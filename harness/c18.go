package main

import (
	"encoding/json"
	"fmt"
	"io/ioutil"
	"os"
	"path/filepath"
	"strings"
)

// C18: joined in-ports. Real workflows FileSource -> (stage) -> StreamToSubStream -> joining
// process; sub-stream lengths 0..B+5, separators, modifiers; the command line the task executed is
// recorded and compared with the Lean formatting model; contents, audit upstream, task count.

type c18Case struct {
	N    int    `json:"n"`
	Buf  int    `json:"bufsize"`
	Sep  string `json:"sep"`
	Mod  string `json:"mod"`
	Slow bool   `json:"slow_producers"`
	Extra int   `json:"extra_ports,omitempty"` // ordinary in-ports of the joining process besides the joined one
}

func runC18(ctx *Ctx, w *Worker, c c18Case) {
	d := &Desc{Name: "c18", Max: 4}
	pre := map[string]string{}
	paths := []string{}
	for i := 0; i < c.N; i++ {
		p := fmt.Sprintf("m%02d.txt", i)
		if i%3 == 1 {
			p = fmt.Sprintf("sub/m%02d.txt", i)
		}
		paths = append(paths, p)
		pre[p] = fmt.Sprintf("member-%d\n", i)
	}
	d.Nodes = append(d.Nodes, Node{Name: "src", Kind: "filesource", Paths: append([]string{}, paths...)})
	prev := "src.out"
	if c.Slow {
		d.Nodes = append(d.Nodes, Node{Name: "stage", Kind: "proc", Cmd: "( sleep 0.0$((RANDOM % 4)) ; cat {i:in} > {o:out} )", Outs: map[string]string{"out": "{i:in}.st"}})
		d.Edges = append(d.Edges, Edge{From: prev, To: "stage.in"})
		prev = "stage.out"
		for i := range paths {
			pre[paths[i]+".st"] = "" // not pre-created: removed below
			delete(pre, paths[i]+".st")
			paths[i] = paths[i] + ".st"
		}
	}
	ph := "{i:in|join:" + c.Sep
	if c.Mod != "" {
		ph = "{i:in|" + c.Mod + "|join:" + c.Sep
	}
	ph += "}"
	// the command records its own argument string, then concatenates the members
	pattern := `( echo "ARGS ` + ph + `" > args.log ; for f in $(echo "` + ph + `" | tr '` + c.Sep + `' ' ') ; do cat "$f" ; done > {o:out} )`
	if c.Mod != "" {
		// with a modifier the members need not be resolvable: only record the expansion
		pattern = `( echo "ARGS ` + ph + `" > args.log ; echo x > {o:out} )`
	}
	extraPaths := []string{}
	for k := 0; k < c.Extra; k++ {
		// one more source with one file per extra port; the command reads it too
		ep := fmt.Sprintf("extra%d.txt", k)
		pre[ep] = fmt.Sprintf("extra-%d\n", k)
		extraPaths = append(extraPaths, ep)
		pattern = fmt.Sprintf("( cat {i:x%d} > /dev/null ; %s )", k, pattern)
		d.Nodes = append(d.Nodes, Node{Name: fmt.Sprintf("esrc%d", k), Kind: "filesource", Paths: []string{ep}})
		d.Edges = append(d.Edges, Edge{From: fmt.Sprintf("esrc%d.out", k), To: fmt.Sprintf("join.x%d", k)})
	}
	d.Nodes = append(d.Nodes, Node{Name: "sts", Kind: "substream"}, Node{Name: "join", Kind: "proc", Cmd: pattern, Outs: map[string]string{"out": "joined.out"}})
	d.Edges = append(d.Edges, Edge{From: prev, To: "sts.in"}, Edge{From: "sts.substream", To: "join.in"})
	rr := RunWorkflow(d, RunOpts{Pre: pre, Env: []string{fmt.Sprintf("SCIPIPE_BUFSIZE=%d", c.Buf)}, Timeout: 20e9})
	defer os.RemoveAll(rr.Dir)
	ctx.Res.Eval(fmt.Sprintf("%v", c), c.N >= 2, c)
	ctx.Res.Count(fmt.Sprintf("n=%d", c.N))
	if c.N > c.Buf {
		ctx.Res.Count("substream>buffer")
	}
	if rr.Exit != 0 {
		ctx.Res.Violate(Violation{What: fmt.Sprintf("joining workflow exited %d: %s", rr.Exit, tail(rr.Stderr)), Class: "c18.run-failed", Witness: c})
		return
	}
	// one task per sub-stream
	execs := 0
	for _, e := range rr.Trace {
		if e.Point == "in.cmd.before" && e.Args[0] == "join" {
			execs++
		}
	}
	if execs != 1 {
		ctx.Res.Violate(Violation{What: fmt.Sprintf("the joining process executed %d tasks for one sub-stream", execs), Class: "c18.task-count", Witness: c})
	}
	args, _ := readFile(rr.Dir, "args.log")
	args = strings.TrimSuffix(strings.TrimPrefix(args, "ARGS "), "\n")
	mods := []string{}
	if c.Mod != "" {
		mods = []string{c.Mod}
	}
	// expected: members in arrival order (= source order), each modified and prefixed with ../
	exp := []string{}
	for _, p := range paths {
		m := p
		if c.Mod == "basename" {
			m = filepath.Base(p)
		} else if c.Mod != "" {
			m = w.Ask("mods", p, c.Mod) // the real modifier function on this member alone
		}
		exp = append(exp, "../"+m)
	}
	if args != strings.Join(exp, c.Sep) {
		ctx.Res.Violate(Violation{What: fmt.Sprintf("joined placeholder expanded to %q, expected the %d members in arrival order: %q", args, c.N, strings.Join(exp, c.Sep)), Class: "c18.expansion", Witness: c})
	}
	// Lean model of the expansion
	model := ctx.Drv.Ask("fmtcmd", ph, "in"+RS+"carrier", "in"+RS+strings.Join(paths, GS), "", "", "", "")
	if c.N > 0 && model != "OK\t"+args {
		ctx.Res.Disagree(Violation{What: fmt.Sprintf("joined expansion: real %q, model %q", args, model), Class: "c18.model", Witness: c})
	}
	_ = mods
	// contents: every member once, in order (for resolvable members)
	if c.Mod == "" {
		want := ""
		for i := 0; i < c.N; i++ {
			want += fmt.Sprintf("member-%d\n", i)
		}
		got, _ := readFile(rr.Dir, "joined.out")
		if got != want {
			ctx.Res.Violate(Violation{What: fmt.Sprintf("joined output holds %q, expected every member once in order %q (members must be resolvable from the task's directory)", got, want), Class: "c18.content", Witness: c})
		}
	}
	// audit: every member is recorded as upstream
	b, err := ioutil.ReadFile(filepath.Join(rr.Dir, "joined.out.audit.json"))
	if err != nil {
		ctx.Res.Violate(Violation{What: "no audit file next to the joined output", Class: "c18.audit", Witness: c})
		return
	}
	var ai struct{ Upstream map[string]json.RawMessage }
	json.Unmarshal(b, &ai)
	for _, p := range paths {
		if _, ok := ai.Upstream[p]; !ok {
			ctx.Res.Violate(Violation{What: fmt.Sprintf("member %s is not recorded as upstream of the joining task (upstream keys %v)", p, keysOf(ai.Upstream)), Class: "c18.audit", Witness: c})
			break
		}
	}
	for _, p := range extraPaths {
		if _, ok := ai.Upstream[p]; !ok {
			ctx.Res.Violate(Violation{What: fmt.Sprintf("input %s of an ordinary in-port is not recorded as upstream of the joining task (upstream keys %v)", p, keysOf(ai.Upstream)), Class: "c18.audit", Witness: c})
			break
		}
	}
	if len(ai.Upstream) != c.N+c.Extra {
		ctx.Res.Violate(Violation{What: fmt.Sprintf("audit record lists %d upstream entries for %d members: %v", len(ai.Upstream), c.N, keysOf(ai.Upstream)), Class: "c18.audit", Witness: c})
	}
}

func keysOf(m map[string]json.RawMessage) []string {
	out := []string{}
	for k := range m {
		out = append(out, k)
	}
	sortStrings(out)
	return out
}

// a sub-stream with members given by absolute paths beside relative ones: every member as the command sees it
// resolves, from the task's directory, to the member's file
func joinAbsoluteMembers(ctx *Ctx) {
	dir := newDir()
	defer os.RemoveAll(dir)
	abs := filepath.Join(dir, "absdir", "m1.txt")
	pre := map[string]string{"m0.txt": "member-0\n", "absdir/m1.txt": "member-1\n", "m2.txt": "member-2\n"}
	d := &Desc{Name: "c18abs", Max: 2, Nodes: []Node{{Name: "src", Kind: "filesource", Paths: []string{"m0.txt", abs, "m2.txt"}},
		{Name: "sts", Kind: "substream"},
		{Name: "join", Kind: "proc", Cmd: "( cat {i:in|join: } > {o:out} )", Outs: map[string]string{"out": "joinedabs.out"}}},
		Edges: []Edge{{From: "src.out", To: "sts.in"}, {From: "sts.substream", To: "join.in"}}}
	rr := RunWorkflow(d, RunOpts{Dir: dir, Pre: pre, Timeout: 20e9})
	ctx.Res.Eval("join with an absolute member path", true, "abs-member")
	ctx.Res.Count("absolute-member")
	got, _ := readFile(dir, "joinedabs.out")
	if rr.Exit != 0 || got != "member-0\nmember-1\nmember-2\n" {
		ctx.Res.Violate(Violation{What: fmt.Sprintf("joining the members [m0.txt %s m2.txt]: exit %d, output %q — a member did not resolve from the task's directory (%s)", abs, rr.Exit, got, firstLine(rr.Stderr)), Class: "c18.content", Witness: "abs-member"})
	}
}

// a process with two joined in-ports, each fed by its own sub-stream: every placeholder carries its own members only
func twoJoinedPorts(ctx *Ctx, na, nb int) {
	d := &Desc{Name: "c18two", Max: 4}
	pre := map[string]string{}
	mk := func(pfx string, n int) []string {
		ps := []string{}
		for i := 0; i < n; i++ {
			p := fmt.Sprintf("%s%d.txt", pfx, i)
			ps = append(ps, p)
			pre[p] = p + "\n"
		}
		return ps
	}
	pa, pb := mk("a", na), mk("b", nb)
	d.Nodes = []Node{{Name: "srca", Kind: "filesource", Paths: pa}, {Name: "srcb", Kind: "filesource", Paths: pb},
		{Name: "stsa", Kind: "substream"}, {Name: "stsb", Kind: "substream"},
		{Name: "join", Kind: "proc", Cmd: `( echo "A {i:a|join: }" > args.log ; echo "B {i:b|join:,}" >> args.log ; echo x > {o:out} )`, Outs: map[string]string{"out": "joined2.out"}}}
	d.Edges = []Edge{{From: "srca.out", To: "stsa.in"}, {From: "srcb.out", To: "stsb.in"}, {From: "stsa.substream", To: "join.a"}, {From: "stsb.substream", To: "join.b"}}
	rr := RunWorkflow(d, RunOpts{Pre: pre, Timeout: 20e9})
	defer os.RemoveAll(rr.Dir)
	w := [2]int{na, nb}
	ctx.Res.Eval(fmt.Sprintf("two-joined-ports %d+%d", na, nb), true, w)
	ctx.Res.Count("two-joined-ports")
	if rr.Exit != 0 {
		ctx.Res.Violate(Violation{What: fmt.Sprintf("workflow with two joined in-ports exited %d: %s", rr.Exit, tail(rr.Stderr)), Class: "c18.run-failed", Witness: w})
		return
	}
	pref := func(ps []string, sep string) string {
		out := []string{}
		for _, p := range ps {
			out = append(out, "../"+p)
		}
		return strings.Join(out, sep)
	}
	args, _ := readFile(rr.Dir, "args.log")
	want := "A " + pref(pa, " ") + "\nB " + pref(pb, ",") + "\n"
	if args != want {
		ctx.Res.Violate(Violation{What: fmt.Sprintf("with two joined in-ports the placeholders expanded to %q, expected each port's own members: %q", args, want), Class: "c18.expansion", Witness: w})
	}
	b, err := ioutil.ReadFile(filepath.Join(rr.Dir, "joined2.out.audit.json"))
	var ai struct{ Upstream map[string]json.RawMessage }
	if err == nil {
		json.Unmarshal(b, &ai)
	}
	if err != nil || len(ai.Upstream) != na+nb {
		ctx.Res.Violate(Violation{What: fmt.Sprintf("audit record of the task with two joined in-ports lists upstream %v, expected the %d members", keysOf(ai.Upstream), na+nb), Class: "c18.audit", Witness: w})
	}
}

func checkC18(ctx *Ctx) {
	ctx.Res.Rule = "FileSource -> (optional stage with random task durations) -> StreamToSubStream -> joining process; sub-stream lengths {0,1,2,3,B,B+5} for SCIPIPE_BUFSIZE in {1,2,3}, separators {space, comma, colon}, with and without a path modifier (basename, %suffix, s/a/b/); non-trivial = at least two members; distinct by case. Checks: one task per sub-stream, the placeholder's expansion as seen by the command (members in arrival order, separated by SEP, each prefixed for the task's directory), the Lean formatting model's expansion, the concatenated contents, and the audit record's upstream keys; also: a process with two joined in-ports fed by two sub-streams."
	w := &Worker{}
	defer w.Close()
	r := NewRng(ctx.Seed)
	cases := []c18Case{}
	for _, B := range []int{1, 2, 3} {
		for _, n := range []int{0, 1, 2, 3, B, B + 5} {
			if !ctx.Thorough() && r.Intn(2) == 0 && n != B+5 {
				continue
			}
			cases = append(cases, c18Case{N: n, Buf: B, Sep: []string{" ", ",", ":"}[r.Intn(3)], Mod: []string{"", "", "basename"}[r.Intn(3)], Slow: r.Intn(3) == 0})
			if ctx.Thorough() {
				for _, sep := range []string{" ", ",", ":", "::", " : "} {
					cases = append(cases, c18Case{N: n, Buf: B, Sep: sep, Mod: []string{"", "basename", "%.txt", "s/m/q/"}[r.Intn(4)], Slow: r.Intn(2) == 0})
				}
			}
		}
	}
	// modifiers on a joined port apply to every member, not to the joined string
	cases = append(cases, c18Case{N: 3, Buf: 2, Sep: " ", Mod: "basename"}, c18Case{N: 3, Buf: 1, Sep: ",", Mod: "%.txt"}, c18Case{N: 4, Buf: 3, Sep: ":", Mod: "s/m/q/", Slow: true})
	// a joined in-port next to ordinary in-ports (several repetitions: Go's map order decides which port is visited first)
	for k := 0; k < 4; k++ {
		cases = append(cases, c18Case{N: 3, Buf: 2, Sep: " ", Extra: 3})
	}
	parallel(len(cases), 6, func(i int) {
		if ctx.TimeLeft() {
			runC18(ctx, w, cases[i])
		}
	})
	for k := 0; k < 4; k++ { // repeated: Go's map order decides which port is collected first
		twoJoinedPorts(ctx, 3, 2)
	}
	twoJoinedPorts(ctx, 1, 4)
	joinAbsoluteMembers(ctx)
}

func init() { checks["C18"] = checkC18 }
