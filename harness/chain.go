package main

import (
	"fmt"
	"os"
	"path/filepath"
	"sort"
	"strings"
	"syscall"
)

// A family of workflows with a Go-side oracle: k source files flow through `depth` levels; level j
// is a process L<j> with one in-port and one or two out-ports; the expected content of every file is
// a deterministic function of the bytes actually found upstream.

type Level struct {
	TwoOut    bool   `json:"two_out,omitempty"`
	SleepMs   int    `json:"sleep_ms,omitempty"`
	Fault     string `json:"fault,omitempty"`
	FaultWhen string `json:"fault_when,omitempty"`
	Cores     int    `json:"cores,omitempty"`
	Sub       string `json:"sub,omitempty"` // put outputs into this sub-directory
}

type Chain struct {
	Inputs []string `json:"inputs"`
	Levels []Level  `json:"levels"`
	Max    int      `json:"max"`
	Fanout bool     `json:"fanout,omitempty"` // last level is fed twice: a side branch B off level 0
}

func (c Chain) procName(j int) string { return fmt.Sprintf("L%d", j) }

func (c Chain) outPath(in string, j int, port string) string {
	l := c.Levels[j]
	name := fmt.Sprintf("%s.L%d.txt", in, j)
	if port == "aux" {
		name = fmt.Sprintf("%s.L%d.aux.txt", in, j)
	}
	_ = l
	return name
}

// path of the output of level j (port out) for source input x
func (c Chain) pathAt(x string, j int) string {
	p := x
	for i := 0; i <= j; i++ {
		p = c.outPath(p, i, "out")
	}
	return p
}

func (c Chain) desc() *Desc {
	d := &Desc{Name: "chain", Max: c.Max}
	d.Nodes = append(d.Nodes, Node{Name: "src", Kind: "filesource", Paths: c.Inputs})
	prev := "src.out"
	for j, l := range c.Levels {
		outs := []string{"out"}
		pats := map[string]string{"out": "{i:in}." + c.procName(j) + ".txt"}
		if l.TwoOut {
			outs = append(outs, "aux")
			pats["aux"] = "{i:in}." + c.procName(j) + ".aux.txt"
		}
		spec := CmdSpec{Proc: c.procName(j), Ins: []string{"in"}, Outs: outs, SleepMs: l.SleepMs, Fault: l.Fault, FaultWhen: l.FaultWhen}
		d.Nodes = append(d.Nodes, Node{Name: c.procName(j), Kind: "proc", Cmd: spec.Pattern(), Outs: pats, Cores: l.Cores})
		d.Edges = append(d.Edges, Edge{From: prev, To: c.procName(j) + ".in"})
		prev = c.procName(j) + ".out"
	}
	if c.Fanout {
		spec := CmdSpec{Proc: "B", Ins: []string{"in"}, Outs: []string{"out"}}
		d.Nodes = append(d.Nodes, Node{Name: "B", Kind: "proc", Cmd: spec.Pattern(), Outs: map[string]string{"out": "{i:in}.B.txt"}})
		d.Edges = append(d.Edges, Edge{From: "L0.out", To: "B.in"})
	}
	return d
}

func (c Chain) sources() map[string]string {
	m := map[string]string{}
	for _, x := range c.Inputs {
		m[x] = "src:" + x + "\n"
	}
	return m
}

// all (task id, input path, output paths) of the chain
type ChainTask struct {
	Proc string
	In   string
	Outs map[string]string // port -> path
}

func (c Chain) tasks() []ChainTask {
	ts := []ChainTask{}
	for _, x := range c.Inputs {
		in := x
		for j, l := range c.Levels {
			outs := map[string]string{"out": c.outPath(in, j, "out")}
			if l.TwoOut {
				outs["aux"] = c.outPath(in, j, "aux")
			}
			ts = append(ts, ChainTask{c.procName(j), in, outs})
			if j == 0 && c.Fanout {
				ts = append(ts, ChainTask{"B", outs["out"], map[string]string{"out": outs["out"] + ".B.txt"}})
			}
			in = outs["out"]
		}
	}
	return ts
}

// expected content of a task's output given the bytes of its input
func expectContent(proc, port, inContent string) string {
	return inContent + proc + "|" + port + "|\n"
}

type statInfo struct {
	Ino   uint64
	Mtime int64
	Size  int64
}

func statOf(path string) (statInfo, bool) {
	fi, err := os.Stat(path)
	if err != nil {
		return statInfo{}, false
	}
	st := fi.Sys().(*syscall.Stat_t)
	return statInfo{st.Ino, fi.ModTime().UnixNano(), fi.Size()}, true
}

// executed (proc, first-output-basename) pairs from the command trace
func startedTasks(lines []string) map[string]int {
	m := map[string]int{}
	for _, l := range lines {
		f := strings.Fields(l)
		if len(f) >= 3 && f[0] == "S" {
			m[f[1]+" "+f[2]]++
		}
	}
	return m
}

func taskKey(t ChainTask) string { return t.Proc + " " + filepath.Base(t.Outs["out"]) }

func removeLeftovers(dir string) int {
	n := 0
	filepath.Walk(dir, func(p string, fi os.FileInfo, err error) error {
		if err != nil || p == dir {
			return nil
		}
		b := filepath.Base(p)
		if fi.IsDir() && strings.HasPrefix(b, "_scipipe_tmp") {
			os.RemoveAll(p)
			n++
			return filepath.SkipDir
		}
		if strings.HasSuffix(b, ".fifo") {
			os.Remove(p)
			n++
		}
		return nil
	})
	return n
}

func leftovers(dir string) []string {
	out := []string{}
	filepath.Walk(dir, func(p string, fi os.FileInfo, err error) error {
		if err != nil || p == dir {
			return nil
		}
		b := filepath.Base(p)
		if (fi.IsDir() && strings.HasPrefix(b, "_scipipe_tmp")) || strings.HasSuffix(b, ".fifo") {
			rel, _ := filepath.Rel(dir, p)
			out = append(out, rel)
		}
		return nil
	})
	sort.Strings(out)
	return out
}

func genChain(r *Rng, thorough bool) Chain {
	c := Chain{Max: 1 + r.Intn(4)}
	k := 1 + r.Intn(3)
	names := []string{"a.txt", "b.txt", "c.txt", "d.txt"}
	for i := 0; i < k; i++ {
		c.Inputs = append(c.Inputs, names[i])
	}
	depth := 1 + r.Intn(3)
	for j := 0; j < depth; j++ {
		l := Level{TwoOut: r.Intn(4) == 0, Cores: 1}
		if r.Intn(3) == 0 {
			l.SleepMs = 5 + r.Intn(25)
		}
		c.Levels = append(c.Levels, l)
	}
	c.Fanout = r.Intn(4) == 0
	return c
}
