package main

import (
	"fmt"
	"sort"
	"strings"
)

// Random acyclic workflows with a Go-side oracle for "which tasks run and what they write".
// Nodes are numbered in topological order. Every process has one out-port `out` (optionally none:
// a leaf without out-ports) and 0..2 file in-ports fed by one upstream each, plus optional
// parameter ports fed by FromStr or by a ParamSource node.

type DNode struct {
	Name    string   `json:"name"`
	Kind    string   `json:"kind"` // src | proc | psrc | pcomb (ParamCombinator fed by the ParamSource PIn)
	Ins     []string `json:"ins,omitempty"`    // upstream node names, one per in-port in0, in1
	PIn     string   `json:"pin,omitempty"`    // upstream ParamSource node for param port `p` ("" = none, "@" = FromStr)
	PVals   []string `json:"pvals,omitempty"`  // FromStr values / ParamSource values
	NoOut   bool     `json:"no_out,omitempty"` // process without out-ports (writes a side file through a param-less echo)
	Items   int      `json:"items,omitempty"`  // src: number of files
	Aux     bool     `json:"aux,omitempty"`    // process with a second out-port `aux`; a consumer names it "<process>#aux"
}

// the process behind an upstream reference ("P3" or "P3#aux")
func baseName(u string) string { return strings.TrimSuffix(u, "#aux") }

type Dag struct {
	Nodes []DNode `json:"nodes"`
	Max   int     `json:"max"`
}

func (g Dag) node(name string) *DNode {
	name = baseName(name)
	for i := range g.Nodes {
		if g.Nodes[i].Name == name {
			return &g.Nodes[i]
		}
	}
	return nil
}

func (g Dag) desc() (*Desc, map[string]string) {
	d := &Desc{Name: "dag", Max: g.Max}
	pre := map[string]string{}
	for _, n := range g.Nodes {
		switch n.Kind {
		case "src":
			paths := []string{}
			for i := 0; i < n.Items; i++ {
				p := fmt.Sprintf("%s_%d.txt", n.Name, i)
				paths = append(paths, p)
				pre[p] = "src:" + p + "\n"
			}
			d.Nodes = append(d.Nodes, Node{Name: n.Name, Kind: "filesource", Paths: paths})
		case "psrc":
			d.Nodes = append(d.Nodes, Node{Name: n.Name, Kind: "paramsource", Values: n.PVals})
		case "pcomb":
			// a ParamCombinator with one in-param-port `x` fed by the ParamSource n.PIn: a parameter
			// producer that has an upstream process of its own
			d.Nodes = append(d.Nodes, Node{Name: n.Name, Kind: "paramcombinator", Ports: []string{"x"}})
			d.Edges = append(d.Edges, Edge{From: n.PIn + ".out", To: n.Name + ".x", Param: true})
		case "proc":
			ins := []string{}
			for i := range n.Ins {
				ins = append(ins, fmt.Sprintf("in%d", i))
			}
			params := []string{}
			if n.PIn != "" {
				params = []string{"p"}
			}
			node := Node{Name: n.Name, Kind: "proc"}
			if n.NoOut {
				// no out-port: the command writes nothing scipipe knows about, only the trace lines
				cat := ""
				for _, i := range ins {
					cat += " {i:" + i + "}"
				}
				par := ""
				if n.PIn != "" {
					par = " {p:p}"
				}
				node.Cmd = fmt.Sprintf(`( echo "S %s noout%s%s $EPOCHREALTIME" >> "$VERIF_CMDTRACE" ; sleep 0.02 ; cat%s > /dev/null ; echo "E %s noout $EPOCHREALTIME" >> "$VERIF_CMDTRACE" )`, n.Name, strings.Replace(cat, " ", "_", -1), par, cat, n.Name)
				if cat == "" {
					node.Cmd = strings.Replace(node.Cmd, "cat > /dev/null ; ", "", 1)
				}
			} else {
				spec := CmdSpec{Proc: n.Name, Ins: ins, Outs: []string{"out"}, Params: params}
				if n.Aux {
					spec.Outs = []string{"out", "aux"}
				}
				node.Cmd = spec.Pattern()
				pat := n.Name
				for _, i := range ins {
					pat += ".{i:" + i + "|basename}"
				}
				if n.PIn != "" {
					pat += ".{p:p}"
				}
				node.Outs = map[string]string{"out": pat + ".o"}
				if n.Aux {
					node.Outs["aux"] = pat + ".x"
				}
			}
			if n.PIn == "@" {
				node.FromStr = map[string][]string{"p": n.PVals}
			}
			d.Nodes = append(d.Nodes, node)
			for i, up := range n.Ins {
				from := up + ".out"
				if strings.HasSuffix(up, "#aux") {
					from = baseName(up) + ".aux"
				}
				d.Edges = append(d.Edges, Edge{From: from, To: fmt.Sprintf("%s.in%d", n.Name, i)})
			}
			if n.PIn != "" && n.PIn != "@" {
				from := n.PIn + ".out"
				if up := g.node(n.PIn); up != nil && up.Kind == "pcomb" {
					from = n.PIn + ".x"
				}
				d.Edges = append(d.Edges, Edge{From: from, To: n.Name + ".p", Param: true})
			}
		}
	}
	return d, pre
}

// upstream closure (reflexive) of a set of node names
func (g Dag) closure(targets []string) map[string]bool {
	set := map[string]bool{}
	var visit func(n string)
	visit = func(n string) {
		if set[n] {
			return
		}
		set[n] = true
		nd := g.node(n)
		for _, u := range nd.Ins {
			visit(baseName(u))
		}
		if nd.PIn != "" && nd.PIn != "@" {
			visit(nd.PIn)
		}
	}
	for _, t := range targets {
		visit(t)
	}
	return set
}

// number of items each node emits on `out` (tasks of a proc = min over its inputs)
func (g Dag) counts() map[string]int {
	c := map[string]int{}
	for _, n := range g.Nodes {
		switch n.Kind {
		case "src":
			c[n.Name] = n.Items
		case "psrc":
			c[n.Name] = len(n.PVals)
		case "pcomb":
			c[n.Name] = c[n.PIn]
		case "proc":
			m := -1
			for _, u := range n.Ins {
				if m < 0 || c[u] < m {
					m = c[u]
				}
			}
			if n.PIn == "@" {
				if m < 0 || len(n.PVals) < m {
					m = len(n.PVals)
				}
			} else if n.PIn != "" {
				if m < 0 || c[n.PIn] < m {
					m = c[n.PIn]
				}
			}
			if m < 0 {
				m = 1 // a process without ports runs exactly once
			}
			c[n.Name] = m
			if n.Aux {
				c[n.Name+"#aux"] = m
			}
		}
	}
	return c
}

func (g Dag) procNames() []string {
	out := []string{}
	for _, n := range g.Nodes {
		if n.Kind == "proc" {
			out = append(out, n.Name)
		}
	}
	sort.Strings(out)
	return out
}

// commands started per process, from the trace
func startedPerProc(lines []string) map[string]int {
	m := map[string]int{}
	for _, l := range lines {
		f := strings.Fields(l)
		if len(f) >= 2 && f[0] == "S" {
			m[f[1]]++
		}
	}
	return m
}
func endedPerProc(lines []string) map[string]int {
	m := map[string]int{}
	for _, l := range lines {
		f := strings.Fields(l)
		if len(f) >= 2 && f[0] == "E" {
			m[f[1]]++
		}
	}
	return m
}

// every process receives the same number of items on all its in-ports and parameter ports
func (g Dag) balanced() bool {
	c := g.counts()
	for _, n := range g.Nodes {
		if n.Kind != "proc" {
			continue
		}
		want := -1
		chk := func(k int) bool {
			if want < 0 {
				want = k
				return true
			}
			return k == want
		}
		for _, u := range n.Ins {
			if !chk(c[u]) {
				return false
			}
		}
		if n.PIn == "@" {
			if !chk(len(n.PVals)) {
				return false
			}
		} else if n.PIn != "" {
			if !chk(c[n.PIn]) {
				return false
			}
		}
	}
	return true
}

// genBalancedDag: like genDag, but all streams have the same length L
func genBalancedDag(r *Rng, allowNoOut bool, streamMax int) Dag {
	L := r.Intn(streamMax + 1)
	g := genDag(r, allowNoOut, streamMax)
	portless := map[string]bool{}
	for i := range g.Nodes {
		n := &g.Nodes[i]
		switch n.Kind {
		case "src":
			n.Items = L
		case "psrc":
			n.PVals = nil
			for k := 0; k < L; k++ {
				n.PVals = append(n.PVals, fmt.Sprintf("v%d", k))
			}
		case "proc":
			// do not consume from processes without ports (they emit exactly one item)
			ins := []string{}
			for _, u := range n.Ins {
				if !portless[baseName(u)] {
					ins = append(ins, u)
				}
			}
			n.Ins = ins
			if n.PIn == "@" {
				n.PVals = nil
				for k := 0; k < L; k++ {
					n.PVals = append(n.PVals, fmt.Sprintf("f%d", k))
				}
			}
			if len(n.Ins) == 0 && n.PIn == "" {
				portless[n.Name] = true
			}
		}
	}
	return g
}

func genDag(r *Rng, allowNoOut bool, streamMax int) Dag {
	g := Dag{Max: 1 + r.Intn(4)}
	nsrc := 1 + r.Intn(2)
	for i := 0; i < nsrc; i++ {
		g.Nodes = append(g.Nodes, DNode{Name: fmt.Sprintf("s%d", i), Kind: "src", Items: r.Intn(streamMax + 1)})
	}
	if r.Intn(3) == 0 {
		vals := []string{}
		for k := 0; k < 1+r.Intn(streamMax); k++ {
			vals = append(vals, fmt.Sprintf("v%d", k))
		}
		g.Nodes = append(g.Nodes, DNode{Name: "ps0", Kind: "psrc", PVals: vals})
		if r.Intn(2) == 0 {
			g.Nodes = append(g.Nodes, DNode{Name: "pc0", Kind: "pcomb", PIn: "ps0"})
		}
	}
	np := 1 + r.Intn(5)
	noOutUsed := false
	for i := 0; i < np; i++ {
		n := DNode{Name: fmt.Sprintf("P%d", i), Kind: "proc"}
		// candidates with an out-port
		cands := []string{}
		for _, m := range g.Nodes {
			if m.Kind == "src" || (m.Kind == "proc" && !m.NoOut) {
				cands = append(cands, m.Name)
			}
			if m.Kind == "proc" && m.Aux {
				cands = append(cands, m.Name+"#aux")
			}
		}
		nin := r.Intn(3)
		if i == 0 && nin == 0 {
			nin = 1
		}
		for k := 0; k < nin; k++ {
			n.Ins = append(n.Ins, cands[r.Intn(len(cands))])
		}
		switch r.Intn(5) {
		case 0:
			n.PIn = "@"
			for k := 0; k < 1+r.Intn(3); k++ {
				n.PVals = append(n.PVals, fmt.Sprintf("f%d", k))
			}
		case 1:
			if g.node("ps0") != nil {
				n.PIn = "ps0"
				if g.node("pc0") != nil && r.Intn(3) != 0 {
					n.PIn = "pc0"
				}
			}
		}
		if allowNoOut && !noOutUsed && r.Intn(4) == 0 {
			n.NoOut = true
			noOutUsed = true
		}
		if allowNoOut && !n.NoOut && r.Intn(4) == 0 {
			n.Aux = true // a second out-port: consumed by a later process or, if nobody takes it, by the sink
		}
		g.Nodes = append(g.Nodes, n)
	}
	return g
}

// reconvergingBatch: the DAG contains a whole-stream reader (ParamCombinator) whose source feeds at least one
// other consumer as well: the shape in which a balanced workflow can deadlock once a stream is longer than
// the channel buffer (finding F23)
func (g Dag) reconvergingBatch() bool {
	for _, n := range g.Nodes {
		if n.Kind != "pcomb" {
			continue
		}
		others := 0
		for _, m := range g.Nodes {
			if m.Name != n.Name && m.PIn == n.PIn {
				others++
			}
		}
		if others > 0 {
			return true
		}
	}
	return false
}
