package main

import (
	"reflect"
	"fmt"
	"io/ioutil"
	"os"
	"path/filepath"
	"sort"
	"strings"
)

// C03: crash / cleanup / re-run histories on chain workflows.

type attempt struct {
	Point   string `json:"point"`
	N       int    `json:"n"`
	Cleanup bool   `json:"cleanup"`
}

type c03Case struct {
	Chain   Chain     `json:"chain"`
	History []attempt `json:"history"`
}

var crashPoints = []string{"exec.start", "in.tmpcheck", "in.outcheck", "inc.enter", "inc.token", "in.mkdirs", "in.cmd.before", "in.cmd.after", "in.audit", "in.ensure", "in.finalize", "fin.renamed", "fin.rmtmp.before", "fin.rmtmp.after", "dec.enter", "dec.token", "proc.headdone", "proc.sent", "ct.round", "proc.accept"}

func snapshotFinals(dir string, c Chain) map[string]string {
	m := map[string]string{}
	for _, t := range c.tasks() {
		for _, o := range t.Outs {
			if s, ok := readFile(dir, o); ok {
				m[o] = s
			}
		}
	}
	return m
}

// expected final state of an uninterrupted run
func (c Chain) expected() map[string]string {
	content := c.sources()
	exp := map[string]string{}
	for _, t := range c.tasks() {
		for port, o := range t.Outs {
			exp[o] = expectContent(t.Proc, port, content[t.In])
			content[o] = exp[o]
		}
	}
	return exp
}

func runC03(ctx *Ctx, c c03Case) {
	dir := newDir()
	defer os.RemoveAll(dir)
	for p, content := range c.Chain.sources() {
		ioutil.WriteFile(filepath.Join(dir, p), []byte(content), 0644)
	}
	exp := c.Chain.expected()
	key := fmt.Sprintf("%v", c)
	crashes := 0
	inWindow := false
	windowOuts := []string{} // `out` paths of two-output tasks that were killed between their two renames
	downstreamOfWindow := func(o string) bool {
		for _, w := range windowOuts {
			if strings.HasPrefix(o, w+".") {
				return true
			}
		}
		return false
	}
	checkFinals := func(when string) bool {
		ok := true
		for o, got := range snapshotFinals(dir, c.Chain) {
			if got != exp[o] {
				class := "c03.wrong-content"
				if downstreamOfWindow(o) {
					// F13 seen from downstream: the skipped two-output task passes on the path of the output that
					// was never produced, and the consumer's command reads a missing file
					class = "c03.window-downstream"
				}
				ctx.Res.Violate(Violation{What: fmt.Sprintf("%s: final path %s holds %q, an uninterrupted run yields %q", when, o, got, exp[o]), Class: class, Witness: c})
				ok = false
			}
		}
		return ok
	}
	for i, a := range c.History {
		finalsBefore := snapshotFinals(dir, c.Chain)
		left := leftovers(dir)
		os.Remove(filepath.Join(dir, "_cmdtrace.log"))
		rr := RunWorkflow(c.Chain.desc(), RunOpts{Dir: dir, Env: []string{fmt.Sprintf("VERIF_CRASH_AT=%s#%d", a.Point, a.N)}})
		ctx.Res.Count("attempt:" + a.Point)
		if len(left) > 0 {
			// leftovers were not removed: the attempt must stop with a non-zero status
			if rr.Exit == 0 {
				ctx.Res.Violate(Violation{What: fmt.Sprintf("attempt %d ran to completion although leftovers %v were in place", i, left), Class: "c03.adopted-leftovers", Witness: c})
			}
		}
		if rr.Exit == -1 {
			crashes++
		}
		// tasks finalized before this attempt must not be re-executed
		started := startedTasks(rr.CmdTrace)
		for _, t := range c.Chain.tasks() {
			if _, was := finalsBefore[t.Outs["out"]]; was && started[taskKey(t)] > 0 {
				ctx.Res.Violate(Violation{What: fmt.Sprintf("attempt %d re-executed %s whose output had been finalized", i, taskKey(t)), Class: "c03.reexecuted", Witness: c})
			}
		}
		checkFinals(fmt.Sprintf("after attempt %d (%s#%d)", i, a.Point, a.N))
		// did this crash fall into the multi-output window?
		for _, t := range c.Chain.tasks() {
			if len(t.Outs) == 2 {
				_, o1 := readFile(dir, t.Outs["out"])
				_, o2 := readFile(dir, t.Outs["aux"])
				if o1 != o2 {
					inWindow = true
					windowOuts = append(windowOuts, t.Outs["out"])
				}
			}
		}
		if a.Cleanup {
			removeLeftovers(dir)
		}
	}
	left := leftovers(dir)
	os.Remove(filepath.Join(dir, "_cmdtrace.log"))
	rr := RunWorkflow(c.Chain.desc(), RunOpts{Dir: dir})
	ctx.Res.Eval(key, crashes > 0, c)
	ctx.Res.Count(fmt.Sprintf("crashes=%d", crashes))
	if len(left) > 0 {
		ctx.Res.Count("final-with-leftovers")
		if rr.Exit == 0 {
			ctx.Res.Violate(Violation{What: fmt.Sprintf("final run completed although leftovers %v were in place", left), Class: "c03.adopted-leftovers", Witness: c})
		}
		checkFinals("after refused final run")
		// model: a task facing its leftover temp dir fails in its first step
		resp := ctx.Drv.Ask("task.history", "0", "w:0:1", "ok", "", "5:0")
		if !strings.Contains(resp, "status=failed") {
			ctx.Res.Disagree(Violation{What: "model does not refuse leftovers: " + resp, Witness: c})
		}
		return
	}
	got := snapshotFinals(dir, c.Chain)
	if rr.Exit != 0 {
		ctx.Res.Violate(Violation{What: fmt.Sprintf("re-run after cleanup exited %d: %s", rr.Exit, tail(rr.Stderr)), Class: "c03.rerun-failed", Witness: c})
		return
	}
	missing := []string{}
	for o := range exp {
		if _, ok := got[o]; !ok {
			missing = append(missing, o)
		}
	}
	sort.Strings(missing)
	if len(missing) > 0 {
		class := "c03.missing"
		if inWindow {
			class = "c03.window" // F13: killed between the renames of a multi-output task
		}
		ctx.Res.Violate(Violation{What: fmt.Sprintf("after crash, cleanup and a complete re-run the files %v are missing (uninterrupted run produces them)", missing), Class: class, Witness: c})
	}
	checkFinals("after the final run")
	if l := leftovers(dir); len(l) > 0 {
		ctx.Res.Violate(Violation{What: fmt.Sprintf("complete re-run left %v behind", l), Class: "c03.leftovers", Witness: c})
	}
}

// the audit files are files too: after kill, cleanup and re-run every output's record (process, command, parameters,
// tags, outputs and the whole upstream tree; IDs and times aside) equals that of the uninterrupted run
func auditAfterRestart(ctx *Ctx, point string, n int) {
	ch := Chain{Inputs: []string{"a.txt", "b.txt"}, Levels: []Level{{}, {}, {}}, Max: 2}
	ref := newDir()
	defer os.RemoveAll(ref)
	dir := newDir()
	defer os.RemoveAll(dir)
	for p, content := range ch.sources() {
		ioutil.WriteFile(filepath.Join(ref, p), []byte(content), 0644)
		ioutil.WriteFile(filepath.Join(dir, p), []byte(content), 0644)
	}
	if r := RunWorkflow(ch.desc(), RunOpts{Dir: ref}); r.Exit != 0 {
		ctx.Res.Disagree(Violation{What: "reference run failed: " + firstLine(r.Stderr), Witness: point})
		return
	}
	want := auditsOf(ref, ch)
	r1 := RunWorkflow(ch.desc(), RunOpts{Dir: dir, Env: []string{fmt.Sprintf("VERIF_CRASH_AT=%s#%d", point, n)}})
	removeLeftovers(dir)
	r2 := RunWorkflow(ch.desc(), RunOpts{Dir: dir})
	ctx.Res.Eval(fmt.Sprintf("audit records after kill at %s#%d, cleanup, re-run", point, n), r1.Exit == -1, point)
	ctx.Res.Count("audit-after-restart")
	if r2.Exit != 0 {
		ctx.Res.Violate(Violation{What: fmt.Sprintf("re-run after cleanup exited %d: %s", r2.Exit, tail(r2.Stderr)), Class: "c03.rerun-failed", Witness: point})
		return
	}
	got := auditsOf(dir, ch)
	for o, w := range want {
		if !reflect.DeepEqual(got[o], w) {
			ctx.Res.Violate(Violation{What: fmt.Sprintf("after a kill at %s#%d, cleanup and re-run the audit file of %s differs from the uninterrupted run's: %v vs %v", point, n, o, got[o], w), Class: "c03.audit-differs", Witness: point})
			return
		}
	}
}

// default output names (no SetOut) of tasks whose inputs carry two tags: after kill, cleanup and re-run the same
// names are recognised, no finalized task runs again, the file set equals the uninterrupted run's
func defaultNamesRestart(ctx *Ctx) {
	mk := func() *Desc {
		return &Desc{Name: "c03names", Max: 2, Nodes: []Node{{Name: "s", Kind: "filesource", Paths: []string{"a.txt", "b.txt", "c.txt"}},
			{Name: "t1", Kind: "maptotags", Arg: "k1"}, {Name: "t2", Kind: "maptotags", Arg: "k2"},
			{Name: "stagea", Kind: "proc", Cmd: "( echo A >> ../stagea.trace ; cat {i:in} > {o:out} )"},
			{Name: "stageb", Kind: "proc", Cmd: "( sleep 0.2 ; cat {i:in} > {o:out} )", Outs: map[string]string{"out": "{i:in|basename}.b"}}},
			Edges: []Edge{{From: "s.out", To: "t1.in"}, {From: "t1.out", To: "t2.in"}, {From: "t2.out", To: "stagea.in"}, {From: "stagea.out", To: "stageb.in"}}}
	}
	pre := map[string]string{"a.txt": "a\n", "b.txt": "b\n", "c.txt": "c\n"}
	names := func(dir string) []string {
		out := []string{}
		for p := range listFiles(dir) {
			if !strings.HasSuffix(p, ".trace") && !strings.HasPrefix(p, "_rec.") {
				out = append(out, p)
			}
		}
		sort.Strings(out)
		return out
	}
	ref := RunWorkflow(mk(), RunOpts{Pre: pre})
	defer os.RemoveAll(ref.Dir)
	if ref.Exit != 0 {
		ctx.Res.Disagree(Violation{What: "default-names reference run failed: " + firstLine(ref.Stderr), Witness: "default-names"})
		return
	}
	want := names(ref.Dir)
	dir := newDir()
	defer os.RemoveAll(dir)
	r1 := RunWorkflow(mk(), RunOpts{Dir: dir, Pre: pre, Env: []string{"VERIF_CRASH_AT=exec.finalized#4"}})
	removeLeftovers(dir)
	before, _ := readFile(dir, "stagea.trace")
	r2 := RunWorkflow(mk(), RunOpts{Dir: dir})
	ctx.Res.Eval("default output names across kill, cleanup, re-run", r1.Exit == -1, "default-names")
	ctx.Res.Count("default-names-restart")
	after, _ := readFile(dir, "stagea.trace")
	if r2.Exit != 0 {
		ctx.Res.Violate(Violation{What: fmt.Sprintf("re-run after cleanup exited %d: %s", r2.Exit, tail(r2.Stderr)), Class: "c03.rerun-failed", Witness: "default-names"})
		return
	}
	if got := names(dir); strings.Join(got, ",") != strings.Join(want, ",") {
		ctx.Res.Violate(Violation{What: fmt.Sprintf("after kill, cleanup and re-run the files are %v, an uninterrupted run yields %v (stagea ran %d times before the kill and %d times in all for 3 inputs)", got, want, strings.Count(before, "A"), strings.Count(after, "A")), Class: "c03.wrong-files", Witness: "default-names"})
	} else if strings.Count(after, "A") != 3 {
		ctx.Res.Violate(Violation{What: fmt.Sprintf("stagea ran %d times in all for 3 inputs: a finalized task was executed again", strings.Count(after, "A")), Class: "c03.reexecuted", Witness: "default-names"})
	}
}

// leftovers of a streaming workflow: a FIFO without a temp dir (the run was killed right after the FIFO was
// created) must make the next run stop, like a leftover temp dir does
func leftoverFifo(ctx *Ctx) {
	c := c17Case{N: 1, Bytes: 100, Max: 2}
	d, pre := c.desc()
	dir := newDir()
	defer os.RemoveAll(dir)
	r1 := RunWorkflow(d, RunOpts{Dir: dir, Pre: pre, Env: []string{"VERIF_CRASH_AT=proc.fifo#1"}, Timeout: 15e9})
	ctx.Res.Eval("leftover-fifo", r1.Exit == -1, "streaming pair killed at proc.fifo#1, re-run without cleanup")
	ctx.Res.Count("attempt:proc.fifo")
	left := leftovers(dir)
	hasFifo, hasTmp := false, false
	for _, l := range left {
		if strings.HasSuffix(l, ".fifo") {
			hasFifo = true
		}
		if strings.Contains(l, "_scipipe_tmp") {
			hasTmp = true
		}
	}
	if !hasFifo {
		ctx.Res.Note("leftover-fifo: the kill left no FIFO behind (" + fmt.Sprint(left) + ")")
		return
	}
	ctx.Res.Count(fmt.Sprintf("leftover-fifo tmpdir=%v", hasTmp))
	os.Remove(filepath.Join(dir, "_cmdtrace.log"))
	r2 := RunWorkflow(d, RunOpts{Dir: dir, Timeout: 15e9})
	if r2.Exit == 0 {
		ctx.Res.Violate(Violation{What: fmt.Sprintf("the re-run completed although the FIFO %v of the killed run was still in place", left), Class: "c03.adopted-leftovers", Witness: "streaming pair, kill at proc.fifo#1, no cleanup"})
	} else if r2.Exit == -2 {
		ctx.Res.Violate(Violation{What: fmt.Sprintf("the re-run hangs on the leftover FIFO %v instead of stopping", left), Class: "c03.adopted-leftovers", Witness: "streaming pair, kill at proc.fifo#1, no cleanup"})
	}
}

func checkC03(ctx *Ctx) {
	ctx.Res.Rule = "chain workflows; histories of 1-3 attempts, each killed (SIGKILL of the process group) at the n-th occurrence of one of 20 instrumented points, each followed or not by removal of _scipipe_tmp* / *.fifo, then a final run; non-trivial = at least one attempt was really killed; distinct by (chain, history). Checks after every attempt: every file at a final path equals the uninterrupted content, finalized tasks are not re-executed, leftovers make the next run fail; after the final run: file set and contents equal the uninterrupted result; also: a leftover FIFO without a temp dir, and the audit files (lineage modulo IDs and times) after kill + cleanup + re-run against the uninterrupted run's."
	r := NewRng(ctx.Seed)
	n := 40
	if ctx.Thorough() {
		n = 500
	}
	cases := []c03Case{}
	for i := 0; i < n; i++ {
		ch := genChain(r, ctx.Thorough())
		if i%5 != 0 {
			for j := range ch.Levels {
				ch.Levels[j].TwoOut = false
			}
		}
		ntasks := len(ch.tasks())
		c := c03Case{Chain: ch}
		k := 1 + r.Intn(3)
		for a := 0; a < k; a++ {
			c.History = append(c.History, attempt{Point: crashPoints[r.Intn(len(crashPoints))], N: 1 + r.Intn(ntasks+1), Cleanup: r.Intn(5) != 0})
		}
		cases = append(cases, c)
	}
	// the window of F13, deterministically: one two-output task, killed after its first rename
	cases = append(cases, c03Case{Chain: Chain{Inputs: []string{"a.txt"}, Levels: []Level{{TwoOut: true}}, Max: 2},
		History: []attempt{{Point: "fin.renamed", N: 1, Cleanup: true}}})
	// leftovers next to a finalized output, not cleaned up: the next run must refuse (not skip the task silently)
	cases = append(cases,
		c03Case{Chain: Chain{Inputs: []string{"a.txt"}, Levels: []Level{{}}, Max: 2}, History: []attempt{{Point: "fin.rmtmp.before", N: 1, Cleanup: false}}},
		c03Case{Chain: Chain{Inputs: []string{"a.txt"}, Levels: []Level{{}, {}}, Max: 2}, History: []attempt{{Point: "fin.renamed", N: 2, Cleanup: false}}},
		c03Case{Chain: Chain{Inputs: []string{"a.txt", "b.txt"}, Levels: []Level{{}}, Max: 1}, History: []attempt{{Point: "fin.rmtmp.before", N: 2, Cleanup: false}, {Point: "exec.start", N: 9, Cleanup: false}}},
		c03Case{Chain: Chain{Inputs: []string{"a.txt"}, Levels: []Level{{TwoOut: true}}, Max: 2}, History: []attempt{{Point: "fin.renamed", N: 1, Cleanup: false}}})
	parallel(len(cases), 8, func(i int) {
		if ctx.TimeLeft() {
			runC03(ctx, cases[i])
		}
	})
	leftoverFifo(ctx)
	auditAfterRestart(ctx, "fin.renamed", 3)
	defaultNamesRestart(ctx)
	auditAfterRestart(ctx, "in.cmd.after", 4)
	ctx.Res.Extra["model_window_witness"] = ctx.Drv.Ask("task.history", "0,0", "w:0:1,w:1:2", "ok", "", "12:1")
}

func init() { checks["C03"] = checkC03 }
