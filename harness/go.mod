module vharness

go 1.13

require github.com/scipipe/scipipe v0.0.0

replace github.com/scipipe/scipipe => /repo
