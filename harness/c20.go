package main

import (
	"encoding/json"
	"fmt"
	"io/ioutil"
	"os"
	"os/exec"
	"path/filepath"
	"regexp"
	"sort"
	"strings"
	"time"

	sp "github.com/scipipe/scipipe"
)

// C20: audit trees generated directly (depth, fan-in, shared ancestors, ties, zero start times)
// and produced by real runs, converted by the real CLI binary; listing checked and compared with
// the Lean model; the Bash script of flat workflows is replayed in a fresh directory.

type atNode struct {
	ID    int
	Start int // 0 = zero time.Time, otherwise ms offset
	Ups   []*atNode
}

func (n *atNode) toAudit(base time.Time) *sp.AuditInfo {
	ai := sp.NewAuditInfo()
	ai.ID = fmt.Sprintf("id%04d", n.ID)
	ai.ProcessName = fmt.Sprintf("proc%04d", n.ID)
	ai.Command = fmt.Sprintf("echo %d > ../out%d.txt", n.ID, n.ID)
	ai.Params = map[string]string{"p": fmt.Sprint(n.ID)}
	ai.Tags = map[string]string{"t": "v"}
	ai.OutFiles = map[string]string{"out": fmt.Sprintf("out%d.txt", n.ID)}
	if n.Start > 0 {
		ai.StartTime = base.Add(time.Duration(n.Start) * time.Millisecond)
		ai.FinishTime = ai.StartTime.Add(time.Millisecond)
		ai.ExecTimeNS = time.Millisecond
	}
	for i, u := range n.Ups {
		ai.Upstream[fmt.Sprintf("in%d_%d.txt", u.ID, i)] = u.toAudit(base)
	}
	return ai
}

func (n *atNode) tokens() []string {
	out := []string{fmt.Sprintf("%d:%d:%d", n.ID, n.Start, len(n.Ups))}
	for _, u := range n.Ups {
		out = append(out, u.tokens()...)
	}
	return out
}

func (n *atNode) collect(m map[int]int) {
	m[n.ID] = n.Start
	for _, u := range n.Ups {
		u.collect(m)
	}
}

func genTree(r *Rng, depth int, pool *[]*atNode, nextID *int, start int) *atNode {
	// reuse an existing subtree (shared ancestor reached through several paths)
	if len(*pool) > 0 && r.Intn(4) == 0 {
		return (*pool)[r.Intn(len(*pool))]
	}
	*nextID++
	n := &atNode{ID: *nextID}
	switch r.Intn(4) {
	case 0:
		n.Start = 0 // source file: zero time
	case 1:
		n.Start = 100 * (1 + r.Intn(3)) // ties
	default:
		n.Start = start - 1 - r.Intn(50)
		if n.Start < 1 {
			n.Start = 1
		}
	}
	if depth > 0 {
		k := r.Intn(4)
		for i := 0; i < k; i++ {
			n.Ups = append(n.Ups, genTree(r, depth-1, pool, nextID, n.Start))
		}
	}
	*pool = append(*pool, n)
	return n
}

var reHTMLID = regexp.MustCompile(`<a name="(id\d+)"`)
var reTeXID = regexp.MustCompile(`(?m)^ID: & (id\d+) `)
var reBashProc = regexp.MustCompile(`proc=\$\(printf '%-32s' "proc(\d+)"\)`)

func runCLI(cli, dir, sub, in string) (string, error) {
	cmd := exec.Command(cli, sub, in)
	cmd.Dir = dir
	out, err := cmd.CombinedOutput()
	return string(out), err
}

func checkListing(ctx *Ctx, what string, ids []string, starts map[int]int, witness interface{}) {
	seen := map[string]int{}
	for _, id := range ids {
		seen[id]++
	}
	for id, n := range seen {
		if n != 1 {
			ctx.Res.Violate(Violation{What: fmt.Sprintf("%s lists task %s %d times", what, id, n), Class: "c20.duplicate", Witness: witness})
			return
		}
	}
	for id := range starts {
		if seen[fmt.Sprintf("id%04d", id)] == 0 {
			ctx.Res.Violate(Violation{What: fmt.Sprintf("%s omits task id%04d of the lineage", what, id), Class: "c20.missing", Witness: witness})
			return
		}
	}
	prev := -1
	for _, id := range ids {
		var n int
		fmt.Sscanf(id, "id%d", &n)
		if starts[n] < prev {
			ctx.Res.Violate(Violation{What: fmt.Sprintf("%s is not ordered by start time at %s", what, id), Class: "c20.order", Witness: witness})
			return
		}
		prev = starts[n]
	}
}

func checkC20(ctx *Ctx) {
	ctx.Res.Rule = "audit trees generated directly (depth 0-4, fan-in 0-3, subtrees shared through several paths, zero and equal start times) written as .audit.json and converted by the real `scipipe audit2html|audit2tex|audit2bash` binary; listings parsed back (IDs / process names) and checked: every task of the lineage exactly once, non-decreasing start time, equal to the Lean model's flatten + listing (modulo the order inside groups of equal start time); plus real flat workflows whose audit2bash script is replayed in a fresh directory and compared byte-wise. Non-trivial = tree has more than one record; distinct by tree; also from real workflows: Bash replay and HTML report of a join workflow, tags per task in the report of differently tagged merged branches, report order of a chain of Go-function tasks on a memory file system."
	root := newDir()
	defer os.RemoveAll(root)
	cli := filepath.Join(root, "scipipe-cli")
	b := exec.Command("go", "build", "-o", cli, "github.com/scipipe/scipipe/cmd/scipipe")
	b.Dir = harnessDir()
	b.Env = append(os.Environ(), "GOFLAGS=-mod=mod", "GOPROXY=off", "GOSUMDB=off", "GOTOOLCHAIN=local")
	if out, err := b.CombinedOutput(); err != nil {
		ctx.Res.Disagree(Violation{What: "cannot build the scipipe CLI: " + string(out), Witness: nil})
		return
	}
	ctx.Res.Extra["sortsem"] = ctx.Drv.Ask("sortsem")
	r := NewRng(ctx.Seed)
	n := 40
	if ctx.Thorough() {
		n = 400
	}
	base := time.Date(2026, 1, 1, 0, 0, 0, 0, time.UTC)
	trees := []*atNode{}
	// the F4 witness: two source inputs (zero start time) under one task
	trees = append(trees, &atNode{ID: 3, Start: 5, Ups: []*atNode{{ID: 1}, {ID: 2}}})
	for i := 0; i < n; i++ {
		pool := []*atNode{}
		next := 0
		trees = append(trees, genTree(r, r.Intn(5), &pool, &next, 5000))
	}
	for ti, t := range trees {
		if !ctx.TimeLeft() {
			break
		}
		dir := filepath.Join(root, fmt.Sprintf("t%d", ti))
		os.MkdirAll(dir, 0755)
		js, _ := json.MarshalIndent(t.toAudit(base), "", "  ")
		ioutil.WriteFile(filepath.Join(dir, "x.txt.audit.json"), js, 0644)
		starts := map[int]int{}
		t.collect(starts)
		toks := strings.Join(t.tokens(), " ")
		ctx.Res.Eval(toks, len(starts) > 1, toks)
		ctx.Res.Count(fmt.Sprintf("records=%d", minInt(len(starts), 8)))
		ties := 0
		cnt := map[int]int{}
		for _, s := range starts {
			cnt[s]++
		}
		for _, c := range cnt {
			if c > 1 {
				ties++
			}
		}
		if ties > 0 {
			ctx.Res.Count("with-ties")
		}
		// model: flatten
		wantIDs := []int{}
		for id := range starts {
			wantIDs = append(wantIDs, id)
		}
		sort.Ints(wantIDs)
		ws := []string{}
		for _, id := range wantIDs {
			ws = append(ws, fmt.Sprint(id))
		}
		if got := ctx.Drv.Ask("flatten", toks); got != strings.Join(ws, ",") {
			ctx.Res.Disagree(Violation{What: fmt.Sprintf("model flatten gives %s, the tree has ids %s", got, strings.Join(ws, ",")), Witness: toks})
		}
		for _, sub := range []string{"audit2html", "audit2tex", "audit2bash"} {
			out, err := runCLI(cli, dir, sub, "x.txt.audit.json")
			if err != nil {
				ctx.Res.Violate(Violation{What: fmt.Sprintf("%s failed: %s", sub, tail(out)), Class: "c20.cli-failed", Witness: toks})
				continue
			}
			var ids []string
			switch sub {
			case "audit2html":
				b, _ := ioutil.ReadFile(filepath.Join(dir, "x.txt.audit.html"))
				for _, m := range reHTMLID.FindAllStringSubmatch(string(b), -1) {
					ids = append(ids, m[1])
				}
			case "audit2tex":
				b, _ := ioutil.ReadFile(filepath.Join(dir, "x.txt.audit.tex"))
				for _, m := range reTeXID.FindAllStringSubmatch(string(b), -1) {
					ids = append(ids, m[1])
				}
			case "audit2bash":
				b, _ := ioutil.ReadFile(filepath.Join(dir, "x.txt.audit.sh"))
				for _, m := range reBashProc.FindAllStringSubmatch(string(b), -1) {
					ids = append(ids, "id"+m[1])
				}
			}
			checkListing(ctx, sub, ids, starts, toks)
			// model listing for the iteration order the real run happened to have: compare as
			// sequences of groups of equal start time
			recs := []string{}
			for _, id := range ids {
				var k int
				fmt.Sscanf(id, "id%d", &k)
				recs = append(recs, fmt.Sprintf("%d:%d", k, starts[k]))
			}
			all := []string{}
			for _, id := range wantIDs {
				all = append(all, fmt.Sprintf("%d:%d", id, starts[id]))
			}
			model := ctx.Drv.Ask("listing", "src", strings.Join(all, ","))
			if groupKey(model, starts) != groupKey(strings.Join(stripIDs(ids), ","), starts) {
				ctx.Res.Disagree(Violation{What: fmt.Sprintf("%s listing %v differs from the model's %s (compared as groups of equal start time)", sub, ids, model), Class: "c20.model", Witness: toks})
			}
		}
	}
	replayBash(ctx, cli, root)
	replayBashFanIn(ctx, cli, root)
	replayBashJoin(ctx, cli, root)
	reportTagged(ctx, cli, root)
	for k := 0; k < 6; k++ {
		reportFastChain(ctx, cli, k)
	}
}

func stripIDs(ids []string) []string {
	out := []string{}
	for _, id := range ids {
		var k int
		fmt.Sscanf(id, "id%d", &k)
		out = append(out, fmt.Sprint(k))
	}
	return out
}

// canonical form of a listing: groups of equal start time, each sorted
func groupKey(list string, starts map[int]int) string {
	groups := [][]int{}
	prev := -999
	for _, s := range strings.Split(list, ",") {
		if s == "" {
			continue
		}
		var k int
		fmt.Sscanf(s, "%d", &k)
		if starts[k] != prev || len(groups) == 0 {
			groups = append(groups, []int{})
			prev = starts[k]
		}
		groups[len(groups)-1] = append(groups[len(groups)-1], k)
	}
	out := []string{}
	for _, g := range groups {
		sort.Ints(g)
		out = append(out, fmt.Sprint(g))
	}
	return strings.Join(out, ";")
}

func minInt(a, b int) int {
	if a < b {
		return a
	}
	return b
}

// a real flat workflow, its audit2bash script, replayed where only the sources exist
func replayBash(ctx *Ctx, cli, root string) {
	for k, ch := range []Chain{
		{Inputs: []string{"a.txt"}, Levels: []Level{{}, {}}, Max: 2},
		{Inputs: []string{"a.txt"}, Levels: []Level{{SleepMs: 5}, {SleepMs: 5}, {}}, Max: 1},
	} {
		dir := filepath.Join(root, fmt.Sprintf("replay%d", k))
		os.MkdirAll(dir, 0755)
		for p, c := range ch.sources() {
			ioutil.WriteFile(filepath.Join(dir, p), []byte(c), 0644)
		}
		// plain commands (no trace lines) so that the script is self-contained
		d := ch.desc()
		for i := range d.Nodes {
			if d.Nodes[i].Kind == "proc" {
				d.Nodes[i].Cmd = fmt.Sprintf("cat {i:in} > {o:out} && echo %s >> {o:out}", d.Nodes[i].Name)
			}
		}
		rr := RunWorkflow(d, RunOpts{Dir: dir})
		ctx.Res.Eval(fmt.Sprintf("replay%d", k), true, "replay of a real flat workflow")
		ctx.Res.Count("bash-replay")
		if rr.Exit != 0 {
			ctx.Res.Disagree(Violation{What: "replay workflow failed: " + tail(rr.Stderr), Witness: ch})
			continue
		}
		final := ch.pathAt("a.txt", len(ch.Levels)-1)
		if out, err := runCLI(cli, dir, "audit2bash", final+".audit.json"); err != nil {
			ctx.Res.Violate(Violation{What: "audit2bash failed: " + tail(out), Class: "c20.cli-failed", Witness: ch})
			continue
		}
		fresh := filepath.Join(root, fmt.Sprintf("fresh%d", k))
		os.MkdirAll(fresh, 0755)
		for p, c := range ch.sources() {
			ioutil.WriteFile(filepath.Join(fresh, p), []byte(c), 0644)
		}
		script, _ := ioutil.ReadFile(filepath.Join(dir, final+".audit.sh"))
		ioutil.WriteFile(filepath.Join(fresh, "replay.sh"), script, 0755)
		c := exec.Command("bash", "replay.sh")
		c.Dir = fresh
		if out, err := c.CombinedOutput(); err != nil {
			ctx.Res.Violate(Violation{What: "the generated Bash script failed: " + tail(string(out)), Class: "c20.script-failed", Witness: ch})
			continue
		}
		want, _ := ioutil.ReadFile(filepath.Join(dir, final))
		got, _ := ioutil.ReadFile(filepath.Join(fresh, final))
		if string(want) != string(got) || len(want) == 0 {
			ctx.Res.Violate(Violation{What: fmt.Sprintf("replayed %s differs: %q vs %q", final, got, want), Class: "c20.replay-differs", Witness: ch})
		}
	}
}

// a task whose command reads two input files (fan-in): every input path of the command must be rewritten
func replayBashFanIn(ctx *Ctx, cli, root string) {
	dir := filepath.Join(root, "replayfan")
	os.MkdirAll(dir, 0755)
	src := map[string]string{"a.txt": "alpha\n", "b.txt": "beta\n"}
	for p, c := range src {
		ioutil.WriteFile(filepath.Join(dir, p), []byte(c), 0644)
	}
	d := &Desc{Name: "fan", Max: 2, Nodes: []Node{
		{Name: "sa", Kind: "filesource", Paths: []string{"a.txt"}}, {Name: "sb", Kind: "filesource", Paths: []string{"b.txt"}},
		{Name: "up", Kind: "proc", Cmd: "cat {i:in} > {o:out} && echo up >> {o:out}", Outs: map[string]string{"out": "{i:in}.up.txt"}},
		{Name: "merge", Kind: "proc", Cmd: "cat {i:x} {i:y} {i:x} > {o:out}", Outs: map[string]string{"out": "merged.txt"}}},
		Edges: []Edge{{From: "sa.out", To: "up.in"}, {From: "up.out", To: "merge.x"}, {From: "sb.out", To: "merge.y"}}}
	rr := RunWorkflow(d, RunOpts{Dir: dir})
	ctx.Res.Eval("replay-fanin", true, "replay of a workflow with a two-input task")
	ctx.Res.Count("bash-replay")
	if rr.Exit != 0 {
		ctx.Res.Disagree(Violation{What: "fan-in replay workflow failed: " + tail(rr.Stderr), Witness: "fan-in"})
		return
	}
	if out, err := runCLI(cli, dir, "audit2bash", "merged.txt.audit.json"); err != nil {
		ctx.Res.Violate(Violation{What: "audit2bash failed: " + tail(out), Class: "c20.cli-failed", Witness: "fan-in"})
		return
	}
	fresh := filepath.Join(root, "freshfan")
	os.MkdirAll(fresh, 0755)
	for p, c := range src {
		ioutil.WriteFile(filepath.Join(fresh, p), []byte(c), 0644)
	}
	script, _ := ioutil.ReadFile(filepath.Join(dir, "merged.txt.audit.sh"))
	ioutil.WriteFile(filepath.Join(fresh, "replay.sh"), script, 0755)
	c := exec.Command("bash", "replay.sh")
	c.Dir = fresh
	out, err := c.CombinedOutput()
	want, _ := ioutil.ReadFile(filepath.Join(dir, "merged.txt"))
	got, _ := ioutil.ReadFile(filepath.Join(fresh, "merged.txt"))
	if err != nil || string(want) != string(got) || len(want) == 0 {
		ctx.Res.Violate(Violation{What: fmt.Sprintf("the Bash script generated for a two-input task does not re-create merged.txt: got %q, want %q (script output: %s)", got, want, tail(string(out))), Class: "c20.replay-differs", Witness: "fan-in: cat {i:x} {i:y} {i:x} > {o:out}"})
	}
}

// the same for a task with a joined in-port: the script must re-create the producers of every member of the sub-stream
func replayBashJoin(ctx *Ctx, cli, root string) {
	dir := filepath.Join(root, "replayjoin")
	os.MkdirAll(dir, 0755)
	src := map[string]string{"m0.txt": "zero\n", "m1.txt": "one\n", "m2.txt": "two\n"}
	for p, c := range src {
		ioutil.WriteFile(filepath.Join(dir, p), []byte(c), 0644)
	}
	d := &Desc{Name: "join", Max: 2, Nodes: []Node{
		{Name: "s", Kind: "filesource", Paths: []string{"m0.txt", "m1.txt", "m2.txt"}},
		{Name: "up", Kind: "proc", Cmd: "cat {i:in} > {o:out} && echo up >> {o:out}", Outs: map[string]string{"out": "{i:in}.up.txt"}},
		{Name: "sts", Kind: "substream"},
		{Name: "merge", Kind: "proc", Cmd: "cat {i:in|join: } > {o:out}", Outs: map[string]string{"out": "joined.txt"}}},
		Edges: []Edge{{From: "s.out", To: "up.in"}, {From: "up.out", To: "sts.in"}, {From: "sts.substream", To: "merge.in"}}}
	rr := RunWorkflow(d, RunOpts{Dir: dir})
	ctx.Res.Eval("replay-join", true, "replay of a workflow with a joined in-port")
	ctx.Res.Count("bash-replay")
	if rr.Exit != 0 {
		ctx.Res.Disagree(Violation{What: "join replay workflow failed: " + tail(rr.Stderr), Witness: "join"})
		return
	}
	if out, err := runCLI(cli, dir, "audit2bash", "joined.txt.audit.json"); err != nil {
		ctx.Res.Violate(Violation{What: "audit2bash failed: " + tail(out), Class: "c20.cli-failed", Witness: "join"})
		return
	}
	fresh := filepath.Join(root, "freshjoin")
	os.MkdirAll(fresh, 0755)
	for p, c := range src {
		ioutil.WriteFile(filepath.Join(fresh, p), []byte(c), 0644)
	}
	script, _ := ioutil.ReadFile(filepath.Join(dir, "joined.txt.audit.sh"))
	ioutil.WriteFile(filepath.Join(fresh, "replay.sh"), script, 0755)
	c := exec.Command("bash", "replay.sh")
	c.Dir = fresh
	out, err := c.CombinedOutput()
	want, _ := ioutil.ReadFile(filepath.Join(dir, "joined.txt"))
	got, _ := ioutil.ReadFile(filepath.Join(fresh, "joined.txt"))
	if err != nil || string(want) != string(got) || len(want) == 0 {
		ctx.Res.Violate(Violation{What: fmt.Sprintf("the Bash script generated for a task with a joined in-port does not re-create joined.txt: got %q, want %q (script output: %s)", got, want, tail(string(out))), Class: "c20.replay-differs", Witness: "join: cat {i:in|join: } > {o:out}"})
	}
	// and the HTML report lists the producer of every member
	if out, err := runCLI(cli, dir, "audit2html", "joined.txt.audit.json"); err == nil {
		html, _ := ioutil.ReadFile(filepath.Join(dir, "joined.txt.audit.html"))
		for p := range src {
			if !strings.Contains(string(html), p+".up.txt") {
				ctx.Res.Violate(Violation{What: "the HTML report of the joining task does not mention the task that produced " + p + ".up.txt", Class: "c20.report-incomplete", Witness: "join"})
				break
			}
		}
	} else {
		ctx.Res.Violate(Violation{What: "audit2html failed: " + tail(out), Class: "c20.cli-failed", Witness: "join"})
	}
}

// a real workflow with differently tagged branches merged by one task: the report lists every task with the tags it
// ran with — its own, not those of its descendants
func reportTagged(ctx *Ctx, cli, root string) {
	dir := filepath.Join(root, "tagged")
	os.MkdirAll(dir, 0755)
	for p, c := range map[string]string{"a.txt": "alpha\n", "b.txt": "beta\n"} {
		ioutil.WriteFile(filepath.Join(dir, p), []byte(c), 0644)
	}
	d := &Desc{Name: "tagged", Max: 2, Nodes: []Node{
		{Name: "sa", Kind: "filesource", Paths: []string{"a.txt"}}, {Name: "sb", Kind: "filesource", Paths: []string{"b.txt"}},
		{Name: "ta", Kind: "maptotags", Arg: "sample", Values: []string{"a.txt=A"}}, {Name: "tb", Kind: "maptotags", Arg: "batch", Values: []string{"b.txt=B"}},
		{Name: "pa", Kind: "proc", Cmd: "cat {i:in} > {o:out}", Outs: map[string]string{"out": "{i:in}.pa"}},
		{Name: "pb", Kind: "proc", Cmd: "cat {i:in} > {o:out}", Outs: map[string]string{"out": "{i:in}.pb"}},
		{Name: "merge", Kind: "proc", Cmd: "cat {i:x} {i:y} > {o:out}", Outs: map[string]string{"out": "merged3.txt"}}},
		Edges: []Edge{{From: "sa.out", To: "ta.in"}, {From: "sb.out", To: "tb.in"}, {From: "ta.out", To: "pa.in"}, {From: "tb.out", To: "pb.in"},
			{From: "pa.out", To: "merge.x"}, {From: "pb.out", To: "merge.y"}}}
	rr := RunWorkflow(d, RunOpts{Dir: dir})
	ctx.Res.Eval("report-tagged", true, "report of a workflow with differently tagged branches")
	ctx.Res.Count("tagged-report")
	if rr.Exit != 0 {
		ctx.Res.Disagree(Violation{What: "tagged workflow failed: " + tail(rr.Stderr), Witness: "tagged"})
		return
	}
	if out, err := runCLI(cli, dir, "audit2html", "merged3.txt.audit.json"); err != nil {
		ctx.Res.Violate(Violation{What: "audit2html failed: " + tail(out), Class: "c20.cli-failed", Witness: "tagged"})
		return
	}
	html, _ := ioutil.ReadFile(filepath.Join(dir, "merged3.txt.audit.html"))
	want := map[string]string{"pa": "sample: A", "pb": "batch: B"}
	seen := map[string]int{}
	for _, blk := range strings.Split(string(html), "<table>")[1:] {
		name := between(blk, "<strong>", "</strong>")
		tags := strings.Split(between(blk, "<th>Tags:</th><td><pre>", "</pre>"), ", ")
		sort.Strings(tags)
		seen[name]++
		if w, ok := want[name]; ok && strings.Join(tags, ", ") != w {
			ctx.Res.Violate(Violation{What: fmt.Sprintf("the report lists task %s with the tags [%s]; it ran with [%s]", name, strings.Join(tags, ", "), w), Class: "c20.report-tags", Witness: "tagged"})
		}
	}
	for _, n := range []string{"pa", "pb", "merge"} {
		if seen[n] != 1 {
			ctx.Res.Violate(Violation{What: fmt.Sprintf("the report lists task %s %d times", n, seen[n]), Class: "c20.report-incomplete", Witness: "tagged"})
		}
	}
}

// a chain of Go-function tasks on a memory file system (they start within microseconds of each other): the report
// still lists every task after the tasks it depends on, because it is ordered by the recorded start times
func reportFastChain(ctx *Ctx, cli string, k int) {
	base := "/dev/shm"
	if fi, err := os.Stat(base); err != nil || !fi.IsDir() {
		base = scratch()
	}
	dir, err := ioutil.TempDir(base, "verif-c20fast-")
	if err != nil {
		return
	}
	defer os.RemoveAll(dir)
	ioutil.WriteFile(filepath.Join(dir, "a.txt"), []byte("a\n"), 0644)
	d := &Desc{Name: "fast", Max: 4, Nodes: []Node{{Name: "s", Kind: "filesource", Paths: []string{"a.txt"}}}}
	prev := "s.out"
	names := []string{}
	for i := 0; i < 5; i++ {
		nm := fmt.Sprintf("g%d", i)
		names = append(names, nm)
		d.Nodes = append(d.Nodes, Node{Name: nm, Kind: "proc", Cmd: "echo {i:in} > {o:out}", Custom: "tempwrite", Outs: map[string]string{"out": "{i:in}." + nm}})
		d.Edges = append(d.Edges, Edge{From: prev, To: nm + ".in"})
		prev = nm + ".out"
	}
	rr := RunWorkflow(d, RunOpts{Dir: dir})
	ctx.Res.Eval(fmt.Sprintf("report-fast-chain %d", k), true, "chain of Go-function tasks on a memory file system")
	ctx.Res.Count("fast-chain-report")
	if rr.Exit != 0 {
		ctx.Res.Disagree(Violation{What: "fast chain workflow failed: " + tail(rr.Stderr), Witness: "fast-chain"})
		return
	}
	last := "a.txt.g0.g1.g2.g3.g4"
	if out, err := runCLI(cli, dir, "audit2html", last+".audit.json"); err != nil {
		ctx.Res.Violate(Violation{What: "audit2html failed: " + tail(out), Class: "c20.cli-failed", Witness: "fast-chain"})
		return
	}
	html, _ := ioutil.ReadFile(filepath.Join(dir, last+".audit.html"))
	got := []string{}
	for _, blk := range strings.Split(string(html), "<table>")[1:] {
		if nm := between(blk, "<strong>", "</strong>"); nm != "" { // the source file's empty record has no process name
			got = append(got, nm)
		}
	}
	if strings.Join(got, ",") != strings.Join(names, ",") {
		ctx.Res.Violate(Violation{What: fmt.Sprintf("the report of a chain of fast tasks lists them in the order %v; each depends on the one before: %v", got, names), Class: "c20.report-order", Witness: "fast-chain"})
	}
}

func between(s, a, b string) string {
	i := strings.Index(s, a)
	if i < 0 {
		return ""
	}
	s = s[i+len(a):]
	j := strings.Index(s, b)
	if j < 0 {
		return ""
	}
	return s[:j]
}

func init() { checks["C20"] = checkC20 }
