package main

import (
	"fmt"
	"io/ioutil"
	"os"
	"path/filepath"
	"sort"
	"strings"
)

// C01: one real task per case, an arbitrary command behaviour (chunked writes + exit kind), killed
// at every instrumented point; the file-system footprint is compared with the model state that
// corresponds to that point, and the property itself is checked on the real files.

type Act struct {
	Kind  string `json:"k"` // w | x
	Port  int    `json:"p"`
	Chunk int    `json:"c"`
}

type TaskCase struct {
	Outs   []string `json:"outs"` // declared output paths (port i = out<i>)
	Acts   []Act    `json:"acts"`
	Exit   string   `json:"exit"` // ok | code | killed
	Pre    []int    `json:"pre"`  // ports whose final path pre-exists
	Point  string   `json:"point"`
	J      int      `json:"j"`
}

func (c TaskCase) actsField() string {
	s := []string{}
	for _, a := range c.Acts {
		s = append(s, fmt.Sprintf("%s:%d:%d", a.Kind, a.Port, a.Chunk))
	}
	return strings.Join(s, ",")
}

func (c TaskCase) cmd() string {
	steps := []string{`echo "S t x $EPOCHREALTIME" >> "$VERIF_CMDTRACE"`}
	for _, a := range c.Acts {
		if a.Kind == "w" {
			steps = append(steps, fmt.Sprintf("printf 'c%d.' >> {o:out%d}", a.Chunk, a.Port))
		} else {
			steps = append(steps, fmt.Sprintf("printf 'c%d.' >> extra%d.dat", a.Chunk, a.Port))
		}
	}
	switch c.Exit {
	case "code":
		steps = append(steps, "exit 3")
	case "killed":
		steps = append(steps, "kill -9 $$")
	}
	// mention every out-port so that it exists even if the behaviour never writes it
	for i := range c.Outs {
		steps = append(steps, fmt.Sprintf("true {o:out%d}", i))
	}
	return "( " + strings.Join(steps, " ; ") + " )"
}

func (c TaskCase) desc() *Desc {
	outs := map[string]string{}
	for i, p := range c.Outs {
		outs[fmt.Sprintf("out%d", i)] = p
	}
	return &Desc{Name: "c01", Max: 2, Nodes: []Node{{Name: "t", Kind: "proc", Cmd: c.cmd(), Outs: outs}}}
}

func parseChunks(content string) string {
	// "c7.c8." -> "7.8"
	parts := []string{}
	for _, p := range strings.Split(content, ".") {
		if strings.HasPrefix(p, "c") {
			parts = append(parts, p[1:])
		}
	}
	return strings.Join(parts, ".")
}

func fileObs(path string) string {
	b, err := ioutil.ReadFile(path)
	if err != nil {
		return "-"
	}
	if string(b) == "PRE" {
		return "pre"
	}
	return "new:" + parseChunks(string(b))
}

// observation of the real footprint, in the model's vocabulary
func observe(dir string, c TaskCase) (final, temp []string, tmp bool, moved int) {
	tmpDirs, _ := filepath.Glob(filepath.Join(dir, "_scipipe_tmp*"))
	tmp = len(tmpDirs) > 0
	for _, p := range c.Outs {
		fp, tp := filepath.Join(dir, p), p
		if filepath.IsAbs(p) {
			fp, tp = p, "__fsroot__"+p
		}
		final = append(final, fileObs(fp))
		t := "-"
		if tmp {
			t = fileObs(filepath.Join(tmpDirs[0], tp))
		}
		temp = append(temp, t)
	}
	ex, _ := filepath.Glob(filepath.Join(dir, "extra*.dat"))
	moved = len(ex)
	return
}

func modelObs(resp string) (status string, final, temp []string, tmp bool, moved int) {
	for _, kv := range strings.Split(resp, ";") {
		i := strings.Index(kv, "=")
		if i < 0 {
			continue
		}
		k, v := kv[:i], kv[i+1:]
		strip := func(s string) string {
			// new:complete:7.8 -> new:7.8 ; pre:complete:99 -> pre
			if s == "-" {
				return "-"
			}
			f := strings.SplitN(s, ":", 3)
			if f[0] == "pre" {
				return "pre"
			}
			return "new:" + f[2]
		}
		switch k {
		case "status":
			status = v
		case "final":
			for _, s := range strings.Split(v, "|") {
				final = append(final, strip(s))
			}
		case "temp":
			for _, s := range strings.Split(v, "|") {
				temp = append(temp, strip(s))
			}
		case "tmp":
			tmp = v == "true"
		case "moved":
			fmt.Sscanf(v, "%d", &moved)
		}
	}
	return
}

var c01Points = []string{"in.tmpcheck", "in.outcheck", "inc.enter", "in.mkdirs", "in.cmd.before", "in.cmd.after", "in.audit", "in.ensure", "in.finalize", "fin.renamed", "fin.rmtmp.before", "fin.rmtmp.after", "dec.enter", "end"}

func expectedFull(c TaskCase, port int) string {
	parts := []string{}
	for _, a := range c.Acts {
		if a.Kind == "w" && a.Port == port {
			parts = append(parts, fmt.Sprint(a.Chunk))
		}
	}
	return "new:" + strings.Join(parts, ".")
}

func runTaskCase(ctx *Ctx, c TaskCase) {
	pre := map[string]string{}
	for _, p := range c.Pre {
		pre[c.Outs[p]] = "PRE"
	}
	env := []string{}
	if c.Point != "end" {
		env = append(env, fmt.Sprintf("VERIF_CRASH_AT=%s#%d", c.Point, maxInt(c.J, 1)))
	}
	dir := newDir()
	// "@/" stands for an absolute path inside this run's own directory
	for i, p := range c.Outs {
		if strings.HasPrefix(p, "@/") {
			c.Outs[i] = filepath.Join(dir, p[2:])
			os.MkdirAll(filepath.Dir(c.Outs[i]), 0755)
		}
	}
	for p, v := range pre {
		if strings.HasPrefix(p, "@/") {
			delete(pre, p)
			pre[p[2:]] = v
		}
	}
	rr := RunWorkflow(c.desc(), RunOpts{Env: env, Pre: pre, Dir: dir})
	defer os.RemoveAll(rr.Dir)
	streams := strings.TrimSuffix(strings.Repeat("0,", len(c.Outs)), ",")
	preF := []string{}
	for _, p := range c.Pre {
		preF = append(preF, fmt.Sprint(p))
	}
	resp := ctx.Drv.Ask("task.at", streams, c.actsField(), c.Exit, strings.Join(preF, ","), c.Point, fmt.Sprint(c.J))
	final, temp, tmp, moved := observe(rr.Dir, c)
	crashed := rr.Exit == -1 && c.Point != "end"
	key := fmt.Sprintf("%v", c)
	nontrivial := len(c.Acts) > 0
	ctx.Res.Eval(key, nontrivial, c)
	ctx.Res.Count("point=" + c.Point)
	ctx.Res.Count("exit=" + c.Exit)
	// --- the property on the real code: final path absent, pre-existing, or the complete content
	for i := range c.Outs {
		isPre := false
		for _, p := range c.Pre {
			if p == i {
				isPre = true
			}
		}
		ok := final[i] == "-" || (isPre && final[i] == "pre") || (final[i] == expectedFull(c, i) && c.Exit == "ok")
		if !ok {
			ctx.Res.Violate(Violation{What: fmt.Sprintf("final path %s holds %q (command exit=%s, killed at %s): not absent and not the complete output of a successful command", c.Outs[i], final[i], c.Exit, c.Point), Class: "c01.partial-final", Witness: c})
		}
	}
	// --- correspondence with the model
	if resp == "unreachable" {
		ctx.Res.Count("model-unreachable")
		if crashed {
			ctx.Res.Disagree(Violation{What: fmt.Sprintf("real task reached %s#%d, the model says that point is unreachable", c.Point, c.J), Witness: c})
		}
		return
	}
	if c.Point != "end" && !crashed {
		ctx.Res.Disagree(Violation{What: fmt.Sprintf("model reaches %s#%d but the real task did not (exit %d)", c.Point, c.J, rr.Exit), Witness: c})
		return
	}
	mstatus, mfinal, mtemp, mtmp, mmoved := modelObs(resp)
	canon := func(a []string) string {
		b := append([]string{}, a...)
		if c.Point == "fin.renamed" {
			sort.Strings(b) // the rename order is Go map iteration order
			for i := range b {
				if b[i] != "-" && b[i] != "pre" {
					b[i] = "new"
				}
			}
		}
		return strings.Join(b, "|")
	}
	if canon(final) != canon(mfinal) || canon(temp) != canon(mtemp) || tmp != mtmp || moved != mmoved {
		ctx.Res.Disagree(Violation{What: fmt.Sprintf("footprint at %s#%d: real final=%v temp=%v tmp=%v moved=%d, model final=%v temp=%v tmp=%v moved=%d",
			c.Point, c.J, final, temp, tmp, moved, mfinal, mtemp, mtmp, mmoved), Witness: c})
	}
	if c.Point == "end" {
		want := map[string]bool{"done": rr.Exit == 0 && rr.Returned, "failed": rr.Exit == 1}
		if !want[mstatus] {
			ctx.Res.Disagree(Violation{What: fmt.Sprintf("outcome: real exit=%d returned=%v, model status=%s", rr.Exit, rr.Returned, mstatus), Witness: c})
		}
	}
}

func maxInt(a, b int) int {
	if a > b {
		return a
	}
	return b
}

func genTaskCase(r *Rng, paths []string) TaskCase {
	n := 1 + r.Intn(2)
	c := TaskCase{}
	c.Outs = nil
	perm := r.Intn(len(paths))
	for i := 0; i < n; i++ {
		c.Outs = append(c.Outs, paths[(perm+i)%len(paths)])
	}
	na := r.Intn(5)
	for i := 0; i < na; i++ {
		if r.Intn(5) == 0 {
			c.Acts = append(c.Acts, Act{"x", r.Intn(2), 1 + r.Intn(9)})
		} else {
			c.Acts = append(c.Acts, Act{"w", r.Intn(n), 1 + r.Intn(9)})
		}
	}
	c.Exit = []string{"ok", "ok", "code", "killed"}[r.Intn(4)]
	if r.Intn(5) == 0 {
		c.Pre = []int{r.Intn(n)}
	}
	c.Point = c01Points[r.Intn(len(c01Points))]
	if c.Point == "fin.renamed" {
		c.J = 1 + r.Intn(n)
	}
	return c
}

func checkC01(ctx *Ctx) {
	defer func() {
		restartOnLeftover(ctx, true)
		restartOnLeftover(ctx, false)
	}()
	ctx.Res.Rule = "one real task per case: 1-2 outputs (plain and nested paths), random behaviour (0-4 chunked writes to outputs / extra files, exit ok|code|SIGKILL), optional pre-existing output, killed at one of 13 instrumented points (or run to the end), plus the history 'killed in mid-command, restarted without cleanup' with an appending and an idempotent command; non-trivial = the command writes something; distinct by full case. Each case checks the property on the real files and compares the footprint with the model state for that point."
	r := NewRng(ctx.Seed)
	paths := []string{"a.txt", "b.dat", "sub/c.txt", "d/e/f.txt", "@/abs/g.txt", "x_y-z.out", "@/abs2/h.i"}
	cases := []TaskCase{}
	// systematic: a successful and a failing two-chunk writer at every point
	for _, pt := range c01Points {
		for _, ex := range []string{"ok", "code"} {
			c := TaskCase{Outs: []string{"a.txt"}, Acts: []Act{{"w", 0, 7}, {"w", 0, 8}}, Exit: ex, Point: pt}
			if pt == "fin.renamed" {
				c.J = 1
			}
			cases = append(cases, c)
		}
	}
	cases = append(cases, TaskCase{Outs: []string{"a.txt", "sub/b.txt"}, Acts: []Act{{"w", 0, 1}, {"w", 1, 2}, {"x", 0, 3}}, Exit: "ok", Point: "fin.renamed", J: 1})
	cases = append(cases, TaskCase{Outs: []string{"a.txt", "sub/b.txt"}, Acts: []Act{{"w", 0, 1}}, Exit: "ok", Point: "end"})
	for _, pt := range []string{"in.cmd.after", "in.audit", "fin.renamed", "end"} {
		for _, ex := range []string{"ok", "code", "killed"} {
			cases = append(cases, TaskCase{Outs: []string{"@/abs/o.txt"}, Acts: []Act{{"w", 0, 4}, {"w", 0, 5}}, Exit: ex, Point: pt, J: 1})
		}
	}
	n := 60
	if ctx.Thorough() {
		n = 900
	}
	for i := 0; i < n; i++ {
		cases = append(cases, genTaskCase(r, paths))
	}
	parallel(len(cases), 8, func(i int) {
		if ctx.TimeLeft() {
			runTaskCase(ctx, cases[i])
		}
	})
	// model search with the record extracted from the current source (support only)
	resp := ctx.Drv.Ask("task.c01search")
	ctx.Res.Extra["model_search"] = resp
	if strings.HasPrefix(resp, "witness") {
		ctx.Res.Note("the task model instantiated with the extracted record violates C01: " + resp)
	}
	ctx.Res.Extra["sem"] = ctx.Drv.Ask("sem")
}

// history: a run killed while its command had written part of its output, then a restart without any cleanup. Whatever
// the restart does (scipipe refuses it), nothing but the complete output of one successful command may appear at
// the final path
func restartOnLeftover(ctx *Ctx, appendCmd bool) {
	cmd := "( cat {i:in} > /dev/null ; printf AAAA >> {o:out} ; sleep 3 ; printf BBBB >> {o:out} )"
	if !appendCmd {
		cmd = "( cat {i:in} > /dev/null ; test -s {o:out} || ( printf AAAA > {o:out} ; sleep 3 ; printf BBBB >> {o:out} ) )"
	}
	d := &Desc{Name: "c01restart", Max: 2, Nodes: []Node{{Name: "src", Kind: "filesource", Paths: []string{"r.txt"}},
		{Name: "p", Kind: "proc", Cmd: cmd, Outs: map[string]string{"out": "{i:in}.out"}}},
		Edges: []Edge{{From: "src.out", To: "p.in"}}}
	r1 := RunWorkflow(d, RunOpts{Pre: map[string]string{"r.txt": "r\n"}, Timeout: 1500e6, NoRetry: true})
	defer os.RemoveAll(r1.Dir)
	ctx.Res.Eval(fmt.Sprintf("restart on a leftover temp dir (append=%v)", appendCmd), true, appendCmd)
	ctx.Res.Count("history=killed-mid-command,restart-without-cleanup")
	partial, _ := filepath.Glob(filepath.Join(r1.Dir, "_scipipe_tmp*", "r.txt.out"))
	if r1.Exit != -2 || len(partial) != 1 {
		ctx.Res.Note("restart-on-leftover: the first run was not killed in mid-command")
		return
	}
	if got, ok := readFile(r1.Dir, "r.txt.out"); ok {
		ctx.Res.Violate(Violation{What: fmt.Sprintf("a killed run left %q at the final path", got), Class: "c01.partial-final", Witness: appendCmd})
		return
	}
	r2 := RunWorkflow(d, RunOpts{Dir: r1.Dir, Timeout: 10e9})
	if got, ok := readFile(r1.Dir, "r.txt.out"); ok && got != "AAAABBBB" {
		ctx.Res.Violate(Violation{What: fmt.Sprintf("after a kill in mid-command and a restart without cleanup (exit %d) the final path holds %q: not the complete output of one successful command (AAAABBBB)", r2.Exit, got), Class: "c01.partial-final", Witness: appendCmd})
	}
}

func init() { checks["C01"] = checkC01 }
