package main

// wfrun: a generic interpreter that builds a real scipipe workflow from a JSON description and
// runs it in the current directory. One process per run (scipipe's Fail is os.Exit(1), and the
// crash hook SIGKILLs the process group).

import (
	"encoding/json"
	"fmt"
	"io/ioutil"
	"os"
	"path/filepath"
	"sort"
	"strings"
	"time"

	sp "github.com/scipipe/scipipe"
	spc "github.com/scipipe/scipipe/components"
)

type Node struct {
	Name    string              `json:"name"`
	Kind    string              `json:"kind"` // proc | filesource | paramsource | maptotags | substream | concat | splitter | combinator | paramcombinator | selector | recorder
	Cmd     string              `json:"cmd,omitempty"`
	Outs    map[string]string   `json:"outs,omitempty"`
	Cores   int                 `json:"cores,omitempty"`
	FromStr map[string][]string `json:"fromstr,omitempty"`
	Paths   []string            `json:"paths,omitempty"`
	Values  []string            `json:"values,omitempty"`
	Custom  string              `json:"custom,omitempty"` // custom Go function kind
	Ports   []string            `json:"ports,omitempty"`  // combinator / selector port names
	Arg     string              `json:"arg,omitempty"`    // out path (concat), lines per split, tag name, ...
	Prepend string              `json:"prepend,omitempty"`
}

type Edge struct {
	From  string `json:"from"` // node.port
	To    string `json:"to"`
	Param bool   `json:"param,omitempty"`
	UseTo bool   `json:"use_to,omitempty"` // wire with OutPort.To(in-port) instead of InPort.From(out-port)
}

type Desc struct {
	LateFeeders bool `json:"late_feeders,omitempty"` // start the FromStr feeders right before Run / RunTo
	Name  string   `json:"name"`
	Max   int      `json:"max"`
	Nodes []Node   `json:"nodes"`
	Edges []Edge   `json:"edges"`
	RunTo []string `json:"runto,omitempty"`
	// RunToKind: "" = Run, "name" = RunTo, "regex" = RunToRegex, "procs" = RunToProcs
	RunToKind string `json:"runtokind,omitempty"`
	// Rounds: the workflow is built and run once per entry *in the same OS process*, and after each of
	// these runs the listed paths are removed; then comes the final run (histories of runs that share
	// whatever the library keeps in process-wide state)
	Rounds [][]string `json:"rounds,omitempty"`
}

type proc interface {
	sp.WorkflowProcess
}

func splitPort(s string) (string, string) {
	i := strings.Index(s, ".")
	return s[:i], s[i+1:]
}

// recorder: a pass-through component logging what it receives, in order, to the hook trace and a file
type Recorder struct {
	sp.BaseProcess
	file string
}

func NewRecorder(wf *sp.Workflow, name string) *Recorder {
	p := &Recorder{BaseProcess: sp.NewBaseProcess(wf, name), file: "_rec." + name}
	p.InitInPort(p, "in")
	p.InitOutPort(p, "out")
	wf.AddProc(p)
	return p
}
func (p *Recorder) Run() {
	defer p.CloseAllOutPorts()
	f, _ := os.Create(p.file)
	defer f.Close()
	for ip := range p.InPort("in").Chan {
		fmt.Fprintln(f, ip.Path())
		f.Sync()
		p.OutPort("out").Send(ip)
	}
}

// Carriers: sends one carrier IP per group of files, in order, each with a sub-stream of its own; the sub-stream of
// group i is filled and closed delays[i] milliseconds later (so an earlier carrier's sub-stream can close last)
type Carriers struct {
	sp.BaseProcess
	groups [][]string
	delays []int
}

func NewCarriers(wf *sp.Workflow, name string, groups [][]string, delays []int) *Carriers {
	p := &Carriers{BaseProcess: sp.NewBaseProcess(wf, name), groups: groups, delays: delays}
	p.InitOutPort(p, "substream")
	wf.AddProc(p)
	return p
}
func (p *Carriers) Run() {
	defer p.CloseAllOutPorts()
	done := make(chan bool, len(p.groups))
	for i, g := range p.groups {
		carrier, err := sp.NewFileIP(fmt.Sprintf("c%d.carrier", i))
		if err != nil {
			p.Fail(err)
		}
		sub := sp.NewInPort(fmt.Sprintf("sub%d", i))
		sub.SetProcess(p)
		carrier.SubStream = sub
		go func(i int, g []string) {
			time.Sleep(time.Duration(p.delays[i]) * time.Millisecond)
			for _, path := range g {
				ip, err := sp.NewFileIP(path)
				if err != nil {
					p.Fail(err)
				}
				sub.Chan <- ip
			}
			close(sub.Chan)
			done <- true
		}(i, g)
		p.OutPort("substream").Send(carrier)
	}
	for range p.groups {
		<-done
	}
}

// PacedSource: sends its files one by one, waiting delays[i] milliseconds before the i-th
type PacedSource struct {
	sp.BaseProcess
	paths  []string
	delays []int
}

func NewPacedSource(wf *sp.Workflow, name string, paths []string, delays []int) *PacedSource {
	p := &PacedSource{BaseProcess: sp.NewBaseProcess(wf, name), paths: paths, delays: delays}
	p.InitOutPort(p, "out")
	wf.AddProc(p)
	return p
}
func (p *PacedSource) Run() {
	defer p.CloseAllOutPorts()
	for i, path := range p.paths {
		if i < len(p.delays) {
			time.Sleep(time.Duration(p.delays[i]) * time.Millisecond)
		}
		ip, err := sp.NewFileIP(path)
		if err != nil {
			p.Fail(err)
		}
		p.OutPort("out").Send(ip)
	}
}

// PRecorder: pass-through for parameter streams, logging what it receives in order
type PRecorder struct {
	sp.BaseProcess
	file string
}

func NewPRecorder(wf *sp.Workflow, name string) *PRecorder {
	p := &PRecorder{BaseProcess: sp.NewBaseProcess(wf, name), file: "_rec." + name}
	p.InitInParamPort(p, "in")
	p.InitOutParamPort(p, "out")
	wf.AddProc(p)
	return p
}
func (p *PRecorder) Run() {
	defer p.CloseAllOutPorts()
	f, _ := os.Create(p.file)
	defer f.Close()
	for v := range p.InParamPort("in").Chan {
		fmt.Fprintln(f, v)
		f.Sync()
		p.OutParamPort("out").Send(v)
	}
}

func listDir() []string {
	out := []string{}
	filepath.Walk(".", func(p string, fi os.FileInfo, err error) error {
		if err != nil || p == "." {
			return nil
		}
		kind := "f"
		if fi.IsDir() {
			kind = "d"
		} else if fi.Mode()&os.ModeNamedPipe != 0 {
			kind = "p"
		}
		out = append(out, kind+":"+p)
		return nil
	})
	sort.Strings(out)
	return out
}

func wfrunMain(descFile string) {
	data, err := ioutil.ReadFile(descFile)
	if err != nil {
		fmt.Fprintln(os.Stderr, "wfrun: cannot read", descFile, err)
		os.Exit(3)
	}
	var d Desc
	if err := json.Unmarshal(data, &d); err != nil {
		fmt.Fprintln(os.Stderr, "wfrun: bad desc", err)
		os.Exit(3)
	}
	for i, rm := range d.Rounds {
		buildAndRun(d)
		sp.VerifHook("wfrun.round", fmt.Sprint(i))
		for _, p := range rm {
			os.RemoveAll(p)
		}
	}
	buildAndRun(d)
	// what is on disk at the instant Run returns (other goroutines may still be alive)
	sp.VerifHook("wfrun.returned")
	snap := listDir()
	fmt.Println("WFRUN-RETURNED " + strings.Join(snap, " "))
	if os.Getenv("VERIF_LINGER_MS") != "" {
		var ms int
		fmt.Sscanf(os.Getenv("VERIF_LINGER_MS"), "%d", &ms)
		time.Sleep(time.Duration(ms) * time.Millisecond)
		fmt.Println("WFRUN-LINGERED " + strings.Join(listDir(), " "))
	}
}

func buildAndRun(d Desc) {
	wf := sp.VerifNewWorkflowQuiet(d.Name, d.Max)
	procs := map[string]sp.WorkflowProcess{}
	for _, n := range d.Nodes {
		n := n
		switch n.Kind {
		case "proc":
			p := wf.NewProc(n.Name, n.Cmd)
			for o, pat := range n.Outs {
				p.SetOut(o, pat)
			}
			if n.Cores > 0 {
				p.CoresPerTask = n.Cores
			}
			p.Prepend = n.Prepend
			switch n.Custom {
			case "":
			case "ipwrite":
				// the documented way of writing an output from a Go function
				p.CustomExecute = func(t *sp.Task) {
					for name, oip := range t.OutIPs {
						oip.Write([]byte("custom:" + t.Name + ":" + name + "\n"))
					}
				}
			case "ipwrite_then_fail":
				p.CustomExecute = func(t *sp.Task) {
					for name, oip := range t.OutIPs {
						oip.Write([]byte("custom:" + t.Name + ":" + name + "\n"))
					}
					t.Failf("injected failure in custom function")
				}
			case "tempwrite":
				p.CustomExecute = func(t *sp.Task) {
					for name, oip := range t.OutIPs {
						path := filepath.Join(t.TempDir(), oip.TempPath())
						ioutil.WriteFile(path, []byte("custom:"+t.Name+":"+name+"\n"), 0644)
					}
				}
			}
			if !d.LateFeeders {
				for port, vals := range n.FromStr {
					p.InParam(port).FromStr(vals...)
				}
			}
			procs[n.Name] = p
		case "filesource":
			procs[n.Name] = spc.NewFileSource(wf, n.Name, n.Paths...)
		case "paramsource":
			procs[n.Name] = spc.NewParamSource(wf, n.Name, n.Values...)
		case "maptotags":
			tag := n.Arg
			only := map[string]string{} // Values "basename=value": tag these files with these values, leave the others untagged
			for _, kv := range n.Values {
				if i := strings.Index(kv, "="); i > 0 {
					only[kv[:i]] = kv[i+1:]
				}
			}
			procs[n.Name] = spc.NewMapToTags(wf, n.Name, func(ip *sp.FileIP) map[string]string {
				if len(only) > 0 {
					if v, ok := only[filepath.Base(ip.Path())]; ok {
						return map[string]string{tag: v}
					}
					return map[string]string{}
				}
				return map[string]string{tag: filepath.Base(ip.Path())}
			})
		case "substream":
			procs[n.Name] = spc.NewStreamToSubStream(wf, n.Name)
		case "concat":
			cc := spc.NewConcatenator(wf, n.Name, n.Arg)
			if len(n.Values) > 0 {
				cc.GroupByTag = n.Values[0]
			}
			procs[n.Name] = cc
		case "splitter":
			var lines int
			fmt.Sscanf(n.Arg, "%d", &lines)
			procs[n.Name] = spc.NewFileSplitter(wf, n.Name, lines)
		case "combinator":
			c := spc.NewFileCombinator(wf, n.Name)
			for _, pn := range n.Ports {
				c.In(pn)
			}
			procs[n.Name] = c
		case "paramcombinator":
			c := spc.NewParamCombinator(wf, n.Name)
			for _, pn := range n.Ports {
				c.InParam(pn)
			}
			procs[n.Name] = c
		case "selector":
			pat := n.Arg
			c := spc.NewIPSelectorSync(wf, n.Name, func(ip *sp.FileIP) bool {
				return !strings.Contains(ip.Path(), pat)
			})
			for _, pn := range n.Ports {
				c.In(pn)
				c.Out(pn)
			}
			procs[n.Name] = c
		case "pacedsource":
			delays := []int{}
			for _, v := range n.Values {
				var ms int
				fmt.Sscan(v, &ms)
				delays = append(delays, ms)
			}
			procs[n.Name] = NewPacedSource(wf, n.Name, n.Paths, delays)
		case "carriers":
			// Paths: the members, "|" separates the groups; Values: the delay of each group's sub-stream in ms
			groups := [][]string{{}}
			for _, x := range n.Paths {
				if x == "|" {
					groups = append(groups, []string{})
				} else {
					groups[len(groups)-1] = append(groups[len(groups)-1], x)
				}
			}
			delays := []int{}
			for _, v := range n.Values {
				var ms int
				fmt.Sscan(v, &ms)
				delays = append(delays, ms)
			}
			for len(delays) < len(groups) {
				delays = append(delays, 0)
			}
			procs[n.Name] = NewCarriers(wf, n.Name, groups, delays)
		case "recorder":
			procs[n.Name] = NewRecorder(wf, n.Name)
		case "precorder":
			procs[n.Name] = NewPRecorder(wf, n.Name)
		case "filetoparams":
			procs[n.Name] = spc.NewFileToParamsReader(wf, n.Name, n.Arg)
		case "cmdtoparams":
			procs[n.Name] = spc.NewCommandToParams(wf, n.Name, n.Arg)
		case "globber":
			procs[n.Name] = spc.NewFileGlobber(wf, n.Name, n.Paths...)
		default:
			fmt.Fprintln(os.Stderr, "wfrun: unknown node kind", n.Kind)
			os.Exit(3)
		}
	}
	for _, e := range d.Edges {
		fn, fp := splitPort(e.From)
		tn, tp := splitPort(e.To)
		if e.Param && e.UseTo {
			procs[fn].OutParamPorts()[fp].To(procs[tn].InParamPorts()[tp])
		} else if e.Param {
			procs[tn].InParamPorts()[tp].From(procs[fn].OutParamPorts()[fp])
		} else if e.UseTo {
			procs[fn].OutPorts()[fp].To(procs[tn].InPorts()[tp])
		} else {
			procs[tn].InPorts()[tp].From(procs[fn].OutPorts()[fp])
		}
	}
	fmt.Println("WFRUN-START")
	if d.LateFeeders {
		// the FromStr feeders are started last, right before the run: they are finishing while Run / RunTo starts
		for _, n := range d.Nodes {
			if p, ok := procs[n.Name].(*sp.Process); ok {
				for port, vals := range n.FromStr {
					p.InParam(port).FromStr(vals...)
				}
			}
		}
	}
	switch d.RunToKind {
	case "":
		wf.Run()
	case "name":
		wf.RunTo(d.RunTo...)
	case "regex":
		wf.RunToRegex(d.RunTo...)
	case "procs":
		ps := []sp.WorkflowProcess{}
		for _, n := range d.RunTo {
			ps = append(ps, procs[n])
		}
		wf.RunToProcs(ps...)
	}
}
