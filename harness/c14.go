package main

import (
	"os"
	"crypto/sha1"
	"encoding/hex"
	"fmt"
	"strings"
)

// C14: temp-dir names. Differential on Task.TempDir() (Lean gives prefix + preimage; the harness
// hashes), pairwise distinctness over a small exhaustive alphabet, segment validity, stability.

type ident struct {
	Name   string              `json:"name"`
	Ins    map[string]string   `json:"ins"`
	Subs   map[string][]string `json:"subs,omitempty"`
	Params map[string]string   `json:"params"`
	Tags   map[string]string   `json:"tags"`
}

func (id ident) fields() []string {
	return []string{"tmpdir", id.Name, kvField(id.Ins), kvlField(id.Subs), kvField(id.Params), kvField(id.Tags)}
}

func (id ident) String() string {
	return fmt.Sprintf("%s|%s|%s|%s|%s", id.Name, kvField(id.Ins), kvlField(id.Subs), kvField(id.Params), kvField(id.Tags))
}

type tdRes struct {
	real, prefix, preimage string
}

func tmpdirBoth(ctx *Ctx, w *Worker, id ident) (tdRes, bool) {
	f := id.fields()
	real := w.Ask(f...)
	model := ctx.Drv.Ask(f...)
	ctx.Res.Eval(strings.Join(f, "\t"), len(id.Ins)+len(id.Params)+len(id.Tags) > 0, id)
	ctx.Res.Count(fmt.Sprintf("ins=%d,params=%d,tags=%d,subs=%d", len(id.Ins), len(id.Params), len(id.Tags), len(id.Subs)))
	parts := strings.SplitN(model, "\t", 2)
	if len(parts) != 2 {
		ctx.Res.Disagree(Violation{What: "model gave no temp dir: " + model, Witness: id})
		return tdRes{real: real, preimage: "?" + id.String()}, real != "" && real != "FAIL" && real != "CRASH"
	}
	sum := sha1.Sum([]byte(parts[1]))
	want := parts[0] + "." + hex.EncodeToString(sum[:])
	// segment validity on the real value (whatever the model says)
	if strings.Contains(real, "/") || real == "." || real == ".." || len(real) > 255 || len(real) == 0 {
		ctx.Res.Violate(Violation{What: fmt.Sprintf("temp dir name %q is not a single valid path segment of at most 255 bytes (len %d)", real, len(real)), Class: "c14.segment", Witness: id})
	}
	if real != want {
		ctx.Res.Disagree(Violation{What: fmt.Sprintf("TempDir(): real=%q, model prefix+sha1(preimage)=%q (preimage %q)", real, want, parts[1]), Class: "c14.model", Witness: id})
		// the pairwise check below still uses the real value (with the model's preimage, which then cannot
		// explain a collision as the known concatenation ambiguity unless it is equal too)
		return tdRes{real, parts[0], parts[1]}, true
	}
	return tdRes{real, parts[0], parts[1]}, true
}

func checkC14(ctx *Ctx) {
	ctx.Res.Rule = "task identities (process name, in-port paths, sub-stream members, params, tags): all combinations over a small alphabet (names x 0-2 in-ports x paths x 0-2 params x values x 0-1 tags) plus random large ones (long names, many ports, nested / absolute / ../ paths); every identity: real Task.TempDir() vs Lean prefix + sha1(Lean preimage), segment validity, stability on repetition; all pairs of distinct identities: equal temp dir => violation. Non-trivial = at least one input, parameter or tag; distinct by identity; also: every process-name length across the 255-byte limit; validity of the real name is judged whatever the model says."
	w := &Worker{}
	defer w.Close()
	r := NewRng(ctx.Seed)
	names := []string{"p", "pq", "P.x", "p.x", "P x", "p_x"} // the last four sanitise to two fragments only
	paths := []string{"a", "ab", "a/b", "b", "x/ab", "data/a.txt", "d/d", "e/e", "d/d/f", "e/e/f", "x/d/d/f"}
	vals := []string{"1", "x", "ab"}
	ids := []ident{}
	for _, n := range names {
		ids = append(ids, ident{Name: n})
		for _, p1 := range paths {
			ids = append(ids, ident{Name: n, Ins: map[string]string{"in": p1}})
			for _, p2 := range paths[:4] {
				ids = append(ids, ident{Name: n, Ins: map[string]string{"in1": p1, "in2": p2}})
			}
			for _, v := range vals {
				ids = append(ids, ident{Name: n, Ins: map[string]string{"in": p1}, Params: map[string]string{"k": v}})
				ids = append(ids, ident{Name: n, Ins: map[string]string{"in": p1}, Tags: map[string]string{"in.t": v}})
			}
		}
		for _, v1 := range vals {
			for _, v2 := range vals {
				ids = append(ids, ident{Name: n, Params: map[string]string{"k": v1, "l": v2}})
			}
		}
	}
	// sub-stream members
	ids = append(ids, ident{Name: "j", Ins: map[string]string{"in": "carrier"}, Subs: map[string][]string{"in": {"a", "b"}}})
	ids = append(ids, ident{Name: "j", Ins: map[string]string{"in": "carrier"}, Subs: map[string][]string{"in": {"b", "a"}}})
	ids = append(ids, ident{Name: "j", Ins: map[string]string{"in": "carrier"}, Subs: map[string][]string{"in": {}}})
	// a process name beyond the 214-byte fold: the identity must still enter the hash
	// every name length around the 255-byte limit of a path segment (prefix and hash suffix included)
	for l := 190; l <= 245; l++ {
		ids = append(ids, ident{Name: strings.Repeat("n", l), Ins: map[string]string{"in": "a"}})
	}
	longName := strings.Repeat("longprocessname", 15) // 225 bytes
	ids = append(ids, ident{Name: longName, Ins: map[string]string{"in": "a"}}, ident{Name: longName, Ins: map[string]string{"in": "b"}},
		ident{Name: longName, Ins: map[string]string{"in": "a"}, Params: map[string]string{"k": "1"}}, ident{Name: longName, Ins: map[string]string{"in": "a"}, Params: map[string]string{"k": "2"}})
	// two and three joined ports (the order in which they enter the hash must be fixed)
	ids = append(ids, ident{Name: "jj", Ins: map[string]string{"in1": "c1", "in2": "c2"}, Subs: map[string][]string{"in1": {"a", "b"}, "in2": {"c", "d"}}})
	ids = append(ids, ident{Name: "jj", Ins: map[string]string{"in1": "c1", "in2": "c2", "in3": "c3"}, Subs: map[string][]string{"in1": {"a"}, "in2": {"b"}, "in3": {"c"}}})
	// random large identities
	nr := 60
	if ctx.Thorough() {
		nr = 1500
	}
	alpha := "abcXYZ019_-."
	rs := func(n int) string {
		b := make([]byte, n)
		for i := range b {
			b[i] = alpha[r.Intn(len(alpha))]
		}
		return string(b)
	}
	rpath := func() string {
		segs := []string{}
		for i := 0; i <= r.Intn(4); i++ {
			segs = append(segs, "s"+rs(1+r.Intn(6)))
			if r.Intn(5) == 0 { // a directory named like its parent
				segs = append(segs, segs[len(segs)-1])
			}
		}
		p := strings.Join(segs, "/")
		switch r.Intn(6) {
		case 0:
			p = "/" + p
		case 1:
			p = "../" + p
		}
		return p
	}
	for i := 0; i < nr; i++ {
		id := ident{Name: rs(1 + r.Intn(12)), Ins: map[string]string{}, Params: map[string]string{}, Tags: map[string]string{}}
		switch r.Intn(6) {
		case 0:
			id.Name = rs(190 + r.Intn(80)) // around the 214-byte fold
		case 1:
			id.Name = "Name With Spaces/and:odd*chars" + rs(3)
		}
		for k := 0; k < r.Intn(4); k++ {
			id.Ins[fmt.Sprintf("in%d", k)] = rpath()
		}
		for k := 0; k < r.Intn(3); k++ {
			id.Params[fmt.Sprintf("p%d", k)] = rs(1 + r.Intn(5))
		}
		for k := 0; k < r.Intn(2); k++ {
			id.Tags[fmt.Sprintf("in0.t%d", k)] = rs(1 + r.Intn(5))
		}
		ids = append(ids, id)
	}
	byDir := map[string][]int{}
	results := make([]tdRes, len(ids))
	okv := make([]bool, len(ids))
	for i, id := range ids {
		if !ctx.TimeLeft() {
			break
		}
		results[i], okv[i] = tmpdirBoth(ctx, w, id)
		if okv[i] {
			byDir[results[i].real] = append(byDir[results[i].real], i)
		}
	}
	// stability: ask again (fresh IPs, fresh task objects)
	for i := 0; i < len(ids); i++ {
		if i >= 40 && len(ids[i].Subs) < 2 {
			continue
		}
		reps := 1
		if len(ids[i].Subs) >= 2 {
			reps = 30 // map iteration order shows only now and then
		}
		for k := 0; k < reps && okv[i]; k++ {
			again := w.Ask(ids[i].fields()...)
			if again != results[i].real {
				ctx.Res.Violate(Violation{What: fmt.Sprintf("the same task got two temp dirs: %q and %q", results[i].real, again), Class: "c14.unstable", Witness: ids[i]})
				break
			}
		}
	}
	// pairwise distinctness
	pairs, collisions := 0, 0
	perClass := map[string]int{}
	for _, idx := range byDir {
		pairs += len(idx) * (len(idx) - 1) / 2
		seen := map[string]int{}
		for _, i := range idx {
			s := ids[i].String()
			if j, ok := seen[s]; ok && j != i {
				continue
			}
			seen[s] = i
		}
		if len(seen) > 1 {
			collisions++
			var ws []ident
			for _, i := range seen {
				ws = append(ws, ids[i])
				if len(ws) == 2 {
					break
				}
			}
			class := "c14.hash-collision"
			if results[idx[0]].preimage == results[idx[len(idx)-1]].preimage {
				class = "c14.concat-ambiguous" // F3: pieces are joined with "" so different identities flatten to the same string
			}
			perClass[class]++
			if perClass[class] <= 3 { // at most three witnesses per class (the known concatenation ambiguity has many)
				ctx.Res.Violate(Violation{What: fmt.Sprintf("two different tasks share the temp dir %s (hashed string %q)", results[idx[0]].real, results[idx[0]].preimage), Class: class, Witness: ws})
			}
		}
	}
	// splitAllPaths itself: every clean path over {a, b, ab} of depth <= 4, relative, absolute and ../-prefixed
	segAlpha := []string{"a", "b", "ab"}
	var cleanPaths func(prefix []string, depth int) [][]string
	cleanPaths = func(prefix []string, depth int) [][]string {
		out := [][]string{}
		if len(prefix) > 0 {
			out = append(out, append([]string{}, prefix...))
		}
		if depth == 0 {
			return out
		}
		for _, sg := range segAlpha {
			out = append(out, cleanPaths(append(append([]string{}, prefix...), sg), depth-1)...)
		}
		return out
	}
	nsplit := 0
	for _, segs := range cleanPaths(nil, 4) {
		for _, pre := range []string{"", "/", "../"} {
			pth := pre + strings.Join(segs, "/")
			realS, modelS := w.Ask("splitpaths", pth), ctx.Drv.Ask("splitpaths", pth)
			nsplit++
			if realS != modelS {
				ctx.Res.Disagree(Violation{What: fmt.Sprintf("splitAllPaths(%q): real %q, model %q", pth, strings.ReplaceAll(realS, US, ","), strings.ReplaceAll(modelS, US, ",")), Class: "c14.split", Witness: pth})
			}
			want := append([]string{}, segs...)
			if pre == "../" {
				want = append([]string{".."}, want...)
			}
			if realS != strings.Join(want, US) {
				ctx.Res.Violate(Violation{What: fmt.Sprintf("splitAllPaths(%q) = %q loses or invents path components (want %q): two inputs differing only there share a temp dir", pth, strings.ReplaceAll(realS, US, ","), strings.Join(want, ",")), Class: "c14.split-drops", Witness: pth})
			}
		}
	}
	ctx.Res.Extra["split_paths_compared"] = nsplit
	// stability across runs for a task with a joined in-port (the carrier IP of the sub-stream)
	joinDirs := []string{}
	for k := 0; k < 2; k++ {
		d := &Desc{Name: "c14join", Max: 2, Nodes: []Node{{Name: "src", Kind: "filesource", Paths: []string{"a.txt", "b.txt"}}, {Name: "sts", Kind: "substream"},
			{Name: "join", Kind: "proc", Cmd: "cat {i:in|join: } > {o:out}", Outs: map[string]string{"out": "joined.out"}}},
			Edges: []Edge{{From: "src.out", To: "sts.in"}, {From: "sts.substream", To: "join.in"}}}
		rr := RunWorkflow(d, RunOpts{Pre: map[string]string{"a.txt": "a\n", "b.txt": "b\n"}})
		for _, e := range rr.Trace {
			if e.Point == "exec.start" && e.Args[0] == "join" {
				joinDirs = append(joinDirs, e.Args[1])
			}
		}
		os.RemoveAll(rr.Dir)
	}
	ctx.Res.Eval("join-task-two-runs", true, "the same joining task in two runs")
	if len(joinDirs) == 2 && joinDirs[0] != joinDirs[1] {
		ctx.Res.Violate(Violation{What: fmt.Sprintf("the same task (joined in-port over a.txt, b.txt) got temp dir %s in one run and %s in the next", joinDirs[0], joinDirs[1]), Class: "c14.unstable-join", Witness: "FileSource(a.txt,b.txt) -> StreamToSubStream -> cat {i:in|join: }"})
	}
	ctx.Res.Extra["identities"] = len(ids)
	ctx.Res.Extra["colliding_groups"] = collisions
}

func init() { checks["C14"] = checkC14 }
