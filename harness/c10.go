package main

import (
	"encoding/json"
	"fmt"
	"io/ioutil"
	"os"
	"path/filepath"
	"reflect"
	"strings"
	"time"
)

// C10 / C11: audit records of real runs.

type auditJSON struct {
	ID          string
	ProcessName string
	Command     string
	Params      map[string]string
	Tags        map[string]string
	StartTime   time.Time
	FinishTime  time.Time
	ExecTimeNS  time.Duration
	OutFiles    map[string]string
	Upstream    map[string]*auditJSON
}

func readAudit(dir, path string) (*auditJSON, error) {
	b, err := ioutil.ReadFile(filepath.Join(dir, path+".audit.json"))
	if err != nil {
		return nil, err
	}
	var a auditJSON
	dec := json.NewDecoder(strings.NewReader(string(b)))
	dec.DisallowUnknownFields()
	if err := dec.Decode(&a); err != nil {
		return nil, err
	}
	if rest, _ := ioutil.ReadAll(dec.Buffered()); strings.TrimSpace(string(rest)) != "" {
		return nil, fmt.Errorf("%d bytes of trailing data after the record", len(strings.TrimSpace(string(rest))))
	}
	return &a, nil
}

// the lineage without IDs and times (what must be equal between interrupted and uninterrupted runs)
func normAudit(a *auditJSON) interface{} {
	if a == nil {
		return nil
	}
	ups := map[string]interface{}{}
	for k, u := range a.Upstream {
		ups[k] = normAudit(u)
	}
	return map[string]interface{}{"proc": a.ProcessName, "cmd": a.Command, "params": a.Params, "tags": a.Tags, "outs": a.OutFiles, "ups": ups}
}

func runC10(ctx *Ctx, g Dag, buf int, tagged bool) {
	d, pre := g.desc()
	if tagged {
		// put a MapToTags with a key of its own between every file source and its consumers
		for _, sn := range g.Nodes {
			if sn.Kind != "src" {
				continue
			}
			tg := "tagger_" + sn.Name
			d.Nodes = append(d.Nodes, Node{Name: tg, Kind: "maptotags", Arg: "origin_" + sn.Name})
			for i := range d.Edges {
				if d.Edges[i].From == sn.Name+".out" {
					d.Edges[i].From = tg + ".out"
				}
			}
			d.Edges = append(d.Edges, Edge{From: sn.Name + ".out", To: tg + ".in"})
		}
	}
	// every second process gets a Prepend (the bash keyword `time` accepts the pattern's subshell)
	prepends := map[string]string{}
	k := 0
	for i := range d.Nodes {
		if d.Nodes[i].Kind == "proc" {
			if k%2 == 1 {
				d.Nodes[i].Prepend = "time"
				prepends[d.Nodes[i].Name] = "time"
			}
			k++
		}
	}
	rr := RunWorkflow(d, RunOpts{Pre: pre, Timeout: 25e9, Env: []string{fmt.Sprintf("SCIPIPE_BUFSIZE=%d", buf)}})
	defer os.RemoveAll(rr.Dir)
	files, em := g.simulate()
	ctx.Res.Eval(fmt.Sprintf("%v tagged=%v", g, tagged), len(files) >= 2, map[string]interface{}{"dag": g, "tagged": tagged})
	if tagged {
		ctx.Res.Count("with-maptotags")
	}
	if rr.Exit != 0 {
		ctx.Res.Disagree(Violation{What: fmt.Sprintf("workflow exited %d: %s", rr.Exit, firstLine(rr.Stderr)), Witness: g})
		return
	}
	patterns := map[string]string{}
	for _, n := range d.Nodes {
		patterns[n.Name] = n.Cmd
	}
	checked := 0
	for _, n := range g.Nodes {
		if n.Kind != "proc" || n.NoOut {
			continue
		}
		for t, e := range em[n.Name] {
			a, err := readAudit(rr.Dir, e.path)
			if err != nil {
				ctx.Res.Violate(Violation{What: fmt.Sprintf("output %s has no valid audit file: %v", e.path, err), Class: "c10.invalid", Witness: g})
				continue
			}
			checked++
			bad := func(what string) {
				ctx.Res.Violate(Violation{What: fmt.Sprintf("audit record of %s: %s", e.path, what), Class: "c10.field", Witness: g})
			}
			if a.ProcessName != n.Name {
				bad(fmt.Sprintf("ProcessName %q, expected %q", a.ProcessName, n.Name))
			}
			// inputs and parameter of this task
			ins := map[string]string{}
			for k, u := range n.Ins {
				ins[fmt.Sprintf("in%d", k)] = em[u][t].path
			}
			params := map[string]string{}
			if n.PIn == "@" {
				params["p"] = n.PVals[t]
			} else if n.PIn != "" {
				params["p"] = em[n.PIn][t].path
			}
			model := ctx.Drv.Ask("fmtcmd", patterns[n.Name], kvField(ins), "", "out"+RS+e.path, kvField(params), "", prepends[n.Name])
			if model != "OK\t"+a.Command {
				bad(fmt.Sprintf("Command %q differs from the command the formatting model derives %q", a.Command, model))
			}
			if pp := prepends[n.Name]; pp != "" && !strings.HasPrefix(a.Command, pp+" ") {
				bad(fmt.Sprintf("Command %q lacks the process's Prepend %q: it is not the command that was executed", a.Command, pp))
			}
			if len(params) == 0 {
				params = map[string]string{}
			}
			if !reflect.DeepEqual(a.Params, params) && !(len(a.Params) == 0 && len(params) == 0) {
				bad(fmt.Sprintf("Params %v, expected %v", a.Params, params))
			}
			if !reflect.DeepEqual(a.OutFiles, map[string]string{"out": e.path}) {
				bad(fmt.Sprintf("OutFiles %v", a.OutFiles))
			}
			// ExecTimeNS is measured on the monotonic clock, the serialized times are wall-clock readings:
			// allow them to differ by less than a millisecond
			diff := a.ExecTimeNS - a.FinishTime.Sub(a.StartTime)
			if diff < 0 {
				diff = -diff
			}
			if a.FinishTime.Before(a.StartTime) || a.ExecTimeNS < 0 || diff > time.Millisecond || a.StartTime.IsZero() {
				bad(fmt.Sprintf("timing start=%v finish=%v exec=%v", a.StartTime, a.FinishTime, a.ExecTimeNS))
			}
			wantTags := map[string]string{}
			if len(a.Upstream) != len(uniq(ins)) {
				bad(fmt.Sprintf("Upstream has %d entries for inputs %v", len(a.Upstream), ins))
			}
			for _, p := range ins {
				u, ok := a.Upstream[p]
				if !ok {
					bad(fmt.Sprintf("Upstream lacks input %s", p))
					continue
				}
				disk, err := readAudit(rr.Dir, p)
				if err != nil {
					// a source file: the embedded record must be an empty one
					if u.ProcessName != "" || u.Command != "" || len(u.Upstream) != 0 {
						bad(fmt.Sprintf("Upstream[%s] of a source file is not empty: %+v", p, u))
					}
					if tagged {
						ctx.Res.Violate(Violation{What: fmt.Sprintf("tagged source %s has no audit file", p), Class: "c10.tags", Witness: g})
					}
					continue
				}
				if !reflect.DeepEqual(normAudit(u), normAudit(disk)) || u.ID != disk.ID {
					bad(fmt.Sprintf("Upstream[%s] differs from the audit file of that input", p))
				}
				// tags of the input are on this record
				for k, v := range disk.Tags {
					wantTags[k] = v
					if a.Tags[k] != v {
						ctx.Res.Violate(Violation{What: fmt.Sprintf("tag %s=%s of input %s is missing on the record of %s (tags %v)", k, v, p, e.path, a.Tags), Class: "c10.tags", Witness: g})
					}
				}
			}
			// ... and nothing else: no tagging component sits behind a process in these workflows, so a tag
			// that none of the inputs carries came from somewhere it must not (another task's record)
			for k, v := range a.Tags {
				if wantTags[k] != v {
					ctx.Res.Violate(Violation{What: fmt.Sprintf("record of %s carries tag %s=%s that none of its inputs %v carries (their tags: %v)", e.path, k, v, ins, wantTags), Class: "c10.foreign-tag", Witness: g})
				}
			}
		}
	}
	ctx.Res.Count(fmt.Sprintf("records-checked=%d", minInt(checked, 9)))
}

func uniq(m map[string]string) map[string]bool {
	out := map[string]bool{}
	for _, v := range m {
		out[v] = true
	}
	return out
}

func checkC10(ctx *Ctx) {
	ctx.Res.Rule = "random balanced DAG workflows (multi-input, fan-out, FromStr / ParamSource parameters), optionally with a MapToTags component behind the first source, SCIPIPE_BUFSIZE in {1,3,128}; for every output of every task the audit file is parsed strictly (unknown fields rejected) and checked: process name, Command equal to what the Lean formatting model derives for that task, parameters, output paths, start <= finish and ExecTimeNS = finish - start, Upstream keyed by exactly the input paths, each embedded record identical (including ID) to the audit file of that input or an empty record for sources, and every tag of an input present on the output; non-trivial = at least two outputs; distinct by (graph, tagged); also: outputs with ../ in OutFiles, the lineage through a streaming edge (late consumer), and at kills around the renames no finalized output without a valid audit record."
	r := NewRng(ctx.Seed)
	n := 12
	if ctx.Thorough() {
		n = 150
	}
	type job struct {
		g      Dag
		buf    int
		tagged bool
	}
	jobs := []job{{Dag{Max: 2, Nodes: []DNode{{Name: "s0", Kind: "src", Items: 2}, {Name: "P0", Kind: "proc", Ins: []string{"s0"}}, {Name: "P1", Kind: "proc", Ins: []string{"P0", "s0"}, PIn: "@", PVals: []string{"x", "y"}}, {Name: "P2", Kind: "proc", Ins: []string{"P1"}}}}, 128, true},
		// two differently tagged sources into one task, and a second consumer of each (fan-out below a tagged file)
		{Dag{Max: 2, Nodes: []DNode{{Name: "s0", Kind: "src", Items: 2}, {Name: "s1", Kind: "src", Items: 2}, {Name: "P0", Kind: "proc", Ins: []string{"s0", "s1"}},
			{Name: "P1", Kind: "proc", Ins: []string{"s0"}}, {Name: "P2", Kind: "proc", Ins: []string{"s1", "P0"}}, {Name: "P3", Kind: "proc", Ins: []string{"P1", "P2"}}}}, 128, true}}
	for i := 0; i < n; i++ {
		g := genBalancedDag(r, false, 4)
		jobs = append(jobs, job{g, []int{1, 3, 128}[r.Intn(3)], r.Intn(3) == 0 && g.Nodes[0].Kind == "src"})
	}
	parallel(len(jobs), 6, func(i int) {
		if ctx.TimeLeft() {
			runC10(ctx, jobs[i].g, jobs[i].buf, jobs[i].tagged)
		}
	})
	streamLineage(ctx)
	auditBeforeOutput(ctx)
	// tasks with two outputs: the audit file of *each* output lists all outputs of the task
	// ... and outputs outside the working directory (paths with ../): the record names the declared paths
	up := fmt.Sprintf("../c10up_%d/a.txt", os.Getpid())
	for _, ch := range []Chain{{Inputs: []string{"a.txt", "b.txt"}, Levels: []Level{{TwoOut: true}, {}}, Max: 2}, {Inputs: []string{"a.txt"}, Levels: []Level{{}, {TwoOut: true}}, Max: 1},
		{Inputs: []string{up}, Levels: []Level{{}, {TwoOut: true}}, Max: 2}} {
		dir := newDir()
		for p, content := range ch.sources() {
			if strings.HasPrefix(p, "../") {
				os.MkdirAll(filepath.Dir(filepath.Join(dir, p)), 0755)
				defer os.RemoveAll(filepath.Dir(filepath.Join(dir, p)))
			}
			ioutil.WriteFile(filepath.Join(dir, p), []byte(content), 0644)
		}
		rr := RunWorkflow(ch.desc(), RunOpts{Dir: dir})
		ctx.Res.Eval(fmt.Sprintf("two-out %v", ch), true, ch)
		ctx.Res.Count("two-output-chain")
		if rr.Exit != 0 {
			ctx.Res.Disagree(Violation{What: "two-output chain failed: " + firstLine(rr.Stderr), Witness: ch})
			os.RemoveAll(dir)
			continue
		}
		for _, t := range ch.tasks() {
			for _, o := range t.Outs {
				a, err := readAudit(dir, o)
				if err != nil {
					ctx.Res.Violate(Violation{What: fmt.Sprintf("output %s has no valid audit file: %v", o, err), Class: "c10.invalid", Witness: ch})
					continue
				}
				if !reflect.DeepEqual(a.OutFiles, t.Outs) {
					ctx.Res.Violate(Violation{What: fmt.Sprintf("audit file of %s lists the outputs %v, the task wrote %v", o, a.OutFiles, t.Outs), Class: "c10.outfiles", Witness: ch})
				}
			}
		}
		os.RemoveAll(dir)
	}
}

// a streaming edge inside the lineage: producer -> {os:} -> consumer (ends well after the producer, so that the
// producer's record is complete when the consumer links it: the other order is listed finding F15 of C17) -> ordinary
// task; the record of the final file contains the whole chain back to the source
func streamLineage(ctx *Ctx) {
	d := &Desc{Name: "c10stream", Max: 4, Nodes: []Node{{Name: "src", Kind: "filesource", Paths: []string{"s.txt"}},
		{Name: "prod", Kind: "proc", Cmd: "( cat {i:in} > {os:out} )", Outs: map[string]string{"out": "{i:in}.stream"}},
		{Name: "cons", Kind: "proc", Cmd: "( cat {i:in} > {o:out} ; sleep 0.5 )", Outs: map[string]string{"out": "{i:in}.copy"}},
		{Name: "last", Kind: "proc", Cmd: "( cat {i:in} > {o:out} )", Outs: map[string]string{"out": "{i:in}.final"}}},
		Edges: []Edge{{From: "src.out", To: "prod.in"}, {From: "prod.out", To: "cons.in"}, {From: "cons.out", To: "last.in"}}}
	rr := RunWorkflow(d, RunOpts{Pre: map[string]string{"s.txt": "x\n"}, Timeout: 20e9})
	defer os.RemoveAll(rr.Dir)
	ctx.Res.Eval("lineage through a streaming edge", true, "stream-lineage")
	ctx.Res.Count("streaming-edge-lineage")
	if rr.Exit != 0 {
		ctx.Res.Disagree(Violation{What: "streaming lineage workflow failed: " + firstLine(rr.Stderr), Witness: "stream-lineage"})
		return
	}
	a, err := readAudit(rr.Dir, "s.txt.stream.copy.final")
	if err != nil {
		ctx.Res.Violate(Violation{What: "final output behind a streaming edge has no valid audit file: " + err.Error(), Class: "c10.invalid", Witness: "stream-lineage"})
		return
	}
	chain := []string{"last", "cons", "prod"}
	keys := []string{"s.txt.stream.copy", "s.txt.stream", "s.txt"}
	cur := a
	for k, want := range chain {
		if cur == nil || cur.ProcessName != want || cur.Command == "" {
			ctx.Res.Violate(Violation{What: fmt.Sprintf("lineage of s.txt.stream.copy.final: at depth %d the record names process %q (expected %q): the chain back to the source is broken at the streaming edge", k, func() string {
				if cur == nil {
					return "<none>"
				}
				return cur.ProcessName
			}(), want), Class: "c10.stream-lineage", Witness: "stream-lineage"})
			return
		}
		cur = cur.Upstream[keys[k]]
	}
}

// at no instant does a finalized output exist without its audit record: kill the run at the points around the
// renames and look
func auditBeforeOutput(ctx *Ctx) {
	ch := Chain{Inputs: []string{"a.txt", "b.txt"}, Levels: []Level{{}, {}}, Max: 2}
	for _, pt := range []string{"fin.renamed#1", "fin.renamed#2", "fin.renamed#3", "fin.rmtmp.before#1", "fin.rmtmp.after#1", "fin.rmtmp.after#2", "exec.finalized#1"} {
		dir := newDir()
		for p, content := range ch.sources() {
			ioutil.WriteFile(filepath.Join(dir, p), []byte(content), 0644)
		}
		rr := RunWorkflow(ch.desc(), RunOpts{Dir: dir, Env: []string{"VERIF_CRASH_AT=" + pt}})
		ctx.Res.Eval("outputs and their audit files at a kill at "+pt, rr.Exit == -1, pt)
		ctx.Res.Count("kill-around-rename")
		for _, t := range ch.tasks() {
			for _, o := range t.Outs {
				if _, ok := readFile(dir, o); !ok {
					continue
				}
				if a, err := readAudit(dir, o); err != nil || a.ProcessName == "" {
					ctx.Res.Violate(Violation{What: fmt.Sprintf("killed at %s: %s exists at its final path without a valid audit record next to it (%v)", pt, o, err), Class: "c10.output-without-record", Witness: pt})
				}
			}
		}
		os.RemoveAll(dir)
	}
}

// ---------------- C11 ----------------

type c11Case struct {
	Chain Chain  `json:"chain"`
	Mode  string `json:"mode"` // runto | crash | delete
	Arg   string `json:"arg"`
	N     int    `json:"n"`
}

func auditsOf(dir string, ch Chain) map[string]interface{} {
	out := map[string]interface{}{}
	for _, t := range ch.tasks() {
		for _, o := range t.Outs {
			if a, err := readAudit(dir, o); err == nil {
				out[o] = normAudit(a)
			} else {
				out[o] = "ERR " + err.Error()
			}
		}
	}
	return out
}

func runC11(ctx *Ctx, c c11Case) {
	ref := newDir()
	defer os.RemoveAll(ref)
	for p, content := range c.Chain.sources() {
		ioutil.WriteFile(filepath.Join(ref, p), []byte(content), 0644)
	}
	r0 := RunWorkflow(c.Chain.desc(), RunOpts{Dir: ref})
	if r0.Exit != 0 {
		ctx.Res.Disagree(Violation{What: "reference run failed: " + firstLine(r0.Stderr), Witness: c})
		return
	}
	want := auditsOf(ref, c.Chain)
	dir := newDir()
	defer os.RemoveAll(dir)
	for p, content := range c.Chain.sources() {
		ioutil.WriteFile(filepath.Join(dir, p), []byte(content), 0644)
	}
	d := c.Chain.desc()
	switch c.Mode {
	case "runto":
		d1 := c.Chain.desc()
		d1.RunTo, d1.RunToKind = []string{c.Arg}, "name"
		if r := RunWorkflow(d1, RunOpts{Dir: dir}); r.Exit != 0 {
			ctx.Res.Disagree(Violation{What: "RunTo prefix failed: " + firstLine(r.Stderr), Witness: c})
			return
		}
	case "truncate":
		// a run that ended while an audit file was being rewritten: RunTo prefix, then the first level's record of
		// one input is cut to 0 bytes. The resumed run may refuse the damaged record, it must not build on it
		d1 := c.Chain.desc()
		d1.RunTo, d1.RunToKind = []string{c.Arg}, "name"
		if r := RunWorkflow(d1, RunOpts{Dir: dir}); r.Exit != 0 {
			ctx.Res.Disagree(Violation{What: "RunTo prefix failed: " + firstLine(r.Stderr), Witness: c})
			return
		}
		victim := c.Chain.pathAt(c.Chain.Inputs[0], 0)
		os.Truncate(filepath.Join(dir, victim+".audit.json"), 0)
		if r := RunWorkflow(c.Chain.desc(), RunOpts{Dir: dir}); r.Exit != 0 {
			ctx.Res.Count("damaged-record-refused")
			if !strings.Contains(strings.ToLower(r.Stderr), "unmarshal") {
				ctx.Res.Violate(Violation{What: "resuming over a 0-byte audit file failed without naming the damaged record: " + firstLine(r.Stderr), Class: "c11.resume-failed", Witness: c})
				return
			}
			os.Remove(filepath.Join(dir, victim))
			os.Remove(filepath.Join(dir, victim+".audit.json"))
			removeLeftovers(dir)
		} else {
			ctx.Res.Count("damaged-record-accepted")
		}
	case "crash":
		RunWorkflow(d, RunOpts{Dir: dir, Env: []string{fmt.Sprintf("VERIF_CRASH_AT=%s#%d", c.Arg, c.N)}})
		removeLeftovers(dir)
	case "stale":
		// the outputs of the last level are lost but their audit files stay behind, longer than the records the re-run
		// will write (an earlier attempt with more to say): the new record replaces the stale one completely
		if r := RunWorkflow(d, RunOpts{Dir: dir}); r.Exit != 0 {
			return
		}
		lastL := len(c.Chain.Levels) - 1
		for _, x := range c.Chain.Inputs {
			p := c.Chain.pathAt(x, lastL)
			os.Remove(filepath.Join(dir, p))
			ap := filepath.Join(dir, p+".audit.json")
			if b, err := ioutil.ReadFile(ap); err == nil {
				stale := strings.Replace(string(b), "{", "{\n    \"Stale\": \""+strings.Repeat("x", 300)+"\",", 1)
				ioutil.WriteFile(ap, []byte(stale), 0644)
			}
		}
	case "delete":
		if r := RunWorkflow(d, RunOpts{Dir: dir}); r.Exit != 0 {
			return
		}
		// delete the outputs (and audit files) of the last level
		last := len(c.Chain.Levels) - 1
		for _, x := range c.Chain.Inputs {
			p := c.Chain.pathAt(x, last)
			os.Remove(filepath.Join(dir, p))
			os.Remove(filepath.Join(dir, p+".audit.json"))
		}
	}
	final := c.Chain.desc()
	if c.Mode == "inproc" {
		// four runs inside one OS process: all; downstream again (level-0 outputs taken from disk);
		// everything again (level-0 outputs regenerated with new records); downstream again
		last := len(c.Chain.Levels) - 1
		lvl := func(l int) []string {
			out := []string{}
			for _, x := range c.Chain.Inputs {
				p := c.Chain.pathAt(x, l)
				out = append(out, p, p+".audit.json")
			}
			return out
		}
		all := []string{}
		for l := 0; l <= last; l++ {
			all = append(all, lvl(l)...)
		}
		final.Rounds = [][]string{lvl(last), all, lvl(last)}
	}
	// ancestor records on disk before resuming
	before := map[string]*auditJSON{}
	for _, t := range c.Chain.tasks() {
		for _, o := range t.Outs {
			if a, err := readAudit(dir, o); err == nil {
				if _, ok := readFile(dir, o); ok {
					before[o] = a
				}
			}
		}
	}
	rr := RunWorkflow(final, RunOpts{Dir: dir})
	ctx.Res.Eval(fmt.Sprintf("%v", c), true, c)
	ctx.Res.Count("mode=" + c.Mode)
	if rr.Exit != 0 {
		class := "c11.resume-failed"
		if strings.Contains(rr.Stderr, "unmarshal") || strings.Contains(rr.Stderr, "Unmarshal") {
			class = "c11.truncated-audit"
		}
		ctx.Res.Violate(Violation{What: fmt.Sprintf("resumed run exited %d: %s", rr.Exit, firstLine(rr.Stderr)), Class: class, Witness: c})
		return
	}
	got := auditsOf(dir, c.Chain)
	if !reflect.DeepEqual(got, want) {
		for k := range want {
			if !reflect.DeepEqual(got[k], want[k]) {
				ctx.Res.Violate(Violation{What: fmt.Sprintf("lineage of %s after %s + resume differs from the uninterrupted run: %v vs %v", k, c.Mode, got[k], want[k]), Class: "c11.lineage", Witness: c})
				break
			}
		}
	}
	// records of files that were already on disk are unchanged, and embedded copies are identical to them
	for o, a0 := range before {
		a1, err := readAudit(dir, o)
		if err != nil || a1.ID != a0.ID {
			ctx.Res.Violate(Violation{What: fmt.Sprintf("audit record of %s, already on disk before resuming, was rewritten", o), Class: "c11.ancestor-changed", Witness: c})
		}
	}
	for _, t := range c.Chain.tasks() {
		for _, o := range t.Outs {
			a, err := readAudit(dir, o)
			if err != nil {
				continue
			}
			if u, ok := a.Upstream[t.In]; ok {
				if disk, err := readAudit(dir, t.In); err == nil && (u.ID != disk.ID || !reflect.DeepEqual(normAudit(u), normAudit(disk))) {
					ctx.Res.Violate(Violation{What: fmt.Sprintf("ancestor record of %s embedded in %s is not the one on disk", t.In, o), Class: "c11.ancestor-differs", Witness: c})
				}
			}
		}
	}
}

// a lineage with two taggers (a tagged file's descendant receives a further tag): the records of the final files
// are the same whether the workflow ran uninterrupted, was run to a prefix first, or lost its last outputs and was
// run again
func taggedResume(ctx *Ctx) {
	mk := func() *Desc {
		return &Desc{Name: "c11tags", Max: 2, Nodes: []Node{{Name: "s", Kind: "filesource", Paths: []string{"a.txt", "b.txt"}},
			{Name: "t1", Kind: "maptotags", Arg: "k1"},
			{Name: "p1", Kind: "proc", Cmd: "cat {i:in} > {o:out}", Outs: map[string]string{"out": "{i:in}.p1"}},
			{Name: "t2", Kind: "maptotags", Arg: "k2"},
			{Name: "p2", Kind: "proc", Cmd: "cat {i:in} > {o:out}", Outs: map[string]string{"out": "{i:in}.p2"}},
			{Name: "p3", Kind: "proc", Cmd: "cat {i:in} > {o:out}", Outs: map[string]string{"out": "{i:in}.p3"}}},
			Edges: []Edge{{From: "s.out", To: "t1.in"}, {From: "t1.out", To: "p1.in"}, {From: "p1.out", To: "t2.in"}, {From: "t2.out", To: "p2.in"}, {From: "p2.out", To: "p3.in"}}}
	}
	pre := map[string]string{"a.txt": "a\n", "b.txt": "b\n"}
	finals := []string{"a.txt.p1.p2.p3", "b.txt.p1.p2.p3", "a.txt.p1.p2", "b.txt.p1.p2"}
	collect := func(dir string) map[string]interface{} {
		out := map[string]interface{}{}
		for _, f := range finals {
			if a, err := readAudit(dir, f); err == nil {
				out[f] = normAudit(a)
			} else {
				out[f] = "ERR " + err.Error()
			}
		}
		return out
	}
	ref := RunWorkflow(mk(), RunOpts{Pre: pre})
	defer os.RemoveAll(ref.Dir)
	if ref.Exit != 0 {
		ctx.Res.Disagree(Violation{What: "tagged reference run failed: " + firstLine(ref.Stderr), Witness: "tagged-resume"})
		return
	}
	want := collect(ref.Dir)
	for _, mode := range []string{"runto", "delete"} {
		dir := newDir()
		if mode == "runto" {
			d1 := mk()
			d1.RunTo, d1.RunToKind = []string{"p1"}, "name"
			RunWorkflow(d1, RunOpts{Dir: dir, Pre: pre})
		} else {
			RunWorkflow(mk(), RunOpts{Dir: dir, Pre: pre})
			for _, f := range finals {
				os.Remove(filepath.Join(dir, f))
				os.Remove(filepath.Join(dir, f+".audit.json"))
			}
		}
		rr := RunWorkflow(mk(), RunOpts{Dir: dir})
		ctx.Res.Eval("tagged lineage, "+mode, true, "tagged-resume-"+mode)
		ctx.Res.Count("mode=tagged-" + mode)
		if rr.Exit != 0 {
			ctx.Res.Violate(Violation{What: fmt.Sprintf("resumed tagged run (%s) exited %d: %s", mode, rr.Exit, firstLine(rr.Stderr)), Class: "c11.resume-failed", Witness: "tagged-resume-" + mode})
		} else if got := collect(dir); !reflect.DeepEqual(got, want) {
			for _, f := range finals {
				if !reflect.DeepEqual(got[f], want[f]) {
					ctx.Res.Violate(Violation{What: fmt.Sprintf("lineage of %s in a tagged workflow after %s + resume differs from the uninterrupted run: %v vs %v", f, mode, got[f], want[f]), Class: "c11.lineage", Witness: "tagged-resume-" + mode})
					break
				}
			}
		}
		os.RemoveAll(dir)
	}
}

func checkC11(ctx *Ctx) {
	ctx.Res.Rule = "chain workflows (1-3 inputs, 2-3 levels); the same outputs produced uninterrupted and (a) by RunTo on a prefix followed by Run, (b) by a run killed at the n-th occurrence of one of 20 instrumented points, cleanup and re-run, (c) by a complete run, deletion of the last level's outputs and re-run, (d) by four runs inside one OS process (all; last level deleted and redone; everything deleted and redone; last level deleted and redone); all cases non-trivial; distinct by (chain, mode, point). Checks: audit files of all outputs equal modulo IDs and timestamps between the two ways, records already on disk keep their ID, and each embedded ancestor record is identical to the audit file of that ancestor; also: an audit record cut to 0 bytes (the resume may refuse it, it must not build on it), stale longer audit files left beside lost outputs, and RunTo / delete histories of a lineage with two taggers."
	r := NewRng(ctx.Seed)
	n := 15
	if ctx.Thorough() {
		n = 200
	}
	cases := []c11Case{}
	for i := 0; i < n; i++ {
		ch := genChain(r, false)
		for len(ch.Levels) < 2 {
			ch.Levels = append(ch.Levels, Level{Cores: 1})
		}
		for j := range ch.Levels {
			ch.Levels[j].TwoOut = false
		}
		ch.Fanout = false
		switch i % 4 {
		case 3:
			cases = append(cases, c11Case{Chain: ch, Mode: "inproc"})
		case 0:
			cases = append(cases, c11Case{Chain: ch, Mode: "runto", Arg: ch.procName(r.Intn(len(ch.Levels) - 1))})
		case 1:
			cases = append(cases, c11Case{Chain: ch, Mode: "crash", Arg: crashPoints[r.Intn(len(crashPoints))], N: 1 + r.Intn(len(ch.tasks())+1)})
		default:
			cases = append(cases, c11Case{Chain: ch, Mode: "delete"})
		}
	}
	cases = append(cases, c11Case{Chain: Chain{Inputs: []string{"a.txt", "b.txt"}, Levels: []Level{{}, {}}, Max: 2}, Mode: "inproc"})
	tch := Chain{Inputs: []string{"a.txt", "b.txt"}, Levels: []Level{{}, {}, {}}, Max: 2}
	cases = append(cases, c11Case{Chain: tch, Mode: "truncate", Arg: tch.procName(0)})
	cases = append(cases, c11Case{Chain: tch, Mode: "stale"})
	parallel(len(cases), 6, func(i int) {
		if ctx.TimeLeft() {
			runC11(ctx, cases[i])
		}
	})
	taggedResume(ctx)
}

func init() {
	checks["C10"] = checkC10
	checks["C11"] = checkC11
}
