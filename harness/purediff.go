package main

import (
	"bufio"
	"io"
	"io/ioutil"
	"os"
	"os/exec"
	"strings"
	"sync"
)

// client of the pureworker, restarting it when scipipe's Fail kills it
type Worker struct {
	cmd *exec.Cmd
	in  io.WriteCloser
	out *bufio.Reader
	dir string
	mu  sync.Mutex
}

func (w *Worker) start() {
	if w.dir == "" {
		w.dir = newDir()
	}
	w.cmd = exec.Command(selfExe, "pureworker")
	w.cmd.Dir = w.dir
	w.cmd.Stderr = ioutil.Discard
	w.in, _ = w.cmd.StdinPipe()
	o, _ := w.cmd.StdoutPipe()
	w.out = bufio.NewReaderSize(o, 1<<20)
	w.cmd.Start()
}

// Ask returns the worker's answer, or "FAIL" if the real code ended the process (scipipe.Fail)
func (w *Worker) Ask(fields ...string) string {
	w.mu.Lock()
	defer w.mu.Unlock()
	if w.cmd == nil {
		w.start()
	}
	io.WriteString(w.in, strings.Join(fields, "\t")+"\n")
	for {
		line, err := w.out.ReadString('\n')
		if err != nil {
			w.cmd.Wait()
			code := w.cmd.ProcessState.ExitCode()
			w.cmd = nil
			if code == 1 {
				return "FAIL"
			}
			return "CRASH"
		}
		line = strings.TrimRight(line, "\n")
		// the library prints warnings on stdout; answers never start with a log prefix
		if strings.HasPrefix(line, "WARNING ") || strings.HasPrefix(line, "AUDIT ") || strings.HasPrefix(line, "INFO ") {
			continue
		}
		return line
	}
}

func (w *Worker) Close() {
	if w.cmd != nil {
		w.in.Close()
		w.cmd.Wait()
	}
	if w.dir != "" {
		os.RemoveAll(w.dir)
	}
}

// diff sends the same request to the real code and to the Lean model
func (ctx *Ctx) diff(w *Worker, class string, nontrivial bool, fields ...string) (string, string, bool) {
	for _, f := range fields {
		if strings.ContainsAny(f, "\t\n") {
			return "", "", true
		}
	}
	real := w.Ask(fields...)
	model := ctx.Drv.Ask(fields...)
	key := strings.Join(fields, "\t")
	ctx.Res.Eval(key, nontrivial, strings.Join(fields, " ⇥ "))
	ctx.Res.Count("req=" + fields[0])
	if real == "FAIL" {
		ctx.Res.Count("fail=" + fields[0])
	}
	if real == "PANIC" && model == "FAIL" {
		// the model's failure outcome covers scipipe.Fail and a Go panic alike: both end the workflow
		// (e.g. prependParentDirPath indexing an empty path); counted so that the evidence shows them
		ctx.Res.Count("panic-as-fail=" + fields[0])
		return real, model, true
	}
	if real != model {
		ctx.Res.Disagree(Violation{What: class + ": real=" + quote(real) + " model=" + quote(model), Class: class, Witness: fields})
		return real, model, false
	}
	return real, model, true
}

func quote(s string) string {
	s = strings.Replace(s, US, "␟", -1)
	s = strings.Replace(s, RS, "␞", -1)
	s = strings.Replace(s, GS, "␝", -1)
	return "\"" + s + "\""
}

func kvField(m map[string]string) string {
	out := []string{}
	for _, k := range sortedKeys(m) {
		out = append(out, k+RS+m[k])
	}
	return strings.Join(out, US)
}

func kvlField(m map[string][]string) string {
	ks := []string{}
	for k := range m {
		ks = append(ks, k)
	}
	sortStrings(ks)
	out := []string{}
	for _, k := range ks {
		out = append(out, k+RS+strings.Join(m[k], GS))
	}
	return strings.Join(out, US)
}

func sortStrings(s []string) {
	for i := 1; i < len(s); i++ {
		for j := i; j > 0 && s[j] < s[j-1]; j-- {
			s[j], s[j-1] = s[j-1], s[j]
		}
	}
}
