package main

import (
	"fmt"
	"io/ioutil"
	"os"
	"path/filepath"
	"strings"
)

// C09: fault injection at every kind of task failure while siblings run.

type c09Case struct {
	Chain  Chain  `json:"chain"`
	Level  int    `json:"level"`  // failing level
	Input  string `json:"input"`  // failing task = the one whose first output's basename starts with this input
	Kind   string `json:"kind"`   // exit_before | exit_partial | exit_after | kill | missing
}

func runC09(ctx *Ctx, c c09Case) {
	dir := newDir()
	defer os.RemoveAll(dir)
	for p, content := range c.Chain.sources() {
		ioutil.WriteFile(filepath.Join(dir, p), []byte(content), 0644)
	}
	ch := c.Chain
	ch.Levels = append([]Level{}, c.Chain.Levels...)
	ch.Levels[c.Level].Fault = c.Kind
	ch.Levels[c.Level].FaultWhen = c.Input + "*"
	rr := RunWorkflow(ch.desc(), RunOpts{Dir: dir})
	ctx.Res.Eval(fmt.Sprintf("%v", c), true, c)
	ctx.Res.Count("kind=" + c.Kind)
	if rr.Exit == 0 || rr.Returned {
		ctx.Res.Violate(Violation{What: fmt.Sprintf("task failure (%s at level %d, input %s) was silent: exit=%d, Run returned=%v", c.Kind, c.Level, c.Input, rr.Exit, rr.Returned), Class: "c09.silent", Witness: c})
	}
	if rr.Exit == -2 {
		ctx.Res.Violate(Violation{What: "workflow hung after a task failure", Class: "c09.hang", Witness: c})
	}
	// the failing task's outputs never appear; no dependant executes
	failOut := ch.pathAt(c.Input, c.Level)
	if _, ok := readFile(dir, failOut); ok {
		ctx.Res.Violate(Violation{What: fmt.Sprintf("output %s of the failing task exists at its final path", failOut), Class: "c09.final-appeared", Witness: c})
	}
	for _, t := range ch.tasks() {
		if t.Outs["out"] != failOut {
			continue
		}
		for port, o := range t.Outs {
			if _, ok := readFile(dir, o); ok && port != "out" {
				ctx.Res.Violate(Violation{What: fmt.Sprintf("output %s (port %s) of the failing task exists at its final path", o, port), Class: "c09.final-appeared", Witness: c})
			}
		}
	}
	started := startedTasks(rr.CmdTrace)
	for k := range started {
		f := strings.Fields(k)
		// dependants: tasks whose output name extends the failing output's name
		if strings.HasPrefix(f[1], filepath.Base(failOut)+".") {
			ctx.Res.Violate(Violation{What: fmt.Sprintf("dependant task %s executed although its input's producer failed", k), Class: "c09.dependant-ran", Witness: c})
		}
	}
	// every file that did get finalized is correct
	exp := c.Chain.expected()
	for o, got := range snapshotFinals(dir, c.Chain) {
		if got != exp[o] {
			ctx.Res.Violate(Violation{What: fmt.Sprintf("final path %s holds %q instead of %q", o, got, exp[o]), Class: "c09.wrong-content", Witness: c})
		}
	}
	// model: the same behaviour in the task model ends failed with nothing finalized
	acts, exit := "w:0:1", "code"
	switch c.Kind {
	case "exit_before":
		acts = ""
	case "kill":
		acts, exit = "", "killed"
	case "missing":
		acts, exit = "", "ok"
	}
	resp := ctx.Drv.Ask("task.sim", "0", acts, exit, "", "200")
	if !strings.Contains(resp, "status=failed") || !strings.Contains(resp, "final=-") {
		ctx.Res.Disagree(Violation{What: "model does not fail the task / finalizes something: " + resp, Witness: c})
	}
}

func checkC09(ctx *Ctx) {
	ctx.Res.Rule = "chain workflows with one injected task failure: kind in {exit before / after a partial / after the full write, SIGKILL of the shell, declared output not produced} x failing level x failing input, siblings running concurrently; plus tasks that cannot be formed (empty parameter value, invalid output path, missing tag); all cases non-trivial; distinct by (chain, level, input, kind). Checks: exit status non-zero, Run never returns, failing output absent, no dependant command starts, finalized files correct, model verdict for the same behaviour; also: a missing declared output beside a streaming one, and the failing surplus task of a join whose branches differ by one item."
	r := NewRng(ctx.Seed)
	n := 30
	if ctx.Thorough() {
		n = 300
	}
	kinds := []string{"exit_before", "exit_partial", "exit_after", "kill", "missing"}
	cases := []c09Case{}
	for i := 0; i < n; i++ {
		ch := genChain(r, ctx.Thorough())
		for j := range ch.Levels {
			ch.Levels[j].TwoOut = false
			ch.Levels[j].SleepMs = 5 + r.Intn(20)
		}
		c := c09Case{Chain: ch, Level: r.Intn(len(ch.Levels)), Input: ch.Inputs[r.Intn(len(ch.Inputs))], Kind: kinds[i%len(kinds)]}
		cases = append(cases, c)
	}
	// a task with two declared outputs of which one is not produced: neither may be finalized (several
	// repetitions: which output FinalizePaths would visit first depends on Go's map order)
	for k := 0; k < 6; k++ {
		cases = append(cases, c09Case{Chain: Chain{Inputs: []string{"a.txt", "b.txt"}, Levels: []Level{{TwoOut: true, SleepMs: 5}, {SleepMs: 5}}, Max: 2}, Level: 0, Input: "a.txt", Kind: "missing"})
	}
	parallel(len(cases), 8, func(i int) {
		if ctx.TimeLeft() {
			runC09(ctx, cases[i])
		}
	})
	for k := 0; k < 8; k++ {
		mixedMissing(ctx)
	}
	for k := 0; k < 6; k++ {
		surplusFails(ctx)
	}
	lateFailureBesideParams(ctx)
	lateFailureBesideParams(ctx)
	// tasks that cannot be formed
	unformable := []struct {
		name string
		d    *Desc
	}{
		{"empty parameter value", &Desc{Name: "u1", Max: 2, Nodes: []Node{{Name: "p", Kind: "proc", Cmd: "echo {p:x} > {o:out}", Outs: map[string]string{"out": "o.{p:x}.txt"}, FromStr: map[string][]string{"x": {"a", ""}}}}}},
		{"invalid output path", &Desc{Name: "u2", Max: 2, Nodes: []Node{{Name: "p", Kind: "proc", Cmd: "echo {p:x} > {o:out}", Outs: map[string]string{"out": "o.{p:x}.txt"}, FromStr: map[string][]string{"x": {"a b"}}}}}},
		{"missing tag", &Desc{Name: "u3", Max: 2, Nodes: []Node{{Name: "s", Kind: "filesource", Paths: []string{"a.txt"}}, {Name: "p", Kind: "proc", Cmd: "cat {i:in} > {o:out} # {t:nosuchtag}", Outs: map[string]string{"out": "{i:in}.o.txt"}}}, Edges: []Edge{{From: "s.out", To: "p.in"}}}},
	}
	for _, u := range unformable {
		rr := RunWorkflow(u.d, RunOpts{Pre: map[string]string{"a.txt": "x\n"}})
		ctx.Res.Eval("unformable:"+u.name, true, u.name)
		ctx.Res.Count("unformable")
		if rr.Exit == 0 || rr.Returned {
			ctx.Res.Violate(Violation{What: fmt.Sprintf("a task that cannot be formed (%s) did not stop the workflow: exit=%d returned=%v", u.name, rr.Exit, rr.Returned), Class: "c09.unformable-silent", Witness: u.name})
		}
		os.RemoveAll(rr.Dir)
	}
}

// a task with a streaming and two regular outputs whose command exits 0 without producing one of the regular ones:
// the task fails and none of its outputs is finalized (repeated: the order in which the outputs are visited is Go's
// map order)
func mixedMissing(ctx *Ctx) {
	d := &Desc{Name: "c09mixed", Max: 4, Nodes: []Node{{Name: "src", Kind: "filesource", Paths: []string{"m.txt"}},
		{Name: "p", Kind: "proc", Cmd: "( cat {i:in} > {os:s} ; cat {i:in} > {o:a} ; true {o:b} )", Outs: map[string]string{"s": "{i:in}.s", "a": "{i:in}.a.txt", "b": "{i:in}.b.txt"}},
		{Name: "cons", Kind: "proc", Cmd: "( cat {i:in} > {o:out} )", Outs: map[string]string{"out": "{i:in}.copy"}},
		{Name: "usea", Kind: "proc", Cmd: "( cat {i:in} > {o:out} )", Outs: map[string]string{"out": "{i:in}.used"}}},
		Edges: []Edge{{From: "src.out", To: "p.in"}, {From: "p.s", To: "cons.in"}, {From: "p.a", To: "usea.in"}}}
	rr := RunWorkflow(d, RunOpts{Pre: map[string]string{"m.txt": "payload\n"}, Timeout: 15e9})
	defer os.RemoveAll(rr.Dir)
	ctx.Res.Eval("missing output beside a streaming one", true, "mixed-missing")
	ctx.Res.Count("missing-output+stream")
	if rr.Exit == 0 || rr.Returned {
		ctx.Res.Violate(Violation{What: fmt.Sprintf("a task that did not produce a declared output (beside a streaming one) did not stop the workflow: exit=%d returned=%v", rr.Exit, rr.Returned), Class: "c09.silent", Witness: "mixed-missing"})
	}
	for _, p := range []string{"m.txt.a.txt", "m.txt.b.txt", "m.txt.a.txt.used"} {
		if _, ok := readFile(rr.Dir, p); ok {
			ctx.Res.Violate(Violation{What: fmt.Sprintf("%s exists although the task that declares m.txt.b.txt did not produce it: an output of the failed task was finalized (or a dependant ran)", p), Class: "c09.failed-output-final", Witness: "mixed-missing"})
		}
	}
}

// a join whose failing branch delivers one item more than the other: the process still waits for that item (one
// more round on the open ports), so the failure of the task that produces it stops the workflow (repeated: which
// in-port is visited first is Go's map order)
func surplusFails(ctx *Ctx) {
	d := &Desc{Name: "c09surplus", Max: 4, Nodes: []Node{{Name: "sa", Kind: "filesource", Paths: []string{"a0.txt", "a1.txt"}},
		{Name: "sb", Kind: "filesource", Paths: []string{"b0.txt", "b1.txt", "b2.txt"}},
		{Name: "pa", Kind: "proc", Cmd: "( cat {i:in} > {o:out} )", Outs: map[string]string{"out": "{i:in}.pa"}},
		{Name: "pb", Kind: "proc", Cmd: "( case {i:in|basename} in b2*) sleep 0.5 ; exit 3 ;; esac ; cat {i:in} > {o:out} )", Outs: map[string]string{"out": "{i:in}.pb"}},
		{Name: "join", Kind: "proc", Cmd: "( cat {i:x} {i:y} > {o:out} )", Outs: map[string]string{"out": "{i:x|basename}.{i:y|basename}.j"}}},
		Edges: []Edge{{From: "sa.out", To: "pa.in"}, {From: "sb.out", To: "pb.in"}, {From: "pa.out", To: "join.x"}, {From: "pb.out", To: "join.y"}}}
	pre := map[string]string{}
	for _, p := range []string{"a0.txt", "a1.txt", "b0.txt", "b1.txt", "b2.txt"} {
		pre[p] = p + "\n"
	}
	rr := RunWorkflow(d, RunOpts{Pre: pre, Timeout: 15e9})
	defer os.RemoveAll(rr.Dir)
	ctx.Res.Eval("failing surplus task of a join", true, "surplus-fails")
	ctx.Res.Count("join-surplus-failure")
	if rr.Exit == 0 || rr.Returned {
		ctx.Res.Violate(Violation{What: fmt.Sprintf("the task producing the surplus item of a join failed (exit 3) but the workflow ended with exit %d, returned=%v", rr.Exit, rr.Returned), Class: "c09.silent", Witness: "surplus-fails"})
	}
}

// a parameter stream nobody consumes ends in the sink beside the file stream: the sink still waits for the file
// stream, so a task failing late still stops the workflow
func lateFailureBesideParams(ctx *Ctx) {
	d := &Desc{Name: "c09params", Max: 2, Nodes: []Node{{Name: "src", Kind: "filesource", Paths: []string{"z.txt"}},
		{Name: "ps", Kind: "paramsource", Values: []string{"v1", "v2"}},
		{Name: "slowfail", Kind: "proc", Cmd: "( sleep 0.5 ; cat {i:in} > {o:out} ; exit 3 )", Outs: map[string]string{"out": "{i:in}.sf"}}},
		Edges: []Edge{{From: "src.out", To: "slowfail.in"}}}
	rr := RunWorkflow(d, RunOpts{Pre: map[string]string{"z.txt": "z\n"}, Timeout: 15e9})
	defer os.RemoveAll(rr.Dir)
	ctx.Res.Eval("late failure beside an unconsumed parameter stream", true, "late-failure-params")
	ctx.Res.Count("failure+dangling-param-port")
	if rr.Exit == 0 || rr.Returned {
		ctx.Res.Violate(Violation{What: fmt.Sprintf("a task failed (exit 3) after an unconsumed parameter stream had ended; the workflow ended with exit %d, returned=%v", rr.Exit, rr.Returned), Class: "c09.silent", Witness: "late-failure-params"})
	}
}

func init() { checks["C09"] = checkC09 }
