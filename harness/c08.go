package main

import (
	"fmt"
	"os"
	"strings"
)

// C08: order of emission. Real workflows whose later tasks finish long before earlier ones,
// recorder components downstream, fan-in of two upstream processes into one port; hook-trace
// conformance with the main-loop model (accept order = send order; only the head is dequeued).

type c08Case struct {
	N       int   `json:"n"`        // items
	Sleeps  []int `json:"sleeps"`   // per item, ms
	Max     int   `json:"max"`
	Buf     int   `json:"bufsize"`
	Levels  int   `json:"levels"`
	FanIn   bool  `json:"fan_in"`
	PreOut  []int `json:"pre_out,omitempty"` // items whose P0 output exists before the run (their tasks are skipped)
}

func (c c08Case) desc() (*Desc, map[string]string) {
	d := &Desc{Name: "c08", Max: c.Max}
	pre := map[string]string{}
	paths := []string{}
	for i := 0; i < c.N; i++ {
		p := fmt.Sprintf("i%02d.txt", i)
		paths = append(paths, p)
		pre[p] = p + "\n"
	}
	for _, i := range c.PreOut {
		pre[fmt.Sprintf("i%02d.txt.P0", i)] = fmt.Sprintf("i%02d.txt\n", i)
	}
	d.Nodes = append(d.Nodes, Node{Name: "src", Kind: "filesource", Paths: paths})
	// the command sleeps according to its input: item i sleeps Sleeps[i] ms
	var cs strings.Builder
	cs.WriteString("case {i:in|basename} in ")
	for i := 0; i < c.N; i++ {
		cs.WriteString(fmt.Sprintf("i%02d*) sleep 0.%03d;; ", i, c.Sleeps[i]))
	}
	cs.WriteString("esac")
	prev := "src.out"
	for l := 0; l < c.Levels; l++ {
		name := fmt.Sprintf("P%d", l)
		d.Nodes = append(d.Nodes, Node{Name: name, Kind: "proc", Cmd: "( " + cs.String() + " ; cat {i:in} > {o:out} )", Outs: map[string]string{"out": "{i:in}." + name}})
		d.Edges = append(d.Edges, Edge{From: prev, To: name + ".in"})
		rec := "r" + name
		d.Nodes = append(d.Nodes, Node{Name: rec, Kind: "recorder"})
		d.Edges = append(d.Edges, Edge{From: name + ".out", To: rec + ".in"})
		prev = rec + ".out"
	}
	if c.FanIn {
		// a second branch from the source into the same final recorder port
		d.Nodes = append(d.Nodes, Node{Name: "Q", Kind: "proc", Cmd: "( " + cs.String() + " ; cat {i:in} > {o:out} )", Outs: map[string]string{"out": "{i:in}.Q"}},
			Node{Name: "rfan", Kind: "recorder"})
		d.Edges = append(d.Edges, Edge{From: "src.out", To: "Q.in"}, Edge{From: "Q.out", To: "rfan.in"}, Edge{From: prev, To: "rfan.in"})
	}
	return d, pre
}

func runC08(ctx *Ctx, c c08Case) {
	d, pre := c.desc()
	rr := RunWorkflow(d, RunOpts{Pre: pre, Env: []string{fmt.Sprintf("SCIPIPE_BUFSIZE=%d", c.Buf)}, Timeout: 30e9})
	defer os.RemoveAll(rr.Dir)
	inverted := false
	for i := 1; i < c.N; i++ {
		if c.Sleeps[i] < c.Sleeps[i-1] {
			inverted = true
		}
	}
	ctx.Res.Eval(fmt.Sprintf("%v", c), inverted && c.Max > 1, c)
	ctx.Res.Count(fmt.Sprintf("levels=%d", c.Levels))
	if rr.Exit != 0 {
		ctx.Res.Disagree(Violation{What: fmt.Sprintf("workflow exited %d: %s", rr.Exit, tail(rr.Stderr)), Witness: c})
		return
	}
	// real finishing order really differed from the arrival order? (command end lines)
	for l := 0; l < c.Levels; l++ {
		name := fmt.Sprintf("P%d", l)
		got := readRec(rr.Dir, "r"+name)
		if len(got) != c.N {
			ctx.Res.Violate(Violation{What: fmt.Sprintf("process %s emitted %d items for %d inputs", name, len(got), c.N), Class: "c08.count", Witness: c})
			continue
		}
		for i, g := range got {
			want := fmt.Sprintf("i%02d.txt", i)
			for k := 0; k <= l; k++ {
				want += fmt.Sprintf(".P%d", k)
			}
			if g != want {
				ctx.Res.Violate(Violation{What: fmt.Sprintf("out-port of %s emitted %v: item %d is %s, arrival order requires %s", name, got, i, g, want), Class: "c08.order", Witness: c})
				break
			}
		}
	}
	if c.FanIn {
		// items from the same upstream keep their relative order
		got := readRec(rr.Dir, "rfan")
		lastQ, lastP := -1, -1
		for _, g := range got {
			var idx int
			fmt.Sscanf(g, "i%02d", &idx)
			if strings.HasSuffix(g, ".Q") {
				if idx < lastQ {
					ctx.Res.Violate(Violation{What: fmt.Sprintf("fan-in port received items of upstream Q out of order: %v", got), Class: "c08.fanin-order", Witness: c})
				}
				lastQ = idx
			} else {
				if idx < lastP {
					ctx.Res.Violate(Violation{What: fmt.Sprintf("fan-in port received items of the chain out of order: %v", got), Class: "c08.fanin-order", Witness: c})
				}
				lastP = idx
			}
		}
		if len(got) != 2*c.N {
			ctx.Res.Violate(Violation{What: fmt.Sprintf("fan-in port received %d items, expected %d", len(got), 2*c.N), Class: "c08.count", Witness: c})
		}
	}
	// trace conformance with the main-loop model: per process goroutine, the sequence of
	// proc.accept task ids equals the sequence of proc.headdone task ids (prefix), and each
	// proc.sent follows the headdone of the same task
	type pstate struct{ accepted, done []string }
	per := map[string]*pstate{}
	for _, e := range rr.Trace {
		if e.Point == "proc.accept" || e.Point == "proc.headdone" {
			p := per[e.Gid]
			if p == nil {
				p = &pstate{}
				per[e.Gid] = p
			}
			if e.Point == "proc.accept" {
				p.accepted = append(p.accepted, e.Args[1])
			} else {
				p.done = append(p.done, e.Args[1])
			}
		}
	}
	for g, p := range per {
		if len(p.done) > len(p.accepted) || strings.Join(p.accepted[:len(p.done)], ",") != strings.Join(p.done, ",") {
			ctx.Res.Disagree(Violation{What: fmt.Sprintf("goroutine %s dequeued tasks %v, accepted %v: not a prefix in order (the model's invariant)", g, p.done, p.accepted), Class: "c08.model", Witness: c})
		}
	}
}

// a streaming out-port: the FIFO items leave the producer in the order in which its inputs arrived, whatever the
// timing of the producing commands (checked behind the consumer, whose own out-port keeps its arrival order)
func streamOrder(ctx *Ctx, n int, sleeps []int, depth int) {
	paths := []string{}
	pre := map[string]string{}
	var cs strings.Builder
	cs.WriteString("case {i:in|basename} in ")
	for i := 0; i < n; i++ {
		p := fmt.Sprintf("i%02d.txt", i)
		if depth > 0 && i%2 == 0 { // the task of this input has a deep directory tree to create before it runs
			p = strings.Repeat("d/", depth) + p
		}
		paths = append(paths, p)
		pre[p] = p + "\n"
		cs.WriteString(fmt.Sprintf("i%02d*) sleep 0.%03d;; ", i, sleeps[i]))
	}
	cs.WriteString("esac")
	d := &Desc{Name: "c08stream", Max: 2 * n, Nodes: []Node{{Name: "src", Kind: "filesource", Paths: paths},
		{Name: "prod", Kind: "proc", Cmd: "( " + cs.String() + " ; cat {i:in} > {os:out} )", Outs: map[string]string{"out": "{i:in}.stream"}},
		{Name: "cons", Kind: "proc", Cmd: "( cat {i:in} > {o:out} )", Outs: map[string]string{"out": "{i:in}.copy"}},
		{Name: "rec", Kind: "recorder"}},
		Edges: []Edge{{From: "src.out", To: "prod.in"}, {From: "prod.out", To: "cons.in"}, {From: "cons.out", To: "rec.in"}}}
	rr := RunWorkflow(d, RunOpts{Pre: pre, Timeout: 30e9})
	defer os.RemoveAll(rr.Dir)
	ctx.Res.Eval(fmt.Sprintf("stream-order n=%d %v depth=%d", n, sleeps, depth), true, sleeps)
	ctx.Res.Count("streaming-out-port")
	if rr.Exit != 0 {
		ctx.Res.Disagree(Violation{What: fmt.Sprintf("streaming order workflow exited %d: %s", rr.Exit, tail(rr.Stderr)), Witness: sleeps})
		return
	}
	got := readRec(rr.Dir, "rec")
	for i, g := range got {
		g = g[strings.LastIndex(g, "/")+1:]
		if want := fmt.Sprintf("i%02d.txt.stream.copy", i); g != want {
			ctx.Res.Violate(Violation{What: fmt.Sprintf("items of the streaming out-port reached the consumer in the order %v: item %d is %s, arrival order requires %s", got, i, g, want), Class: "c08.order", Witness: sleeps})
			break
		}
	}
	if len(got) != n {
		ctx.Res.Violate(Violation{What: fmt.Sprintf("%d of %d streamed items arrived", len(got), n), Class: "c08.count", Witness: sleeps})
	}
}

// a joining process that receives several carriers from one upstream: its outputs leave in the order of the
// carriers, also when an earlier carrier's sub-stream closes later than a later one's
func joinOrder(ctx *Ctx, delays []string) {
	pre := map[string]string{}
	paths := []string{}
	for i := range delays {
		if i > 0 {
			paths = append(paths, "|")
		}
		for j := 0; j < 2; j++ {
			p := fmt.Sprintf("m%d_%d.txt", i, j)
			pre[p] = p + "\n"
			paths = append(paths, p)
		}
	}
	d := &Desc{Name: "c08join", Max: 4, Nodes: []Node{{Name: "car", Kind: "carriers", Paths: paths, Values: delays},
		{Name: "join", Kind: "proc", Cmd: "( cat {i:in|join: } > {o:out} )", Outs: map[string]string{"out": "{i:in}.joined"}},
		{Name: "rec", Kind: "recorder"}},
		Edges: []Edge{{From: "car.substream", To: "join.in"}, {From: "join.out", To: "rec.in"}}}
	rr := RunWorkflow(d, RunOpts{Pre: pre, Timeout: 30e9})
	defer os.RemoveAll(rr.Dir)
	ctx.Res.Eval(fmt.Sprintf("join-order delays=%v", delays), true, delays)
	ctx.Res.Count("joined-in-port")
	if rr.Exit != 0 {
		ctx.Res.Disagree(Violation{What: fmt.Sprintf("join order workflow exited %d: %s", rr.Exit, tail(rr.Stderr)), Witness: delays})
		return
	}
	got := readRec(rr.Dir, "rec")
	want := []string{}
	for i := range delays {
		want = append(want, fmt.Sprintf("c%d.carrier.joined", i))
	}
	if strings.Join(got, ",") != strings.Join(want, ",") {
		ctx.Res.Violate(Violation{What: fmt.Sprintf("the joining process emitted %v, its carriers arrived in the order %v (sub-streams closing after %v ms)", got, want, delays), Class: "c08.order", Witness: delays})
	}
}

// inputs arriving one by one while all slots are busy, then free again: the outputs still leave in arrival order
// (gaps in ms before each input; durations in ms of each input's task; `max` slots)
func pacedOrder(ctx *Ctx, max int, gaps, durs []int) {
	paths, vals := []string{}, []string{}
	pre := map[string]string{}
	var cs strings.Builder
	cs.WriteString("case {i:in|basename} in ")
	for i := range gaps {
		p := fmt.Sprintf("q%02d.txt", i)
		paths = append(paths, p)
		vals = append(vals, fmt.Sprint(gaps[i]))
		pre[p] = p + "\n"
		cs.WriteString(fmt.Sprintf("q%02d*) sleep %d.%03d;; ", i, durs[i]/1000, durs[i]%1000))
	}
	cs.WriteString("esac")
	d := &Desc{Name: "c08paced", Max: max, Nodes: []Node{{Name: "src", Kind: "pacedsource", Paths: paths, Values: vals},
		{Name: "work", Kind: "proc", Cmd: "( " + cs.String() + " ; cat {i:in} > {o:out} )", Outs: map[string]string{"out": "{i:in}.w"}},
		{Name: "rec", Kind: "recorder"}},
		Edges: []Edge{{From: "src.out", To: "work.in"}, {From: "work.out", To: "rec.in"}}}
	rr := RunWorkflow(d, RunOpts{Pre: pre, Timeout: 30e9})
	defer os.RemoveAll(rr.Dir)
	w := map[string]interface{}{"max": max, "gaps": gaps, "durations": durs}
	ctx.Res.Eval(fmt.Sprintf("paced-order max=%d gaps=%v durs=%v", max, gaps, durs), true, w)
	ctx.Res.Count("paced-arrivals,busy-slots")
	if rr.Exit != 0 {
		ctx.Res.Disagree(Violation{What: fmt.Sprintf("paced order workflow exited %d: %s", rr.Exit, tail(rr.Stderr)), Witness: w})
		return
	}
	got := readRec(rr.Dir, "rec")
	want := []string{}
	for _, p := range paths {
		want = append(want, p+".w")
	}
	if strings.Join(got, ",") != strings.Join(want, ",") {
		ctx.Res.Violate(Violation{What: fmt.Sprintf("outputs left in the order %v, the inputs arrived in the order %v (slots %d, gaps %v ms, task durations %v ms)", got, want, max, gaps, durs), Class: "c08.order", Witness: w})
	}
}

func checkC08(ctx *Ctx) {
	ctx.Res.Rule = "chains of 1-3 processes over 2-8 items whose per-item command durations are random (later items usually finish long before earlier ones; in a third of the cases the outputs of some items exist before the run, so that their tasks are skipped), maxConcurrentTasks 1-8, SCIPIPE_BUFSIZE 1-3 or 128, optional fan-in of a second upstream into the last port; recorder components after every process; non-trivial = some later item is faster than an earlier one and more than one slot; distinct by case. Checks: recorded order equals arrival order on every out-port, per-sender order through fan-in, counts, and per process goroutine the hook trace's dequeue sequence is a prefix of its accept sequence; also: arrival order behind a streaming out-port (tasks with different start-up cost), a joining process with several carriers whose sub-streams close in reverse order, arrivals paced against busy slots."
	r := NewRng(ctx.Seed)
	n := 12
	if ctx.Thorough() {
		n = 120
	}
	cases := []c08Case{{N: 4, Sleeps: []int{120, 60, 20, 1}, Max: 4, Buf: 128, Levels: 2}, {N: 5, Sleeps: []int{80, 5, 60, 1, 30}, Max: 8, Buf: 1, Levels: 1, FanIn: true},
		// partial re-run: the outputs of some later items exist already, earlier items still have to run
		{N: 6, Sleeps: []int{90, 60, 40, 1, 20, 1}, Max: 6, Buf: 128, Levels: 2, PreOut: []int{3, 5}}, {N: 4, Sleeps: []int{70, 1, 50, 1}, Max: 2, Buf: 1, Levels: 1, PreOut: []int{1, 3}}}
	for i := 0; i < n; i++ {
		c := c08Case{N: 2 + r.Intn(7), Max: 1 + r.Intn(8), Buf: []int{1, 2, 3, 128}[r.Intn(4)], Levels: 1 + r.Intn(3), FanIn: r.Intn(3) == 0}
		for k := 0; k < c.N; k++ {
			c.Sleeps = append(c.Sleeps, 1+r.Intn(90))
			if i%3 == 2 && r.Intn(3) == 0 {
				c.PreOut = append(c.PreOut, k)
			}
		}
		cases = append(cases, c)
	}
	parallel(len(cases), 6, func(i int) {
		if ctx.TimeLeft() {
			runC08(ctx, cases[i])
		}
	})
	pacedOrder(ctx, 2, []int{0, 250, 250, 300}, []int{1500, 400, 50, 50})
	joinOrder(ctx, []string{"400", "200", "0"})
	joinOrder(ctx, []string{"0", "300"})
	streamOrder(ctx, 4, []int{90, 60, 30, 1}, 0)
	streamOrder(ctx, 3, []int{1, 80, 1}, 0)
	streamOrder(ctx, 6, []int{1, 1, 1, 1, 1, 1}, 300)
	streamOrder(ctx, 6, []int{40, 1, 40, 1, 40, 1}, 200)
	ctx.Res.Extra["proc_sem"] = ctx.Drv.Ask("proc.sem")
	resp := ctx.Drv.Ask("proc.search", "3", "10")
	ctx.Res.Extra["model_search"] = resp
	if strings.HasPrefix(resp, "witness") {
		ctx.Res.Note("the main-loop model instantiated with the extracted record reorders outputs: " + resp)
		// replay on the real code: three items, the last one fastest
		runC08(ctx, c08Case{N: 3, Sleeps: []int{150, 80, 1}, Max: 3, Buf: 128, Levels: 1})
	}
}

func init() { checks["C08"] = checkC08 }
