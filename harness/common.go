package main

import (
	"sync/atomic"
	"bufio"
	"bytes"
	"context"
	"crypto/sha256"
	"encoding/hex"
	"encoding/json"
	"fmt"
	"io"
	"io/ioutil"
	"os"
	"os/exec"
	"path/filepath"
	"sort"
	"strconv"
	"strings"
	"sync"
	"syscall"
	"time"
)

// ---------- PRNG (splitmix64): every random choice derives from VERIF_SEED ----------

type Rng struct{ s uint64 }

func NewRng(seed uint64) *Rng {
	// scramble the seed so that consecutive seeds give unrelated streams
	z := (seed + 0x632BE59BD9B4E019) * 0xD1342543DE82EF95
	z = (z ^ (z >> 32)) * 0xDA942042E4DD58B5
	z = (z ^ (z >> 29)) * 0xBF58476D1CE4E5B9
	return &Rng{s: z ^ (z >> 31)}
}
func (r *Rng) Next() uint64 {
	r.s += 0x9E3779B97F4A7C15
	z := r.s
	z = (z ^ (z >> 30)) * 0xBF58476D1CE4E5B9
	z = (z ^ (z >> 27)) * 0x94D049BB133111EB
	return z ^ (z >> 31)
}
func (r *Rng) Intn(n int) int {
	if n <= 0 {
		return 0
	}
	return int(r.Next() % uint64(n))
}
func (r *Rng) Pick(ss []string) string { return ss[r.Intn(len(ss))] }
func (r *Rng) Bool() bool               { return r.Next()&1 == 1 }

// ---------- results ----------

type Violation struct {
	What    string      `json:"what"`
	Class   string      `json:"class,omitempty"` // class predicate name for known-findings matching
	Witness interface{} `json:"witness"`
}

type Result struct {
	Property      string                 `json:"property"`
	Evaluations   int                    `json:"evaluations"`
	Distinct      int                    `json:"distinct_nontrivial"`
	Rule          string                 `json:"rule"`
	Samples       []interface{}          `json:"samples"`
	Dist          map[string]int         `json:"distribution"`
	Disagreements []Violation            `json:"disagreements"` // model vs implementation
	Violations    []Violation            `json:"violations"`    // property fails on the implementation
	Notes         []string               `json:"notes,omitempty"`
	Extra         map[string]interface{} `json:"extra,omitempty"`
	mu            sync.Mutex
	seen          map[string]bool
}

func NewResult(prop string) *Result {
	return &Result{Property: prop, Dist: map[string]int{}, seen: map[string]bool{}, Extra: map[string]interface{}{},
		Samples: []interface{}{}, Disagreements: []Violation{}, Violations: []Violation{}}
}
func (r *Result) Count(key string) { r.mu.Lock(); r.Dist[key]++; r.mu.Unlock() }
func (r *Result) Eval(key string, nontrivial bool, sample interface{}) {
	r.mu.Lock()
	defer r.mu.Unlock()
	r.Evaluations++
	if nontrivial && !r.seen[key] {
		r.seen[key] = true
		r.Distinct++
	}
	if len(r.Samples) < 5 && sample != nil {
		r.Samples = append(r.Samples, sample)
	}
}
// At most 5 witnesses are kept per class (and 60 in all): a class that fires often — a listed finding, say — must
// not use up the room and hide a violation of another class behind it.
func classCount(vs []Violation, class string) int {
	n := 0
	for _, v := range vs {
		if v.Class == class {
			n++
		}
	}
	return n
}
func (r *Result) Disagree(v Violation) {
	r.mu.Lock()
	if classCount(r.Disagreements, v.Class) < 5 && len(r.Disagreements) < 60 {
		r.Disagreements = append(r.Disagreements, v)
	}
	r.mu.Unlock()
}
func (r *Result) Violate(v Violation) {
	r.mu.Lock()
	if classCount(r.Violations, v.Class) < 5 && len(r.Violations) < 60 {
		r.Violations = append(r.Violations, v)
	}
	r.mu.Unlock()
}
func (r *Result) Note(s string) { r.mu.Lock(); r.Notes = append(r.Notes, s); r.mu.Unlock() }

// ---------- Lean driver client ----------

type Driver struct {
	cmd *exec.Cmd
	in  io.WriteCloser
	out *bufio.Reader
	mu  sync.Mutex
}

func StartDriver(path string) (*Driver, error) {
	cmd := exec.Command(path)
	in, _ := cmd.StdinPipe()
	out, _ := cmd.StdoutPipe()
	cmd.Stderr = os.Stderr
	if err := cmd.Start(); err != nil {
		return nil, err
	}
	return &Driver{cmd: cmd, in: in, out: bufio.NewReaderSize(out, 1<<20)}, nil
}
func (d *Driver) Ask(fields ...string) string {
	d.mu.Lock()
	defer d.mu.Unlock()
	for _, f := range fields {
		if strings.ContainsAny(f, "\t\n") {
			return "bad-field"
		}
	}
	io.WriteString(d.in, strings.Join(fields, "\t")+"\n")
	line, err := d.out.ReadString('\n')
	if err != nil {
		return "driver-error: " + err.Error()
	}
	return strings.TrimRight(line, "\n")
}
func (d *Driver) Close() { d.in.Close(); d.cmd.Wait() }

// ---------- running a workflow ----------

type RunOpts struct {
	Env     []string
	Timeout time.Duration
	Pre     map[string]string // files to create before the run (path -> content)
	Dir     string            // reuse this directory (histories); "" = fresh
	Keep    bool
	NoRetry bool // a time-out is the expected outcome: do not confirm it by running again
}

// timeouts of runs in a fresh directory that did not repeat when the same workflow was run again (a stalled machine,
// not the workflow): reported in every evidence file
var timeoutsNotRepeated int64

type RunRes struct {
	Dir      string
	Exit     int // -1 killed by signal, -2 timeout
	Signal   string
	Stdout   string
	Stderr   string
	Returned bool     // WFRUN-RETURNED printed
	Snap     []string // listing at the instant Run returned
	Trace    []TraceEv
	CmdTrace []string
	Wall     time.Duration
}

type TraceEv struct {
	Seq   int
	Point string
	Gid   string
	Args  []string
}

var scratchRoot string
var selfExe string

var scratchOnce sync.Once

func scratch() string {
	scratchOnce.Do(func() {
		base := os.Getenv("VERIF_SCRATCH")
		if base == "" {
			base = "/var/tmp"
		}
		d, err := ioutil.TempDir(base, "verif-h-")
		if err != nil {
			panic(err)
		}
		scratchRoot = d
	})
	return scratchRoot
}

var dirCounter int
var dirMu sync.Mutex

func newDir() string {
	dirMu.Lock()
	dirCounter++
	n := dirCounter
	dirMu.Unlock()
	d := filepath.Join(scratch(), fmt.Sprintf("w%06d", n))
	os.MkdirAll(d, 0755)
	return d
}

// RunWorkflow runs the workflow once; a time-out in a fresh directory is confirmed by running the same workflow
// again (up to twice): only if it times out every time is the time-out returned. A hang that depends on timing may
// thus escape one run of a check; a stalled machine no longer looks like a deadlock.
func RunWorkflow(d *Desc, o RunOpts) *RunRes {
	res := runWorkflowOnce(d, o)
	if res.Exit != -2 || o.Dir != "" || o.NoRetry {
		return res
	}
	for k := 0; k < 2; k++ {
		again := runWorkflowOnce(d, o)
		if again.Exit != -2 {
			atomic.AddInt64(&timeoutsNotRepeated, 1)
			os.RemoveAll(res.Dir)
			return again
		}
		os.RemoveAll(again.Dir)
	}
	return res
}

func runWorkflowOnce(d *Desc, o RunOpts) *RunRes {
	dir := o.Dir
	if dir == "" {
		dir = newDir()
	}
	for p, c := range o.Pre {
		full := filepath.Join(dir, p)
		os.MkdirAll(filepath.Dir(full), 0755)
		ioutil.WriteFile(full, []byte(c), 0644)
	}
	descPath := filepath.Join(dir, "_desc.json")
	b, _ := json.Marshal(d)
	ioutil.WriteFile(descPath, b, 0644)
	tracePath := filepath.Join(dir, "_trace.log")
	cmdTrace := filepath.Join(dir, "_cmdtrace.log")
	os.Remove(tracePath)
	timeout := o.Timeout
	if timeout == 0 {
		timeout = 20 * time.Second
	}
	ctx, cancel := context.WithTimeout(context.Background(), timeout)
	defer cancel()
	cmd := exec.CommandContext(ctx, selfExe, "wfrun", "_desc.json")
	cmd.Dir = dir
	cmd.Env = append(os.Environ(), "VERIF_TRACE="+tracePath, "VERIF_CMDTRACE="+cmdTrace)
	cmd.Env = append(cmd.Env, o.Env...)
	cmd.SysProcAttr = &syscall.SysProcAttr{Setpgid: true}
	var so, se bytes.Buffer
	cmd.Stdout = &so
	cmd.Stderr = &se
	t0 := time.Now()
	err := cmd.Start()
	res := &RunRes{Dir: dir}
	if err != nil {
		res.Exit = -3
		res.Stderr = err.Error()
		return res
	}
	done := make(chan error, 1)
	go func() { done <- cmd.Wait() }()
	select {
	case err = <-done:
		if ctx.Err() != nil {
			res.Exit = -2 // exec.CommandContext killed it at the deadline and Wait returned before this select looked
		}
	case <-ctx.Done():
		syscall.Kill(-cmd.Process.Pid, syscall.SIGKILL)
		err = <-done
		res.Exit = -2
	}
	// make sure no child of the process group survives
	syscall.Kill(-cmd.Process.Pid, syscall.SIGKILL)
	res.Wall = time.Since(t0)
	res.Stdout = so.String()
	res.Stderr = se.String()
	if res.Exit != -2 {
		if err == nil {
			res.Exit = 0
		} else if ee, ok := err.(*exec.ExitError); ok {
			ws := ee.Sys().(syscall.WaitStatus)
			if ws.Signaled() {
				res.Exit = -1
				res.Signal = ws.Signal().String()
			} else {
				res.Exit = ws.ExitStatus()
			}
		} else {
			res.Exit = -3
		}
	}
	for _, line := range strings.Split(res.Stdout, "\n") {
		if strings.HasPrefix(line, "WFRUN-RETURNED") {
			res.Returned = true
			res.Snap = strings.Fields(strings.TrimPrefix(line, "WFRUN-RETURNED"))
		}
	}
	res.Trace = readTrace(tracePath)
	if b, err := ioutil.ReadFile(cmdTrace); err == nil {
		for _, l := range strings.Split(string(b), "\n") {
			if l != "" {
				res.CmdTrace = append(res.CmdTrace, l)
			}
		}
	}
	return res
}

func readTrace(path string) []TraceEv {
	b, err := ioutil.ReadFile(path)
	if err != nil {
		return nil
	}
	out := []TraceEv{}
	for _, l := range strings.Split(string(b), "\n") {
		if l == "" {
			continue
		}
		f := strings.Split(l, "\t")
		if len(f) < 3 {
			continue
		}
		seq, _ := strconv.Atoi(f[0])
		out = append(out, TraceEv{Seq: seq, Point: f[1], Gid: f[2], Args: f[3:]})
	}
	return out
}

// files in a directory (relative paths), excluding the harness's own bookkeeping files
func listFiles(dir string) map[string]string {
	out := map[string]string{}
	filepath.Walk(dir, func(p string, fi os.FileInfo, err error) error {
		if err != nil || p == dir {
			return nil
		}
		rel, _ := filepath.Rel(dir, p)
		base := filepath.Base(rel)
		if strings.HasPrefix(base, "_desc.json") || strings.HasPrefix(base, "_trace.log") || strings.HasPrefix(base, "_cmdtrace.log") {
			return nil
		}
		if fi.IsDir() {
			out[rel] = "dir"
		} else if fi.Mode()&os.ModeNamedPipe != 0 {
			out[rel] = "fifo"
		} else {
			b, _ := ioutil.ReadFile(p)
			h := sha256.Sum256(b)
			out[rel] = "file:" + hex.EncodeToString(h[:8])
		}
		return nil
	})
	return out
}

func sortedKeys(m map[string]string) []string {
	ks := []string{}
	for k := range m {
		ks = append(ks, k)
	}
	sort.Strings(ks)
	return ks
}

func readFile(dir, rel string) (string, bool) {
	b, err := ioutil.ReadFile(filepath.Join(dir, rel))
	if err != nil {
		return "", false
	}
	return string(b), true
}

func cleanupScratch() {
	if scratchRoot != "" {
		os.RemoveAll(scratchRoot)
	}
}

// parallel map over n items with w workers
func parallel(n, w int, f func(i int)) {
	var wg sync.WaitGroup
	ch := make(chan int)
	for k := 0; k < w; k++ {
		wg.Add(1)
		go func() {
			defer wg.Done()
			for i := range ch {
				f(i)
			}
		}()
	}
	for i := 0; i < n; i++ {
		ch <- i
	}
	close(ch)
	wg.Wait()
}

// harnessDir is where the harness module lives (vcheck exports VERIF_HARNESS_DIR; a scratch copy of /verif
// used for testing seeded changes has its own)
func harnessDir() string {
	if d := os.Getenv("VERIF_HARNESS_DIR"); d != "" {
		return d
	}
	return "/verif/harness"
}
