package main

import (
	"fmt"
	"io/ioutil"
	"os"
	"os/exec"
	"path/filepath"
	"regexp"
	"sort"
	"strings"
)

// C12: the workflow interpreter built with -race (hooks switched off so that their mutex does not
// order events) runs fan-out / fan-in / tagging / parameter-feeder / multi-core workflows; every
// race report is parsed; the access discipline of the Lean side names the sites that are known.

var reRaceFn = regexp.MustCompile(`(?m)^  (github\.com/scipipe/scipipe\S*)\(\)$`)

type raceReport struct {
	Funcs       []string
	BothTaggers bool // both conflicting accesses happen inside a MapToTags.Run (two taggers in a row)
}

func parseRaces(log string) []raceReport {
	out := []raceReport{}
	for _, blk := range strings.Split(log, "WARNING: DATA RACE")[1:] {
		end := strings.Index(blk, "==================")
		if end > 0 {
			blk = blk[:end]
		}
		fs := []string{}
		seen := map[string]bool{}
		for _, m := range reRaceFn.FindAllStringSubmatch(blk, -1) {
			f := strings.TrimPrefix(m[1], "github.com/scipipe/scipipe")
			f = strings.TrimPrefix(f, "/")
			f = strings.TrimPrefix(f, ".")
			if !seen[f] {
				seen[f] = true
				fs = append(fs, f)
			}
		}
		secs := strings.Split(strings.TrimLeft(blk, "\n"), "\n\n")
		both := len(secs) >= 2 && strings.Contains(secs[0], "MapToTags).Run") && strings.Contains(secs[1], "MapToTags).Run")
		out = append(out, raceReport{fs, both})
	}
	return out
}

func classifyRace(r raceReport) string {
	all := strings.Join(r.Funcs, " ")
	if r.BothTaggers {
		return "c12.tagger-chain" // a tagger still touches an IP it has already handed on
	}
	if strings.Contains(all, "MapToTags") && (strings.Contains(all, "AddTag") || strings.Contains(all, "WriteAuditLogToFile")) {
		return "c12.maptotags" // F12
	}
	return "c12.race"
}

func checkC12(ctx *Ctx) {
	ctx.Res.Rule = "the workflow interpreter built with `go build -race` (verification hooks disabled at run time) runs: fan-out of one out-port to 2-3 consumers, fan-in, diamonds, multi-core tasks, FromStr / ParamSource feeders, RunTo with feeders, MapToTags followed by fan-out, sub-stream joins, random DAGs; every `WARNING: DATA RACE` block is parsed (scipipe functions on both stacks) and classified; non-trivial = workflow has a fan-out, fan-in or a component; distinct by workflow. The Lean side checks the lock / ownership / phase discipline of every syntactic access to the shared fields on the regenerated access table; also: two taggers in a row, a task with a streaming and an ordinary out-port (repeated), RunTo while FromStr feeders are just finishing (repeated)."
	root := newDir()
	defer os.RemoveAll(root)
	bin := filepath.Join(root, "vharness-race")
	b := exec.Command("go", "build", "-race", "-tags", "verif", "-o", bin, ".")
	b.Dir = harnessDir()
	b.Env = append(os.Environ(), "GOFLAGS=-mod=mod", "GOPROXY=off", "GOSUMDB=off", "GOTOOLCHAIN=local")
	if out, err := b.CombinedOutput(); err != nil {
		ctx.Res.Disagree(Violation{What: "cannot build the race-detector binary: " + tail(string(out)), Witness: nil})
		return
	}
	ctx.Res.Extra["racy_sites_by_discipline"] = ctx.Drv.Ask("racy.sites")
	ctx.Res.Extra["discipline_ok"] = ctx.Drv.Ask("discipline")
	type wf struct {
		name string
		d    *Desc
		pre  map[string]string
		env  []string
	}
	wfs := []wf{}
	r := NewRng(ctx.Seed)
	// fan-out to three consumers + fan-in
	fan := Dag{Max: 4, Nodes: []DNode{{Name: "s0", Kind: "src", Items: 4}, {Name: "P0", Kind: "proc", Ins: []string{"s0"}},
		{Name: "P1", Kind: "proc", Ins: []string{"P0"}}, {Name: "P2", Kind: "proc", Ins: []string{"P0"}}, {Name: "P3", Kind: "proc", Ins: []string{"P0", "P0"}},
		{Name: "P4", Kind: "proc", Ins: []string{"P1"}, PIn: "@", PVals: []string{"a", "b", "c", "d"}}}}
	d, pre := fan.desc()
	wfs = append(wfs, wf{"fanout3", d, pre, nil})
	// MapToTags followed by a fan-out of the tagged IPs (F12's shape)
	tagPaths := []string{}
	tagPre := map[string]string{}
	for i := 0; i < 40; i++ {
		tagPaths = append(tagPaths, fmt.Sprintf("t%02d.txt", i))
		tagPre[fmt.Sprintf("t%02d.txt", i)] = "x\n"
	}
	tagd := &Desc{Name: "tag", Max: 8, Nodes: []Node{{Name: "src", Kind: "filesource", Paths: tagPaths},
		{Name: "A", Kind: "proc", Cmd: "cat {i:in} > {o:out}", Outs: map[string]string{"out": "{i:in}.A"}},
		{Name: "tagger", Kind: "maptotags", Arg: "origin"},
		{Name: "B", Kind: "proc", Cmd: "cat {i:in} > {o:out}", Outs: map[string]string{"out": "{i:in}.B"}},
		{Name: "C", Kind: "proc", Cmd: "cat {i:in} > {o:out}", Outs: map[string]string{"out": "{i:in}.C"}}},
		Edges: []Edge{{From: "src.out", To: "A.in"}, {From: "A.out", To: "tagger.in"}, {From: "A.out", To: "B.in"}, {From: "tagger.out", To: "C.in"}}}
	wfs = append(wfs, wf{"maptotags-fanout", tagd, tagPre, nil})
	// two taggers in a row: the first must be done with an IP before it sends it on
	chaind := &Desc{Name: "tagchain", Max: 8, Nodes: []Node{{Name: "src", Kind: "filesource", Paths: tagPaths},
		{Name: "A", Kind: "proc", Cmd: "cat {i:in} > {o:out}", Outs: map[string]string{"out": "{i:in}.A"}},
		{Name: "tagger1", Kind: "maptotags", Arg: "origin"}, {Name: "tagger2", Kind: "maptotags", Arg: "second"},
		{Name: "C", Kind: "proc", Cmd: "cat {i:in} > {o:out}", Outs: map[string]string{"out": "{i:in}.C"}}},
		Edges: []Edge{{From: "src.out", To: "A.in"}, {From: "A.out", To: "tagger1.in"}, {From: "tagger1.out", To: "tagger2.in"}, {From: "tagger2.out", To: "C.in"}}}
	wfs = append(wfs, wf{"maptotags-chain", chaind, tagPre, nil})
	// a task with a streaming and an ordinary out-port: the consumer of the stream links the producer's record while
	// the producer is still completing and publishing it (repeated: whether the streaming IP is published first is
	// Go's map order)
	twoPaths := tagPaths[:8]
	twod := &Desc{Name: "streamtwo", Max: 24, Nodes: []Node{{Name: "src", Kind: "filesource", Paths: twoPaths},
		{Name: "prod", Kind: "proc", Cmd: "( cat {i:in} > {os:out} ; echo log > {o:log} )", Outs: map[string]string{"out": "{i:in}.stream", "log": "{i:in}.log"}},
		{Name: "cons", Kind: "proc", Cmd: "( cat {i:in} > {o:out} )", Outs: map[string]string{"out": "{i:in}.copy"}},
		{Name: "cons2", Kind: "proc", Cmd: "( cat {i:in} > {o:out} )", Outs: map[string]string{"out": "{i:in}.copy2"}}},
		Edges: []Edge{{From: "src.out", To: "prod.in"}, {From: "prod.out", To: "cons.in"}, {From: "prod.log", To: "cons2.in"}}}
	for k := 0; k < 3; k++ {
		wfs = append(wfs, wf{fmt.Sprintf("stream-and-ordinary-out-port-%d", k), twod, tagPre, nil})
	}
	// RunTo with FromStr feeders longer than the buffer (the port maps are mutated by the feeders)
	rt := Dag{Max: 2, Nodes: []DNode{{Name: "s0", Kind: "src", Items: 3}, {Name: "P0", Kind: "proc", Ins: []string{"s0"}, PIn: "@", PVals: []string{"a", "b", "c"}},
		{Name: "P1", Kind: "proc", Ins: []string{"P0"}, PIn: "@", PVals: []string{"x", "y", "z"}}}}
	d2, pre2 := rt.desc()
	d2.RunTo, d2.RunToKind = []string{"P1"}, "name"
	wfs = append(wfs, wf{"runto-feeders", d2, pre2, []string{"SCIPIPE_BUFSIZE=1"}})
	// RunTo while many FromStr feeders are just finishing (default buffer: a feeder is done as soon as it is started,
	// i.e. while RunTo walks the port maps)
	fast := Dag{Max: 4, Nodes: []DNode{{Name: "s0", Kind: "src", Items: 2}}}
	prevN := "s0"
	for i := 0; i < 6; i++ {
		nm := fmt.Sprintf("P%d", i)
		fast.Nodes = append(fast.Nodes, DNode{Name: nm, Kind: "proc", Ins: []string{prevN}, PIn: "@", PVals: []string{"a", "b"}})
		prevN = nm
	}
	d3, pre3 := fast.desc()
	d3.RunTo, d3.RunToKind = []string{"P5"}, "name"
	d3.LateFeeders = true
	for k := 0; k < 4; k++ {
		wfs = append(wfs, wf{fmt.Sprintf("runto-fast-feeders-%d", k), d3, pre3, nil})
	}
	// sub-stream join
	wfs = append(wfs, wf{"substream", &Desc{Name: "ss", Max: 3, Nodes: []Node{{Name: "src", Kind: "filesource", Paths: []string{"m0.txt", "m1.txt", "m2.txt"}}, {Name: "sts", Kind: "substream"},
		{Name: "join", Kind: "proc", Cmd: "cat {i:in|join: } > {o:out}", Outs: map[string]string{"out": "joined.out"}}},
		Edges: []Edge{{From: "src.out", To: "sts.in"}, {From: "sts.substream", To: "join.in"}}}, map[string]string{"m0.txt": "0", "m1.txt": "1", "m2.txt": "2"}, nil})
	n := 4
	if ctx.Thorough() {
		n = 40
	}
	for i := 0; i < n; i++ {
		g := genBalancedDag(r, true, 4)
		dd, pp := g.desc()
		wfs = append(wfs, wf{fmt.Sprintf("dag%d", i), dd, pp, []string{fmt.Sprintf("SCIPIPE_BUFSIZE=%d", []int{1, 2, 128}[r.Intn(3)])}})
	}
	saved := selfExe
	selfExe = bin
	defer func() { selfExe = saved }()
	classes := map[string][]string{}
	for _, w := range wfs {
		if !ctx.TimeLeft() {
			break
		}
		dir := newDir()
		logp := filepath.Join(dir, "_race")
		env := append([]string{"VERIF_NOHOOKS=1", "GORACE=halt_on_error=0 exitcode=0 log_path=" + logp}, w.env...)
		rr := RunWorkflow(w.d, RunOpts{Dir: dir, Pre: w.pre, Env: env, Timeout: 60e9})
		logs, _ := filepath.Glob(logp + ".*")
		all := ""
		for _, l := range logs {
			bb, _ := ioutil.ReadFile(l)
			all += string(bb)
		}
		races := parseRaces(all + rr.Stderr)
		ctx.Res.Eval("race:"+w.name, true, w.name)
		ctx.Res.Count(fmt.Sprintf("races=%d", minInt(len(races), 3)))
		if rr.Exit != 0 && rr.Exit != 66 && len(races) == 0 && !strings.HasPrefix(w.name, "dag") {
			ctx.Res.Note(fmt.Sprintf("workflow %s exited %d under the race detector: %s", w.name, rr.Exit, firstLine(rr.Stderr)))
		}
		for _, rc := range races {
			cl := classifyRace(rc)
			key := cl + " " + strings.Join(rc.Funcs, ",")
			if len(classes[key]) == 0 {
				ctx.Res.Violate(Violation{What: fmt.Sprintf("data race in workflow %s between scipipe functions %v", w.name, rc.Funcs), Class: cl, Witness: map[string]interface{}{"workflow": w.name, "functions": rc.Funcs}})
			}
			classes[key] = append(classes[key], w.name)
		}
		os.RemoveAll(dir)
	}
	keys := []string{}
	for k := range classes {
		keys = append(keys, k)
	}
	sort.Strings(keys)
	ctx.Res.Extra["race_signatures"] = keys
}

func init() { checks["C12"] = checkC12 }
