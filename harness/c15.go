package main

import (
	"fmt"
	"strings"
)

// C15 (and the formatting part of C18): grammar-directed differential testing of formatCommand,
// SetOut patterns, the default path function, modifiers, the placeholder regex and port discovery.

type fmtCase struct {
	Pattern string              `json:"pattern"`
	Ins     map[string]string   `json:"ins"`
	Subs    map[string][]string `json:"subs,omitempty"`
	Outs    map[string]string   `json:"outs"`
	Params  map[string]string   `json:"params"`
	Tags    map[string]string   `json:"tags"`
	Prepend string              `json:"prepend,omitempty"`
}

func (c fmtCase) fields(req string) []string {
	return []string{req, c.Pattern, kvField(c.Ins), kvlField(c.Subs), kvField(c.Outs), kvField(c.Params), kvField(c.Tags), c.Prepend}
}

var modPool = []string{"basename", "dirname", "%.txt", "%txt", "%.gz", "s/a/b/", "s/.txt//", "s/data/out/", "%", "s/x/y/z", ".csv", ".tar.gz", "%s/a/b/", "s//x/", "basename|%.txt", "dirname|basename", "s/a/b/|s/b/c/", "%.txt|%.b"}
var pathPool = []string{"a.txt", "data/a.txt", "data/sub/a.b.txt", "../up/a.txt", "/abs/dir/a.txt", "x", "dir.d/file", "a/b/c/d/e.tar.gz", "../../two/up.txt", "__parent__x/y.txt", "s/a/b/c.txt", "matrix.txt", "data/input.txt", "x.t.txt", "lib.gz.gz", "tt", ".txt", "a..txt"}
var valPool = []string{"1", "abc", "a.txt", "x/y", "0.5", "A_B-c", "%.txt", "s/a/b/", "a b", "$HOME", "{p:x}", "}", "{"}
var litPool = []string{" ", "cat ", " > ", "; echo ", "awk '{print $1}' ", " | sort ", "x{", "}y", "{", "}", "{i:", "{{", "$(", ")", "{q:z}", "{i:}", "\\", "'", "\""}

func genFmtCase(r *Rng, wellFormed bool) fmtCase {
	c := fmtCase{Ins: map[string]string{}, Subs: map[string][]string{}, Outs: map[string]string{}, Params: map[string]string{}, Tags: map[string]string{}}
	type port struct{ typ, name string }
	ports := []port{}
	nports := 1 + r.Intn(4)
	typs := []string{"i", "i", "o", "o", "p", "p", "t", "os"}
	for k := 0; k < nports; k++ {
		t := typs[r.Intn(len(typs))]
		ports = append(ports, port{t, fmt.Sprintf("%s%d", map[string]string{"i": "in", "o": "out", "p": "par", "t": "tag", "os": "str"}[t], k)})
	}
	var sb strings.Builder
	ntok := 2 + r.Intn(6)
	for k := 0; k < ntok; k++ {
		if r.Intn(3) == 0 {
			if wellFormed {
				sb.WriteString(litPool[r.Intn(6)])
			} else {
				sb.WriteString(litPool[r.Intn(len(litPool))])
			}
			continue
		}
		p := ports[r.Intn(len(ports))]
		ph := "{" + p.typ + ":" + p.name
		if r.Intn(2) == 0 {
			ph += "|" + modPool[r.Intn(len(modPool))]
		}
		if p.typ == "i" && r.Intn(8) == 0 {
			ph += "|join:" + []string{",", " ", ":", ";"}[r.Intn(4)]
			c.Subs[p.name] = nil
		}
		ph += "}"
		sb.WriteString(ph)
		sb.WriteString(litPool[r.Intn(3)])
	}
	c.Pattern = sb.String()
	for _, p := range ports {
		switch p.typ {
		case "i":
			c.Ins[p.name] = pathPool[r.Intn(len(pathPool))]
		case "o", "os":
			c.Outs[p.name] = pathPool[r.Intn(len(pathPool))]
		case "p":
			if wellFormed {
				c.Params[p.name] = valPool[r.Intn(6)]
			} else if r.Intn(6) != 0 {
				c.Params[p.name] = valPool[r.Intn(len(valPool))]
			} else if r.Bool() {
				c.Params[p.name] = ""
			}
		case "t":
			if wellFormed || r.Intn(6) != 0 {
				c.Tags[p.name] = valPool[r.Intn(6)]
			}
		}
	}
	if !wellFormed && r.Intn(4) == 0 {
		// a value that is itself a placeholder of this pattern (re-expansion by the iterative loop)
		for _, m := range strings.Split(c.Pattern, "{") {
			if i := strings.Index(m, "}"); i > 0 && len(c.Params) > 0 {
				for k := range c.Params {
					c.Params[k] = "{" + m[:i+1]
					break
				}
				break
			}
		}
	}
	for name := range c.Subs {
		n := r.Intn(4)
		ms := []string{}
		for i := 0; i < n; i++ {
			ms = append(ms, pathPool[r.Intn(len(pathPool))])
		}
		c.Subs[name] = ms
		if _, ok := c.Ins[name]; !ok {
			delete(c.Subs, name)
		}
	}
	// a joined port is only a sub-stream port if the placeholder that *defines* the port info says so;
	// the worker sends members exactly for the names in Subs
	if r.Intn(5) == 0 {
		c.Prepend = "docker run x"
	}
	return c
}

func checkC15(ctx *Ctx) {
	ctx.Res.Rule = "patterns drawn from a grammar (literal chunks incl. awk braces x placeholders of type i/o/os/p/t x modifier chains from an 18-element pool x optional join separators, repeated placeholders), values from the path alphabet and beyond; a well-formed stream and a malformed stream (stray braces, unknown types, empty names, empty / missing parameter and tag values, brace-carrying values); requests fmtcmd, setout, defpath, mods, placeholders, ports; every request goes to the real code (in-process worker; scipipe.Fail = worker exit 1 = FAIL) and to the Lean model; non-trivial = pattern contains a placeholder; distinct by request line; on the real result alone: a formed command with a missing or empty parameter / tag value is a violation; default names of a process with several out-ports equal the names each port gets alone."
	w := &Worker{}
	defer w.Close()
	r := NewRng(ctx.Seed)
	n := 400
	if ctx.Thorough() {
		n = 12000
	}
	specDiffers := 0
	for i := 0; i < n && ctx.TimeLeft(); i++ {
		c := genFmtCase(r, i%3 != 0)
		nontriv := strings.Contains(c.Pattern, ":")
		real, _, _ := ctx.diff(w, "c15.fmtcmd", nontriv, c.fields("fmtcmd")...)
		if i%3 != 0 {
			ctx.Res.Count("stream=wellformed")
		} else {
			ctx.Res.Count("stream=malformed")
		}
		// single-pass specification vs the iterative code (both in Lean); differences are the
		// side conditions of c15_iterative_eq_single_pass, recorded, not alarms
		spec := ctx.Drv.Ask(c.fields("fmtspec")...)
		if spec != real {
			specDiffers++
			if specDiffers <= 3 {
				ctx.Res.Note(fmt.Sprintf("iterative expansion differs from the single-pass spec (outside the theorem's domain): pattern %q -> %s vs spec %s", c.Pattern, quote(real), quote(spec)))
			}
		}
		// the property on the real result, whatever the model says: a parameter or tag placeholder without a
		// (non-empty) value must stop the workflow
		if strings.HasPrefix(real, "OK\t") {
			for _, m := range strings.Split(w.Ask("placeholders", c.Pattern), US) {
				f := strings.Split(m, RS)
				if len(f) < 3 {
					continue
				}
				name := strings.Split(f[2], "|")[0]
				if (f[1] == "p" && c.Params[name] == "") || (f[1] == "t" && c.Tags[name] == "") {
					ctx.Res.Violate(Violation{What: fmt.Sprintf("a command was formed (%s) although the value of {%s:%s} is missing or empty", quote(real), f[1], name), Class: "c15.missing-value-accepted", Witness: c})
					break
				}
			}
		}
		// ... and no unreplaced placeholder of the original pattern
		if strings.HasPrefix(real, "OK\t") && i%3 != 0 {
			for _, m := range strings.Split(w.Ask("placeholders", c.Pattern), US) {
				if m == "" {
					continue
				}
				full := strings.Split(m, RS)[0]
				if strings.Contains(real, full) {
					ctx.Res.Violate(Violation{What: fmt.Sprintf("command %q still contains the placeholder %s", real, full), Class: "c15.unreplaced", Witness: c})
				}
			}
		}
	}
	ctx.Res.Extra["spec_differs"] = specDiffers
	// every path of the pool x every modifier of the pool, and the suffix trim on stems that end in
	// characters of the suffix / are shorter than it / equal to it
	for _, p := range pathPool {
		for _, m := range modPool {
			ctx.diff(w, "c15.mods", true, "mods", p, strings.Join(strings.Split(m, "|"), US))
		}
	}
	for _, stem := range []string{"", "a", "t", "x", ".", "x.", "tt", "a.t", "txt", "d/t.x", "d.txt/f"} {
		for _, suf := range []string{".txt", "t", "txt", ".t", "x.", "/f", "."} {
			real := w.Ask("mods", stem+suf, "%"+suf)
			ctx.diff(w, "c15.mods", true, "mods", stem+suf, "%"+suf)
			want := stem
			if stem == "" {
				want = suf // the trim needs a strictly longer path
			}
			if real != want {
				ctx.Res.Violate(Violation{What: fmt.Sprintf("applyPathModifiers(%q, %%%s) = %q, the documented suffix trim gives %q", stem+suf, suf, real, want), Class: "c15.trim", Witness: []string{stem + suf, "%" + suf}})
			}
		}
	}
	defpathDeterminism(ctx, w)
	// modifiers, placeholder regex, port discovery, SetOut, default path
	for i := 0; i < n && ctx.TimeLeft(); i++ {
		p := pathPool[r.Intn(len(pathPool))]
		k := 1 + r.Intn(3)
		ms := []string{}
		for j := 0; j < k; j++ {
			ms = append(ms, strings.Split(modPool[r.Intn(len(modPool))], "|")...)
		}
		ctx.diff(w, "c15.mods", true, "mods", p, strings.Join(ms, US))
		c := genFmtCase(r, i%2 == 0)
		ctx.diff(w, "c15.placeholders", true, "placeholders", c.Pattern)
		if i%2 == 0 {
			ctx.diff(w, "c15.ports", true, "ports", c.Pattern)
		}
		// SetOut pattern: only i / p / t placeholders make sense; generate directly
		pat := ""
		ins, params, tags := map[string]string{}, map[string]string{}, map[string]string{}
		for j := 0; j < 1+r.Intn(3); j++ {
			switch r.Intn(4) {
			case 0:
				name := fmt.Sprintf("in%d", j)
				ins[name] = pathPool[r.Intn(len(pathPool))]
				pat += "{i:" + name + modSuffix(r) + "}"
			case 1:
				name := fmt.Sprintf("par%d", j)
				params[name] = valPool[r.Intn(5)]
				pat += "{p:" + name + modSuffix(r) + "}"
			case 2:
				name := fmt.Sprintf("tag%d", j)
				tags[name] = valPool[r.Intn(5)]
				pat += "{t:" + name + "}"
			default:
				pat += []string{".out", "_x_", "/sub/", ".txt"}[r.Intn(4)]
			}
		}
		pat += ".res"
		ctx.diff(w, "c15.setout", true, "setout", pat, kvField(ins), kvField(params), kvField(tags))
		ctx.diff(w, "c15.defpath", true, "defpath", []string{"proc", "My Proc", "p.q-r"}[r.Intn(3)], "out", []string{"", "txt", "tar.gz"}[r.Intn(3)], kvField(ins), kvField(params), kvField(tags))
	}
}

// the default output name is a *function* of its arguments: evaluated repeatedly with several tags and
// parameters it must always be the same string (map iteration order must not leak into it)
func defpathDeterminism(ctx *Ctx, w *Worker) {
	tags := map[string]string{"t1": "a", "t2": "b", "t3": "c", "zz": "d", "aa": "e"}
	params := map[string]string{"p1": "1", "p2": "2", "p3": "3", "k": "v"}
	ins := map[string]string{"in1": "x/a.txt", "in2": "b.txt", "in3": "c/d/e.txt"}
	req := []string{"defpath", "proc", "out", "txt", kvField(ins), kvField(params), kvField(tags)}
	first := w.Ask(req...)
	ctx.Res.Eval("defpath-determinism", true, req)
	for i := 0; i < 40; i++ {
		if again := w.Ask(req...); again != first {
			ctx.Res.Violate(Violation{What: fmt.Sprintf("the default output name of the same task is %q in one evaluation and %q in another", first, again), Class: "c15.defpath-nondeterministic", Witness: req})
			break
		}
	}
	ctx.diff(w, "c15.defpath", true, req...)
	// a process with several out-ports: each port's default name is the one it would have alone (its own port name
	// and extension), so the names differ
	ports := [][2]string{{"first", "csv"}, {"second", "tsv"}, {"third", ""}}
	spec := []string{}
	alone := []string{}
	for _, pe := range ports {
		spec = append(spec, pe[0]+":"+pe[1])
		alone = append(alone, w.Ask("defpath", "proc", pe[0], pe[1], kvField(ins), kvField(params), kvField(tags)))
	}
	for i := 0; i < 8; i++ {
		got := strings.Split(w.Ask("defpath2", "proc", strings.Join(spec, ","), "", kvField(ins), kvField(params), kvField(tags)), US)
		if strings.Join(got, US) != strings.Join(alone, US) {
			ctx.Res.Violate(Violation{What: fmt.Sprintf("default output names of a process with the out-ports %v: %q, each port alone gets %q", spec, got, alone), Class: "c15.defpath-ports", Witness: spec})
			break
		}
	}
	ctx.Res.Eval("defpath-several-out-ports", true, spec)
}

func modSuffix(r *Rng) string {
	if r.Intn(2) == 0 {
		return ""
	}
	return "|" + modPool[r.Intn(len(modPool))]
}

func init() { checks["C15"] = checkC15 }
