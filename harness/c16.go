package main

import (
	"fmt"
	"os"
	"sort"
	"strings"
)

// C16: wiring checks and RunTo closures on random DAG workflows.

type c16Case struct {
	Dag     Dag      `json:"dag"`
	RunTo   []string `json:"runto,omitempty"`
	Kind    string   `json:"kind,omitempty"` // name | regex | procs
	Unplug  string   `json:"unplug,omitempty"` // "node.port" left unconnected
}

func runC16(ctx *Ctx, c c16Case) {
	d, pre := c.Dag.desc()
	if c.Unplug != "" {
		edges := []Edge{}
		for _, e := range d.Edges {
			if e.To != c.Unplug {
				edges = append(edges, e)
			}
		}
		d.Edges = edges
		for i := range d.Nodes {
			if strings.HasPrefix(c.Unplug, d.Nodes[i].Name+".") && strings.HasSuffix(c.Unplug, ".p") {
				d.Nodes[i].FromStr = nil
			}
		}
	}
	if len(c.RunTo) > 0 {
		d.RunTo = c.RunTo
		d.RunToKind = c.Kind
		if c.Kind == "regex" {
			d.RunTo = nil
			for _, t := range c.RunTo {
				d.RunTo = append(d.RunTo, "^"+t+"$")
			}
		}
	}
	env := []string{"VERIF_LINGER_MS=150"}
	if c.Unplug != "" {
		// widen the window between the start of one process and the next: a readiness check that is not
		// completed before the first `go proc.Run()` lets already started processes execute commands
		env = append(env, "VERIF_DELAY=wf.start:40")
	}
	rr := RunWorkflow(d, RunOpts{Pre: pre, Timeout: 20e9, Env: env})
	defer os.RemoveAll(rr.Dir)
	modelPlan(ctx, c, rr)
	ctx.Res.Eval(fmt.Sprintf("%v", c), len(c.Dag.procNames()) > 1, c)
	started := startedPerProc(rr.CmdTrace)
	if c.Unplug != "" {
		ctx.Res.Count("unplugged")
		if rr.Exit == 0 || rr.Returned {
			ctx.Res.Violate(Violation{What: fmt.Sprintf("port %s is unconnected but the workflow was not refused (exit %d, returned %v)", c.Unplug, rr.Exit, rr.Returned), Class: "c16.not-refused", Witness: c})
		} else if out := rr.Stderr + rr.Stdout; rr.Exit == -2 || rr.Exit == 2 ||
			!(strings.Contains(out, "not ready to run") || strings.Contains(out, "is not connected") || strings.Contains(out, "ot everything connected")) {
			// a refusal is the library saying so and exiting with status 1 — not a hang, a runtime deadlock or
			// some later failure of a process that was started anyway
			ctx.Res.Violate(Violation{What: fmt.Sprintf("port %s is unconnected; the workflow was not refused at start-up but ended with exit %d: %s", c.Unplug, rr.Exit, firstLine(rr.Stderr)), Class: "c16.not-refused", Witness: c})
		}
		if len(started) > 0 {
			class := "c16.ran-before-refusal"
			if rr.Exit == 2 || rr.Exit == -2 {
				class = "c16.unconnected-driver" // F16: the unconnected port belongs to the no-out-port process that became the driver
			}
			ctx.Res.Violate(Violation{What: fmt.Sprintf("port %s is unconnected, yet commands were executed: %v (exit %d)", c.Unplug, started, rr.Exit), Class: class, Witness: c})
		}
		return
	}
	targets := c.RunTo
	if len(targets) == 0 {
		targets = c.Dag.procNames()
		ctx.Res.Count("run-all")
	} else {
		ctx.Res.Count("runto-" + c.Kind)
	}
	closure := c.Dag.closure(targets)
	counts := c.Dag.counts()
	if rr.Exit != 0 || !rr.Returned {
		class := "c16.run-failed"
		if strings.Contains(rr.Stderr, "stack overflow") || strings.Contains(rr.Stderr, "goroutine stack exceeds") {
			class = "c16.runto-recursion" // F9
		}
		ctx.Res.Violate(Violation{What: fmt.Sprintf("well-wired workflow (RunTo %v) exited %d: %s", c.RunTo, rr.Exit, firstLine(rr.Stderr)), Class: class, Witness: c})
		return
	}
	// (i) nothing outside the closure runs; (ii) every task of the closure runs (counted when the
	// process exits, i.e. including what finished after Run returned — C05 judges the return instant)
	for p, n := range started {
		if !closure[p] {
			ctx.Res.Violate(Violation{What: fmt.Sprintf("RunTo %v executed %d command(s) of %s, which is outside the upstream closure", c.RunTo, n, p), Class: "c16.outside-ran", Witness: c})
		}
	}
	ended := endedPerProc(rr.CmdTrace)
	for _, p := range c.Dag.procNames() {
		if closure[p] && ended[p] != counts[p] {
			class := "c16.missing-tasks"
			ctx.Res.Violate(Violation{What: fmt.Sprintf("process %s of the run set completed %d of its %d tasks before the program ended (RunTo %v)", p, ended[p], counts[p], c.RunTo), Class: class, Witness: c})
		}
	}
	// each process of the run set is started exactly once (hook trace)
	starts := map[string]int{}
	for _, e := range rr.Trace {
		if e.Point == "wf.start" || e.Point == "wf.driver.start" {
			starts[e.Args[0]]++
		}
	}
	for p, n := range starts {
		if n > 1 {
			ctx.Res.Violate(Violation{What: fmt.Sprintf("process %s was started %d times (as goroutine and as driver)", p, n), Class: "c16.double-start", Witness: c})
		}
	}
}

func firstLine(s string) string {
	for _, l := range strings.Split(s, "\n") {
		if strings.TrimSpace(l) != "" {
			if len(l) > 200 {
				return l[:200]
			}
			return l
		}
	}
	return ""
}

func checkC16(ctx *Ctx) {
	defer runToOverTo(ctx)
	defer runToCutFanIn(ctx)
	ctx.Res.Rule = "random acyclic workflows (1-2 file sources, optional ParamSource, 1-5 processes with 0-2 file in-ports, optional parameter port fed by FromStr or the ParamSource, at most one process without out-ports); for each: Run; every single in-/param-port left unconnected in turn; RunTo over single targets and random target sets by name, by regex and by process; non-trivial = more than one process; distinct by (graph, targets, unplugged port). Checks: refusal before any command, commands executed = exactly the upstream closure with the expected task counts, every process started once; also: RunTo over connections made with OutPort.To() / OutParamPort.To()."
	r := NewRng(ctx.Seed)
	n := 8
	if ctx.Thorough() {
		n = 80
	}
	cases := []c16Case{}
	// fixed shapes: RunTo a target without out-ports (F2), an unconnected port on a no-out-port
	// process (F16), RunTo with a FromStr feeder longer than the buffer (F9 needs SCIPIPE_BUFSIZE)
	leaf := Dag{Max: 2, Nodes: []DNode{{Name: "s0", Kind: "src", Items: 3}, {Name: "P0", Kind: "proc", Ins: []string{"s0"}}, {Name: "P1", Kind: "proc", Ins: []string{"P0"}, NoOut: true}}}
	cases = append(cases, c16Case{Dag: leaf, RunTo: []string{"P1"}, Kind: "name"})
	cases = append(cases, c16Case{Dag: leaf, Unplug: "P1.in0"})
	// a parameter producer with an upstream of its own: RunTo must reach through the parameter connection
	pch := Dag{Max: 2, Nodes: []DNode{{Name: "s0", Kind: "src", Items: 2}, {Name: "ps0", Kind: "psrc", PVals: []string{"v0", "v1"}}, {Name: "pc0", Kind: "pcomb", PIn: "ps0"},
		{Name: "P0", Kind: "proc", Ins: []string{"s0"}, PIn: "pc0"}, {Name: "P1", Kind: "proc", Ins: []string{"P0"}}, {Name: "P2", Kind: "proc", Ins: []string{"s0"}}}}
	cases = append(cases, c16Case{Dag: pch}, c16Case{Dag: pch, RunTo: []string{"P0"}, Kind: "name"}, c16Case{Dag: pch, RunTo: []string{"P1"}, Kind: "procs"}, c16Case{Dag: pch, RunTo: []string{"P2"}, Kind: "name"})
	for i := 0; i < n; i++ {
		g := genDag(r, true, 4)
		cases = append(cases, c16Case{Dag: g})
		procs := g.procNames()
		// unplug every in-port in turn
		for _, nd := range g.Nodes {
			if nd.Kind != "proc" {
				continue
			}
			for k := range nd.Ins {
				cases = append(cases, c16Case{Dag: g, Unplug: fmt.Sprintf("%s.in%d", nd.Name, k)})
			}
			if nd.PIn != "" {
				cases = append(cases, c16Case{Dag: g, Unplug: nd.Name + ".p"})
			}
		}
		// RunTo: every single target by name, plus random sets by regex / procs
		for _, p := range procs {
			cases = append(cases, c16Case{Dag: g, RunTo: []string{p}, Kind: "name"})
		}
		for k := 0; k < 2; k++ {
			set := []string{}
			for _, p := range procs {
				if r.Intn(3) == 0 {
					set = append(set, p)
				}
			}
			if len(set) > 0 {
				sort.Strings(set)
				cases = append(cases, c16Case{Dag: g, RunTo: set, Kind: []string{"regex", "procs"}[k]})
			}
		}
	}
	parallel(len(cases), 8, func(i int) {
		if ctx.TimeLeft() {
			runC16(ctx, cases[i])
		}
	})
	// F9: RunTo with a FromStr feeder that cannot finish before RunTo is called
	long := Dag{Max: 2, Nodes: []DNode{{Name: "s0", Kind: "src", Items: 1}, {Name: "P0", Kind: "proc", Ins: []string{"s0"}, PIn: "@", PVals: []string{"a", "b", "c", "d", "e"}}}}
	d, pre := long.desc()
	d.RunTo, d.RunToKind = []string{"P0"}, "name"
	rr := RunWorkflow(d, RunOpts{Pre: pre, Timeout: 20e9, Env: []string{"SCIPIPE_BUFSIZE=2"}})
	ctx.Res.Eval("runto-fromstr-long", true, "RunTo with a FromStr feeder of 5 values, SCIPIPE_BUFSIZE=2")
	ctx.Res.Count("runto-fromstr")
	if rr.Exit != 0 {
		class := "c16.run-failed"
		if strings.Contains(rr.Stderr, "stack overflow") || strings.Contains(rr.Stderr, "goroutine stack exceeds") {
			class = "c16.runto-recursion"
		}
		ctx.Res.Violate(Violation{What: fmt.Sprintf("RunTo on a process whose parameter port is fed by FromStr with more values than the channel buffer: exit %d: %s", rr.Exit, firstLine(rr.Stderr)), Class: class, Witness: long})
	}
	os.RemoveAll(rr.Dir)
}

// connections made with OutPort.To() / OutParamPort.To() are connections like any other: RunTo finds the upstream
// closure through them
func runToOverTo(ctx *Ctx) {
	d := &Desc{Name: "c16to", Max: 2, Nodes: []Node{{Name: "src", Kind: "filesource", Paths: []string{"t.txt"}},
		{Name: "ps", Kind: "paramsource", Values: []string{"v"}},
		{Name: "mid", Kind: "proc", Cmd: "( cat {i:in} > {o:out} ; echo {p:p} >> {o:out} )", Outs: map[string]string{"out": "{i:in}.mid"}},
		{Name: "dst", Kind: "proc", Cmd: "( cat {i:in} > {o:out} )", Outs: map[string]string{"out": "{i:in}.dst"}},
		{Name: "extra", Kind: "proc", Cmd: "( cat {i:in} > {o:out} )", Outs: map[string]string{"out": "{i:in}.extra"}}},
		Edges: []Edge{{From: "src.out", To: "mid.in", UseTo: true}, {From: "ps.out", To: "mid.p", Param: true, UseTo: true},
			{From: "mid.out", To: "dst.in", UseTo: true}, {From: "dst.out", To: "extra.in", UseTo: true}},
		RunTo: []string{"dst"}, RunToKind: "name"}
	rr := RunWorkflow(d, RunOpts{Pre: map[string]string{"t.txt": "t\n"}, Timeout: 15e9})
	defer os.RemoveAll(rr.Dir)
	ctx.Res.Eval("RunTo over connections made with To()", true, "runto-over-To")
	ctx.Res.Count("wired-with-To")
	_, okDst := readFile(rr.Dir, "t.txt.mid.dst")
	_, okExtra := readFile(rr.Dir, "t.txt.mid.dst.extra")
	if rr.Exit != 0 || !okDst {
		ctx.Res.Violate(Violation{What: fmt.Sprintf("RunTo(dst) over connections made with To(): exit %d, output of dst present: %v (%s)", rr.Exit, okDst, firstLine(rr.Stderr)), Class: "c16.run-failed", Witness: "runto-over-To"})
	}
	if okExtra {
		ctx.Res.Violate(Violation{What: "RunTo(dst) executed the process downstream of its target", Class: "c16.outside-started", Witness: "runto-over-To"})
	}
}

// RunTo a process whose out-port feeds, together with another process outside the run set, one in-port of a process
// outside the run set (a cut fan-in): the target's out-port is re-wired to the sink and RunTo waits for its tasks
func runToCutFanIn(ctx *Ctx) {
	d := &Desc{Name: "c16fanin", Max: 2, Nodes: []Node{{Name: "sa", Kind: "filesource", Paths: []string{"fa.txt"}}, {Name: "sz", Kind: "filesource", Paths: []string{"fz.txt"}},
		{Name: "a", Kind: "proc", Cmd: "( sleep 0.3 ; cat {i:in} > {o:out} )", Outs: map[string]string{"out": "{i:in}.a"}},
		{Name: "z", Kind: "proc", Cmd: "( cat {i:in} > {o:out} )", Outs: map[string]string{"out": "{i:in}.z"}},
		{Name: "c", Kind: "proc", Cmd: "( cat {i:in} > {o:out} )", Outs: map[string]string{"out": "{i:in}.c"}}},
		Edges: []Edge{{From: "sa.out", To: "a.in"}, {From: "sz.out", To: "z.in"}, {From: "a.out", To: "c.in"}, {From: "z.out", To: "c.in"}},
		RunTo: []string{"a"}, RunToKind: "name"}
	rr := RunWorkflow(d, RunOpts{Pre: map[string]string{"fa.txt": "a\n", "fz.txt": "z\n"}, Timeout: 15e9})
	defer os.RemoveAll(rr.Dir)
	ctx.Res.Eval("RunTo below a cut fan-in", true, "cut-fan-in")
	ctx.Res.Count("cut-fan-in")
	_, okA := readFile(rr.Dir, "fa.txt.a")
	if rr.Exit != 0 || !okA {
		ctx.Res.Violate(Violation{What: fmt.Sprintf("RunTo(a), a.out and z.out both feeding c.in: exit %d, a's output present when RunTo returned: %v", rr.Exit, okA), Class: "c16.run-failed", Witness: "cut-fan-in"})
	}
	for _, p := range []string{"fz.txt.z", "fa.txt.a.c", "fz.txt.z.c"} {
		if _, ok := readFile(rr.Dir, p); ok {
			ctx.Res.Violate(Violation{What: "RunTo(a) executed a process outside the upstream closure: " + p + " exists", Class: "c16.outside-started", Witness: "cut-fan-in"})
		}
	}
}

func init() { checks["C16"] = checkC16 }

// the start-up plan of the graph model (instantiated with the record extracted from the source)
// against what the hook trace shows: refused / which processes were started, which one drives
func modelPlan(ctx *Ctx, c c16Case, rr *RunRes) {
	idx := map[string]int{}
	for i, n := range c.Dag.Nodes {
		idx[n.Name] = i
	}
	edges, inPorts, hasOut, selfFed, paramPorts := []string{}, []string{}, []string{}, []string{}, []string{}
	for i, n := range c.Dag.Nodes {
		np := len(n.Ins)
		for k, u := range n.Ins {
			if c.Unplug != fmt.Sprintf("%s.in%d", n.Name, k) {
				edges = append(edges, fmt.Sprintf("%d:%d:%d", idx[baseName(u)], i, k))
			}
		}
		if n.PIn != "" {
			paramPorts = append(paramPorts, fmt.Sprintf("%d:%d", i, np))
			if c.Unplug != n.Name+".p" {
				if n.PIn == "@" {
					selfFed = append(selfFed, fmt.Sprintf("%d:%d", i, np))
				} else {
					edges = append(edges, fmt.Sprintf("%d:%d:%d", idx[n.PIn], i, np))
				}
			}
			np++
		}
		inPorts = append(inPorts, fmt.Sprint(np))
		if n.Kind == "proc" && n.NoOut {
			hasOut = append(hasOut, "0")
		} else {
			hasOut = append(hasOut, "1")
		}
	}
	targets := "-"
	if len(c.RunTo) > 0 {
		ts := []string{}
		for _, t := range c.RunTo {
			ts = append(ts, fmt.Sprint(idx[t]))
		}
		targets = strings.Join(ts, ",")
	}
	resp := ctx.Drv.Ask("plan", fmt.Sprint(len(c.Dag.Nodes)), strings.Join(edges, ","), strings.Join(inPorts, ","), strings.Join(hasOut, ","), strings.Join(selfFed, ","), strings.Join(paramPorts, ","), targets)
	ctx.Res.Count("plan=" + strings.Fields(resp)[0])
	started := []int{}
	driver := "sink"
	sinkRan := false
	for _, e := range rr.Trace {
		if e.Point == "wf.start" {
			started = append(started, idx[e.Args[0]])
		}
		if e.Point == "wf.driver.start" {
			if i, ok := idx[e.Args[0]]; ok {
				driver = fmt.Sprint(i)
			}
		}
	}
	_ = sinkRan
	sort.Ints(started)
	ss := []string{}
	for _, s := range started {
		ss = append(ss, fmt.Sprint(s))
	}
	var real string
	switch {
	case len(started) == 0 && driver == "sink" && rr.Exit != 0 && !strings.Contains(rr.Stderr, "goroutine"):
		real = "refused"
	case strings.Contains(rr.Stderr, "stack overflow") || strings.Contains(rr.Stderr, "goroutine stack exceeds"):
		real = "recursion"
	default:
		real = fmt.Sprintf("started gs=%s driver=%s", strings.Join(ss, ","), driver)
	}
	model := resp
	if i := strings.Index(model, " sink="); i >= 0 {
		model = model[:i]
	}
	if real != model {
		ctx.Res.Disagree(Violation{What: fmt.Sprintf("start-up: real %q, model %q", real, model), Class: "c16.plan", Witness: c})
	}
}
