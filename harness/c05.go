package main

import (
	"path/filepath"
	"io/ioutil"
	"fmt"
	"os"
	"strings"
)

// C05: Run returns, and only when everything is finished. Random DAG workflows with several
// independent leaf branches, processes without out-ports, more tasks per process than buffer slots.

type c05Case struct {
	Dag   Dag      `json:"dag"`
	Buf   int      `json:"bufsize"`
	RunTo []string `json:"runto,omitempty"` // RunTo these processes instead of Run (only their upstream closure runs)
}

func runC05(ctx *Ctx, c c05Case) {
	d, pre := c.Dag.desc()
	inRun := func(name string) bool { return true }
	if len(c.RunTo) > 0 {
		d.RunTo, d.RunToKind = c.RunTo, "name"
		cl := c.Dag.closure(c.RunTo)
		inRun = func(name string) bool { return cl[name] }
		ctx.Res.Count("RunTo")
	}
	rr := RunWorkflow(d, RunOpts{Pre: pre, Timeout: 25e9, Env: []string{fmt.Sprintf("SCIPIPE_BUFSIZE=%d", c.Buf), "VERIF_LINGER_MS=200"}})
	defer os.RemoveAll(rr.Dir)
	counts := c.Dag.counts()
	total := 0
	maxTasks := 0
	leaves := 0
	noOut := false
	consumed := map[string]bool{}
	for _, n := range c.Dag.Nodes {
		for _, u := range n.Ins {
			consumed[baseName(u)] = true
		}
	}
	for _, n := range c.Dag.Nodes {
		if n.Kind == "proc" && inRun(n.Name) {
			total += counts[n.Name]
			if counts[n.Name] > maxTasks {
				maxTasks = counts[n.Name]
			}
			if !consumed[n.Name] {
				leaves++
			}
			if n.NoOut {
				noOut = true
			}
		}
	}
	ctx.Res.Eval(fmt.Sprintf("%v", c), total >= 2, c)
	ctx.Res.Count(fmt.Sprintf("bufsize=%d", c.Buf))
	for _, n := range c.Dag.Nodes {
		if n.Aux {
			ctx.Res.Count("process-with-two-out-ports")
			break
		}
	}
	if c.Dag.balanced() {
		ctx.Res.Count("balanced")
	} else {
		ctx.Res.Count("unbalanced")
	}
	if maxTasks > c.Buf {
		ctx.Res.Count("tasks>buffer")
	}
	if leaves > 1 {
		ctx.Res.Count("several-leaves")
	}
	if noOut {
		ctx.Res.Count("no-out-port-proc")
	}
	if len(c.RunTo) == 0 {
		netVerdict(ctx, c, rr)
	}
	if rr.Exit == -2 {
		class := "c05.hang"
		if c.Buf == 0 {
			class = "c05.bufsize0"
		} else if !c.Dag.balanced() {
			class = "c05.unbalanced-deadlock"
		} else if c.Dag.reconvergingBatch() {
			class = "c05.batch-deadlock"
		}
		ctx.Res.Violate(Violation{What: fmt.Sprintf("Run did not return within the time limit (SCIPIPE_BUFSIZE=%d)", c.Buf), Class: class, Witness: c})
		return
	}
	if rr.Exit != 0 || !rr.Returned {
		class := "c05.run-failed"
		if strings.Contains(rr.Stderr, "all goroutines are asleep") {
			class = "c05.deadlock"
			if c.Buf == 0 {
				class = "c05.bufsize0"
			} else if !c.Dag.balanced() {
				class = "c05.unbalanced-deadlock" // F20: a process stops reading when one in-port closes
			} else if c.Dag.reconvergingBatch() {
				class = "c05.batch-deadlock" // F23: a whole-stream reader inside a reconverging fan-out
			}
		}
		ctx.Res.Violate(Violation{What: fmt.Sprintf("well-formed workflow exited %d (SCIPIPE_BUFSIZE=%d): %s", rr.Exit, c.Buf, firstLine(rr.Stderr)), Class: class, Witness: c})
		return
	}
	// the instant Run returned, in the hook trace
	retSeq := -1
	for _, e := range rr.Trace {
		if e.Point == "wfrun.returned" {
			retSeq = e.Seq
		}
	}
	finalizedBefore, finalizedAll := 0, 0
	for _, e := range rr.Trace {
		if e.Point == "exec.released" || e.Point == "exec.skip" {
			finalizedAll++
			if e.Seq < retSeq {
				finalizedBefore++
			}
		}
	}
	driver := ""
	for _, e := range rr.Trace {
		if e.Point == "wf.driver.start" {
			driver = e.Args[0]
		}
	}
	class := "c05.early-return"
	if !strings.HasSuffix(driver, "_default_sink") {
		class = "c05.early-return-nonsink-driver" // F1: a process without out-ports drives, the sink is never run
	}
	if finalizedBefore != total && !c.Dag.balanced() {
		// F20c: with unbalanced streams a consumer abandons its ports; nobody waits for the processes upstream
		// of an abandoned port, so Run may return while their tasks still run, or before they were created
		ctx.Res.Violate(Violation{What: fmt.Sprintf("unbalanced streams: Run returned after %d of %d tasks had finished (driver %s; %d finished by the time the program ended)", finalizedBefore, total, driver, finalizedAll), Class: "c05.unbalanced-early-return", Witness: c})
		return
	}
	if finalizedBefore != total {
		ctx.Res.Violate(Violation{What: fmt.Sprintf("Run returned after %d of %d tasks had finished (driver %s; %d finished by the time the program ended)", finalizedBefore, total, driver, finalizedAll), Class: class, Witness: c})
		return
	}
	// nothing left behind at the instant of return
	for _, s := range rr.Snap {
		if strings.Contains(s, "_scipipe_tmp") || strings.HasSuffix(s, ".fifo") {
			ctx.Res.Violate(Violation{What: "Run returned while " + s + " still existed", Class: class, Witness: c})
			return
		}
	}
	// expected output files exist at the instant of return
	for _, n := range c.Dag.Nodes {
		if n.Kind == "proc" && !n.NoOut && inRun(n.Name) {
			have := 0
			for _, s := range rr.Snap {
				if strings.HasPrefix(s, "f:"+n.Name+".") && strings.HasSuffix(s, ".o") {
					have++
				}
			}
			if have < counts[n.Name] && have < distinctOutputs(c.Dag, n.Name, counts) {
				ctx.Res.Violate(Violation{What: fmt.Sprintf("at the instant Run returned only %d output files of %s existed", have, n.Name), Class: class, Witness: c})
				return
			}
		}
	}
}

// several tasks of one process may share an output name (same inputs twice): lower bound 1
func distinctOutputs(g Dag, name string, counts map[string]int) int {
	if counts[name] > 0 {
		return 1
	}
	return 0
}

// history: a complete run, some outputs lost, run again — with a process that asks for several cores per task, so
// that most of its tasks are skipped while a few have to run: Run returns, everything is there, nothing is left
func rerunMultiCore(ctx *Ctx) {
	ch := Chain{Inputs: []string{"a.txt", "b.txt", "c.txt", "d.txt", "e.txt", "f.txt"}, Levels: []Level{{Cores: 2}, {Cores: 1}}, Max: 4}
	dir := newDir()
	defer os.RemoveAll(dir)
	for p, content := range ch.sources() {
		ioutil.WriteFile(filepath.Join(dir, p), []byte(content), 0644)
	}
	r1 := RunWorkflow(ch.desc(), RunOpts{Dir: dir})
	ctx.Res.Eval("re-run with skipped multi-core tasks", true, "rerun-multicore")
	ctx.Res.Count("history=run,lose-outputs,run-again")
	if r1.Exit != 0 {
		ctx.Res.Disagree(Violation{What: "first run failed: " + firstLine(r1.Stderr), Witness: "rerun-multicore"})
		return
	}
	for _, in := range []string{"e.txt", "f.txt"} {
		for l := 0; l < 2; l++ {
			p := ch.pathAt(in, l)
			os.Remove(filepath.Join(dir, p))
			os.Remove(filepath.Join(dir, p+".audit.json"))
		}
	}
	for _, in := range ch.Inputs[:4] {
		p := ch.pathAt(in, 1)
		os.Remove(filepath.Join(dir, p))
		os.Remove(filepath.Join(dir, p+".audit.json"))
	}
	r2 := RunWorkflow(ch.desc(), RunOpts{Dir: dir, Timeout: 20e9})
	if r2.Exit != 0 || !r2.Returned {
		ctx.Res.Violate(Violation{What: fmt.Sprintf("re-run over partially existing outputs of a process with 2 cores per task (4 slots, 4 of 6 tasks skipped) did not return normally: exit %d %s", r2.Exit, firstLine(r2.Stderr)), Class: "c05.hang", Witness: "rerun-multicore"})
		return
	}
	for _, in := range ch.Inputs {
		if _, ok := readFile(dir, ch.pathAt(in, 1)); !ok {
			ctx.Res.Violate(Violation{What: "after the re-run returned " + ch.pathAt(in, 1) + " is missing", Class: "c05.early-return", Witness: "rerun-multicore"})
			return
		}
	}
	if l := leftovers(dir); len(l) > 0 {
		ctx.Res.Violate(Violation{What: fmt.Sprintf("the re-run left %v behind", l), Class: "c05.early-return", Witness: "rerun-multicore"})
	}
}

func checkC05(ctx *Ctx) {
	defer rerunMultiCore(ctx)
	ctx.Res.Rule = "random acyclic workflows as for C16 (several independent leaf branches, at most one process without out-ports, fan-out, multi-port processes, processes with two out-ports, FromStr / ParamSource parameter streams) with stream lengths 0-7 and SCIPIPE_BUFSIZE in {1,2,3,128} so that processes have more tasks than buffer slots; non-trivial = at least two tasks; distinct by (graph, bufsize). Checks: Run returns within the limit with exit 0; in the hook trace every task's release (logged before its Done signal) precedes the return of Run; the directory listing taken at the instant of return has no temp dir / FIFO and holds the outputs."
	r := NewRng(ctx.Seed)
	n := 30
	if ctx.Thorough() {
		n = 300
	}
	cases := []c05Case{}
	// F1 shape: source -> {fast leaf without out-ports, slow branch with outputs}
	cases = append(cases, c05Case{Buf: 128, Dag: Dag{Max: 4, Nodes: []DNode{{Name: "s0", Kind: "src", Items: 3},
		{Name: "P0", Kind: "proc", Ins: []string{"s0"}, NoOut: true}, {Name: "P1", Kind: "proc", Ins: []string{"s0"}}, {Name: "P2", Kind: "proc", Ins: []string{"P1"}}}}})
	// issue #81 shape: more tasks than buffer slots in a chain
	// F20 shape: a two-port process whose ports carry 5 and 1 items, buffer 1
	// F23: a ParamCombinator (reads its whole stream before emitting) whose source also feeds P1 directly, and P1
	// waits for P0, which waits for the combinator: balanced, yet stuck once the stream exceeds the buffer
	cases = append(cases, c05Case{Buf: 1, Dag: Dag{Max: 2, Nodes: []DNode{{Name: "s0", Kind: "src", Items: 3}, {Name: "ps0", Kind: "psrc", PVals: []string{"v0", "v1", "v2"}},
		{Name: "pc0", Kind: "pcomb", PIn: "ps0"}, {Name: "P0", Kind: "proc", Ins: []string{"s0"}, PIn: "pc0"}, {Name: "P1", Kind: "proc", Ins: []string{"P0"}, PIn: "ps0"}}}})
	cases = append(cases, c05Case{Buf: 1, Dag: Dag{Max: 4, Nodes: []DNode{{Name: "s0", Kind: "src", Items: 5}, {Name: "s1", Kind: "src", Items: 1},
		{Name: "P0", Kind: "proc", Ins: []string{"s0"}}, {Name: "P2", Kind: "proc", Ins: []string{"P0", "P0"}}, {Name: "P3", Kind: "proc", Ins: []string{"P0", "s1"}}}}})
	// RunTo a process whose parameter port is fed by a component with an upstream of its own, and whose output
	// another process (not run) would consume
	cases = append(cases, c05Case{Buf: 2, RunTo: []string{"P1"}, Dag: Dag{Max: 3, Nodes: []DNode{{Name: "s0", Kind: "src", Items: 3},
		{Name: "ps0", Kind: "psrc", PVals: []string{"v0", "v1", "v2"}}, {Name: "pc0", Kind: "pcomb", PIn: "ps0"},
		{Name: "P0", Kind: "proc", Ins: []string{"s0"}}, {Name: "P1", Kind: "proc", Ins: []string{"P0"}, PIn: "pc0"}, {Name: "P2", Kind: "proc", Ins: []string{"P1"}}}}})
	cases = append(cases, c05Case{Buf: 1, RunTo: []string{"P0", "P2"}, Dag: Dag{Max: 2, Nodes: []DNode{{Name: "s0", Kind: "src", Items: 4}, {Name: "s1", Kind: "src", Items: 4},
		{Name: "P0", Kind: "proc", Ins: []string{"s0"}}, {Name: "P1", Kind: "proc", Ins: []string{"P0"}}, {Name: "P2", Kind: "proc", Ins: []string{"s1"}}, {Name: "P3", Kind: "proc", Ins: []string{"P2", "P1"}}}}})
	// a file stream and a parameter stream both end in the sink: Run must wait for the longer-running one
	cases = append(cases, c05Case{Buf: 2, Dag: Dag{Max: 2, Nodes: []DNode{{Name: "s0", Kind: "src", Items: 4},
		{Name: "P0", Kind: "proc", Ins: []string{"s0"}}, {Name: "ps0", Kind: "psrc", PVals: []string{"v0", "v1"}}}}})
	cases = append(cases, c05Case{Buf: 2, Dag: Dag{Max: 2, Nodes: []DNode{{Name: "s0", Kind: "src", Items: 7},
		{Name: "P0", Kind: "proc", Ins: []string{"s0"}}, {Name: "P1", Kind: "proc", Ins: []string{"P0"}}, {Name: "P2", Kind: "proc", Ins: []string{"P1"}}}}})
	for i := 0; i < n; i++ {
		if i%6 == 0 {
			cases = append(cases, c05Case{Dag: genDag(r, true, 7), Buf: []int{1, 2, 3, 128}[r.Intn(4)]})
		} else {
			cases = append(cases, c05Case{Dag: genBalancedDag(r, true, 7), Buf: []int{1, 2, 3, 128}[r.Intn(4)]})
		}
	}
	parallel(len(cases), 8, func(i int) {
		if ctx.TimeLeft() {
			runC05(ctx, cases[i])
		}
	})
	// F18: rendezvous channels (SCIPIPE_BUFSIZE=0): one producer with two out-ports feeding one
	// consumer with two in-ports; both orders of Go map iteration occur over a few runs
	two := &Desc{Name: "b0", Max: 2, Nodes: []Node{
		{Name: "a", Kind: "proc", Cmd: "echo x > {o:o1}; echo y > {o:o2}", Outs: map[string]string{"o1": "x1.txt", "o2": "x2.txt"}},
		{Name: "b", Kind: "proc", Cmd: "cat {i:i1} {i:i2} > {o:out}", Outs: map[string]string{"out": "b.txt"}}},
		Edges: []Edge{{From: "a.o1", To: "b.i1"}, {From: "a.o2", To: "b.i2"}}}
	bad := 0
	for k := 0; k < 8; k++ {
		rr := RunWorkflow(two, RunOpts{Timeout: 6e9, Env: []string{"SCIPIPE_BUFSIZE=0"}})
		ctx.Res.Eval(fmt.Sprintf("bufsize0-%d", k), true, "SCIPIPE_BUFSIZE=0, two out-ports into two in-ports")
		ctx.Res.Count("bufsize=0")
		// a refusal (exit 1 before anything runs) is fine; a deadlock / hang is not
		if rr.Exit == -2 || rr.Exit == 2 || (rr.Exit != 0 && len(rr.CmdTrace) > 0) {
			bad++
		}
		os.RemoveAll(rr.Dir)
	}
	if bad > 0 {
		ctx.Res.Violate(Violation{What: fmt.Sprintf("with SCIPIPE_BUFSIZE=0 a producer with two out-ports into a consumer with two in-ports deadlocked in %d of 8 runs", bad), Class: "c05.bufsize0", Witness: "SCIPIPE_BUFSIZE=0 a.o1->b.i1 a.o2->b.i2"})
	}
}

func init() { checks["C05"] = checkC05 }

// netEncode maps a DAG to the network counting model: one node per DAG node, plus one source node
// per FromStr feeder; ok=false for shapes the model does not cover (ParamCombinator buffers a whole stream)
func netEncode(g Dag) (names []string, ins []string, src []string, ok bool) {
	idx := map[string]int{}
	add := func(name string, in []int, s int) {
		idx[name] = len(names)
		names = append(names, name)
		if len(in) == 0 {
			ins = append(ins, "-")
		} else {
			parts := []string{}
			for _, i := range in {
				parts = append(parts, fmt.Sprint(i))
			}
			ins = append(ins, strings.Join(parts, ","))
		}
		src = append(src, fmt.Sprint(s))
	}
	for _, n := range g.Nodes {
		switch n.Kind {
		case "src":
			add(n.Name, nil, n.Items)
		case "psrc":
			add(n.Name, nil, len(n.PVals))
		case "pcomb":
			return nil, nil, nil, false
		case "proc":
			in := []int{}
			for _, u := range n.Ins {
				in = append(in, idx[baseName(u)])
			}
			if n.PIn == "@" {
				add(n.Name+"@feeder", nil, len(n.PVals))
				in = append(in, idx[n.Name+"@feeder"])
			} else if n.PIn != "" {
				in = append(in, idx[n.PIn])
			}
			add(n.Name, in, 1) // a process without any port runs exactly once
		}
	}
	return names, ins, src, true
}

func parseNetFinal(resp string) (term []bool, c []int, ok bool) {
	for _, kv := range strings.Split(resp, ";") {
		bits := strings.SplitN(kv, "=", 2)
		if len(bits) != 2 {
			return nil, nil, false
		}
		switch bits[0] {
		case "term":
			for _, x := range strings.Split(bits[1], ",") {
				term = append(term, x == "1")
			}
		case "c":
			for _, x := range strings.Split(bits[1], ",") {
				var k int
				fmt.Sscanf(x, "%d", &k)
				c = append(c, k)
			}
		}
	}
	return term, c, len(term) > 0 && len(term) == len(c)
}

// netVerdict compares the real run with the network counting model (Props/C05's theorems are about this
// model). A channel of capacity B holds B items, and a reader that waits for its other in-port holds one
// more in hand, so the real system lies between the model with B and with B+1: if the model with B
// terminates the real run must; when both terminate every process has executed exactly the model's number
// of tasks. (A stuck process of the model need not stop the real Run: see below.)
func netVerdict(ctx *Ctx, c c05Case, rr *RunRes) {
	if c.Buf < 1 {
		return
	}
	names, ins, src, ok := netEncode(c.Dag)
	if !ok {
		ctx.Res.Count("net-model=not-covered")
		return
	}
	lo := ctx.Drv.Ask("net.final", fmt.Sprint(len(names)), strings.Join(ins, ";"), strings.Join(src, ","), fmt.Sprint(c.Buf))
	hi := ctx.Drv.Ask("net.final", fmt.Sprint(len(names)), strings.Join(ins, ";"), strings.Join(src, ","), fmt.Sprint(c.Buf+1))
	tlo, clo, ok1 := parseNetFinal(lo)
	thi, _, ok2 := parseNetFinal(hi)
	if !ok1 || !ok2 {
		ctx.Res.Disagree(Violation{What: "network model gave no verdict: " + lo, Class: "c05.net", Witness: c})
		return
	}
	all := func(t []bool) bool {
		for _, x := range t {
			if !x {
				return false
			}
		}
		return true
	}
	realDeadlock := rr.Exit == -2 || strings.Contains(rr.Stderr, "all goroutines are asleep")
	realOK := rr.Exit == 0 && rr.Returned
	switch {
	case all(tlo):
		ctx.Res.Count("net-model=terminates")
	case !all(thi):
		ctx.Res.Count("net-model=deadlocks")
	default:
		ctx.Res.Count("net-model=boundary")
	}
	if all(tlo) && realDeadlock {
		ctx.Res.Disagree(Violation{What: fmt.Sprintf("the network model (B=%d) runs to completion, the real workflow deadlocked", c.Buf), Class: "c05.net", Witness: c})
	}
	if !all(thi) && realOK {
		// not a disagreement: Run returns when the driver and the sink are done; a process blocked for ever on
		// an abandoned port (F20) is then simply left behind as a sleeping goroutine
		ctx.Res.Count("net-model=stuck-process-but-run-returned")
	}
	if all(tlo) && realOK {
		started := map[string]int{}
		for _, e := range rr.Trace {
			if e.Point == "exec.start" {
				started[e.Args[0]]++
			}
		}
		for i, nm := range names {
			if nd := c.Dag.node(nm); nd != nil && nd.Kind == "proc" && started[nm] != clo[i] {
				ctx.Res.Disagree(Violation{What: fmt.Sprintf("process %s executed %d tasks, the network model creates %d", nm, started[nm], clo[i]), Class: "c05.net", Witness: c})
			}
		}
		if c.Dag.balanced() {
			opAcceptance(ctx, c, rr, names, ins, src, true)
		}
	}
	if realOK && !c.Dag.balanced() {
		// unbalanced streams: processes may be left behind blocked, so only the operations that did happen are
		// replayed (no returns): each must be enabled in the model in per-goroutine order
		opAcceptance(ctx, c, rr, names, ins, src, false)
	}
}

// opAcceptance: the channel operations the real run performed (hooks after every send and receive, task
// acceptance and head-of-queue dequeue), taken per goroutine in program order, must be a run of the Lean model at
// the granularity of channel operations (Model/NetFine.lean) that ends with every process returned. The model's
// theorems quantify over all interleavings, so only the per-goroutine order is taken from the trace.
func opAcceptance(ctx *Ctx, c c05Case, rr *RunRes, names, ins, src []string, complete bool) {
	idx := map[string]int{}
	for i, nm := range names {
		idx[nm] = i
	}
	// port name -> position of the in-port in the model's `ins` (netEncode: file in-ports first, then the parameter port)
	portIdx := map[string]map[string]int{}
	nIn := map[string]int{}
	for _, n := range c.Dag.Nodes {
		if n.Kind != "proc" {
			continue
		}
		m := map[string]int{}
		for i := range n.Ins {
			m[fmt.Sprintf("in%d", i)] = i
		}
		if n.PIn != "" {
			m["p"] = len(n.Ins)
		}
		portIdx[n.Name] = m
		nIn[n.Name] = len(m)
	}
	nconn := map[int]int{} // connections fed by each node
	for _, l := range ins {
		if l == "-" {
			continue
		}
		for _, u := range strings.Split(l, ",") {
			var ui int
			fmt.Sscan(u, &ui)
			nconn[ui]++
		}
	}
	reader := map[string][]string{} // per process: recv ..., create, ...
	fwd := map[string][]string{}    // per process / source: send ..., forward, ...
	round := map[string]int{}
	open := map[string]bool{}   // a dequeued task whose outputs are being sent
	sendsOpen := map[string]int{} // ... and how many of its sends have completed
	sentTo := map[string]map[string]bool{}
	procOf := func(port string) string {
		if i := strings.LastIndex(port, "."); i >= 0 {
			return port[:i]
		}
		return port
	}
	for _, e := range rr.Trace {
		switch e.Point {
		case "ch.recv":
			v := e.Args[0]
			m, ok := portIdx[v]
			if !ok {
				continue // sink, components outside the model
			}
			pi, ok := m[e.Args[1]]
			if !ok {
				continue
			}
			reader[v] = append(reader[v], fmt.Sprintf("r:%d:%d", idx[v], pi))
			round[v]++
			if round[v] == nIn[v] {
				reader[v] = append(reader[v], fmt.Sprintf("c:%d", idx[v]))
				round[v] = 0
			}
		case "proc.accept":
			v := e.Args[0]
			if _, ok := idx[v]; ok && nIn[v] == 0 {
				reader[v] = append(reader[v], fmt.Sprintf("c:%d", idx[v])) // a process without in-ports: one task
			}
		case "proc.headdone":
			v := e.Args[0]
			if _, ok := idx[v]; !ok {
				continue
			}
			if open[v] {
				fwd[v] = append(fwd[v], fmt.Sprintf("f:%d", idx[v]))
			}
			open[v] = true
			sendsOpen[v] = 0
		case "ch.sent":
			sp, rp := e.Args[0], e.Args[1]
			v := procOf(sp)
			if strings.HasSuffix(sp, ".string_feeder") {
				v += "@feeder"
			}
			vi, ok := idx[v]
			w := procOf(rp)
			wi, ok2 := idx[w]
			pi, ok3 := portIdx[w][strings.TrimPrefix(rp, w+".")]
			if !ok || !ok2 || !ok3 {
				continue // to the sink, or from a component outside the model
			}
			conn := fmt.Sprintf("%d:%d", wi, pi)
			if nd := c.Dag.node(v); nd == nil || nd.Kind != "proc" {
				// a source: every item is created, sent on each connection, forwarded
				if sentTo[v] == nil || sentTo[v][conn] || len(sentTo[v]) == nconn[vi] {
					if sentTo[v] != nil {
						fwd[v] = append(fwd[v], fmt.Sprintf("f:%d", vi))
					}
					sentTo[v] = map[string]bool{}
					fwd[v] = append(fwd[v], fmt.Sprintf("c:%d", vi))
				}
				sentTo[v][conn] = true
			}
			fwd[v] = append(fwd[v], "s:"+conn)
			sendsOpen[v]++
		}
	}
	threads := []string{}
	for i, nm := range names {
		nd := c.Dag.node(nm)
		if nd != nil && nd.Kind == "proc" {
			if open[nm] && (complete || sendsOpen[nm] == nconn[i]) {
				fwd[nm] = append(fwd[nm], fmt.Sprintf("f:%d", i))
			}
			if complete {
				reader[nm] = append(reader[nm], fmt.Sprintf("t:%d", i))
			}
			threads = append(threads, strings.Join(reader[nm], ","), strings.Join(fwd[nm], ","))
			continue
		}
		// sources
		if sentTo[nm] != nil && (complete || len(sentTo[nm]) == nconn[i]) {
			fwd[nm] = append(fwd[nm], fmt.Sprintf("f:%d", i))
		} else if nconn[i] == 0 && complete {
			var k int
			fmt.Sscan(src[i], &k)
			for j := 0; j < k; j++ {
				fwd[nm] = append(fwd[nm], fmt.Sprintf("c:%d", i), fmt.Sprintf("f:%d", i))
			}
		}
		if complete {
			fwd[nm] = append(fwd[nm], fmt.Sprintf("t:%d", i))
		}
		threads = append(threads, strings.Join(fwd[nm], ","))
	}
	resp := ctx.Drv.Ask("fine.accept", fmt.Sprint(len(names)), strings.Join(ins, ";"), strings.Join(src, ","), fmt.Sprint(c.Buf), strings.Join(threads, ";"))
	if !complete {
		ctx.Res.Count("channel-ops=checked(unbalanced, operations only)")
		if !strings.HasPrefix(resp, "accepted ") {
			ctx.Res.Disagree(Violation{What: fmt.Sprintf("the channel operations of the real (unbalanced) run are not a run of the channel-operation model: %s (threads %v)", resp, threads), Class: "c05.ops", Witness: c})
		}
		return
	}
	ctx.Res.Count("channel-ops=checked")
	if !strings.HasPrefix(resp, "accepted ") || strings.Contains(strings.SplitN(resp, "term=", 2)[1][:2*len(names)-1], "0") {
		ctx.Res.Disagree(Violation{What: fmt.Sprintf("the channel operations of the real run are not a complete run of the channel-operation model: %s (threads %v)", resp, threads), Class: "c05.ops", Witness: c})
	}
}
