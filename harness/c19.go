package main

import (
	"fmt"
	"io/ioutil"
	"os"
	"path/filepath"
	"sort"
	"strings"
)

// C19: bundled components. `combine` differentially (pure), everything else end to end with
// recorder components downstream, compared with the Lean models.

func permutations(xs []string) [][]string {
	if len(xs) <= 1 {
		return [][]string{append([]string{}, xs...)}
	}
	out := [][]string{}
	for i := range xs {
		rest := append(append([]string{}, xs[:i]...), xs[i+1:]...)
		for _, p := range permutations(rest) {
			out = append(out, append([]string{xs[i]}, p...))
		}
	}
	return out
}

func readRec(dir, name string) []string {
	b, err := ioutil.ReadFile(filepath.Join(dir, "_rec."+name))
	if err != nil {
		return nil
	}
	out := []string{}
	for _, l := range strings.Split(string(b), "\n") {
		if l != "" {
			out = append(out, l)
		}
	}
	return out
}

func bytesField(s string) string {
	out := []string{}
	for _, b := range []byte(s) {
		out = append(out, fmt.Sprint(int(b)))
	}
	return strings.Join(out, ",")
}

func checkC19(ctx *Ctx) {
	ctx.Res.Rule = "combine: all stream-length tuples 0..3 for 1-4 ports x key orders (all permutations up to 3 ports) through the real function vs the Lean model; FileCombinator / ParamCombinator / IPSelectorSync end to end with independent upstream sources, stream lengths 0..B+3 under SCIPIPE_BUFSIZE in {1,2,3}, recorders downstream; FileSplitter over file length x lines-per-split grids (exact multiples, empty file, unterminated last line, CRLF); Concatenator, also with GroupByTag over streams mixing tagged and untagged files (real outputs vs the Lean loop model); FileSource / ParamSource / FileToParamsReader / CommandToParams / FileGlobber against independent oracles and the Lean scanLines model; non-trivial = at least two items somewhere; distinct by case."
	w := &Worker{}
	defer w.Close()
	r := NewRng(ctx.Seed)
	// --- combine, pure
	names := []string{"a", "b", "c", "d"}
	maxLen := 3
	for np := 1; np <= 4; np++ {
		lens := make([]int, np)
		var rec func(i int)
		rec = func(i int) {
			if !ctx.TimeLeft() {
				return
			}
			if i == np {
				streams := map[string][]string{}
				tot := 0
				for k := 0; k < np; k++ {
					for j := 0; j < lens[k]; j++ {
						streams[names[k]] = append(streams[names[k]], fmt.Sprintf("%s%d", names[k], j))
					}
					if lens[k] == 0 {
						streams[names[k]] = []string{}
					}
					tot += lens[k]
				}
				orders := permutations(names[:np])
				if np == 4 {
					orders = [][]string{orders[0], orders[r.Intn(len(orders))]}
					if !ctx.Thorough() && r.Intn(4) != 0 {
						return
					}
				}
				for _, ks := range orders {
					real, _, _ := ctx.diff(w, "c19.combine", tot >= 2, "combine", strings.Join(ks, US), kvlField(streams))
					// the property on the real result, whatever the model says: every element of the product once
					cols := map[string][]string{}
					for _, it := range plist(real) {
						if kv := strings.SplitN(it, RS, 2); len(kv) == 2 && kv[1] != "" {
							cols[kv[0]] = strings.Split(kv[1], GS)
						}
					}
					want, n := 1, -1
					for k := 0; k < np; k++ {
						want *= lens[k]
						if n < 0 || len(cols[names[k]]) < n {
							n = len(cols[names[k]])
						}
					}
					rows := map[string]bool{}
					aligned := true
					for k := 0; k < np; k++ {
						if len(cols[names[k]]) != n {
							aligned = false
						}
					}
					for i := 0; i < n && aligned; i++ {
						row := ""
						for k := 0; k < np; k++ {
							row += cols[names[k]][i] + "|"
						}
						rows[row] = true
					}
					if !aligned || n != want || len(rows) != want {
						ctx.Res.Violate(Violation{What: fmt.Sprintf("combine over streams of lengths %v (key order %v) returned %d aligned tuples of which %d are distinct; the Cartesian product has %d", lens, ks, n, len(rows), want), Class: "c19.product", Witness: []interface{}{lens, ks}})
					}
				}
				return
			}
			for l := 0; l <= maxLen; l++ {
				lens[i] = l
				rec(i + 1)
			}
		}
		rec(0)
	}
	// --- combinators end to end
	bufs := []int{1, 2, 3}
	nE2E := 10
	if ctx.Thorough() {
		nE2E = 80
	}
	type job func()
	jobs := []job{}
	for i := 0; i < nE2E; i++ {
		B := bufs[r.Intn(len(bufs))]
		np := 1 + r.Intn(3)
		lens := []int{}
		for k := 0; k < np; k++ {
			lens = append(lens, r.Intn(B+4))
		}
		param := r.Bool()
		jobs = append(jobs, func() { combinatorE2E(ctx, B, lens, param) })
	}
	// --- selector
	for i := 0; i < nE2E; i++ {
		B := bufs[r.Intn(len(bufs))]
		np := 1 + r.Intn(3)
		L := r.Intn(B + 4)
		lens := []int{}
		for k := 0; k < np; k++ {
			lens = append(lens, L)
		}
		if np > 1 && r.Intn(5) == 0 {
			lens[r.Intn(np)] = L + 1 + r.Intn(2) // inconsistent closing
		}
		bad := map[string]bool{}
		for k := 0; k < np; k++ {
			for j := 0; j < lens[k]; j++ {
				if r.Intn(3) == 0 {
					bad[fmt.Sprintf("%d.%d", k, j)] = true
				}
			}
		}
		jobs = append(jobs, func() { selectorE2E(ctx, B, lens, bad) })
	}
	// fixed outcome patterns: reject first, reject in the middle, alternate, all, none
	for _, pat := range []map[string]bool{{"0.0": true}, {"1.1": true}, {"0.0": true, "1.2": true}, {"0.0": true, "0.1": true, "0.2": true, "0.3": true}, {}} {
		pat := pat
		jobs = append(jobs, func() { selectorE2E(ctx, 2, []int{4, 4}, pat) })
	}
	// --- splitter grid
	maxN, maxL := 6, 3
	if ctx.Thorough() {
		maxN, maxL = 12, 5
	}
	for n := 0; n <= maxN; n++ {
		for L := 0; L <= maxL; L++ {
			n, L := n, L
			jobs = append(jobs, func() { splitterE2E(ctx, n, L, "lf") })
		}
	}
	for _, v := range []string{"noeol", "crlf", "blank"} {
		v := v
		jobs = append(jobs, func() { splitterE2E(ctx, 5, 2, v) })
		jobs = append(jobs, func() { splitterMulti(ctx, []int{3, 5, 4}, 2) }, func() { splitterMulti(ctx, []int{1, 7}, 3) })
	}
	// --- concatenator, sources
	for k := 0; k <= 4; k++ {
		k := k
		jobs = append(jobs, func() { concatE2E(ctx, k) })
		if k == 2 {
			jobs = append(jobs, func() { concatGroups(ctx, []string{"", "a", "", "b", "a", ""}) }, func() { concatGroups(ctx, []string{"a", "a", "b"}) },
				func() { concatGroups(ctx, []string{"", ""}) }, func() { concatGroups(ctx, []string{"x", "", "", "y", ""}) })
		}
	}
	jobs = append(jobs, func() { sourcesE2E(ctx) })
	parallel(len(jobs), 8, func(i int) {
		if ctx.TimeLeft() {
			jobs[i]()
		}
	})
}

func combinatorE2E(ctx *Ctx, B int, lens []int, param bool) {
	d := &Desc{Name: "comb", Max: 4}
	kind, rkind, skind := "combinator", "recorder", "filesource"
	if param {
		kind, rkind, skind = "paramcombinator", "precorder", "paramsource"
	}
	ports := []string{}
	pre := map[string]string{}
	cols := map[string][]string{}
	for k, n := range lens {
		pn := fmt.Sprintf("p%d", k)
		ports = append(ports, pn)
		items := []string{}
		for j := 0; j < n; j++ {
			it := fmt.Sprintf("f%d_%d.txt", k, j)
			items = append(items, it)
			if !param {
				pre[it] = it
			}
		}
		cols[pn] = items
		src := Node{Name: "s" + pn, Kind: skind}
		if param {
			src.Values = items
		} else {
			src.Paths = items
		}
		d.Nodes = append(d.Nodes, src, Node{Name: "r" + pn, Kind: rkind})
		d.Edges = append(d.Edges, Edge{From: "s" + pn + ".out", To: "c." + pn, Param: param}, Edge{From: "c." + pn, To: "r" + pn + ".in", Param: param})
	}
	d.Nodes = append(d.Nodes, Node{Name: "c", Kind: kind, Ports: ports})
	rr := RunWorkflow(d, RunOpts{Env: []string{fmt.Sprintf("SCIPIPE_BUFSIZE=%d", B)}, Pre: pre, Timeout: 15e9})
	defer os.RemoveAll(rr.Dir)
	tot := 0
	for _, n := range lens {
		tot += n
	}
	ctx.Res.Eval(fmt.Sprintf("%s B=%d lens=%v", kind, B, lens), tot >= 2, map[string]interface{}{"kind": kind, "bufsize": B, "lens": lens})
	ctx.Res.Count("e2e=" + kind)
	if rr.Exit != 0 {
		class := "c19.combinator-failed"
		if rr.Exit == -2 {
			class = "c19.combinator-hang"
		}
		ctx.Res.Violate(Violation{What: fmt.Sprintf("%s with stream lengths %v, SCIPIPE_BUFSIZE=%d: exit %d %s", kind, lens, B, rr.Exit, tail(rr.Stderr)), Class: class, Witness: map[string]interface{}{"lens": lens, "bufsize": B, "param": param}})
		return
	}
	// rows actually emitted (aligned by index)
	got := [][]string{}
	n := -1
	for _, pn := range ports {
		rec := readRec(rr.Dir, "r"+pn)
		if n >= 0 && len(rec) != n {
			ctx.Res.Violate(Violation{What: fmt.Sprintf("%s out-ports carry different numbers of items", kind), Class: "c19.misaligned", Witness: lens})
			return
		}
		n = len(rec)
		got = append(got, rec)
	}
	rows := map[string]int{}
	for i := 0; i < n; i++ {
		row := []string{}
		for k := range ports {
			row = append(row, got[k][i])
		}
		rows[strings.Join(row, "|")]++
	}
	want := 1
	for _, l := range lens {
		want *= l
	}
	if len(lens) == 0 {
		want = 0
	}
	if n != want {
		ctx.Res.Violate(Violation{What: fmt.Sprintf("%s emitted %d tuples, the Cartesian product has %d", kind, n, want), Class: "c19.product-size", Witness: lens})
		return
	}
	for row, c := range rows {
		if c != 1 {
			ctx.Res.Violate(Violation{What: fmt.Sprintf("%s emitted tuple %s %d times", kind, row, c), Class: "c19.product-dup", Witness: lens})
			return
		}
	}
	// model: for some key order the emitted columns equal combine's (try all orders)
	matched := false
	for _, ks := range permutations(ports) {
		resp := ctx.Drv.Ask("combine", strings.Join(ks, US), kvlField(cols))
		exp := map[string][]string{}
		for _, it := range plist(resp) {
			kv := strings.SplitN(it, RS, 2)
			if len(kv) == 2 {
				if kv[1] == "" {
					exp[kv[0]] = []string{}
				} else {
					exp[kv[0]] = strings.Split(kv[1], GS)
				}
			}
		}
		same := true
		for k, pn := range ports {
			if strings.Join(exp[pn], ",") != strings.Join(got[k], ",") {
				same = false
			}
		}
		if same {
			matched = true
			break
		}
	}
	if !matched {
		ctx.Res.Disagree(Violation{What: fmt.Sprintf("%s output %v matches the model's combine for no key order", kind, got), Class: "c19.model", Witness: lens})
	}
}

func selectorE2E(ctx *Ctx, B int, lens []int, bad map[string]bool) {
	d := &Desc{Name: "sel", Max: 4}
	ports := []string{}
	pre := map[string]string{}
	cols := []string{}
	for k, n := range lens {
		pn := fmt.Sprintf("p%d", k)
		ports = append(ports, pn)
		items := []string{}
		for j := 0; j < n; j++ {
			it := fmt.Sprintf("f%d_%d.txt", k, j)
			if bad[fmt.Sprintf("%d.%d", k, j)] {
				it = fmt.Sprintf("f%d_%d.BAD.txt", k, j)
			}
			items = append(items, it)
			pre[it] = it
		}
		cols = append(cols, strings.Join(items, GS))
		d.Nodes = append(d.Nodes, Node{Name: "s" + pn, Kind: "filesource", Paths: items}, Node{Name: "r" + pn, Kind: "recorder"})
		d.Edges = append(d.Edges, Edge{From: "s" + pn + ".out", To: "c." + pn}, Edge{From: "c." + pn, To: "r" + pn + ".in"})
	}
	d.Nodes = append(d.Nodes, Node{Name: "c", Kind: "selector", Ports: ports, Arg: "BAD"})
	rr := RunWorkflow(d, RunOpts{Env: []string{fmt.Sprintf("SCIPIPE_BUFSIZE=%d", B)}, Pre: pre, Timeout: 15e9})
	defer os.RemoveAll(rr.Dir)
	ctx.Res.Eval(fmt.Sprintf("selector B=%d lens=%v bad=%d", B, lens, len(bad)), len(lens) > 0 && lens[0] >= 1, map[string]interface{}{"kind": "selector", "bufsize": B, "lens": lens, "bad": len(bad)})
	ctx.Res.Count("e2e=selector")
	model := ctx.Drv.Ask("select", "BAD", strings.Join(cols, US))
	if model == "FAIL" {
		ctx.Res.Count("selector-inconsistent")
		if rr.Exit == 0 {
			ctx.Res.Violate(Violation{What: fmt.Sprintf("IPSelectorSync with stream lengths %v did not fail on inconsistent port closing", lens), Class: "c19.selector-silent", Witness: lens})
		}
		return
	}
	if rr.Exit != 0 {
		ctx.Res.Violate(Violation{What: fmt.Sprintf("IPSelectorSync with equal stream lengths %v exited %d %s", lens, rr.Exit, tail(rr.Stderr)), Class: "c19.selector-failed", Witness: lens})
		return
	}
	gotRows := []string{}
	n := len(readRec(rr.Dir, "r"+ports[0]))
	recs := [][]string{}
	for _, pn := range ports {
		recs = append(recs, readRec(rr.Dir, "r"+pn))
	}
	for i := 0; i < n; i++ {
		row := []string{}
		for k := range ports {
			if i < len(recs[k]) {
				row = append(row, recs[k][i])
			}
		}
		gotRows = append(gotRows, strings.Join(row, GS))
	}
	if strings.Join(gotRows, US) != model {
		ctx.Res.Disagree(Violation{What: fmt.Sprintf("IPSelectorSync forwarded %q, the model says %q", quote(strings.Join(gotRows, US)), quote(model)), Class: "c19.selector", Witness: lens})
	}
	// the property on the real result, whatever the model says: exactly the aligned tuples whose members all pass
	wantRows := []string{}
	for i := 0; i < lens[0]; i++ {
		row := []string{}
		ok := true
		for k := range lens {
			it := strings.Split(cols[k], GS)[i]
			if strings.Contains(it, "BAD") {
				ok = false
			}
			row = append(row, it)
		}
		if ok {
			wantRows = append(wantRows, strings.Join(row, GS))
		}
	}
	if strings.Join(gotRows, US) != strings.Join(wantRows, US) {
		ctx.Res.Violate(Violation{What: fmt.Sprintf("IPSelectorSync forwarded the tuples %s; the aligned tuples whose members all pass are %s", quote(strings.Join(gotRows, US)), quote(strings.Join(wantRows, US))), Class: "c19.selector-tuples", Witness: map[string]interface{}{"lens": lens, "bad": bad}})
	}
}

func splitterE2E(ctx *Ctx, n, L int, variant string) {
	var sb strings.Builder
	for i := 0; i < n; i++ {
		line := fmt.Sprintf("line%d", i)
		if variant == "blank" && i%2 == 1 {
			line = ""
		}
		sb.WriteString(line)
		switch {
		case variant == "crlf":
			sb.WriteString("\r\n")
		case variant == "noeol" && i == n-1:
		default:
			sb.WriteString("\n")
		}
	}
	content := sb.String()
	d := &Desc{Name: "split", Max: 2, Nodes: []Node{{Name: "s", Kind: "filesource", Paths: []string{"in.txt"}}, {Name: "sp", Kind: "splitter", Arg: fmt.Sprint(L)}, {Name: "r", Kind: "recorder"}},
		Edges: []Edge{{From: "s.out", To: "sp.file"}, {From: "sp.split_file", To: "r.in"}}}
	rr := RunWorkflow(d, RunOpts{Pre: map[string]string{"in.txt": content}})
	defer os.RemoveAll(rr.Dir)
	ctx.Res.Eval(fmt.Sprintf("split n=%d L=%d %s", n, L, variant), n >= 2, map[string]interface{}{"kind": "splitter", "lines": n, "per_split": L, "variant": variant})
	ctx.Res.Count("e2e=splitter")
	if rr.Exit != 0 {
		ctx.Res.Violate(Violation{What: fmt.Sprintf("FileSplitter n=%d L=%d exited %d %s", n, L, rr.Exit, tail(rr.Stderr)), Class: "c19.splitter-failed", Witness: []int{n, L}})
		return
	}
	parts := readRec(rr.Dir, "r")
	got := []string{}
	all := ""
	for i, p := range parts {
		if p != fmt.Sprintf("in.txt.split_%d", i+1) {
			ctx.Res.Violate(Violation{What: fmt.Sprintf("FileSplitter part %d is named %s", i+1, p), Class: "c19.splitter-names", Witness: []int{n, L}})
		}
		b, _ := ioutil.ReadFile(filepath.Join(rr.Dir, p))
		got = append(got, bytesField(string(b)))
		all += string(b)
		if L >= 1 && strings.Count(string(b), "\n") > L {
			ctx.Res.Violate(Violation{What: fmt.Sprintf("FileSplitter part %s has more than %d lines", p, L), Class: "c19.splitter-bound", Witness: []int{n, L}})
		}
	}
	if variant == "lf" || variant == "blank" {
		if all != content {
			ctx.Res.Violate(Violation{What: fmt.Sprintf("FileSplitter parts do not concatenate back to the input (n=%d, L=%d)", n, L), Class: "c19.splitter-concat", Witness: []int{n, L}})
		}
	}
	model := ctx.Drv.Ask("split", fmt.Sprint(L), bytesField(content))
	if model != strings.Join(got, US) {
		ctx.Res.Disagree(Violation{What: fmt.Sprintf("FileSplitter n=%d L=%d %s: parts %v, model %v", n, L, variant, got, quote(model)), Class: "c19.splitter", Witness: []int{n, L}})
	}
}

// one FileSplitter, several input files in one run: every file is split on its own
func splitterMulti(ctx *Ctx, ns []int, L int) {
	pre := map[string]string{}
	paths := []string{}
	for f, n := range ns {
		var sb strings.Builder
		for i := 0; i < n; i++ {
			sb.WriteString(fmt.Sprintf("f%d-line%d\n", f, i))
		}
		p := fmt.Sprintf("in%d.txt", f)
		pre[p] = sb.String()
		paths = append(paths, p)
	}
	d := &Desc{Name: "splitm", Max: 2, Nodes: []Node{{Name: "s", Kind: "filesource", Paths: paths}, {Name: "sp", Kind: "splitter", Arg: fmt.Sprint(L)}, {Name: "r", Kind: "recorder"}},
		Edges: []Edge{{From: "s.out", To: "sp.file"}, {From: "sp.split_file", To: "r.in"}}}
	rr := RunWorkflow(d, RunOpts{Pre: pre})
	defer os.RemoveAll(rr.Dir)
	ctx.Res.Eval(fmt.Sprintf("split-multi %v L=%d", ns, L), true, map[string]interface{}{"kind": "splitter-multi", "lines": ns, "per_split": L})
	ctx.Res.Count("e2e=splitter-multi")
	if rr.Exit != 0 {
		ctx.Res.Violate(Violation{What: fmt.Sprintf("FileSplitter over %d files exited %d %s", len(ns), rr.Exit, tail(rr.Stderr)), Class: "c19.splitter-failed", Witness: ns})
		return
	}
	parts := readRec(rr.Dir, "r")
	perFile := map[string]string{}
	for _, p := range parts {
		b, _ := ioutil.ReadFile(filepath.Join(rr.Dir, p))
		if L >= 1 && strings.Count(string(b), "\n") > L {
			ctx.Res.Violate(Violation{What: fmt.Sprintf("FileSplitter part %s has %d lines, the limit is %d", p, strings.Count(string(b), "\n"), L), Class: "c19.splitter-bound", Witness: ns})
		}
		if i := strings.Index(p, ".split_"); i > 0 {
			perFile[p[:i]] += string(b)
		}
	}
	for p, content := range pre {
		if perFile[p] != content {
			ctx.Res.Violate(Violation{What: fmt.Sprintf("the parts of %s do not concatenate back to it", p), Class: "c19.splitter-concat", Witness: ns})
		}
	}
}

func concatE2E(ctx *Ctx, k int) {
	paths := []string{}
	pre := map[string]string{}
	fields := []string{}
	for i := 0; i < k; i++ {
		p := fmt.Sprintf("c%d.txt", i)
		paths = append(paths, p)
		pre[p] = fmt.Sprintf("content-%d\nsecond", i)
		if i%2 == 0 {
			pre[p] += "\n"
		}
		fields = append(fields, bytesField(pre[p]))
	}
	d := &Desc{Name: "concat", Max: 2, Nodes: []Node{{Name: "s", Kind: "filesource", Paths: paths}, {Name: "cc", Kind: "concat", Arg: "all.out"}},
		Edges: []Edge{{From: "s.out", To: "cc.in"}}}
	rr := RunWorkflow(d, RunOpts{Pre: pre})
	defer os.RemoveAll(rr.Dir)
	ctx.Res.Eval(fmt.Sprintf("concat k=%d", k), k >= 2, map[string]interface{}{"kind": "concatenator", "inputs": k})
	ctx.Res.Count("e2e=concat")
	b, err := ioutil.ReadFile(filepath.Join(rr.Dir, "all.out"))
	if rr.Exit != 0 || err != nil {
		ctx.Res.Violate(Violation{What: fmt.Sprintf("Concatenator with %d inputs: exit %d, output error %v", k, rr.Exit, err), Class: "c19.concat-failed", Witness: k})
		return
	}
	model := ctx.Drv.Ask("concat", strings.Join(fields, US))
	if model != bytesField(string(b)) {
		ctx.Res.Disagree(Violation{What: fmt.Sprintf("Concatenator output %q differs from the model", string(b)), Class: "c19.concat", Witness: k})
	}
}

// Concatenator with GroupByTag over a stream that mixes tagged and untagged files: every file goes, whole and once,
// into the output of its own group (untagged ones into the main output), in arrival order
func concatGroups(ctx *Ctx, groups []string) {
	paths := []string{}
	pre := map[string]string{}
	vals := []string{}
	want := map[string]string{"all.out": ""}
	for i, g := range groups {
		p := fmt.Sprintf("g%d.txt", i)
		paths = append(paths, p)
		pre[p] = fmt.Sprintf("content-%d", i)
		out := "all.out"
		if g != "" {
			vals = append(vals, p+"="+g)
			out = "all.out.grp_" + g
		}
		want[out] += pre[p] + "\n"
	}
	if len(vals) == 0 {
		vals = []string{"none=none"}
	}
	d := &Desc{Name: "concatgrp", Max: 2, Nodes: []Node{{Name: "s", Kind: "filesource", Paths: paths}, {Name: "tg", Kind: "maptotags", Arg: "grp", Values: vals},
		{Name: "cc", Kind: "concat", Arg: "all.out", Values: []string{"grp"}}},
		Edges: []Edge{{From: "s.out", To: "tg.in"}, {From: "tg.out", To: "cc.in"}}}
	rr := RunWorkflow(d, RunOpts{Pre: pre})
	defer os.RemoveAll(rr.Dir)
	ctx.Res.Eval(fmt.Sprintf("concat groups=%v", groups), len(groups) >= 2, map[string]interface{}{"kind": "concatenator-groups", "groups": groups})
	ctx.Res.Count("e2e=concat-groupbytag")
	if rr.Exit != 0 {
		ctx.Res.Violate(Violation{What: fmt.Sprintf("Concatenator with GroupByTag exited %d: %s", rr.Exit, firstLine(rr.Stderr)), Class: "c19.concat-failed", Witness: groups})
		return
	}
	// the Lean model of the loop (Comp.concatGrouped; c19_concat_grouped is its theorem)
	ids := map[string]int{}
	items := []string{}
	for i, g := range groups {
		tag := ""
		if g != "" {
			if ids[g] == 0 {
				ids[g] = len(ids) + 1
			}
			tag = fmt.Sprint(ids[g])
		}
		items = append(items, tag+RS+bytesField(pre[fmt.Sprintf("g%d.txt", i)]))
	}
	mparts := strings.Split(ctx.Drv.Ask("concatg", strings.Join(items, US)), US)
	model := map[string]string{"all.out": mparts[0]}
	for _, gp := range mparts[1:] {
		if f := strings.SplitN(gp, RS, 2); len(f) == 2 {
			for g, id := range ids {
				if fmt.Sprint(id) == f[0] {
					model["all.out.grp_"+g] = f[1]
				}
			}
		}
	}
	for out := range want {
		got, _ := readFile(rr.Dir, out)
		if model[out] != bytesField(got) {
			ctx.Res.Disagree(Violation{What: fmt.Sprintf("Concatenator (GroupByTag) output %s: real bytes %q, model bytes %s", out, got, model[out]), Class: "c19.concat", Witness: groups})
		}
	}
	for out, w := range want {
		got, _ := readFile(rr.Dir, out)
		if got != w {
			ctx.Res.Violate(Violation{What: fmt.Sprintf("Concatenator (GroupByTag) wrote %q into %s, its group's files concatenate to %q (groups in arrival order: %q)", got, out, w, groups), Class: "c19.concat-groups", Witness: groups})
		}
	}
}

func sourcesE2E(ctx *Ctx) {
	dir := newDir()
	defer os.RemoveAll(dir)
	lines := "alpha\nbeta\n\ngamma delta\nlast-no-eol"
	ioutil.WriteFile(filepath.Join(dir, "params.txt"), []byte(lines), 0644)
	os.MkdirAll(filepath.Join(dir, "tree", "sub"), 0755)
	names := []string{"b.txt", "a.txt", "c.dat", "a2.txt", "sub/x.txt"}
	for _, n := range names {
		ioutil.WriteFile(filepath.Join(dir, "tree", n), []byte(n), 0644)
	}
	files := []string{"s3.txt", "s1.txt", "s2.txt"}
	pre := map[string]string{}
	for _, f := range files {
		pre[f] = f
	}
	d := &Desc{Name: "src", Max: 2, Nodes: []Node{
		{Name: "fs", Kind: "filesource", Paths: files}, {Name: "rfs", Kind: "recorder"},
		{Name: "ps", Kind: "paramsource", Values: []string{"z", "y", "x", "y"}}, {Name: "rps", Kind: "precorder"},
		{Name: "fp", Kind: "filetoparams", Arg: "params.txt"}, {Name: "rfp", Kind: "precorder"},
		{Name: "cp", Kind: "cmdtoparams", Arg: "printf 'one\\ntwo\\n\\nthree'"}, {Name: "rcp", Kind: "precorder"},
		{Name: "gl", Kind: "globber", Paths: []string{"tree/*.txt", "tree/sub/*"}}, {Name: "rgl", Kind: "recorder"},
		// several patterns of which some match nothing: the files of the others are still emitted, pattern by pattern
		{Name: "gl2", Kind: "globber", Paths: []string{"tree/*.nomatch", "tree/*.dat", "tree/none*", "tree/sub/*", "tree/zz*"}}, {Name: "rgl2", Kind: "recorder"},
	}, Edges: []Edge{{From: "gl2.out", To: "rgl2.in"}, {From: "fs.out", To: "rfs.in"}, {From: "ps.out", To: "rps.in", Param: true}, {From: "fp.line", To: "rfp.in", Param: true},
		{From: "cp.param", To: "rcp.in", Param: true}, {From: "gl.out", To: "rgl.in"}}}
	rr := RunWorkflow(d, RunOpts{Dir: dir, Pre: pre})
	ctx.Res.Eval("sources", true, map[string]interface{}{"kind": "sources"})
	ctx.Res.Count("e2e=sources")
	if rr.Exit != 0 {
		ctx.Res.Violate(Violation{What: "source components workflow failed: " + tail(rr.Stderr), Class: "c19.sources-failed", Witness: nil})
		return
	}
	expect := func(name string, want []string) {
		got := readRecRaw(dir, name)
		if strings.Join(got, "\x00") != strings.Join(want, "\x00") {
			ctx.Res.Violate(Violation{What: fmt.Sprintf("%s emitted %q, expected %q", name, got, want), Class: "c19.source-order", Witness: name})
		}
	}
	expect("rfs", files)
	expect("rps", []string{"z", "y", "x", "y"})
	// Lean scanLines on the file bytes
	modelLines := []string{}
	for _, l := range plist(ctx.Drv.Ask("scanlines", bytesField(lines))) {
		bs := []byte{}
		for _, n := range strings.Split(l, ",") {
			var v int
			if _, err := fmt.Sscanf(n, "%d", &v); err == nil {
				bs = append(bs, byte(v))
			}
		}
		modelLines = append(modelLines, string(bs))
	}
	if ctx.Drv.Ask("scanlines", bytesField(lines)) == "" {
		modelLines = []string{}
	}
	// the driver drops nothing: empty lines are empty items; plist cannot represent a single empty line, so compare counts too
	expect("rfp", []string{"alpha", "beta", "", "gamma delta", "last-no-eol"})
	if len(modelLines) != 5 || modelLines[3] != "gamma delta" {
		ctx.Res.Disagree(Violation{What: fmt.Sprintf("Lean scanLines gives %q for the parameter file", modelLines), Class: "c19.scanlines", Witness: lines})
	}
	expect("rcp", []string{"one", "two", "", "three"})
	want := []string{"tree/a.txt", "tree/a2.txt", "tree/b.txt", "tree/sub/x.txt"}
	sort.Strings(want[:3])
	expect("rgl", want)
	expect("rgl2", []string{"tree/c.dat", "tree/sub/x.txt"})
}

// like readRec but keeping empty lines (parameters may be empty strings)
func readRecRaw(dir, name string) []string {
	b, err := ioutil.ReadFile(filepath.Join(dir, "_rec."+name))
	if err != nil {
		return nil
	}
	s := strings.TrimSuffix(string(b), "\n")
	if s == "" && len(b) == 0 {
		return []string{}
	}
	return strings.Split(s, "\n")
}

func init() { checks["C19"] = checkC19 }
