package main

import (
	"fmt"
	"strings"
	"io/ioutil"
	"os"
	"path/filepath"
	"sort"
)

// C02: random pre-existing subsets of outputs (arbitrary bytes), real run, re-run.

type c02Case struct {
	Chain Chain    `json:"chain"`
	Pre   []string `json:"pre"` // output paths that exist before the run, with garbage content
	Empty bool     `json:"empty,omitempty"` // ... with no content at all (zero bytes): they exist all the same
}

func runC02(ctx *Ctx, c c02Case) {
	dir := newDir()
	defer os.RemoveAll(dir)
	for _, in := range c.Chain.Inputs {
		if strings.HasPrefix(in, "../") {
			defer os.RemoveAll(filepath.Join(dir, filepath.Dir(in)))
		}
	}
	pre := c.Chain.sources()
	for i, p := range c.Pre {
		pre[p] = fmt.Sprintf("GARBAGE-%d\n", i)
		if c.Empty {
			pre[p] = ""
		}
	}
	for p, content := range pre {
		full := filepath.Join(dir, p)
		os.MkdirAll(filepath.Dir(full), 0755)
		ioutil.WriteFile(full, []byte(content), 0644)
	}
	before := map[string]statInfo{}
	for _, p := range c.Pre {
		before[p], _ = statOf(filepath.Join(dir, p))
	}
	isPre := map[string]bool{}
	for _, p := range c.Pre {
		isPre[p] = true
	}
	rr := RunWorkflow(c.Chain.desc(), RunOpts{Dir: dir})
	key := fmt.Sprintf("%v", c)
	ctx.Res.Eval(key, len(c.Pre) > 0, c)
	ctx.Res.Count(fmt.Sprintf("pre=%d", len(c.Pre)))
	ctx.Res.Count(fmt.Sprintf("depth=%d", len(c.Chain.Levels)))
	if rr.Exit != 0 || !rr.Returned {
		ctx.Res.Violate(Violation{What: fmt.Sprintf("workflow with pre-existing outputs exited %d (returned=%v): %s", rr.Exit, rr.Returned, tail(rr.Stderr)), Class: "c02.run-failed", Witness: c})
		return
	}
	started := startedTasks(rr.CmdTrace)
	content := map[string]string{}
	for p, v := range pre {
		content[p] = v
	}
	for _, t := range c.Chain.tasks() {
		anyPre := false
		for _, o := range t.Outs {
			if isPre[o] {
				anyPre = true
			}
		}
		n := started[taskKey(t)]
		// model: the same task in the task model with the same pre-existing ports
		ports := []string{"out"}
		if _, ok := t.Outs["aux"]; ok {
			ports = append(ports, "aux")
		}
		prePorts, streams := "", ""
		for i, pn := range ports {
			if i > 0 {
				streams += ","
			}
			streams += "0"
			if isPre[t.Outs[pn]] {
				if prePorts != "" {
					prePorts += ","
				}
				prePorts += fmt.Sprint(i)
			}
		}
		acts := "w:0:1"
		if len(ports) == 2 {
			acts += ",w:1:2"
		}
		resp := ctx.Drv.Ask("task.sim", streams, acts, "ok", prePorts, "200")
		var mexec int
		for _, kv := range splitKV(resp) {
			if kv[0] == "executed" {
				fmt.Sscanf(kv[1], "%d", &mexec)
			}
		}
		if mexec != n {
			ctx.Res.Disagree(Violation{What: fmt.Sprintf("task %s: real executions=%d, model executions=%d (pre-existing ports %q)", taskKey(t), n, mexec, prePorts), Witness: c})
		}
		if anyPre && n > 0 {
			ctx.Res.Violate(Violation{What: fmt.Sprintf("task %s was executed although one of its outputs already existed", taskKey(t)), Class: "c02.reexecuted", Witness: c})
		}
		if !anyPre && n != 1 {
			ctx.Res.Violate(Violation{What: fmt.Sprintf("task %s executed %d times (expected once)", taskKey(t), n), Class: "c02.count", Witness: c})
		}
		inC, okIn := content[t.In]
		for port, o := range t.Outs {
			got, ok := readFile(dir, o)
			if isPre[o] {
				if !ok || got != pre[o] {
					ctx.Res.Violate(Violation{What: fmt.Sprintf("pre-existing output %s changed content", o), Class: "c02.modified", Witness: c})
				}
				content[o] = pre[o]
				continue
			}
			if anyPre {
				// sibling output of a skipped task: never produced (C02 says the task is not executed)
				if ok {
					ctx.Res.Violate(Violation{What: fmt.Sprintf("output %s of a skipped task appeared", o), Class: "c02.reexecuted", Witness: c})
				}
				continue
			}
			if !okIn {
				continue
			}
			want := expectContent(t.Proc, port, inC)
			if !ok || got != want {
				ctx.Res.Violate(Violation{What: fmt.Sprintf("output %s: got %q want %q (downstream must proceed from the bytes on disk)", o, got, want), Class: "c02.downstream", Witness: c})
			}
			content[o] = want
		}
	}
	for _, p := range c.Pre {
		after, ok := statOf(filepath.Join(dir, p))
		if !ok || after != before[p] {
			ctx.Res.Violate(Violation{What: fmt.Sprintf("pre-existing output %s: inode/mtime/size changed %v -> %v", p, before[p], after), Class: "c02.modified", Witness: c})
		}
	}
	// re-run in place: no command, no change
	all := listFiles(dir)
	stats := map[string]statInfo{}
	for p, k := range all {
		if k != "dir" {
			stats[p], _ = statOf(filepath.Join(dir, p))
		}
	}
	os.Remove(filepath.Join(dir, "_cmdtrace.log"))
	rr2 := RunWorkflow(c.Chain.desc(), RunOpts{Dir: dir})
	ctx.Res.Count("rerun")
	if rr2.Exit != 0 {
		ctx.Res.Violate(Violation{What: fmt.Sprintf("re-run of a completed workflow exited %d: %s", rr2.Exit, tail(rr2.Stderr)), Class: "c02.rerun-failed", Witness: c})
		return
	}
	// tasks whose outputs are (partly) missing because a sibling pre-existed stay skipped; everything else exists
	if n := len(startedTasks(rr2.CmdTrace)); n > 0 {
		// allowed only for tasks downstream of a skipped multi-output task whose other output is missing: none in this family
		ctx.Res.Violate(Violation{What: fmt.Sprintf("re-run executed %d commands: %v", n, rr2.CmdTrace), Class: "c02.rerun-executed", Witness: c})
	}
	changed := []string{}
	for p, st := range stats {
		if p == "_cmdtrace.log" {
			continue
		}
		after, ok := statOf(filepath.Join(dir, p))
		if !ok || after != st {
			changed = append(changed, p)
		}
	}
	sort.Strings(changed)
	if len(changed) > 0 {
		ctx.Res.Violate(Violation{What: fmt.Sprintf("re-run changed files: %v", changed), Class: "c02.rerun-modified", Witness: c})
	}
}

func splitKV(resp string) [][2]string {
	out := [][2]string{}
	start := 0
	for i := 0; i <= len(resp); i++ {
		if i == len(resp) || resp[i] == ';' {
			kv := resp[start:i]
			for j := 0; j < len(kv); j++ {
				if kv[j] == '=' {
					out = append(out, [2]string{kv[:j], kv[j+1:]})
					break
				}
			}
			start = i + 1
		}
	}
	return out
}

// a process with several in-ports and the *default* output name: re-running the completed workflow must find
// its outputs again (the default name is a deterministic function of the task) and execute nothing
func rerunDefaultPaths(ctx *Ctx) {
	dir := newDir()
	defer os.RemoveAll(dir)
	pre := map[string]string{}
	nodes := []Node{}
	edges := []Edge{}
	cmd := `( echo "S P {o:out|basename} $EPOCHREALTIME" >> "$VERIF_CMDTRACE" ; cat`
	for k := 0; k < 4; k++ {
		p := fmt.Sprintf("s%d.txt", k)
		pre[p] = fmt.Sprintf("src%d\n", k)
		nodes = append(nodes, Node{Name: fmt.Sprintf("src%d", k), Kind: "filesource", Paths: []string{p}})
		edges = append(edges, Edge{From: fmt.Sprintf("src%d.out", k), To: fmt.Sprintf("P.in%d", k)})
		cmd += fmt.Sprintf(" {i:in%d}", k)
	}
	cmd += ` > {o:out} )`
	nodes = append(nodes, Node{Name: "P", Kind: "proc", Cmd: cmd})
	d := &Desc{Name: "defpath", Max: 2, Nodes: nodes, Edges: edges}
	rr := RunWorkflow(d, RunOpts{Dir: dir, Pre: pre})
	ctx.Res.Eval("rerun-default-paths", true, "4 in-ports, default output name, 5 re-runs")
	ctx.Res.Count("default-path-rerun")
	if rr.Exit != 0 {
		ctx.Res.Disagree(Violation{What: "default-path workflow failed: " + tail(rr.Stderr), Witness: "default paths"})
		return
	}
	before := listFiles(dir)
	for k := 0; k < 5; k++ {
		os.Remove(filepath.Join(dir, "_cmdtrace.log"))
		r2 := RunWorkflow(d, RunOpts{Dir: dir})
		if r2.Exit != 0 {
			ctx.Res.Violate(Violation{What: fmt.Sprintf("re-run %d of a completed workflow exited %d: %s", k, r2.Exit, tail(r2.Stderr)), Class: "c02.rerun-failed", Witness: "default paths"})
			return
		}
		if n := len(startedTasks(r2.CmdTrace)); n > 0 {
			ctx.Res.Violate(Violation{What: fmt.Sprintf("re-run %d of a completed workflow (default output names) executed %d command(s): %v", k, n, r2.CmdTrace), Class: "c02.rerun-executed", Witness: "default paths, 4 in-ports"})
			return
		}
	}
	after := listFiles(dir)
	for p := range after {
		if _, ok := before[p]; !ok && p != "_cmdtrace.log" {
			ctx.Res.Violate(Violation{What: "re-run created the new file " + p, Class: "c02.rerun-modified", Witness: "default paths"})
		}
	}
}

func checkC02(ctx *Ctx) {
	ctx.Res.Rule = "chain workflows (1-3 source files, 1-3 levels, optional second output per level, optional fan-out branch); a random subset of task outputs pre-created with garbage bytes; run, then re-run in place; non-trivial = at least one pre-existing output; distinct by (chain, subset). Checks: stat (inode, mtime-ns, size) and bytes of pre-existing files, command trace (exactly the tasks none of whose outputs pre-exist), downstream content computed from the bytes on disk, and per task the model's execution count; fixed cases: existing outputs of zero bytes, many skipped tasks of a process with several cores per task, outputs with ../, a re-run over default output paths."
	r := NewRng(ctx.Seed)
	n := 25
	if ctx.Thorough() {
		n = 300
	}
	cases := []c02Case{}
	for i := 0; i < n; i++ {
		ch := genChain(r, ctx.Thorough())
		c := c02Case{Chain: ch}
		for _, t := range ch.tasks() {
			for _, port := range []string{"out", "aux"} {
				if o, ok := t.Outs[port]; ok && r.Intn(4) == 0 {
					c.Pre = append(c.Pre, o)
				}
			}
		}
		sort.Strings(c.Pre)
		cases = append(cases, c)
	}
	// fixed: everything pre-exists; one of two outputs of a two-output task pre-exists
	cases = append(cases, c02Case{Chain: Chain{Inputs: []string{"a.txt"}, Levels: []Level{{TwoOut: true}, {}}, Max: 2}, Pre: []string{"a.txt.L0.aux.txt"}})
	// existing outputs of zero bytes
	{
		ch := Chain{Inputs: []string{"a.txt", "b.txt"}, Levels: []Level{{}, {}}, Max: 2}
		cases = append(cases, c02Case{Chain: ch, Pre: []string{ch.pathAt("a.txt", 0)}, Empty: true}, c02Case{Chain: ch, Pre: []string{ch.pathAt("a.txt", 1), ch.pathAt("b.txt", 1)}, Empty: true})
	}
	// many skipped tasks of a process that asks for several cores per task: skipping must not cost slots, the
	// downstream process still gets every existing file
	{
		ch := Chain{Inputs: []string{"a.txt", "b.txt", "c.txt", "d.txt", "e.txt", "f.txt"}, Levels: []Level{{Cores: 2}, {Cores: 1}}, Max: 4}
		c := c02Case{Chain: ch}
		for _, in := range ch.Inputs {
			c.Pre = append(c.Pre, ch.pathAt(in, 0))
		}
		cases = append(cases, c)
	}
	// outputs outside the working directory (their paths contain ../): the existence check must look at the
	// declared path, not at its image below the temp dir
	for k, prePorts := range [][]int{{0}, {1}, {}} {
		in := fmt.Sprintf("../c02up_%d_%d/a.txt", os.Getpid(), k)
		ch := Chain{Inputs: []string{in}, Levels: []Level{{}, {}}, Max: 2}
		c := c02Case{Chain: ch}
		for _, l := range prePorts {
			c.Pre = append(c.Pre, ch.pathAt(in, l))
		}
		cases = append(cases, c)
	}
	parallel(len(cases), 8, func(i int) {
		if ctx.TimeLeft() {
			runC02(ctx, cases[i])
		}
	})
	rerunDefaultPaths(ctx)
	setOutOnlyPort(ctx)
}

// an out-port declared with SetOut only (the command does not name it with {o:..}; it writes the file by its own
// name): an existing file at that path is an existing output all the same
func setOutOnlyPort(ctx *Ctx) {
	d := &Desc{Name: "c02setout", Max: 2, Nodes: []Node{{Name: "src", Kind: "filesource", Paths: []string{"a.txt", "b.txt"}},
		{Name: "tool", Kind: "proc", Cmd: "( echo RUN >> ../tool.trace ; cat {i:in} > {i:in|basename}.rep )", Outs: map[string]string{"rep": "{i:in}.rep"}},
		{Name: "next", Kind: "proc", Cmd: "( cat {i:in} > {o:out} )", Outs: map[string]string{"out": "{i:in}.next"}}},
		Edges: []Edge{{From: "src.out", To: "tool.in"}, {From: "tool.rep", To: "next.in"}}}
	dir := newDir()
	defer os.RemoveAll(dir)
	pre := map[string]string{"a.txt": "a\n", "b.txt": "b\n", "a.txt.rep": "EDITED BY HAND\n"}
	for p, c := range pre {
		ioutil.WriteFile(filepath.Join(dir, p), []byte(c), 0644)
	}
	before, _ := statOf(filepath.Join(dir, "a.txt.rep"))
	rr := RunWorkflow(d, RunOpts{Dir: dir})
	ctx.Res.Eval("existing output of a port declared with SetOut only", true, "setout-only")
	ctx.Res.Count("port-declared-by-SetOut-only")
	if rr.Exit != 0 {
		ctx.Res.Disagree(Violation{What: "SetOut-only workflow failed: " + tail(rr.Stderr), Witness: "setout-only"})
		return
	}
	after, _ := statOf(filepath.Join(dir, "a.txt.rep"))
	got, _ := readFile(dir, "a.txt.rep")
	runs, _ := readFile(dir, "tool.trace")
	if after != before || got != "EDITED BY HAND\n" || strings.Count(runs, "RUN") != 1 {
		ctx.Res.Violate(Violation{What: fmt.Sprintf("a.txt.rep existed (a port declared with SetOut only): the tool ran %d times for 2 inputs of which 1 had its output, the file now holds %q", strings.Count(runs, "RUN"), got), Class: "c02.reexecuted", Witness: "setout-only"})
	}
	if next, ok := readFile(dir, "a.txt.rep.next"); !ok || next != "EDITED BY HAND\n" {
		ctx.Res.Violate(Violation{What: "the downstream process did not receive the existing file a.txt.rep", Class: "c02.not-passed-on", Witness: "setout-only"})
	}
}

func init() { checks["C02"] = checkC02 }
