package main

import (
	"encoding/json"
	"flag"
	"fmt"
	"io/ioutil"
	"os"
	"strconv"
	"time"
)

type Ctx struct {
	Prop    string
	Tier    string
	Seed    uint64
	Drv     *Driver
	Res     *Result
	Workers int
	Replay  string
	Budget  time.Duration
	start   time.Time
}

func (c *Ctx) Thorough() bool { return c.Tier == "thorough" }
func (c *Ctx) TimeLeft() bool { return time.Since(c.start) < c.Budget }

var checks = map[string]func(*Ctx){}

func main() {
	if len(os.Args) >= 2 && os.Args[1] == "pureworker" {
		pureWorkerMain()
		return
	}
	if len(os.Args) >= 3 && os.Args[1] == "wfrun" {
		wfrunMain(os.Args[2])
		return
	}
	fs := flag.NewFlagSet("check", flag.ExitOnError)
	prop := fs.String("prop", "", "property id")
	tier := fs.String("tier", "quick", "quick|thorough")
	seed := fs.Uint64("seed", 1, "seed")
	driver := fs.String("driver", "", "path of the Lean driver executable")
	out := fs.String("out", "", "result json path")
	replay := fs.String("replay", "", "replay file")
	if len(os.Args) < 2 || os.Args[1] != "check" {
		fmt.Fprintln(os.Stderr, "usage: vharness check -prop Cxx -tier quick -seed 1 -driver path -out res.json | vharness wfrun desc.json")
		os.Exit(2)
	}
	fs.Parse(os.Args[2:])
	exe, _ := os.Executable()
	selfExe = exe
	f, ok := checks[*prop]
	if !ok {
		fmt.Fprintln(os.Stderr, "no harness check for", *prop)
		os.Exit(2)
	}
	drv, err := StartDriver(*driver)
	if err != nil {
		fmt.Fprintln(os.Stderr, "cannot start driver:", err)
		os.Exit(2)
	}
	ctx := &Ctx{Prop: *prop, Tier: *tier, Seed: *seed, Drv: drv, Res: NewResult(*prop), Workers: 8, Replay: *replay, start: time.Now()}
	ctx.Budget = 60 * time.Second
	if ctx.Thorough() {
		ctx.Budget = 8 * time.Minute
	}
	if b := os.Getenv("VERIF_BUDGET_S"); b != "" {
		if n, err := strconv.Atoi(b); err == nil {
			ctx.Budget = time.Duration(n) * time.Second
		}
	}
	defer cleanupScratch()
	f(ctx)
	drv.Close()
	ctx.Res.Extra["wall_s"] = time.Since(ctx.start).Seconds()
	ctx.Res.Extra["timeouts_not_repeated_on_rerun"] = timeoutsNotRepeated
	b, _ := json.MarshalIndent(ctx.Res, "", " ")
	if *out != "" {
		ioutil.WriteFile(*out, b, 0644)
	} else {
		fmt.Println(string(b))
	}
	cleanupScratch()
}
