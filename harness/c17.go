package main

import (
	"crypto/sha256"
	"encoding/hex"
	"fmt"
	"io/ioutil"
	"os"
	"path/filepath"
	"strings"
)

// C17: streaming outputs through FIFOs. n producer/consumer pairs, payloads below and above the
// pipe buffer, producer-lingers / consumer-lingers variants, then the history "run again".

type c17Case struct {
	N        int    `json:"n"`        // streamed items (pairs of tasks)
	Bytes    int    `json:"bytes"`    // payload size per item
	Max      int    `json:"max"`
	Linger   string `json:"linger"`   // "" | producer | consumer
	Rerun    bool   `json:"rerun"`
	Multi    string `json:"multi,omitempty"` // "" | "os+o" | "os+os": the producer has a second out-port `log` with its own consumer
	SubDir   bool   `json:"subdir,omitempty"` // the streaming output lies in a directory that does not exist yet
	Up       string `json:"up,omitempty"`     // the streaming output lies in this directory beside the working directory (../<up>/)
}

func (c c17Case) desc() (*Desc, map[string]string) {
	d := &Desc{Name: "c17", Max: c.Max}
	pre := map[string]string{}
	paths := []string{}
	for i := 0; i < c.N; i++ {
		p := fmt.Sprintf("in%d.txt", i)
		paths = append(paths, p)
		pre[p] = fmt.Sprintf("seed-%d\n", i)
	}
	plinger, clinger := "", ""
	if c.Linger == "producer" {
		plinger = " ; sleep 0.08"
	}
	if c.Linger == "consumer" {
		clinger = " ; sleep 0.4" // long enough for the producer's record to be complete under any load seen (see F15)
	}
	// producer: deterministic payload of c.Bytes bytes derived from its input
	prod := fmt.Sprintf(`( (cat {i:in} ; head -c %d /dev/zero | tr '\0' 'x') > {os:out}%s )`, c.Bytes, plinger)
	cons := fmt.Sprintf(`( cat {i:in} > {o:out}%s )`, clinger)
	d.Nodes = []Node{{Name: "src", Kind: "filesource", Paths: paths},
		{Name: "prod", Kind: "proc", Cmd: prod, Outs: map[string]string{"out": streamPat(c)}},
		{Name: "cons", Kind: "proc", Cmd: cons, Outs: map[string]string{"out": "{i:in}.copy"}}}
	d.Edges = []Edge{{From: "src.out", To: "prod.in"}, {From: "prod.out", To: "cons.in"}}
	if c.Multi != "" {
		logPh := "{o:log}"
		prodCmd := fmt.Sprintf(`( (cat {i:in} ; head -c %d /dev/zero | tr '\0' 'x') > {os:out} ; (echo LOG ; cat {i:in}) > %s%s )`, c.Bytes, "{o:log}", plinger)
		if c.Multi == "os+os" {
			logPh = "{os:log}"
			prodCmd = fmt.Sprintf(`( ( (cat {i:in} ; head -c %d /dev/zero | tr '\0' 'x') > {os:out} ) & ( (echo LOG ; cat {i:in}) > %s ) ; wait%s )`, c.Bytes, logPh, plinger)
		}
		d.Nodes[1].Cmd = prodCmd
		d.Nodes[1].Outs["log"] = "{i:in}.log"
		d.Nodes = append(d.Nodes, Node{Name: "cons2", Kind: "proc", Cmd: `( cat {i:in} > {o:out} )`, Outs: map[string]string{"out": "{i:in}.copy2"}})
		d.Edges = append(d.Edges, Edge{From: "prod.log", To: "cons2.in"})
	}
	return d, pre
}

func streamPat(c c17Case) string {
	if c.SubDir {
		return "newdir/deeper/{i:in}.stream"
	}
	if c.Up != "" {
		return "../" + c.Up + "/{i:in}.stream"
	}
	return "{i:in}.stream"
}

func runC17(ctx *Ctx, c c17Case) {
	d, pre := c.desc()
	rr := RunWorkflow(d, RunOpts{Pre: pre, Timeout: 20e9})
	defer os.RemoveAll(rr.Dir)
	if c.Up != "" {
		defer os.RemoveAll(filepath.Join(rr.Dir, "..", c.Up))
		ctx.Res.Count("stream-path-with-../")
	}
	ctx.Res.Eval(fmt.Sprintf("%v", c), c.N >= 1, c)
	ctx.Res.Count(fmt.Sprintf("bytes=%d", c.Bytes))
	ctx.Res.Count("linger=" + c.Linger)
	if rr.Exit != 0 {
		class := "c17.run-failed"
		if rr.Exit == -2 {
			class = "c17.hang"
		}
		ctx.Res.Violate(Violation{What: fmt.Sprintf("streaming workflow (n=%d, max=%d) exited %d: %s", c.N, c.Max, rr.Exit, firstLine(rr.Stderr)), Class: class, Witness: c})
		return
	}
	for i := 0; i < c.N; i++ {
		in := fmt.Sprintf("in%d.txt", i)
		if c.SubDir {
			in = "newdir/deeper/" + in // the stream (and the consumer's copy next to it) live below the new directory
		}
		if c.Up != "" {
			in = "../" + c.Up + "/" + in
		}
		want := fmt.Sprintf("seed-%d\n", i) + strings.Repeat("x", c.Bytes)
		got, ok := readFile(rr.Dir, in+".stream.copy")
		if !ok || sha(got) != sha(want) {
			ctx.Res.Violate(Violation{What: fmt.Sprintf("consumer of item %d received %d bytes, the producer wrote %d (hash differs)", i, len(got), len(want)), Class: "c17.bytes", Witness: c})
		}
		if c.Multi != "" {
			got2, ok2 := readFile(rr.Dir, in+".log.copy2")
			if want2 := "LOG\n" + fmt.Sprintf("seed-%d\n", i); !ok2 || got2 != want2 {
				ctx.Res.Violate(Violation{What: fmt.Sprintf("the consumer of the producer's second out-port got %q for item %d, expected %q", got2, i, want2), Class: "c17.second-port", Witness: c})
			}
		}
		if fi, err := os.Lstat(filepath.Join(rr.Dir, in+".stream")); err == nil {
			ctx.Res.Violate(Violation{What: fmt.Sprintf("a file exists at the streaming output path %s (mode %v)", in+".stream", fi.Mode()), Class: "c17.regular-file", Witness: c})
		}
		if _, err := os.Lstat(filepath.Join(rr.Dir, in+".stream.fifo")); err == nil {
			ctx.Res.Violate(Violation{What: fmt.Sprintf("the FIFO %s.stream.fifo was not removed", in), Class: "c17.fifo-left", Witness: c})
		}
		// audit: the consumer's record names the producing task as upstream
		a, err := readAudit(rr.Dir, in+".stream.copy")
		if err != nil {
			ctx.Res.Violate(Violation{What: "consumer output has no valid audit file: " + err.Error(), Class: "c17.audit", Witness: c})
			continue
		}
		u := a.Upstream[in+".stream"]
		if u == nil || u.ProcessName != "prod" {
			class := "c17.audit-link"
			if c.Linger == "consumer" {
				// not F15: the consumer ends well after the producer has written its record
				class = "c17.audit-link-late-consumer"
			}
			ctx.Res.Violate(Violation{What: fmt.Sprintf("consumer's audit record does not name the producer as upstream of %s.stream (found %+v)", in, summarize(u)), Class: class, Witness: c})
		}
	}
	if l := leftovers(rr.Dir); len(l) > 0 {
		ctx.Res.Violate(Violation{What: fmt.Sprintf("leftovers after a streaming run: %v", l), Class: "c17.leftovers", Witness: c})
	}
	if !c.Rerun {
		return
	}
	// history: complete run, then run again
	stats := map[string]statInfo{}
	for i := 0; i < c.N; i++ {
		p := fmt.Sprintf("in%d.txt.stream.copy", i)
		stats[p], _ = statOf(filepath.Join(rr.Dir, p))
		if c.Multi == "os+o" {
			for _, q := range []string{fmt.Sprintf("in%d.txt.log", i), fmt.Sprintf("in%d.txt.log.copy2", i)} {
				stats[q], _ = statOf(filepath.Join(rr.Dir, q))
			}
		}
	}
	r2 := RunWorkflow(d, RunOpts{Dir: rr.Dir, Timeout: 8e9})
	ctx.Res.Count("rerun")
	if r2.Exit == -2 && c.Multi == "os+o" {
		// confirm on two more attempts (after the usual cleanup) that it was not the machine
		for k := 0; k < 2; k++ {
			removeLeftovers(rr.Dir)
			if again := RunWorkflow(d, RunOpts{Dir: rr.Dir, Timeout: 8e9}); again.Exit != -2 {
				ctx.Res.Count("rerun-timeout-not-repeated")
				r2 = again
				break
			}
		}
	}
	if r2.Exit == -2 && c.Multi == "os+o" {
		// not F10: this producer has an ordinary output as well, which exists, so it has to be skipped like its consumers
		ctx.Res.Violate(Violation{What: "re-running the completed workflow does not terminate although the producer's ordinary output exists: the producer was executed again while its consumer was skipped", Class: "c17.rerun-hangs-mixed", Witness: c})
		return
	}
	if r2.Exit == -2 {
		ctx.Res.Violate(Violation{What: "re-running the completed streaming workflow does not terminate (the skipped consumer never opens the FIFO, the producer blocks)", Class: "c17.rerun-hangs", Witness: c})
		return
	}
	if r2.Exit != 0 {
		ctx.Res.Violate(Violation{What: fmt.Sprintf("re-run exited %d: %s", r2.Exit, firstLine(r2.Stderr)), Class: "c17.rerun-failed", Witness: c})
		return
	}
	for p, st := range stats {
		after, ok := statOf(filepath.Join(rr.Dir, p))
		if !ok || after != st {
			ctx.Res.Violate(Violation{What: "re-run touched the consumer's output " + p, Class: "c17.rerun-modified", Witness: c})
		}
	}
}

func sha(s string) string { h := sha256.Sum256([]byte(s)); return hex.EncodeToString(h[:8]) }

func summarize(a *auditJSON) string {
	if a == nil {
		return "nil"
	}
	return fmt.Sprintf("{ProcessName:%q Command:%q}", a.ProcessName, a.Command)
}

func checkC17(ctx *Ctx) {
	ctx.Res.Rule = "producer -> {os:out} FIFO -> consumer pairs: n in 1..4 streamed items with maxConcurrentTasks >= 2n, payloads {0, 100, 65536, 200000} bytes (below and above the 64 KiB pipe buffer), producer-lingers / consumer-lingers / neither, producers with a second ordinary or streaming out-port and its own consumer, then the history 'run again'; non-trivial = all; distinct by case. Checks: consumer's bytes = producer's bytes (sha256), no file at the streaming output path, FIFO removed, no leftovers, consumer's audit record names the producer as upstream, the re-run terminates and leaves the consumer's outputs untouched; also: a stream path with ../, a producer with a streaming and an ordinary output run again (its hang is not F10), the audit link with a late consumer (not F15); thorough: a pair with one slot must hang (model's negative theorem)."
	r := NewRng(ctx.Seed)
	_ = ioutil.Discard
	cases := []c17Case{}
	sizes := []int{0, 100, 65536, 200000}
	for _, n := range []int{1, 2, 3} {
		for _, b := range sizes {
			if !ctx.Thorough() && r.Intn(3) != 0 {
				continue
			}
			cases = append(cases, c17Case{N: n, Bytes: b, Max: 2*n + r.Intn(2), Linger: []string{"", "producer", "consumer"}[r.Intn(3)]})
			if ctx.Thorough() {
				// every linger variant, and producers with a second out-port
				for _, lg := range []string{"", "producer", "consumer"} {
					cases = append(cases, c17Case{N: n, Bytes: b, Max: 2 * n, Linger: lg})
				}
				cases = append(cases, c17Case{N: n, Bytes: b, Max: 3 * n, Multi: []string{"os+o", "os+os"}[r.Intn(2)]})
			}
		}
	}
	cases = append(cases, c17Case{N: 1, Bytes: 100, Max: 2, Linger: "producer"}, c17Case{N: 1, Bytes: 100, Max: 2, Linger: "consumer"}, c17Case{N: 2, Bytes: 70000, Max: 4, Rerun: true},
		// a producer with a streaming and a second (ordinary / streaming) out-port, each with its own consumer
		c17Case{N: 3, Bytes: 100, Max: 9, Multi: "os+o"}, c17Case{N: 2, Bytes: 70000, Max: 6, Multi: "os+o", Linger: "producer"}, c17Case{N: 2, Bytes: 100, Max: 6, Multi: "os+os"},
		c17Case{N: 3, Bytes: 100, Max: 9, Multi: "os+o", Rerun: true}, c17Case{N: 2, Bytes: 70000, Max: 6, Multi: "os+o", Rerun: true},
		c17Case{N: 2, Bytes: 100, Max: 4, SubDir: true},
		c17Case{N: 2, Bytes: 100, Max: 4, Up: fmt.Sprintf("c17up_%d_a", os.Getpid())}, c17Case{N: 1, Bytes: 70000, Max: 2, Up: fmt.Sprintf("c17up_%d_b", os.Getpid()), Linger: "consumer"})
	parallel(len(cases), 4, func(i int) {
		if ctx.TimeLeft() {
			runC17(ctx, cases[i])
		}
	})
	if ctx.Thorough() {
		// outside the property's quantifier (max < 2n), the model's negative theorem c17_too_few_slots_deadlock:
		// with one slot the pair must hang on the real code too
		c := c17Case{N: 1, Bytes: 100, Max: 1}
		d, pre := c.desc()
		rr := RunWorkflow(d, RunOpts{Pre: pre, Timeout: 6e9, NoRetry: true})
		os.RemoveAll(rr.Dir)
		ctx.Res.Count("one-slot-pair(model: deadlock)")
		if rr.Exit != -2 {
			ctx.Res.Disagree(Violation{What: fmt.Sprintf("a streaming pair with a single task slot ended with exit %d, the slot model says it blocks for ever", rr.Exit), Class: "c17.model", Witness: c})
		}
	}
}

func init() { checks["C17"] = checkC17 }
