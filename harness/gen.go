package main

import (
	"fmt"
	"sort"
	"strings"
)

// ---------- the command family whose meaning the oracle knows ----------
//
// content(out) = concat(contents of the inputs in port-name order) ++ "<proc>|<port>|k=v,...\n"
// Every command appends "S <proc> <basename of first output>" / "E ..." lines (with $EPOCHREALTIME)
// to $VERIF_CMDTRACE, which lives outside the temp dir.

type CmdSpec struct {
	Proc    string
	Ins     []string // in-port names
	Outs    []string // out-port names
	Params  []string // param-port names
	SleepMs int
	// fault injection
	Fault     string // "" | exit_before | exit_partial | exit_after | kill | missing
	FaultWhen string // shell pattern on the basename of the first output; "" = always
	Rendezvous int   // >0: wait (bounded) until that many tasks of the group have started
	Group      string
}

func (c CmdSpec) Pattern() string {
	sort.Strings(c.Ins)
	sort.Strings(c.Params)
	first := c.Outs[0]
	id := fmt.Sprintf("%s {o:%s|basename}", c.Proc, first)
	steps := []string{}
	steps = append(steps, fmt.Sprintf(`echo "S %s $EPOCHREALTIME" >> "$VERIF_CMDTRACE"`, id))
	if c.Rendezvous > 0 {
		// each task drops a marker, then waits (at most 4 s) until Rendezvous markers exist
		steps = append(steps, fmt.Sprintf(`mkdir -p ../_rdv.%s; touch ../_rdv.%s/{o:%s|basename}; n=0; while [ $(ls ../_rdv.%s | wc -l) -lt %d ] && [ $n -lt 200 ]; do sleep 0.02; n=$((n+1)); done; if [ $n -ge 200 ]; then echo "RDVFAIL %s" >> "$VERIF_CMDTRACE"; fi`,
			c.Group, c.Group, first, c.Group, c.Rendezvous, id))
	}
	if c.SleepMs > 0 {
		steps = append(steps, fmt.Sprintf("sleep %d.%03d", c.SleepMs/1000, c.SleepMs%1000))
	}
	params := []string{}
	for _, p := range c.Params {
		params = append(params, fmt.Sprintf("%s={p:%s}", p, p))
	}
	cat := ""
	for _, i := range c.Ins {
		cat += fmt.Sprintf(" {i:%s}", i)
	}
	guard := func(body string) string {
		if c.FaultWhen == "" {
			return body
		}
		return fmt.Sprintf(`case {o:%s|basename} in %s) %s;; esac`, first, c.FaultWhen, body)
	}
	if c.Fault == "exit_before" {
		steps = append(steps, guard("exit 3"))
	}
	if c.Fault == "kill" {
		steps = append(steps, guard("kill -9 $$"))
	}
	for _, o := range c.Outs {
		line := fmt.Sprintf(`%s|%s|%s`, c.Proc, o, strings.Join(params, ","))
		if c.Fault == "missing" && o == first {
			steps = append(steps, guard("true") /* placeholder so the case is well-formed */)
			if c.FaultWhen == "" {
				continue
			}
			// write unless the fault applies
			steps = append(steps, fmt.Sprintf(`case {o:%s|basename} in %s) true;; *) (%s echo "%s") > {o:%s};; esac`, first, c.FaultWhen, catCmd(cat), line, o))
			continue
		}
		if c.Fault == "exit_partial" && o == first {
			steps = append(steps, guard(fmt.Sprintf(`(echo -n "par") > {o:%s}; exit 3`, o)))
		}
		steps = append(steps, fmt.Sprintf(`(%s echo "%s") > {o:%s}`, catCmd(cat), line, o))
	}
	if c.Fault == "exit_after" {
		steps = append(steps, guard("exit 3"))
	}
	steps = append(steps, fmt.Sprintf(`echo "E %s $EPOCHREALTIME" >> "$VERIF_CMDTRACE"`, id))
	return "( " + strings.Join(steps, " ; ") + " )"
}

func catCmd(cat string) string {
	if cat == "" {
		return ""
	}
	return "cat" + cat + ";"
}
