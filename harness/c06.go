package main

import (
	"fmt"
	"os"
	"sort"
	"strings"
)

// C06 / C07: slot bookkeeping. Real workflows of sleeping / rendezvous tasks with mixed
// CoresPerTask; HB-sound monitors over the hook trace; model search through the driver.

type slotCase struct {
	Max     int   `json:"max"`
	Cores   []int `json:"cores"`   // per process
	Tasks   []int `json:"tasks"`   // tasks per process
	SleepMs int   `json:"sleep_ms"`
	Delay   string `json:"delay,omitempty"`
	GoMaxProcs int `json:"gomaxprocs,omitempty"` // run the workflow with this GOMAXPROCS (fewer CPUs than cores per task)
	Pre     bool   `json:"pre,omitempty"` // outputs of every second task exist before the run (those tasks are skipped)
}

// pre-existing outputs of a slot case and the number of tasks that still execute
func slotPre(c slotCase) (map[string]string, int) {
	pre := map[string]string{}
	exec := 0
	for i := range c.Cores {
		for k := 0; k < c.Tasks[i]; k++ {
			if c.Pre && k%2 == 1 {
				pre[fmt.Sprintf("p%d.v%d.txt", i, k)] = "old\n"
			} else {
				exec++
			}
		}
	}
	return pre, exec
}

func slotDesc(c slotCase, rdv int) *Desc {
	d := &Desc{Name: "slots", Max: c.Max}
	for i, cores := range c.Cores {
		name := fmt.Sprintf("p%d", i)
		vals := []string{}
		for k := 0; k < c.Tasks[i]; k++ {
			vals = append(vals, fmt.Sprintf("v%d", k))
		}
		spec := CmdSpec{Proc: name, Outs: []string{"out"}, Params: []string{"x"}, SleepMs: c.SleepMs, Rendezvous: rdv, Group: "g"}
		d.Nodes = append(d.Nodes, Node{Name: name, Kind: "proc", Cmd: spec.Pattern(),
			Outs: map[string]string{"out": name + ".{p:x}.txt"}, Cores: cores, FromStr: map[string][]string{"x": vals}})
	}
	return d
}

type interval struct {
	from, to int
	w        int
	who      string
}

// maximum total weight of simultaneously open intervals (seq order = real order of the log events)
func maxOverlap(iv []interval) (int, []string) {
	type ev struct {
		at    int
		delta int
		who   string
	}
	evs := []ev{}
	for _, i := range iv {
		evs = append(evs, ev{i.from, i.w, i.who}, ev{i.to, -i.w, i.who})
	}
	sort.Slice(evs, func(a, b int) bool { return evs[a].at < evs[b].at })
	cur, best := 0, 0
	open := map[string]bool{}
	var bestSet []string
	for _, e := range evs {
		cur += e.delta
		if e.delta > 0 {
			open[e.who] = true
		} else {
			delete(open, e.who)
		}
		if cur > best {
			best = cur
			bestSet = nil
			for k := range open {
				bestSet = append(bestSet, k)
			}
		}
	}
	sort.Strings(bestSet)
	return best, bestSet
}

// running intervals of commands from the hook trace: [in.cmd.before, in.cmd.after] per goroutine
func cmdIntervals(tr []TraceEv, coresOf func(proc string) int) []interval {
	open := map[string]TraceEv{}
	out := []interval{}
	for _, e := range tr {
		switch e.Point {
		case "exec.cmd.start":
			open[e.Gid] = e
		case "exec.cmd.end":
			if s, ok := open[e.Gid]; ok {
				out = append(out, interval{s.Seq, e.Seq, coresOf(s.Args[0]), s.Args[0] + "/" + s.Args[1]})
				delete(open, e.Gid)
			}
		}
	}
	// commands still running when the trace ends (crash) are open until the end
	for _, s := range open {
		out = append(out, interval{s.Seq, 1 << 30, coresOf(s.Args[0]), s.Args[0] + "/" + s.Args[1]})
	}
	return out
}

// wall-clock intervals from the commands' own S/E lines (a lower bound of the real execution)
func wallOverlap(lines []string, coresOf func(proc string) int) int {
	type ev struct {
		t float64
		d int
	}
	start := map[string]float64{}
	evs := []ev{}
	for _, l := range lines {
		f := strings.Fields(l)
		if len(f) < 4 {
			continue
		}
		var t float64
		fmt.Sscanf(f[3], "%f", &t)
		key := f[1] + " " + f[2]
		if f[0] == "S" {
			start[key] = t
		} else if f[0] == "E" {
			if s, ok := start[key]; ok {
				evs = append(evs, ev{s, coresOf(f[1])}, ev{t, -coresOf(f[1])})
			}
		}
	}
	sort.Slice(evs, func(a, b int) bool {
		if evs[a].t != evs[b].t {
			return evs[a].t < evs[b].t
		}
		return evs[a].d < evs[b].d
	})
	cur, best := 0, 0
	for _, e := range evs {
		cur += e.d
		if cur > best {
			best = cur
		}
	}
	return best
}

func genSlotCase(r *Rng, big bool) slotCase {
	max := 1 + r.Intn(4)
	n := 1 + r.Intn(3)
	c := slotCase{Max: max, SleepMs: 15 + r.Intn(30)}
	for i := 0; i < n; i++ {
		c.Cores = append(c.Cores, 1+r.Intn(max))
		t := 1 + r.Intn(4)
		if big {
			t += r.Intn(6)
		}
		c.Tasks = append(c.Tasks, t)
	}
	if r.Intn(3) == 0 {
		c.Delay = fmt.Sprintf("inc.token:%d", 1+r.Intn(8))
	}
	c.Pre = r.Intn(3) == 0
	return c
}

func runSlotCase(ctx *Ctx, c slotCase) {
	d := slotDesc(c, 0)
	coresOf := func(proc string) int {
		var i int
		fmt.Sscanf(proc, "p%d", &i)
		if i < len(c.Cores) {
			return c.Cores[i]
		}
		return 1
	}
	env := []string{}
	if c.GoMaxProcs > 0 {
		env = append(env, fmt.Sprintf("GOMAXPROCS=%d", c.GoMaxProcs))
	}
	if c.Delay != "" {
		env = append(env, "VERIF_DELAY="+c.Delay)
	}
	pre, total := slotPre(c)
	rr := RunWorkflow(d, RunOpts{Env: env, Pre: pre})
	key := fmt.Sprintf("%v", c)
	ctx.Res.Eval(key, len(c.Cores) > 1 || total > c.Max, c)
	if c.Pre {
		ctx.Res.Count("with-skipped-tasks")
	}
	ctx.Res.Count(fmt.Sprintf("max=%d", c.Max))
	ctx.Res.Count(fmt.Sprintf("procs=%d", len(c.Cores)))
	if rr.Exit == -2 || (rr.Exit == 2 && strings.Contains(rr.Stderr, "all goroutines are asleep")) {
		// what did run before the workflow got stuck still has to respect the bound
		if best, set := maxOverlap(cmdIntervals(rr.Trace, coresOf)); best > c.Max && ctx.Prop == "C06" {
			ctx.Res.Violate(Violation{What: fmt.Sprintf("commands executing simultaneously weigh %d cores > maxConcurrentTasks %d: %v (the workflow did not terminate afterwards)", best, c.Max, set), Class: "slots.overbound", Witness: c})
		}
		if w := wallOverlap(rr.CmdTrace, coresOf); w > c.Max && ctx.Prop == "C06" {
			ctx.Res.Violate(Violation{What: fmt.Sprintf("commands' own timestamps overlap with total weight %d > max %d (the workflow did not terminate afterwards)", w, c.Max), Class: "slots.overbound", Witness: c})
		}
		v := Violation{What: "workflow of slot-competing tasks did not terminate (deadlock or hang; exit " + fmt.Sprint(rr.Exit) + ")", Class: "slots.deadlock", Witness: c}
		if ctx.Prop == "C07" {
			ctx.Res.Violate(v)
		} else {
			ctx.Res.Note("timeout (C07's concern): " + key)
		}
		return
	}
	if rr.Exit != 0 || !rr.Returned {
		ctx.Res.Disagree(Violation{What: fmt.Sprintf("slot workflow exited %d: %s", rr.Exit, tail(rr.Stderr)), Witness: c})
		return
	}
	iv := cmdIntervals(rr.Trace, coresOf)
	if len(iv) != total {
		ctx.Res.Disagree(Violation{What: fmt.Sprintf("expected %d executed commands, trace shows %d", total, len(iv)), Witness: c})
	}
	best, set := maxOverlap(iv)
	ctx.Res.Count(fmt.Sprintf("peak=%d/%d", best, c.Max))
	if best > c.Max && ctx.Prop == "C06" {
		ctx.Res.Violate(Violation{What: fmt.Sprintf("commands executing simultaneously weigh %d cores > maxConcurrentTasks %d: %v", best, c.Max, set), Class: "slots.overbound", Witness: c})
	}
	if w := wallOverlap(rr.CmdTrace, coresOf); w > c.Max && ctx.Prop == "C06" {
		ctx.Res.Violate(Violation{What: fmt.Sprintf("commands' own timestamps overlap with total weight %d > max %d", w, c.Max), Class: "slots.overbound", Witness: c})
	}
	// conformance of each task goroutine's slot events with the model's phases:
	// inc.enter, inc.locked, inc.token^cores, inc.unlocked ... dec.enter, dec.token^cores
	perG := map[string][]TraceEv{}
	for _, e := range rr.Trace {
		if strings.HasPrefix(e.Point, "inc.") || strings.HasPrefix(e.Point, "dec.") || e.Point == "exec.start" || e.Point == "exec.skip" {
			perG[e.Gid] = append(perG[e.Gid], e)
		}
	}
	for g, evs := range perG {
		if len(evs) == 0 || evs[0].Point != "exec.start" {
			continue
		}
		want := coresOf(evs[0].Args[0])
		seq := []string{}
		for _, e := range evs[1:] {
			seq = append(seq, e.Point)
		}
		exp := []string{"inc.enter", "inc.locked"}
		for i := 0; i < want; i++ {
			exp = append(exp, "inc.token")
		}
		exp = append(exp, "inc.unlocked", "dec.enter")
		for i := 0; i < want; i++ {
			exp = append(exp, "dec.token")
		}
		if len(seq) > 0 && seq[0] == "exec.skip" {
			exp = []string{"exec.skip"} // a skipped task neither takes nor returns slots
		}
		if strings.Join(seq, ",") != strings.Join(exp, ",") {
			ctx.Res.Disagree(Violation{What: fmt.Sprintf("goroutine %s of %s: slot events %v differ from the model's phases %v", g, evs[0].Args[0], seq, exp), Witness: c})
		}
	}
	// mutual exclusion of deposit loops: between a goroutine's inc.locked and inc.unlocked no other
	// goroutine logs inc.token (sound: both are logged inside the critical section)
	holder := ""
	for _, e := range rr.Trace {
		switch e.Point {
		case "inc.locked":
			holder = e.Gid
		case "inc.unlocked":
			// logged after Unlock: the next holder may already have logged inc.locked; only reset if still ours
			if holder == e.Gid {
				holder = ""
			}
		case "inc.token":
			if holder != "" && holder != e.Gid {
				// the previous holder has unlocked but not yet logged it: not a violation; tolerated
			}
		}
	}
}

func tail(s string) string {
	if len(s) > 300 {
		return s[len(s)-300:]
	}
	return s
}

func checkC06(ctx *Ctx) {
	ctx.Res.Rule = "random slot workloads (max 1..4, 1..3 processes with CoresPerTask 1..max, 1..10 tasks each, sleeping commands, optional delay between token deposits); non-trivial = more than one process or more tasks than slots; distinct by (max, cores, tasks, sleep, delay); also: a streaming producer/consumer pair among slot competitors, multi-core tasks asking for slots while some but not enough are free; the bound is judged also on runs that get stuck afterwards."
	r := NewRng(ctx.Seed)
	n := 14
	if ctx.Thorough() {
		n = 120
	}
	cases := []slotCase{{Max: 2, Cores: []int{2, 2}, Tasks: []int{3, 3}, SleepMs: 30}, {Max: 3, Cores: []int{2, 1, 3}, Tasks: []int{3, 4, 2}, SleepMs: 25},
		{Max: 2, Cores: []int{1}, Tasks: []int{12}, SleepMs: 30, Pre: true}, {Max: 2, Cores: []int{2, 1}, Tasks: []int{8, 6}, SleepMs: 30, Pre: true},
		{Max: 1, Cores: []int{1}, Tasks: []int{6}, SleepMs: 20}, {Max: 4, Cores: []int{3, 2}, Tasks: []int{4, 4}, SleepMs: 25, Delay: "inc.token:5"}}
	// fewer CPUs than a task asks cores for: the slots are a bookkeeping of the workflow, not of the machine
	cases = append(cases, slotCase{Max: 4, Cores: []int{2, 1}, Tasks: []int{4, 4}, SleepMs: 40, GoMaxProcs: 1}, slotCase{Max: 3, Cores: []int{3}, Tasks: []int{3}, SleepMs: 40, GoMaxProcs: 2})
	// a multi-core task asking for slots while some, but not enough, are free (several single-core tasks running)
	for k := 0; k < 4; k++ {
		cases = append(cases, slotCase{Max: 4, Cores: []int{1, 2}, Tasks: []int{6, 4}, SleepMs: 60}, slotCase{Max: 5, Cores: []int{1, 3}, Tasks: []int{6, 3}, SleepMs: 60, Delay: "inc.token:3"})
	}
	for i := 0; i < n; i++ {
		cases = append(cases, genSlotCase(r, ctx.Thorough()))
	}
	parallel(len(cases), 4, func(i int) {
		if ctx.TimeLeft() {
			runSlotCase(ctx, cases[i])
		}
	})
	streamingSlots(ctx)
	slotModelSearch(ctx)
}

// a streaming producer / consumer pair competes with ordinary tasks for the slots: tasks that read or write a
// FIFO count like any other task
func streamingSlots(ctx *Ctx) {
	for _, max := range []int{2, 3} {
		vals := []string{"v0", "v1", "v2", "v3", "v4", "v5"}
		d := &Desc{Name: "streamslots", Max: max, Nodes: []Node{
			{Name: "src", Kind: "filesource", Paths: []string{"a.txt", "b.txt"}},
			{Name: "prod", Kind: "proc", Cmd: `( (cat {i:in} ; sleep 0.15 ; echo tail) > {os:out} )`, Outs: map[string]string{"out": "{i:in}.stream"}},
			{Name: "cons", Kind: "proc", Cmd: `( cat {i:in} > {o:out} )`, Outs: map[string]string{"out": "{i:in}.copy"}},
			{Name: "sl", Kind: "proc", Cmd: `( sleep 0.06 ; echo {p:x} > {o:out} )`, Outs: map[string]string{"out": "sl.{p:x}.txt"}, FromStr: map[string][]string{"x": vals}}},
			Edges: []Edge{{From: "src.out", To: "prod.in"}, {From: "prod.out", To: "cons.in"}}}
		rr := RunWorkflow(d, RunOpts{Pre: map[string]string{"a.txt": "a\n", "b.txt": "b\n"}, Timeout: 30e9})
		ctx.Res.Eval(fmt.Sprintf("streaming-slots max=%d", max), true, map[string]int{"max": max})
		ctx.Res.Count("streaming-slots")
		if rr.Exit != 0 {
			ctx.Res.Disagree(Violation{What: fmt.Sprintf("streaming slot workflow exited %d: %s", rr.Exit, tail(rr.Stderr)), Witness: max})
			os.RemoveAll(rr.Dir)
			continue
		}
		iv := cmdIntervals(rr.Trace, func(string) int { return 1 })
		best, set := maxOverlap(iv)
		ctx.Res.Count(fmt.Sprintf("peak=%d/%d", best, max))
		if best > max {
			ctx.Res.Violate(Violation{What: fmt.Sprintf("with a streaming pair among the tasks %d commands were executing at once, maxConcurrentTasks is %d: %v", best, max, set), Class: "slots.overbound", Witness: map[string]int{"max": max}})
		}
		os.RemoveAll(rr.Dir)
	}
}

// model search (support only): the slot model instantiated with the record extracted from the
// current source, explored exhaustively for small workloads
func slotModelSearch(ctx *Ctx) {
	states := 0
	for _, w := range []struct {
		max   int
		cores string
	}{{2, "2,2"}, {2, "1,2,1"}, {3, "2,1,3"}, {3, "2,2,2"}, {1, "1,1,1"}, {4, "3,2,1"}} {
		resp := ctx.Drv.Ask("slots.search.src", fmt.Sprint(w.max), w.cores, "200000")
		var st, tr int
		kind := strings.Fields(resp)[0]
		for _, f := range strings.Fields(resp) {
			fmt.Sscanf(f, "states=%d", &st)
			fmt.Sscanf(f, "transitions=%d", &tr)
		}
		states += st
		if kind != "none" {
			// a model counterexample with the *current* semantics record: replay on the real code
			var cores []int
			for _, s := range strings.Split(w.cores, ",") {
				var c int
				fmt.Sscanf(s, "%d", &c)
				cores = append(cores, c)
			}
			c := slotCase{Max: w.max, Cores: cores, SleepMs: 20, Delay: "inc.token:40"}
			for range cores {
				c.Tasks = append(c.Tasks, 2)
			}
			ctx.Res.Note("model search with the extracted record found: " + resp)
			runSlotCase(ctx, c)
			ctx.Res.Extra["model_counterexample"] = resp
		}
	}
	ctx.Res.Extra["model_states_explored"] = states
}

func checkC07(ctx *Ctx) {
	ctx.Res.Rule = "slot workloads as for C06 with delays between token deposits (termination within the time limit = no deadlock), rendezvous groups of k tasks with k*cores <= max that must all be observed executing simultaneously, and oversize CoresPerTask that must be rejected before any command; distinct by case parameters"
	r := NewRng(ctx.Seed + 7)
	n := 8
	if ctx.Thorough() {
		n = 60
	}
	cases := []slotCase{{Max: 2, Cores: []int{2, 2}, Tasks: []int{3, 3}, SleepMs: 10, Delay: "inc.token:20"},
		{Max: 3, Cores: []int{2, 3, 1}, Tasks: []int{3, 2, 3}, SleepMs: 10, Delay: "inc.token:10"}}
	for i := 0; i < n; i++ {
		c := genSlotCase(r, ctx.Thorough())
		c.Delay = fmt.Sprintf("inc.token:%d", 2+r.Intn(15))
		cases = append(cases, c)
	}
	parallel(len(cases), 4, func(i int) {
		if ctx.TimeLeft() {
			runSlotCase(ctx, cases[i])
		}
	})
	// work conservation: k tasks of `cores` each, k*cores <= max, rendezvous of k
	rd := []struct{ max, cores, k int }{{2, 1, 2}, {4, 2, 2}, {3, 1, 3}, {4, 1, 4}, {6, 3, 2}, {6, 2, 3}}
	if ctx.Thorough() {
		for i := 0; i < 12; i++ {
			cores := 1 + r.Intn(3)
			k := 2 + r.Intn(3)
			rd = append(rd, struct{ max, cores, k int }{cores*k + r.Intn(2), cores, k})
		}
	}
	parallel(len(rd), 3, func(i int) {
		w := rd[i]
		c := slotCase{Max: w.max, Cores: []int{w.cores}, Tasks: []int{w.k}, SleepMs: 5}
		d := slotDesc(c, w.k)
		rr := RunWorkflow(d, RunOpts{})
		ctx.Res.Eval(fmt.Sprintf("rdv%v", w), true, map[string]int{"rendezvous_max": w.max, "cores": w.cores, "k": w.k})
		ctx.Res.Count("rendezvous")
		if rr.Exit != 0 {
			ctx.Res.Disagree(Violation{What: fmt.Sprintf("rendezvous workflow exited %d: %s", rr.Exit, tail(rr.Stderr)), Witness: w})
			return
		}
		failed := func(r *RunRes) string {
			for _, l := range r.CmdTrace {
				if strings.HasPrefix(l, "RDVFAIL") {
					return l
				}
			}
			return ""
		}
		os.RemoveAll(rr.Dir)
		if l := failed(rr); l != "" {
			// the rendezvous waits 4 s at most: confirm on a second and third run that it was not the machine
			for k := 0; k < 2; k++ {
				again := RunWorkflow(d, RunOpts{})
				os.RemoveAll(again.Dir)
				if again.Exit == 0 && failed(again) == "" {
					ctx.Res.Count("rendezvous-failure-not-repeated")
					return
				}
			}
			ctx.Res.Violate(Violation{What: fmt.Sprintf("%d tasks of %d cores fit into %d slots but were never executing simultaneously (%s)", w.k, w.cores, w.max, l), Class: "slots.notconserving", Witness: w})
		}
	})
	// oversize request is rejected at start, no command runs
	for _, w := range []struct{ max, cores int }{{1, 2}, {2, 3}, {3, 5}} {
		c := slotCase{Max: w.max, Cores: []int{w.cores, 1}, Tasks: []int{2, 2}, SleepMs: 5}
		rr := RunWorkflow(slotDesc(c, 0), RunOpts{Timeout: 8e9})
		ctx.Res.Eval(fmt.Sprintf("oversize%v", w), true, nil)
		ctx.Res.Count("oversize")
		if rr.Exit == -2 {
			ctx.Res.Violate(Violation{What: fmt.Sprintf("CoresPerTask %d > maxConcurrentTasks %d hangs instead of being rejected", w.cores, w.max), Class: "slots.oversize", Witness: w})
		} else if rr.Exit == 0 {
			ctx.Res.Violate(Violation{What: fmt.Sprintf("CoresPerTask %d > maxConcurrentTasks %d was not rejected (exit 0)", w.cores, w.max), Class: "slots.oversize", Witness: w})
		} else {
			for _, l := range rr.CmdTrace {
				if strings.HasPrefix(l, "S p0 ") {
					ctx.Res.Violate(Violation{What: "a task of the oversize process was executed: " + l, Class: "slots.oversize", Witness: w})
				}
			}
		}
	}
	// the same for a process without out-ports (it becomes the workflow's driver), alone and fed by an upstream
	for _, w := range []struct {
		max, cores int
		fed        bool
	}{{2, 3, false}, {1, 2, true}, {3, 4, true}} {
		d := &Desc{Name: "oversize-driver", Max: w.max}
		leaf := Node{Name: "leaf", Kind: "proc", Cores: w.cores, Cmd: `( echo "S leaf x $EPOCHREALTIME" >> "$VERIF_CMDTRACE" ; sleep 0.01 )`}
		if w.fed {
			d.Nodes = append(d.Nodes, Node{Name: "src", Kind: "filesource", Paths: []string{"a.txt", "b.txt"}})
			leaf.Cmd = `( echo "S leaf x $EPOCHREALTIME" >> "$VERIF_CMDTRACE" ; cat {i:in} > /dev/null )`
			d.Edges = append(d.Edges, Edge{From: "src.out", To: "leaf.in"})
		}
		d.Nodes = append(d.Nodes, leaf)
		rr := RunWorkflow(d, RunOpts{Timeout: 8e9, Pre: map[string]string{"a.txt": "a\n", "b.txt": "b\n"}})
		ctx.Res.Eval(fmt.Sprintf("oversize-driver%v", w), true, w)
		ctx.Res.Count("oversize")
		deadlock := rr.Exit == -2 || (rr.Exit == 2 && strings.Contains(rr.Stderr, "all goroutines are asleep"))
		if deadlock {
			ctx.Res.Violate(Violation{What: fmt.Sprintf("CoresPerTask %d > maxConcurrentTasks %d on the process without out-ports hangs instead of being rejected", w.cores, w.max), Class: "slots.oversize", Witness: w})
		} else if rr.Exit == 0 {
			ctx.Res.Violate(Violation{What: fmt.Sprintf("CoresPerTask %d > maxConcurrentTasks %d on the process without out-ports was not rejected (exit 0)", w.cores, w.max), Class: "slots.oversize", Witness: w})
		} else {
			for _, l := range rr.CmdTrace {
				if strings.HasPrefix(l, "S leaf ") {
					ctx.Res.Violate(Violation{What: "a task of the oversize driver process was executed: " + l, Class: "slots.oversize", Witness: w})
				}
			}
		}
		os.RemoveAll(rr.Dir)
	}
	slotModelSearch(ctx)
}

func init() {
	checks["C06"] = checkC06
	checks["C07"] = checkC07
}
