package main

import (
	"fmt"
	"io/ioutil"
	"os"
	"path/filepath"
	"strings"
)

// C13: (a) differential testing of the pure path functions over an exhaustive path grammar,
// (b) end-to-end one-task workflows: the file written at {o:out} must end up exactly at the
// declared path, {i:in} must resolve from inside the temp dir, extras must land beside.

func pathGrammar(depth int) []string {
	segs := []string{"a", "b.txt", "x_y", "..", ".", "__parent__", "__fsroot__", "parent__", "x..", "..x", "__"}
	prefixes := []string{"", "/", "./", "../", "../../"}
	out := []string{}
	var rec func(cur []string, d int)
	rec = func(cur []string, d int) {
		if len(cur) > 0 {
			for _, p := range prefixes {
				out = append(out, p+strings.Join(cur, "/"))
			}
		}
		if d == 0 {
			return
		}
		for _, s := range segs {
			rec(append(append([]string{}, cur...), s), d-1)
		}
	}
	rec(nil, depth)
	return out
}

type e2ePath struct {
	Out string `json:"out"`
	In  string `json:"in"`
}

// where a path relative to cwd points, lexically
func resolveFrom(cwd, p string) string {
	if filepath.IsAbs(p) {
		return filepath.Clean(p)
	}
	return filepath.Clean(filepath.Join(cwd, p))
}

func runC13E2E(ctx *Ctx, c e2ePath) {
	root := newDir()
	defer os.RemoveAll(root)
	cwd := filepath.Join(root, "l1", "l2")
	os.MkdirAll(cwd, 0755)
	out := strings.Replace(c.Out, "@", root, 1)
	in := strings.Replace(c.In, "@", root, 1)
	outAbs := resolveFrom(cwd, out)
	inAbs := resolveFrom(cwd, in)
	// the property presupposes an existing destination directory for ../ and absolute paths
	if strings.HasPrefix(out, "../") || filepath.IsAbs(out) {
		os.MkdirAll(filepath.Dir(outAbs), 0755)
		if filepath.IsAbs(out) {
			// ... also as the path is spelled (x/../y needs x to exist for the operating system)
			os.MkdirAll(out[:strings.LastIndex(out, "/")], 0755)
		}
	}
	os.MkdirAll(filepath.Dir(inAbs), 0755)
	ioutil.WriteFile(inAbs, []byte("INPUT\n"), 0644)
	d := &Desc{Name: "c13", Max: 2, Nodes: []Node{
		{Name: "s", Kind: "filesource", Paths: []string{in}},
		{Name: "t", Kind: "proc", Cmd: "( cat {i:in} > {o:out} ; echo TOKEN >> {o:out} ; echo side > side.dat ; mkdir -p sd ; echo deep > sd/deep.dat )", Outs: map[string]string{"out": out}},
	}, Edges: []Edge{{From: "s.out", To: "t.in"}}}
	rr := RunWorkflow(d, RunOpts{Dir: cwd})
	ctx.Res.Eval("e2e:"+c.Out+"|"+c.In, true, c)
	shape := "plain"
	switch {
	case filepath.IsAbs(out):
		shape = "absolute"
	case strings.HasPrefix(out, "../"):
		shape = "parent"
	case strings.Contains(out, "/"):
		shape = "nested"
	}
	ctx.Res.Count("e2e-out=" + shape)
	if rr.Exit != 0 {
		ctx.Res.Violate(Violation{What: fmt.Sprintf("valid output path %q / input %q: workflow exited %d: %s", out, in, rr.Exit, tail(rr.Stderr)), Class: "c13.run-failed", Witness: c})
		return
	}
	got, err := ioutil.ReadFile(outAbs)
	if err != nil || string(got) != "INPUT\nTOKEN\n" {
		ctx.Res.Violate(Violation{What: fmt.Sprintf("declared output %q: expected the command's bytes at %s, found %q (err %v)", out, outAbs, string(got), err), Class: "c13.not-at-declared-path", Witness: c})
	}
	for _, extra := range []string{"side.dat", "sd/deep.dat"} {
		if _, err := os.Stat(filepath.Join(cwd, extra)); err != nil {
			ctx.Res.Violate(Violation{What: fmt.Sprintf("extra file %s was not moved to the same relative location under the working directory", extra), Class: "c13.extra-lost", Witness: c})
		}
	}
	// model: the command text scipipe built equals the model's
	if l := leftovers(root); len(l) > 0 {
		ctx.Res.Violate(Violation{What: fmt.Sprintf("temp dir left behind: %v", l), Class: "c13.leftover", Witness: c})
	}
}

func checkC13(ctx *Ctx) {
	ctx.Res.Rule = "pure functions (TempPath, encode/decode of parent dirs, decoding of extra files, prependParentDirPath, pathIsValid, command formatting of {o:..}/{i:..}) over the exhaustive path grammar {\"\", /, ./, ../, ../../} x segments {a, b.txt, x_y, .., ., __parent__, __fsroot__, parent__, x.., ..x, __}^(1..depth) (depth 3 quick, 4 thorough) plus random long paths, real code vs Lean model; end-to-end one-task workflows over plain / nested-new-dir / ../ (existing destination) / absolute output and input paths: the command's bytes must be found at exactly the declared path and extras beside; non-trivial = path has a separator or a special segment; distinct by request."
	w := &Worker{}
	defer w.Close()
	depth := 3
	if ctx.Thorough() {
		depth = 4
	}
	paths := pathGrammar(depth)
	r := NewRng(ctx.Seed)
	// random long paths
	for i := 0; i < 200; i++ {
		n := 5 + r.Intn(30)
		segs := []string{}
		for k := 0; k < n; k++ {
			segs = append(segs, []string{"a", "..", "dir", "__parent__", "x.y", "_", "...", "__parent", "parent__"}[r.Intn(9)])
		}
		paths = append(paths, []string{"", "/", "../"}[r.Intn(3)]+strings.Join(segs, "/"))
	}
	for i, p := range paths {
		if !ctx.TimeLeft() {
			break
		}
		nt := strings.ContainsAny(p, "/_")
		ctx.diff(w, "c13.tmppath", nt, "tmppath", p)
		ctx.diff(w, "c13.enc", nt, "enc", p)
		ctx.diff(w, "c13.dec", nt, "dec", p)
		ctx.diff(w, "c13.decextra", nt, "decextra", p)
		ctx.diff(w, "c13.prepend", nt, "prepend", p)
		ctx.diff(w, "c13.validpath", nt, "validpath", p)
		if i%7 == 0 {
			// the command text for this path as output and as input
			ctx.diff(w, "c13.fmt-o", nt, "fmtcmd", "w > {o:out}", "", "", "out"+RS+p, "", "", "")
			ctx.diff(w, "c13.fmt-i", nt, "fmtcmd", "r {i:in}", "in"+RS+p, "", "", "", "", "")
		}
	}
	// malformed stream for the validator
	for _, p := range []string{"", "a b", "a\x00b", "é", "a*", "~", "a:b", "a,b", "a\\b", "a+b"} {
		ctx.diff(w, "c13.validpath", true, "validpath", p)
	}
	// end to end
	outs := []string{"o.txt", "sub/o.txt", "new/deep/er/o.txt", "../sib/o.txt", "../../top/o.txt", "@/abs/o.txt", "@/abs/run/../results/o.txt", "@/abs/../abs2/o.txt", "a.b/c.d/o.e.f", "x_y/o-1.txt", "../l2/back.txt", "sub/../o2.txt", "./dot/o.txt", "__parent/o.txt",
		// valid names that look like the encoding's own placeholders: the declared output must still end up at exactly that path
		"__parent__report.txt", "__fsroot__/a/o.txt", "d/__parent__x/o.txt", "__fsroot__o.txt"}
	ins := []string{"i.txt", "data/i.txt", "../up/i.txt", "@/absin/i.txt", "../../two/i.txt", "./.hid/i.txt", "./../up2/i.txt", "./dot/i.txt"}
	cases := []e2ePath{}
	for _, o := range outs {
		for j, in := range ins {
			if !ctx.Thorough() && j > 1 && o != "o.txt" {
				continue
			}
			cases = append(cases, e2ePath{Out: o, In: in})
		}
	}
	parallel(len(cases), 8, func(i int) {
		if ctx.TimeLeft() {
			runC13E2E(ctx, cases[i])
		}
	})
}

func init() { checks["C13"] = checkC13 }
