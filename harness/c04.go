package main

import (
	"fmt"
	"os"
	"path/filepath"
	"sort"
	"strings"
)

// C04: every input set exactly once, every item to every consumer. Random DAG workflows over the
// whole graph grammar x stream lengths around the buffer size x SCIPIPE_BUFSIZE x slots; the
// oracle simulates the graph with zip semantics; per process the tuples are also asked of the Lean
// task-creation model.

type emitted struct {
	path    string // file path, or the parameter value
	content string
}

// expected files of a DAG (zip semantics), and per process the number of tasks
func (g Dag) simulate() (map[string]string, map[string][]emitted) {
	em := map[string][]emitted{}
	files := map[string]string{}
	for _, n := range g.Nodes {
		switch n.Kind {
		case "src":
			for i := 0; i < n.Items; i++ {
				p := fmt.Sprintf("%s_%d.txt", n.Name, i)
				em[n.Name] = append(em[n.Name], emitted{p, "src:" + p + "\n"})
			}
		case "psrc":
			for _, v := range n.PVals {
				em[n.Name] = append(em[n.Name], emitted{v, ""})
			}
		case "pcomb":
			em[n.Name] = append([]emitted{}, em[n.PIn]...)
		case "proc":
			k := -1
			upd := func(m int) {
				if k < 0 || m < k {
					k = m
				}
			}
			for _, u := range n.Ins {
				upd(len(em[u]))
			}
			var pv []string
			if n.PIn == "@" {
				pv = n.PVals
				upd(len(pv))
			} else if n.PIn != "" {
				for _, e := range em[n.PIn] {
					pv = append(pv, e.path)
				}
				upd(len(pv))
			}
			if k < 0 {
				k = 1
			}
			for t := 0; t < k; t++ {
				name := n.Name
				content := ""
				for _, u := range n.Ins {
					name += "." + filepath.Base(em[u][t].path)
					content += em[u][t].content
				}
				params := ""
				if n.PIn != "" {
					name += "." + pv[t]
					params = "p=" + pv[t]
				}
				if n.NoOut {
					em[n.Name] = append(em[n.Name], emitted{"", ""})
					continue
				}
				if n.Aux {
					em[n.Name+"#aux"] = append(em[n.Name+"#aux"], emitted{name + ".x", content + n.Name + "|aux|" + params + "\n"})
					files[name+".x"] = content + n.Name + "|aux|" + params + "\n"
				}
				content += n.Name + "|out|" + params + "\n"
				em[n.Name] = append(em[n.Name], emitted{name + ".o", content})
				files[name+".o"] = content
			}
		}
	}
	return files, em
}

// metadata of the nodes in netEncode's order, for the Lean network model with values
func netMetas(g Dag) []string {
	out := []string{}
	for _, n := range g.Nodes {
		switch n.Kind {
		case "src":
			out = append(out, n.Name+":src:0:")
		case "psrc":
			out = append(out, n.Name+":psrc:0:"+strings.Join(n.PVals, ","))
		case "proc":
			if n.PIn == "@" {
				out = append(out, n.Name+"@feeder:psrc:0:"+strings.Join(n.PVals, ","))
			}
			takes := ""
			for _, u := range n.Ins {
				if strings.HasSuffix(u, "#aux") {
					takes += "x"
				} else {
					takes += "o"
				}
			}
			aux := "0"
			if n.Aux {
				aux = "1"
			}
			out = append(out, fmt.Sprintf("%s:proc:%d::%s:%s", n.Name, len(n.Ins), takes, aux))
		}
	}
	return out
}

// the files the real run wrote against the Lean network model with values (Model/NetVal.lean: a maximal run under
// a schedule of its own; Props/C04 proves that every schedule yields the zip-semantics streams)
func netValues(ctx *Ctx, c c04Case, dir string, balanced bool) {
	names, ins, src, ok := netEncode(c.Dag)
	if !ok {
		ctx.Res.Count("net-values=not-covered")
		return
	}
	resp := ctx.Drv.Ask("net.values", fmt.Sprint(len(names)), strings.Join(ins, ";"), strings.Join(src, ","), fmt.Sprint(c.Buf), strings.Join(netMetas(c.Dag), ";"))
	parts := strings.Split(resp, "\x1f")
	if len(parts) != len(names)+1 || parts[0] != "zip=true" {
		ctx.Res.Disagree(Violation{What: fmt.Sprintf("network model with values: unexpected answer %.120q", resp), Class: "c04.netval", Witness: c})
		return
	}
	ctx.Res.Count("net-values=compared")
	want := map[string]string{}
	for i, nm := range names {
		nd := c.Dag.node(nm)
		if nd == nil || nd.Kind != "proc" || nd.NoOut || parts[i+1] == "" {
			continue
		}
		for _, item := range strings.Split(parts[i+1], "\x1d") {
			f := strings.Split(item, "\x1e")
			want[f[0]] = strings.Join(f[1:], "\n") + "\n"
		}
	}
	for p, w := range want {
		s, ok := readFile(dir, p)
		if !ok && !balanced {
			continue // F20b: upstream of an abandoned port the number of tasks is timing dependent
		}
		if !ok {
			ctx.Res.Disagree(Violation{What: fmt.Sprintf("the network model with values has process output %s, the real run has no such file", p), Class: "c04.netval", Witness: c})
		} else if s != w {
			ctx.Res.Disagree(Violation{What: fmt.Sprintf("output %s holds %q, the network model with values says %q", p, s, w), Class: "c04.netval", Witness: c})
		}
	}
	if balanced {
		for p := range listFiles(dir) {
			if _, ok := want[p]; (strings.HasSuffix(p, ".o") || strings.HasSuffix(p, ".x")) && !ok {
				ctx.Res.Disagree(Violation{What: fmt.Sprintf("the real run wrote %s, which no schedule of the network model with values produces", p), Class: "c04.netval", Witness: c})
			}
		}
	}
}

type c04Case struct {
	Dag Dag `json:"dag"`
	Buf int `json:"bufsize"`
}

func runC04(ctx *Ctx, c c04Case) {
	c04Balanced := c.Dag.balanced()
	d, pre := c.Dag.desc()
	rr := RunWorkflow(d, RunOpts{Pre: pre, Timeout: 25e9, Env: []string{fmt.Sprintf("SCIPIPE_BUFSIZE=%d", c.Buf)}})
	defer os.RemoveAll(rr.Dir)
	files, em := c.Dag.simulate()
	total := 0
	for _, n := range c.Dag.Nodes {
		if n.Kind == "proc" {
			total += len(em[n.Name])
		}
	}
	ctx.Res.Eval(fmt.Sprintf("%v", c), total >= 2, c)
	ctx.Res.Count(fmt.Sprintf("bufsize=%d", c.Buf))
	for _, n := range c.Dag.Nodes {
		if n.Aux {
			ctx.Res.Count("process-with-two-out-ports")
			break
		}
	}
	for _, n := range c.Dag.Nodes {
		if n.Kind == "proc" && len(em[n.Name]) > c.Buf {
			ctx.Res.Count("stream>buffer")
			break
		}
	}
	if rr.Exit != 0 || !rr.Returned {
		if !c.Dag.balanced() && (rr.Exit == 2 || rr.Exit == -2) {
			ctx.Res.Count("unbalanced-deadlock(C05's F20)")
			return
		}
		if c.Dag.reconvergingBatch() && (rr.Exit == 2 || rr.Exit == -2) {
			ctx.Res.Count("batch-deadlock(C05's F23)")
			return
		}
		ctx.Res.Violate(Violation{What: fmt.Sprintf("workflow exited %d: %s", rr.Exit, firstLine(rr.Stderr)), Class: "c04.run-failed", Witness: c})
		return
	}
	started := startedPerProc(rr.CmdTrace)
	perTask := startedTasks(rr.CmdTrace)
	// F20: in an unbalanced graph a consumer abandons its ports; producers may be cut off when the
	// program ends (or block): count / file-set differences there are that finding
	cls := func(c string) string {
		if !c04Balanced {
			return "c04.unbalanced"
		}
		return c
	}
	_ = cls
	for _, n := range c.Dag.Nodes {
		if n.Kind != "proc" {
			continue
		}
		if started[n.Name] != len(em[n.Name]) {
			ctx.Res.Violate(Violation{What: fmt.Sprintf("process %s executed %d tasks, the graph and its inputs determine %d", n.Name, started[n.Name], len(em[n.Name])), Class: cls("c04.task-count"), Witness: c})
		}
	}
	for k, cnt := range perTask {
		if cnt > 1 && !strings.HasSuffix(k, " noout") && !strings.Contains(k, " noout") {
			ctx.Res.Violate(Violation{What: fmt.Sprintf("input set %s was processed %d times", k, cnt), Class: "c04.duplicate", Witness: c})
		}
	}
	// the file set and contents are the function of graph + inputs the oracle computes
	got := listFiles(rr.Dir)
	for p, want := range files {
		s, ok := readFile(rr.Dir, p)
		if !ok {
			ctx.Res.Violate(Violation{What: fmt.Sprintf("expected output %s is missing", p), Class: cls("c04.missing-file"), Witness: c})
		} else if s != want {
			ctx.Res.Violate(Violation{What: fmt.Sprintf("output %s holds %q, expected %q", p, s, want), Class: cls("c04.content"), Witness: c})
		}
	}
	extra := []string{}
	for p := range got {
		if strings.HasSuffix(p, ".o") || strings.HasSuffix(p, ".x") {
			if _, ok := files[p]; !ok {
				extra = append(extra, p)
			}
		}
	}
	sort.Strings(extra)
	if len(extra) > 0 {
		ctx.Res.Violate(Violation{What: fmt.Sprintf("unexpected outputs %v (an item was paired differently or processed twice)", extra), Class: cls("c04.extra-file"), Witness: c})
	}
	netValues(ctx, c, rr.Dir, c04Balanced)
	// Lean task-creation model on the delivered streams of one multi-port process
	for _, n := range c.Dag.Nodes {
		if n.Kind == "proc" && len(n.Ins) >= 1 {
			ports := []string{}
			for _, u := range n.Ins {
				idx := []string{}
				for i := range em[u] {
					idx = append(idx, fmt.Sprint(i))
				}
				if len(idx) == 0 {
					ports = append(ports, "-")
				} else {
					ports = append(ports, strings.Join(idx, ","))
				}
			}
			resp := ctx.Drv.Ask("createtasks", strings.Join(ports, ";"))
			ntasks := 0
			if resp != "" {
				ntasks = len(strings.Split(resp, ";"))
			}
			want := len(em[n.Name])
			if n.PIn != "" {
				continue // the parameter stream is a further port; covered by the count check
			}
			if !c04Balanced && ntasks == want && started[n.Name] < want {
				// F20b: upstream of an abandoned port the number of tasks that get created before the
				// program ends depends on timing (reported above as c04.unbalanced)
				ctx.Res.Count("unbalanced-cutoff(F20b)")
				break
			}
			if ntasks != want || ntasks != started[n.Name] {
				ctx.Res.Disagree(Violation{What: fmt.Sprintf("process %s: model builds %d tasks, oracle %d, real %d", n.Name, ntasks, want, started[n.Name]), Class: "c04.model", Witness: c})
			}
			break
		}
	}
}

// a process without out-ports drives the workflow while its upstream also feeds an out-port that only the sink
// consumes: every input set reaches the driver only if the sink drains that port while the driver runs
func sinkDrains(ctx *Ctx, items, buf int, runTo bool) {
	paths := []string{}
	pre := map[string]string{}
	for i := 0; i < items; i++ {
		p := fmt.Sprintf("g%02d.txt", i)
		paths = append(paths, p)
		pre[p] = p + "\n"
	}
	d := &Desc{Name: "c04sink", Max: 4, Nodes: []Node{{Name: "src", Kind: "filesource", Paths: paths},
		{Name: "gen", Kind: "proc", Cmd: "( cat {i:in} > {o:a} ; cat {i:in} > {o:b} )", Outs: map[string]string{"a": "{i:in}.a", "b": "{i:in}.b"}},
		{Name: "report", Kind: "proc", Cmd: "( cat {i:in} >> ../report.log )"}},
		Edges: []Edge{{From: "src.out", To: "gen.in"}, {From: "gen.a", To: "report.in"}}}
	if runTo {
		d.RunTo, d.RunToKind = []string{"report"}, "name" // a partial run whose final process has no out-ports
	}
	rr := RunWorkflow(d, RunOpts{Pre: pre, Timeout: 20e9, Env: []string{fmt.Sprintf("SCIPIPE_BUFSIZE=%d", buf)}})
	defer os.RemoveAll(rr.Dir)
	w := []interface{}{items, buf, runTo}
	ctx.Res.Eval(fmt.Sprintf("sink-drains items=%d bufsize=%d runto=%v", items, buf, runTo), true, w)
	ctx.Res.Count("driver-without-out-ports+sink")
	got, _ := readFile(rr.Dir, "report.log")
	n := strings.Count(got, "\n")
	seen := map[string]int{}
	for _, l := range strings.Split(strings.TrimSpace(got), "\n") {
		seen[l]++
	}
	if rr.Exit == 0 && n == items && len(seen) != items {
		ctx.Res.Violate(Violation{What: fmt.Sprintf("the driver processed %d input sets of which only %d are distinct (%d items sent): a set was processed twice, another not at all", n, len(seen), items), Class: "c04.duplicate", Witness: w})
	}
	if rr.Exit != 0 || n != items {
		ctx.Res.Violate(Violation{What: fmt.Sprintf("a driver without out-ports processed %d of %d input sets while its upstream also feeds the sink (SCIPIPE_BUFSIZE=%d, exit %d): %s", n, items, buf, rr.Exit, firstLine(rr.Stderr)), Class: "c04.sink-drain", Witness: w})
	}
}

// RunTo a process without out-ports that has two in-ports (it drives the partial run): every input set is the pair
// of files made from one source file, each pair exactly once
func runToPairs(ctx *Ctx, items, buf int) {
	paths := []string{}
	pre := map[string]string{}
	for i := 0; i < items; i++ {
		p := fmt.Sprintf("h%02d.txt", i)
		paths = append(paths, p)
		pre[p] = p + "\n"
	}
	d := &Desc{Name: "c04pairs", Max: 4, Nodes: []Node{{Name: "src", Kind: "filesource", Paths: paths},
		{Name: "gen", Kind: "proc", Cmd: "( cat {i:in} > {o:a} ; cat {i:in} > {o:b} )", Outs: map[string]string{"a": "{i:in}.a", "b": "{i:in}.b"}},
		{Name: "report", Kind: "proc", Cmd: "( echo {i:x|basename} {i:y|basename} >> ../pairs.log )"},
		{Name: "other", Kind: "proc", Cmd: "( cat {i:in} > {o:out} )", Outs: map[string]string{"out": "{i:in}.other"}}},
		Edges: []Edge{{From: "src.out", To: "gen.in"}, {From: "gen.a", To: "report.x"}, {From: "gen.b", To: "report.y"}, {From: "gen.b", To: "other.in"}},
		RunTo: []string{"report"}, RunToKind: "name"}
	rr := RunWorkflow(d, RunOpts{Pre: pre, Timeout: 20e9, Env: []string{fmt.Sprintf("SCIPIPE_BUFSIZE=%d", buf)}})
	defer os.RemoveAll(rr.Dir)
	w := []int{items, buf}
	ctx.Res.Eval(fmt.Sprintf("runto-pairs items=%d bufsize=%d", items, buf), true, w)
	ctx.Res.Count("RunTo-driver-with-two-in-ports")
	got, _ := readFile(rr.Dir, "pairs.log")
	seen := map[string]int{}
	for _, l := range strings.Split(strings.TrimSpace(got), "\n") {
		f := strings.Fields(l)
		if len(f) == 2 && strings.TrimSuffix(f[0], ".a") == strings.TrimSuffix(f[1], ".b") {
			seen[strings.TrimSuffix(f[0], ".a")]++
		} else if l != "" {
			ctx.Res.Violate(Violation{What: fmt.Sprintf("RunTo(report): the task received the input set %q, whose members come from different source files", l), Class: "c04.mispaired", Witness: w})
			return
		}
	}
	if rr.Exit != 0 || len(seen) != items {
		ctx.Res.Violate(Violation{What: fmt.Sprintf("RunTo(report): %d of %d input sets were processed (exit %d): %s", len(seen), items, rr.Exit, firstLine(rr.Stderr)), Class: "c04.sink-drain", Witness: w})
		return
	}
	for k, c := range seen {
		if c != 1 {
			ctx.Res.Violate(Violation{What: fmt.Sprintf("RunTo(report): the input set of %s was processed %d times", k, c), Class: "c04.duplicate", Witness: w})
			return
		}
	}
}

func checkC04(ctx *Ctx) {
	ctx.Res.Rule = "random acyclic workflows (chains, diamonds, fan-out, fan-in free multi-port and multi-edge processes, processes with a second out-port (consumed downstream or left to the sink), FromStr / ParamSource parameter ports, processes without ports or without out-ports), balanced and unbalanced stream lengths 0-7 against SCIPIPE_BUFSIZE in {1,2,3,128}, maxConcurrentTasks 1-4; non-trivial = at least two tasks; distinct by (graph, bufsize). Checks: per process the number of executed commands, no input set twice, file set and every file's bytes equal to the zip-semantics oracle, and the Lean task-creation model's task count; channel model searched exhaustively for small parameters."
	r := NewRng(ctx.Seed)
	n := 30
	if ctx.Thorough() {
		n = 400
	}
	cases := []c04Case{}
	// fan-out to three consumers, streams longer than the buffer
	cases = append(cases, c04Case{Buf: 1, Dag: Dag{Max: 3, Nodes: []DNode{{Name: "s0", Kind: "src", Items: 5},
		{Name: "P0", Kind: "proc", Ins: []string{"s0"}}, {Name: "P1", Kind: "proc", Ins: []string{"P0"}}, {Name: "P2", Kind: "proc", Ins: []string{"P0"}}, {Name: "P3", Kind: "proc", Ins: []string{"P0", "P0"}}}}})
	for i := 0; i < n; i++ {
		if i%4 == 0 {
			cases = append(cases, c04Case{Dag: genDag(r, true, 7), Buf: []int{1, 2, 3, 128}[r.Intn(4)]})
		} else {
			cases = append(cases, c04Case{Dag: genBalancedDag(r, true, 7), Buf: []int{1, 2, 3, 128}[r.Intn(4)]})
		}
	}
	sinkDrains(ctx, 12, 1, false)
	sinkDrains(ctx, 9, 2, false)
	for k := 0; k < 3; k++ { // repeated: two run loops of one process, should they exist, race for the items
		sinkDrains(ctx, 24, 2, true)
		runToPairs(ctx, 24, 2)
		runToPairs(ctx, 16, 128)
	}
	parallel(len(cases), 8, func(i int) {
		if ctx.TimeLeft() {
			runC04(ctx, cases[i])
		}
	})
	// channel model, exhaustively, for small parameters (support)
	states := 0
	for _, q := range []struct{ b, s string }{{"1", "1,2,3"}, {"1", "1,2;7,8"}, {"2", "1,2,3;;5"}, {"3", "1;2;3"}, {"1", ";"}} {
		resp := ctx.Drv.Ask("chan.search", q.b, q.s)
		var st int
		fmt.Sscanf(strings.TrimPrefix(resp, "ok "), "states=%d", &st)
		states += st
		if !strings.HasPrefix(resp, "ok") {
			ctx.Res.Note("channel model search: " + resp)
		}
	}
	ctx.Res.Extra["channel_model_states"] = states
}

func init() { checks["C04"] = checkC04 }
