import SciVerif.Model.Slots
import SciVerif.Lemmas.Slots
