-- Root of the SciVerif library: everything `bin/setup` pre-builds.
import SciVerif.Props.C01
import SciVerif.Props.C06
import SciVerif.Props.C07
import SciVerif.Tie.C01
import SciVerif.Tie.C06
import SciVerif.Tie.C07
import SciVerif.Props.C02
import SciVerif.Props.C03
import SciVerif.Props.C09
import SciVerif.Tie.C02
import SciVerif.Tie.C03
import SciVerif.Tie.C09
import SciVerif.Props.C14
import SciVerif.Props.C15
import SciVerif.Tie.C14
import SciVerif.Tie.C15
