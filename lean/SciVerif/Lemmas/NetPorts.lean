import SciVerif.Model.NetPorts
import SciVerif.Lemmas.Net
/-! Invariant, deadlock freedom and finiteness of the network model at the granularity of channel operations. -/
namespace SciVerif.NetPorts
open SciVerif.Net

variable {n : Nat}

theorem sender_lt (net : Net n) (w : Fin n) (i : Nat) (v : Fin n) (h : sender net w i = some v) :
    i < (net.ins w).length := by
  unfold sender at h
  exact (List.getElem?_eq_some_iff.1 h).1

theorem sender_of_lt (net : Net n) (w : Fin n) (i : Nat) (h : i < (net.ins w).length) :
    ∃ v, sender net w i = some v := ⟨(net.ins w)[i], by unfold sender; exact List.getElem?_eq_getElem h⟩

theorem sender_mem (net : Net n) (w : Fin n) (i : Nat) (v : Fin n) (h : sender net w i = some v) : v ∈ net.ins w := by
  unfold sender at h
  exact List.mem_of_getElem? h

theorem mem_conns (net : Net n) (v w : Fin n) (i : Nat) : (w, i) ∈ conns net v ↔ sender net w i = some v := by
  unfold conns
  simp only [List.mem_flatMap, List.mem_map, List.mem_filter, List.mem_range, List.mem_finRange, true_and,
    Prod.mk.injEq, beq_iff_eq]
  constructor
  · rintro ⟨w', i', ⟨_, hs⟩, rfl, rfl⟩; exact hs
  · intro h; exact ⟨w, i, ⟨sender_lt net w i v h, h⟩, rfl, rfl⟩

theorem mem_zipIdx (net : Net n) (v u : Fin n) (i : Nat) : (u, i) ∈ (net.ins v).zipIdx ↔ sender net v i = some u := by
  unfold sender
  rw [List.mem_zipIdx_iff_getElem?]

structure FInv (net : Net n) (N : Nat) (s : FSt n) : Prop where
  fc  : ∀ v, s.f v ≤ s.c v
  cN  : ∀ v, s.c v ≤ N
  sf  : ∀ w i v, sender net w i = some v → s.f v ≤ s.s w i ∧ s.s w i ≤ s.f v + 1 ∧ s.s w i ≤ s.c v
  rc  : ∀ w i, i < (net.ins w).length → s.c w ≤ s.r w i ∧ s.r w i ≤ s.c w + 1 ∧ s.r w i ≤ s.s w i
  cap : ∀ w i, i < (net.ins w).length → s.s w i ≤ s.r w i + net.B
  tm  : ∀ v, s.term v = true → s.c v = N ∧ s.f v = N

theorem finv_init (net : Net n) (N : Nat) : FInv net N (finit n) :=
  ⟨fun _ => Nat.le_refl _, fun _ => Nat.zero_le _, fun _ _ _ _ => ⟨Nat.le_refl _, Nat.zero_le _, Nat.le_refl _⟩,
   fun _ _ _ => ⟨Nat.le_refl _, Nat.zero_le _, Nat.le_refl _⟩, fun _ _ _ => Nat.zero_le _,
   fun _ h => by simp [finit] at h⟩

theorem upd2_same (g : Fin n → Nat → Nat) (a : Fin n) (i x : Nat) : upd2 g a i x a i = x := by simp [upd2]
theorem upd2_other (g : Fin n → Nat → Nat) (a a' : Fin n) (i i' x : Nat) (h : ¬(a' = a ∧ i' = i)) :
    upd2 g a i x a' i' = g a' i' := by simp [upd2, h]

theorem canSend_iff (net : Net n) (s : FSt n) (w : Fin n) (i : Nat) (v : Fin n) (h : sender net w i = some v) :
    canSend net s w i ↔ (s.f v < s.c v ∧ s.s w i = s.f v ∧ s.s w i < s.r w i + net.B) := by
  unfold canSend; rw [h]

theorem canSend_sender (net : Net n) (s : FSt n) (w : Fin n) (i : Nat) (h : canSend net s w i) :
    ∃ v, sender net w i = some v := by
  unfold canSend at h
  cases hs : sender net w i with
  | none => rw [hs] at h; exact absurd h (by simp)
  | some v => exact ⟨v, rfl⟩

theorem fstep_inv (net : Net n) (N : Nat) (hbal : balanced net N) (s s' : FSt n) (l : FLbl n)
    (h : FInv net N s) (hs : fstep net s l = some s') : FInv net N s' := by
  cases l with
  | recv w i =>
    simp only [fstep] at hs
    split at hs
    · rename_i hg
      simp only [Option.some.injEq] at hs; subst hs
      obtain ⟨hi, _, hrc, hrs⟩ := hg
      refine ⟨h.fc, h.cN, h.sf, ?_, ?_, h.tm⟩
      · intro w' i' hi'
        by_cases he : w' = w ∧ i' = i
        · obtain ⟨rfl, rfl⟩ := he
          simp only [upd2_same]
          omega
        · simp only [upd2_other _ _ _ _ _ _ he]; exact h.rc w' i' hi'
      · intro w' i' hi'
        by_cases he : w' = w ∧ i' = i
        · obtain ⟨rfl, rfl⟩ := he
          simp only [upd2_same]
          have := h.cap w' i' hi'; omega
        · simp only [upd2_other _ _ _ _ _ _ he]; exact h.cap w' i' hi'
    · simp at hs
  | create v =>
    simp only [fstep] at hs
    split at hs
    · rename_i hg
      simp only [Option.some.injEq] at hs; subst hs
      obtain ⟨hnt, hg⟩ := hg
      have hcv : s.c v < N := by
        split at hg
        · rename_i hsrc
          have := hbal v hsrc; omega
        · rename_i hne
          have hlen : 0 < (net.ins v).length := by
            cases hi : net.ins v with
            | nil => simp [hi] at hne
            | cons u us => simp
          obtain ⟨u, hu⟩ := sender_of_lt net v 0 hlen
          have h1 := hg 0 hlen
          have h2 := h.rc v 0 hlen
          have h3 := h.sf v 0 u hu
          have h4 := h.cN u
          omega
      refine ⟨?_, ?_, ?_, ?_, h.cap, ?_⟩
      · intro w
        by_cases hw : w = v
        · subst hw; simp only [upd_same]; have := h.fc w; omega
        · simp only [upd_other _ _ _ _ hw]; exact h.fc w
      · intro w
        by_cases hw : w = v
        · subst hw; simp only [upd_same]; omega
        · simp only [upd_other _ _ _ _ hw]; exact h.cN w
      · intro w i x hx
        have := h.sf w i x hx
        by_cases hw : x = v
        · subst hw; simp only [upd_same]; omega
        · simp only [upd_other _ _ _ _ hw]; exact this
      · intro w i hi
        have := h.rc w i hi
        by_cases hw : w = v
        · subst hw
          simp only [upd_same]
          split at hg
          · rename_i hsrc
            have : net.ins w = [] := List.isEmpty_iff.1 hsrc
            rw [this] at hi; simp at hi
          · have := hg i hi; omega
        · simp only [upd_other _ _ _ _ hw]; exact this
      · intro w hw
        have hne : w ≠ v := by intro he; subst he; simp [hnt] at hw
        simp only [upd_other _ _ _ _ hne]
        exact h.tm w hw
    · simp at hs
  | send w i =>
    simp only [fstep] at hs
    split at hs
    · rename_i hg
      simp only [Option.some.injEq] at hs; subst hs
      obtain ⟨v, hv⟩ := canSend_sender net s w i hg
      obtain ⟨hfc, hsf, hroom⟩ := (canSend_iff net s w i v hv).1 hg
      have hi := sender_lt net w i v hv
      refine ⟨h.fc, h.cN, ?_, ?_, ?_, h.tm⟩
      · intro w' i' x hx
        by_cases he : w' = w ∧ i' = i
        · obtain ⟨rfl, rfl⟩ := he
          have : x = v := by rw [hv] at hx; exact (Option.some.inj hx).symm
          subst this
          simp only [upd2_same]; omega
        · simp only [upd2_other _ _ _ _ _ _ he]; exact h.sf w' i' x hx
      · intro w' i' hi'
        have := h.rc w' i' hi'
        by_cases he : w' = w ∧ i' = i
        · obtain ⟨rfl, rfl⟩ := he
          simp only [upd2_same]; omega
        · simp only [upd2_other _ _ _ _ _ _ he]; exact this
      · intro w' i' hi'
        by_cases he : w' = w ∧ i' = i
        · obtain ⟨rfl, rfl⟩ := he
          simp only [upd2_same]; omega
        · simp only [upd2_other _ _ _ _ _ _ he]; exact h.cap w' i' hi'
    · simp at hs
  | forward v =>
    simp only [fstep] at hs
    split at hs
    · rename_i hg
      simp only [Option.some.injEq] at hs; subst hs
      obtain ⟨hfc, hall⟩ := hg
      refine ⟨?_, h.cN, ?_, h.rc, h.cap, ?_⟩
      · intro w
        by_cases hw : w = v
        · subst hw; simp only [upd_same]; omega
        · simp only [upd_other _ _ _ _ hw]; exact h.fc w
      · intro w i x hx
        have := h.sf w i x hx
        by_cases hw : x = v
        · subst hw
          simp only [upd_same]
          have := hall (w, i) ((mem_conns net x w i).2 hx)
          simp only at this
          omega
        · simp only [upd_other _ _ _ _ hw]; exact this
      · intro w hw
        have := h.tm w hw
        by_cases he : w = v
        · subst he; omega
        · simp only [upd_other _ _ _ _ he]; exact this
    · simp at hs
  | terminate v =>
    simp only [fstep] at hs
    split at hs
    · rename_i hg
      simp only [Option.some.injEq] at hs; subst hs
      obtain ⟨_, hcf, hg⟩ := hg
      refine ⟨h.fc, h.cN, h.sf, h.rc, h.cap, ?_⟩
      intro w hw
      by_cases he : w = v
      · subst he
        show s.c w = N ∧ s.f w = N
        split at hg
        · rename_i hsrc
          have := hbal w hsrc; omega
        · obtain ⟨⟨u, i⟩, hp, hut, hrs, hrc⟩ := hg
          have hu := (mem_zipIdx net w u i).1 hp
          have := h.tm u hut
          have := h.sf w i u hu
          simp only at hrs hrc
          omega
      · simp only [upd_other _ _ _ _ he] at hw
        exact h.tm w hw
    · simp at hs

theorem frun_inv (net : Net n) (N : Nat) (hbal : balanced net N) (ls : List (FLbl n)) :
    ∀ s s', FInv net N s → frun net s ls = some s' → FInv net N s' := by
  induction ls with
  | nil => intro s s' h hr; simp [frun] at hr; subst hr; exact h
  | cons l ls ih =>
    intro s s' h hr
    simp only [frun] at hr
    split at hr
    · simp at hr
    · rename_i s1 h1
      exact ih s1 s' (fstep_inv net N hbal s s1 l h h1) hr

/-- in a state satisfying the invariant in which no channel operation is enabled every process has returned -/
theorem fno_stuck (net : Net n) (N : Nat) (hbal : balanced net N) (hac : acyclic net) (hB : 1 ≤ net.B)
    (s : FSt n) (h : FInv net N s) (hst : fstuck net s) : ∀ v, s.term v = true := by
  suffices H : ∀ (k r : Nat) (v : Fin n), s.f v = k → v.val = r → s.term v = true from fun v => H _ _ v rfl rfl
  intro k
  induction k using Nat.strongRecOn with
  | _ k ihk =>
    intro r
    induction r using Nat.strongRecOn with
    | _ r ihr =>
      intro v hk hr
      cases hterm : s.term v with
      | true => rfl
      | false =>
        exfalso
        by_cases hlt : s.f v < s.c v
        · -- the oldest task waits to be sent on: on some connection it has not been sent and the channel is full
          have hf := hst (.forward v)
          simp only [fstep] at hf
          split at hf
          · simp at hf
          · rename_i hnf
            simp only [canForward, hlt, true_and] at hnf
            have : ∃ p ∈ conns net v, s.s p.1 p.2 ≠ s.f v + 1 := by
              apply Classical.byContradiction
              intro hno
              apply hnf
              intro p hp
              apply Classical.byContradiction
              intro hne
              exact hno ⟨p, hp, hne⟩
            obtain ⟨⟨w, i⟩, hp, hne⟩ := this
            simp only at hne
            have hvw : sender net w i = some v := (mem_conns net v w i).1 hp
            have hi := sender_lt net w i v hvw
            have hsf := h.sf w i v hvw
            have hsv : s.s w i = s.f v := by omega
            have hsend := hst (.send w i)
            simp only [fstep] at hsend
            split at hsend
            · simp at hsend
            · rename_i hns
              rw [canSend_iff net s w i v hvw] at hns
              have hrc := h.rc w i hi
              have hwt : s.term w = true := ihk (s.f w) (by have := h.fc w; omega) _ w rfl rfl
              have := h.tm w hwt
              have := h.cN v
              omega
        · have hcf : s.c v = s.f v := by have := h.fc v; omega
          have hc := hst (.create v)
          have ht := hst (.terminate v)
          simp only [fstep] at hc ht
          split at hc
          · simp at hc
          · rename_i hnc
            split at ht
            · simp at ht
            · rename_i hntm
              simp only [canCreate, hterm, true_and] at hnc
              simp only [canTerm, hterm, hcf, true_and] at hntm
              by_cases hsrc : (net.ins v).isEmpty = true
              · simp only [hsrc, if_true] at hnc hntm
                have := hbal v hsrc
                have := h.cN v
                omega
              · simp only [hsrc] at hnc hntm
                simp only [Bool.false_eq_true, if_false] at hnc hntm
                -- some in-port has not been read in this round, and nothing is there to read
                have : ∃ i, i < (net.ins v).length ∧ s.r v i ≠ s.c v + 1 := by
                  apply Classical.byContradiction
                  intro hno
                  apply hnc
                  intro i hi
                  apply Classical.byContradiction
                  intro hne
                  exact hno ⟨i, hi, hne⟩
                obtain ⟨i, hi, hne⟩ := this
                have hrc := h.rc v i hi
                have hru : s.r v i = s.c v := by omega
                have hrecv := hst (.recv v i)
                simp only [fstep] at hrecv
                split at hrecv
                · simp at hrecv
                · rename_i hnr
                  simp only [canRecv, hi, hterm, hru, true_and] at hnr
                  obtain ⟨u, hu⟩ := sender_of_lt net v i hi
                  have hsf := h.sf v i u hu
                  have hsu : s.s v i = s.c v := by omega
                  have hfu : s.f u ≤ s.f v := by omega
                  have hut : s.term u = true := by
                    by_cases hlt2 : s.f u < s.f v
                    · exact ihk (s.f u) (by omega) _ u rfl rfl
                    · exact ihr u.val (by have := hac v u (sender_mem net v i u hu); omega) u (by omega) rfl
                  exact hntm ⟨(u, i), (mem_zipIdx net v u i).2 hu, hut, by simp only; omega, by simp only; omega⟩

/-! ### arbitrary stream lengths: the only way to get stuck -/

structure FInv0 (net : Net n) (s : FSt n) : Prop where
  fc  : ∀ v, s.f v ≤ s.c v
  sf  : ∀ w i v, sender net w i = some v → s.f v ≤ s.s w i ∧ s.s w i ≤ s.f v + 1 ∧ s.s w i ≤ s.c v
  rc  : ∀ w i, i < (net.ins w).length → s.c w ≤ s.r w i ∧ s.r w i ≤ s.c w + 1 ∧ s.r w i ≤ s.s w i
  src : ∀ v, (net.ins v).isEmpty = true → s.c v ≤ net.src v

theorem finv0_init (net : Net n) : FInv0 net (finit n) :=
  ⟨fun _ => Nat.le_refl _, fun _ _ _ _ => ⟨Nat.le_refl _, Nat.zero_le _, Nat.le_refl _⟩,
   fun _ _ _ => ⟨Nat.le_refl _, Nat.zero_le _, Nat.le_refl _⟩, fun _ _ => Nat.zero_le _⟩

theorem fstep_inv0 (net : Net n) (s s' : FSt n) (l : FLbl n) (h : FInv0 net s) (hs : fstep net s l = some s') :
    FInv0 net s' := by
  cases l with
  | recv w i =>
    simp only [fstep] at hs
    split at hs
    · rename_i hg
      simp only [Option.some.injEq] at hs; subst hs
      obtain ⟨hi, _, hrc, hrs⟩ := hg
      refine ⟨h.fc, h.sf, ?_, h.src⟩
      intro w' i' hi'
      by_cases he : w' = w ∧ i' = i
      · obtain ⟨rfl, rfl⟩ := he
        simp only [upd2_same]
        omega
      · simp only [upd2_other _ _ _ _ _ _ he]; exact h.rc w' i' hi'
    · simp at hs
  | create v =>
    simp only [fstep] at hs
    split at hs
    · rename_i hg
      simp only [Option.some.injEq] at hs; subst hs
      obtain ⟨hnt, hg⟩ := hg
      refine ⟨?_, ?_, ?_, ?_⟩
      · intro w
        by_cases hw : w = v
        · subst hw; simp only [upd_same]; have := h.fc w; omega
        · simp only [upd_other _ _ _ _ hw]; exact h.fc w
      · intro w i x hx
        have := h.sf w i x hx
        by_cases hw : x = v
        · subst hw; simp only [upd_same]; omega
        · simp only [upd_other _ _ _ _ hw]; exact this
      · intro w i hi
        have := h.rc w i hi
        by_cases hw : w = v
        · subst hw
          simp only [upd_same]
          split at hg
          · rename_i hsrc
            have : net.ins w = [] := List.isEmpty_iff.1 hsrc
            rw [this] at hi; simp at hi
          · have := hg i hi; omega
        · simp only [upd_other _ _ _ _ hw]; exact this
      · intro w hw
        by_cases he : w = v
        · subst he
          simp only [upd_same]
          simp only [hw, if_true] at hg
          omega
        · simp only [upd_other _ _ _ _ he]; exact h.src w hw
    · simp at hs
  | send w i =>
    simp only [fstep] at hs
    split at hs
    · rename_i hg
      simp only [Option.some.injEq] at hs; subst hs
      obtain ⟨v, hv⟩ := canSend_sender net s w i hg
      obtain ⟨hfc, hsf, hroom⟩ := (canSend_iff net s w i v hv).1 hg
      refine ⟨h.fc, ?_, ?_, h.src⟩
      · intro w' i' x hx
        by_cases he : w' = w ∧ i' = i
        · obtain ⟨rfl, rfl⟩ := he
          have : x = v := by rw [hv] at hx; exact (Option.some.inj hx).symm
          subst this
          simp only [upd2_same]; omega
        · simp only [upd2_other _ _ _ _ _ _ he]; exact h.sf w' i' x hx
      · intro w' i' hi'
        have := h.rc w' i' hi'
        by_cases he : w' = w ∧ i' = i
        · obtain ⟨rfl, rfl⟩ := he
          simp only [upd2_same]; omega
        · simp only [upd2_other _ _ _ _ _ _ he]; exact this
    · simp at hs
  | forward v =>
    simp only [fstep] at hs
    split at hs
    · rename_i hg
      simp only [Option.some.injEq] at hs; subst hs
      obtain ⟨hfc, hall⟩ := hg
      refine ⟨?_, ?_, h.rc, h.src⟩
      · intro w
        by_cases hw : w = v
        · subst hw; simp only [upd_same]; omega
        · simp only [upd_other _ _ _ _ hw]; exact h.fc w
      · intro w i x hx
        have := h.sf w i x hx
        by_cases hw : x = v
        · subst hw
          simp only [upd_same]
          have := hall (w, i) ((mem_conns net x w i).2 hx)
          simp only at this
          omega
        · simp only [upd_other _ _ _ _ hw]; exact this
    · simp at hs
  | terminate v =>
    simp only [fstep] at hs
    split at hs
    · simp only [Option.some.injEq] at hs; subst hs
      exact ⟨h.fc, h.sf, h.rc, h.src⟩
    · simp at hs

theorem frun_inv0 (net : Net n) (ls : List (FLbl n)) :
    ∀ s s', FInv0 net s → frun net s ls = some s' → FInv0 net s' := by
  induction ls with
  | nil => intro s s' h hr; simp [frun] at hr; subst hr; exact h
  | cons l ls ih =>
    intro s s' h hr
    simp only [frun] at hr
    split at hr
    · simp at hr
    · rename_i s1 h1
      exact ih s1 s' (fstep_inv0 net s s1 l h h1) hr

/-- whatever the stream lengths: if nothing can move and some process has not returned, then some unreturned
process is blocked sending on a connection whose reader has returned and left at least `B` of its items unread -/
theorem fstuck_root_cause (net : Net n) (hac : acyclic net) (hB : 1 ≤ net.B) (s : FSt n) (h : FInv0 net s)
    (hst : fstuck net s) :
    ∀ v0, s.term v0 = false →
      ∃ v w i, sender net w i = some v ∧ s.term v = false ∧ s.term w = true ∧ s.r w i + net.B ≤ s.s w i := by
  suffices H : ∀ (k r : Nat) (v : Fin n), s.f v = k → v.val = r → s.term v = false →
      ∃ v w i, sender net w i = some v ∧ s.term v = false ∧ s.term w = true ∧ s.r w i + net.B ≤ s.s w i from
    fun v hv => H _ _ v rfl rfl hv
  intro k
  induction k using Nat.strongRecOn with
  | _ k ihk =>
    intro r
    induction r using Nat.strongRecOn with
    | _ r ihr =>
      intro v hk hr hterm
      by_cases hlt : s.f v < s.c v
      · have hf := hst (.forward v)
        simp only [fstep] at hf
        split at hf
        · simp at hf
        · rename_i hnf
          simp only [canForward, hlt, true_and] at hnf
          have : ∃ p ∈ conns net v, s.s p.1 p.2 ≠ s.f v + 1 := by
            apply Classical.byContradiction
            intro hno
            apply hnf
            intro p hp
            apply Classical.byContradiction
            intro hne
            exact hno ⟨p, hp, hne⟩
          obtain ⟨⟨w, i⟩, hp, hne⟩ := this
          simp only at hne
          have hvw : sender net w i = some v := (mem_conns net v w i).1 hp
          have hi := sender_lt net w i v hvw
          have hsf := h.sf w i v hvw
          have hsv : s.s w i = s.f v := by omega
          have hsend := hst (.send w i)
          simp only [fstep] at hsend
          split at hsend
          · simp at hsend
          · rename_i hns
            rw [canSend_iff net s w i v hvw] at hns
            have hrc := h.rc w i hi
            cases hwt : s.term w with
            | true => exact ⟨v, w, i, hvw, hterm, hwt, by omega⟩
            | false => exact ihk (s.f w) (by have := h.fc w; omega) _ w rfl rfl hwt
      · have hcf : s.c v = s.f v := by have := h.fc v; omega
        have hc := hst (.create v)
        have ht := hst (.terminate v)
        simp only [fstep] at hc ht
        split at hc
        · simp at hc
        · rename_i hnc
          split at ht
          · simp at ht
          · rename_i hntm
            simp only [canCreate, hterm, true_and] at hnc
            simp only [canTerm, hterm, hcf, true_and] at hntm
            by_cases hsrc : (net.ins v).isEmpty = true
            · simp only [hsrc, if_true] at hnc hntm
              have := h.src v hsrc
              omega
            · simp only [hsrc] at hnc hntm
              simp only [Bool.false_eq_true, if_false] at hnc hntm
              have : ∃ i, i < (net.ins v).length ∧ s.r v i ≠ s.c v + 1 := by
                apply Classical.byContradiction
                intro hno
                apply hnc
                intro i hi
                apply Classical.byContradiction
                intro hne
                exact hno ⟨i, hi, hne⟩
              obtain ⟨i, hi, hne⟩ := this
              have hrc := h.rc v i hi
              have hru : s.r v i = s.c v := by omega
              have hrecv := hst (.recv v i)
              simp only [fstep] at hrecv
              split at hrecv
              · simp at hrecv
              · rename_i hnr
                simp only [canRecv, hi, hterm, hru, true_and] at hnr
                obtain ⟨u, hu⟩ := sender_of_lt net v i hi
                have hsf := h.sf v i u hu
                have hsu : s.s v i = s.c v := by omega
                cases hut : s.term u with
                | true =>
                  exact absurd ⟨(u, i), (mem_zipIdx net v u i).2 hu, hut, by simp only; omega, by simp only; omega⟩ hntm
                | false =>
                  by_cases hlt2 : s.f u < s.f v
                  · exact ihk (s.f u) (by omega) _ u rfl rfl hut
                  · exact ihr u.val (by have := hac v u (sender_mem net v i u hu); omega) u (by omega) rfl hut

/-! ### every run is finite -/

theorem sum_updN (l : List Nat) (hnd : l.Nodup) (g g' : Nat → Nat) (i : Nat) (hv : i ∈ l)
    (h1 : g' i + 1 = g i) (h2 : ∀ j, j ≠ i → g' j = g j) : (l.map g').sum + 1 = (l.map g).sum := by
  induction l with
  | nil => simp at hv
  | cons x xs ih =>
    have hnd' := List.nodup_cons.1 hnd
    by_cases hx : x = i
    · subst hx
      have hsame : xs.map g' = xs.map g := by
        apply List.map_congr_left
        intro w hw
        exact h2 w (fun e => hnd'.1 (e ▸ hw))
      simp only [List.map_cons, List.sum_cons, hsame]
      omega
    · have hvx : i ∈ xs := by
        rcases List.mem_cons.1 hv with e | e
        · exact absurd e.symm hx
        · exact e
      simp only [List.map_cons, List.sum_cons, h2 x hx]
      have := ih hnd'.2 hvx
      omega

def w1 (N : Nat) (s : FSt n) (v : Fin n) : Nat := (N - s.c v) + (N - s.f v) + (if s.term v then 0 else 1)
def w2 (N : Nat) (s : FSt n) (w : Fin n) (i : Nat) : Nat := (N - s.s w i) + (N - s.r w i)
def row (net : Net n) (N : Nat) (s : FSt n) (w : Fin n) : Nat :=
  ((List.range (net.ins w).length).map (w2 N s w)).sum
def fmu (net : Net n) (N : Nat) (s : FSt n) : Nat :=
  ((List.finRange n).map (w1 N s)).sum + ((List.finRange n).map (row net N s)).sum

/-- number of connections -/
def ports (net : Net n) : Nat := ((List.finRange n).map fun w => (net.ins w).length).sum

theorem row_dec (net : Net n) (N : Nat) (s s' : FSt n) (w : Fin n) (i : Nat) (hi : i < (net.ins w).length)
    (h1 : w2 N s' w i + 1 = w2 N s w i) (h2 : ∀ w' i', ¬(w' = w ∧ i' = i) → w2 N s' w' i' = w2 N s w' i') :
    ((List.finRange n).map (row net N s')).sum + 1 = ((List.finRange n).map (row net N s)).sum := by
  apply sum_upd _ (List.nodup_finRange n) _ _ w (List.mem_finRange w)
  · unfold row
    apply sum_updN _ List.nodup_range _ _ i (List.mem_range.2 hi) h1
    intro j hj
    exact h2 w j (by intro he; exact hj he.2)
  · intro x hx
    unfold row
    apply congrArg
    apply List.map_congr_left
    intro j _
    exact h2 x j (by intro he; exact hx he.1)

theorem fstep_mu (net : Net n) (N : Nat) (hbal : balanced net N) (s s' : FSt n) (l : FLbl n)
    (h : FInv net N s) (hs : fstep net s l = some s') : fmu net N s' + 1 = fmu net N s := by
  have h' := fstep_inv net N hbal s s' l h hs
  unfold fmu
  cases l with
  | recv w i =>
    simp only [fstep] at hs
    split at hs
    · rename_i hg
      simp only [Option.some.injEq] at hs; subst hs
      obtain ⟨hi, _, hrc, hrs⟩ := hg
      have e1 : (List.finRange n).map (w1 N { s with r := upd2 s.r w i (s.r w i + 1) }) = (List.finRange n).map (w1 N s) := rfl
      rw [e1]
      have e2 := row_dec net N s { s with r := upd2 s.r w i (s.r w i + 1) } w i hi
        (by
          simp only [w2, upd2_same]
          obtain ⟨u, hu⟩ := sender_of_lt net w i hi
          have := h.sf w i u hu; have := h.cN u
          omega)
        (by intro w' i' hne; simp only [w2, upd2_other _ _ _ _ _ _ hne])
      omega
    · simp at hs
  | create v =>
    simp only [fstep] at hs
    split at hs
    · simp only [Option.some.injEq] at hs; subst hs
      have e2 : (List.finRange n).map (row net N { s with c := upd s.c v (s.c v + 1) }) = (List.finRange n).map (row net N s) := rfl
      rw [e2]
      have e1 : ((List.finRange n).map (w1 N { s with c := upd s.c v (s.c v + 1) })).sum + 1 =
          ((List.finRange n).map (w1 N s)).sum := by
        apply sum_upd _ (List.nodup_finRange n) _ _ v (List.mem_finRange v)
        · have := h'.cN v; simp only [upd_same] at this
          simp only [w1, upd_same]
          omega
        · intro w hw; simp [w1, upd_other _ _ _ _ hw]
      omega
    · simp at hs
  | send w i =>
    simp only [fstep] at hs
    split at hs
    · rename_i hg
      simp only [Option.some.injEq] at hs; subst hs
      obtain ⟨v, hv⟩ := canSend_sender net s w i hg
      obtain ⟨hfc, hsf, hroom⟩ := (canSend_iff net s w i v hv).1 hg
      have hi := sender_lt net w i v hv
      have e1 : (List.finRange n).map (w1 N { s with s := upd2 s.s w i (s.s w i + 1) }) = (List.finRange n).map (w1 N s) := rfl
      rw [e1]
      have e2 := row_dec net N s { s with s := upd2 s.s w i (s.s w i + 1) } w i hi
        (by
          simp only [w2, upd2_same]
          have := h.cN v
          omega)
        (by intro w' i' hne; simp only [w2, upd2_other _ _ _ _ _ _ hne])
      omega
    · simp at hs
  | forward v =>
    simp only [fstep] at hs
    split at hs
    · rename_i hg
      simp only [Option.some.injEq] at hs; subst hs
      have e2 : (List.finRange n).map (row net N { s with f := upd s.f v (s.f v + 1) }) = (List.finRange n).map (row net N s) := rfl
      rw [e2]
      have e1 : ((List.finRange n).map (w1 N { s with f := upd s.f v (s.f v + 1) })).sum + 1 =
          ((List.finRange n).map (w1 N s)).sum := by
        apply sum_upd _ (List.nodup_finRange n) _ _ v (List.mem_finRange v)
        · simp only [w1, upd_same]
          have := h.cN v; have := hg.1
          omega
        · intro w hw; simp [w1, upd_other _ _ _ _ hw]
      omega
    · simp at hs
  | terminate v =>
    simp only [fstep] at hs
    split at hs
    · rename_i hg
      simp only [Option.some.injEq] at hs; subst hs
      have e2 : (List.finRange n).map (row net N { s with term := upd s.term v true }) = (List.finRange n).map (row net N s) := rfl
      rw [e2]
      have e1 : ((List.finRange n).map (w1 N { s with term := upd s.term v true })).sum + 1 =
          ((List.finRange n).map (w1 N s)).sum := by
        apply sum_upd _ (List.nodup_finRange n) _ _ v (List.mem_finRange v)
        · simp [w1, hg.1]
        · intro w hw; simp [w1, upd_other _ _ _ _ hw]
      omega
    · simp at hs

theorem frun_mu (net : Net n) (N : Nat) (hbal : balanced net N) (ls : List (FLbl n)) :
    ∀ s s', FInv net N s → frun net s ls = some s' → fmu net N s' + ls.length = fmu net N s := by
  induction ls with
  | nil => intro s s' _ hr; simp [frun] at hr; subst hr; simp
  | cons l ls ih =>
    intro s s' h hr
    simp only [frun] at hr
    split at hr
    · simp at hr
    · rename_i s1 hs1
      have h1 := fstep_mu net N hbal s s1 l h hs1
      have h2 := ih s1 s' (fstep_inv net N hbal s s1 l h hs1) hr
      simp only [List.length_cons]
      omega

theorem sum_map_mul {α : Type} (l : List α) (g : α → Nat) (k : Nat) : (l.map fun x => g x * k).sum = (l.map g).sum * k := by
  induction l with
  | nil => simp
  | cons x xs ih => simp only [List.map_cons, List.sum_cons, ih, Nat.add_mul]

theorem fmu_init (net : Net n) (N : Nat) : fmu net N (finit n) = n * (2 * N + 1) + ports net * (2 * N) := by
  unfold fmu
  have e1 : (List.finRange n).map (w1 N (finit n)) = (List.finRange n).map (fun _ => 2 * N + 1) := by
    apply List.map_congr_left
    intro v _
    simp [w1, finit]; omega
  have e2 : (List.finRange n).map (row net N (finit n)) = (List.finRange n).map (fun w => (net.ins w).length * (2 * N)) := by
    apply List.map_congr_left
    intro w _
    unfold row
    have : (List.range (net.ins w).length).map (w2 N (finit n) w) = (List.range (net.ins w).length).map (fun _ => 2 * N) := by
      apply List.map_congr_left
      intro i _
      simp [w2, finit]; omega
    rw [this, sum_const]; simp
  rw [e1, e2, sum_const, sum_map_mul]; simp [ports]

theorem fstuck_iff (net : Net n) (s : FSt n) : fstuckB net s = true ↔ fstuck net s := by
  unfold fstuckB fstuck
  rw [List.all_eq_true]
  constructor
  · intro h l
    by_cases hm : l ∈ allFLbls net
    · have := h l hm; simpa using this
    · -- a label outside the list names a connection that does not exist: never enabled
      cases l with
      | recv w i =>
        have hi : ¬ i < (net.ins w).length := by
          intro hi; apply hm
          unfold allFLbls
          rw [List.mem_flatMap]
          exact ⟨w, List.mem_finRange w, by simp [hi]⟩
        simp [fstep, canRecv, hi]
      | create v => exact absurd (by unfold allFLbls; rw [List.mem_flatMap]; exact ⟨v, List.mem_finRange v, by simp⟩) hm
      | send w i =>
        have hi : ¬ i < (net.ins w).length := by
          intro hi; apply hm
          unfold allFLbls
          rw [List.mem_flatMap]
          exact ⟨w, List.mem_finRange w, by simp [hi]⟩
        have hs : sender net w i = none := by
          unfold sender; exact List.getElem?_eq_none (by omega)
        simp [fstep, canSend, hs]
      | forward v => exact absurd (by unfold allFLbls; rw [List.mem_flatMap]; exact ⟨v, List.mem_finRange v, by simp⟩) hm
      | terminate v => exact absurd (by unfold allFLbls; rw [List.mem_flatMap]; exact ⟨v, List.mem_finRange v, by simp⟩) hm
  · intro h l _
    simp [h l]

end SciVerif.NetPorts
