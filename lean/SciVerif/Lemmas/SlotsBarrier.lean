import SciVerif.Lemmas.Slots
/-!
# Slots under rendezvous behaviour (C07 work conservation, C17 producer/consumer pairs)

`stepB` is the slot model in which a task refuses to leave `run` before every task of the workload
has started running — the behaviour of k rendezvous commands, and of streaming producer/consumer
pairs (a producer cannot finish writing into its FIFO before its consumer runs).
-/
namespace SciVerif.Slots

def hasStarted (t : Task) : Bool := match t.ph with | .idle => false | .acq _ => false | _ => true

def stepB (sem : SlotSem) (s : St) (i : Nat) : Option St :=
  match s.tasks[i]? with
  | some t => if isRun t && !(s.tasks.all hasStarted) then none else step sem s i
  | none => none

theorem stepB_step (sem : SlotSem) (s s' : St) (i : Nat) (h : stepB sem s i = some s') : step sem s i = some s' := by
  unfold stepB at h
  split at h
  · split at h
    · simp at h
    · exact h
  · simp at h

theorem held_le_cores (t : Task) (h : wfTask t) : held t ≤ t.cores := by
  obtain ⟨c, ph⟩ := t
  cases ph <;> simp_all [held, wfTask] <;> omega

theorem tokens_le_cores (ts : List Task) (h : ∀ t ∈ ts, wfTask t) : tokens ts ≤ sumBy (·.cores) ts := by
  induction ts with
  | nil => simp [tokens, sumBy]
  | cons t ts ih =>
    have h1 := held_le_cores t (h t (by simp))
    have h2 := ih (fun u hu => h u (List.mem_cons_of_mem _ hu))
    simp only [tokens, sumBy, List.map_cons, List.sum_cons] at *
    omega

/-- with rendezvous behaviour and total demand ≤ max, an unfinished workload always has an enabled step -/
theorem barrier_no_deadlock (sem : SlotSem) (s : St) (hinv : Inv s) (hmx : acqCount s.tasks ≤ 1)
    (hfit : sumBy (·.cores) s.tasks ≤ s.max) (hnd : ∃ t ∈ s.tasks, isDone t = false) :
    ∃ i s', stepB sem s i = some s' := by
  by_cases hall : s.tasks.all hasStarted = true
  · -- everybody has started: the barrier is open, an unfinished task is busy
    obtain ⟨t, ht, hd⟩ := hnd
    obtain ⟨i, hi⟩ := List.getElem?_of_mem ht
    have hst : hasStarted t = true := (List.all_eq_true.1 hall) t ht
    have hb : isBusy t = true := by
      obtain ⟨c, ph⟩ := t
      cases ph <;> simp_all [hasStarted, isBusy, isDone]
    obtain ⟨s', hs'⟩ := busy_steps sem s i t hi hb
    exact ⟨i, s', by simp [stepB, hi, hall, hs']⟩
  · -- somebody has not started
    by_cases hacq : ∃ t ∈ s.tasks, isAcq t = true
    · obtain ⟨t, ht, ha⟩ := hacq
      obtain ⟨i, hi⟩ := List.getElem?_of_mem ht
      have hsplitC := sumBy_split (·.cores) _ i t hi
      have hothers : tokens (s.tasks.eraseIdx i) ≤ sumBy (·.cores) (s.tasks.eraseIdx i) :=
        tokens_le_cores _ (fun u hu => hinv.2 u (List.mem_of_mem_eraseIdx hu))
      obtain ⟨c, ph⟩ := t
      cases ph <;> simp [isAcq] at ha
      rename_i k
      have hw := hinv.2 _ ht
      simp [wfTask] at hw
      simp at hsplitC
      refine ⟨i, ?_⟩
      have hk : tokens (s.tasks.eraseIdx i) + k < s.max := by omega
      by_cases hkc : k + 1 = c <;> simp [stepB, hi, isRun, step, stepTask, hk, hkc]
    · have hna : ∀ t ∈ s.tasks, isAcq t = false := by
        intro t ht
        cases hb : isAcq t with
        | false => rfl
        | true => exact absurd ⟨t, ht, hb⟩ hacq
      -- nobody holds the mutex; some task is idle
      have hidle : ∃ t ∈ s.tasks, hasStarted t = false := by
        have : s.tasks.all hasStarted = false := by simpa using hall
        rw [List.all_eq_false] at this
        obtain ⟨t, ht, hns⟩ := this
        exact ⟨t, ht, by simpa using hns⟩
      obtain ⟨t, ht, hns⟩ := hidle
      obtain ⟨i, hi⟩ := List.getElem?_of_mem ht
      have hnl : lockHeld (s.tasks.eraseIdx i) = false := by
        simp [lockHeld]
        intro u hu; exact hna u (List.mem_of_mem_eraseIdx hu)
      have ha := hna t ht
      obtain ⟨c, ph⟩ := t
      cases ph <;> simp_all [hasStarted, isAcq]
      refine ⟨i, ?_⟩
      by_cases hc0 : c = 0 <;> simp [stepB, hi, isRun, step, stepTask, hnl, hc0]

def runB (sem : SlotSem) (s : St) : List Nat → Option St
  | [] => some s
  | i :: is => match stepB sem s i with | none => none | some s' => runB sem s' is

theorem runB_run (sem : SlotSem) (s s' : St) (sched : List Nat) (h : runB sem s sched = some s') :
    run sem s sched = some s' := by
  induction sched generalizing s with
  | nil => simpa [runB, run] using h
  | cons i is ih =>
    simp only [runB] at h
    split at h
    · simp at h
    · rename_i s1 hs1
      simp only [run, stepB_step sem s s1 i hs1]
      exact ih s1 h

theorem sumBy_cores_step (sem : SlotSem) (s s' : St) (i : Nat) (h : step sem s i = some s') :
    sumBy (·.cores) s'.tasks = sumBy (·.cores) s.tasks := by
  obtain ⟨t, t', ht, hst, rfl⟩ := step_some sem s s' i h
  simp only
  rw [sumBy_set _ _ i t t' ht, sumBy_split (·.cores) _ i t ht]
  have : t'.cores = t.cores := by
    obtain ⟨c, ph⟩ := t
    cases ph <;> simp only [stepTask] at hst
    · split at hst
      · simp at hst
      · split at hst <;> (simp at hst; subst hst; rfl)
    · split at hst
      · split at hst <;> (simp at hst; subst hst; rfl)
      · simp at hst
    · simp at hst; subst hst; rfl
    · simp at hst; subst hst; rfl
    · simp at hst
  rw [this]

theorem run_sumBy_cores (sem : SlotSem) (s s' : St) (sched : List Nat) (h : run sem s sched = some s') :
    sumBy (·.cores) s'.tasks = sumBy (·.cores) s.tasks := by
  induction sched generalizing s with
  | nil => simp [run] at h; subst h; rfl
  | cons i is ih =>
    simp only [run] at h
    split at h
    · simp at h
    · rename_i s1 hs1
      rw [ih s1 h, sumBy_cores_step sem s s1 i hs1]

end SciVerif.Slots
