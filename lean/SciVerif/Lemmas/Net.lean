import SciVerif.Model.Net
/-! Invariant, deadlock freedom and termination of the network counting model (C05). -/
namespace SciVerif.Net

variable {n : Nat}

@[simp] theorem upd_same {α : Type} (g : Fin n → α) (v : Fin n) (x : α) : upd g v x v = x := by simp [upd]
theorem upd_other {α : Type} (g : Fin n → α) (v w : Fin n) (x : α) (h : w ≠ v) : upd g v x w = g w := by simp [upd, h]

structure Inv (net : Net n) (N : Nat) (s : NSt n) : Prop where
  fc  : ∀ v, s.f v ≤ s.c v
  cN  : ∀ v, s.c v ≤ N
  cin : ∀ v u, u ∈ net.ins v → s.c v ≤ s.f u
  tm  : ∀ v, s.term v = true → s.c v = N ∧ s.f v = N

theorem inv_init (net : Net n) (N : Nat) : Inv net N (init n) :=
  ⟨fun _ => Nat.le_refl _, fun _ => Nat.zero_le _, fun _ _ _ => Nat.le_refl _, fun _ h => by simp [init] at h⟩

theorem mem_outs (net : Net n) (v w : Fin n) : w ∈ outs net v ↔ v ∈ net.ins w := by
  simp [outs, List.mem_filter, List.mem_finRange]

theorem step_inv (net : Net n) (N : Nat) (hbal : balanced net N) (s s' : NSt n) (l : Lbl n)
    (h : Inv net N s) (hs : step net s l = some s') : Inv net N s' := by
  cases l with
  | create v =>
    simp only [step] at hs
    split at hs
    · rename_i hg
      simp at hs; subst hs
      simp only [canCreate, Bool.and_eq_true, Bool.not_eq_true'] at hg
      obtain ⟨hnt, hg⟩ := hg
      have hcv : s.c v < N := by
        split at hg
        · rename_i hsrc
          have := hbal v hsrc
          simp at hg; omega
        · rename_i hne
          cases hi : net.ins v with
          | nil => simp [hi] at hne
          | cons u us =>
            rw [hi] at hg
            simp at hg
            have := h.fc u; have := h.cN u
            omega
      refine ⟨?_, ?_, ?_, ?_⟩
      · intro w
        by_cases hw : w = v
        · subst hw; simp; have := h.fc w; omega
        · simp [upd_other _ _ _ _ hw]; exact h.fc w
      · intro w
        by_cases hw : w = v
        · subst hw; simp; omega
        · simp [upd_other _ _ _ _ hw]; exact h.cN w
      · intro w u hu
        by_cases hw : w = v
        · subst hw
          simp only [upd_same]
          split at hg
          · rename_i hsrc
            have : net.ins w = [] := List.isEmpty_iff.1 hsrc
            rw [this] at hu; simp at hu
          · have := List.all_eq_true.1 hg u hu
            simp at this; omega
        · simp [upd_other _ _ _ _ hw]; exact h.cin w u hu
      · intro w hw
        have hwv : w ≠ v := by intro e; subst e; simp [hnt] at hw
        simp only [upd_other _ _ _ _ hwv]
        exact h.tm w hw
    · simp at hs
  | forward v =>
    simp only [step] at hs
    split at hs
    · rename_i hg
      simp at hs; subst hs
      simp only [canForward, Bool.and_eq_true, decide_eq_true_eq] at hg
      obtain ⟨hlt, _⟩ := hg
      refine ⟨?_, h.cN, ?_, ?_⟩
      · intro w
        by_cases hw : w = v
        · subst hw; simp; omega
        · simp [upd_other _ _ _ _ hw]; exact h.fc w
      · intro w u hu
        by_cases hu' : u = v
        · subst hu'; simp; have := h.cin w u hu; omega
        · simp [upd_other _ _ _ _ hu']; exact h.cin w u hu
      · intro w hw
        have hwv : w ≠ v := by
          intro e; subst e
          have := h.tm w hw
          omega
        simp only [upd_other _ _ _ _ hwv]
        exact h.tm w hw
    · simp at hs
  | terminate v =>
    simp only [step] at hs
    split at hs
    · rename_i hg
      simp at hs; subst hs
      simp only [canTerm, Bool.and_eq_true, Bool.not_eq_true', beq_iff_eq] at hg
      obtain ⟨⟨_, hcf⟩, hg⟩ := hg
      refine ⟨h.fc, h.cN, h.cin, ?_⟩
      intro w hw
      by_cases hwv : w = v
      · subst hwv
        show s.c w = N ∧ s.f w = N
        split at hg
        · rename_i hsrc
          have := hbal w hsrc
          simp at hg
          constructor <;> omega
        · obtain ⟨u, hu, hu2⟩ := List.any_eq_true.1 hg
          simp at hu2
          have := h.tm u hu2.1
          constructor <;> omega
      · simp only [upd_other _ _ _ _ hwv] at hw
        exact h.tm w hw
    · simp at hs

theorem run_inv (net : Net n) (N : Nat) (hbal : balanced net N) (ls : List (Lbl n)) :
    ∀ s s', Inv net N s → run net s ls = some s' → Inv net N s' := by
  induction ls with
  | nil => intro s s' h hr; simp [run] at hr; subst hr; exact h
  | cons l ls ih =>
    intro s s' h hr
    simp only [run] at hr
    split at hr
    · simp at hr
    · rename_i s1 hs1
      exact ih s1 s' (step_inv net N hbal s s1 l h hs1) hr

/-! ### a state in which nothing can move has every process terminated -/

theorem no_stuck (net : Net n) (N : Nat) (hbal : balanced net N) (hac : acyclic net) (hB : 1 ≤ net.B)
    (s : NSt n) (h : Inv net N s) (hst : stuck net s) : ∀ v, s.term v = true := by
  suffices H : ∀ (k r : Nat) (v : Fin n), s.f v = k → v.val = r → s.term v = true from fun v => H _ _ v rfl rfl
  intro k
  induction k using Nat.strongRecOn with
  | _ k ihk =>
    intro r
    induction r using Nat.strongRecOn with
    | _ r ihr =>
      intro v hk hr
      cases hterm : s.term v with
      | true => rfl
      | false =>
        exfalso
        by_cases hlt : s.f v < s.c v
        · -- a task is waiting to be forwarded: some out-port must be full
          have hf := hst (.forward v)
          simp only [step] at hf
          split at hf
          · simp at hf
          · rename_i hnf
            simp only [canForward, hlt, decide_true, Bool.true_and, Bool.not_eq_true] at hnf
            rw [List.all_eq_false] at hnf
            obtain ⟨w, hw, hfull⟩ := hnf
            simp at hfull
            have hwt : s.term w = true := ihk (s.f w) (by have := h.fc w; omega) _ w rfl rfl
            have := h.tm w hwt
            have := h.cN v
            omega
        · have hcf : s.c v = s.f v := by have := h.fc v; omega
          have hc := hst (.create v)
          have ht := hst (.terminate v)
          simp only [step] at hc ht
          split at hc
          · simp at hc
          · rename_i hnc
            split at ht
            · simp at ht
            · rename_i hntm
              simp only [canCreate, hterm, Bool.not_false, Bool.true_and] at hnc
              simp only [canTerm, hterm, Bool.not_false, Bool.true_and, hcf, beq_self_eq_true] at hntm
              split at hnc
              · -- a source: either it can still emit, or it can terminate
                rename_i hsrc
                simp only [hsrc, if_true] at hntm
                simp at hnc hntm
                have := hbal v hsrc
                have := h.cN v
                omega
              · rename_i hne
                simp only [hne, if_false] at hntm
                simp only [Bool.not_eq_true] at hnc
                rw [List.all_eq_false] at hnc
                obtain ⟨u, hu, hempty⟩ := hnc
                simp at hempty
                have hfu : s.f u = s.f v := by have := h.cin v u hu; omega
                have hut : s.term u = true := ihr u.val (by have := hac v u hu; omega) u (by omega) rfl
                have : ((net.ins v).any fun u => s.term u && s.f u == s.f v) = true :=
                  List.any_eq_true.2 ⟨u, hu, by simp [hut, hfu]⟩
                simp [this] at hntm

/-! ### every run is finite -/

def weight (N : Nat) (s : NSt n) (v : Fin n) : Nat := (N - s.c v) + (N - s.f v) + (if s.term v then 0 else 1)

def mu (N : Nat) (s : NSt n) : Nat := ((List.finRange n).map (weight N s)).sum

theorem sum_upd (l : List (Fin n)) (hnd : l.Nodup) (g g' : Fin n → Nat) (v : Fin n) (hv : v ∈ l)
    (h1 : g' v + 1 = g v) (h2 : ∀ w, w ≠ v → g' w = g w) : (l.map g').sum + 1 = (l.map g).sum := by
  induction l with
  | nil => simp at hv
  | cons x xs ih =>
    have hnd' := List.nodup_cons.1 hnd
    by_cases hx : x = v
    · subst hx
      have hsame : xs.map g' = xs.map g := by
        apply List.map_congr_left
        intro w hw
        exact h2 w (fun e => hnd'.1 (e ▸ hw))
      simp only [List.map_cons, List.sum_cons, hsame]
      omega
    · have hvx : v ∈ xs := by
        rcases List.mem_cons.1 hv with e | e
        · exact absurd e.symm hx
        · exact e
      simp only [List.map_cons, List.sum_cons, h2 x hx]
      have := ih hnd'.2 hvx
      omega

theorem step_mu (net : Net n) (N : Nat) (hbal : balanced net N) (s s' : NSt n) (l : Lbl n)
    (h : Inv net N s) (hs : step net s l = some s') : mu N s' + 1 = mu N s := by
  have h' := step_inv net N hbal s s' l h hs
  unfold mu
  cases l with
  | create v =>
    simp only [step] at hs
    split at hs
    · simp at hs; subst hs
      apply sum_upd _ (List.nodup_finRange n) _ _ v (List.mem_finRange v)
      · have := h'.cN v; simp at this
        simp only [weight, upd_same]
        have := h.fc v
        omega
      · intro w hw; simp [weight, upd_other _ _ _ _ hw]
    · simp at hs
  | forward v =>
    simp only [step] at hs
    split at hs
    · rename_i hg
      simp at hs; subst hs
      simp only [canForward, Bool.and_eq_true, decide_eq_true_eq] at hg
      apply sum_upd _ (List.nodup_finRange n) _ _ v (List.mem_finRange v)
      · simp only [weight, upd_same]
        have := h.cN v
        omega
      · intro w hw; simp [weight, upd_other _ _ _ _ hw]
    · simp at hs
  | terminate v =>
    simp only [step] at hs
    split at hs
    · rename_i hg
      simp at hs; subst hs
      simp only [canTerm, Bool.and_eq_true, Bool.not_eq_true'] at hg
      apply sum_upd _ (List.nodup_finRange n) _ _ v (List.mem_finRange v)
      · simp [weight, hg.1.1]
      · intro w hw; simp [weight, upd_other _ _ _ _ hw]
    · simp at hs

theorem run_mu (net : Net n) (N : Nat) (hbal : balanced net N) (ls : List (Lbl n)) :
    ∀ s s', Inv net N s → run net s ls = some s' → mu N s' + ls.length = mu N s := by
  induction ls with
  | nil => intro s s' _ hr; simp [run] at hr; subst hr; simp
  | cons l ls ih =>
    intro s s' h hr
    simp only [run] at hr
    split at hr
    · simp at hr
    · rename_i s1 hs1
      have h1 := step_mu net N hbal s s1 l h hs1
      have h2 := ih s1 s' (step_inv net N hbal s s1 l h hs1) hr
      simp only [List.length_cons]
      omega

theorem sum_const {α : Type} (l : List α) (k : Nat) : (l.map fun _ => k).sum = l.length * k := by
  induction l with
  | nil => simp
  | cons x xs ih => simp only [List.map_cons, List.sum_cons, ih, List.length_cons]; rw [Nat.add_mul]; omega

theorem mu_init (N : Nat) : mu N (init n) = n * (2 * N + 1) := by
  unfold mu
  have : (List.finRange n).map (weight N (init n)) = (List.finRange n).map (fun _ => 2 * N + 1) := by
    apply List.map_congr_left
    intro v _
    simp [weight, init]; omega
  rw [this, sum_const, List.length_finRange]

theorem stuck_iff (net : Net n) (s : NSt n) : stuckB net s = true ↔ stuck net s := by
  unfold stuckB stuck allLbls
  rw [List.all_eq_true]
  constructor
  · intro h l
    have hm : l ∈ (List.finRange n).flatMap fun v => [Lbl.create v, Lbl.forward v, Lbl.terminate v] := by
      rw [List.mem_flatMap]
      cases l with
      | create v => exact ⟨v, List.mem_finRange v, by simp⟩
      | forward v => exact ⟨v, List.mem_finRange v, by simp⟩
      | terminate v => exact ⟨v, List.mem_finRange v, by simp⟩
    have := h l hm
    simpa using this
  · intro h l _
    simp [h l]

end SciVerif.Net

/-! ### without balance: the only way to get stuck is an abandoned port (F20) -/
namespace SciVerif.Net

variable {n : Nat}

/-- what holds in every reachable state of any network, balanced or not -/
structure Inv0 (net : Net n) (s : NSt n) : Prop where
  fc  : ∀ v, s.f v ≤ s.c v
  cin : ∀ v u, u ∈ net.ins v → s.c v ≤ s.f u
  src : ∀ v, (net.ins v).isEmpty = true → s.c v ≤ net.src v

theorem inv0_init (net : Net n) : Inv0 net (init n) :=
  ⟨fun _ => Nat.le_refl _, fun _ _ _ => Nat.le_refl _, fun _ _ => Nat.zero_le _⟩

theorem step_inv0 (net : Net n) (s s' : NSt n) (l : Lbl n) (h : Inv0 net s) (hs : step net s l = some s') :
    Inv0 net s' := by
  cases l with
  | create v =>
    simp only [step] at hs
    split at hs
    · rename_i hg
      simp at hs; subst hs
      simp only [canCreate, Bool.and_eq_true, Bool.not_eq_true'] at hg
      obtain ⟨_, hg⟩ := hg
      refine ⟨?_, ?_, ?_⟩
      · intro w
        by_cases hw : w = v
        · subst hw; simp; have := h.fc w; omega
        · simp [upd_other _ _ _ _ hw]; exact h.fc w
      · intro w u hu
        by_cases hw : w = v
        · subst hw
          simp only [upd_same]
          split at hg
          · rename_i hsrc
            have : net.ins w = [] := List.isEmpty_iff.1 hsrc
            rw [this] at hu; simp at hu
          · have := List.all_eq_true.1 hg u hu
            simp at this; omega
        · simp [upd_other _ _ _ _ hw]; exact h.cin w u hu
      · intro w hw
        by_cases hwv : w = v
        · subst hwv
          simp only [upd_same]
          simp only [hw, if_true] at hg
          simp at hg; omega
        · simp [upd_other _ _ _ _ hwv]; exact h.src w hw
    · simp at hs
  | forward v =>
    simp only [step] at hs
    split at hs
    · rename_i hg
      simp at hs; subst hs
      simp only [canForward, Bool.and_eq_true, decide_eq_true_eq] at hg
      obtain ⟨hlt, _⟩ := hg
      refine ⟨?_, ?_, h.src⟩
      · intro w
        by_cases hw : w = v
        · subst hw; simp; omega
        · simp [upd_other _ _ _ _ hw]; exact h.fc w
      · intro w u hu
        by_cases hu' : u = v
        · subst hu'; simp; have := h.cin w u hu; omega
        · simp [upd_other _ _ _ _ hu']; exact h.cin w u hu
    · simp at hs
  | terminate v =>
    simp only [step] at hs
    split at hs
    · simp at hs; subst hs; exact ⟨h.fc, h.cin, h.src⟩
    · simp at hs

theorem run_inv0 (net : Net n) (ls : List (Lbl n)) :
    ∀ s s', Inv0 net s → run net s ls = some s' → Inv0 net s' := by
  induction ls with
  | nil => intro s s' h hr; simp [run] at hr; subst hr; exact h
  | cons l ls ih =>
    intro s s' h hr
    simp only [run] at hr
    split at hr
    · simp at hr
    · rename_i s1 hs1
      exact ih s1 s' (step_inv0 net s s1 l h hs1) hr

/-- in a stuck state, below every unreturned process there is an abandoned port: an unreturned process `v`
and a *returned* consumer `w` of `v` that left at least `B` of `v`'s items unread -/
theorem stuck_root_cause (net : Net n) (hac : acyclic net) (hB : 1 ≤ net.B) (s : NSt n) (h : Inv0 net s)
    (hst : stuck net s) :
    ∀ v0, s.term v0 = false →
      ∃ v w, v ∈ net.ins w ∧ s.term v = false ∧ s.term w = true ∧ s.c w + net.B ≤ s.f v := by
  suffices H : ∀ (k r : Nat) (v : Fin n), s.f v = k → v.val = r → s.term v = false →
      ∃ v w, v ∈ net.ins w ∧ s.term v = false ∧ s.term w = true ∧ s.c w + net.B ≤ s.f v from
    fun v0 hv0 => H _ _ v0 rfl rfl hv0
  intro k
  induction k using Nat.strongRecOn with
  | _ k ihk =>
    intro r
    induction r using Nat.strongRecOn with
    | _ r ihr =>
      intro v hk hr hterm
      by_cases hlt : s.f v < s.c v
      · have hf := hst (.forward v)
        simp only [step] at hf
        split at hf
        · simp at hf
        · rename_i hnf
          simp only [canForward, hlt, decide_true, Bool.true_and, Bool.not_eq_true] at hnf
          rw [List.all_eq_false] at hnf
          obtain ⟨w, hw, hfull⟩ := hnf
          simp at hfull
          have hvw : v ∈ net.ins w := (mem_outs net v w).1 hw
          cases hwt : s.term w with
          | true => exact ⟨v, w, hvw, hterm, hwt, hfull⟩
          | false => exact ihk (s.f w) (by have := h.fc w; omega) _ w rfl rfl hwt
      · have hcf : s.c v = s.f v := by have := h.fc v; omega
        have hc := hst (.create v)
        have ht := hst (.terminate v)
        simp only [step] at hc ht
        split at hc
        · simp at hc
        · rename_i hnc
          split at ht
          · simp at ht
          · rename_i hntm
            simp only [canCreate, hterm, Bool.not_false, Bool.true_and] at hnc
            simp only [canTerm, hterm, Bool.not_false, Bool.true_and, hcf, beq_self_eq_true] at hntm
            split at hnc
            · rename_i hsrc
              exfalso
              simp only [hsrc, if_true] at hntm
              simp at hnc hntm
              have := h.src v hsrc
              omega
            · rename_i hne
              simp only [hne, if_false] at hntm
              simp only [Bool.not_eq_true] at hnc
              rw [List.all_eq_false] at hnc
              obtain ⟨u, hu, hempty⟩ := hnc
              simp at hempty
              have hfu : s.f u = s.f v := by have := h.cin v u hu; omega
              cases hut : s.term u with
              | true =>
                exfalso
                have : ((net.ins v).any fun u => s.term u && s.f u == s.f v) = true :=
                  List.any_eq_true.2 ⟨u, hu, by simp [hut, hfu]⟩
                simp [this] at hntm
              | false => exact ihr u.val (by have := hac v u hu; omega) u (by omega) rfl hut

end SciVerif.Net
