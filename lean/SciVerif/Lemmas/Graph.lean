import SciVerif.Model.Graph
/-! Lemmas on the RunTo closure (C16). -/
namespace SciVerif.Graph

theorem collect_spec (rec : Nat → Option (List Nat)) (us : List Nat) (hall : ∀ u ∈ us, ∃ a, rec u = some a) :
    ∃ l, collect rec us = some l ∧ ∀ q, q ∈ l ↔ ∃ u ∈ us, q = u ∨ ∃ a, rec u = some a ∧ q ∈ a := by
  induction us with
  | nil => exact ⟨[], rfl, by simp⟩
  | cons u us ih =>
    obtain ⟨a, ha⟩ := hall u (by simp)
    obtain ⟨b, hb, hbm⟩ := ih (fun x hx => hall x (List.mem_cons_of_mem _ hx))
    refine ⟨u :: a ++ b, by simp [collect, ha, hb], ?_⟩
    intro q
    simp only [List.cons_append, List.mem_cons, List.mem_append, hbm]
    constructor
    · rintro (h | h | ⟨x, hx, h⟩)
      · exact ⟨u, Or.inl rfl, Or.inl h⟩
      · exact ⟨u, Or.inl rfl, Or.inr ⟨a, ha, h⟩⟩
      · exact ⟨x, Or.inr hx, h⟩
    · rintro ⟨x, hx | hx, h⟩
      · subst hx
        rcases h with h | ⟨a', ha', h⟩
        · exact Or.inl h
        · rw [ha] at ha'; simp at ha'; subst ha'; exact Or.inr (Or.inl h)
      · exact Or.inr (Or.inr ⟨x, hx, h⟩)

theorem collect_none (rec : Nat → Option (List Nat)) (us : List Nat) (u : Nat) (hu : u ∈ us) (hn : rec u = none) :
    collect rec us = none := by
  induction us with
  | nil => simp at hu
  | cons x xs ih =>
    rcases List.mem_cons.1 hu with rfl | hu
    · simp [collect, hn]
    · simp only [collect, ih hu]
      cases rec x <;> rfl

theorem ups_lt (wf : Wf) (hac : acyclic wf) (p u : Nat) (h : u ∈ ups wf true p) : u < p := by
  have h' : u ∈ (wf.edges.filter fun e => e.2.1 = p).map (·.1) := by
    simpa [ups] using h
  simp only [List.mem_map, List.mem_filter] at h'
  obtain ⟨e, ⟨he, hp⟩, rfl⟩ := h'
  have := hac e he
  simp at hp
  omega

theorem reach_inv (wf : Wf) (q p : Nat) : Reach wf q p ↔ ∃ u ∈ ups wf true p, q = u ∨ Reach wf q u := by
  constructor
  · intro h
    cases h with
    | direct h => exact ⟨q, h, Or.inl rfl⟩
    | trans hu hr => exact ⟨_, hu, Or.inr hr⟩
  · rintro ⟨u, hu, rfl | h⟩
    · exact Reach.direct hu
    · exact Reach.trans hu h

theorem closure_spec (wf : Wf) (hac : acyclic wf) :
    ∀ (p f : Nat), p < f → ∃ l, closureF wf true f p = some l ∧ ∀ q, q ∈ l ↔ Reach wf q p := by
  intro p
  induction p using Nat.strongRecOn with
  | _ p ih =>
    intro f hf
    cases f with
    | zero => omega
    | succ f =>
      simp only [closureF]
      have hall : ∀ u ∈ ups wf true p, ∃ a, closureF wf true f u = some a := by
        intro u hu
        have hlt := ups_lt wf hac p u hu
        obtain ⟨l, hl, _⟩ := ih u hlt f (by omega)
        exact ⟨l, hl⟩
      obtain ⟨l, hl, hm⟩ := collect_spec (closureF wf true f) (ups wf true p) hall
      refine ⟨l, hl, ?_⟩
      intro q
      rw [hm q, reach_inv]
      constructor
      · rintro ⟨u, hu, h | ⟨a, ha, hq⟩⟩
        · exact ⟨u, hu, Or.inl h⟩
        · have hlt := ups_lt wf hac p u hu
          obtain ⟨l', hl', hm'⟩ := ih u hlt f (by omega)
          rw [hl'] at ha; simp at ha; subst ha
          exact ⟨u, hu, Or.inr ((hm' q).1 hq)⟩
      · rintro ⟨u, hu, h | h⟩
        · exact ⟨u, hu, Or.inl h⟩
        · have hlt := ups_lt wf hac p u hu
          obtain ⟨l', hl', hm'⟩ := ih u hlt f (by omega)
          exact ⟨u, hu, Or.inr ⟨l', hl', (hm' q).2 h⟩⟩

/-- a self edge makes the recursion diverge for every amount of fuel -/
theorem closure_diverges (wf : Wf) (p : Nat) (hs : wf.selfFed.any (·.1 = p) = true) :
    ∀ f, closureF wf false f p = none := by
  intro f
  induction f with
  | zero => rfl
  | succ f ih =>
    simp only [closureF]
    apply collect_none _ _ p _ ih
    simp [ups, hs]

theorem mem_dedup (l : List Nat) (x : Nat) : x ∈ dedup l ↔ x ∈ l := by
  unfold dedup
  suffices h : ∀ acc, x ∈ l.foldl (fun acc x => if acc.contains x then acc else acc ++ [x]) acc ↔ x ∈ acc ∨ x ∈ l by
    simpa using h []
  induction l with
  | nil => intro acc; simp
  | cons y ys ih =>
    intro acc
    simp only [List.foldl_cons]
    rw [ih]
    split
    · rename_i hc
      have hy : y ∈ acc := by simpa using hc
      constructor
      · rintro (h | h)
        · exact Or.inl h
        · exact Or.inr (List.mem_cons_of_mem _ h)
      · rintro (h | h)
        · exact Or.inl h
        · rcases List.mem_cons.1 h with rfl | h
          · exact Or.inl hy
          · exact Or.inr h
    · simp only [List.mem_append, List.mem_cons, List.not_mem_nil, or_false]
      constructor
      · rintro ((h | h) | h)
        · exact Or.inl h
        · exact Or.inr (Or.inl h)
        · exact Or.inr (Or.inr h)
      · rintro (h | h | h)
        · exact Or.inl (Or.inl h)
        · exact Or.inl (Or.inr h)
        · exact Or.inr h

theorem nodup_dedup (l : List Nat) : (dedup l).Nodup := by
  unfold dedup
  suffices h : ∀ acc : List Nat, acc.Nodup → (l.foldl (fun acc x => if acc.contains x then acc else acc ++ [x]) acc).Nodup by
    exact h [] (by simp)
  induction l with
  | nil => intro acc h; simpa using h
  | cons y ys ih =>
    intro acc h
    simp only [List.foldl_cons]
    apply ih
    split
    · exact h
    · rename_i hc
      have hy : y ∉ acc := by simpa using hc
      rw [List.nodup_append]
      refine ⟨h, by simp, ?_⟩
      intro a ha b hb
      simp at hb; subst hb
      intro hab; subst hab; exact hy ha

/-! ### the closure with both merges equals the plain closure -/

theorem upsK_fst (wf : Wf) (sk : Bool) (p : Nat) : (upsK wf sk p).map (·.1) = ups wf sk p := by
  unfold upsK ups
  simp only [List.map_append, List.map_map]
  congr 1
  split <;> simp

theorem collectK_true (rec1 rec2 : Nat → Option (List Nat)) (h : ∀ u, rec1 u = rec2 u) (l : List (Nat × Bool)) :
    collectK true true rec1 l = collect rec2 (l.map (·.1)) := by
  induction l with
  | nil => rfl
  | cons x xs ih =>
    obtain ⟨u, k⟩ := x
    simp only [collectK, List.map_cons, collect, ih, h u]
    cases rec2 u <;> cases collect rec2 (xs.map (·.1)) <;> cases k <;> simp

theorem closureK_true (wf : Wf) (sk : Bool) (f p : Nat) : closureK wf sk true true f p = closureF wf sk f p := by
  induction f generalizing p with
  | zero => rfl
  | succ f ih =>
    simp only [closureK, closureF]
    rw [collectK_true _ (closureF wf sk f) (fun u => ih u), upsK_fst]

end SciVerif.Graph
