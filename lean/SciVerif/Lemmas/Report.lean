import SciVerif.Model.Report
/-! Lemmas on the association-list map used by the report model. -/
namespace SciVerif.Report

theorem keys_insertKV (k : Nat) (v : Rec) (m : Map) :
    ∀ x, x ∈ keys (insertKV k v m) ↔ x = k ∨ x ∈ keys m := by
  induction m with
  | nil => intro x; simp [insertKV, keys]
  | cons kv rest ih =>
    intro x
    obtain ⟨k', v'⟩ := kv
    simp only [insertKV]
    split
    · rename_i h; subst h; simp [keys]
    · simp only [keys, List.map_cons, List.mem_cons] at ih ⊢
      rw [ih x]
      constructor
      · rintro (h | h | h) <;> simp [h]
      · rintro (h | h | h) <;> simp [h]

theorem nodup_insertKV (k : Nat) (v : Rec) (m : Map) (h : (keys m).Nodup) : (keys (insertKV k v m)).Nodup := by
  induction m with
  | nil => simp [insertKV, keys]
  | cons kv rest ih =>
    obtain ⟨k', v'⟩ := kv
    simp only [keys, List.map_cons, List.nodup_cons] at h
    simp only [insertKV]
    split
    · rename_i hk; subst hk
      simp only [keys, List.map_cons, List.nodup_cons]; exact h
    · rename_i hk
      simp only [keys, List.map_cons, List.nodup_cons]
      refine ⟨?_, ih h.2⟩
      intro hmem
      have := (keys_insertKV k v rest k').1 hmem
      rcases this with h1 | h1
      · exact hk h1.symm
      · exact h.1 h1

theorem keys_mergeKV (a b : Map) : ∀ x, x ∈ keys (mergeKV a b) ↔ x ∈ keys a ∨ x ∈ keys b := by
  induction b generalizing a with
  | nil => intro x; simp [mergeKV, keys]
  | cons kv rest ih =>
    intro x
    simp only [mergeKV, List.foldl_cons]
    have := ih (insertKV kv.1 kv.2 a) x
    simp only [mergeKV] at this
    rw [this, keys_insertKV]
    simp only [keys, List.map_cons, List.mem_cons]
    constructor
    · rintro ((h | h) | h) <;> simp [h]
    · rintro (h | h | h) <;> simp [h]

theorem nodup_mergeKV (a b : Map) (h : (keys a).Nodup) : (keys (mergeKV a b)).Nodup := by
  induction b generalizing a with
  | nil => simpa [mergeKV] using h
  | cons kv rest ih =>
    simp only [mergeKV, List.foldl_cons]
    exact ih _ (nodup_insertKV kv.1 kv.2 a h)

/-- every value stored under key k has id k, provided that holds of what is inserted -/
def KeyIsId (m : Map) : Prop := ∀ kv ∈ m, kv.1 = kv.2.id

theorem keyIsId_insertKV (k : Nat) (v : Rec) (m : Map) (hk : k = v.id) (h : KeyIsId m) : KeyIsId (insertKV k v m) := by
  induction m with
  | nil => intro kv hkv; simp [insertKV] at hkv; subst hkv; exact hk
  | cons kv' rest ih =>
    obtain ⟨k', v'⟩ := kv'
    simp only [insertKV]
    split
    · intro kv hkv
      rcases List.mem_cons.1 hkv with rfl | hkv
      · exact hk
      · exact h kv (List.mem_cons_of_mem _ hkv)
    · intro kv hkv
      rcases List.mem_cons.1 hkv with rfl | hkv
      · exact h _ (by simp)
      · exact ih (fun x hx => h x (List.mem_cons_of_mem _ hx)) kv hkv

theorem keyIsId_mergeKV (a b : Map) (ha : KeyIsId a) (hb : KeyIsId b) : KeyIsId (mergeKV a b) := by
  induction b generalizing a with
  | nil => simpa [mergeKV] using ha
  | cons kv rest ih =>
    simp only [mergeKV, List.foldl_cons]
    exact ih _ (keyIsId_insertKV kv.1 kv.2 a (hb kv (by simp)) ha) (fun x hx => hb x (List.mem_cons_of_mem _ hx))

mutual
theorem extract_props : ∀ t : AT,
    (keys (extract t)).Nodup ∧ KeyIsId (extract t) ∧ (∀ x, x ∈ keys (extract t) ↔ x ∈ (nodes t).map (·.id))
  | .node r ups => by
    have h := extractL_props ups [(r.id, r)] (by simp [keys]) (by intro kv hkv; simp at hkv; subst hkv; rfl)
    simp only [extract, nodes]
    refine ⟨h.1, h.2.1, ?_⟩
    intro x
    rw [h.2.2 x]
    simp [keys, eq_comm]
theorem extractL_props : ∀ (ts : List AT) (acc : Map), (keys acc).Nodup → KeyIsId acc →
    (keys (extractL ts acc)).Nodup ∧ KeyIsId (extractL ts acc) ∧
    (∀ x, x ∈ keys (extractL ts acc) ↔ x ∈ keys acc ∨ x ∈ (nodesL ts).map (·.id))
  | [], acc, hn, hk => by simp [extractL, nodesL, hn, hk]
  | t :: ts, acc, hn, hk => by
    have ht := extract_props t
    have h := extractL_props ts (mergeKV acc (extract t)) (nodup_mergeKV _ _ hn) (keyIsId_mergeKV _ _ hk ht.2.1)
    simp only [extractL, nodesL]
    refine ⟨h.1, h.2.1, ?_⟩
    intro x
    rw [h.2.2 x, keys_mergeKV, ht.2.2 x]
    simp only [List.map_append, List.mem_append]
    constructor
    · rintro ((h1 | h1) | h1) <;> simp [h1]
    · rintro (h1 | h1 | h1) <;> simp [h1]
end

end SciVerif.Report
