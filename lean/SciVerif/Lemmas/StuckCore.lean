/-!
# The counting core of the deadlock-freedom argument (C05)

Nodes are numbered 0..n-1 in a topological order (rank = index). In a state where no node can
move, every unterminated node is either *read-blocked* (its task-creation loop waits on an empty,
still open in-port fed by the unterminated node `up`) or *write-blocked* (its main loop waits on the
full in-port of the unterminated consumer `down`). `Facts` lists what the operational invariants
(C04's channel invariant, C08's queue invariant, balance of the streams, buffer size `B ≥ 1`) give
in such a state; `no_stuck` shows they are contradictory unless every node has terminated.
-/
namespace SciVerif.StuckCore

inductive Blk where
  | read  (up : Nat)      -- read-blocked; `up` is the (unterminated) upstream of the empty port
  | write (down : Nat)    -- write-blocked; `down` is the consumer owning the full port
  | term
deriving DecidableEq

structure Snap (n : Nat) where
  B   : Nat
  c   : Fin n → Nat        -- tasks created (= items received per port)
  f   : Fin n → Nat        -- tasks fully forwarded
  blk : Fin n → Blk

def key {n} (s : Snap n) (v : Fin n) : Nat :=
  match s.blk v with | .read _ => s.c v | .write _ => s.f v | .term => 0

/-- facts the operational invariants provide in a stuck state -/
structure Facts {n} (s : Snap n) : Prop where
  hB    : 1 ≤ s.B
  fc    : ∀ v, s.f v ≤ s.c v
  /-- a read-blocked node has forwarded everything it created (no task is in flight: C06/C07) -/
  readCF: ∀ v u, s.blk v = .read u → s.c v = s.f v
  /-- the empty port's upstream is earlier in the order, unterminated, and has forwarded at most what
  the reader received (balance + C04: everything forwarded on that edge was received) -/
  readU : ∀ v u, s.blk v = .read u → ∃ hu : u < n, u < v.val ∧ s.blk ⟨u, hu⟩ ≠ .term ∧ s.f ⟨u, hu⟩ ≤ s.c v
  /-- the full port's owner is unterminated and has received at least `B` items fewer than the
  writer has sent on that edge -/
  writeD: ∀ v w, s.blk v = .write w → ∃ hw : w < n, s.blk ⟨w, hw⟩ ≠ .term ∧ s.c ⟨w, hw⟩ + s.B ≤ s.f v

theorem key_le_c {n} (s : Snap n) (h : Facts s) (v : Fin n) : key s v ≤ s.c v := by
  unfold key; split <;> simp [h.fc v]

/-- no node can be the lexicographic minimum of (key, rank) among unterminated nodes -/
theorem no_stuck {n} (s : Snap n) (h : Facts s) : ∀ v : Fin n, s.blk v = .term := by
  suffices H : ∀ (k r : Nat) (v : Fin n), key s v = k → v.val = r → s.blk v = .term from
    fun v => H _ _ v rfl rfl
  intro k
  induction k using Nat.strongRecOn with
  | _ k ihk =>
    intro r
    induction r using Nat.strongRecOn with
    | _ r ihr =>
      intro v hk hr
      cases hb : s.blk v with
      | term => rfl
      | write w =>
        exfalso
        obtain ⟨hw, hnt, hcw⟩ := h.writeD v w hb
        have hkv : key s v = s.f v := by simp [key, hb]
        have hkw : key s ⟨w, hw⟩ ≤ s.c ⟨w, hw⟩ := key_le_c s h _
        have : key s ⟨w, hw⟩ < k := by have := h.hB; omega
        exact hnt (ihk _ this _ ⟨w, hw⟩ rfl rfl)
      | read u =>
        exfalso
        obtain ⟨hu, hlt, hnt, hfu⟩ := h.readU v u hb
        have hkv : key s v = s.c v := by simp [key, hb]
        have hku : key s ⟨u, hu⟩ ≤ s.f ⟨u, hu⟩ := by
          cases hbu : s.blk ⟨u, hu⟩ with
          | term => exact absurd hbu hnt
          | write _ => simp [key, hbu]
          | read x => simp [key, hbu, h.readCF _ x hbu]
        by_cases hlt' : key s ⟨u, hu⟩ < k
        · exact hnt (ihk _ hlt' _ ⟨u, hu⟩ rfl rfl)
        · have hek : key s ⟨u, hu⟩ = k := by omega
          have hur : u < r := by omega
          exact hnt (ihr u hur ⟨u, hu⟩ hek rfl)

end SciVerif.StuckCore
