import SciVerif.Model.Fmt
/-! Helper lemmas on the string models (C14). -/
namespace SciVerif.Fmt
open SciVerif.Str

theorem sanitizeOk_ne_slash (c : Char) (h : sanitizeOk c = true) : c ≠ '/' := by
  intro hc; subst hc; revert h; decide

theorem squash_no_slash (l : S) (b : Bool) : ∀ c ∈ squash l b, c ≠ '/' := by
  induction l generalizing b with
  | nil => simp [squash]
  | cons x xs ih =>
    intro c hc
    simp only [squash] at hc
    split at hc
    · rename_i hok
      rcases List.mem_cons.1 hc with rfl | hc
      · exact sanitizeOk_ne_slash _ hok
      · exact ih false c hc
    · split at hc
      · exact ih true c hc
      · rcases List.mem_cons.1 hc with rfl | hc
        · decide
        · exact ih true c hc

theorem sanitize_no_slash (s : S) : ∀ c ∈ sanitize s, c ≠ '/' := squash_no_slash _ _

theorem tempDirPrefix_no_slash : ∀ c ∈ tempDirPrefix, c ≠ '/' := by decide

theorem pathPrefix_no_slash (id : Identity) : ∀ c ∈ pathPrefix id, c ≠ '/' := by
  intro c hc
  unfold pathPrefix at hc
  split at hc
  · exact tempDirPrefix_no_slash c hc
  · simp only [List.mem_append, List.mem_singleton] at hc
    rcases hc with (hc | hc) | hc
    · exact tempDirPrefix_no_slash c hc
    · subst hc; decide
    · exact sanitize_no_slash _ c hc

theorem pathPrefix_length (id : Identity) : (pathPrefix id).length ≤ 214 := by
  unfold pathPrefix
  split
  · decide
  · rename_i h
    unfold longPrefix at h
    simp at h
    simpa using h

theorem pathPrefix_head (id : Identity) : ∃ rest, pathPrefix id = '_' :: rest := by
  unfold pathPrefix
  split
  · exact ⟨_, rfl⟩
  · exact ⟨_, rfl⟩

end SciVerif.Fmt
