import SciVerif.Model.NetVal
import SciVerif.Lemmas.Net
/-! Invariant of the network model with values: every task created so far satisfies its local zip equation. -/
namespace SciVerif.Net

variable {n : Nat} {α : Type}

/-- the local equation of task `k` of process `v` in state `s` -/
def localVal (vn : VNet n α) (s : VSt n α) (v : Fin n) (k : Nat) : α :=
  if (vn.net.ins v).isEmpty then vn.srcv v k
  else vn.g v ((vn.net.ins v).filterMap fun u => (s.tasks u)[k]?)

structure VInv (vn : VNet n α) (s : VSt n α) : Prop where
  base : Inv0 vn.net s.base
  len  : ∀ v, (s.tasks v).length = s.base.c v
  eq   : ∀ v k, k < s.base.c v → (s.tasks v)[k]? = some (localVal vn s v k)

theorem vinv_init (vn : VNet n α) : VInv vn (vinit n α) :=
  ⟨inv0_init vn.net, fun _ => rfl, fun v k h => by simp [vinit, init] at h⟩

/-- a step of the network with values is a step of the counting network -/
theorem vstep_proj (vn : VNet n α) (s s' : VSt n α) (l : Lbl n) (h : vstep vn s l = some s') :
    step vn.net s.base l = some s'.base := by
  cases l with
  | create v =>
    simp only [vstep] at h
    split at h
    · rename_i hc
      simp only [Option.some.injEq] at h
      subst h
      simp [step, hc]
    · simp at h
  | forward v =>
    simp only [vstep, Option.map_eq_some_iff] at h
    obtain ⟨b, hb, rfl⟩ := h
    exact hb
  | terminate v =>
    simp only [vstep, Option.map_eq_some_iff] at h
    obtain ⟨b, hb, rfl⟩ := h
    exact hb

/-- and the other way round: whenever the counting network can move, so can the network with values -/
theorem vstep_of_step (vn : VNet n α) (s : VSt n α) (l : Lbl n) (b : NSt n) (h : step vn.net s.base l = some b) :
    ∃ s', vstep vn s l = some s' ∧ s'.base = b := by
  cases l with
  | create v =>
    simp only [step] at h
    split at h
    · rename_i hc
      simp only [Option.some.injEq] at h
      exact ⟨_, by simp only [vstep, hc, if_true]; rfl, h⟩
    · simp at h
  | forward v => exact ⟨{ s with base := b }, by simp [vstep, h], rfl⟩
  | terminate v => exact ⟨{ s with base := b }, by simp [vstep, h], rfl⟩

theorem vrun_proj (vn : VNet n α) (ls : List (Lbl n)) :
    ∀ s s', vrun vn s ls = some s' → run vn.net s.base ls = some s'.base := by
  induction ls with
  | nil => intro s s' h; simp [vrun] at h; subst h; rfl
  | cons l ls ih =>
    intro s s' h
    simp only [vrun] at h
    split at h
    · simp at h
    · rename_i s1 h1
      simp only [run, vstep_proj vn s s1 l h1]
      exact ih s1 s' h

theorem vstuck_proj (vn : VNet n α) (s : VSt n α) (h : vstuck vn s) : stuck vn.net s.base := by
  intro l
  cases hs : step vn.net s.base l with
  | none => rfl
  | some b =>
    obtain ⟨s', h', _⟩ := vstep_of_step vn s l b hs
    rw [h l] at h'
    simp at h'

theorem filterMap_congr' {β γ : Type} (l : List β) (f g : β → Option γ) (h : ∀ x ∈ l, f x = g x) :
    l.filterMap f = l.filterMap g := by
  induction l with
  | nil => rfl
  | cons x xs ih =>
    simp only [List.filterMap_cons, h x (List.mem_cons_self ..)]
    rw [ih (fun y hy => h y (List.mem_cons_of_mem _ hy))]

theorem filterMap_some_map {β γ : Type} (l : List β) (f : β → Option γ) (g : β → γ)
    (h : ∀ x ∈ l, f x = some (g x)) : l.filterMap f = l.map g := by
  induction l with
  | nil => rfl
  | cons x xs ih =>
    simp only [List.filterMap_cons, h x (List.mem_cons_self ..), List.map_cons]
    rw [ih (fun y hy => h y (List.mem_cons_of_mem _ hy))]

theorem vstep_inv (vn : VNet n α) (s s' : VSt n α) (l : Lbl n) (h : VInv vn s) (hs : vstep vn s l = some s') :
    VInv vn s' := by
  have hb' : Inv0 vn.net s'.base := step_inv0 vn.net s.base s'.base l h.base (vstep_proj vn s s' l hs)
  cases l with
  | create v0 =>
    simp only [vstep] at hs
    split at hs
    · rename_i hc
      simp only [Option.some.injEq] at hs
      subst hs
      -- items already there keep their index
      have stable : ∀ u k, k < s.base.c u →
          (upd s.tasks v0 (s.tasks v0 ++ [newTask vn s v0]) u)[k]? = (s.tasks u)[k]? := by
        intro u k hk
        by_cases hu : u = v0
        · subst hu
          simp only [upd, if_true]
          exact List.getElem?_append_left (by rw [h.len]; exact hk)
        · simp [upd, hu]
      have upk : ∀ (v : Fin n) k, k < s.base.c v → ∀ u ∈ vn.net.ins v, k < s.base.c u := by
        intro v k hk u hu
        have := h.base.cin v u hu
        have := h.base.fc u
        omega
      refine ⟨hb', ?_, ?_⟩
      · intro v
        by_cases hv : v = v0
        · subst hv; simp [upd, h.len]
        · simp [upd, hv, h.len]
      · intro v k hk
        have hloc : ∀ k, (∀ u ∈ vn.net.ins v, k < s.base.c u) →
            localVal vn { base := { s.base with c := upd s.base.c v0 (s.base.c v0 + 1) },
                          tasks := upd s.tasks v0 (s.tasks v0 ++ [newTask vn s v0]) } v k = localVal vn s v k := by
          intro k hku
          unfold localVal
          split
          · rfl
          · congr 1
            exact filterMap_congr' _ _ _ (fun u hu => stable u k (hku u hu))
        by_cases hv : v = v0
        · subst hv
          simp only [upd, if_true] at hk
          by_cases hk' : k < s.base.c v
          · rw [stable v k hk', hloc k (upk v k hk'), h.eq v k hk']
          · have hkc : k = s.base.c v := by omega
            subst hkc
            -- the new task: its inputs are the items number `c v` sent by the upstream processes
            have hcin : ∀ u ∈ vn.net.ins v, s.base.c v < s.base.f u := by
              intro u hu
              simp only [canCreate, Bool.and_eq_true] at hc
              have h2 := hc.2
              split at h2
              · rename_i he
                have : vn.net.ins v = [] := by simpa using he
                rw [this] at hu; simp at hu
              · have := List.all_eq_true.1 h2 u hu
                simpa using this
            have hku : ∀ u ∈ vn.net.ins v, s.base.c v < s.base.c u := by
              intro u hu
              have := hcin u hu
              have := h.base.fc u
              omega
            rw [hloc _ hku]
            simp only [upd, if_true]
            have : (s.tasks v ++ [newTask vn s v])[s.base.c v]? = some (newTask vn s v) := by
              rw [← h.len v]; simp
            rw [this]
            congr 1
            unfold newTask localVal
            split
            · rfl
            · congr 1
              apply filterMap_congr'
              intro u hu
              simp only [sent, List.getElem?_take, hcin u hu, if_true]
        · have hk2 : k < s.base.c v := by simpa [upd, hv] using hk
          rw [stable v k hk2, hloc k (upk v k hk2), h.eq v k hk2]
    · simp at hs
  | forward v0 =>
    simp only [vstep, Option.map_eq_some_iff] at hs
    obtain ⟨b, hb, rfl⟩ := hs
    have hcb : b.c = s.base.c := by
      simp only [step] at hb
      split at hb
      · simp only [Option.some.injEq] at hb; subst hb; rfl
      · simp at hb
    exact ⟨hb', fun v => by simpa [hcb] using h.len v, fun v k hk => by
      have := h.eq v k (by simpa [hcb] using hk)
      simpa [localVal] using this⟩
  | terminate v0 =>
    simp only [vstep, Option.map_eq_some_iff] at hs
    obtain ⟨b, hb, rfl⟩ := hs
    have hcb : b.c = s.base.c := by
      simp only [step] at hb
      split at hb
      · simp only [Option.some.injEq] at hb; subst hb; rfl
      · simp at hb
    exact ⟨hb', fun v => by simpa [hcb] using h.len v, fun v k hk => by
      have := h.eq v k (by simpa [hcb] using hk)
      simpa [localVal] using this⟩

theorem vrun_inv (vn : VNet n α) (ls : List (Lbl n)) :
    ∀ s s', VInv vn s → vrun vn s ls = some s' → VInv vn s' := by
  induction ls with
  | nil => intro s s' h hr; simp [vrun] at hr; subst hr; exact h
  | cons l ls ih =>
    intro s s' h hr
    simp only [vrun] at hr
    split at hr
    · simp at hr
    · rename_i s1 h1
      exact ih s1 s' (vstep_inv vn s s1 l h h1) hr

/-- every task created so far is the one the zip semantics prescribes -/
theorem tasks_eq_den [Inhabited α] (vn : VNet n α) (hac : acyclic vn.net) (s : VSt n α) (h : VInv vn s) :
    ∀ (r : Nat) (v : Fin n), v.val = r → ∀ d, v.val < d → ∀ k, k < s.base.c v →
      (s.tasks v)[k]? = some (den vn d v k) := by
  intro r
  induction r using Nat.strongRecOn with
  | _ r ih =>
    intro v hv d hd k hk
    cases d with
    | zero => omega
    | succ d' =>
      rw [h.eq v k hk]
      congr 1
      unfold localVal
      simp only [den]
      split
      · rfl
      · congr 1
        apply filterMap_some_map
        intro u hu
        have hlt := hac v u hu
        have h1 := h.base.cin v u hu
        have h2 := h.base.fc u
        exact ih u.val (by omega) u rfl d' (by omega) k (by omega)

end SciVerif.Net
