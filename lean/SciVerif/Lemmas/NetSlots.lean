import SciVerif.Model.NetSlots
import SciVerif.Lemmas.Net
/-! The network model with slots: invariant, projection onto the counting model, no deadlock, finiteness. -/
namespace SciVerif.Net

variable {n : Nat}

structure SInv (sn : SNet n) (N : Nat) (s : SSt n) : Prop where
  base : Inv sn.net N s.base
  len  : ∀ v, s.base.f v + (s.q v).length = s.base.c v

theorem sinv_init (sn : SNet n) (N : Nat) : SInv sn N (sinit n) :=
  ⟨inv_init sn.net N, fun _ => by simp [sinit, init]⟩

theorem canForward_eq (net : Net n) (b : NSt n) (v : Fin n) :
    canForward net b v = (decide (b.f v < b.c v) && roomAll net b v) := rfl

theorem sstep_inv (sn : SNet n) (N : Nat) (hbal : balanced sn.net N) (s s' : SSt n) (l : SLbl n)
    (h : SInv sn N s) (hs : sstep sn s l = some s') : SInv sn N s' := by
  cases l with
  | create v =>
    simp only [sstep] at hs
    split at hs
    · rename_i hg
      simp at hs; subst hs
      have hb : step sn.net s.base (.create v) = some { s.base with c := upd s.base.c v (s.base.c v + 1) } := by
        simp [step, hg]
      refine ⟨step_inv sn.net N hbal _ _ _ h.base hb, ?_⟩
      intro w
      by_cases hw : w = v
      · subst hw; simp; have := h.len w; omega
      · simp [upd_other _ _ _ _ hw]; exact h.len w
    · simp at hs
  | start v i =>
    simp only [sstep] at hs
    split at hs
    · simp at hs; subst hs
      refine ⟨h.base, ?_⟩
      intro w
      by_cases hw : w = v
      · subst hw; simp; exact h.len w
      · simp [upd_other _ _ _ _ hw]; exact h.len w
    · simp at hs
  | finish v i =>
    simp only [sstep] at hs
    split at hs
    · simp at hs; subst hs
      refine ⟨h.base, ?_⟩
      intro w
      by_cases hw : w = v
      · subst hw; simp; exact h.len w
      · simp [upd_other _ _ _ _ hw]; exact h.len w
    · simp at hs
  | forward v =>
    simp only [sstep] at hs
    split at hs
    · rename_i hg
      simp at hs; subst hs
      obtain ⟨hhead, hroom⟩ := hg
      have hne : 0 < (s.q v).length := by
        cases hq : s.q v with
        | nil => simp [hq] at hhead
        | cons a as => simp
      have hlt : s.base.f v < s.base.c v := by have := h.len v; omega
      have hb : step sn.net s.base (.forward v) = some { s.base with f := upd s.base.f v (s.base.f v + 1) } := by
        simp [step, canForward_eq, hlt, hroom]
      refine ⟨step_inv sn.net N hbal _ _ _ h.base hb, ?_⟩
      intro w
      by_cases hw : w = v
      · subst hw; simp; have := h.len w; omega
      · simp [upd_other _ _ _ _ hw]; exact h.len w
    · simp at hs
  | terminate v =>
    simp only [sstep] at hs
    split at hs
    · rename_i hg
      simp at hs; subst hs
      have hb : step sn.net s.base (.terminate v) = some { s.base with term := upd s.base.term v true } := by
        simp [step, hg]
      exact ⟨step_inv sn.net N hbal _ _ _ h.base hb, h.len⟩
    · simp at hs

theorem srun_inv (sn : SNet n) (N : Nat) (hbal : balanced sn.net N) (ls : List (SLbl n)) :
    ∀ s s', SInv sn N s → srun sn s ls = some s' → SInv sn N s' := by
  induction ls with
  | nil => intro s s' h hr; simp [srun] at hr; subst hr; exact h
  | cons l ls ih =>
    intro s s' h hr
    simp only [srun] at hr
    split at hr
    · simp at hr
    · rename_i s1 hs1
      exact ih s1 s' (sstep_inv sn N hbal s s1 l h hs1) hr

theorem sum_zero {α : Type} (l : List α) (g : α → Nat) (h : ∀ x ∈ l, g x = 0) : (l.map g).sum = 0 := by
  induction l with
  | nil => rfl
  | cons x xs ih =>
    simp only [List.map_cons, List.sum_cons, h x (by simp), ih (fun y hy => h y (List.mem_cons_of_mem _ hy))]

/-- in a state where nothing can move every started task is done (no slot is held, none is waited for) -/
theorem sstuck_all_done (sn : SNet n) (hcores : ∀ v, sn.cores v ≤ sn.max) (s : SSt n) (hst : sstuck sn s) :
    ∀ v ph, ph ∈ s.q v → ph = .done := by
  have hnorun : ∀ (v : Fin n) (i : Nat), (s.q v)[i]? ≠ some Ph.running := by
    intro v i hr
    have := hst (.finish v i)
    simp [sstep, hr] at this
  have hcount : ∀ v, running s v = 0 := by
    intro v
    unfold running
    rw [List.count_eq_zero]
    intro hmem
    obtain ⟨i, hi⟩ := List.mem_iff_getElem?.1 hmem
    exact hnorun v i hi
  have hused : used sn s = 0 := by
    unfold used
    apply sum_zero
    intro v _
    simp [hcount v]
  intro v ph hph
  obtain ⟨i, hi⟩ := List.mem_iff_getElem?.1 hph
  cases ph with
  | done => rfl
  | running => exact absurd hi (hnorun v i)
  | waiting =>
    exfalso
    have := hst (.start v i)
    have hc := hcores v
    simp [sstep, hi, hused, hc] at this

/-- a stuck state of the model with slots projects to a stuck state of the counting model -/
theorem sstuck_proj (sn : SNet n) (N : Nat) (hcores : ∀ v, sn.cores v ≤ sn.max) (s : SSt n) (h : SInv sn N s)
    (hst : sstuck sn s) : stuck sn.net s.base := by
  have hdone := sstuck_all_done sn hcores s hst
  intro l
  cases l with
  | create v =>
    have := hst (.create v)
    simp only [sstep] at this
    split at this
    · simp at this
    · rename_i hg; simp [step, hg]
  | terminate v =>
    have := hst (.terminate v)
    simp only [sstep] at this
    split at this
    · simp at this
    · rename_i hg; simp [step, hg]
  | forward v =>
    cases hcf : canForward sn.net s.base v with
    | false => simp [step, hcf]
    | true =>
      exfalso
      rw [canForward_eq] at hcf
      simp only [Bool.and_eq_true, decide_eq_true_eq] at hcf
      obtain ⟨hlt, hroom⟩ := hcf
      have hlen := h.len v
      cases hq : s.q v with
      | nil => simp [hq] at hlen; omega
      | cons a as =>
        have ha : a = .done := hdone v a (by simp [hq])
        have := hst (.forward v)
        simp [sstep, hq, ha, hroom] at this

/-! ### finiteness -/

def wPh : Ph → Nat
  | .waiting => 2
  | .running => 1
  | .done => 0

def wq (l : List Ph) : Nat := (l.map wPh).sum

def muS (N : Nat) (s : SSt n) : Nat := 3 * mu N s.base + ((List.finRange n).map fun v => wq (s.q v)).sum

theorem sum_upd2 (l : List (Fin n)) (hnd : l.Nodup) (g g' : Fin n → Nat) (v : Fin n) (hv : v ∈ l) (a b : Nat)
    (h1 : g' v + a = g v + b) (h2 : ∀ w, w ≠ v → g' w = g w) : (l.map g').sum + a = (l.map g).sum + b := by
  induction l with
  | nil => simp at hv
  | cons x xs ih =>
    have hnd' := List.nodup_cons.1 hnd
    by_cases hx : x = v
    · subst hx
      have hsame : xs.map g' = xs.map g := by
        apply List.map_congr_left
        intro w hw
        exact h2 w (fun e => hnd'.1 (e ▸ hw))
      simp only [List.map_cons, List.sum_cons, hsame]
      omega
    · have hvx : v ∈ xs := by
        rcases List.mem_cons.1 hv with e | e
        · exact absurd e.symm hx
        · exact e
      simp only [List.map_cons, List.sum_cons, h2 x hx]
      have := ih hnd'.2 hvx
      omega

theorem wq_set (l : List Ph) (i : Nat) (p p' : Ph) (h : l[i]? = some p) : wq (l.set i p') + wPh p = wq l + wPh p' := by
  induction l generalizing i with
  | nil => simp at h
  | cons x xs ih =>
    cases i with
    | zero =>
      simp at h; subst h
      simp [wq]; omega
    | succ i =>
      simp at h
      have := ih i h
      simp only [wq, List.set_cons_succ, List.map_cons, List.sum_cons] at this ⊢
      omega

theorem wq_append (l : List Ph) (p : Ph) : wq (l ++ [p]) = wq l + wPh p := by
  simp [wq]

theorem sstep_mu (sn : SNet n) (N : Nat) (hbal : balanced sn.net N) (s s' : SSt n) (l : SLbl n)
    (h : SInv sn N s) (hs : sstep sn s l = some s') : muS N s' < muS N s := by
  unfold muS
  cases l with
  | create v =>
    simp only [sstep] at hs
    split at hs
    · rename_i hg
      simp at hs; subst hs
      have hb : step sn.net s.base (.create v) = some { c := upd s.base.c v (s.base.c v + 1), f := s.base.f, term := s.base.term } := by
        simp [step, hg]
      have hm := step_mu sn.net N hbal _ _ _ h.base hb
      have hq := sum_upd2 (List.finRange n) (List.nodup_finRange n) (fun w => wq (s.q w))
        (fun w => wq (upd s.q v (s.q v ++ [.waiting]) w)) v (List.mem_finRange v) 0 2
        (by simp [wq_append, wPh]) (by intro w hw; simp [upd_other _ _ _ _ hw])
      simp only at hq ⊢
      omega
    · simp at hs
  | start v i =>
    simp only [sstep] at hs
    split at hs
    · rename_i hg
      simp at hs; subst hs
      have hq := sum_upd2 (List.finRange n) (List.nodup_finRange n) (fun w => wq (s.q w))
        (fun w => wq (upd s.q v ((s.q v).set i .running) w)) v (List.mem_finRange v) 1 0
        (by have := wq_set (s.q v) i .waiting .running hg.1; simp [wPh] at this ⊢; omega)
        (by intro w hw; simp [upd_other _ _ _ _ hw])
      simp only at hq ⊢
      omega
    · simp at hs
  | finish v i =>
    simp only [sstep] at hs
    split at hs
    · rename_i hg
      simp at hs; subst hs
      have hq := sum_upd2 (List.finRange n) (List.nodup_finRange n) (fun w => wq (s.q w))
        (fun w => wq (upd s.q v ((s.q v).set i .done) w)) v (List.mem_finRange v) 1 0
        (by have := wq_set (s.q v) i .running .done hg; simp [wPh] at this ⊢; omega)
        (by intro w hw; simp [upd_other _ _ _ _ hw])
      simp only at hq ⊢
      omega
    · simp at hs
  | forward v =>
    simp only [sstep] at hs
    split at hs
    · rename_i hg
      simp at hs; subst hs
      obtain ⟨hhead, hroom⟩ := hg
      have hne : 0 < (s.q v).length := by
        cases hq : s.q v with
        | nil => simp [hq] at hhead
        | cons a as => simp
      have hlt : s.base.f v < s.base.c v := by have := h.len v; omega
      have hb : step sn.net s.base (.forward v) = some { c := s.base.c, f := upd s.base.f v (s.base.f v + 1), term := s.base.term } := by
        simp [step, canForward_eq, hlt, hroom]
      have hm := step_mu sn.net N hbal _ _ _ h.base hb
      have hq := sum_upd2 (List.finRange n) (List.nodup_finRange n) (fun w => wq (s.q w))
        (fun w => wq (upd s.q v (s.q v).tail w)) v (List.mem_finRange v) 0 0
        (by
          cases hq : s.q v with
          | nil => simp [hq] at hhead
          | cons a as =>
            simp [hq] at hhead; subst hhead
            simp [wq, wPh])
        (by intro w hw; simp [upd_other _ _ _ _ hw])
      simp only at hq ⊢
      omega
    · simp at hs
  | terminate v =>
    simp only [sstep] at hs
    split at hs
    · rename_i hg
      simp at hs; subst hs
      have hb : step sn.net s.base (.terminate v) = some { c := s.base.c, f := s.base.f, term := upd s.base.term v true } := by
        simp [step, hg]
      have hm := step_mu sn.net N hbal _ _ _ h.base hb
      simp only
      omega
    · simp at hs

theorem srun_mu (sn : SNet n) (N : Nat) (hbal : balanced sn.net N) (ls : List (SLbl n)) :
    ∀ s s', SInv sn N s → srun sn s ls = some s' → muS N s' + ls.length ≤ muS N s := by
  induction ls with
  | nil => intro s s' _ hr; simp [srun] at hr; subst hr; simp
  | cons l ls ih =>
    intro s s' h hr
    simp only [srun] at hr
    split at hr
    · simp at hr
    · rename_i s1 hs1
      have h1 := sstep_mu sn N hbal s s1 l h hs1
      have h2 := ih s1 s' (sstep_inv sn N hbal s s1 l h hs1) hr
      simp only [List.length_cons]
      omega

theorem muS_init (N : Nat) : muS N (sinit n) = 3 * (n * (2 * N + 1)) := by
  unfold muS
  have : ((List.finRange n).map fun v => wq ((sinit n).q v)) = (List.finRange n).map (fun _ => 0) := by
    apply List.map_congr_left
    intro v _
    simp [sinit, wq]
  rw [this, sum_const]
  simp [sinit, mu_init]

end SciVerif.Net
