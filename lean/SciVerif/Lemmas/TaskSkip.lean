import SciVerif.Lemmas.TaskFS
/-! Skip-if-exists, leftover refusal and failure lemmas of the task model (C02, C03, C09). -/
namespace SciVerif.TaskFS

/-- the ops before `skipIfOutputs` are all `checkTempDir` (read-only) and `skipIfOutputs` occurs -/
def skipShape : List TaskOp → Bool
  | .checkTempDir :: rest => skipShape rest
  | .skipIfOutputs :: _ => true
  | _ => false

/-- what C02 needs from the source -/
def WF_C02 (sem : Sem) : Prop := skipShape sem.ops = true ∧ sem.streamsExempt = true

instance (sem : Sem) : Decidable (WF_C02 sem) := by unfold WF_C02; infer_instance

/-- a start state: fresh attempt (`init` or `restart`) on a file system without this task's temp dir -/
structure Start (sem : Sem) (s : St) : Prop where
  pc     : s.pc = sem.ops
  finpc  : s.finpc = none
  cmd    : s.cmd = .notRun
  tmp    : s.tmp = false
  status : s.status = .active

/-- invariant of a skipping task -/
structure K (c : Cfg) (s0 s : St) : Prop where
  final    : s.finalOut = s0.finalOut
  temp     : s.tempOut = s0.tempOut
  executed : s.executed = s0.executed
  holding  : s.holding = s0.holding
  audit    : s.audit = s0.audit
  tmp      : s.tmp = false
  extras   : s.extras = s0.extras ∧ s.moved = s0.moved
  okRuns   : s.okRuns = s0.okRuns
  finpc    : s.finpc = none
  cmd      : s.cmd = .notRun
  nofail   : s.status ≠ .failed
  shape    : s.status = .active → skipShape s.pc = true
  done     : s.status = .done → s.skipped = true

theorem anyFinalExists_congr (c : Cfg) (s s' : St) (h : s'.finalOut = s.finalOut) :
    anyFinalExists c s' = anyFinalExists c s := by
  simp only [anyFinalExists, getF, h]

theorem stepN_done (sem : Sem) (c : Cfg) (s : St) (h : s.status = .done) (n : Nat) :
    stepN sem c n s = s := by
  cases n with
  | zero => rfl
  | succ n => simp [stepN, step, h]

theorem K_of {c : Cfg} {s0 s s' : St} (h : K c s0 s)
    (h1 : s'.finalOut = s.finalOut) (h2 : s'.tempOut = s.tempOut) (h3 : s'.executed = s.executed)
    (h4 : s'.holding = s.holding) (h5 : s'.audit = s.audit) (h6 : s'.tmp = s.tmp)
    (h7 : s'.extras = s.extras) (h8 : s'.moved = s.moved) (h9 : s'.okRuns = s.okRuns)
    (h10 : s'.finpc = s.finpc) (h11 : s'.cmd = s.cmd) (hnf : s'.status ≠ .failed)
    (hsh : s'.status = .active → skipShape s'.pc = true) (hd : s'.status = .done → s'.skipped = true) :
    K c s0 s' :=
  ⟨h1.trans h.final, h2.trans h.temp, h3.trans h.executed, h4.trans h.holding, h5.trans h.audit,
   h6.trans h.tmp, ⟨h7.trans h.extras.1, h8.trans h.extras.2⟩, h9.trans h.okRuns, h10.trans h.finpc,
   h11.trans h.cmd, hnf, hsh, hd⟩

theorem anyFinal_of_K {c : Cfg} {s0 s : St} (h : K c s0 s) (hex : anyFinalExists c s0 = true)
    (s' : St) (hf : s'.finalOut = s.finalOut) : anyFinalExists c s' = true := by
  have : anyFinalExists c s' = anyFinalExists c s0 := by
    simp only [anyFinalExists, getF, hf, h.final]
  rw [this]; exact hex

theorem K_step (sem : Sem) (c : Cfg) (s0 s s' : St) (hex : anyFinalExists c s0 = true)
    (h : K c s0 s) (hs : step sem c s = some s') :
    K c s0 s' ∧ (s'.pc.length < s.pc.length ∨ s'.status = .done) := by
  unfold step at hs
  split at hs
  · simp at hs
  · rename_i hact
    have hact' : s.status = .active := by simpa using hact
    split at hs
    · rename_i f hf; rw [h.finpc] at hf; simp at hf
    · split at hs
      · rename_i todo hc; rw [h.cmd] at hc; simp at hc
      · have hsh := h.shape hact'
        split at hs
        · rename_i hpc; simp [hpc, skipShape] at hsh
        · rename_i op rest hpc
          rw [hpc] at hsh
          cases op <;> simp only [skipShape] at hsh <;> try (simp at hsh)
          · -- checkTempDir
            simp at hs; subst hs
            split
            · rename_i ht; simp [h.tmp] at ht
            · exact ⟨K_of h rfl rfl rfl rfl rfl rfl rfl rfl rfl rfl rfl (by simp [hact']) (fun _ => hsh) (by simp [hact']),
                Or.inl (by simp [hpc])⟩
          · -- skipIfOutputs
            simp at hs; subst hs
            split
            · exact ⟨K_of h rfl rfl rfl rfl rfl rfl rfl rfl rfl rfl rfl (by simp) (by simp) (by simp), Or.inr rfl⟩
            · rename_i hn
              exact absurd (anyFinal_of_K h hex _ rfl) hn

theorem K_start (sem : Sem) (hwf : WF_C02 sem) (c : Cfg) (s0 : St) (hst : Start sem s0) : K c s0 s0 :=
  ⟨rfl, rfl, rfl, rfl, rfl, hst.tmp, ⟨rfl, rfl⟩, rfl, hst.finpc, hst.cmd, by simp [hst.status],
   fun _ => by rw [hst.pc]; exact hwf.1, fun h => by simp [hst.status] at h⟩

theorem K_stepN (sem : Sem) (c : Cfg) (s0 s : St) (hex : anyFinalExists c s0 = true) (n : Nat)
    (h : K c s0 s) : K c s0 (stepN sem c n s) := by
  induction n generalizing s with
  | zero => exact h
  | succ n ih =>
    simp only [stepN]
    split
    · exact h
    · rename_i s' hs
      exact ih s' (K_step sem c s0 s s' hex h hs).1

/-- a skipping task reaches `done` within `ops.length + 1` steps -/
theorem K_progress (sem : Sem) (c : Cfg) (s0 : St) (hex : anyFinalExists c s0 = true) :
    ∀ (k : Nat) (s : St), K c s0 s → s.pc.length ≤ k → (stepN sem c (k + 1) s).status = .done := by
  intro k
  induction k with
  | zero =>
    intro s h hk
    cases hst : s.status with
    | failed => exact absurd hst h.nofail
    | done => simp [stepN, step, hst]
    | active =>
      have := h.shape hst
      have hnil : s.pc = [] := List.eq_nil_of_length_eq_zero (by omega)
      simp [hnil, skipShape] at this
  | succ k ih =>
    intro s h hk
    cases hst : s.status with
    | failed => exact absurd hst h.nofail
    | done =>
      have : step sem c s = none := by simp [step, hst]
      simp [stepN, this, hst]
    | active =>
      cases hstep : step sem c s with
      | none =>
        exfalso
        have hsh := h.shape hst
        cases hpc : s.pc with
        | nil => simp [hpc, skipShape] at hsh
        | cons op rest => cases op <;> simp [step, hst, h.finpc, h.cmd, hpc] at hstep
      | some s' =>
        obtain ⟨hK', hlen⟩ := K_step sem c s0 s s' hex h hstep
        simp only [stepN, hstep]
        rcases hlen with hl | hd
        · exact ih s' hK' (by omega)
        · have : step sem c s' = none := by simp [step, hd]
          simp only [this]; exact hd

/-! ### leftover refusal (C03) -/

/-- the temp-dir check comes first -/
def WF_C03 (sem : Sem) : Prop := sem.ops.head? = some .checkTempDir

instance (sem : Sem) : Decidable (WF_C03 sem) := by unfold WF_C03; infer_instance

/-! ### failure (C09) -/

theorem step_none_of_not_active (sem : Sem) (c : Cfg) (s : St) (h : s.status ≠ .active) :
    step sem c s = none := by simp [step, h]

theorem stepN_of_not_active (sem : Sem) (c : Cfg) (s : St) (h : s.status ≠ .active) (n : Nat) :
    stepN sem c n s = s := by
  cases n with
  | zero => rfl
  | succ n => simp [stepN, step_none_of_not_active sem c s h]

/-- every state that is still active can move: a task never blocks by itself -/
theorem step_some_of_active (sem : Sem) (c : Cfg) (s : St) (h : s.status = .active) :
    ∃ s', step sem c s = some s' := by
  unfold step
  simp only [h]
  cases s.finpc with
  | some f => exact ⟨_, rfl⟩
  | none =>
    cases s.cmd with
    | inRun todo => exact ⟨_, rfl⟩
    | notRun => cases s.pc with
      | nil => exact ⟨_, rfl⟩
      | cons op rest => cases op <;> exact ⟨_, rfl⟩
    | ok => cases s.pc with
      | nil => exact ⟨_, rfl⟩
      | cons op rest => cases op <;> exact ⟨_, rfl⟩
    | failed => cases s.pc with
      | nil => exact ⟨_, rfl⟩
      | cons op rest => cases op <;> exact ⟨_, rfl⟩

/-- invariant for commands that do not exit successfully (needs `cmdFailFatal`) -/
structure F (s : St) : Prop where
  cmd_not_ok : s.cmd ≠ .ok ∧ s.cmd ≠ .failed
  okRuns     : s.okRuns = 0

theorem F_step (sem : Sem) (hfat : sem.cmdFailFatal = true) (c : Cfg) (hex : c.beh.exit ≠ .ok)
    (s s' : St) (h : F s) (hs : step sem c s = some s') : F s' := by
  unfold step at hs
  split at hs
  · simp at hs
  · split at hs
    · rename_i f hf
      simp at hs; subst hs
      unfold stepFin
      cases f.todo with
      | nil => exact ⟨h.cmd_not_ok, h.okRuns⟩
      | cons op rest =>
        cases op with
        | renameDeclared =>
          simp only
          cases f.ports with
          | nil => exact ⟨h.cmd_not_ok, h.okRuns⟩
          | cons p ps =>
            simp only
            split
            · split
              · exact ⟨h.cmd_not_ok, h.okRuns⟩
              · exact ⟨h.cmd_not_ok, h.okRuns⟩
            · exact ⟨h.cmd_not_ok, h.okRuns⟩
        | moveExtras => exact ⟨h.cmd_not_ok, h.okRuns⟩
        | removeTemp => exact ⟨h.cmd_not_ok, h.okRuns⟩
        | unknown => exact ⟨h.cmd_not_ok, h.okRuns⟩
    · split at hs
      · rename_i todo hc
        simp at hs; subst hs
        unfold stepCmd
        cases todo with
        | nil =>
          simp only
          cases hx : c.beh.exit with
          | ok => exact absurd hx hex
          | code => simp only [hfat, if_true]; exact ⟨by simp [fail, hc], h.okRuns⟩
          | killed => simp only [hfat, if_true]; exact ⟨by simp [fail, hc], h.okRuns⟩
        | cons a rest =>
          cases a with
          | extra n ch => exact ⟨by simp, h.okRuns⟩
          | write p ch =>
            simp only
            split
            · split <;> exact ⟨by simp, h.okRuns⟩
            · exact ⟨by simp, h.okRuns⟩
      · split at hs
        · simp at hs; subst hs; exact ⟨h.cmd_not_ok, h.okRuns⟩
        · rename_i op rest hpc
          cases op <;> simp at hs <;> subst hs
          · split <;> exact ⟨h.cmd_not_ok, h.okRuns⟩
          · split <;> exact ⟨h.cmd_not_ok, h.okRuns⟩
          · exact ⟨h.cmd_not_ok, h.okRuns⟩
          · exact ⟨h.cmd_not_ok, h.okRuns⟩
          · split
            · exact ⟨by simp, h.okRuns⟩
            · exact ⟨h.cmd_not_ok, h.okRuns⟩
          · exact ⟨h.cmd_not_ok, h.okRuns⟩
          · split <;> exact ⟨h.cmd_not_ok, h.okRuns⟩
          · exact ⟨h.cmd_not_ok, h.okRuns⟩
          · exact ⟨h.cmd_not_ok, h.okRuns⟩
          · exact ⟨h.cmd_not_ok, h.okRuns⟩
          · exact ⟨h.cmd_not_ok, h.okRuns⟩

theorem F_stepN (sem : Sem) (hfat : sem.cmdFailFatal = true) (c : Cfg) (hex : c.beh.exit ≠ .ok)
    (s : St) (n : Nat) (h : F s) : F (stepN sem c n s) := by
  induction n generalizing s with
  | zero => exact h
  | succ n ih =>
    simp only [stepN]
    split
    · exact h
    · rename_i s' hs
      exact ih s' (F_step sem hfat c hex s s' h hs)

end SciVerif.TaskFS

namespace SciVerif.TaskFS

/-! ### histories: crash, optional cleanup, re-run (C03) -/

/-- what holds of the file system at attempt boundaries -/
structure B (c : Cfg) (s : St) : Prop where
  fin_ok : ∀ p f, s.finalOut p = some f → f.fresh = true → f.complete = true
  okruns : 0 < s.okRuns → c.beh.exit = .ok

theorem B_of_J {c : Cfg} {s0 s : St} (h : J c s0 s) : B c s := ⟨h.fin_ok, h.okruns⟩

/-- the next attempt after a crash. Without cleanup, leftovers stay — unless no temp directory
exists, in which case nothing can exist below it either (file-system fact) and cleanup is a no-op. -/
def nextAttempt (sem : Sem) (clean : Bool) (s : St) : St :=
  if clean || !s.tmp then restart sem (cleanup s) else restart sem s

theorem J_restart_cleanup (sem : Sem) (c : Cfg) (s : St) (h : B c s) :
    J c (restart sem (cleanup s)) (restart sem (cleanup s)) := by
  refine ⟨h.fin_ok, ?_, ?_, ?_, ?_, ?_, Or.inl (fun _ => rfl), h.okruns, ?_⟩ <;> simp [restart, cleanup]

theorem B_attempt (sem : Sem) (hwf : WF_C01 sem) (hwf3 : WF_C03 sem) (c : Cfg) (clean : Bool) (s : St)
    (n : Nat) (h : B c s) : B c (stepN sem c n (nextAttempt sem clean s)) := by
  unfold nextAttempt
  split
  · exact B_of_J (stepN_J sem hwf c _ _ n (J_restart_cleanup sem c s h))
  · rename_i hcl
    have htmp : s.tmp = true := by
      cases ht : s.tmp with
      | true => rfl
      | false => simp [ht] at hcl
    -- the first step refuses; nothing on disk changes
    cases n with
    | zero => exact ⟨h.fin_ok, h.okruns⟩
    | succ n =>
      unfold WF_C03 at hwf3
      cases hops : sem.ops with
      | nil => simp [hops] at hwf3
      | cons op rest =>
        simp [hops] at hwf3; subst hwf3
        have hstep : step sem c (restart sem s) = some (fail { restart sem s with pc := rest }) := by
          simp [step, restart, hops, htmp]
        simp only [stepN, hstep]
        rw [stepN_of_not_active sem c _ (by simp [fail]) n]
        exact ⟨h.fin_ok, h.okruns⟩

/-- run a whole history: attempts are (number of micro-steps before the kill, cleanup afterwards?) -/
def runHistory (sem : Sem) (c : Cfg) (pre : Nat → Option File) : List (Nat × Bool) → St
  | [] => init sem c pre
  | (n, clean) :: rest =>
    -- attempts are listed last-first: `rest` happened before this one
    let s := runHistory sem c pre rest
    nextAttempt sem clean (stepN sem c n s)

theorem B_history (sem : Sem) (hwf : WF_C01 sem) (hwf3 : WF_C03 sem) (c : Cfg) (pre : Nat → Option File)
    (hist : List (Nat × Bool)) (n : Nat) : B c (stepN sem c n (runHistory sem c pre hist)) := by
  induction hist generalizing n with
  | nil => exact B_of_J (stepN_J sem hwf c _ _ n (J_init sem c pre))
  | cons a rest ih =>
    obtain ⟨m, clean⟩ := a
    simp only [runHistory]
    exact B_attempt sem hwf hwf3 c clean _ n (ih m)

end SciVerif.TaskFS
