import SciVerif.Model.Slots
/-! Helper lemmas for the slot model (C06, C07). Core Lean only. -/
namespace SciVerif.Slots

def sumBy (f : Task → Nat) (ts : List Task) : Nat := (ts.map f).sum

theorem sumBy_split (f : Task → Nat) (ts : List Task) (i : Nat) (t : Task) (h : ts[i]? = some t) :
    sumBy f ts = sumBy f (ts.eraseIdx i) + f t := by
  induction ts generalizing i with
  | nil => simp at h
  | cons a as ih =>
    cases i with
    | zero => simp at h; subst h; simp [sumBy]; omega
    | succ j =>
      simp at h
      have := ih j h
      simp [sumBy, List.eraseIdx_cons_succ] at *
      omega

theorem sumBy_set (f : Task → Nat) (ts : List Task) (i : Nat) (t t' : Task) (h : ts[i]? = some t) :
    sumBy f (ts.set i t') = sumBy f (ts.eraseIdx i) + f t' := by
  induction ts generalizing i with
  | nil => simp at h
  | cons a as ih =>
    cases i with
    | zero => simp [sumBy]; omega
    | succ j =>
      simp at h
      have := ih j h
      simp [sumBy, List.eraseIdx_cons_succ] at *
      omega

theorem tokens_eq : tokens = sumBy held := rfl
theorem running_eq : running = sumBy (fun t => if isRun t then t.cores else 0) := rfl

def acqCount (ts : List Task) : Nat := sumBy (fun t => if isAcq t then 1 else 0) ts

theorem lockHeld_false_iff (ts : List Task) : lockHeld ts = false ↔ acqCount ts = 0 := by
  induction ts with
  | nil => simp [lockHeld, acqCount, sumBy]
  | cons a as ih =>
    simp only [lockHeld, List.any_cons, acqCount, sumBy, List.map_cons, List.sum_cons] at *
    cases h : isAcq a <;> simp [h] at * <;> exact ih

theorem running_le_tokens (ts : List Task) : running ts ≤ tokens ts := by
  induction ts with
  | nil => simp [running, tokens]
  | cons t ts ih =>
    simp only [running, tokens, List.map_cons, List.sum_cons] at *
    have : (if isRun t then t.cores else 0) ≤ held t := by
      unfold held isRun; cases t.ph <;> simp
    omega

theorem stepTask_held (sem : SlotSem) (max o : Nat) (l : Bool) (t t' : Task) (hw : wfTask t)
    (h : stepTask sem max o l t = some t') :
    (o + held t' ≤ o + held t ∨ o + held t' ≤ max) ∧ wfTask t' ∧ t'.cores = t.cores := by
  obtain ⟨c, ph⟩ := t
  cases ph with
  | idle =>
    simp only [stepTask] at h
    split at h
    · simp at h
    · split at h <;> (simp at h; subst h; simp_all [held, wfTask] <;> omega)
  | acq k =>
    simp only [stepTask] at h
    simp only [wfTask] at hw
    split at h
    · split at h <;> (simp at h; subst h; simp [held, wfTask]; omega)
    · simp at h
  | run =>
    simp only [stepTask] at h
    simp at h; subst h
    by_cases hc : c = 0 <;> simp [held, wfTask, hc]; omega
  | rel k =>
    simp only [stepTask] at h
    simp only [wfTask] at hw
    simp at h; subst h
    by_cases hc : k ≤ 1 <;> simp [held, wfTask, hc] <;> omega
  | done => simp [stepTask] at h

/-- unfolding of `step` -/
theorem step_some (sem : SlotSem) (s s' : St) (i : Nat) (h : step sem s i = some s') :
    ∃ t t', s.tasks[i]? = some t ∧
      stepTask sem s.max (tokens (s.tasks.eraseIdx i)) (lockHeld (s.tasks.eraseIdx i)) t = some t' ∧
      s' = { s with tasks := s.tasks.set i t' } := by
  unfold step at h
  split at h
  · simp at h
  · rename_i t ht
    simp only at h
    split at h
    · simp at h
    · rename_i t' ht'
      simp at h
      exact ⟨t, t', ht, ht', h.symm⟩

theorem step_inv (sem : SlotSem) (s s' : St) (i : Nat) (hinv : Inv s) (h : step sem s i = some s') :
    Inv s' ∧ s'.max = s.max := by
  obtain ⟨t, t', ht, hst, rfl⟩ := step_some sem s s' i h
  have htm : t ∈ s.tasks := List.mem_of_getElem? ht
  obtain ⟨hh, hw, _⟩ := stepTask_held sem _ _ _ t t' (hinv.2 t htm) hst
  refine ⟨⟨?_, ?_⟩, rfl⟩
  · simp only
    rw [tokens_eq, sumBy_set held _ i t t' ht]
    have := sumBy_split held _ i t ht
    have := hinv.1
    rw [tokens_eq] at *
    omega
  · intro u hu
    simp only at hu
    rcases List.mem_or_eq_of_mem_set hu with hu | hu
    · exact hinv.2 u hu
    · subst hu; exact hw

theorem init_inv (max : Nat) (cores : List Nat) : Inv (init max cores) := by
  refine ⟨?_, ?_⟩
  · have : tokens (init max cores).tasks = 0 := by
      simp only [init, tokens]
      induction cores with
      | nil => simp
      | cons c cs ih => simp only [List.map_cons, List.sum_cons, ih]; simp [held]
    omega
  · intro t ht
    simp [init] at ht
    obtain ⟨c, _, rfl⟩ := ht
    simp [wfTask]

theorem run_inv (sem : SlotSem) (s s' : St) (sched : List Nat) (hinv : Inv s)
    (h : run sem s sched = some s') : Inv s' ∧ s'.max = s.max := by
  induction sched generalizing s with
  | nil => simp [run] at h; subst h; exact ⟨hinv, rfl⟩
  | cons i is ih =>
    simp only [run] at h
    split at h
    · simp at h
    · rename_i s1 hs1
      obtain ⟨h1, hm1⟩ := step_inv sem s s1 i hinv hs1
      obtain ⟨h2, hm2⟩ := ih s1 h1 h
      exact ⟨h2, by omega⟩

/-! ### mutual exclusion of the deposit loop (needs `sem.locked`) -/

theorem stepTask_acq (sem : SlotSem) (hl : sem.locked = true) (max o : Nat) (l : Bool) (t t' : Task)
    (h : stepTask sem max o l t = some t') :
    (isAcq t' = true → isAcq t = true ∨ l = false) := by
  obtain ⟨c, ph⟩ := t
  cases ph with
  | idle =>
    simp only [stepTask, hl, Bool.true_and] at h
    intro _
    cases l <;> simp_all
  | acq k => intro _; simp [isAcq]
  | run => simp only [stepTask] at h; simp at h; subst h; by_cases hc : c = 0 <;> simp [isAcq, hc]
  | rel k => simp only [stepTask] at h; simp at h; subst h; by_cases hc : k ≤ 1 <;> simp [isAcq, hc]
  | done => simp [stepTask] at h

theorem step_acqCount (sem : SlotSem) (hl : sem.locked = true) (s s' : St) (i : Nat)
    (hm : acqCount s.tasks ≤ 1) (h : step sem s i = some s') : acqCount s'.tasks ≤ 1 := by
  obtain ⟨t, t', ht, hst, rfl⟩ := step_some sem s s' i h
  simp only [acqCount] at *
  rw [sumBy_set _ _ i t t' ht]
  have hsplit := sumBy_split (fun t => if isAcq t then 1 else 0) _ i t ht
  have := stepTask_acq sem hl _ _ _ t t' hst
  cases hA' : isAcq t' with
  | false => simp; omega
  | true =>
    rcases this hA' with hA | hL
    · simp [hA] at hsplit; simp; omega
    · have := (lockHeld_false_iff _).1 hL
      simp only [acqCount] at this
      simp; omega

theorem init_acqCount (max : Nat) (cores : List Nat) : acqCount (init max cores).tasks = 0 := by
  simp only [init, acqCount, sumBy]
  induction cores with
  | nil => simp
  | cons c cs ih => simp only [List.map_cons, List.sum_cons, ih]; simp [isAcq]

theorem run_acqCount (sem : SlotSem) (hl : sem.locked = true) (s s' : St) (sched : List Nat)
    (hm : acqCount s.tasks ≤ 1) (h : run sem s sched = some s') : acqCount s'.tasks ≤ 1 := by
  induction sched generalizing s with
  | nil => simp [run] at h; subst h; exact hm
  | cons i is ih =>
    simp only [run] at h
    split at h
    · simp at h
    · rename_i s1 hs1
      exact ih s1 (step_acqCount sem hl s s1 i hm hs1) h

/-- tokens of a list in which nobody is busy or acquiring is zero -/
theorem tokens_zero_of_quiet (ts : List Task) (h : ∀ t ∈ ts, isBusy t = false ∧ isAcq t = false) :
    tokens ts = 0 := by
  induction ts with
  | nil => simp [tokens]
  | cons a as ih =>
    have ha := h a (by simp)
    have := ih (fun t ht => h t (by simp [ht]))
    simp [tokens] at *
    refine ⟨?_, this⟩
    obtain ⟨c, ph⟩ := a
    cases ph <;> simp_all [held, isBusy, isAcq]

theorem acq_zero_all (ts : List Task) (h : acqCount ts = 0) : ∀ t ∈ ts, isAcq t = false := by
  induction ts with
  | nil => simp
  | cons a as ih =>
    simp only [acqCount, sumBy, List.map_cons, List.sum_cons] at h
    intro t ht
    cases ha : isAcq a with
    | true => simp [ha] at h
    | false =>
      simp [ha] at h
      rcases List.mem_cons.1 ht with rfl | ht
      · exact ha
      · exact ih (by simpa [acqCount, sumBy] using h) t ht

/-- A busy task can always step. -/
theorem busy_steps (sem : SlotSem) (s : St) (i : Nat) (t : Task) (hi : s.tasks[i]? = some t)
    (hb : isBusy t = true) : ∃ s', step sem s i = some s' := by
  obtain ⟨c, ph⟩ := t
  cases ph <;> simp [isBusy] at hb <;> simp [step, hi, stepTask]

theorem no_deadlock_core (sem : SlotSem) (s : St) (hinv : Inv s) (hmx : acqCount s.tasks ≤ 1)
    (hc : ∀ t ∈ s.tasks, t.cores ≤ s.max)
    (hnd : ∃ t ∈ s.tasks, isDone t = false) : ∃ i s', step sem s i = some s' := by
  by_cases hbusy : ∃ t ∈ s.tasks, isBusy t = true
  · obtain ⟨t, ht, hb⟩ := hbusy
    obtain ⟨i, hi⟩ := List.getElem?_of_mem ht
    exact ⟨i, busy_steps sem s i t hi hb⟩
  · have hnb : ∀ t ∈ s.tasks, isBusy t = false := by
      intro t ht
      cases hb : isBusy t with
      | false => rfl
      | true => exact absurd ⟨t, ht, hb⟩ hbusy
    by_cases hacq : ∃ t ∈ s.tasks, isAcq t = true
    · obtain ⟨t, ht, ha⟩ := hacq
      obtain ⟨i, hi⟩ := List.getElem?_of_mem ht
      have hsplit := sumBy_split (fun t => if isAcq t then 1 else 0) _ i t hi
      simp only [acqCount] at hmx
      simp [ha] at hsplit
      have h0' : acqCount (s.tasks.eraseIdx i) = 0 := by simp only [acqCount]; omega
      have hq : ∀ u ∈ s.tasks.eraseIdx i, isBusy u = false ∧ isAcq u = false := by
        intro u hu
        exact ⟨hnb u (List.mem_of_mem_eraseIdx hu), acq_zero_all _ h0' u hu⟩
      have h0 := tokens_zero_of_quiet _ hq
      obtain ⟨c, ph⟩ := t
      cases ph <;> simp [isAcq] at ha
      rename_i k
      have hw := hinv.2 _ ht
      have hcm := hc _ ht
      simp [wfTask] at hw
      simp at hcm
      refine ⟨i, ?_⟩
      have hk : k < s.max := by omega
      by_cases hkc : k + 1 = c <;> simp [step, hi, stepTask, h0, hk, hkc]
    · have hna : ∀ t ∈ s.tasks, isAcq t = false := by
        intro t ht
        cases hb : isAcq t with
        | false => rfl
        | true => exact absurd ⟨t, ht, hb⟩ hacq
      obtain ⟨t, ht, hd⟩ := hnd
      obtain ⟨i, hi⟩ := List.getElem?_of_mem ht
      have hnl : lockHeld (s.tasks.eraseIdx i) = false := by
        simp [lockHeld]
        intro u hu; exact hna u (List.mem_of_mem_eraseIdx hu)
      have hb := hnb t ht
      have ha := hna t ht
      obtain ⟨c, ph⟩ := t
      cases ph <;> simp_all [isBusy, isAcq, isDone]
      refine ⟨i, ?_⟩
      by_cases hc0 : c = 0 <;> simp [step, hi, stepTask, hnl, hc0]

theorem run_cores (sem : SlotSem) (s s' : St) (sched : List Nat)
    (h : run sem s sched = some s') (P : Nat → Prop) (hp : ∀ t ∈ s.tasks, P t.cores) :
    ∀ t ∈ s'.tasks, P t.cores := by
  induction sched generalizing s with
  | nil => simp [run] at h; subst h; exact hp
  | cons i is ih =>
    simp only [run] at h
    split at h
    · simp at h
    · rename_i s1 hs1
      apply ih s1 h
      obtain ⟨t, t', ht, hst, rfl⟩ := step_some sem s s1 i hs1
      intro u hu
      simp only at hu
      rcases List.mem_or_eq_of_mem_set hu with hu | hu
      · exact hp u hu
      · subst hu
        have : u.cores = t.cores := by
          obtain ⟨c, ph⟩ := t
          cases ph <;> simp only [stepTask] at hst
          · split at hst
            · simp at hst
            · split at hst <;> (simp at hst; subst hst; rfl)
          · split at hst
            · split at hst <;> (simp at hst; subst hst; rfl)
            · simp at hst
          · simp at hst; subst hst; rfl
          · simp at hst; subst hst; rfl
          · simp at hst
        rw [this]; exact hp t (List.mem_of_getElem? ht)

/-- termination measure of one task -/
def mu (t : Task) : Nat :=
  match t.ph with
  | .idle => 2 * t.cores + 2
  | .acq k => 2 * t.cores + 1 - k
  | .run => t.cores + 1
  | .rel k => k
  | .done => 0

def measure (s : St) : Nat := sumBy mu s.tasks

theorem stepTask_mu (sem : SlotSem) (max o : Nat) (l : Bool) (t t' : Task) (hw : wfTask t)
    (h : stepTask sem max o l t = some t') : mu t' < mu t := by
  obtain ⟨c, ph⟩ := t
  cases ph with
  | idle =>
    simp only [stepTask] at h
    split at h
    · simp at h
    · split at h <;> (simp at h; subst h; simp [mu]; try omega)
  | acq k =>
    simp only [stepTask] at h
    simp only [wfTask] at hw
    split at h
    · split at h <;> (simp at h; subst h; simp [mu]; omega)
    · simp at h
  | run =>
    simp only [stepTask] at h
    simp at h; subst h
    by_cases hc : c = 0 <;> simp [mu, hc]
  | rel k =>
    simp only [stepTask] at h
    simp only [wfTask] at hw
    simp at h; subst h
    by_cases hc : k ≤ 1 <;> simp [mu, hc] <;> omega
  | done => simp [stepTask] at h

theorem step_measure (sem : SlotSem) (s s' : St) (i : Nat) (hinv : Inv s)
    (h : step sem s i = some s') : measure s' < measure s := by
  obtain ⟨t, t', ht, hst, rfl⟩ := step_some sem s s' i h
  have hlt := stepTask_mu sem _ _ _ t t' (hinv.2 t (List.mem_of_getElem? ht)) hst
  simp only [measure]
  rw [sumBy_set mu _ i t t' ht, sumBy_split mu _ i t ht]
  omega

theorem run_measure (sem : SlotSem) (sched : List Nat) (s0 s : St) (hinv : Inv s0)
    (h : run sem s0 sched = some s) : sched.length + measure s ≤ measure s0 := by
  induction sched generalizing s0 with
  | nil => simp [run] at h; subst h; simp
  | cons i is ih =>
    simp only [run] at h
    split at h
    · simp at h
    · rename_i s1 hs1
      have h1 := step_inv sem s0 s1 i hinv hs1
      have := ih s1 h1.1 h
      have := step_measure sem s0 s1 i hinv hs1
      simp; omega


end SciVerif.Slots
