import SciVerif.Model.NetPortsSlots
import SciVerif.Lemmas.NetPorts
import SciVerif.Lemmas.NetSlots
/-! Channel operations with task slots: invariant, and projection of stuck states onto `Model/NetPorts.lean`. -/
namespace SciVerif.NetPorts
open SciVerif.Net

variable {n : Nat}

structure PInv (sn : SNet n) (N : Nat) (s : PSt n) : Prop where
  base : FInv sn.net N s.base
  len  : ∀ v, s.base.f v + (s.q v).length = s.base.c v

theorem pinv_init (sn : SNet n) (N : Nat) : PInv sn N (pinit n) :=
  ⟨finv_init sn.net N, fun _ => by simp [pinit, finit]⟩

/-- what a base step does to the two task counters -/
theorem fstep_counters (net : Net n) (s s' : FSt n) (l : FLbl n) (h : fstep net s l = some s') :
    (match l with
     | .create v => s'.c = upd s.c v (s.c v + 1) ∧ s'.f = s.f
     | .forward v => s'.c = s.c ∧ s'.f = upd s.f v (s.f v + 1) ∧ s.f v < s.c v
     | _ => s'.c = s.c ∧ s'.f = s.f) := by
  cases l with
  | recv w i => simp only [fstep] at h; split at h <;> simp at h; subst h; exact ⟨rfl, rfl⟩
  | create v => simp only [fstep] at h; split at h <;> simp at h; subst h; exact ⟨rfl, rfl⟩
  | send w i => simp only [fstep] at h; split at h <;> simp at h; subst h; exact ⟨rfl, rfl⟩
  | forward v =>
    simp only [fstep] at h
    split at h
    · rename_i hg; simp at h; subst h; exact ⟨rfl, rfl, hg.1⟩
    · simp at h
  | terminate v => simp only [fstep] at h; split at h <;> simp at h; subst h; exact ⟨rfl, rfl⟩

theorem pstep_inv (sn : SNet n) (N : Nat) (hbal : balanced sn.net N) (s s' : PSt n) (l : PLbl n)
    (h : PInv sn N s) (hs : pstep sn s l = some s') : PInv sn N s' := by
  cases l with
  | recv w i =>
    simp only [pstep, Option.map_eq_some_iff] at hs
    obtain ⟨b, hb, rfl⟩ := hs
    have hc := fstep_counters sn.net s.base b _ hb
    simp only at hc
    exact ⟨fstep_inv sn.net N hbal _ _ _ h.base hb, fun v => by simpa [hc.1, hc.2] using h.len v⟩
  | create v =>
    simp only [pstep, Option.map_eq_some_iff] at hs
    obtain ⟨b, hb, rfl⟩ := hs
    have hc := fstep_counters sn.net s.base b _ hb
    simp only at hc
    refine ⟨fstep_inv sn.net N hbal _ _ _ h.base hb, ?_⟩
    intro w
    have := h.len w
    by_cases hw : w = v
    · subst hw; simp [hc.1, hc.2, upd_same]; omega
    · simp [hc.1, hc.2, upd_other _ _ _ _ hw]; exact this
  | start v i =>
    simp only [pstep] at hs
    split at hs
    · simp only [Option.some.injEq] at hs; subst hs
      refine ⟨h.base, ?_⟩
      intro w
      have := h.len w
      by_cases hw : w = v
      · subst hw; simp [upd_same]; exact this
      · simp [upd_other _ _ _ _ hw]; exact this
    · simp at hs
  | finish v i =>
    simp only [pstep] at hs
    split at hs
    · simp only [Option.some.injEq] at hs; subst hs
      refine ⟨h.base, ?_⟩
      intro w
      have := h.len w
      by_cases hw : w = v
      · subst hw; simp [upd_same]; exact this
      · simp [upd_other _ _ _ _ hw]; exact this
    · simp at hs
  | send w i =>
    simp only [pstep] at hs
    split at hs
    · simp only [Option.map_eq_some_iff] at hs
      obtain ⟨b, hb, rfl⟩ := hs
      have hc := fstep_counters sn.net s.base b _ hb
      simp only at hc
      exact ⟨fstep_inv sn.net N hbal _ _ _ h.base hb, fun v => by simpa [hc.1, hc.2] using h.len v⟩
    · simp at hs
  | forward v =>
    simp only [pstep] at hs
    split at hs
    · rename_i hd
      simp only [Option.map_eq_some_iff] at hs
      obtain ⟨b, hb, rfl⟩ := hs
      have hc := fstep_counters sn.net s.base b _ hb
      simp only at hc
      refine ⟨fstep_inv sn.net N hbal _ _ _ h.base hb, ?_⟩
      intro w
      have := h.len w
      by_cases hw : w = v
      · subst hw
        cases hq : s.q w with
        | nil => simp [hq] at hd
        | cons a as => simp [hc.1, hc.2.1, upd_same, hq] at this ⊢; omega
      · simp [hc.1, hc.2.1, upd_other _ _ _ _ hw]; exact this
    · simp at hs
  | terminate v =>
    simp only [pstep, Option.map_eq_some_iff] at hs
    obtain ⟨b, hb, rfl⟩ := hs
    have hc := fstep_counters sn.net s.base b _ hb
    simp only at hc
    exact ⟨fstep_inv sn.net N hbal _ _ _ h.base hb, fun v => by simpa [hc.1, hc.2] using h.len v⟩

theorem prun_inv (sn : SNet n) (N : Nat) (hbal : balanced sn.net N) (ls : List (PLbl n)) :
    ∀ s s', PInv sn N s → prun sn s ls = some s' → PInv sn N s' := by
  induction ls with
  | nil => intro s s' h hr; simp [prun] at hr; subst hr; exact h
  | cons l ls ih =>
    intro s s' h hr
    simp only [prun] at hr
    split at hr
    · simp at hr
    · rename_i s1 h1
      exact ih s1 s' (pstep_inv sn N hbal s s1 l h h1) hr

/-- in a state where nothing can move every started task is done (no slot is held, none is waited for) -/
theorem pstuck_all_done (sn : SNet n) (hcores : ∀ v, sn.cores v ≤ sn.max) (s : PSt n) (hst : pstuck sn s) :
    ∀ v ph, ph ∈ s.q v → ph = .done := by
  have hnorun : ∀ (v : Fin n) (i : Nat), (s.q v)[i]? ≠ some Ph.running := by
    intro v i hr
    have := hst (.finish v i)
    simp [pstep, hr] at this
  have hcount : ∀ v, prunning s v = 0 := by
    intro v
    unfold prunning
    rw [List.count_eq_zero]
    intro hmem
    obtain ⟨i, hi⟩ := List.mem_iff_getElem?.1 hmem
    exact hnorun v i hi
  have hused : pused sn s = 0 := by
    unfold pused
    apply sum_zero
    intro v _
    simp [hcount v]
  intro v ph hph
  obtain ⟨i, hi⟩ := List.mem_iff_getElem?.1 hph
  cases ph with
  | done => rfl
  | running => exact absurd hi (hnorun v i)
  | waiting =>
    exfalso
    have := hst (.start v i)
    have hc := hcores v
    simp [pstep, hi, hused, hc] at this

theorem head_done (sn : SNet n) (N : Nat) (s : PSt n) (h : PInv sn N s)
    (hdone : ∀ v ph, ph ∈ s.q v → ph = Ph.done) (v : Fin n) (hlt : s.base.f v < s.base.c v) :
    (s.q v).head? = some Ph.done := by
  have hlen := h.len v
  cases hq : s.q v with
  | nil => simp [hq] at hlen; omega
  | cons a as =>
    have ha : a = .done := hdone v a (by simp [hq])
    simp [ha]

/-- a stuck state of the model with slots projects to a stuck state of the channel-operation model -/
theorem pstuck_proj (sn : SNet n) (N : Nat) (hcores : ∀ v, sn.cores v ≤ sn.max) (s : PSt n) (h : PInv sn N s)
    (hst : pstuck sn s) : fstuck sn.net s.base := by
  have hdone := pstuck_all_done sn hcores s hst
  intro l
  cases hb : fstep sn.net s.base l with
  | none => rfl
  | some b =>
    exfalso
    cases l with
    | recv w i => have := hst (.recv w i); simp [pstep, hb] at this
    | create v => have := hst (.create v); simp [pstep, hb] at this
    | terminate v => have := hst (.terminate v); simp [pstep, hb] at this
    | send w i =>
      have hg : canSend sn.net s.base w i := by
        simp only [fstep] at hb
        split at hb
        · assumption
        · simp at hb
      obtain ⟨v, hv⟩ := canSend_sender sn.net s.base w i hg
      have hlt := ((canSend_iff sn.net s.base w i v hv).1 hg).1
      have hh := head_done sn N s h hdone v hlt
      have hd : headDone sn s w i := by unfold headDone; rw [hv]; exact hh
      have := hst (.send w i)
      simp [pstep, hd, hb] at this
    | forward v =>
      have hlt : s.base.f v < s.base.c v := by
        simp only [fstep] at hb
        split at hb
        · rename_i hg; exact hg.1
        · simp at hb
      have hh := head_done sn N s h hdone v hlt
      have := hst (.forward v)
      simp [pstep, hh, hb] at this

end SciVerif.NetPorts
