import SciVerif.Model.NetFine
import SciVerif.Lemmas.Net
/-! Invariant and deadlock freedom of the network model at the granularity of channel operations. -/
namespace SciVerif.NetFine
open SciVerif.Net

variable {n : Nat}

structure FInv (net : Net n) (N : Nat) (s : FSt n) : Prop where
  fc  : ∀ v, s.f v ≤ s.c v
  cN  : ∀ v, s.c v ≤ N
  sf  : ∀ v w, v ∈ net.ins w → s.f v ≤ s.s v w ∧ s.s v w ≤ s.f v + 1 ∧ s.s v w ≤ s.c v
  rc  : ∀ u w, u ∈ net.ins w → s.c w ≤ s.r u w ∧ s.r u w ≤ s.c w + 1 ∧ s.r u w ≤ s.s u w
  cap : ∀ u w, u ∈ net.ins w → s.s u w ≤ s.r u w + net.B
  tm  : ∀ v, s.term v = true → s.c v = N ∧ s.f v = N

theorem finv_init (net : Net n) (N : Nat) : FInv net N (finit n) :=
  ⟨fun _ => Nat.le_refl _, fun _ => Nat.zero_le _, fun _ _ _ => ⟨Nat.le_refl _, Nat.zero_le _, Nat.le_refl _⟩,
   fun _ _ _ => ⟨Nat.le_refl _, Nat.zero_le _, Nat.le_refl _⟩, fun _ _ _ => Nat.zero_le _,
   fun _ h => by simp [finit] at h⟩

theorem upd2_same (g : Fin n → Fin n → Nat) (a b : Fin n) (x : Nat) : upd2 g a b x a b = x := by simp [upd2]
theorem upd2_other (g : Fin n → Fin n → Nat) (a b a' b' : Fin n) (x : Nat) (h : ¬(a' = a ∧ b' = b)) :
    upd2 g a b x a' b' = g a' b' := by simp [upd2, h]

theorem fstep_inv (net : Net n) (N : Nat) (hbal : balanced net N) (s s' : FSt n) (l : FLbl n)
    (h : FInv net N s) (hs : fstep net s l = some s') : FInv net N s' := by
  cases l with
  | recv w u =>
    simp only [fstep] at hs
    split at hs
    · rename_i hg
      simp only [Option.some.injEq] at hs; subst hs
      obtain ⟨hu, _, hrc, hrs⟩ := hg
      refine ⟨h.fc, h.cN, h.sf, ?_, ?_, h.tm⟩
      · intro u' w' hu'
        by_cases he : u' = u ∧ w' = w
        · obtain ⟨rfl, rfl⟩ := he
          simp only [upd2_same]
          omega
        · simp only [upd2_other _ _ _ _ _ _ he]; exact h.rc u' w' hu'
      · intro u' w' hu'
        by_cases he : u' = u ∧ w' = w
        · obtain ⟨rfl, rfl⟩ := he
          simp only [upd2_same]
          have := h.cap u' w' hu'; omega
        · simp only [upd2_other _ _ _ _ _ _ he]; exact h.cap u' w' hu'
    · simp at hs
  | create v =>
    simp only [fstep] at hs
    split at hs
    · rename_i hg
      simp only [Option.some.injEq] at hs; subst hs
      obtain ⟨hnt, hg⟩ := hg
      have hcv : s.c v < N := by
        split at hg
        · rename_i hsrc
          have := hbal v hsrc; omega
        · rename_i hne
          cases hi : net.ins v with
          | nil => simp [hi] at hne
          | cons u us =>
            have hu : u ∈ net.ins v := by rw [hi]; exact List.mem_cons_self ..
            have h1 := hg u hu
            have h2 := h.rc u v hu
            have h3 := h.sf u v hu
            have h4 := h.cN u
            omega
      refine ⟨?_, ?_, ?_, ?_, h.cap, ?_⟩
      · intro w
        by_cases hw : w = v
        · subst hw; simp only [upd_same]; have := h.fc w; omega
        · simp only [upd_other _ _ _ _ hw]; exact h.fc w
      · intro w
        by_cases hw : w = v
        · subst hw; simp only [upd_same]; omega
        · simp only [upd_other _ _ _ _ hw]; exact h.cN w
      · intro x w hx
        have := h.sf x w hx
        by_cases hw : x = v
        · subst hw; simp only [upd_same]; omega
        · simp only [upd_other _ _ _ _ hw]; exact this
      · intro u w hu
        have := h.rc u w hu
        by_cases hw : w = v
        · subst hw
          simp only [upd_same]
          split at hg
          · rename_i hsrc
            have : net.ins w = [] := List.isEmpty_iff.1 hsrc
            rw [this] at hu; simp at hu
          · have := hg u hu; omega
        · simp only [upd_other _ _ _ _ hw]; exact this
      · intro w hw
        have hne : w ≠ v := by intro he; subst he; simp [hnt] at hw
        simp only [upd_other _ _ _ _ hne]
        exact h.tm w hw
    · simp at hs
  | send v w =>
    simp only [fstep] at hs
    split at hs
    · rename_i hg
      simp only [Option.some.injEq] at hs; subst hs
      obtain ⟨hv, hfc, hsf, hroom⟩ := hg
      refine ⟨h.fc, h.cN, ?_, ?_, ?_, h.tm⟩
      · intro v' w' hv'
        by_cases he : v' = v ∧ w' = w
        · obtain ⟨rfl, rfl⟩ := he
          simp only [upd2_same]; omega
        · simp only [upd2_other _ _ _ _ _ _ he]; exact h.sf v' w' hv'
      · intro v' w' hv'
        have := h.rc v' w' hv'
        by_cases he : v' = v ∧ w' = w
        · obtain ⟨rfl, rfl⟩ := he
          simp only [upd2_same]; omega
        · simp only [upd2_other _ _ _ _ _ _ he]; exact this
      · intro v' w' hv'
        by_cases he : v' = v ∧ w' = w
        · obtain ⟨rfl, rfl⟩ := he
          simp only [upd2_same]; omega
        · simp only [upd2_other _ _ _ _ _ _ he]; exact h.cap v' w' hv'
    · simp at hs
  | forward v =>
    simp only [fstep] at hs
    split at hs
    · rename_i hg
      simp only [Option.some.injEq] at hs; subst hs
      obtain ⟨hfc, hall⟩ := hg
      refine ⟨?_, h.cN, ?_, h.rc, h.cap, ?_⟩
      · intro w
        by_cases hw : w = v
        · subst hw; simp only [upd_same]; omega
        · simp only [upd_other _ _ _ _ hw]; exact h.fc w
      · intro x w hx
        have := h.sf x w hx
        by_cases hw : x = v
        · subst hw
          simp only [upd_same]
          have := hall w ((mem_outs net x w).2 hx)
          omega
        · simp only [upd_other _ _ _ _ hw]; exact this
      · intro w hw
        have := h.tm w hw
        by_cases he : w = v
        · subst he; omega
        · simp only [upd_other _ _ _ _ he]; exact this
    · simp at hs
  | terminate v =>
    simp only [fstep] at hs
    split at hs
    · rename_i hg
      simp only [Option.some.injEq] at hs; subst hs
      obtain ⟨_, hcf, hg⟩ := hg
      refine ⟨h.fc, h.cN, h.sf, h.rc, h.cap, ?_⟩
      intro w hw
      by_cases he : w = v
      · subst he
        show s.c w = N ∧ s.f w = N
        split at hg
        · rename_i hsrc
          have := hbal w hsrc; omega
        · obtain ⟨u, hu, hut, hrs, hrc⟩ := hg
          have := h.tm u hut
          have := h.sf u w hu
          omega
      · simp only [upd_other _ _ _ _ he] at hw
        exact h.tm w hw
    · simp at hs

theorem frun_inv (net : Net n) (N : Nat) (hbal : balanced net N) (ls : List (FLbl n)) :
    ∀ s s', FInv net N s → frun net s ls = some s' → FInv net N s' := by
  induction ls with
  | nil => intro s s' h hr; simp [frun] at hr; subst hr; exact h
  | cons l ls ih =>
    intro s s' h hr
    simp only [frun] at hr
    split at hr
    · simp at hr
    · rename_i s1 h1
      exact ih s1 s' (fstep_inv net N hbal s s1 l h h1) hr

/-- in a state satisfying the invariant in which no channel operation is enabled every process has returned -/
theorem fno_stuck (net : Net n) (N : Nat) (hbal : balanced net N) (hac : acyclic net) (hB : 1 ≤ net.B)
    (s : FSt n) (h : FInv net N s) (hst : fstuck net s) : ∀ v, s.term v = true := by
  suffices H : ∀ (k r : Nat) (v : Fin n), s.f v = k → v.val = r → s.term v = true from fun v => H _ _ v rfl rfl
  intro k
  induction k using Nat.strongRecOn with
  | _ k ihk =>
    intro r
    induction r using Nat.strongRecOn with
    | _ r ihr =>
      intro v hk hr
      cases hterm : s.term v with
      | true => rfl
      | false =>
        exfalso
        by_cases hlt : s.f v < s.c v
        · -- the oldest task waits to be sent on: some consumer has not got it and its channel is full
          have hf := hst (.forward v)
          simp only [fstep] at hf
          split at hf
          · simp at hf
          · rename_i hnf
            simp only [canForward, hlt, true_and] at hnf
            have : ∃ w ∈ outs net v, s.s v w ≠ s.f v + 1 := by
              apply Classical.byContradiction
              intro hno
              apply hnf
              intro w hw
              apply Classical.byContradiction
              intro hne
              exact hno ⟨w, hw, hne⟩
            obtain ⟨w, hw, hne⟩ := this
            have hvw : v ∈ net.ins w := (mem_outs net v w).1 hw
            have hsf := h.sf v w hvw
            have hsv : s.s v w = s.f v := by omega
            have hsend := hst (.send v w)
            simp only [fstep] at hsend
            split at hsend
            · simp at hsend
            · rename_i hns
              simp only [canSend, hvw, hlt, hsv, true_and] at hns
              have hrc := h.rc v w hvw
              have hwt : s.term w = true := ihk (s.f w) (by have := h.fc w; omega) _ w rfl rfl
              have := h.tm w hwt
              have := h.cN v
              omega
        · have hcf : s.c v = s.f v := by have := h.fc v; omega
          have hc := hst (.create v)
          have ht := hst (.terminate v)
          simp only [fstep] at hc ht
          split at hc
          · simp at hc
          · rename_i hnc
            split at ht
            · simp at ht
            · rename_i hntm
              simp only [canCreate, hterm, true_and] at hnc
              simp only [canTerm, hterm, hcf, true_and] at hntm
              by_cases hsrc : (net.ins v).isEmpty = true
              · simp only [hsrc, if_true] at hnc hntm
                have := hbal v hsrc
                have := h.cN v
                omega
              · simp only [hsrc] at hnc hntm
                simp only [Bool.false_eq_true, if_false] at hnc hntm
                -- some in-port has not been read in this round, and nothing is there to read
                have : ∃ u ∈ net.ins v, s.r u v ≠ s.c v + 1 := by
                  apply Classical.byContradiction
                  intro hno
                  apply hnc
                  intro u hu
                  apply Classical.byContradiction
                  intro hne
                  exact hno ⟨u, hu, hne⟩
                obtain ⟨u, hu, hne⟩ := this
                have hrc := h.rc u v hu
                have hru : s.r u v = s.c v := by omega
                have hrecv := hst (.recv v u)
                simp only [fstep] at hrecv
                split at hrecv
                · simp at hrecv
                · rename_i hnr
                  simp only [canRecv, hu, hterm, hru, true_and] at hnr
                  have hsf := h.sf u v hu
                  have hsu : s.s u v = s.c v := by omega
                  have hfu : s.f u ≤ s.f v := by omega
                  have hut : s.term u = true := by
                    by_cases hlt2 : s.f u < s.f v
                    · exact ihk (s.f u) (by omega) _ u rfl rfl
                    · exact ihr u.val (by have := hac v u hu; omega) u (by omega) rfl
                  exact hntm ⟨u, hu, hut, by omega, by omega⟩

/-! ### arbitrary stream lengths: the only way to get stuck -/

structure FInv0 (net : Net n) (s : FSt n) : Prop where
  fc  : ∀ v, s.f v ≤ s.c v
  sf  : ∀ v w, v ∈ net.ins w → s.f v ≤ s.s v w ∧ s.s v w ≤ s.f v + 1 ∧ s.s v w ≤ s.c v
  rc  : ∀ u w, u ∈ net.ins w → s.c w ≤ s.r u w ∧ s.r u w ≤ s.c w + 1 ∧ s.r u w ≤ s.s u w
  src : ∀ v, (net.ins v).isEmpty = true → s.c v ≤ net.src v

theorem finv0_init (net : Net n) : FInv0 net (finit n) :=
  ⟨fun _ => Nat.le_refl _, fun _ _ _ => ⟨Nat.le_refl _, Nat.zero_le _, Nat.le_refl _⟩,
   fun _ _ _ => ⟨Nat.le_refl _, Nat.zero_le _, Nat.le_refl _⟩, fun _ _ => Nat.zero_le _⟩

theorem fstep_inv0 (net : Net n) (s s' : FSt n) (l : FLbl n) (h : FInv0 net s) (hs : fstep net s l = some s') :
    FInv0 net s' := by
  cases l with
  | recv w u =>
    simp only [fstep] at hs
    split at hs
    · rename_i hg
      simp only [Option.some.injEq] at hs; subst hs
      obtain ⟨hu, _, hrc, hrs⟩ := hg
      refine ⟨h.fc, h.sf, ?_, h.src⟩
      intro u' w' hu'
      by_cases he : u' = u ∧ w' = w
      · obtain ⟨rfl, rfl⟩ := he
        simp only [upd2_same]
        omega
      · simp only [upd2_other _ _ _ _ _ _ he]; exact h.rc u' w' hu'
    · simp at hs
  | create v =>
    simp only [fstep] at hs
    split at hs
    · rename_i hg
      simp only [Option.some.injEq] at hs; subst hs
      obtain ⟨hnt, hg⟩ := hg
      refine ⟨?_, ?_, ?_, ?_⟩
      · intro w
        by_cases hw : w = v
        · subst hw; simp only [upd_same]; have := h.fc w; omega
        · simp only [upd_other _ _ _ _ hw]; exact h.fc w
      · intro x w hx
        have := h.sf x w hx
        by_cases hw : x = v
        · subst hw; simp only [upd_same]; omega
        · simp only [upd_other _ _ _ _ hw]; exact this
      · intro u w hu
        have := h.rc u w hu
        by_cases hw : w = v
        · subst hw
          simp only [upd_same]
          split at hg
          · rename_i hsrc
            have : net.ins w = [] := List.isEmpty_iff.1 hsrc
            rw [this] at hu; simp at hu
          · have := hg u hu; omega
        · simp only [upd_other _ _ _ _ hw]; exact this
      · intro w hw
        by_cases he : w = v
        · subst he
          simp only [upd_same]
          simp only [hw, if_true] at hg
          omega
        · simp only [upd_other _ _ _ _ he]; exact h.src w hw
    · simp at hs
  | send v w =>
    simp only [fstep] at hs
    split at hs
    · rename_i hg
      simp only [Option.some.injEq] at hs; subst hs
      obtain ⟨hv, hfc, hsf, hroom⟩ := hg
      refine ⟨h.fc, ?_, ?_, h.src⟩
      · intro v' w' hv'
        by_cases he : v' = v ∧ w' = w
        · obtain ⟨rfl, rfl⟩ := he
          simp only [upd2_same]; omega
        · simp only [upd2_other _ _ _ _ _ _ he]; exact h.sf v' w' hv'
      · intro v' w' hv'
        have := h.rc v' w' hv'
        by_cases he : v' = v ∧ w' = w
        · obtain ⟨rfl, rfl⟩ := he
          simp only [upd2_same]; omega
        · simp only [upd2_other _ _ _ _ _ _ he]; exact this
    · simp at hs
  | forward v =>
    simp only [fstep] at hs
    split at hs
    · rename_i hg
      simp only [Option.some.injEq] at hs; subst hs
      obtain ⟨hfc, hall⟩ := hg
      refine ⟨?_, ?_, h.rc, h.src⟩
      · intro w
        by_cases hw : w = v
        · subst hw; simp only [upd_same]; omega
        · simp only [upd_other _ _ _ _ hw]; exact h.fc w
      · intro x w hx
        have := h.sf x w hx
        by_cases hw : x = v
        · subst hw
          simp only [upd_same]
          have := hall w ((mem_outs net x w).2 hx)
          omega
        · simp only [upd_other _ _ _ _ hw]; exact this
    · simp at hs
  | terminate v =>
    simp only [fstep] at hs
    split at hs
    · simp only [Option.some.injEq] at hs; subst hs
      exact ⟨h.fc, h.sf, h.rc, h.src⟩
    · simp at hs

theorem frun_inv0 (net : Net n) (ls : List (FLbl n)) :
    ∀ s s', FInv0 net s → frun net s ls = some s' → FInv0 net s' := by
  induction ls with
  | nil => intro s s' h hr; simp [frun] at hr; subst hr; exact h
  | cons l ls ih =>
    intro s s' h hr
    simp only [frun] at hr
    split at hr
    · simp at hr
    · rename_i s1 h1
      exact ih s1 s' (fstep_inv0 net s s1 l h h1) hr

/-- whatever the stream lengths: if nothing can move and some process has not returned, then some unreturned
process `v` is blocked sending to a consumer `w` that has returned and left at least `B` of `v`'s items unread -/
theorem fstuck_root_cause (net : Net n) (hac : acyclic net) (hB : 1 ≤ net.B) (s : FSt n) (h : FInv0 net s)
    (hst : fstuck net s) :
    ∀ v0, s.term v0 = false →
      ∃ v w, v ∈ net.ins w ∧ s.term v = false ∧ s.term w = true ∧ s.r v w + net.B ≤ s.s v w := by
  suffices H : ∀ (k r : Nat) (v : Fin n), s.f v = k → v.val = r → s.term v = false →
      ∃ v w, v ∈ net.ins w ∧ s.term v = false ∧ s.term w = true ∧ s.r v w + net.B ≤ s.s v w from
    fun v hv => H _ _ v rfl rfl hv
  intro k
  induction k using Nat.strongRecOn with
  | _ k ihk =>
    intro r
    induction r using Nat.strongRecOn with
    | _ r ihr =>
      intro v hk hr hterm
      by_cases hlt : s.f v < s.c v
      · have hf := hst (.forward v)
        simp only [fstep] at hf
        split at hf
        · simp at hf
        · rename_i hnf
          simp only [canForward, hlt, true_and] at hnf
          have : ∃ w ∈ outs net v, s.s v w ≠ s.f v + 1 := by
            apply Classical.byContradiction
            intro hno
            apply hnf
            intro w hw
            apply Classical.byContradiction
            intro hne
            exact hno ⟨w, hw, hne⟩
          obtain ⟨w, hw, hne⟩ := this
          have hvw : v ∈ net.ins w := (mem_outs net v w).1 hw
          have hsf := h.sf v w hvw
          have hsv : s.s v w = s.f v := by omega
          have hsend := hst (.send v w)
          simp only [fstep] at hsend
          split at hsend
          · simp at hsend
          · rename_i hns
            simp only [canSend, hvw, hlt, hsv, true_and] at hns
            have hrc := h.rc v w hvw
            cases hwt : s.term w with
            | true => exact ⟨v, w, hvw, hterm, hwt, by omega⟩
            | false => exact ihk (s.f w) (by have := h.fc w; omega) _ w rfl rfl hwt
      · have hcf : s.c v = s.f v := by have := h.fc v; omega
        have hc := hst (.create v)
        have ht := hst (.terminate v)
        simp only [fstep] at hc ht
        split at hc
        · simp at hc
        · rename_i hnc
          split at ht
          · simp at ht
          · rename_i hntm
            simp only [canCreate, hterm, true_and] at hnc
            simp only [canTerm, hterm, hcf, true_and] at hntm
            by_cases hsrc : (net.ins v).isEmpty = true
            · simp only [hsrc, if_true] at hnc hntm
              have := h.src v hsrc
              omega
            · simp only [hsrc] at hnc hntm
              simp only [Bool.false_eq_true, if_false] at hnc hntm
              have : ∃ u ∈ net.ins v, s.r u v ≠ s.c v + 1 := by
                apply Classical.byContradiction
                intro hno
                apply hnc
                intro u hu
                apply Classical.byContradiction
                intro hne
                exact hno ⟨u, hu, hne⟩
              obtain ⟨u, hu, hne⟩ := this
              have hrc := h.rc u v hu
              have hru : s.r u v = s.c v := by omega
              have hrecv := hst (.recv v u)
              simp only [fstep] at hrecv
              split at hrecv
              · simp at hrecv
              · rename_i hnr
                simp only [canRecv, hu, hterm, hru, true_and] at hnr
                have hsf := h.sf u v hu
                have hsu : s.s u v = s.c v := by omega
                cases hut : s.term u with
                | true => exact absurd ⟨u, hu, hut, by omega, by omega⟩ hntm
                | false =>
                  by_cases hlt2 : s.f u < s.f v
                  · exact ihk (s.f u) (by omega) _ u rfl rfl hut
                  · exact ihr u.val (by have := hac v u hu; omega) u (by omega) rfl hut

/-! ### every run is finite -/

def w1 (N : Nat) (s : FSt n) (v : Fin n) : Nat := (N - s.c v) + (N - s.f v) + (if s.term v then 0 else 1)
def w2 (N : Nat) (s : FSt n) (v w : Fin n) : Nat := (N - s.s v w) + (N - s.r v w)
def row (N : Nat) (s : FSt n) (v : Fin n) : Nat := ((List.finRange n).map (w2 N s v)).sum
def fmu (N : Nat) (s : FSt n) : Nat :=
  ((List.finRange n).map (w1 N s)).sum + ((List.finRange n).map (row N s)).sum

theorem fstep_mu (net : Net n) (N : Nat) (hbal : balanced net N) (s s' : FSt n) (l : FLbl n)
    (h : FInv net N s) (hs : fstep net s l = some s') : fmu N s' + 1 = fmu N s := by
  have h' := fstep_inv net N hbal s s' l h hs
  unfold fmu
  cases l with
  | recv w u =>
    simp only [fstep] at hs
    split at hs
    · rename_i hg
      simp only [Option.some.injEq] at hs; subst hs
      obtain ⟨hu, _, hrc, hrs⟩ := hg
      have h1 : (List.finRange n).map (w1 N { s with r := upd2 s.r u w (s.r u w + 1) }) = (List.finRange n).map (w1 N s) := rfl
      rw [h1]
      have h2 : ((List.finRange n).map (row N { s with r := upd2 s.r u w (s.r u w + 1) })).sum + 1 =
          ((List.finRange n).map (row N s)).sum := by
        apply sum_upd _ (List.nodup_finRange n) _ _ u (List.mem_finRange u)
        · unfold row
          apply sum_upd _ (List.nodup_finRange n) _ _ w (List.mem_finRange w)
          · simp only [w2, upd2_same]
            have := h.sf u w hu; have := h.cN u
            omega
          · intro x hx
            simp only [w2]
            rw [upd2_other _ _ _ _ _ _ (by intro he; exact hx he.2)]
        · intro x hx
          unfold row
          apply congrArg
          apply List.map_congr_left
          intro y _
          simp only [w2]
          rw [upd2_other _ _ _ _ _ _ (by intro he; exact hx he.1)]
      omega
    · simp at hs
  | create v =>
    simp only [fstep] at hs
    split at hs
    · simp only [Option.some.injEq] at hs; subst hs
      have h2 : (List.finRange n).map (row N { s with c := upd s.c v (s.c v + 1) }) = (List.finRange n).map (row N s) := rfl
      rw [h2]
      have h1 : ((List.finRange n).map (w1 N { s with c := upd s.c v (s.c v + 1) })).sum + 1 =
          ((List.finRange n).map (w1 N s)).sum := by
        apply sum_upd _ (List.nodup_finRange n) _ _ v (List.mem_finRange v)
        · have := h'.cN v; simp only [upd_same] at this
          simp only [w1, upd_same]
          omega
        · intro w hw; simp [w1, upd_other _ _ _ _ hw]
      omega
    · simp at hs
  | send v w =>
    simp only [fstep] at hs
    split at hs
    · rename_i hg
      simp only [Option.some.injEq] at hs; subst hs
      obtain ⟨hv, hfc, hsf, hroom⟩ := hg
      have h1 : (List.finRange n).map (w1 N { s with s := upd2 s.s v w (s.s v w + 1) }) = (List.finRange n).map (w1 N s) := rfl
      rw [h1]
      have h2 : ((List.finRange n).map (row N { s with s := upd2 s.s v w (s.s v w + 1) })).sum + 1 =
          ((List.finRange n).map (row N s)).sum := by
        apply sum_upd _ (List.nodup_finRange n) _ _ v (List.mem_finRange v)
        · unfold row
          apply sum_upd _ (List.nodup_finRange n) _ _ w (List.mem_finRange w)
          · simp only [w2, upd2_same]
            have := h.cN v
            omega
          · intro x hx
            simp only [w2]
            rw [upd2_other _ _ _ _ _ _ (by intro he; exact hx he.2)]
        · intro x hx
          unfold row
          apply congrArg
          apply List.map_congr_left
          intro y _
          simp only [w2]
          rw [upd2_other _ _ _ _ _ _ (by intro he; exact hx he.1)]
      omega
    · simp at hs
  | forward v =>
    simp only [fstep] at hs
    split at hs
    · rename_i hg
      simp only [Option.some.injEq] at hs; subst hs
      have h2 : (List.finRange n).map (row N { s with f := upd s.f v (s.f v + 1) }) = (List.finRange n).map (row N s) := rfl
      rw [h2]
      have h1 : ((List.finRange n).map (w1 N { s with f := upd s.f v (s.f v + 1) })).sum + 1 =
          ((List.finRange n).map (w1 N s)).sum := by
        apply sum_upd _ (List.nodup_finRange n) _ _ v (List.mem_finRange v)
        · simp only [w1, upd_same]
          have := h.cN v; have := hg.1
          omega
        · intro w hw; simp [w1, upd_other _ _ _ _ hw]
      omega
    · simp at hs
  | terminate v =>
    simp only [fstep] at hs
    split at hs
    · rename_i hg
      simp only [Option.some.injEq] at hs; subst hs
      have h2 : (List.finRange n).map (row N { s with term := upd s.term v true }) = (List.finRange n).map (row N s) := rfl
      rw [h2]
      have h1 : ((List.finRange n).map (w1 N { s with term := upd s.term v true })).sum + 1 =
          ((List.finRange n).map (w1 N s)).sum := by
        apply sum_upd _ (List.nodup_finRange n) _ _ v (List.mem_finRange v)
        · simp [w1, hg.1]
        · intro w hw; simp [w1, upd_other _ _ _ _ hw]
      omega
    · simp at hs

theorem frun_mu (net : Net n) (N : Nat) (hbal : balanced net N) (ls : List (FLbl n)) :
    ∀ s s', FInv net N s → frun net s ls = some s' → fmu N s' + ls.length = fmu N s := by
  induction ls with
  | nil => intro s s' _ hr; simp [frun] at hr; subst hr; simp
  | cons l ls ih =>
    intro s s' h hr
    simp only [frun] at hr
    split at hr
    · simp at hr
    · rename_i s1 hs1
      have h1 := fstep_mu net N hbal s s1 l h hs1
      have h2 := ih s1 s' (fstep_inv net N hbal s s1 l h hs1) hr
      simp only [List.length_cons]
      omega

theorem fmu_init (N : Nat) : fmu N (finit n) = n * (2 * N + 1) + n * (n * (2 * N)) := by
  unfold fmu
  have e1 : (List.finRange n).map (w1 N (finit n)) = (List.finRange n).map (fun _ => 2 * N + 1) := by
    apply List.map_congr_left
    intro v _
    simp [w1, finit]; omega
  have e2 : (List.finRange n).map (row N (finit n)) = (List.finRange n).map (fun _ => n * (2 * N)) := by
    apply List.map_congr_left
    intro v _
    unfold row
    have : (List.finRange n).map (w2 N (finit n) v) = (List.finRange n).map (fun _ => 2 * N) := by
      apply List.map_congr_left
      intro w _
      simp [w2, finit]; omega
    rw [this, sum_const]; simp
  rw [e1, e2, sum_const, sum_const]; simp

theorem fstuck_iff (net : Net n) (s : FSt n) : fstuckB net s = true ↔ fstuck net s := by
  unfold fstuckB fstuck allFLbls
  rw [List.all_eq_true]
  constructor
  · intro h l
    have hm : l ∈ (List.finRange n).flatMap fun v =>
        [FLbl.create v, FLbl.forward v, FLbl.terminate v] ++ (List.finRange n).flatMap fun w => [FLbl.recv v w, FLbl.send v w] := by
      rw [List.mem_flatMap]
      cases l with
      | recv w u => exact ⟨w, List.mem_finRange w, by simp⟩
      | create v => exact ⟨v, List.mem_finRange v, by simp⟩
      | send v w => exact ⟨v, List.mem_finRange v, by simp⟩
      | forward v => exact ⟨v, List.mem_finRange v, by simp⟩
      | terminate v => exact ⟨v, List.mem_finRange v, by simp⟩
    have := h l hm
    simpa using this
  · intro h l _
    simp [h l]

end SciVerif.NetFine
