import SciVerif.Model.TaskFS
/-! Invariants of the task / file-system model. Core Lean only. -/
namespace SciVerif.TaskFS

/-- what C01 needs from the source (Tie A obligation `generated_wf_c01`) -/
def WF_C01 (sem : Sem) : Prop :=
  sem.cmdFailFatal = true ∧ sem.oPlace = .temp ∧ sem.renameSrcTemp = true

instance (sem : Sem) : Decidable (WF_C01 sem) := by unfold WF_C01; infer_instance

structure J (c : Cfg) (s0 s : St) : Prop where
  fin_ok    : ∀ p f, s.finalOut p = some f → f.fresh = true → f.complete = true
  tmp_fresh : ∀ p f, s.tempOut p = some f → f.fresh = true
  tmp_ok    : s.cmd = .ok → ∀ p f, s.tempOut p = some f → f.complete = true
  notrun    : s.cmd = .notRun → ∀ p, s.tempOut p = none
  finpc_cmd : s.finpc.isSome = true → s.cmd = .notRun ∨ s.cmd = .ok
  nofailed  : s.cmd ≠ .failed
  unchanged : (∀ p, s.finalOut p = s0.finalOut p) ∨ 0 < s.okRuns
  okruns    : 0 < s.okRuns → c.beh.exit = .ok
  ok_runs   : s.cmd = .ok → 0 < s.okRuns

theorem J_init (sem : Sem) (c : Cfg) (pre : Nat → Option File) :
    J c (init sem c pre) (init sem c pre) := by
  refine ⟨?_, ?_, ?_, ?_, ?_, ?_, ?_, ?_, ?_⟩ <;> simp [init]

theorem J_fail {c : Cfg} {s0 s : St} (h : J c s0 s) : J c s0 (fail s) := by
  refine ⟨h.fin_ok, h.tmp_fresh, h.tmp_ok, h.notrun, ?_, h.nofailed, h.unchanged, h.okruns, h.ok_runs⟩
  simp [fail]

/-- changing fields the invariant does not mention, keeps `J` -/
theorem J_congr {c : Cfg} {s0 s s' : St} (h : J c s0 s)
    (h1 : s'.finalOut = s.finalOut) (h2 : s'.tempOut = s.tempOut) (h3 : s'.cmd = s.cmd)
    (h4 : s'.finpc = s.finpc) (h5 : s'.okRuns = s.okRuns) : J c s0 s' := by
  refine ⟨?_, ?_, ?_, ?_, ?_, ?_, ?_, ?_, ?_⟩
  · rw [h1]; exact h.fin_ok
  · rw [h2]; exact h.tmp_fresh
  · rw [h2, h3]; exact h.tmp_ok
  · rw [h2, h3]; exact h.notrun
  · rw [h3, h4]; exact h.finpc_cmd
  · rw [h3]; exact h.nofailed
  · rw [h1, h5]; exact h.unchanged
  · rw [h5]; exact h.okruns
  · rw [h3, h5]; exact h.ok_runs

theorem appendTo_fresh (o : Option File) (ch : Nat) (f : File)
    (h : appendTo o ch = some f) : f.fresh = true ∧ f.complete = false := by
  cases o with
  | none => simp [appendTo] at h; subst h; simp
  | some g => simp [appendTo] at h; subst h; simp

theorem stepCmd_J (sem : Sem) (hwf : WF_C01 sem) (c : Cfg) (s0 s : St) (todo : List Act)
    (h : J c s0 s) (hc : s.cmd = .inRun todo) (hf : s.finpc = none) :
    J c s0 (stepCmd sem c s todo) := by
  obtain ⟨hfat, hop, _⟩ := hwf
  unfold stepCmd
  cases todo with
  | nil =>
    simp only
    cases hex : c.beh.exit with
    | ok =>
      simp only [hop]
      refine ⟨h.fin_ok, ?_, ?_, ?_, ?_, ?_, ?_, ?_, ?_⟩
      · intro p f hpf
        simp only [markAll] at hpf
        cases ht : s.tempOut p with
        | none => simp [ht] at hpf
        | some g => simp [ht] at hpf; subst hpf; simpa using h.tmp_fresh p g ht
      · intro _ p f hpf
        simp only [markAll] at hpf
        cases ht : s.tempOut p with
        | none => simp [ht] at hpf
        | some g => simp [ht] at hpf; subst hpf; rfl
      · simp
      · simp [hf]
      · simp
      · right; simp
      · intro _; exact hex
      · intro _; simp
    | code => simp only [hfat, if_true]; exact J_fail (J_congr h rfl rfl rfl rfl rfl)
    | killed => simp only [hfat, if_true]; exact J_fail (J_congr h rfl rfl rfl rfl rfl)
  | cons a rest =>
    cases a with
    | extra n ch =>
      simp only
      refine ⟨h.fin_ok, h.tmp_fresh, by simp, by simp, by simp [hf], by simp, h.unchanged, h.okruns, by simp⟩
    | write p ch =>
      simp only
      split
      · simp only [hop]
        refine ⟨h.fin_ok, ?_, by simp, by simp, by simp [hf], by simp, h.unchanged, h.okruns, by simp⟩
        intro q f hq
        simp only [upd] at hq
        split at hq
        · exact (appendTo_fresh _ _ f hq).1
        · exact h.tmp_fresh q f hq
      · refine ⟨h.fin_ok, h.tmp_fresh, by simp, by simp, by simp [hf], by simp, h.unchanged, h.okruns, by simp⟩

theorem stepFin_J (sem : Sem) (hwf : WF_C01 sem) (c : Cfg) (s0 s : St) (f : FinPc)
    (h : J c s0 s) (hf : s.finpc = some f) : J c s0 (stepFin sem c s f) := by
  obtain ⟨_, _, hren⟩ := hwf
  have hcmd := h.finpc_cmd (by simp [hf])
  unfold stepFin
  cases htodo : f.todo with
  | nil =>
    simp only
    refine ⟨h.fin_ok, h.tmp_fresh, h.tmp_ok, h.notrun, by simp, h.nofailed, h.unchanged, h.okruns, h.ok_runs⟩
  | cons op rest =>
    cases op with
    | renameDeclared =>
      simp only
      cases hports : f.ports with
      | nil =>
        simp only
        refine ⟨h.fin_ok, h.tmp_fresh, h.tmp_ok, h.notrun, fun _ => hcmd, h.nofailed, h.unchanged, h.okruns, h.ok_runs⟩
      | cons p ps =>
        simp only [hren, if_true, getF]
        cases ht : s.tempOut p with
        | none => simp only; exact J_fail (J_congr h rfl rfl rfl rfl rfl)
        | some file =>
          simp only
          have hok : s.cmd = .ok := by
            rcases hcmd with hn | ho
            · have := h.notrun hn p; simp [ht] at this
            · exact ho
          refine ⟨?_, ?_, ?_, ?_, fun _ => hcmd, h.nofailed, ?_, h.okruns, h.ok_runs⟩
          · intro q g hq hfr
            simp only [upd] at hq
            split at hq
            · simp at hq; subst hq
              simpa using h.tmp_ok hok p file ht
            · exact h.fin_ok q g hq hfr
          · intro q g hq
            simp only [upd] at hq
            split at hq
            · simp at hq
            · exact h.tmp_fresh q g hq
          · intro _ q g hq
            simp only [upd] at hq
            split at hq
            · simp at hq
            · exact h.tmp_ok hok q g hq
          · intro hn; simp [hok] at hn
          · right; exact h.ok_runs hok
    | moveExtras =>
      simp only
      refine ⟨h.fin_ok, h.tmp_fresh, h.tmp_ok, h.notrun, fun _ => hcmd, h.nofailed, h.unchanged, h.okruns, h.ok_runs⟩
    | removeTemp =>
      simp only
      refine ⟨h.fin_ok, by simp, by simp, by simp, fun _ => hcmd, h.nofailed, h.unchanged, h.okruns, h.ok_runs⟩
    | unknown =>
      simp only
      refine ⟨h.fin_ok, h.tmp_fresh, h.tmp_ok, h.notrun, fun _ => hcmd, h.nofailed, h.unchanged, h.okruns, h.ok_runs⟩

theorem step_J (sem : Sem) (hwf : WF_C01 sem) (c : Cfg) (s0 s s' : St)
    (h : J c s0 s) (hs : step sem c s = some s') : J c s0 s' := by
  unfold step at hs
  split at hs
  · simp at hs
  · split at hs
    · rename_i f hf
      simp at hs; subst hs
      exact stepFin_J sem hwf c s0 s f h hf
    · rename_i hf
      split at hs
      · rename_i todo hc
        simp at hs; subst hs
        exact stepCmd_J sem hwf c s0 s todo h hc hf
      · rename_i hnr
        have hcmd : s.cmd = .notRun ∨ s.cmd = .ok := by
          cases hc : s.cmd with
          | notRun => exact Or.inl rfl
          | ok => exact Or.inr rfl
          | failed => exact absurd hc h.nofailed
          | inRun todo => exact absurd hc (hnr todo)
        split at hs
        · simp at hs; subst hs
          exact J_congr h rfl rfl rfl rfl rfl
        · rename_i op rest hpc
          -- the state after popping the op and bumping the clock
          have hb : J c s0 { s with pc := rest } := J_congr h rfl rfl rfl rfl rfl
          cases op with
          | checkTempDir =>
            simp at hs; subst hs
            split
            · exact J_fail hb
            · exact hb
          | skipIfOutputs =>
            simp at hs; subst hs
            split
            · exact J_congr hb rfl rfl rfl rfl rfl
            · exact hb
          | acquire => simp at hs; subst hs; exact J_congr hb rfl rfl rfl rfl rfl
          | mkdirs => simp at hs; subst hs; exact J_congr hb rfl rfl rfl rfl rfl
          | run =>
            simp at hs; subst hs
            split
            · refine ⟨h.fin_ok, ?_, by simp, by simp, by simp [hf], by simp, h.unchanged, h.okruns, by simp⟩
              intro p g hg
              simp only [markAll] at hg
              cases ht : s.tempOut p with
              | none => simp [ht] at hg
              | some g' => simp [ht] at hg; subst hg; simpa using h.tmp_fresh p g' ht
            · simp only [hwf.1, if_true]; exact J_fail hb
          | writeAudit => simp at hs; subst hs; exact J_congr hb rfl rfl rfl rfl rfl
          | ensureOutputs =>
            simp at hs; subst hs
            split
            · exact hb
            · exact J_fail hb
          | finalize =>
            simp at hs; subst hs
            refine ⟨h.fin_ok, h.tmp_fresh, h.tmp_ok, h.notrun, fun _ => hcmd, h.nofailed, h.unchanged, h.okruns, h.ok_runs⟩
          | release => simp at hs; subst hs; exact J_congr hb rfl rfl rfl rfl rfl
          | signalDone => simp at hs; subst hs; exact J_congr hb rfl rfl rfl rfl rfl
          | unknown => simp at hs; subst hs; exact hb

theorem stepN_J (sem : Sem) (hwf : WF_C01 sem) (c : Cfg) (s0 s : St) (n : Nat)
    (h : J c s0 s) : J c s0 (stepN sem c n s) := by
  induction n generalizing s with
  | zero => exact h
  | succ n ih =>
    simp only [stepN]
    split
    · exact h
    · rename_i s' hs
      exact ih s' (step_J sem hwf c s0 s s' h hs)

/-- step task `i` of a list of tasks (a task that cannot move is left alone) -/
def gstep (sem : Sem) (cs : List Cfg) (ss : List St) (i : Nat) : List St :=
  match cs[i]?, ss[i]? with
  | some c, some s => match step sem c s with | some s' => ss.set i s' | none => ss
  | _, _ => ss

def grun (sem : Sem) (cs : List Cfg) (ss : List St) : List Nat → List St
  | [] => ss
  | i :: is => grun sem cs (gstep sem cs ss i) is

def ginit (sem : Sem) (cs : List Cfg) (pres : List (Nat → Option File)) : List St :=
  (cs.zip pres).map fun (c, pre) => init sem c pre

def GJ (cs : List Cfg) (s0s ss : List St) : Prop :=
  ss.length = s0s.length ∧ ∀ (i : Nat) (c : Cfg) (s0 s : St), cs[i]? = some c → s0s[i]? = some s0 → ss[i]? = some s → J c s0 s

theorem gstep_GJ (sem : Sem) (hwf : WF_C01 sem) (cs : List Cfg) (s0s ss : List St) (i : Nat)
    (h : GJ cs s0s ss) : GJ cs s0s (gstep sem cs ss i) := by
  unfold gstep
  split
  · rename_i c s hc hs
    split
    · rename_i s' hstep
      refine ⟨by simp [h.1], ?_⟩
      intro j c' s0 t hc' hs0 ht
      by_cases hij : j = i
      · subst hij
        have hlt : j < ss.length := by
          rcases Nat.lt_or_ge j ss.length with hl | hl
          · exact hl
          · simp [List.getElem?_eq_none hl] at hs
        simp [List.getElem?_set, hlt] at ht
        subst ht
        rw [hc] at hc'; simp at hc'; subst hc'
        exact step_J sem hwf c s0 s s' (h.2 j c s0 s hc hs0 hs) hstep
      · rw [List.getElem?_set_ne (by omega)] at ht
        exact h.2 j c' s0 t hc' hs0 ht
    · exact h
  · exact h

theorem grun_GJ (sem : Sem) (hwf : WF_C01 sem) (cs : List Cfg) (s0s ss : List St) (sched : List Nat)
    (h : GJ cs s0s ss) : GJ cs s0s (grun sem cs ss sched) := by
  induction sched generalizing ss with
  | nil => exact h
  | cons i is ih => exact ih _ (gstep_GJ sem hwf cs s0s ss i h)

theorem ginit_GJ (sem : Sem) (cs : List Cfg) (pres : List (Nat → Option File)) :
    GJ cs (ginit sem cs pres) (ginit sem cs pres) := by
  refine ⟨rfl, ?_⟩
  intro i c s0 s hc hs0 hs
  rw [hs0] at hs; simp at hs; subst hs
  simp only [ginit, List.getElem?_map, List.getElem?_zip_eq_some, Option.map_eq_some_iff] at hs0
  obtain ⟨⟨c', pre⟩, ⟨hc', _⟩, rfl⟩ := hs0
  rw [hc] at hc'; simp at hc'; subst hc'
  exact J_init sem c pre


end SciVerif.TaskFS
