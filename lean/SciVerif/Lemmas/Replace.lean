import SciVerif.Model.Fmt
/-! Lemmas about `strings.ReplaceAll` on rendered token lists (C15 `c15_full`, C13). Core Lean only. -/
namespace SciVerif.Str

theorem stripPrefix?_nil_pat_ne (pat : S) (hp : pat ≠ []) : stripPrefix? pat [] = none := by
  cases pat with
  | nil => exact absurd rfl hp
  | cons p ps => rfl

/-- with enough fuel the result does not depend on the fuel -/
theorem replaceAllF_fuel (pat rep : S) (hp : pat ≠ []) :
    ∀ (n m : Nat) (s : S), s.length ≤ n → s.length ≤ m → replaceAllF pat rep n s = replaceAllF pat rep m s := by
  intro n
  induction n with
  | zero =>
    intro m s hn _
    have : s = [] := List.eq_nil_of_length_eq_zero (by omega)
    subst this
    cases m <;> rfl
  | succ n ih =>
    intro m s hn hm
    cases s with
    | nil => cases m <;> rfl
    | cons c cs =>
      cases m with
      | zero => simp at hm
      | succ m =>
        simp only [replaceAllF]
        cases h : stripPrefix? pat (c :: cs) with
        | none =>
          simp only
          rw [ih m cs (by simpa using hn) (by simpa using hm)]
        | some rest =>
          simp only
          have hl := stripPrefix?_length h
          have hpl : 0 < pat.length := by cases pat <;> simp_all
          rw [ih m rest (by simp at hn hl; omega) (by simp at hm hl; omega)]

theorem stripPrefix?_append_self (pat rest : S) : stripPrefix? pat (pat ++ rest) = some rest := by
  induction pat with
  | nil => rfl
  | cons p ps ih => simp [stripPrefix?, ih]

/-- a stretch without '{' passes through a replacement whose pattern starts with '{' -/
theorem replaceAllF_pass (pt rep w rest : S) (hw : ∀ c ∈ w, c ≠ '{') (fuel : Nat) (hf : (w ++ rest).length ≤ fuel) :
    replaceAllF ('{' :: pt) rep fuel (w ++ rest) = w ++ replaceAllF ('{' :: pt) rep (fuel - w.length) rest := by
  induction w generalizing fuel with
  | nil => simp
  | cons c w ih =>
    cases fuel with
    | zero => simp at hf
    | succ f =>
      have hc : c ≠ '{' := hw c (by simp)
      have hne : ('{' = c) = False := by simp; exact fun h => hc h.symm
      simp only [List.cons_append, replaceAllF, stripPrefix?, hne, if_false]
      rw [ih (fun x hx => hw x (List.mem_cons_of_mem _ hx)) f (by simpa using hf)]
      simp

end SciVerif.Str

namespace SciVerif.Str

/-- a rendered command: literal characters, untouched placeholder texts, substituted values -/
inductive Cell where
  | lit (c : Char)
  | raw (full : S)
  | val (v : S)
deriving DecidableEq, Repr

def renderC : List Cell → S
  | [] => []
  | .lit c :: r => c :: renderC r
  | .raw f :: r => f ++ renderC r
  | .val v :: r => v ++ renderC r

def braceFree (b : S) : Prop := ∀ c ∈ b, c ≠ '{' ∧ c ≠ '}'

/-- the text of a placeholder match: `{`, a brace-free body, `}` -/
def wfFull (f : S) : Prop := ∃ b, f = '{' :: (b ++ ['}']) ∧ braceFree b

def WFCell : Cell → Prop
  | .lit c => c ≠ '{'
  | .raw f => wfFull f
  | .val v => ∀ c ∈ v, c ≠ '{'

def substCell (pat rep : S) : Cell → Cell
  | .raw f => if f = pat then .val rep else .raw f
  | c => c

theorem stripPrefix?_body (b1 b2 rest r : S) (h1 : braceFree b1) (h2 : braceFree b2)
    (h : stripPrefix? (b1 ++ ['}']) (b2 ++ '}' :: rest) = some r) : b1 = b2 := by
  induction b1 generalizing b2 with
  | nil =>
    cases b2 with
    | nil => rfl
    | cons y ys =>
      have hy := (h2 y (by simp)).2
      simp [stripPrefix?] at h
      exact absurd h.1.symm hy
  | cons x xs ih =>
    have hx := (h1 x (by simp)).2
    cases b2 with
    | nil =>
      simp [stripPrefix?] at h
      exact absurd h.1 hx
    | cons y ys =>
      simp only [List.cons_append, stripPrefix?] at h
      split at h
      · rename_i hxy
        subst hxy
        rw [ih ys (fun c hc => h1 c (List.mem_cons_of_mem _ hc)) (fun c hc => h2 c (List.mem_cons_of_mem _ hc)) h]
      · simp at h

theorem stripPrefix?_other (pat f rest : S) (hp : wfFull pat) (hf : wfFull f) (hne : f ≠ pat) :
    stripPrefix? pat (f ++ rest) = none := by
  obtain ⟨b1, rfl, hb1⟩ := hp
  obtain ⟨b2, rfl, hb2⟩ := hf
  cases h : stripPrefix? ('{' :: (b1 ++ ['}'])) (('{' :: (b2 ++ ['}'])) ++ rest) with
  | none => rfl
  | some r =>
    exfalso
    simp only [List.cons_append, stripPrefix?, if_true, List.append_assoc, List.singleton_append] at h
    have := stripPrefix?_body b1 b2 rest r hb1 hb2 h
    subst this
    exact hne rfl

/-- replacing one placeholder text globally in a rendered cell list substitutes exactly the cells
that carry that text -/
theorem replaceAllF_cells (pat rep : S) (hp : wfFull pat) (cells : List Cell) (hwf : ∀ c ∈ cells, WFCell c)
    (fuel : Nat) (hf : (renderC cells).length ≤ fuel) :
    replaceAllF pat rep fuel (renderC cells) = renderC (cells.map (substCell pat rep)) := by
  obtain ⟨b1, hpat, hb1⟩ := hp
  have hpne : pat ≠ [] := by rw [hpat]; simp
  induction cells generalizing fuel with
  | nil => cases fuel <;> rfl
  | cons cell rest ih =>
    have hrest : ∀ c ∈ rest, WFCell c := fun c hc => hwf c (List.mem_cons_of_mem _ hc)
    have hcell := hwf cell (by simp)
    cases cell with
    | lit c =>
      simp only [renderC, List.map_cons, substCell] at hf ⊢
      have := replaceAllF_pass (b1 ++ ['}']) rep [c] (renderC rest) (by intro x hx; simp at hx; subst hx; exact hcell) fuel (by simpa using hf)
      rw [hpat]
      simp only [List.singleton_append] at this
      rw [this, ← hpat, ih hrest _ (by simp at hf ⊢; omega)]
    | val v =>
      simp only [renderC, List.map_cons, substCell] at hf ⊢
      have := replaceAllF_pass (b1 ++ ['}']) rep v (renderC rest) hcell fuel (by simpa using hf)
      rw [hpat, this, ← hpat, ih hrest _ (by simp at hf ⊢; omega)]
    | raw f =>
      simp only [renderC, List.map_cons, substCell] at hf ⊢
      by_cases hfp : f = pat
      · subst hfp
        simp only [if_true, renderC]
        cases fuel with
        | zero =>
          simp at hf
          rw [hpat] at hf; simp at hf
        | succ n =>
          obtain ⟨b, hfb, _⟩ := hcell
          -- the head of the string is '{'
          have hhead : f ++ renderC rest = '{' :: (b ++ ['}'] ++ renderC rest) := by rw [hfb]; simp
          rw [hhead]
          simp only [replaceAllF]
          rw [← hhead, stripPrefix?_append_self]
          simp only
          rw [ih hrest n (by
            have := hf
            simp only [List.length_append] at this
            have hl : 0 < f.length := by rw [hfb]; simp
            omega)]
      · simp only [hfp, if_false, renderC]
        obtain ⟨b, hfb, hb⟩ := hcell
        cases fuel with
        | zero => simp at hf; rw [hfb] at hf; simp at hf
        | succ n =>
          have hhead : f ++ renderC rest = '{' :: (b ++ ['}'] ++ renderC rest) := by rw [hfb]; simp
          rw [hhead]
          simp only [replaceAllF]
          rw [← hhead, stripPrefix?_other pat f (renderC rest) ⟨b1, hpat, hb1⟩ ⟨b, hfb, hb⟩ hfp]
          simp only
          have hpass := replaceAllF_pass (b1 ++ ['}']) rep (b ++ ['}']) (renderC rest)
            (by intro x hx; simp only [List.mem_append, List.mem_singleton] at hx
                rcases hx with hx | hx
                · exact (hb x hx).1
                · subst hx; decide) n (by
                  have := hf; simp only [List.length_append] at this
                  rw [hfb] at this; simp at this ⊢; omega)
          rw [hpat, hpass, ← hpat, ih hrest _ (by
            have := hf; simp only [List.length_append] at this
            rw [hfb] at this; simp at this ⊢; omega)]
          rw [hfb]; simp

end SciVerif.Str

namespace SciVerif.Str

/-! ### what `tokenize` produces -/

structure PHwf (p : PH) : Prop where
  typ  : p.typ ∈ phTypes
  rest : braceFree p.rest
  full : p.full = '{' :: (p.typ ++ [':'] ++ p.rest ++ ['}'])

theorem stripPrefix?_eq_append {pat s r : S} (h : stripPrefix? pat s = some r) : s = pat ++ r := by
  induction pat generalizing s with
  | nil => simp [stripPrefix?] at h; simp [h]
  | cons p ps ih =>
    cases s with
    | nil => simp [stripPrefix?] at h
    | cons c cs =>
      simp only [stripPrefix?] at h
      split at h
      · rename_i hpc; subst hpc; simp [ih h]
      · simp at h

theorem takeDropNB (r : S) : takeWhileNB r ++ dropWhileNB r = r := by
  induction r with
  | nil => rfl
  | cons c cs ih =>
    simp only [takeWhileNB, dropWhileNB]
    split
    · simp [ih]
    · simp

theorem takeWhileNB_braceFree (r : S) : braceFree (takeWhileNB r) := by
  induction r with
  | nil => intro c hc; simp [takeWhileNB] at hc
  | cons x xs ih =>
    intro c hc
    simp only [takeWhileNB] at hc
    split at hc
    · rename_i hx
      rcases List.mem_cons.1 hc with rfl | hc
      · simpa [notBrace] using hx
      · exact ih c hc
    · simp at hc

theorem matchAfterBrace_spec {s : S} {ph : PH} {after : S} (h : matchAfterBrace s = some (ph, after)) :
    PHwf ph ∧ s = (ph.typ ++ [':'] ++ ph.rest ++ ['}']) ++ after := by
  unfold matchAfterBrace at h
  rw [List.findSome?_eq_some_iff] at h
  obtain ⟨l1, t, l2, hmem, h, _⟩ := h
  have htyp : t ∈ phTypes := by rw [hmem]; simp
  split at h
  · simp at h
  · rename_i r hr
    simp only at h
    split at h
    · rename_i after' hd
      split at h
      · simp at h
      · simp at h
        obtain ⟨rfl, rfl⟩ := h
        have hs := stripPrefix?_eq_append hr
        have hr' := takeDropNB r
        rw [hd] at hr'
        have hbf := takeWhileNB_braceFree r
        generalize takeWhileNB r = body at hr' hbf
        refine ⟨⟨htyp, hbf, by simp⟩, ?_⟩
        simp only
        rw [hs, ← hr']; simp
    · simp at h

def renderT : List Tok → S
  | [] => []
  | .lit c :: r => c :: renderT r
  | .ph p :: r => p.full ++ renderT r

/-- tokenisation loses nothing: rendering the tokens gives the pattern back -/
theorem renderT_tokenizeF (n : Nat) (s : S) (hn : s.length ≤ n) : renderT (tokenizeF n s) = s := by
  induction n generalizing s with
  | zero =>
    have : s = [] := List.eq_nil_of_length_eq_zero (by omega)
    subst this; rfl
  | succ n ih =>
    cases s with
    | nil => rfl
    | cons c cs =>
      simp only [tokenizeF]
      split
      · rename_i hc; subst hc
        split
        · rename_i ph after hm
          obtain ⟨hwf, hs⟩ := matchAfterBrace_spec hm
          have hlen := matchAfterBrace_length hm
          simp only [renderT]
          rw [ih after (by simp at hn; omega), hwf.full, hs]
          simp
        · simp only [renderT]
          rw [ih cs (by simpa using hn)]
      · simp only [renderT]
        rw [ih cs (by simpa using hn)]

theorem tokenizeF_wf (n : Nat) (s : S) : ∀ p, Tok.ph p ∈ tokenizeF n s → PHwf p := by
  induction n generalizing s with
  | zero => intro p hp; simp [tokenizeF] at hp
  | succ n ih =>
    cases s with
    | nil => intro p hp; simp [tokenizeF] at hp
    | cons c cs =>
      intro p hp
      simp only [tokenizeF] at hp
      split at hp
      · split at hp
        · rename_i ph after hm
          rcases List.mem_cons.1 hp with h | h
          · simp at h; subst h; exact (matchAfterBrace_spec hm).1
          · exact ih after p h
        · rcases List.mem_cons.1 hp with h | h
          · simp at h
          · exact ih cs p h
      · rcases List.mem_cons.1 hp with h | h
        · simp at h
        · exact ih cs p h

theorem typ_braceFree (t : S) (ht : t ∈ phTypes) : braceFree t ∧ ':' ∉ t := by
  simp only [phTypes, List.mem_cons, List.mem_nil_iff, or_false] at ht
  rcases ht with rfl | rfl | rfl | rfl | rfl | rfl <;> refine ⟨?_, by decide⟩ <;> intro c hc <;> simp at hc <;>
    (first | (subst hc; decide) | (rcases hc with rfl | rfl <;> decide))

theorem wfFull_of_PHwf (p : PH) (h : PHwf p) : wfFull p.full := by
  refine ⟨p.typ ++ [':'] ++ p.rest, by rw [h.full], ?_⟩
  intro c hc
  simp only [List.mem_append, List.mem_singleton] at hc
  rcases hc with (hc | hc) | hc
  · exact (typ_braceFree p.typ h.typ).1 c hc
  · subst hc; decide
  · exact h.rest c hc

-- (section continues)

/-! ### `c15_full`: the iterative loop equals the single-pass expansion -/

theorem split_at_first (x : Char) (a b c d : S) (ha : x ∉ a) (hc : x ∉ c) (h : a ++ x :: b = c ++ x :: d) :
    a = c ∧ b = d := by
  induction a generalizing c with
  | nil =>
    cases c with
    | nil => simp at h; exact ⟨rfl, h⟩
    | cons y ys =>
      simp at h
      exact absurd (by simp [h.1]) hc
  | cons z zs ih =>
    cases c with
    | nil =>
      simp at h
      exact absurd (by simp [h.1]) ha
    | cons y ys =>
      simp at h
      obtain ⟨h1, h2⟩ := ih ys (fun hz => ha (List.mem_cons_of_mem _ hz)) (fun hy => hc (List.mem_cons_of_mem _ hy)) h.2
      exact ⟨by rw [h.1, h1], h2⟩

theorem PH_eq_of_full (p q : PH) (hp : PHwf p) (hq : PHwf q) (h : p.full = q.full) : p = q := by
  have hf := h
  rw [hp.full, hq.full] at hf
  simp only [List.cons.injEq, true_and, List.append_assoc, List.singleton_append] at hf
  obtain ⟨ht, hr⟩ := split_at_first ':' p.typ (p.rest ++ ['}']) q.typ (q.rest ++ ['}'])
    (typ_braceFree p.typ hp.typ).2 (typ_braceFree q.typ hq.typ).2 hf
  have hr' : p.rest = q.rest := List.append_cancel_right hr
  cases p; cases q; simp_all

/-- cells that remember which placeholder an untouched text belongs to -/
inductive Cell2 where
  | lit (c : Char)
  | raw (p : PH)
  | val (v : S)

def Cell2.toCell : Cell2 → Cell
  | .lit c => .lit c
  | .raw p => .raw p.full
  | .val v => .val v

def render2 (cs : List Cell2) : S := renderC (cs.map Cell2.toCell)

def substCell2 (q : PH) (r : S) : Cell2 → Cell2
  | .raw p => if p = q then .val r else .raw p
  | c => c

def WFCell2 : Cell2 → Prop
  | .lit c => c ≠ '{'
  | .raw p => PHwf p
  | .val v => ∀ c ∈ v, c ≠ '{'

theorem WFCell_of2 (c : Cell2) (h : WFCell2 c) : WFCell c.toCell := by
  cases c with
  | lit c => exact h
  | raw p => exact wfFull_of_PHwf p h
  | val v => exact h

theorem subst2_toCell (q : PH) (hq : PHwf q) (r : S) (c : Cell2) (hc : WFCell2 c) :
    (substCell2 q r c).toCell = substCell q.full r c.toCell := by
  cases c with
  | lit c => rfl
  | val v => rfl
  | raw p =>
    simp only [substCell2, Cell2.toCell, substCell]
    by_cases hpq : p = q
    · subst hpq; simp [Cell2.toCell]
    · have : p.full ≠ q.full := fun hf => hpq (PH_eq_of_full p q hc hq hf)
      simp [hpq, this, Cell2.toCell]

/-- one iteration of the loop on a rendered cell list -/
theorem replaceAll_render2 (q : PH) (hq : PHwf q) (r : S) (cells : List Cell2) (hwf : ∀ c ∈ cells, WFCell2 c) :
    replaceAllF q.full r (render2 cells).length (render2 cells) = render2 (cells.map (substCell2 q r)) := by
  unfold render2
  rw [replaceAllF_cells q.full r (wfFull_of_PHwf q hq) (cells.map Cell2.toCell)
    (by intro c hc; obtain ⟨c2, hc2, rfl⟩ := List.mem_map.1 hc; exact WFCell_of2 c2 (hwf c2 hc2)) _ (Nat.le_refl _)]
  congr 1
  rw [List.map_map, List.map_map]
  apply List.map_congr_left
  intro c hc
  simp [subst2_toCell q hq r c (hwf c hc)]

end SciVerif.Str

namespace SciVerif.Fmt
open SciVerif.Str

/-- the loop shared by `formatCommand` and `SetOut` path formatting, for an arbitrary replacement function -/
def loopR (R : PH → Option S) : List PH → S → Option S
  | [], s => some s
  | ph :: rest, s =>
    match R ph with
    | none => none
    | some r => loopR R rest (replaceAllT ph.full r s)

/-- single-pass expansion of a token list, for an arbitrary replacement function -/
def specR (R : PH → Option S) : List Tok → Option S
  | [] => some []
  | .lit c :: rest => (specR R rest).map (c :: ·)
  | .ph p :: rest =>
    match R p, specR R rest with
    | some r, some tl => some (r ++ tl)
    | _, _ => none

theorem fmtLoop_eq_loopR (env : Env) (phs : List PH) (s : S) : fmtLoop env phs s = loopR (replacement env) phs s := by
  induction phs generalizing s with
  | nil => rfl
  | cons ph rest ih => simp only [fmtLoop, loopR]; cases replacement env ph <;> simp [ih]

theorem pathLoop_eq_loopR (env : PathEnv) (phs : List PH) (s : S) : pathLoop env phs s = loopR (pathReplacement env) phs s := by
  induction phs generalizing s with
  | nil => rfl
  | cons ph rest ih => simp only [pathLoop, loopR]; cases pathReplacement env ph <;> simp [ih]

theorem fmtSpec_eq_specR (env : Env) (toks : List Tok) : fmtSpec env toks = specR (replacement env) toks := by
  induction toks with
  | nil => rfl
  | cons t rest ih =>
    cases t with
    | lit c => simp only [fmtSpec, specR, ih]
    | ph p => simp only [fmtSpec, specR, ih]; cases replacement env p <;> cases specR (replacement env) rest <;> rfl

/-- single-pass expansion on cells -/
def specC (R : PH → Option S) : List Cell2 → Option S
  | [] => some []
  | .lit c :: rest => (specC R rest).map (c :: ·)
  | .val v :: rest => (specC R rest).map (v ++ ·)
  | .raw p :: rest =>
    match R p, specC R rest with
    | some r, some tl => some (r ++ tl)
    | _, _ => none

theorem render2_cons_lit (c : Char) (rest : List Cell2) : render2 (.lit c :: rest) = c :: render2 rest := rfl
theorem render2_cons_val (v : S) (rest : List Cell2) : render2 (.val v :: rest) = v ++ render2 rest := rfl
theorem render2_cons_raw (p : PH) (rest : List Cell2) : render2 (.raw p :: rest) = p.full ++ render2 rest := rfl

theorem specC_noraw (R : PH → Option S) (cells : List Cell2) (h : ∀ p, Cell2.raw p ∉ cells) :
    specC R cells = some (render2 cells) := by
  induction cells with
  | nil => rfl
  | cons c rest ih =>
    have hr : ∀ p, Cell2.raw p ∉ rest := fun p hp => h p (List.mem_cons_of_mem _ hp)
    cases c with
    | lit c => simp [specC, ih hr, render2_cons_lit]
    | val v => simp [specC, ih hr, render2_cons_val]
    | raw p => exact absurd (by simp) (h p)

theorem specC_raw_none (R : PH → Option S) (cells : List Cell2) (p : PH) (hp : Cell2.raw p ∈ cells)
    (hn : R p = none) : specC R cells = none := by
  induction cells with
  | nil => simp at hp
  | cons c rest ih =>
    rcases List.mem_cons.1 hp with h | h
    · subst h; simp [specC, hn]
    · cases c with
      | lit c => simp [specC, ih h]
      | val v => simp [specC, ih h]
      | raw q =>
        simp only [specC, ih h]
        split <;> simp_all

theorem specC_subst (R : PH → Option S) (q : PH) (r : S) (hr : R q = some r) (cells : List Cell2) :
    specC R (cells.map (substCell2 q r)) = specC R cells := by
  induction cells with
  | nil => rfl
  | cons c rest ih =>
    cases c with
    | lit c => simp [specC, substCell2, ih]
    | val v => simp [specC, substCell2, ih]
    | raw p =>
      simp only [List.map_cons, substCell2]
      by_cases hpq : p = q
      · subst hpq
        simp only [if_true, specC, ih, hr]
        cases specC R rest <;> simp
      · simp only [hpq, if_false, specC, ih]

theorem replaceAllT_eq (pat rep s : S) (hp : pat ≠ []) : replaceAllT pat rep s = replaceAllF pat rep s.length s := by
  simp [replaceAllT, hp, replaceAll]

theorem PHwf_full_ne (q : PH) (hq : PHwf q) : q.full ≠ [] := by rw [hq.full]; simp

/-- loop invariant of `formatCommand`: on a rendered cell list whose untouched placeholders are all
still to come, the remaining iterations compute the single-pass expansion -/
theorem fmtLoop_cells (R : PH → Option S) (phs : List PH) :
    ∀ cells : List Cell2, (∀ c ∈ cells, WFCell2 c) →
      (∀ p, Cell2.raw p ∈ cells → p ∈ phs) →
      (∀ q ∈ phs, PHwf q ∧ (∀ r, R q = some r → ∀ c ∈ r, c ≠ '{') ∧
        (Cell2.raw q ∈ cells ∨ (R q).isSome = true)) →
      loopR R phs (render2 cells) = specC R cells := by
  induction phs with
  | nil =>
    intro cells _ hraw _
    simp only [loopR]
    rw [specC_noraw R cells (fun p hp => by simpa using hraw p hp)]
  | cons ph rest ih =>
    intro cells hwf hraw hq
    obtain ⟨hphwf, hphval, hphin⟩ := hq ph (by simp)
    simp only [loopR]
    cases hrep : R ph with
    | none =>
      simp only
      rcases hphin with h | h
      · exact (specC_raw_none R cells ph h hrep).symm
      · simp [hrep] at h
    | some r =>
      simp only
      rw [replaceAllT_eq _ _ _ (PHwf_full_ne ph hphwf), replaceAll_render2 ph hphwf r cells hwf,
        ih (cells.map (substCell2 ph r)) ?_ ?_ ?_, specC_subst R ph r hrep]
      · intro c hc
        obtain ⟨c0, hc0, rfl⟩ := List.mem_map.1 hc
        have h0 := hwf c0 hc0
        cases c0 with
        | lit c => exact h0
        | val v => exact h0
        | raw p =>
          simp only [substCell2]
          split
          · exact hphval r hrep
          · exact h0
      · intro p hp
        obtain ⟨c0, hc0, hc⟩ := List.mem_map.1 hp
        cases c0 with
        | lit c => simp [substCell2] at hc
        | val v => simp [substCell2] at hc
        | raw p0 =>
          simp only [substCell2] at hc
          split at hc
          · simp at hc
          · rename_i hne
            simp at hc; subst hc
            rcases List.mem_cons.1 (hraw p0 hc0) with h | h
            · exact absurd h hne
            · exact h
      · intro q hqr
        obtain ⟨h1, h2, h3⟩ := hq q (List.mem_cons_of_mem _ hqr)
        refine ⟨h1, h2, ?_⟩
        rcases h3 with h | h
        · by_cases hqp : q = ph
          · right; rw [hqp, hrep]; rfl
          · left
            exact List.mem_map.2 ⟨.raw q, h, by simp [substCell2, hqp]⟩
        · exact Or.inr h

def tokCell : Tok → Cell2
  | .lit c => .lit c
  | .ph p => .raw p

theorem render2_tokCell (toks : List Tok) : render2 (toks.map tokCell) = renderT toks := by
  induction toks with
  | nil => rfl
  | cons t rest ih =>
    cases t with
    | lit c => simp only [List.map_cons, tokCell, render2_cons_lit, renderT, ih]
    | ph p => simp only [List.map_cons, tokCell, render2_cons_raw, renderT, ih]

theorem specC_tokCell (R : PH → Option S) (toks : List Tok) : specC R (toks.map tokCell) = specR R toks := by
  induction toks with
  | nil => rfl
  | cons t rest ih =>
    cases t with
    | lit c => simp only [List.map_cons, tokCell, specC, specR, ih]
    | ph p =>
      simp only [List.map_cons, tokCell, specC, specR, ih]

theorem raw_mem_tokCell (toks : List Tok) (p : PH) : Cell2.raw p ∈ toks.map tokCell ↔ Tok.ph p ∈ toks := by
  induction toks with
  | nil => simp
  | cons t rest ih =>
    cases t with
    | lit c => simp [tokCell, ih]
    | ph q => simp [tokCell, ih]

theorem mem_placeholders (cmd : S) (p : PH) : p ∈ placeholders cmd ↔ Tok.ph p ∈ tokenize cmd := by
  unfold placeholders
  rw [List.mem_filterMap]
  constructor
  · rintro ⟨t, ht, h⟩
    cases t with
    | lit c => simp at h
    | ph q => simp at h; subst h; exact ht
  · intro h; exact ⟨.ph p, h, rfl⟩

/-- the loop on the placeholders of a pattern equals the single-pass expansion of its tokens, when
literal chunks and substituted values are brace-free -/
theorem loopR_full (R : PH → Option S) (cmd : S)
    (hlit : ∀ t ∈ tokenize cmd, match t with | .lit c => notBrace c = true | .ph _ => True)
    (hval : ∀ ph ∈ placeholders cmd, ∀ r, R ph = some r → r.all notBrace = true) :
    loopR R (placeholders cmd) cmd = specR R (tokenize cmd) := by
  have hrender : render2 ((tokenize cmd).map tokCell) = cmd := by
    rw [render2_tokCell]; exact renderT_tokenizeF cmd.length cmd (Nat.le_refl _)
  have hnb : ∀ c : Char, notBrace c = true → c ≠ '{' := by
    intro c hc h; subst h; simp [notBrace] at hc
  have h := fmtLoop_cells R (placeholders cmd) ((tokenize cmd).map tokCell) ?_ ?_ ?_
  · rw [hrender, specC_tokCell] at h; exact h
  · intro c hc
    obtain ⟨t, ht, rfl⟩ := List.mem_map.1 hc
    cases t with
    | lit ch => exact hnb ch (hlit _ ht)
    | ph p => exact tokenizeF_wf _ _ p ht
  · intro p hp
    exact (mem_placeholders cmd p).2 ((raw_mem_tokCell _ p).1 hp)
  · intro q hq
    have hq' := (mem_placeholders cmd q).1 hq
    refine ⟨tokenizeF_wf _ _ q hq', ?_, Or.inl ((raw_mem_tokCell _ q).2 hq')⟩
    intro r hr c hc
    exact hnb c (List.all_eq_true.1 (hval q hq r hr) c hc)

end SciVerif.Fmt

/-! ### C13: decoding undoes encoding on paths without underscores -/
namespace SciVerif.Str

theorem stripPrefix?_head_ne (p : Char) (ps : S) (c : Char) (cs : S) (h : p ≠ c) :
    stripPrefix? (p :: ps) (c :: cs) = none := by
  simp [stripPrefix?, h]

theorem replaceAllF_nil (pat rep : S) (n : Nat) : replaceAllF pat rep n [] = [] := by
  cases n <;> rfl

/-- `replacePlaceholdersWithParentDirs ∘ replaceParentDirsWithPlaceholder = id` on strings without '_',
for any sufficient fuels -/
theorem decode_encode_F (n : Nat) : ∀ (s : S) (m : Nat), '_' ∉ s → s.length ≤ n →
    (replaceAllF parentTok parentPH n s).length ≤ m →
    replaceAllF parentPH parentTok m (replaceAllF parentTok parentPH n s) = s := by
  induction n with
  | zero =>
    intro s m _ hn _
    have : s = [] := List.eq_nil_of_length_eq_zero (by omega)
    subst this
    simp [replaceAllF, replaceAllF_nil]
  | succ n ih =>
    intro s m hs hn hm
    cases s with
    | nil => simp [replaceAllF, replaceAllF_nil]
    | cons c cs =>
      have hc : c ≠ '_' := fun h => hs (by simp [h])
      have hcs : '_' ∉ cs := fun h => hs (List.mem_cons_of_mem _ h)
      simp only [replaceAllF] at hm ⊢
      cases hsp : stripPrefix? parentTok (c :: cs) with
      | some rest =>
        simp only [hsp] at hm ⊢
        have hs' := stripPrefix?_eq_append hsp
        have hlen := stripPrefix?_length hsp
        have hrest : '_' ∉ rest := by
          intro h; apply hs; rw [hs']; exact List.mem_append_right _ h
        cases m with
        | zero => simp [parentPH] at hm
        | succ m =>
          have hstep : replaceAllF parentPH parentTok (m + 1) (parentPH ++ replaceAllF parentTok parentPH n rest) =
              parentTok ++ replaceAllF parentPH parentTok m (replaceAllF parentTok parentPH n rest) := by
            have : parentPH ++ replaceAllF parentTok parentPH n rest =
                '_' :: (['_', 'p', 'a', 'r', 'e', 'n', 't', '_', '_'] ++ replaceAllF parentTok parentPH n rest) := rfl
            rw [this]
            simp only [replaceAllF]
            have h2 : stripPrefix? parentPH ('_' :: (['_', 'p', 'a', 'r', 'e', 'n', 't', '_', '_'] ++ replaceAllF parentTok parentPH n rest)) =
                some (replaceAllF parentTok parentPH n rest) := stripPrefix?_append_self parentPH _
            rw [h2]
          have hl3 : parentTok.length = 3 := rfl
          have hl10 : parentPH.length = 10 := rfl
          have hr1 : rest.length ≤ n := by simp only [List.length_cons] at hlen hn; omega
          have hr2 : (replaceAllF parentTok parentPH n rest).length ≤ m := by
            simp only [List.length_append] at hm; omega
          rw [hstep, ih rest m hrest hr1 hr2, hs']
      | none =>
        simp only [hsp] at hm ⊢
        cases m with
        | zero => simp at hm
        | succ m =>
          simp only [replaceAllF]
          have : stripPrefix? parentPH (c :: replaceAllF parentTok parentPH n cs) = none :=
            stripPrefix?_head_ne '_' _ c _ (fun h => hc h.symm)
          rw [this]
          simp only
          rw [ih cs m hcs (by simpa using hn) (by simpa using hm)]

theorem decodeParent_encodeParent (s : S) (hs : '_' ∉ s) : decodeParent (encodeParent s) = s := by
  unfold decodeParent encodeParent replaceAll
  exact decode_encode_F s.length s _ hs (Nat.le_refl _) (Nat.le_refl _)

end SciVerif.Str
