import SciVerif.Model.Fmt
/-! Lemmas about `strings.ReplaceAll` on rendered token lists (C15 `c15_full`, C13). Core Lean only. -/
namespace SciVerif.Str

theorem stripPrefix?_nil_pat_ne (pat : S) (hp : pat ≠ []) : stripPrefix? pat [] = none := by
  cases pat with
  | nil => exact absurd rfl hp
  | cons p ps => rfl

/-- with enough fuel the result does not depend on the fuel -/
theorem replaceAllF_fuel (pat rep : S) (hp : pat ≠ []) :
    ∀ (n m : Nat) (s : S), s.length ≤ n → s.length ≤ m → replaceAllF pat rep n s = replaceAllF pat rep m s := by
  intro n
  induction n with
  | zero =>
    intro m s hn _
    have : s = [] := List.eq_nil_of_length_eq_zero (by omega)
    subst this
    cases m <;> rfl
  | succ n ih =>
    intro m s hn hm
    cases s with
    | nil => cases m <;> rfl
    | cons c cs =>
      cases m with
      | zero => simp at hm
      | succ m =>
        simp only [replaceAllF]
        cases h : stripPrefix? pat (c :: cs) with
        | none =>
          simp only
          rw [ih m cs (by simpa using hn) (by simpa using hm)]
        | some rest =>
          simp only
          have hl := stripPrefix?_length h
          have hpl : 0 < pat.length := by cases pat <;> simp_all
          rw [ih m rest (by simp at hn hl; omega) (by simp at hm hl; omega)]

theorem stripPrefix?_append_self (pat rest : S) : stripPrefix? pat (pat ++ rest) = some rest := by
  induction pat with
  | nil => rfl
  | cons p ps ih => simp [stripPrefix?, ih]

/-- a stretch without '{' passes through a replacement whose pattern starts with '{' -/
theorem replaceAllF_pass (pt rep w rest : S) (hw : ∀ c ∈ w, c ≠ '{') (fuel : Nat) (hf : (w ++ rest).length ≤ fuel) :
    replaceAllF ('{' :: pt) rep fuel (w ++ rest) = w ++ replaceAllF ('{' :: pt) rep (fuel - w.length) rest := by
  induction w generalizing fuel with
  | nil => simp
  | cons c w ih =>
    cases fuel with
    | zero => simp at hf
    | succ f =>
      have hc : c ≠ '{' := hw c (by simp)
      have hne : ('{' = c) = False := by simp; exact fun h => hc h.symm
      simp only [List.cons_append, replaceAllF, stripPrefix?, hne, if_false]
      rw [ih (fun x hx => hw x (List.mem_cons_of_mem _ hx)) f (by simpa using hf)]
      simp

end SciVerif.Str

namespace SciVerif.Str

/-- a rendered command: literal characters, untouched placeholder texts, substituted values -/
inductive Cell where
  | lit (c : Char)
  | raw (full : S)
  | val (v : S)
deriving DecidableEq, Repr

def renderC : List Cell → S
  | [] => []
  | .lit c :: r => c :: renderC r
  | .raw f :: r => f ++ renderC r
  | .val v :: r => v ++ renderC r

def braceFree (b : S) : Prop := ∀ c ∈ b, c ≠ '{' ∧ c ≠ '}'

/-- the text of a placeholder match: `{`, a brace-free body, `}` -/
def wfFull (f : S) : Prop := ∃ b, f = '{' :: (b ++ ['}']) ∧ braceFree b

def WFCell : Cell → Prop
  | .lit c => c ≠ '{'
  | .raw f => wfFull f
  | .val v => ∀ c ∈ v, c ≠ '{'

def substCell (pat rep : S) : Cell → Cell
  | .raw f => if f = pat then .val rep else .raw f
  | c => c

theorem stripPrefix?_body (b1 b2 rest r : S) (h1 : braceFree b1) (h2 : braceFree b2)
    (h : stripPrefix? (b1 ++ ['}']) (b2 ++ '}' :: rest) = some r) : b1 = b2 := by
  induction b1 generalizing b2 with
  | nil =>
    cases b2 with
    | nil => rfl
    | cons y ys =>
      have hy := (h2 y (by simp)).2
      simp [stripPrefix?] at h
      exact absurd h.1.symm hy
  | cons x xs ih =>
    have hx := (h1 x (by simp)).2
    cases b2 with
    | nil =>
      simp [stripPrefix?] at h
      exact absurd h.1 hx
    | cons y ys =>
      simp only [List.cons_append, stripPrefix?] at h
      split at h
      · rename_i hxy
        subst hxy
        rw [ih ys (fun c hc => h1 c (List.mem_cons_of_mem _ hc)) (fun c hc => h2 c (List.mem_cons_of_mem _ hc)) h]
      · simp at h

theorem stripPrefix?_other (pat f rest : S) (hp : wfFull pat) (hf : wfFull f) (hne : f ≠ pat) :
    stripPrefix? pat (f ++ rest) = none := by
  obtain ⟨b1, rfl, hb1⟩ := hp
  obtain ⟨b2, rfl, hb2⟩ := hf
  cases h : stripPrefix? ('{' :: (b1 ++ ['}'])) (('{' :: (b2 ++ ['}'])) ++ rest) with
  | none => rfl
  | some r =>
    exfalso
    simp only [List.cons_append, stripPrefix?, if_true, List.append_assoc, List.singleton_append] at h
    have := stripPrefix?_body b1 b2 rest r hb1 hb2 h
    subst this
    exact hne rfl

/-- replacing one placeholder text globally in a rendered cell list substitutes exactly the cells
that carry that text -/
theorem replaceAllF_cells (pat rep : S) (hp : wfFull pat) (cells : List Cell) (hwf : ∀ c ∈ cells, WFCell c)
    (fuel : Nat) (hf : (renderC cells).length ≤ fuel) :
    replaceAllF pat rep fuel (renderC cells) = renderC (cells.map (substCell pat rep)) := by
  obtain ⟨b1, hpat, hb1⟩ := hp
  have hpne : pat ≠ [] := by rw [hpat]; simp
  induction cells generalizing fuel with
  | nil => cases fuel <;> rfl
  | cons cell rest ih =>
    have hrest : ∀ c ∈ rest, WFCell c := fun c hc => hwf c (List.mem_cons_of_mem _ hc)
    have hcell := hwf cell (by simp)
    cases cell with
    | lit c =>
      simp only [renderC, List.map_cons, substCell] at hf ⊢
      have := replaceAllF_pass (b1 ++ ['}']) rep [c] (renderC rest) (by intro x hx; simp at hx; subst hx; exact hcell) fuel (by simpa using hf)
      rw [hpat]
      simp only [List.singleton_append] at this
      rw [this, ← hpat, ih hrest _ (by simp at hf ⊢; omega)]
    | val v =>
      simp only [renderC, List.map_cons, substCell] at hf ⊢
      have := replaceAllF_pass (b1 ++ ['}']) rep v (renderC rest) hcell fuel (by simpa using hf)
      rw [hpat, this, ← hpat, ih hrest _ (by simp at hf ⊢; omega)]
    | raw f =>
      simp only [renderC, List.map_cons, substCell] at hf ⊢
      by_cases hfp : f = pat
      · subst hfp
        simp only [if_true, renderC]
        cases fuel with
        | zero =>
          simp at hf
          rw [hpat] at hf; simp at hf
        | succ n =>
          obtain ⟨b, hfb, _⟩ := hcell
          -- the head of the string is '{'
          have hhead : f ++ renderC rest = '{' :: (b ++ ['}'] ++ renderC rest) := by rw [hfb]; simp
          rw [hhead]
          simp only [replaceAllF]
          rw [← hhead, stripPrefix?_append_self]
          simp only
          rw [ih hrest n (by
            have := hf
            simp only [List.length_append] at this
            have hl : 0 < f.length := by rw [hfb]; simp
            omega)]
      · simp only [hfp, if_false, renderC]
        obtain ⟨b, hfb, hb⟩ := hcell
        cases fuel with
        | zero => simp at hf; rw [hfb] at hf; simp at hf
        | succ n =>
          have hhead : f ++ renderC rest = '{' :: (b ++ ['}'] ++ renderC rest) := by rw [hfb]; simp
          rw [hhead]
          simp only [replaceAllF]
          rw [← hhead, stripPrefix?_other pat f (renderC rest) ⟨b1, hpat, hb1⟩ ⟨b, hfb, hb⟩ hfp]
          simp only
          have hpass := replaceAllF_pass (b1 ++ ['}']) rep (b ++ ['}']) (renderC rest)
            (by intro x hx; simp only [List.mem_append, List.mem_singleton] at hx
                rcases hx with hx | hx
                · exact (hb x hx).1
                · subst hx; decide) n (by
                  have := hf; simp only [List.length_append] at this
                  rw [hfb] at this; simp at this ⊢; omega)
          rw [hpat, hpass, ← hpat, ih hrest _ (by
            have := hf; simp only [List.length_append] at this
            rw [hfb] at this; simp at this ⊢; omega)]
          rw [hfb]; simp

end SciVerif.Str

namespace SciVerif.Str

/-! ### what `tokenize` produces -/

structure PHwf (p : PH) : Prop where
  typ  : p.typ ∈ phTypes
  rest : braceFree p.rest
  full : p.full = '{' :: (p.typ ++ [':'] ++ p.rest ++ ['}'])

theorem stripPrefix?_eq_append {pat s r : S} (h : stripPrefix? pat s = some r) : s = pat ++ r := by
  induction pat generalizing s with
  | nil => simp [stripPrefix?] at h; simp [h]
  | cons p ps ih =>
    cases s with
    | nil => simp [stripPrefix?] at h
    | cons c cs =>
      simp only [stripPrefix?] at h
      split at h
      · rename_i hpc; subst hpc; simp [ih h]
      · simp at h

theorem takeDropNB (r : S) : takeWhileNB r ++ dropWhileNB r = r := by
  induction r with
  | nil => rfl
  | cons c cs ih =>
    simp only [takeWhileNB, dropWhileNB]
    split
    · simp [ih]
    · simp

theorem takeWhileNB_braceFree (r : S) : braceFree (takeWhileNB r) := by
  induction r with
  | nil => intro c hc; simp [takeWhileNB] at hc
  | cons x xs ih =>
    intro c hc
    simp only [takeWhileNB] at hc
    split at hc
    · rename_i hx
      rcases List.mem_cons.1 hc with rfl | hc
      · simpa [notBrace] using hx
      · exact ih c hc
    · simp at hc

theorem matchAfterBrace_spec {s : S} {ph : PH} {after : S} (h : matchAfterBrace s = some (ph, after)) :
    PHwf ph ∧ s = (ph.typ ++ [':'] ++ ph.rest ++ ['}']) ++ after := by
  unfold matchAfterBrace at h
  rw [List.findSome?_eq_some_iff] at h
  obtain ⟨l1, t, l2, hmem, h, _⟩ := h
  have htyp : t ∈ phTypes := by rw [hmem]; simp
  split at h
  · simp at h
  · rename_i r hr
    simp only at h
    split at h
    · rename_i after' hd
      split at h
      · simp at h
      · simp at h
        obtain ⟨rfl, rfl⟩ := h
        have hs := stripPrefix?_eq_append hr
        have hr' := takeDropNB r
        rw [hd] at hr'
        have hbf := takeWhileNB_braceFree r
        generalize takeWhileNB r = body at hr' hbf
        refine ⟨⟨htyp, hbf, by simp⟩, ?_⟩
        simp only
        rw [hs, ← hr']; simp
    · simp at h

def renderT : List Tok → S
  | [] => []
  | .lit c :: r => c :: renderT r
  | .ph p :: r => p.full ++ renderT r

/-- tokenisation loses nothing: rendering the tokens gives the pattern back -/
theorem renderT_tokenizeF (n : Nat) (s : S) (hn : s.length ≤ n) : renderT (tokenizeF n s) = s := by
  induction n generalizing s with
  | zero =>
    have : s = [] := List.eq_nil_of_length_eq_zero (by omega)
    subst this; rfl
  | succ n ih =>
    cases s with
    | nil => rfl
    | cons c cs =>
      simp only [tokenizeF]
      split
      · rename_i hc; subst hc
        split
        · rename_i ph after hm
          obtain ⟨hwf, hs⟩ := matchAfterBrace_spec hm
          have hlen := matchAfterBrace_length hm
          simp only [renderT]
          rw [ih after (by simp at hn; omega), hwf.full, hs]
          simp
        · simp only [renderT]
          rw [ih cs (by simpa using hn)]
      · simp only [renderT]
        rw [ih cs (by simpa using hn)]

theorem tokenizeF_wf (n : Nat) (s : S) : ∀ p, Tok.ph p ∈ tokenizeF n s → PHwf p := by
  induction n generalizing s with
  | zero => intro p hp; simp [tokenizeF] at hp
  | succ n ih =>
    cases s with
    | nil => intro p hp; simp [tokenizeF] at hp
    | cons c cs =>
      intro p hp
      simp only [tokenizeF] at hp
      split at hp
      · split at hp
        · rename_i ph after hm
          rcases List.mem_cons.1 hp with h | h
          · simp at h; subst h; exact (matchAfterBrace_spec hm).1
          · exact ih after p h
        · rcases List.mem_cons.1 hp with h | h
          · simp at h
          · exact ih cs p h
      · rcases List.mem_cons.1 hp with h | h
        · simp at h
        · exact ih cs p h

theorem typ_braceFree (t : S) (ht : t ∈ phTypes) : braceFree t ∧ ':' ∉ t := by
  simp only [phTypes, List.mem_cons, List.mem_nil_iff, or_false] at ht
  rcases ht with rfl | rfl | rfl | rfl | rfl | rfl <;> refine ⟨?_, by decide⟩ <;> intro c hc <;> simp at hc <;>
    (first | (subst hc; decide) | (rcases hc with rfl | rfl <;> decide))

theorem wfFull_of_PHwf (p : PH) (h : PHwf p) : wfFull p.full := by
  refine ⟨p.typ ++ [':'] ++ p.rest, by rw [h.full], ?_⟩
  intro c hc
  simp only [List.mem_append, List.mem_singleton] at hc
  rcases hc with (hc | hc) | hc
  · exact (typ_braceFree p.typ h.typ).1 c hc
  · subst hc; decide
  · exact h.rest c hc

end SciVerif.Str
