import SciVerif.Lemmas.TaskSkip
/-! Simulation lemma for C03: control flow and file-system footprint of a task attempt depend only on
the "core" of the state (program counters, command state, temp dir, temp / final / extra files,
status), not on the counters and ghosts (`executed`, `okRuns`, `moved`, `audit`, `holding`, `skipped`). -/
namespace SciVerif.TaskFS

structure R (s t : St) : Prop where
  pc : s.pc = t.pc
  finpc : s.finpc = t.finpc
  cmd : s.cmd = t.cmd
  tmp : s.tmp = t.tmp
  tempOut : s.tempOut = t.tempOut
  finalOut : s.finalOut = t.finalOut
  extras : s.extras = t.extras
  status : s.status = t.status

def RO : Option St → Option St → Prop
  | none, none => True
  | some a, some b => R a b
  | _, _ => False

theorem R_fail {s t : St} (h : R s t) : R (fail s) (fail t) := by
  obtain ⟨h1, h2, h3, h4, h5, h6, h7, h8⟩ := h
  exact ⟨rfl, rfl, h3, h4, h5, h6, h7, rfl⟩

theorem stepCmd_sim (sem : Sem) (c : Cfg) (s t : St) (todo : List Act) (h : R s t) :
    R (stepCmd sem c s todo) (stepCmd sem c t todo) := by
  obtain ⟨h1, h2, h3, h4, h5, h6, h7, h8⟩ := h
  unfold stepCmd
  split
  · split
    · split <;> constructor <;> simp_all
    · constructor <;> simp_all
  · constructor <;> simp_all
  · split
    · constructor <;> simp_all
    · split
      · exact R_fail ⟨h1, h2, h3, h4, h5, h6, h7, h8⟩
      · constructor <;> simp_all

theorem stepFin_sim (sem : Sem) (c : Cfg) (s t : St) (f : FinPc) (h : R s t) :
    R (stepFin sem c s f) (stepFin sem c t f) := by
  obtain ⟨h1, h2, h3, h4, h5, h6, h7, h8⟩ := h
  unfold stepFin
  split
  · constructor <;> simp_all
  · split
    · constructor <;> simp_all
    · split
      · rw [h5]
        split
        · exact R_fail ⟨h1, h2, h3, h4, h5, h6, h7, h8⟩
        · constructor <;> simp_all
      · constructor <;> simp_all
  · constructor <;> simp_all
  · constructor <;> simp_all
  · constructor <;> simp_all

theorem anyFinalExists_R (c : Cfg) {s t : St} (h : s.finalOut = t.finalOut) : anyFinalExists c s = anyFinalExists c t := by
  simp [anyFinalExists, h]

theorem allTempExist_R (c : Cfg) {s t : St} (h : s.tempOut = t.tempOut) : allTempExist c s = allTempExist c t := by
  simp [allTempExist, h]

theorem step_sim (sem : Sem) (c : Cfg) (s t : St) (h : R s t) : RO (step sem c s) (step sem c t) := by
  obtain ⟨h1, h2, h3, h4, h5, h6, h7, h8⟩ := h
  unfold step
  rw [← h8]
  split
  · trivial
  · rw [← h2]
    split
    · exact stepFin_sim sem c s t _ ⟨h1, h2, h3, h4, h5, h6, h7, h8⟩
    · rw [← h3]
      split
      · exact stepCmd_sim sem c s t _ ⟨h1, h2, h3, h4, h5, h6, h7, h8⟩
      · rw [← h1]
        split
        · show R _ _; constructor <;> simp_all
        · rename_i op rest hpc
          have hA : anyFinalExists c { s with pc := rest } = anyFinalExists c { t with pc := rest } :=
            anyFinalExists_R c h6
          have hT : allTempExist c { s with pc := rest } = allTempExist c { t with pc := rest } :=
            allTempExist_R c h5
          have hR : R s t := ⟨h1, h2, h3, h4, h5, h6, h7, h8⟩
          cases op <;> simp only [RO, h4, hA, hT] <;> (try split) <;> (try split) <;>
            first
              | (apply R_fail; constructor <;> simp_all)
              | (constructor <;> simp_all)

theorem stepN_sim (sem : Sem) (c : Cfg) (n : Nat) : ∀ s t : St, R s t → R (stepN sem c n s) (stepN sem c n t) := by
  induction n with
  | zero => intro s t h; exact h
  | succ n ih =>
    intro s t h
    have hs := step_sim sem c s t h
    simp only [stepN]
    cases h1 : step sem c s <;> cases h2 : step sem c t <;> simp only [h1, h2, RO] at hs
    · exact h
    · exact ih _ _ hs

end SciVerif.TaskFS
