import SciVerif.Model.Components
/-! Lemmas for the component models (C19). -/
namespace SciVerif.Comp

variable {α : Type}

/-- the k columns of a list of rows (each row of length k) -/
def unrows (k : Nat) : List (List α) → List (List α)
  | [] => List.replicate k []
  | r :: rs => List.zipWith (· :: ·) r (unrows k rs)

theorem unrows_length (k : Nat) (R : List (List α)) (h : ∀ r ∈ R, r.length = k) : (unrows k R).length = k := by
  induction R with
  | nil => simp [unrows]
  | cons r rs ih =>
    simp only [unrows, List.length_zipWith]
    rw [ih (fun x hx => h x (List.mem_cons_of_mem _ hx)), h r (by simp)]
    simp

theorem zipWith_append_replicate_nil (k : Nat) (X : List (List α)) (h : X.length = k) :
    List.zipWith (· ++ ·) (List.replicate k ([] : List α)) X = X := by
  induction X generalizing k with
  | nil => cases k <;> simp_all
  | cons x xs ih =>
    cases k with
    | zero => simp at h
    | succ k => simp [List.replicate_succ, ih k (by simpa using h)]

theorem zipWith_cons_append (r : List α) (A B : List (List α)) (h : A.length = B.length) (hr : r.length = A.length) :
    List.zipWith (· :: ·) r (List.zipWith (· ++ ·) A B) = List.zipWith (· ++ ·) (List.zipWith (· :: ·) r A) B := by
  induction r generalizing A B with
  | nil => simp
  | cons x xs ih =>
    cases A with
    | nil => simp at hr
    | cons a as =>
      cases B with
      | nil => simp at h
      | cons b bs =>
        simp only [List.zipWith_cons_cons, List.cons_append]
        rw [ih as bs (by simpa using h) (by simpa using hr)]

theorem unrows_append (k : Nat) (R1 R2 : List (List α)) (h1 : ∀ r ∈ R1, r.length = k) (h2 : ∀ r ∈ R2, r.length = k) :
    unrows k (R1 ++ R2) = List.zipWith (· ++ ·) (unrows k R1) (unrows k R2) := by
  induction R1 with
  | nil =>
    simp only [List.nil_append, unrows]
    rw [zipWith_append_replicate_nil k _ (unrows_length k R2 h2)]
  | cons r rs ih =>
    simp only [List.cons_append, unrows]
    rw [ih (fun x hx => h1 x (List.mem_cons_of_mem _ hx))]
    have hl1 := unrows_length k rs (fun x hx => h1 x (List.mem_cons_of_mem _ hx))
    have hl2 := unrows_length k R2 h2
    exact zipWith_cons_append r _ _ (by rw [hl1, hl2]) (by rw [hl1]; exact h1 r (by simp))

theorem unrows_map_cons (k : Nat) (x : α) (P : List (List α)) :
    unrows (k + 1) (P.map (x :: ·)) = List.replicate P.length x :: unrows k P := by
  induction P with
  | nil => simp [unrows, List.replicate_succ]
  | cons p ps ih =>
    simp only [List.map_cons, unrows, ih, List.length_cons, List.replicate_succ, List.zipWith_cons_cons]

theorem zipWith_append_map (T : List (List α)) (g : List α → List α) :
    List.zipWith (· ++ ·) T (T.map g) = T.map fun l => l ++ g l := by
  induction T with
  | nil => rfl
  | cons t ts ih => simp [ih]

theorem product_row_length (cols : List (List α)) : ∀ r ∈ product cols, r.length = cols.length := by
  induction cols with
  | nil => intro r hr; simp [product] at hr; subst hr; rfl
  | cons c cs ih =>
    intro r hr
    simp only [product, List.mem_flatMap, List.mem_map] at hr
    obtain ⟨x, _, p, hp, rfl⟩ := hr
    simp [ih p hp]

theorem replicate_nil_eq_map (k : Nat) (T : List (List α)) (hl : T.length = k) :
    List.replicate k ([] : List α) = T.map fun _ => [] := by
  induction T generalizing k with
  | nil => simp at hl; subst hl; rfl
  | cons t ts ih =>
    cases k with
    | zero => simp at hl
    | succ k => simp only [List.map_cons, List.replicate_succ]; rw [← ih k (by simpa using hl)]

theorem zipWith_cons_lengths (n : Nat) (p : List α) (T : List (List α)) (h : ∀ c ∈ T, c.length = n) :
    ∀ c ∈ List.zipWith (· :: ·) p T, c.length = n + 1 := by
  induction p generalizing T with
  | nil => intro c hc; simp at hc
  | cons a as iha =>
    cases T with
    | nil => intro c hc; simp at hc
    | cons t ts =>
      intro c hc
      simp only [List.zipWith_cons_cons, List.mem_cons] at hc
      rcases hc with rfl | hc
      · simp [h t (by simp)]
      · exact iha ts (fun c hc => h c (List.mem_cons_of_mem _ hc)) c hc

/-- one step of `combine`: given the columns `T` of the tail product `P` -/
theorem combine_step (k : Nat) (P : List (List α)) (hP : ∀ r ∈ P, r.length = k) (head : List α) :
    unrows (k + 1) (head.flatMap fun x => P.map (x :: ·)) =
      (head.flatMap fun ip => List.replicate P.length ip) ::
        (unrows k P).map fun l => (head.map fun _ => l).flatten := by
  induction head with
  | nil =>
    simp only [List.flatMap_nil, unrows, List.replicate_succ, List.map_nil, List.flatten_nil]
    congr 1
    exact replicate_nil_eq_map k _ (unrows_length k P hP)
  | cons x xs ih =>
    simp only [List.flatMap_cons]
    have h1 : ∀ r ∈ P.map (x :: ·), r.length = k + 1 := by
      intro r hr; simp only [List.mem_map] at hr; obtain ⟨p, hp, rfl⟩ := hr; simp [hP p hp]
    have h2 : ∀ r ∈ (xs.flatMap fun x => P.map (x :: ·)), r.length = k + 1 := by
      intro r hr; simp only [List.mem_flatMap, List.mem_map] at hr
      obtain ⟨y, _, p, hp, rfl⟩ := hr; simp [hP p hp]
    rw [unrows_append (k + 1) _ _ h1 h2, ih, unrows_map_cons]
    simp only [List.zipWith_cons_cons, List.map_cons, List.flatten_cons]
    congr 1
    rw [zipWith_append_map]

theorem unrows_head_length (k : Nat) (P : List (List α)) :
    ∀ c ∈ unrows k P, c.length = P.length := by
  induction P with
  | nil => intro c hc; simp [unrows] at hc; simp [hc.2]
  | cons p ps ih =>
    intro c hc
    simp only [unrows] at hc
    simpa using zipWith_cons_lengths ps.length p _ ih c hc

end SciVerif.Comp

namespace SciVerif.Comp
variable {α : Type}

theorem flatMap_replicate_one (c : List α) : (c.flatMap fun ip => List.replicate 1 ip) = c := by
  induction c with
  | nil => rfl
  | cons x xs ih => simp [List.replicate_succ, ih]

theorem combine_eq_unrows_product : ∀ (cols : List (List α)), combine cols = unrows cols.length (product cols)
  | [] => by simp [combine, product, unrows]
  | [c] => by
    have h := combine_step 0 [([] : List α)] (by simp) c
    show combine [c] = unrows (0 + 1) (c.flatMap fun x => [([] : List α)].map (x :: ·))
    rw [h]
    simp [combine, unrows, flatMap_replicate_one]
  | head :: c2 :: rest => by
    have ih := combine_eq_unrows_product (c2 :: rest)
    have hP := product_row_length (c2 :: rest)
    have hstep := combine_step (c2 :: rest).length (product (c2 :: rest)) hP head
    have hlen := unrows_length (c2 :: rest).length (product (c2 :: rest)) hP
    have hcol := unrows_head_length (c2 :: rest).length (product (c2 :: rest))
    show combine (head :: c2 :: rest) = unrows ((c2 :: rest).length + 1) (product (head :: c2 :: rest))
    rw [show product (head :: c2 :: rest) = head.flatMap (fun x => (product (c2 :: rest)).map (x :: ·)) from rfl, hstep]
    simp only [combine]
    rw [ih]
    generalize unrows (c2 :: rest).length (product (c2 :: rest)) = T at hlen hcol
    cases T with
    | nil => simp at hlen
    | cons t ts =>
      simp only [hcol t (by simp)]

/-! ### FileSplitter -/

theorem splitLoop_flatten (L : Nat) (lines : List (List Nat)) (lineNo splitNo : Nat) (cur : List (List Nat)) :
    (splitLoop L lines lineNo splitNo cur).flatten = cur ++ lines := by
  induction lines generalizing lineNo splitNo cur with
  | nil => simp [splitLoop]
  | cons l ls ih =>
    simp only [splitLoop]
    split
    · simp [ih]
    · simp [ih]

/-- loop invariant: `lineNo = (splitNo - 1) * L + cur.length + 1` keeps every part at most `L` long -/
theorem splitLoop_bound (L : Nat) (hL : 1 ≤ L) (lines : List (List Nat)) (lineNo splitNo : Nat) (cur : List (List Nat))
    (hs : 1 ≤ splitNo) (hinv : lineNo = (splitNo - 1) * L + cur.length + 1) (hcur : cur.length < L) :
    ∀ part ∈ splitLoop L lines lineNo splitNo cur, part.length ≤ L := by
  induction lines generalizing lineNo splitNo cur with
  | nil => intro part hp; simp [splitLoop] at hp; subst hp; omega
  | cons l ls ih =>
    intro part hp
    simp only [splitLoop] at hp
    have hmul : splitNo * L = (splitNo - 1) * L + L := by
      have : splitNo = (splitNo - 1) + 1 := by omega
      conv => lhs; rw [this, Nat.add_mul]; simp
    split at hp
    · rename_i heq
      rcases List.mem_cons.1 hp with rfl | hp
      · simp; omega
      · refine ih (lineNo + 1) (splitNo + 1) [] (by omega) ?_ (by simp; omega) part hp
        simp; omega
    · rename_i hne
      refine ih (lineNo + 1) splitNo (cur ++ [l]) hs (by simp; omega) ?_ part hp
      simp
      -- cur.length + 1 < L, otherwise lineNo = splitNo * L
      rcases Nat.lt_or_ge (cur.length + 1) L with h | h
      · exact h
      · exfalso; apply hne; omega

theorem splitLoop_count (L : Nat) (hL : 1 ≤ L) (lines : List (List Nat)) (lineNo splitNo : Nat) (cur : List (List Nat))
    (hs : 1 ≤ splitNo) (hinv : lineNo = (splitNo - 1) * L + cur.length + 1) (hcur : cur.length < L) :
    (splitLoop L lines lineNo splitNo cur).length = (cur.length + lines.length) / L + 1 := by
  induction lines generalizing lineNo splitNo cur with
  | nil =>
    simp only [splitLoop, List.length_cons, List.length_nil, Nat.add_zero]
    rw [Nat.div_eq_of_lt hcur]
  | cons l ls ih =>
    simp only [splitLoop]
    have hmul : splitNo * L = (splitNo - 1) * L + L := by
      have : splitNo = (splitNo - 1) + 1 := by omega
      conv => lhs; rw [this, Nat.add_mul]; simp
    split
    · rename_i heq
      have hc : cur.length + 1 = L := by omega
      simp only [List.length_cons]
      rw [ih (lineNo + 1) (splitNo + 1) [] (by omega) (by simp; omega) (by simp; omega)]
      simp only [List.length_nil, Nat.zero_add]
      have : cur.length + (ls.length + 1) = ls.length + L := by omega
      rw [this, Nat.add_div_right _ (by omega)]
    · rename_i hne
      have hlt : cur.length + 1 < L := by
        rcases Nat.lt_or_ge (cur.length + 1) L with h | h
        · exact h
        · exfalso; apply hne; omega
      rw [ih (lineNo + 1) splitNo (cur ++ [l]) hs (by simp; omega) (by simpa using hlt)]
      simp only [List.length_append, List.length_cons, List.length_nil]
      congr 2; omega

end SciVerif.Comp
