/-!
# The main loop of `Process.Run` (C08, and the process-level half of C04 / C09)

`Process.Run` selects between "a new task from `createTasks`" and "the Done channel of one started
task"; started tasks are kept in a slice; outputs are forwarded when a task is dequeued.
The semantics record says where tasks are enqueued, whose Done channel is waited on, and which
task is dequeued — Tie A regenerates it from the source.

Nondeterminism: the order in which task goroutines finish (`offer i` for any started index i) and
when new tasks arrive (`accept t`) — every schedule of completions is a label sequence.
-/
namespace SciVerif.Proc

structure ProcSem where
  /-- `startedTasks = append(startedTasks, t)` -/
  appendTail  : Bool
  /-- `NextTaskDone` returns the Done channel of `tq[0]` -/
  waitHead    : Bool
  /-- `nextTask, startedTasks = startedTasks[0], startedTasks[1:]` -/
  dequeueHead : Bool
  /-- non-streaming outputs are sent by the main loop when a task is dequeued, nowhere else -/
  forwardOnDequeueOnly : Bool
deriving DecidableEq, Repr

structure PSt where
  accepted  : List Nat            -- ghost: tasks in the order they were received from createTasks
  started   : List (Nat × Bool)   -- the slice `startedTasks`; flag = the task is blocked in `t.Done <- 1`
  forwarded : List Nat            -- tasks whose outputs have been sent, in sending order
  early     : List Nat            -- outputs sent before the task was done (only if the record allows it)
deriving DecidableEq, Repr

inductive Label where
  | accept (t : Nat)   -- a task arrives on the `tasks` channel and its goroutine is spawned
  | offer (i : Nat)    -- the goroutine of started task number i reaches `t.Done <- 1`
  | take (i : Nat)     -- the main loop receives on the Done channel it waits on (index i)
deriving DecidableEq, Repr

def init : PSt := { accepted := [], started := [], forwarded := [], early := [] }

def step (sem : ProcSem) (s : PSt) : Label → Option PSt
  | .accept t =>
    some { s with accepted := s.accepted ++ [t],
                  started := if sem.appendTail then s.started ++ [(t, false)] else (t, false) :: s.started }
  | .offer i =>
    match s.started[i]? with
    | some (t, false) => some { s with started := s.started.set i (t, true) }
    | _ => none
  | .take i =>
    if sem.waitHead && i != 0 then none else
    match s.started[i]? with
    | some (_, true) =>
      let j := if sem.dequeueHead then 0 else i
      match s.started[j]? with
      | some (u, d) =>
        some { s with started := s.started.eraseIdx j, forwarded := s.forwarded ++ [u],
                      early := if d then s.early else s.early ++ [u] }
      | none => none
    | _ => none

def run (sem : ProcSem) (s : PSt) : List Label → Option PSt
  | [] => some s
  | l :: ls => match step sem s l with | none => none | some s' => run sem s' ls

def good (sem : ProcSem) : Prop :=
  sem.appendTail = true ∧ sem.waitHead = true ∧ sem.dequeueHead = true ∧ sem.forwardOnDequeueOnly = true

instance (sem : ProcSem) : Decidable (good sem) := by unfold good; infer_instance

/-- search support: all label sequences up to a depth over tasks 0..n-1, looking for an order violation -/
def enabled (s : PSt) (next : Nat) (n : Nat) : List Label :=
  (if next < n then [.accept next] else []) ++
  (List.range s.started.length).flatMap fun i => [.offer i, .take i]

end SciVerif.Proc
