/-!
# One in-port: a bounded FIFO channel fed by any number of out-ports (C04, C18)

`InPort.Chan` is a Go channel of capacity `B`; every connected out-port sends into it; the port is
closed when the last upstream out-port has closed its connection (`CloseConnection`, under
`closeLock`). Senders, the receiver and closes interleave arbitrarily (labels).
Assumed of the Go runtime: a channel is a FIFO queue, send blocks when full, receive when empty.
-/
namespace SciVerif.Chan

structure ChSt where
  todo   : List (List Nat)      -- per sender: items still to send, in order
  isOpen : List Bool            -- per sender: connection not yet closed
  queue  : List (Nat × Nat)     -- (sender, item), oldest first
  got    : List (Nat × Nat)     -- what the receiver has taken, in order
deriving DecidableEq, Repr

inductive Label where
  | send (s : Nat)
  | recv
  | close (s : Nat)
deriving DecidableEq, Repr

def init (streams : List (List Nat)) : ChSt :=
  { todo := streams, isOpen := streams.map fun _ => true, queue := [], got := [] }

def step (B : Nat) (st : ChSt) : Label → Option ChSt
  | .send s =>
    match st.todo[s]?, st.isOpen[s]? with
    | some (x :: rest), some true =>
      if st.queue.length < B then some { st with todo := st.todo.set s rest, queue := st.queue ++ [(s, x)] } else none
    | _, _ => none
  | .recv =>
    match st.queue with
    | h :: t => some { st with queue := t, got := st.got ++ [h] }
    | [] => none
  | .close s =>
    match st.todo[s]?, st.isOpen[s]? with
    | some [], some true => some { st with isOpen := st.isOpen.set s false }
    | _, _ => none

def run (B : Nat) (st : ChSt) : List Label → Option ChSt
  | [] => some st
  | l :: ls => match step B st l with | none => none | some st' => run B st' ls

/-- the channel is closed (last upstream closed) and drained -/
def finished (st : ChSt) : Bool := st.isOpen.all (· == false) && st.queue.isEmpty

/-- what sender `s` has put on the wire so far, in order, as seen at the receiving end -/
def delivered (st : ChSt) (s : Nat) : List Nat := ((st.got ++ st.queue).filter (·.1 = s)).map (·.2)

/-- `createTasks`: one item from every port per round, until some port is exhausted: the tasks are
the aligned tuples of the received streams cut to the shortest -/
def zipPorts : List (List Nat) → List (List Nat)
  | [] => []
  | [c] => c.map fun x => [x]
  | c :: cs => List.zipWith (· :: ·) c (zipPorts cs)

/-- the receive loop of one round-robin consumer over its ports (streams as delivered), with the
number of tasks built: faithful to `for { receiveOnInPorts(); if !open {break}; build }` -/
def createTasks : Nat → List (List Nat) → List (List Nat)
  | 0, _ => []
  | fuel + 1, ports =>
    if ports.all (fun p => !p.isEmpty) then
      ports.map (fun p => p.headD 0) :: createTasks fuel (ports.map List.tail)
    else []

end SciVerif.Chan
