import SciVerif.Model.Net
/-!
# The network model at the granularity of channel operations (C05)

`Model/Net.lean` reads one item from *every* in-port in one step (`create`) and sends one item on *every*
out-port in one step (`forward`). The Go code does neither atomically: `receiveOnInPorts` reads the in-ports one
after the other (in the order of a Go map iteration, i.e. any order), each read blocking, and holds the items
already read in hand; `Process.Run` sends a finished task's outputs port by port, each send blocking while
that port's channel is full. Here every single channel operation is a step:

* `recv w u`   — `w` reads, in its current round, the item of the in-port fed by `u` (needs one in the channel);
* `create w`   — all in-ports have been read in this round: the task exists (a source: emits its next item);
* `send v w`   — the oldest started task of `v` is done and its output has not yet been sent to `w`: send it
                 (needs room in the channel `v → w`);
* `forward v`  — the output has been sent to every consumer: the task leaves the queue;
* `terminate v`— nothing in flight and a port that `v` is about to read is closed and drained (a source: everything
                 emitted).

Per connection `u → w` the state counts the items sent (`s u w`) and read (`r u w`); the channel holds
`s u w − r u w ≤ B` items. Connections are identified by the pair of processes (two in-ports of one process fed
by the same upstream process are one connection here; `Model/Net.lean` has no such restriction).
-/
namespace SciVerif.NetFine
open SciVerif.Net

structure FSt (n : Nat) where
  c    : Fin n → Nat
  f    : Fin n → Nat
  term : Fin n → Bool
  s    : Fin n → Fin n → Nat
  r    : Fin n → Fin n → Nat

inductive FLbl (n : Nat) where
  | recv (w u : Fin n)
  | create (v : Fin n)
  | send (v w : Fin n)
  | forward (v : Fin n)
  | terminate (v : Fin n)
deriving DecidableEq

def upd2 {n : Nat} (g : Fin n → Fin n → Nat) (a b : Fin n) (x : Nat) : Fin n → Fin n → Nat :=
  fun a' b' => if a' = a ∧ b' = b then x else g a' b'

def canRecv {n : Nat} (net : Net n) (s : FSt n) (w u : Fin n) : Prop :=
  u ∈ net.ins w ∧ s.term w = false ∧ s.r u w = s.c w ∧ s.r u w < s.s u w

def canCreate {n : Nat} (net : Net n) (s : FSt n) (v : Fin n) : Prop :=
  s.term v = false ∧
    (if (net.ins v).isEmpty then s.c v < net.src v else ∀ u ∈ net.ins v, s.r u v = s.c v + 1)

def canSend {n : Nat} (net : Net n) (s : FSt n) (v w : Fin n) : Prop :=
  v ∈ net.ins w ∧ s.f v < s.c v ∧ s.s v w = s.f v ∧ s.s v w < s.r v w + net.B

def canForward {n : Nat} (net : Net n) (s : FSt n) (v : Fin n) : Prop :=
  s.f v < s.c v ∧ ∀ w ∈ outs net v, s.s v w = s.f v + 1

def canTerm {n : Nat} (net : Net n) (s : FSt n) (v : Fin n) : Prop :=
  s.term v = false ∧ s.c v = s.f v ∧
    (if (net.ins v).isEmpty then s.c v = net.src v
     else ∃ u ∈ net.ins v, s.term u = true ∧ s.r u v = s.s u v ∧ s.r u v = s.c v)

instance {n : Nat} (net : Net n) (s : FSt n) (w u : Fin n) : Decidable (canRecv net s w u) := by
  unfold canRecv; exact inferInstance
instance {n : Nat} (net : Net n) (s : FSt n) (v : Fin n) : Decidable (canCreate net s v) := by
  unfold canCreate; exact inferInstance
instance {n : Nat} (net : Net n) (s : FSt n) (v w : Fin n) : Decidable (canSend net s v w) := by
  unfold canSend; exact inferInstance
instance {n : Nat} (net : Net n) (s : FSt n) (v : Fin n) : Decidable (canForward net s v) := by
  unfold canForward; exact inferInstance
instance {n : Nat} (net : Net n) (s : FSt n) (v : Fin n) : Decidable (canTerm net s v) := by
  unfold canTerm; exact inferInstance

def fstep {n : Nat} (net : Net n) (s : FSt n) : FLbl n → Option (FSt n)
  | .recv w u => if canRecv net s w u then some { s with r := upd2 s.r u w (s.r u w + 1) } else none
  | .create v => if canCreate net s v then some { s with c := upd s.c v (s.c v + 1) } else none
  | .send v w => if canSend net s v w then some { s with s := upd2 s.s v w (s.s v w + 1) } else none
  | .forward v => if canForward net s v then some { s with f := upd s.f v (s.f v + 1) } else none
  | .terminate v => if canTerm net s v then some { s with term := upd s.term v true } else none

def finit (n : Nat) : FSt n :=
  { c := fun _ => 0, f := fun _ => 0, term := fun _ => false, s := fun _ _ => 0, r := fun _ _ => 0 }

def frun {n : Nat} (net : Net n) : FSt n → List (FLbl n) → Option (FSt n)
  | s, [] => some s
  | s, l :: ls => match fstep net s l with | none => none | some s' => frun net s' ls

def fstuck {n : Nat} (net : Net n) (s : FSt n) : Prop := ∀ l, fstep net s l = none

def allFLbls (n : Nat) : List (FLbl n) :=
  (List.finRange n).flatMap fun v =>
    [.create v, .forward v, .terminate v] ++ (List.finRange n).flatMap fun w => [.recv v w, .send v w]

def fstuckB {n : Nat} (net : Net n) (s : FSt n) : Bool := (allFLbls n).all fun l => (fstep net s l).isNone

end SciVerif.NetFine
