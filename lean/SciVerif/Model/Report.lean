/-!
# Audit report flattening and ordering (C20)

Model of `extractAuditInfosByID` and `sortAuditInfosByStartTime` (cmd/scipipe/audit_reports.go).
A Go map is an association list with overwrite-on-insert; its iteration order is a parameter
(any permutation of the values). Start times are natural numbers (ns since some epoch).
-/
namespace SciVerif.Report

structure Rec where
  id    : Nat
  start : Nat
  tag   : Nat      -- stands for the rest of the record (command, params, tags, ...)
deriving DecidableEq, Repr

inductive AT where
  | node (r : Rec) (ups : List AT)

abbrev Map := List (Nat × Rec)

def insertKV (k : Nat) (v : Rec) : Map → Map
  | [] => [(k, v)]
  | (k', v') :: rest => if k = k' then (k, v) :: rest else (k', v') :: insertKV k v rest

/-- `mergeStringAuditInfoMaps(a, b)`: entries of `b` overwrite -/
def mergeKV (a b : Map) : Map := b.foldl (fun acc kv => insertKV kv.1 kv.2 acc) a

mutual
/-- `extractAuditInfosByID` -/
def extract : AT → Map
  | .node r ups => extractL ups [(r.id, r)]
def extractL : List AT → Map → Map
  | [], acc => acc
  | t :: ts, acc => extractL ts (mergeKV acc (extract t))
end

mutual
/-- all records of the tree (pre-order) -/
def nodes : AT → List Rec
  | .node r ups => r :: nodesL ups
def nodesL : List AT → List Rec
  | [] => []
  | t :: ts => nodes t ++ nodesL ts
end

def keys (m : Map) : List Nat := m.map (·.1)
def vals (m : Map) : List Rec := m.map (·.2)

/-- which ordering algorithm the source uses (Tie A) -/
inductive SortSem where
  | timeMap    -- a map keyed by StartTime, then the sorted times looked up in it
  | sliceSort  -- the slice of records itself is sorted by StartTime
  | other
deriving DecidableEq, Repr

def le (a b : Rec) : Bool := a.start ≤ b.start

/-- the map-by-time algorithm: records with equal start times collapse -/
def sortByTimeMap (rs : List Rec) : List Rec :=
  let byTime : Map := rs.foldl (fun m r => insertKV r.start r m) []
  let times := (rs.map (·.start)).mergeSort (fun a b => a ≤ b)
  times.filterMap fun t => byTime.lookup t

/-- `rs` is the map's values in iteration order -/
def listing (sem : SortSem) (rs : List Rec) : List Rec :=
  match sem with
  | .timeMap => sortByTimeMap rs
  | .sliceSort => rs.mergeSort le
  | .other => rs

end SciVerif.Report
