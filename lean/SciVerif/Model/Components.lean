/-!
# Bundled components (C19)

Pure cores of `FileCombinator` / `ParamCombinator` (`combine`), `IPSelectorSync`, `FileSplitter`
and `Concatenator`. Go maps are association lists in the order of the `keys` slice (an arbitrary
permutation of the port names: Go map iteration order) — theorems hold for every such order.
-/
namespace SciVerif.Comp

variable {α : Type}

/-- `combine(inParams, keys)` on the columns listed in `keys` order -/
def combine : List (List α) → List (List α)
  | [] => []
  | [c] => [c]
  | head :: rest =>
    let tail := combine rest
    let tlen := match tail with | l :: _ => l.length | [] => 0
    (head.flatMap fun ip => List.replicate tlen ip) :: tail.map fun l => (head.map fun _ => l).flatten

/-- aligned tuples: row i takes element i of every column -/
def rows : List (List α) → List (List α)
  | [] => []
  | [c] => c.map fun x => [x]
  | c :: cs => List.zipWith (· :: ·) c (rows cs)

/-- Cartesian product in lexicographic order (first column varies slowest) -/
def product : List (List α) → List (List α)
  | [] => [[]]
  | c :: cs => c.flatMap fun x => (product cs).map (x :: ·)

/-- `IPSelectorSync`: forward exactly the aligned tuples all of whose members pass;
`none` = inconsistent port closing (`Failf`) -/
def select (pred : α → Bool) (cols : List (List α)) : Option (List (List α)) :=
  match cols with
  | [] => some []
  | c :: cs => if cs.all (·.length = c.length) then some ((rows (c :: cs)).filter (·.all pred)) else none

/-- `FileSplitter.Run` main loop over the scanned lines -/
def splitLoop (L : Nat) : List (List Nat) → Nat → Nat → List (List Nat) → List (List (List Nat))
  | [], _, _, cur => [cur]
  | l :: ls, lineNo, splitNo, cur =>
    if lineNo = splitNo * L then (cur ++ [l]) :: splitLoop L ls (lineNo + 1) (splitNo + 1) []
    else splitLoop L ls (lineNo + 1) splitNo (cur ++ [l])

def split (L : Nat) (lines : List (List Nat)) : List (List (List Nat)) := splitLoop L lines 1 1 []

/-- `bufio.ScanLines` + `Text()`: split at LF, drop one trailing CR per line, a final unterminated
line counts, an empty remainder does not -/
def scanLines : List Nat → List Nat → List (List Nat)
  | [], cur => if cur = [] then [] else [dropCR cur]
  | b :: bs, cur => if b = 10 then dropCR cur :: scanLines bs [] else scanLines bs (cur ++ [b])
where
  dropCR (l : List Nat) : List Nat := if l.getLast? = some 13 then l.dropLast else l

/-- what a part file contains: every line followed by LF -/
def render (part : List (List Nat)) : List Nat := part.flatMap (· ++ [10])

/-- `Concatenator`: every input's bytes followed by LF, in arrival order -/
def concatFiles (contents : List (List Nat)) : List Nat := contents.flatMap (· ++ [10])

/-- `Concatenator` with `GroupByTag`: a file whose tag value is empty goes to the main output, any other file to the
output of its tag value, created when the first file of that group arrives (the Go loop, one file per step;
`none` = no value for the tag) -/
def addTo (gs : List (Nat × List Nat)) (t : Nat) (b : List Nat) : List (Nat × List Nat) :=
  match gs with
  | [] => [(t, b)]
  | (t', acc) :: rest => if t' = t then (t', acc ++ b) :: rest else (t', acc) :: addTo rest t b

def concatLoop : List (Option Nat × List Nat) → List Nat × List (Nat × List Nat) → List Nat × List (Nat × List Nat)
  | [], st => st
  | (none, c) :: fs, (m, gs) => concatLoop fs (m ++ (c ++ [10]), gs)
  | (some t, c) :: fs, (m, gs) => concatLoop fs (m, addTo gs t (c ++ [10]))

def concatGrouped (fs : List (Option Nat × List Nat)) : List Nat × List (Nat × List Nat) := concatLoop fs ([], [])

/-- the files of one group (`none`: the untagged ones), in arrival order -/
def ofGroup (fs : List (Option Nat × List Nat)) (g : Option Nat) : List (List Nat) :=
  (fs.filter fun f => f.1 == g).map (·.2)

end SciVerif.Comp
