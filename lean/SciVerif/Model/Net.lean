/-!
# Network-level counting model of a running workflow (C05)

Processes are numbered in a topological order. Per process `v` the state keeps how many tasks it has
created (`c v`: one per set of items received, one item from every in-port), how many it has fully
forwarded (`f v`: the task is finished, it has been dequeued from the head of the started-queue and one
item was sent on every out-port) and whether its `Run` has returned (`term v`: out-ports closed).
The number of items in the channel of the connection `u → v` is `f u - c v`, so channels need no state
of their own.

Steps (`step`):
* `create v`   — `createTasks` reads one item from every in-port (all must hold one); a process without
  in-ports (a source) emits `src v` items;
* `forward v`  — the oldest started task is done and every out-port's channel has room (`< B` items).
  That a started task always finishes is the slot theorem (C07) and the task model (C01/C09);
* `terminate v`— nothing is in flight and, for a source, everything was emitted, otherwise **some**
  in-port is closed and drained (this is what `createTasks` does: it stops at the first closed port).
-/
namespace SciVerif.Net

structure Net (n : Nat) where
  ins : Fin n → List (Fin n)   -- the upstream process of each in-port
  src : Fin n → Nat            -- items emitted by a process without in-ports
  B   : Nat                    -- channel capacity (`SCIPIPE_BUFSIZE`)

structure NSt (n : Nat) where
  c    : Fin n → Nat
  f    : Fin n → Nat
  term : Fin n → Bool

inductive Lbl (n : Nat) where
  | create (v : Fin n)
  | forward (v : Fin n)
  | terminate (v : Fin n)
deriving DecidableEq

def upd {n : Nat} {α : Type} (g : Fin n → α) (v : Fin n) (x : α) : Fin n → α := fun w => if w = v then x else g w

/-- the consumers of `v`'s out-ports -/
def outs {n : Nat} (net : Net n) (v : Fin n) : List (Fin n) := (List.finRange n).filter fun w => (net.ins w).contains v

def canCreate {n : Nat} (net : Net n) (s : NSt n) (v : Fin n) : Bool :=
  !s.term v && (if (net.ins v).isEmpty then decide (s.c v < net.src v) else (net.ins v).all fun u => decide (s.c v < s.f u))

def canForward {n : Nat} (net : Net n) (s : NSt n) (v : Fin n) : Bool :=
  decide (s.f v < s.c v) && (outs net v).all fun w => decide (s.f v < s.c w + net.B)

def canTerm {n : Nat} (net : Net n) (s : NSt n) (v : Fin n) : Bool :=
  !s.term v && s.c v == s.f v &&
    (if (net.ins v).isEmpty then s.c v == net.src v else (net.ins v).any fun u => s.term u && s.f u == s.c v)

def step {n : Nat} (net : Net n) (s : NSt n) : Lbl n → Option (NSt n)
  | .create v => if canCreate net s v then some { s with c := upd s.c v (s.c v + 1) } else none
  | .forward v => if canForward net s v then some { s with f := upd s.f v (s.f v + 1) } else none
  | .terminate v => if canTerm net s v then some { s with term := upd s.term v true } else none

def init (n : Nat) : NSt n := { c := fun _ => 0, f := fun _ => 0, term := fun _ => false }

def run {n : Nat} (net : Net n) : NSt n → List (Lbl n) → Option (NSt n)
  | s, [] => some s
  | s, l :: ls => match step net s l with | none => none | some s' => run net s' ls

/-- nothing can move -/
def stuck {n : Nat} (net : Net n) (s : NSt n) : Prop := ∀ l, step net s l = none

def allLbls (n : Nat) : List (Lbl n) :=
  (List.finRange n).flatMap fun v => [.create v, .forward v, .terminate v]

/-- executable version of `stuck` -/
def stuckB {n : Nat} (net : Net n) (s : NSt n) : Bool := (allLbls n).all fun l => (step net s l).isNone

/-! ### whole-stream readers

`ParamCombinator`, `FileCombinator` (and `Concatenator`, `StreamToSubStream`) read their in-ports to the end
before they emit anything. `batch v = true` marks such a process: it forwards only when every upstream has
returned and its ports are drained. The theorems of C05 are about networks without such processes
(`stepB_nobatch`); with one of them inside a fan-out that reconverges, a balanced network can deadlock
(`Props/C05.c05_network_batch_deadlocks`, finding F23). -/

def canForwardB {n : Nat} (net : Net n) (batch : Fin n → Bool) (s : NSt n) (v : Fin n) : Bool :=
  canForward net s v && (!batch v || (net.ins v).all fun u => s.term u && s.f u == s.c v)

def stepB {n : Nat} (net : Net n) (batch : Fin n → Bool) (s : NSt n) : Lbl n → Option (NSt n)
  | .forward v => if canForwardB net batch s v then some { s with f := upd s.f v (s.f v + 1) } else none
  | l => step net s l

def runB {n : Nat} (net : Net n) (batch : Fin n → Bool) : NSt n → List (Lbl n) → Option (NSt n)
  | s, [] => some s
  | s, l :: ls => match stepB net batch s l with | none => none | some s' => runB net batch s' ls

def stuckBB {n : Nat} (net : Net n) (batch : Fin n → Bool) (s : NSt n) : Bool :=
  (allLbls n).all fun l => (stepB net batch s l).isNone

theorem stepB_nobatch {n : Nat} (net : Net n) (batch : Fin n → Bool) (h : ∀ v, batch v = false) (s : NSt n)
    (l : Lbl n) : stepB net batch s l = step net s l := by
  cases l <;> simp [stepB, step, canForwardB, h]

def acyclic {n : Nat} (net : Net n) : Prop := ∀ v u, u ∈ net.ins v → u.val < v.val

/-- every stream has the same length `N` -/
def balanced {n : Nat} (net : Net n) (N : Nat) : Prop := ∀ v, (net.ins v).isEmpty = true → net.src v = N

end SciVerif.Net
