import SciVerif.Model.Str
/-!
# Command / path formatting and temp-dir naming (C14, C15, C18)

Models of `Task.formatCommand` (task.go), the path function installed by `Process.SetOut`, the
default path function (`initDefaultPathFuncs`), the port discovery of `initPortsFromCmdPattern`
and `Task.TempDir`. Go maps are association lists; where the Go code sorts keys the lists are
expected sorted (the harness sorts; C14's theorems are about the sorted identity).
`none` = `Fail` (the workflow stops).
-/
namespace SciVerif.Fmt
open SciVerif.Str

def replaceAllT (pat rep s : S) : S := if h : pat = [] then s else replaceAll pat rep h s

structure PortInfo where
  typ      : S
  ext      : S
  doStream : Bool
  join     : Bool
  joinSep  : S
deriving DecidableEq, Repr

structure Env where
  portInfos : List (S × PortInfo)
  inPaths   : List (S × S)
  inStream  : List S              -- in-ports whose IP is a streaming (FIFO) IP
  subs      : List (S × List S)   -- joined in-port ↦ member paths in arrival order
  outPaths  : List (S × S)
  params    : List (S × S)
  tags      : List (S × S)
  prepend   : S
deriving Repr

def intercalate (sep : S) : List S → S
  | [] => []
  | [x] => x
  | x :: xs => x ++ sep ++ intercalate sep xs

def fifoSuffix : S := ['.', 'f', 'i', 'f', 'o']
def basenameS : S := modBasename

/-- `prependParentDirPath` indexes `path[0]`: on an empty path (a modifier chain that deletes
everything) the Go code panics, which ends the workflow like `Failf` does -/
def prependParent? (p : S) : Option S := if p = [] then none else some (prependParent p)

/-- replacement text for one placeholder; `none` = `Failf` (or a panic, see `prependParent?`) -/
def replacement (env : Env) (ph : PH) : Option S :=
  let name := ph.name
  let mods := ph.mods
  match env.portInfos.lookup name with
  | none => none          -- (nil dereference in Go; unreachable: infos come from the same pattern)
  | some info =>
    if info.typ = ['o'] then
      match env.outPaths.lookup name with
      | none => none
      | some p => some (encodeParent (applyPathModifiers (tempPath p) mods))
    else if info.typ = ['o', 's'] then
      match env.outPaths.lookup name with
      | none => none
      | some p =>
        let r := applyPathModifiers (p ++ fifoSuffix) mods
        if mods.contains basenameS then some r else prependParent? r
    else if info.typ = ['i'] then
      match env.inPaths.lookup name with
      | none => none
      | some p =>
        if info.join && info.joinSep ≠ [] then
          let members := (env.subs.lookup name).getD []
          let ms := members.map fun m => applyPathModifiers m mods
          if ms.any (· == []) then none else some (intercalate info.joinSep (ms.map prependParent))
        else if p = [] then none
        else
          let base := if env.inStream.contains name then p ++ fifoSuffix else p
          let r := applyPathModifiers base mods
          if mods.contains basenameS then some r else prependParent? r
    else if info.typ = ['p'] then
      match env.params.lookup name with
      | none => none
      | some v => if v = [] then none else some (applyPathModifiers v mods)
    else if info.typ = ['t'] then
      match env.tags.lookup name with
      | none => none
      | some v => if v = [] then none else some (applyPathModifiers v mods)
    else none

/-- the loop of `formatCommand`: placeholders in match order, each replaced globally -/
def fmtLoop (env : Env) : List PH → S → Option S
  | [], cmd => some cmd
  | ph :: rest, cmd =>
    match replacement env ph with
    | none => none
    | some r => fmtLoop env rest (replaceAllT ph.full r cmd)

def formatCommand (cmd : S) (env : Env) : Option S :=
  match fmtLoop env (placeholders cmd) cmd with
  | none => none
  | some c => some (if env.prepend = [] then c else env.prepend ++ [' '] ++ c)

/-- single-pass specification: every placeholder token replaced by its own expansion -/
def fmtSpec (env : Env) : List Tok → Option S
  | [] => some []
  | .lit c :: rest => (fmtSpec env rest).map (c :: ·)
  | .ph p :: rest =>
    match replacement env p, fmtSpec env rest with
    | some r, some tl => some (r ++ tl)
    | _, _ => none

/-! ## `SetOut` path patterns -/

structure PathEnv where
  inPaths : List (S × S)
  params  : List (S × S)
  tags    : List (S × S)
  outFuncs : List (S × S)   -- already evaluated path functions of other out-ports ({o:..} in a path pattern)

def pathReplacement (env : PathEnv) (ph : PH) : Option S :=
  let name := ph.name
  let base : Option S :=
    if ph.typ = ['i'] then env.inPaths.lookup name
    else if ph.typ = ['o'] then env.outFuncs.lookup name
    else if ph.typ = ['p'] then env.params.lookup name
    else if ph.typ = ['t'] then env.tags.lookup name
    else none
  base.map fun b => if ph.mods = [] then b else applyPathModifiers b ph.mods

def pathLoop (env : PathEnv) : List PH → S → Option S
  | [], p => some p
  | ph :: rest, p =>
    match pathReplacement env ph with
    | none => none
    | some r => pathLoop env rest (replaceAllT ph.full r p)

def setOutPath (pattern : S) (env : PathEnv) : Option S := pathLoop env (placeholders pattern) pattern

/-- `filepath.Base` on non-empty paths without trailing slash -/
def base (p : S) : S := afterLast '/' p

def kv (k v : S) : S := k ++ ['_'] ++ v

/-- default path function: pieces joined with "." -/
def defaultPath (procName outName ext : S) (inPaths params tags : List (S × S)) : S :=
  let pcs := inPaths.map (fun (_, p) => base p) ++ [sanitize procName] ++
    params.map (fun (k, v) => kv k v) ++ tags.map (fun (k, v) => kv k v) ++ [outName] ++
    (if ext = [] then [] else [ext])
  intercalate ['.'] pcs

/-! ## port discovery (`initPortsFromCmdPattern`) -/

def isExtChar (c : Char) : Bool := (c.val ≥ 97 && c.val ≤ 122) || c.isDigit || c = '.' || c = '-' || c = '_'

/-- leftmost match of `\.([a-z0-9\.\-\_]+)` : group 1 -/
def extMatch : S → Option S
  | [] => none
  | c :: cs =>
    if c = '.' && (match cs with | d :: _ => isExtChar d | [] => false) then some (cs.takeWhile isExtChar)
    else extMatch cs

def joinPrefix : S := ['j', 'o', 'i', 'n', ':']
def isJoinChar (c : Char) : Bool := c != '{' && c != '}' && c != '|'

/-- leftmost match of `join:([^{}|]+)` : group 1 -/
def joinMatch : S → Option S
  | [] => none
  | c :: cs =>
    match stripPrefix? joinPrefix (c :: cs) with
    | some r => if (match r with | d :: _ => isJoinChar d | [] => false) then some (r.takeWhile isJoinChar) else joinMatch cs
    | none => joinMatch cs

def portInfoOf (ph : PH) : PortInfo :=
  let init : PortInfo := { typ := ph.typ, ext := [], doStream := ph.typ = ['o', 's'], join := false, joinSep := [] }
  ph.mods.foldl (fun info part =>
    let info := match extMatch part with | some e => { info with ext := e } | none => info
    match joinMatch part with | some sep => { info with join := true, joinSep := sep } | none => info) init

/-- later placeholders with the same name overwrite earlier ones (Go map assignment) -/
def discoverPorts (cmd : S) : List (S × PortInfo) :=
  (placeholders cmd).foldl (fun acc ph => (acc.filter fun (n, _) => n ≠ ph.name) ++ [(ph.name, portInfoOf ph)]) []

/-! ## `Task.TempDir` -/

structure Identity where
  name   : S
  ins    : List (S × S)            -- sorted by port name
  subs   : List (S × List S)       -- sorted by port name; members in arrival order
  params : List (S × S)            -- sorted
  tags   : List (S × S)            -- sorted
deriving DecidableEq, Repr

def tempDirPrefix : S := ['_', 's', 'c', 'i', 'p', 'i', 'p', 'e', '_', 't', 'm', 'p']

def concat (l : List S) : S := l.foldr (· ++ ·) []

/-- in-ports that carry a sub-stream (joined ports): their carrier IP's path is not hashed -/
def isJoined (id : Identity) (port : S) : Bool := id.subs.any (·.1 = port)

def hashPieces (id : Identity) : List S :=
  [id.name] ++ (id.ins.filter fun (k, _) => !isJoined id k).flatMap (fun (_, p) => splitAllPaths p) ++
  id.subs.flatMap (fun (_, ms) => ms.flatMap splitAllPaths) ++
  id.params.map (fun (k, v) => kv k v) ++ id.tags.map (fun (k, v) => kv k v)

def longPrefix (id : Identity) : Bool := (tempDirPrefix ++ ['.'] ++ sanitize id.name).length > 255 - 40 - 1

def pathPrefix (id : Identity) : S :=
  if longPrefix id then tempDirPrefix else tempDirPrefix ++ ['.'] ++ sanitize id.name

/-- the string that is hashed -/
def preimage (id : Identity) : S :=
  concat (hashPieces id ++ (if longPrefix id then [tempDirPrefix ++ ['.'] ++ sanitize id.name] else []))

/-- `H` stands for hex(SHA-1(·)) -/
def tempDir (H : S → S) (id : Identity) : S := pathPrefix id ++ ['.'] ++ H (preimage id)

end SciVerif.Fmt
