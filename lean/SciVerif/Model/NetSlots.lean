import SciVerif.Model.Net
/-!
# The network counting model with task execution and slots (C05 ∘ C07)

`Model/Net.lean` lets a created task be forwarded at once. Here every started task goes through
`waiting → running → done`: it needs `cores v` of the workflow's `max` slots to run, takes them in one
atomic step (that the real acquisition — token by token under a mutex — behaves like this is C07's
theorem), gives them back when its command has finished, and only then offers `Done`; the main loop
forwards the *head* of its queue, and only when that head is done (C08). Slots are released before `Done`
is offered (Tie A: finalize < release < Done), so a task that waits to be forwarded holds no slot.
-/
namespace SciVerif.Net

inductive Ph where
  | waiting | running | done
deriving DecidableEq, Repr

structure SNet (n : Nat) where
  net   : Net n
  cores : Fin n → Nat
  max   : Nat

structure SSt (n : Nat) where
  base : NSt n
  q    : Fin n → List Ph      -- the started queue of each process: tasks number f v … c v − 1, head first

inductive SLbl (n : Nat) where
  | create (v : Fin n)
  | start (v : Fin n) (i : Nat)
  | finish (v : Fin n) (i : Nat)
  | forward (v : Fin n)
  | terminate (v : Fin n)

def running {n : Nat} (s : SSt n) (v : Fin n) : Nat := (s.q v).count .running

/-- slots in use -/
def used {n : Nat} (sn : SNet n) (s : SSt n) : Nat :=
  ((List.finRange n).map fun v => sn.cores v * running s v).sum

def roomAll {n : Nat} (net : Net n) (b : NSt n) (v : Fin n) : Bool :=
  (outs net v).all fun w => decide (b.f v < b.c w + net.B)

def sstep {n : Nat} (sn : SNet n) (s : SSt n) : SLbl n → Option (SSt n)
  | .create v =>
    if canCreate sn.net s.base v then
      some { base := { s.base with c := upd s.base.c v (s.base.c v + 1) }, q := upd s.q v (s.q v ++ [.waiting]) }
    else none
  | .start v i =>
    if (s.q v)[i]? = some .waiting ∧ used sn s + sn.cores v ≤ sn.max then
      some { s with q := upd s.q v ((s.q v).set i .running) }
    else none
  | .finish v i =>
    if (s.q v)[i]? = some .running then some { s with q := upd s.q v ((s.q v).set i .done) } else none
  | .forward v =>
    if (s.q v).head? = some .done ∧ roomAll sn.net s.base v = true then
      some { base := { s.base with f := upd s.base.f v (s.base.f v + 1) }, q := upd s.q v (s.q v).tail }
    else none
  | .terminate v =>
    if canTerm sn.net s.base v then some { s with base := { s.base with term := upd s.base.term v true } } else none

def sinit (n : Nat) : SSt n := { base := init n, q := fun _ => [] }

def srun {n : Nat} (sn : SNet n) : SSt n → List (SLbl n) → Option (SSt n)
  | s, [] => some s
  | s, l :: ls => match sstep sn s l with | none => none | some s' => srun sn s' ls

def sstuck {n : Nat} (sn : SNet n) (s : SSt n) : Prop := ∀ l, sstep sn s l = none

end SciVerif.Net
