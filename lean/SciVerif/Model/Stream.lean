/-!
# Streaming outputs: one producer / consumer pair and its FIFO (C17, protocol level)

What is logic in the FIFO hand-over: `Process.Run` creates the FIFO and sends the streaming IP
*before* it spawns the producing task; the consumer builds its task from that IP; the producer's
command blocks in `open(2)` until the consumer's command opens the pipe for reading; the consumer
reads until the producer closes; both then write their audit records; the producer's process
removes the FIFO after the task's Done. The kernel's pipe semantics (blocking open, byte
transport, EOF on last close) are assumptions, named in DESIGN.md.
-/
namespace SciVerif.Stream

inductive Prod where
  | notStarted | waitingOpen | writing | cmdDone | auditSet | done
deriving DecidableEq, Repr

inductive Cons where
  | noTask | created | skipped | reading | cmdDone | auditRead (linked : Bool) | done (linked : Bool)
deriving DecidableEq, Repr

structure St where
  fifo : Bool
  prod : Prod
  cons : Cons
deriving DecidableEq, Repr

inductive Label where
  | accept      -- producer's process: create FIFO, send the IP, spawn the task (its command starts)
  | create      -- consumer's process builds its task from the received IP
  | skip        -- consumer's outputs exist: the task signals Done without opening the pipe
  | connect     -- both commands have the pipe open
  | prodFinish  -- producer's command has written everything and exits (write end closed)
  | consFinish  -- consumer's command sees EOF and exits
  | prodAudit   -- producer's writeAuditLogs: SetAuditInfo on the streamed IP
  | consAudit   -- consumer's writeAuditLogs reads the streamed IP's record
  | prodDone    -- producer's Done received by its process: FIFO removed
  | consDone
deriving DecidableEq, Repr

def allLabels : List Label := [.accept, .create, .skip, .connect, .prodFinish, .consFinish, .prodAudit, .consAudit, .prodDone, .consDone]

def init : St := { fifo := false, prod := .notStarted, cons := .noTask }

def prodHasAudit (p : Prod) : Bool := p == .auditSet || p == .done

/-- `consOutputsExist`: the consumer's (non-streaming) outputs are already on disk (a re-run) -/
def step (consOutputsExist : Bool) (s : St) : Label → Option St
  | .accept => if s.prod == .notStarted then some { s with fifo := true, prod := .waitingOpen } else none
  | .create => if s.cons == .noTask && s.prod != .notStarted then some { s with cons := .created } else none
  | .skip => if s.cons == .created && consOutputsExist then some { s with cons := .skipped } else none
  | .connect => if s.prod == .waitingOpen && s.cons == .created && !consOutputsExist then some { s with prod := .writing, cons := .reading } else none
  | .prodFinish => if s.prod == .writing then some { s with prod := .cmdDone } else none
  | .consFinish => if s.cons == .reading && (s.prod != .writing) then some { s with cons := .cmdDone } else none
  | .prodAudit => if s.prod == .cmdDone then some { s with prod := .auditSet } else none
  | .consAudit => if s.cons == .cmdDone then some { s with cons := .auditRead (prodHasAudit s.prod) } else none
  | .prodDone => if s.prod == .auditSet then some { s with prod := .done, fifo := false } else none
  | .consDone => match s.cons with | .auditRead l => some { s with cons := .done l } | _ => none

def run (e : Bool) (s : St) : List Label → Option St
  | [] => some s
  | l :: ls => match step e s l with | none => none | some s' => run e s' ls

def succs (e : Bool) (s : St) : List St := allLabels.filterMap (step e s)

def isFinal (s : St) : Bool :=
  s.prod == .done && (match s.cons with | .done _ => true | .skipped => true | _ => false)

/-- breadth-first closure with fuel -/
def explore (e : Bool) : Nat → List St → List St
  | 0, seen => seen
  | n + 1, seen =>
    let next := (seen.flatMap (succs e)).filter fun s => !seen.contains s
    if next.isEmpty then seen else explore e n (seen ++ next.eraseDups)

end SciVerif.Stream
