/-!
# Audit records (C10, C11)

Model of `Task.writeAuditLogs` (task.go) and of how records travel: an IP's record is either set by
the task that produced the file, or lazily loaded from `<path>.audit.json` when the file is taken
from disk (`NewFileIP` / `FileIP.AuditInfo`), or a fresh empty record for files without an audit
file (workflow sources). Paths, process names, commands and values are opaque numbers.
The JSON round trip `decode (encode r) = r` is an assumption (validated by the harness).
-/
namespace SciVerif.Audit

structure Data where
  proc   : Nat
  cmd    : Nat
  params : List (Nat × Nat)
  tags   : List (Nat × Nat)
  outs   : List Nat
deriving DecidableEq, Repr

inductive AI where
  | node (d : Data) (ups : List (Nat × AI))

def AI.data : AI → Data | .node d _ => d
def AI.ups : AI → List (Nat × AI) | .node _ u => u

/-- `NewAuditInfo()`: what a file without audit file carries -/
def emptyRec : AI := .node ⟨0, 0, [], [], []⟩ []

structure TaskX where
  proc   : Nat
  cmd    : Nat
  params : List (Nat × Nat)
  ins    : List Nat        -- input paths (for a joined port: the members, not the carrier)
  outs   : List Nat
deriving DecidableEq, Repr

/-- path ↦ the record attached to the file (in memory or in its audit file) -/
abbrev Store := Nat → Option AI

def recOf (st : Store) (p : Nat) : AI := (st p).getD emptyRec

/-- `AddTags` over all inputs' tags, first value wins (a conflicting second value makes scipipe fail) -/
def mergeTags (tss : List (List (Nat × Nat))) : List (Nat × Nat) :=
  tss.flatten.foldl (fun acc kv => if acc.any (·.1 = kv.1) then acc else acc ++ [kv]) []

/-- the record `writeAuditLogs` builds and attaches to every out-IP of the task -/
def build (t : TaskX) (st : Store) : AI :=
  .node ⟨t.proc, t.cmd, t.params, mergeTags (t.ins.map fun p => (recOf st p).data.tags), t.outs⟩
        (t.ins.map fun p => (p, recOf st p))

def exec (st : Store) (t : TaskX) : Store :=
  fun p => if p ∈ t.outs then some (build t st) else st p

def run (st : Store) (ts : List TaskX) : Store := ts.foldl exec st

/-- a task is skipped when one of its outputs already has a file (C02); existence = in the store -/
def execSkip (st : Store) (t : TaskX) : Store :=
  if t.outs.any (fun p => (st p).isSome) then st else exec st t

def runSkip (st : Store) (ts : List TaskX) : Store := ts.foldl execSkip st

/-- `small` occurs in `big` as a (not necessarily proper) sub-record reachable through Upstream -/
inductive Contains : AI → AI → Prop
  | refl (a : AI) : Contains a a
  | step {d : Data} {ups : List (Nat × AI)} {p : Nat} {u small : AI} :
      (p, u) ∈ ups → Contains u small → Contains (.node d ups) small

end SciVerif.Audit
