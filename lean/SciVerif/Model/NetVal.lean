import SciVerif.Model.Net
/-!
# The network model with values (C04 ∘ C08 ∘ C05): what a workflow computes

`Model/Net.lean` counts items. Here every item carries a value of an arbitrary type `α` (a file with its
content, a parameter value, a free term …). The `k`-th item a source `v` emits is `srcv v k`; a task of a
process `v` is a function `g v` of the items it received, one from every in-port (scipipe tasks are shell
commands of their inputs: that the result does not depend on anything else is the assumption recorded in
DESIGN.md). The state keeps, per process, the results of all tasks created so far in creation order; the
first `f v` of them have been sent downstream (outputs leave in creation order: C08), the consumer's
`k`-th task reads the `k`-th item sent on each of its in-ports (channels are FIFO, every item is delivered
exactly once: C04), and a task can only be created from items that have been sent (`canCreate`).

`den` is the *zip semantics*: the `k`-th task of `v` is `g v` of the `k`-th tasks of its upstream processes.
`Props/C04.lean` proves that every task any schedule ever creates is the one `den` prescribes.
-/
namespace SciVerif.Net

structure VNet (n : Nat) (α : Type) where
  net  : Net n
  srcv : Fin n → Nat → α
  g    : Fin n → List α → α

structure VSt (n : Nat) (α : Type) where
  base  : NSt n
  tasks : Fin n → List α      -- results of the tasks created so far, in creation order

variable {n : Nat} {α : Type}

/-- what `v` has sent downstream so far -/
def sent (s : VSt n α) (v : Fin n) : List α := (s.tasks v).take (s.base.f v)

/-- the task `createTasks` builds next: from the items number `c v` sent by every upstream process -/
def newTask (vn : VNet n α) (s : VSt n α) (v : Fin n) : α :=
  if (vn.net.ins v).isEmpty then vn.srcv v (s.base.c v)
  else vn.g v ((vn.net.ins v).filterMap fun u => (sent s u)[s.base.c v]?)

def vstep (vn : VNet n α) (s : VSt n α) : Lbl n → Option (VSt n α)
  | .create v =>
    if canCreate vn.net s.base v then
      some { base := { s.base with c := upd s.base.c v (s.base.c v + 1) },
             tasks := upd s.tasks v (s.tasks v ++ [newTask vn s v]) }
    else none
  | .forward v => (step vn.net s.base (.forward v)).map fun b => { s with base := b }
  | .terminate v => (step vn.net s.base (.terminate v)).map fun b => { s with base := b }

def vinit (n : Nat) (α : Type) : VSt n α := { base := init n, tasks := fun _ => [] }

def vrun (vn : VNet n α) : VSt n α → List (Lbl n) → Option (VSt n α)
  | s, [] => some s
  | s, l :: ls => match vstep vn s l with | none => none | some s' => vrun vn s' ls

def vstuck (vn : VNet n α) (s : VSt n α) : Prop := ∀ l, vstep vn s l = none

/-- zip semantics, by recursion on a depth bound (`n` suffices for an acyclic network of `n` processes) -/
def den [Inhabited α] (vn : VNet n α) : Nat → Fin n → Nat → α
  | 0, _, _ => default
  | d + 1, v, k =>
    if (vn.net.ins v).isEmpty then vn.srcv v k else vn.g v ((vn.net.ins v).map fun u => den vn d u k)

end SciVerif.Net
