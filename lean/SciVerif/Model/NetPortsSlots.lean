import SciVerif.Model.NetPorts
import SciVerif.Model.NetSlots
/-!
# Channel operations and task slots together (C05 ∘ C07 at the granularity of `Model/NetPorts.lean`)

`Model/NetPorts.lean` lets a created task be sent on at once. Here, as in `Model/NetSlots.lean`, every started task
goes through `waiting → running → done`, needs `cores v` of the workflow's `max` slots to run, and only the *head*
of a process's queue, once done, is sent on — connection by connection — and then leaves the queue.
-/
namespace SciVerif.NetPorts
open SciVerif.Net

structure PSt (n : Nat) where
  base : FSt n
  q    : Fin n → List Ph

inductive PLbl (n : Nat) where
  | recv (w : Fin n) (i : Nat)
  | create (v : Fin n)
  | start (v : Fin n) (i : Nat)
  | finish (v : Fin n) (i : Nat)
  | send (w : Fin n) (i : Nat)
  | forward (v : Fin n)
  | terminate (v : Fin n)

def prunning {n : Nat} (s : PSt n) (v : Fin n) : Nat := (s.q v).count .running

def pused {n : Nat} (sn : SNet n) (s : PSt n) : Nat :=
  ((List.finRange n).map fun v => sn.cores v * prunning s v).sum

/-- the head of the sender's queue is done -/
def headDone {n : Nat} (sn : SNet n) (s : PSt n) (w : Fin n) (i : Nat) : Prop :=
  match sender sn.net w i with
  | some v => (s.q v).head? = some .done
  | none => False

instance {n : Nat} (sn : SNet n) (s : PSt n) (w : Fin n) (i : Nat) : Decidable (headDone sn s w i) := by
  unfold headDone; split <;> exact inferInstance

def pstep {n : Nat} (sn : SNet n) (s : PSt n) : PLbl n → Option (PSt n)
  | .recv w i => (fstep sn.net s.base (.recv w i)).map fun b => { s with base := b }
  | .create v =>
    (fstep sn.net s.base (.create v)).map fun b => { base := b, q := upd s.q v (s.q v ++ [.waiting]) }
  | .start v i =>
    if (s.q v)[i]? = some .waiting ∧ pused sn s + sn.cores v ≤ sn.max then
      some { s with q := upd s.q v ((s.q v).set i .running) }
    else none
  | .finish v i =>
    if (s.q v)[i]? = some .running then some { s with q := upd s.q v ((s.q v).set i .done) } else none
  | .send w i =>
    if headDone sn s w i then (fstep sn.net s.base (.send w i)).map fun b => { s with base := b } else none
  | .forward v =>
    if (s.q v).head? = some .done then
      (fstep sn.net s.base (.forward v)).map fun b => { base := b, q := upd s.q v (s.q v).tail }
    else none
  | .terminate v => (fstep sn.net s.base (.terminate v)).map fun b => { s with base := b }

def pinit (n : Nat) : PSt n := { base := finit n, q := fun _ => [] }

def prun {n : Nat} (sn : SNet n) : PSt n → List (PLbl n) → Option (PSt n)
  | s, [] => some s
  | s, l :: ls => match pstep sn s l with | none => none | some s' => prun sn s' ls

def pstuck {n : Nat} (sn : SNet n) (s : PSt n) : Prop := ∀ l, pstep sn s l = none

end SciVerif.NetPorts
