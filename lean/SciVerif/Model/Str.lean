/-!
# Pure string machinery (C13, C14, C15, C18)

Strings are `List Char`. One Lean function per Go function / regex literal used by scipipe:
`strings.ReplaceAll`/`Replace(..,1)`, the placeholder regex, `applyPathModifiers`' four regexes,
`sanitizePathFragment`, `pathIsValid`, `TempPath`, `splitAllPaths` (on clean paths),
`prependParentDirPath`. The regex literals themselves are checked against the source by Tie A.
-/
namespace SciVerif.Str

abbrev S := List Char

def stripPrefix? : S → S → Option S
  | [], s => some s
  | _ :: _, [] => none
  | p :: ps, c :: cs => if p = c then stripPrefix? ps cs else none

theorem stripPrefix?_length {pat s r : S} (h : stripPrefix? pat s = some r) :
    r.length + pat.length = s.length := by
  induction pat generalizing s with
  | nil => simp [stripPrefix?] at h; subst h; simp
  | cons p ps ih =>
    cases s with
    | nil => simp [stripPrefix?] at h
    | cons c cs =>
      simp [stripPrefix?] at h
      have := ih h.2
      simp; omega

/-- Go `strings.ReplaceAll(s, pat, rep)` for a non-empty `pat` (leftmost, non-overlapping), by
structural recursion on a fuel argument (`s.length` suffices: every step consumes a character) -/
def replaceAllF (pat rep : S) : Nat → S → S
  | 0, s => s
  | _ + 1, [] => []
  | n + 1, c :: cs =>
    match stripPrefix? pat (c :: cs) with
    | some rest => rep ++ replaceAllF pat rep n rest
    | none => c :: replaceAllF pat rep n cs

def replaceAll (pat rep : S) (_hp : pat ≠ []) (s : S) : S := replaceAllF pat rep s.length s

/-- Go `strings.Replace(s, pat, rep, 1)` for a non-empty `pat` -/
def replaceFirst (pat rep : S) : S → S
  | [] => []
  | c :: cs =>
    match stripPrefix? pat (c :: cs) with
    | some rest => rep ++ rest
    | none => c :: replaceFirst pat rep cs

/-- general `strings.Replace(s, pat, rep, 1)` including the empty pattern (inserts at the front) -/
def goReplace1 (pat rep s : S) : S := if pat = [] then rep ++ s else replaceFirst pat rep s

def parentTok : S := ['.', '.', '/']
def parentPH : S := ['_', '_', 'p', 'a', 'r', 'e', 'n', 't', '_', '_']
def fsrootPH : S := ['_', '_', 'f', 's', 'r', 'o', 'o', 't', '_', '_']

/-- `replaceParentDirsWithPlaceholder` -/
def encodeParent (s : S) : S := replaceAll parentTok parentPH (by decide) s
/-- `replacePlaceholdersWithParentDirs` -/
def decodeParent (s : S) : S := replaceAll parentPH parentTok (by decide) s

/-- `FileIP.TempPath` (the real code indexes `path[0]`: an empty path panics; `NewFileIP` rejects it) -/
def tempPath (p : S) : S :=
  let q := encodeParent p
  match q with
  | '/' :: _ => fsrootPH ++ q
  | _ => q

/-- decoding of a path relative to the temp dir in `FinalizePaths` (extra files) -/
def decodeExtra (rel : S) : S := decodeParent (goReplace1 (fsrootPH ++ ['/']) ['/'] rel)

/-- `prependParentDirPath` (non-empty paths) -/
def prependParent (p : S) : S :=
  match p with
  | '/' :: _ => p
  | _ => parentTok ++ p

/-! ## validators -/

def validPathChar (c : Char) : Bool :=
  c.isDigit || c.isAlpha && c.val < 128 || c = '/' || c = '.' || c = '-' || c = '_'

/-- `pathIsValid`: `^[0-9A-Za-z\/\.\-_]+$` -/
def pathIsValid (p : S) : Bool := !p.isEmpty && p.all validPathChar

def sanitizeOk (c : Char) : Bool :=
  (c.val ≥ 97 && c.val ≤ 122) || c.isDigit || c = '_' || c = '-' || c = '.'

def asciiLower (c : Char) : Char := if c.val ≥ 65 && c.val ≤ 90 then Char.ofNat (c.val.toNat + 32) else c

/-- `ReplaceAllString("[^a-z0-9_\-\.]+", "_")` on an already lower-cased string -/
def squash : S → Bool → S
  | [], _ => []
  | c :: cs, inRun =>
    if sanitizeOk c then c :: squash cs false
    else if inRun then squash cs true else '_' :: squash cs true

/-- `sanitizePathFragment` for ASCII names -/
def sanitize (s : S) : S := squash (s.map asciiLower) false

/-! ## path splitting (clean paths) -/

/-- split on '/' dropping empty segments -/
def segments : S → S → List S
  | [], cur => if cur = [] then [] else [cur]
  | c :: cs, cur =>
    if c = '/' then (if cur = [] then segments cs [] else cur :: segments cs [])
    else segments cs (cur ++ [c])

/-- `splitAllPaths` on a clean path (no `.` segment, no `//`, `..` only leading, no trailing `/`):
the list of its segments -/
def splitAllPaths (p : S) : List S := segments p []

/-- the loop of Go's `splitAllPaths` on a clean relative (`abs = false`) or absolute path, given as its
segment list deepest segment first (`file :: up` means `Base = file`, `Dir = up`). `stopEq = true` is the
former stop condition `dir == file` (F22), `false` the current one (`file` is `.` or `/`, i.e. no segment
is left). For a relative path `Dir` as a string equals `Base` exactly when one segment equal to `file`
is left above it; for an absolute path `Dir` starts with `/` and never equals a segment. -/
def splitWalk (stopEq abs : Bool) : List S → List S → List S
  | [], parts => parts
  | file :: up, parts =>
    if stopEq && !abs && up == [file] then parts else splitWalk stopEq abs up (file :: parts)

/-! ## `applyPathModifiers` -/

/-- what is left after the last `d` (everything if there is none) — `.*\/` replaced by "" -/
def afterLast (d : Char) : S → S
  | [] => []
  | c :: cs => if cs.contains d then afterLast d cs else if c = d then cs else c :: cs

/-- the part before the last `d` (everything if there is none) — `\/[^\/]*$` replaced by "" -/
def beforeLast (d : Char) : S → S
  | [] => []
  | c :: cs => if cs.contains d then c :: beforeLast d cs else if c = d then [] else c :: cs

def takeNoSlash : S → S
  | [] => []
  | c :: cs => if c = '/' then [] else c :: takeNoSlash cs

def dropNoSlash : S → S
  | [] => []
  | c :: cs => if c = '/' then c :: cs else dropNoSlash cs

/-- leftmost match of `s\/([^\/]+)\/([^\/]*)\/` : the two groups -/
def substMatch : S → Option (S × S)
  | [] => none
  | c :: cs =>
    let here : Option (S × S) :=
      if c = 's' then
        match cs with
        | '/' :: r =>
          let x := takeNoSlash r
          match dropNoSlash r with
          | '/' :: r2 =>
            if x = [] then none else
            let y := takeNoSlash r2
            match dropNoSlash r2 with
            | '/' :: _ => some (x, y)
            | _ => none
          | _ => none
        | _ => none
      else none
    match here with
    | some m => some m
    | none => substMatch cs

/-- leftmost match of `%(.*)` (no newlines): the text after the first '%' -/
def trimMatch : S → Option S
  | [] => none
  | c :: cs => if c = '%' then some cs else trimMatch cs

def isSuffixB (suf s : S) : Bool := suf.length ≤ s.length && s.drop (s.length - suf.length) == suf

def modBasename : S := ['b', 'a', 's', 'e', 'n', 'a', 'm', 'e']
def modDirname : S := ['d', 'i', 'r', 'n', 'a', 'm', 'e']

def applyModifier (path m : S) : S :=
  let r1 := match substMatch m with
    | some (x, y) => replaceFirst x y path
    | none => path
  let r2 := match trimMatch m with
    | some e => if r1.length > e.length && isSuffixB e r1 then r1.take (r1.length - e.length) else r1
    | none => r1
  if m = modBasename then afterLast '/' r2
  else if m = modDirname then beforeLast '/' r2
  else r2

def applyPathModifiers (path : S) (mods : List S) : S := mods.foldl applyModifier path

/-! ## the placeholder regex `{(o|os|i|is|p|t):([^{}]+)}` -/

structure PH where
  full : S      -- the whole match, braces included
  typ  : S
  rest : S      -- `name|mod|mod...`
deriving DecidableEq, Repr

def notBrace (c : Char) : Bool := c != '{' && c != '}'

def takeWhileNB : S → S
  | [] => []
  | c :: cs => if notBrace c then c :: takeWhileNB cs else []

def dropWhileNB : S → S
  | [] => []
  | c :: cs => if notBrace c then dropWhileNB cs else c :: cs

def phTypes : List S := [['o'], ['o', 's'], ['i'], ['i', 's'], ['p'], ['t']]

/-- try to match a placeholder at the head of the string (which starts after the '{') -/
def matchAfterBrace (s : S) : Option (PH × S) :=
  phTypes.findSome? fun t =>
    match stripPrefix? (t ++ [':']) s with
    | none => none
    | some r =>
      let body := takeWhileNB r
      match dropWhileNB r with
      | '}' :: after => if body = [] then none else some (⟨'{' :: (t ++ [':'] ++ body ++ ['}']), t, body⟩, after)
      | _ => none

theorem dropWhileNB_length (s : S) : (dropWhileNB s).length ≤ s.length := by
  induction s with
  | nil => simp [dropWhileNB]
  | cons c cs ih => simp only [dropWhileNB]; split <;> simp <;> omega

theorem stripPrefix?_length_le {pat s r : S} (h : stripPrefix? pat s = some r) : r.length ≤ s.length := by
  have := stripPrefix?_length h; omega

theorem matchAfterBrace_length {s : S} {ph : PH} {after : S} (h : matchAfterBrace s = some (ph, after)) :
    after.length < s.length := by
  unfold matchAfterBrace at h
  rw [List.findSome?_eq_some_iff] at h
  obtain ⟨_, t, _, _, h, _⟩ := h
  split at h
  · simp at h
  · rename_i r hr
    have h1 := stripPrefix?_length hr
    have h2 := dropWhileNB_length r
    split at h
    · rename_i after' hd
      simp only at h
      split at h
      · simp at h
      · simp at h
        obtain ⟨_, rfl⟩ := h
        have : (dropWhileNB r).length = after'.length + 1 := by rw [hd]; simp
        simp at h1; omega
    · simp at h

/-- tokenisation of a pattern into literal chunks and placeholders: `FindAllStringSubmatch` -/
inductive Tok where
  | lit (c : Char)
  | ph (p : PH)
deriving DecidableEq, Repr

def tokenizeF : Nat → S → List Tok
  | 0, _ => []
  | _ + 1, [] => []
  | n + 1, c :: cs =>
    if c = '{' then
      match matchAfterBrace cs with
      | some (ph, after) => .ph ph :: tokenizeF n after
      | none => .lit c :: tokenizeF n cs
    else .lit c :: tokenizeF n cs

def tokenize (s : S) : List Tok := tokenizeF s.length s

def placeholders (s : S) : List PH := (tokenize s).filterMap fun t => match t with | .ph p => some p | _ => none

/-- `strings.Split(rest, "|")` -/
def splitBar : S → S → List S
  | [], cur => [cur]
  | c :: cs, cur => if c = '|' then cur :: splitBar cs [] else splitBar cs (cur ++ [c])

def PH.name (p : PH) : S := (splitBar p.rest []).head!
def PH.mods (p : PH) : List S := (splitBar p.rest []).tail

end SciVerif.Str
