/-!
# Slot semaphore + acquisition mutex (C06, C07)

Model of `Workflow.IncConcurrentTasks` / `DecConcurrentTasks` (workflow.go) as used by
`Task.Execute` (task.go): a buffered channel of capacity `max` holds one token per occupied
slot; a task deposits `cores` tokens one by one while holding `concurrentTasksMx`, runs, then
takes `cores` tokens back without any lock.

The model is parametric in `SlotSem`, which Tie A regenerates from the Go source.
Nondeterminism (goroutine interleaving) is only in the choice of the task index that steps.
-/
namespace SciVerif.Slots

/-- What Tie A extracts from `IncConcurrentTasks`. -/
structure SlotSem where
  /-- the deposit loop is bracketed by `concurrentTasksMx.Lock()/Unlock()` -/
  locked : Bool
deriving DecidableEq, Repr

inductive Ph where
  | idle            -- created, not yet asked for slots
  | acq (k : Nat)   -- inside IncConcurrentTasks (holding the mutex when `locked`), k tokens deposited
  | run             -- command executing, holds `cores` tokens
  | rel (k : Nat)   -- inside DecConcurrentTasks, still holds k tokens
  | done
deriving DecidableEq, Repr

structure Task where
  cores : Nat
  ph    : Ph
deriving DecidableEq, Repr

structure St where
  max    : Nat
  tasks  : List Task
deriving Repr

def held (t : Task) : Nat :=
  match t.ph with
  | .idle => 0 | .acq k => k | .run => t.cores | .rel k => k | .done => 0

def tokens (ts : List Task) : Nat := (ts.map held).sum

def isAcq (t : Task) : Bool := match t.ph with | .acq _ => true | _ => false
def isBusy (t : Task) : Bool := match t.ph with | .run => true | .rel _ => true | _ => false
def isIdle (t : Task) : Bool := match t.ph with | .idle => true | _ => false
def isDone (t : Task) : Bool := match t.ph with | .done => true | _ => false
def isRun (t : Task) : Bool := match t.ph with | .run => true | _ => false

def lockHeld (ts : List Task) : Bool := ts.any isAcq

/-- one step of task `t` given the rest of the system (tokens held by others, lock held by others) -/
def stepTask (sem : SlotSem) (max othersTokens : Nat) (othersLock : Bool) (t : Task) : Option Task :=
  match t.ph with
  | .idle => if sem.locked && othersLock then none else
      if t.cores = 0 then some { t with ph := .run } else some { t with ph := .acq 0 }
  | .acq k =>
      if othersTokens + k < max then
        (if k + 1 = t.cores then some { t with ph := .run } else some { t with ph := .acq (k+1) })
      else none
  | .run => some { t with ph := if t.cores = 0 then .done else .rel t.cores }
  | .rel k => some { t with ph := if k ≤ 1 then .done else .rel (k-1) }
  | .done => none

/-- step task number i -/
def step (sem : SlotSem) (s : St) (i : Nat) : Option St :=
  match s.tasks[i]? with
  | none => none
  | some t =>
    let others := s.tasks.eraseIdx i
    match stepTask sem s.max (tokens others) (lockHeld others) t with
    | none => none
    | some t' => some { s with tasks := s.tasks.set i t' }

/-- run a schedule (list of task indices); `none` if some step is not enabled -/
def run (sem : SlotSem) (s : St) : List Nat → Option St
  | [] => some s
  | i :: is => match step sem s i with | none => none | some s' => run sem s' is

def init (max : Nat) (cores : List Nat) : St :=
  { max := max, tasks := cores.map fun c => { cores := c, ph := .idle } }

def wfTask (t : Task) : Prop :=
  match t.ph with
  | .acq k => k < t.cores
  | .rel k => 0 < k ∧ k ≤ t.cores
  | _ => True

instance (t : Task) : Decidable (wfTask t) := by
  unfold wfTask; cases t.ph <;> infer_instance

/-- sum of `cores` over tasks whose command is executing -/
def running (ts : List Task) : Nat :=
  (ts.map fun t => if isRun t then t.cores else 0).sum

/-- mutual exclusion: at most one task is inside the deposit loop -/
def Mutex (ts : List Task) : Prop := ∀ (i j : Nat) (ti tj : Task), ts[i]? = some ti → ts[j]? = some tj →
  isAcq ti = true → isAcq tj = true → i = j

def Inv (s : St) : Prop := tokens s.tasks ≤ s.max ∧ ∀ t ∈ s.tasks, wfTask t

def allDone (s : St) : Bool := s.tasks.all isDone

/-- executable search support: all enabled successor states -/
def succs (sem : SlotSem) (s : St) : List (Nat × St) :=
  (List.range s.tasks.length).filterMap fun i => (step sem s i).map fun s' => (i, s')

end SciVerif.Slots
