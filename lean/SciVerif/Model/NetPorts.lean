import SciVerif.Model.Net
/-!
# The network model at the granularity of channel operations (C05)

`Model/Net.lean` reads one item from *every* in-port in one step (`create`) and sends one item on *every*
out-port in one step (`forward`). The Go code does neither atomically: `receiveOnInPorts` reads the in-ports one
after the other (in the order of a Go map iteration, i.e. any order), each read blocking, and holds the items
already read in hand; `Process.Run` sends a finished task's outputs connection by connection, each send blocking
while that connection's channel is full. Here every single channel operation is a step. A connection is an
in-port: the pair `(w, i)` of a process and the position of the port in `ins w`; its sender is `(ins w)[i]`
(two in-ports of one process may have the same sender, one process may feed any number of in-ports).

* `recv w i`   — `w` reads, in its current round, the item of its `i`-th in-port (needs one in the channel);
* `create w`   — all in-ports have been read in this round: the task exists (a source: emits its next item);
* `send w i`   — the oldest started task of the sender of `(w, i)` is done and its output has not yet been sent
                 on this connection: send it (needs room in this connection's channel);
* `forward v`  — the output has been sent on every connection `v` feeds: the task leaves the queue;
* `terminate v`— nothing in flight and a port that `v` is about to read is closed and drained (a source: everything
                 emitted).

Per connection the state counts the items sent (`s w i`) and read (`r w i`); the channel holds
`s w i − r w i ≤ B` items, the reader holds `r w i − c w ≤ 1` item in hand.
-/
namespace SciVerif.NetPorts
open SciVerif.Net

structure FSt (n : Nat) where
  c    : Fin n → Nat
  f    : Fin n → Nat
  term : Fin n → Bool
  s    : Fin n → Nat → Nat
  r    : Fin n → Nat → Nat

inductive FLbl (n : Nat) where
  | recv (w : Fin n) (i : Nat)
  | create (v : Fin n)
  | send (w : Fin n) (i : Nat)
  | forward (v : Fin n)
  | terminate (v : Fin n)
deriving DecidableEq

def upd2 {n : Nat} (g : Fin n → Nat → Nat) (a : Fin n) (i : Nat) (x : Nat) : Fin n → Nat → Nat :=
  fun a' i' => if a' = a ∧ i' = i then x else g a' i'

/-- the sender of connection `(w, i)` -/
def sender {n : Nat} (net : Net n) (w : Fin n) (i : Nat) : Option (Fin n) := (net.ins w)[i]?

/-- the connections a process feeds -/
def conns {n : Nat} (net : Net n) (v : Fin n) : List (Fin n × Nat) :=
  (List.finRange n).flatMap fun w => ((List.range (net.ins w).length).filter fun i => sender net w i == some v).map fun i => (w, i)

def canRecv {n : Nat} (net : Net n) (s : FSt n) (w : Fin n) (i : Nat) : Prop :=
  i < (net.ins w).length ∧ s.term w = false ∧ s.r w i = s.c w ∧ s.r w i < s.s w i

def canCreate {n : Nat} (net : Net n) (s : FSt n) (v : Fin n) : Prop :=
  s.term v = false ∧
    (if (net.ins v).isEmpty then s.c v < net.src v else ∀ i, i < (net.ins v).length → s.r v i = s.c v + 1)

def canSend {n : Nat} (net : Net n) (s : FSt n) (w : Fin n) (i : Nat) : Prop :=
  match sender net w i with
  | some v => s.f v < s.c v ∧ s.s w i = s.f v ∧ s.s w i < s.r w i + net.B
  | none => False

def canForward {n : Nat} (net : Net n) (s : FSt n) (v : Fin n) : Prop :=
  s.f v < s.c v ∧ ∀ p ∈ conns net v, s.s p.1 p.2 = s.f v + 1

def canTerm {n : Nat} (net : Net n) (s : FSt n) (v : Fin n) : Prop :=
  s.term v = false ∧ s.c v = s.f v ∧
    (if (net.ins v).isEmpty then s.c v = net.src v
     else ∃ p ∈ (net.ins v).zipIdx, s.term p.1 = true ∧ s.r v p.2 = s.s v p.2 ∧ s.r v p.2 = s.c v)

instance {n : Nat} (net : Net n) (s : FSt n) (w : Fin n) (i : Nat) : Decidable (canRecv net s w i) := by
  unfold canRecv; exact inferInstance
instance {n : Nat} (net : Net n) (s : FSt n) (v : Fin n) : Decidable (canCreate net s v) := by
  unfold canCreate; exact inferInstance
instance {n : Nat} (net : Net n) (s : FSt n) (w : Fin n) (i : Nat) : Decidable (canSend net s w i) := by
  unfold canSend; split <;> exact inferInstance
instance {n : Nat} (net : Net n) (s : FSt n) (v : Fin n) : Decidable (canForward net s v) := by
  unfold canForward; exact inferInstance
instance {n : Nat} (net : Net n) (s : FSt n) (v : Fin n) : Decidable (canTerm net s v) := by
  unfold canTerm; exact inferInstance

def fstep {n : Nat} (net : Net n) (s : FSt n) : FLbl n → Option (FSt n)
  | .recv w i => if canRecv net s w i then some { s with r := upd2 s.r w i (s.r w i + 1) } else none
  | .create v => if canCreate net s v then some { s with c := upd s.c v (s.c v + 1) } else none
  | .send w i => if canSend net s w i then some { s with s := upd2 s.s w i (s.s w i + 1) } else none
  | .forward v => if canForward net s v then some { s with f := upd s.f v (s.f v + 1) } else none
  | .terminate v => if canTerm net s v then some { s with term := upd s.term v true } else none

def finit (n : Nat) : FSt n :=
  { c := fun _ => 0, f := fun _ => 0, term := fun _ => false, s := fun _ _ => 0, r := fun _ _ => 0 }

def frun {n : Nat} (net : Net n) : FSt n → List (FLbl n) → Option (FSt n)
  | s, [] => some s
  | s, l :: ls => match fstep net s l with | none => none | some s' => frun net s' ls

def fstuck {n : Nat} (net : Net n) (s : FSt n) : Prop := ∀ l, fstep net s l = none

/-- the labels that can ever be enabled -/
def allFLbls {n : Nat} (net : Net n) : List (FLbl n) :=
  (List.finRange n).flatMap fun v =>
    [.create v, .forward v, .terminate v] ++ (List.range (net.ins v).length).flatMap fun i => [.recv v i, .send v i]

def fstuckB {n : Nat} (net : Net n) (s : FSt n) : Bool := (allFLbls net).all fun l => (fstep net s l).isNone

end SciVerif.NetPorts
