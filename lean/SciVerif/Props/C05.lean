import SciVerif.Lemmas.StuckCore
import SciVerif.Lemmas.Net
import SciVerif.Lemmas.NetSlots
import SciVerif.Lemmas.NetPorts
import SciVerif.Lemmas.NetPortsSlots
import SciVerif.Lemmas.Slots
import SciVerif.Props.C16
import SciVerif.Props.C08
import SciVerif.Props.C04
/-!
# C05 — Run returns exactly when all work is done (partial: proved link by link)

No early return:
* `c05_run_waits_for_driver_and_sink`: with a good start-up record `runProcs` returns only after
  the driver **and** the sink have returned, and every process of the run set was started once
  (from C16's plan theorems);
* `c05_process_exit_all_forwarded`: the main loop of a process can leave only with an empty
  started-queue, and then every task it ever accepted has been dequeued — which happens only after
  the task signalled Done, i.e. after finalization and slot release (C08's invariant, Tie A's op
  order); its out-ports are closed only then (deferred), so a consumer's port closes only after all
  upstream tasks are finished.

Finiteness and absence of deadlock, per mechanism:
* slots: `Slots.c07_no_deadlock`, `Slots.c07_terminates` (every task execution ends);
* channels: `Chan.c04_channel_progress` (a port with capacity ≥ 1 always moves until drained);
* whole network: `c05_no_stuck_core` — the counting argument that in a balanced acyclic workflow
  with one upstream per port and buffer size ≥ 1 a state in which nothing can move has every node
  terminated; the facts it starts from are stated as a structure (`StuckCore.Facts`) and are the
  consequences of the channel / queue / slot invariants above in a stuck state.

Whole network, operationally (`Model/Net.lean`: per process the number of tasks created / forwarded
and whether it returned; channel occupancy is the difference of two counters):
* `c05_network_no_deadlock`: in every reachable state of a balanced acyclic network with buffer
  size ≥ 1 in which some process has not returned, some step is possible;
* `c05_network_runs_are_finite`: every run has at most `n·(2N+1)` steps;
* `c05_network_complete`: a run that cannot be extended ends with every process returned after
  having created and forwarded exactly `N` tasks (nothing is lost, nothing is left in flight).
* `c05_network_deadlock_root_cause`: for *any* stream lengths, a run that ends with an unreturned process
  contains an abandoned port (a returned consumer that left ≥ B items of an unreturned producer unread):
  F20's mechanism is the only way such a network fails to complete.
* `c05_network_with_slots_no_deadlock` / `_complete`: the same two statements for the model in which every
  task waits for `cores v` of `max` slots, runs, releases them and only then offers `Done`, with
  head-of-queue forwarding (`Model/NetSlots.lean`) — by projecting stuck states onto the counting model; the
  abstraction "a created task always becomes forwardable" is thereby a theorem, given `cores v ≤ max`.
* `c05_channel_ops_no_deadlock` / `_runs_are_finite` / `_complete` / `_capacity` / `_deadlock_root_cause`
  (and `c05_channel_ops_with_slots_no_deadlock` / `_complete` for the same model with task slots): the same statements for the
  model in which every single channel operation is a step (`Model/NetPorts.lean`; a connection is an in-port, so
  one process may feed several in-ports of another): a process reads its in-ports
  one after the other in any order, holding the items already read, and sends a finished task's outputs
  consumer by consumer, each send blocking on that consumer's channel alone — which is what `receiveOnInPorts`
  and the send loop of `Process.Run` do. The atomic `create` / `forward` of the counting model are thereby no
  longer an assumption: no interleaving of the individual reads and sends can block a balanced network.
Not covered by the positive theorems: processes that read a whole stream before emitting (the combinators,
Concatenator, StreamToSubStream) — with one of them in a reconverging fan-out even a balanced network deadlocks
once a stream is longer than the buffer (`c05_network_batch_deadlocks`, finding F23, reproduced on the real code).
Negatives at network level: `c05_network_unbalanced_deadlocks` (F20: a process stops reading at the
first closed in-port; the other upstream then blocks forever), `c05_network_needs_buffer` (F18, B = 0).

What remains outside the theorem: the abstraction steps from the Go code to the counting model
(a started task always finishes: C07 + C01/C09; one item per out-port per task; the main loop
forwards only the head of its queue: C08) are tied by Tie A obligations per mechanism and by the
harness (model's final counters and termination verdict vs real runs of random DAG workflows), not
by a refinement proof; streaming (FIFO) connections and sub-stream joins are not in the model.
`c05_needs_buffer` is the older snapshot-level form of F18.
-/
namespace SciVerif.C05

open SciVerif.Graph in
/-- `runProcs` returns only after driver and sink; every run-set process runs exactly once -/
theorem c05_run_waits_for_driver_and_sink (sem : RunSem) (hg : good sem) (wf : Wf) (targets : Option (List Nat))
    (rs gs : List Nat) (d : Option Nat) (b : Bool) (hrs : runSet sem wf targets = some rs) (hnd : rs.Nodup)
    (hp : plan sem wf targets = .started gs d b) :
    b = true ∧ (∀ p ∈ rs, p ∈ gs ∨ d = some p) :=
  let h := c16_each_started_once sem hg wf targets rs gs d b hrs hnd hp
  ⟨h.2.2.2, h.2.2.1⟩

open SciVerif.Proc in
/-- when the started-queue is empty every accepted task has been forwarded (hence finished) -/
theorem c05_process_exit_all_forwarded (sem : ProcSem) (hg : good sem) (ls : List Label) (s : PSt)
    (h : run sem init ls = some s) (hexit : s.started = []) : s.forwarded = s.accepted := by
  have := (c08_emission_order sem hg ls s h).1
  rw [hexit] at this; simpa using this.symm

/-- a stuck state of a balanced, single-upstream, B ≥ 1 network has no unterminated node -/
theorem c05_no_stuck_core {n : Nat} (s : StuckCore.Snap n) (h : StuckCore.Facts s) :
    ∀ v : Fin n, s.blk v = .term := StuckCore.no_stuck s h

/-- the hypotheses of the counting argument are satisfiable by a non-trivial snapshot: a chain of
three nodes that have all terminated after 5 tasks -/
example : StuckCore.Facts ({ B := 2, c := fun _ => 5, f := fun _ => 5, blk := fun _ => .term } : StuckCore.Snap 3) :=
  ⟨by decide, fun _ => Nat.le_refl _, by intro v u h; simp at h, by intro v u h; simp at h, by intro v w h; simp at h⟩

/-- negative (F18): with B = 0 the remaining facts are satisfied by a stuck, unterminated pair —
node 1 is read-blocked on node 0, node 0 is write-blocked on node 1 -/
theorem c05_needs_buffer :
    ∃ s : StuckCore.Snap 2, s.B = 0 ∧ (∀ v, s.f v ≤ s.c v) ∧
      s.blk ⟨0, by omega⟩ = .write 1 ∧ s.blk ⟨1, by omega⟩ = .read 0 ∧
      s.c ⟨1, by omega⟩ + s.B ≤ s.f ⟨0, by omega⟩ ∧ s.f ⟨0, by omega⟩ ≤ s.c ⟨1, by omega⟩ :=
  ⟨{ B := 0, c := fun _ => 1, f := fun _ => 1, blk := fun v => if v.val = 0 then .write 1 else .read 0 },
   rfl, fun _ => Nat.le_refl _, by simp, by simp, by simp, by simp⟩

/-! ### the network counting model -/
open SciVerif.Net in
/-- progress: a reachable state with an unreturned process is not stuck -/
theorem c05_network_no_deadlock {n : Nat} (net : Net n) (N : Nat) (hbal : balanced net N) (hac : acyclic net)
    (hB : 1 ≤ net.B) (ls : List (Lbl n)) (s : NSt n) (hr : run net (init n) ls = some s)
    (v : Fin n) (hv : s.term v = false) : ∃ l s', step net s l = some s' := by
  have hinv := run_inv net N hbal ls _ _ (inv_init net N) hr
  apply Classical.byContradiction
  intro hno
  have hst : stuck net s := by
    intro l
    cases h : step net s l with
    | none => rfl
    | some s' => exact absurd ⟨l, s', h⟩ hno
  have := no_stuck net N hbal hac hB s hinv hst v
  simp [hv] at this

open SciVerif.Net in
theorem c05_network_runs_are_finite {n : Nat} (net : Net n) (N : Nat) (hbal : balanced net N)
    (ls : List (Lbl n)) (s : NSt n) (hr : run net (init n) ls = some s) : ls.length ≤ n * (2 * N + 1) := by
  have := run_mu net N hbal ls _ _ (inv_init net N) hr
  rw [mu_init] at this
  omega

open SciVerif.Net in
/-- a maximal run ends with every process returned, each having handled exactly `N` item sets -/
theorem c05_network_complete {n : Nat} (net : Net n) (N : Nat) (hbal : balanced net N) (hac : acyclic net)
    (hB : 1 ≤ net.B) (ls : List (Lbl n)) (s : NSt n) (hr : run net (init n) ls = some s)
    (hmax : stuck net s) : ∀ v, s.term v = true ∧ s.c v = N ∧ s.f v = N := by
  have hinv := run_inv net N hbal ls _ _ (inv_init net N) hr
  intro v
  have ht := no_stuck net N hbal hac hB s hinv hmax v
  exact ⟨ht, hinv.tm v ht⟩

open SciVerif.Net in
/-- without any assumption on stream lengths: whenever a run of an acyclic network with buffer ≥ 1 ends
with an unreturned process, there is an *abandoned port* — an unreturned process `v` and a consumer `w`
of `v` that has already returned while at least `B` of `v`'s items were still unread (`w` stopped at
another, shorter in-port). The abandoned-port situation of F20 is thus the only way a scipipe network
can fail to run to completion. -/
theorem c05_network_deadlock_root_cause {n : Nat} (net : Net n) (hac : acyclic net) (hB : 1 ≤ net.B)
    (ls : List (Lbl n)) (s : NSt n) (hr : run net (init n) ls = some s) (hmax : stuck net s)
    (v0 : Fin n) (hv0 : s.term v0 = false) :
    ∃ v w, v ∈ net.ins w ∧ s.term v = false ∧ s.term w = true ∧ s.c w + net.B ≤ s.f v :=
  stuck_root_cause net hac hB s (run_inv0 net ls _ _ (inv0_init net) hr) hmax v0 hv0

open SciVerif.Net in
def netChain2 (N B : Nat) : Net 2 :=
  { ins := fun v => if v.val = 1 then [⟨0, by omega⟩] else [], src := fun _ => N, B := B }

/-! ### the network with task execution and slots -/
open SciVerif.Net in
/-- with tasks that wait for slots, run, release and only then offer `Done` (head-of-queue forwarding):
a reachable state with an unreturned process always has an enabled step, for every slot configuration in
which no process asks for more cores than the workflow has -/
theorem c05_network_with_slots_no_deadlock {n : Nat} (sn : SNet n) (N : Nat) (hbal : balanced sn.net N)
    (hac : acyclic sn.net) (hB : 1 ≤ sn.net.B) (hcores : ∀ v, sn.cores v ≤ sn.max)
    (ls : List (SLbl n)) (s : SSt n) (hr : srun sn (sinit n) ls = some s)
    (v : Fin n) (hv : s.base.term v = false) : ∃ l s', sstep sn s l = some s' := by
  have hinv := srun_inv sn N hbal ls _ _ (sinv_init sn N) hr
  apply Classical.byContradiction
  intro hno
  have hst : sstuck sn s := by
    intro l
    cases h : sstep sn s l with
    | none => rfl
    | some s' => exact absurd ⟨l, s', h⟩ hno
  have := no_stuck sn.net N hbal hac hB s.base hinv.base (sstuck_proj sn N hcores s hinv hst) v
  simp [hv] at this

open SciVerif.Net in
/-- every run is finite, and one that cannot be extended ends with every process returned after exactly
`N` tasks, every queue empty and no slot in use -/
theorem c05_network_with_slots_complete {n : Nat} (sn : SNet n) (N : Nat) (hbal : balanced sn.net N)
    (hac : acyclic sn.net) (hB : 1 ≤ sn.net.B) (hcores : ∀ v, sn.cores v ≤ sn.max)
    (ls : List (SLbl n)) (s : SSt n) (hr : srun sn (sinit n) ls = some s) :
    ls.length ≤ 3 * (n * (2 * N + 1)) ∧
    (sstuck sn s → ∀ v, s.base.term v = true ∧ s.base.c v = N ∧ s.base.f v = N ∧ s.q v = []) := by
  have hinv := srun_inv sn N hbal ls _ _ (sinv_init sn N) hr
  constructor
  · have := srun_mu sn N hbal ls _ _ (sinv_init sn N) hr
    rw [muS_init] at this
    omega
  · intro hst v
    have ht := no_stuck sn.net N hbal hac hB s.base hinv.base (sstuck_proj sn N hcores s hinv hst) v
    have hcf := hinv.base.tm v ht
    refine ⟨ht, hcf.1, hcf.2, ?_⟩
    have := hinv.len v
    exact List.eq_nil_of_length_eq_zero (by omega)

open SciVerif.Net in
/-- negative: a process asking for more cores than the workflow has blocks for ever (this is why
`Process.Run` rejects it before creating any task — C07) -/
theorem c05_network_oversize_blocks :
    (srun { net := netChain2 1 1, cores := fun _ => 3, max := 2 } (sinit 2) [.create ⟨0, by omega⟩]).map
      (fun s => ((List.finRange 2).all fun v => (sstep { net := netChain2 1 1, cores := fun _ => 3, max := 2 } s (.start v 0)).isNone,
                 s.q ⟨0, by omega⟩)) = some (true, [.waiting]) := by decide

open SciVerif.Net in
/-- source 0 feeds a whole-stream reader 1 and, directly, process 2, which also consumes 1's output -/
def netBatch (N B : Nat) : Net 3 :=
  { ins := fun v => if v.val = 1 then [⟨0, by omega⟩] else if v.val = 2 then [⟨0, by omega⟩, ⟨1, by omega⟩] else [],
    src := fun _ => N, B := B }

open SciVerif.Net in
/-- negative (F23): a *balanced* network with a whole-stream reader inside a reconverging fan-out deadlocks
as soon as the stream is longer than the buffer: the source cannot hand its second item to the reader
before process 2 has taken the first one, process 2 waits for the reader's output, and the reader emits
nothing before it has seen the whole stream -/
theorem c05_network_batch_deadlocks :
    (runB (netBatch 2 1) (fun v => v.val == 1) (init 3)
        [.create ⟨0, by omega⟩, .create ⟨0, by omega⟩, .forward ⟨0, by omega⟩, .create ⟨1, by omega⟩]).map
      (fun s => (stuckBB (netBatch 2 1) (fun v => v.val == 1) s, s.term ⟨0, by omega⟩, s.f ⟨0, by omega⟩, s.c ⟨1, by omega⟩, s.c ⟨2, by omega⟩)) =
      some (true, false, 1, 1, 0) := by decide

open SciVerif.Net in
/-- the same network without the whole-stream reader is covered by the positive theorems -/
example : balanced (netBatch 2 1) 2 ∧ acyclic (netBatch 2 1) := by
  constructor
  · intro v hv
    simp [netBatch]
  · intro v u hu
    by_cases h1 : v.val = 1
    · simp [netBatch, h1] at hu; subst hu; simp [h1]
    · by_cases h2 : v.val = 2
      · simp [netBatch, h2] at hu; rcases hu with rfl | rfl <;> simp [h2]
      · simp [netBatch, h1, h2] at hu

open SciVerif.Net in
/-- two sources feeding one process (diamond without the top) -/
def netJoin (a b B : Nat) : Net 3 :=
  { ins := fun v => if v.val = 2 then [⟨0, by omega⟩, ⟨1, by omega⟩] else [],
    src := fun v => if v.val = 0 then a else b, B := B }

open SciVerif.Net in
/-- non-vacuity: the balanced join runs to completion -/
example : balanced (netJoin 2 2 1) 2 ∧ acyclic (netJoin 2 2 1) := by
  constructor
  · intro v hv
    have : v.val ≠ 2 := by intro h; simp [netJoin, h] at hv
    simp [netJoin]
  · intro v u hu
    by_cases h : v.val = 2
    · simp [netJoin, h] at hu; rcases hu with rfl | rfl <;> simp [h]
    · simp [netJoin, h] at hu

open SciVerif.Net in
/-- negative (F20): source 0 emits 3 items, source 1 none; the joining process returns at once (its
second in-port is closed and drained), source 0 fills the abandoned channel and blocks for ever -/
theorem c05_network_unbalanced_deadlocks :
    (run (netJoin 3 0 1) (init 3)
        [.terminate ⟨1, by omega⟩, .terminate ⟨2, by omega⟩, .create ⟨0, by omega⟩, .create ⟨0, by omega⟩,
         .create ⟨0, by omega⟩, .forward ⟨0, by omega⟩]).map
      (fun s => (stuckB (netJoin 3 0 1) s, s.term ⟨0, by omega⟩, s.f ⟨0, by omega⟩, s.c ⟨0, by omega⟩)) =
      some (true, false, 1, 3) := by decide


open SciVerif.Net in
/-- negative (F18): with rendezvous channels (B = 0) in the counting model's reading of a send, the
first item can never be handed over -/
theorem c05_network_needs_buffer :
    (run (netChain2 1 0) (init 2) [.create ⟨0, by omega⟩]).map
      (fun s => (stuckB (netChain2 1 0) s, s.term ⟨0, by omega⟩, s.term ⟨1, by omega⟩)) = some (true, false, false) := by decide

/-! ### the network at the granularity of channel operations -/
open SciVerif.Net SciVerif.NetPorts in
/-- progress: whatever the order of the individual reads and sends so far, a reachable state with an unreturned
process has an enabled channel operation -/
theorem c05_channel_ops_no_deadlock {n : Nat} (net : Net n) (N : Nat) (hbal : balanced net N) (hac : acyclic net)
    (hB : 1 ≤ net.B) (ls : List (FLbl n)) (s : FSt n) (hr : frun net (finit n) ls = some s)
    (v : Fin n) (hv : s.term v = false) : ∃ l s', fstep net s l = some s' := by
  have hinv := frun_inv net N hbal ls _ _ (finv_init net N) hr
  apply Classical.byContradiction
  intro hno
  have hst : fstuck net s := by
    intro l
    cases h : fstep net s l with
    | none => rfl
    | some s' => exact absurd ⟨l, s', h⟩ hno
  have := fno_stuck net N hbal hac hB s hinv hst v
  simp [hv] at this

open SciVerif.Net SciVerif.NetPorts in
/-- every run is finite: at most `2N + 1` steps per process and `2N` per connection -/
theorem c05_channel_ops_runs_are_finite {n : Nat} (net : Net n) (N : Nat) (hbal : balanced net N)
    (ls : List (FLbl n)) (s : FSt n) (hr : frun net (finit n) ls = some s) :
    ls.length ≤ n * (2 * N + 1) + ports net * (2 * N) := by
  have := frun_mu net N hbal ls _ _ (finv_init net N) hr
  rw [fmu_init] at this
  omega

open SciVerif.Net SciVerif.NetPorts in
/-- a maximal run ends with every process returned after exactly `N` tasks, and on every connection all `N` items
sent have been read: nothing is left in a channel or in a reader's hand -/
theorem c05_channel_ops_complete {n : Nat} (net : Net n) (N : Nat) (hbal : balanced net N) (hac : acyclic net)
    (hB : 1 ≤ net.B) (ls : List (FLbl n)) (s : FSt n) (hr : frun net (finit n) ls = some s)
    (hmax : fstuck net s) :
    (∀ v, s.term v = true ∧ s.c v = N ∧ s.f v = N) ∧
    (∀ w i, i < (net.ins w).length → s.s w i = N ∧ s.r w i = N) := by
  have hinv := frun_inv net N hbal ls _ _ (finv_init net N) hr
  have hall : ∀ v, s.term v = true ∧ s.c v = N ∧ s.f v = N := fun v =>
    have ht := fno_stuck net N hbal hac hB s hinv hmax v
    ⟨ht, hinv.tm v ht⟩
  refine ⟨hall, ?_⟩
  intro w i hi
  obtain ⟨u, hu⟩ := sender_of_lt net w i hi
  have h1 := hinv.sf w i u hu
  have h2 := hinv.rc w i hi
  have := (hall u).2; have := (hall w).2
  omega

open SciVerif.Net SciVerif.NetPorts in
/-- no channel ever holds more than `B` items, and a reader holds at most one item per in-port in hand -/
theorem c05_channel_ops_capacity {n : Nat} (net : Net n) (N : Nat) (hbal : balanced net N)
    (ls : List (FLbl n)) (s : FSt n) (hr : frun net (finit n) ls = some s) (w : Fin n) (i : Nat)
    (hi : i < (net.ins w).length) : s.s w i ≤ s.r w i + net.B ∧ s.r w i ≤ s.c w + 1 := by
  have hinv := frun_inv net N hbal ls _ _ (finv_init net N) hr
  exact ⟨hinv.cap w i hi, (hinv.rc w i hi).2.1⟩

open SciVerif.Net SciVerif.NetPorts in
/-- without any assumption on stream lengths, at the granularity of channel operations: a run that ends with an
unreturned process contains an unreturned process blocked in a send on a connection whose reader has returned with
at least `B` of its items unread — F20's abandoned port is the only way to get stuck here as well -/
theorem c05_channel_ops_deadlock_root_cause {n : Nat} (net : Net n) (hac : acyclic net) (hB : 1 ≤ net.B)
    (ls : List (FLbl n)) (s : FSt n) (hr : frun net (finit n) ls = some s) (hmax : fstuck net s)
    (v0 : Fin n) (hv0 : s.term v0 = false) :
    ∃ v w i, sender net w i = some v ∧ s.term v = false ∧ s.term w = true ∧ s.r w i + net.B ≤ s.s w i :=
  fstuck_root_cause net hac hB s (frun_inv0 net ls _ _ (finv0_init net) hr) hmax v0 hv0

open SciVerif.Net SciVerif.NetPorts in
/-- negative (F20) at this granularity: the join returns at its empty in-port, the other source blocks in its
second send; the premises of the root-cause theorem are satisfiable -/
theorem c05_channel_ops_unbalanced_deadlocks :
    (frun (netJoin 3 0 1) (finit 3)
        [.terminate ⟨1, by omega⟩, .terminate ⟨2, by omega⟩, .create ⟨0, by omega⟩, .send ⟨2, by omega⟩ 0,
         .forward ⟨0, by omega⟩, .create ⟨0, by omega⟩, .create ⟨0, by omega⟩]).map
      (fun s => (fstuckB (netJoin 3 0 1) s, s.term ⟨0, by omega⟩, s.term ⟨2, by omega⟩, s.s ⟨2, by omega⟩ 0,
                 s.r ⟨2, by omega⟩ 0)) = some (true, false, true, 1, 0) := by decide

open SciVerif.Net SciVerif.NetPorts in
/-- non-vacuity: in the join of two sources (B = 1) the reader takes the item of its second in-port first and holds
it while the first source has not sent anything; the state is reachable, not stuck, and not final -/
example : (frun (netJoin 2 2 1) (finit 3)
      [.create ⟨1, by omega⟩, .send ⟨2, by omega⟩ 1, .forward ⟨1, by omega⟩, .recv ⟨2, by omega⟩ 1,
       .create ⟨1, by omega⟩, .send ⟨2, by omega⟩ 1]).map
      (fun s => (fstuckB (netJoin 2 2 1) s, s.r ⟨2, by omega⟩ 1, s.c ⟨2, by omega⟩, s.s ⟨2, by omega⟩ 1)) =
    some (false, 1, 0, 2) := by decide

open SciVerif.Net SciVerif.NetPorts in
/-- one process feeding two in-ports of the same consumer (a multi-edge): two connections, two sends per task -/
def netDouble (N B : Nat) : Net 2 :=
  { ins := fun v => if v.val = 1 then [⟨0, by omega⟩, ⟨0, by omega⟩] else [], src := fun _ => N, B := B }

open SciVerif.Net SciVerif.NetPorts in
example : (frun (netDouble 1 1) (finit 2)
      [.create ⟨0, by omega⟩, .send ⟨1, by omega⟩ 1, .send ⟨1, by omega⟩ 0, .forward ⟨0, by omega⟩, .terminate ⟨0, by omega⟩,
       .recv ⟨1, by omega⟩ 0, .recv ⟨1, by omega⟩ 1, .create ⟨1, by omega⟩, .forward ⟨1, by omega⟩, .terminate ⟨1, by omega⟩]).map
      (fun s => (fstuckB (netDouble 1 1) s, s.term ⟨1, by omega⟩)) = some (true, true) := by decide

open SciVerif.Net SciVerif.NetPorts in
/-- negative (F18) at this granularity: with B = 0 no send is ever possible -/
theorem c05_channel_ops_needs_buffer :
    (frun (netChain2 1 0) (finit 2) [.create ⟨0, by omega⟩]).map
      (fun s => (fstuckB (netChain2 1 0) s, s.term ⟨0, by omega⟩, s.term ⟨1, by omega⟩)) = some (true, false, false) := by decide

/-! ### channel operations and task slots together -/
open SciVerif.Net SciVerif.NetPorts in
/-- with tasks that wait for slots, run, release them and are only then sent on (head of the queue first, connection
by connection): a reachable state with an unreturned process always has an enabled step, for every slot
configuration in which no process asks for more cores than the workflow has -/
theorem c05_channel_ops_with_slots_no_deadlock {n : Nat} (sn : SNet n) (N : Nat) (hbal : balanced sn.net N)
    (hac : acyclic sn.net) (hB : 1 ≤ sn.net.B) (hcores : ∀ v, sn.cores v ≤ sn.max)
    (ls : List (PLbl n)) (s : PSt n) (hr : prun sn (pinit n) ls = some s)
    (v : Fin n) (hv : s.base.term v = false) : ∃ l s', pstep sn s l = some s' := by
  have hinv := prun_inv sn N hbal ls _ _ (pinv_init sn N) hr
  apply Classical.byContradiction
  intro hno
  have hst : pstuck sn s := by
    intro l
    cases h : pstep sn s l with
    | none => rfl
    | some s' => exact absurd ⟨l, s', h⟩ hno
  have := fno_stuck sn.net N hbal hac hB s.base hinv.base (pstuck_proj sn N hcores s hinv hst) v
  simp [hv] at this

open SciVerif.Net SciVerif.NetPorts in
/-- a maximal run of that model: every process returned after exactly `N` tasks, every queue empty, every
connection drained -/
theorem c05_channel_ops_with_slots_complete {n : Nat} (sn : SNet n) (N : Nat) (hbal : balanced sn.net N)
    (hac : acyclic sn.net) (hB : 1 ≤ sn.net.B) (hcores : ∀ v, sn.cores v ≤ sn.max)
    (ls : List (PLbl n)) (s : PSt n) (hr : prun sn (pinit n) ls = some s) (hmax : pstuck sn s) :
    (∀ v, s.base.term v = true ∧ s.base.c v = N ∧ s.base.f v = N ∧ s.q v = []) ∧
    (∀ w i, i < (sn.net.ins w).length → s.base.s w i = N ∧ s.base.r w i = N) := by
  have hinv := prun_inv sn N hbal ls _ _ (pinv_init sn N) hr
  have hst := pstuck_proj sn N hcores s hinv hmax
  have hall : ∀ v, s.base.term v = true ∧ s.base.c v = N ∧ s.base.f v = N := fun v =>
    have ht := fno_stuck sn.net N hbal hac hB s.base hinv.base hst v
    ⟨ht, hinv.base.tm v ht⟩
  refine ⟨fun v => ⟨(hall v).1, (hall v).2.1, (hall v).2.2, ?_⟩, ?_⟩
  · have hl := hinv.len v
    have := (hall v).2
    exact List.eq_nil_of_length_eq_zero (by omega)
  · intro w i hi
    obtain ⟨u, hu⟩ := sender_of_lt sn.net w i hi
    have h1 := hinv.base.sf w i u hu
    have h2 := hinv.base.rc w i hi
    have := (hall u).2; have := (hall w).2
    omega

open SciVerif.Net SciVerif.NetPorts in
/-- non-vacuity: a chain of two processes with one slot; the second task of the source has to wait for the slot -/
example : (prun { net := netChain2 2 1, cores := fun _ => 1, max := 1 } (pinit 2)
      [.create ⟨0, by omega⟩, .create ⟨0, by omega⟩, .start ⟨0, by omega⟩ 0]).map
      (fun s => ((pstep { net := netChain2 2 1, cores := fun _ => 1, max := 1 } s (.start ⟨0, by omega⟩ 1)).isSome,
                 (pstep { net := netChain2 2 1, cores := fun _ => 1, max := 1 } s (.finish ⟨0, by omega⟩ 0)).isSome,
                 (pstep { net := netChain2 2 1, cores := fun _ => 1, max := 1 } s (.send ⟨1, by omega⟩ 0)).isSome)) =
    some (false, true, false) := by decide

end SciVerif.C05

#print axioms SciVerif.C05.c05_channel_ops_with_slots_no_deadlock
#print axioms SciVerif.C05.c05_channel_ops_with_slots_complete
#print axioms SciVerif.C05.c05_channel_ops_no_deadlock
#print axioms SciVerif.C05.c05_channel_ops_runs_are_finite
#print axioms SciVerif.C05.c05_channel_ops_complete
#print axioms SciVerif.C05.c05_channel_ops_capacity
#print axioms SciVerif.C05.c05_channel_ops_needs_buffer
#print axioms SciVerif.C05.c05_channel_ops_deadlock_root_cause
#print axioms SciVerif.C05.c05_channel_ops_unbalanced_deadlocks
#print axioms SciVerif.C05.c05_network_no_deadlock
#print axioms SciVerif.C05.c05_network_runs_are_finite
#print axioms SciVerif.C05.c05_network_complete
#print axioms SciVerif.C05.c05_network_deadlock_root_cause
#print axioms SciVerif.C05.c05_network_with_slots_no_deadlock
#print axioms SciVerif.C05.c05_network_with_slots_complete
#print axioms SciVerif.C05.c05_network_oversize_blocks
#print axioms SciVerif.C05.c05_network_batch_deadlocks
#print axioms SciVerif.C05.c05_network_unbalanced_deadlocks
#print axioms SciVerif.C05.c05_network_needs_buffer
#print axioms SciVerif.C05.c05_run_waits_for_driver_and_sink
#print axioms SciVerif.C05.c05_process_exit_all_forwarded
#print axioms SciVerif.C05.c05_no_stuck_core
#print axioms SciVerif.C05.c05_needs_buffer
