import SciVerif.Lemmas.StuckCore
import SciVerif.Lemmas.Slots
import SciVerif.Props.C16
import SciVerif.Props.C08
import SciVerif.Props.C04
/-!
# C05 — Run returns exactly when all work is done (partial: proved link by link)

No early return:
* `c05_run_waits_for_driver_and_sink`: with a good start-up record `runProcs` returns only after
  the driver **and** the sink have returned, and every process of the run set was started once
  (from C16's plan theorems);
* `c05_process_exit_all_forwarded`: the main loop of a process can leave only with an empty
  started-queue, and then every task it ever accepted has been dequeued — which happens only after
  the task signalled Done, i.e. after finalization and slot release (C08's invariant, Tie A's op
  order); its out-ports are closed only then (deferred), so a consumer's port closes only after all
  upstream tasks are finished.

Finiteness and absence of deadlock, per mechanism:
* slots: `Slots.c07_no_deadlock`, `Slots.c07_terminates` (every task execution ends);
* channels: `Chan.c04_channel_progress` (a port with capacity ≥ 1 always moves until drained);
* whole network: `c05_no_stuck_core` — the counting argument that in a balanced acyclic workflow
  with one upstream per port and buffer size ≥ 1 a state in which nothing can move has every node
  terminated; the facts it starts from are stated as a structure (`StuckCore.Facts`) and are the
  consequences of the channel / queue / slot invariants above in a stuck state.

What is missing for the full statement: deriving `Facts` inside one network-level operational model
(so that it is a lemma and not a hypothesis); the network-level composition is exercised by the
harness over random DAG workflows instead. Negative: `c05_needs_buffer` — with
rendezvous channels (B = 0) the facts admit a stuck state with unterminated nodes (finding F18).
-/
namespace SciVerif.C05

open SciVerif.Graph in
/-- `runProcs` returns only after driver and sink; every run-set process runs exactly once -/
theorem c05_run_waits_for_driver_and_sink (sem : RunSem) (hg : good sem) (wf : Wf) (targets : Option (List Nat))
    (rs gs : List Nat) (d : Option Nat) (b : Bool) (hrs : runSet sem wf targets = some rs) (hnd : rs.Nodup)
    (hp : plan sem wf targets = .started gs d b) :
    b = true ∧ (∀ p ∈ rs, p ∈ gs ∨ d = some p) :=
  let h := c16_each_started_once sem hg wf targets rs gs d b hrs hnd hp
  ⟨h.2.2.2, h.2.2.1⟩

open SciVerif.Proc in
/-- when the started-queue is empty every accepted task has been forwarded (hence finished) -/
theorem c05_process_exit_all_forwarded (sem : ProcSem) (hg : good sem) (ls : List Label) (s : PSt)
    (h : run sem init ls = some s) (hexit : s.started = []) : s.forwarded = s.accepted := by
  have := (c08_emission_order sem hg ls s h).1
  rw [hexit] at this; simpa using this.symm

/-- a stuck state of a balanced, single-upstream, B ≥ 1 network has no unterminated node -/
theorem c05_no_stuck_core {n : Nat} (s : StuckCore.Snap n) (h : StuckCore.Facts s) :
    ∀ v : Fin n, s.blk v = .term := StuckCore.no_stuck s h

/-- the hypotheses of the counting argument are satisfiable by a non-trivial snapshot: a chain of
three nodes that have all terminated after 5 tasks -/
example : StuckCore.Facts ({ B := 2, c := fun _ => 5, f := fun _ => 5, blk := fun _ => .term } : StuckCore.Snap 3) :=
  ⟨by decide, fun _ => Nat.le_refl _, by intro v u h; simp at h, by intro v u h; simp at h, by intro v w h; simp at h⟩

/-- negative (F18): with B = 0 the remaining facts are satisfied by a stuck, unterminated pair —
node 1 is read-blocked on node 0, node 0 is write-blocked on node 1 -/
theorem c05_needs_buffer :
    ∃ s : StuckCore.Snap 2, s.B = 0 ∧ (∀ v, s.f v ≤ s.c v) ∧
      s.blk ⟨0, by omega⟩ = .write 1 ∧ s.blk ⟨1, by omega⟩ = .read 0 ∧
      s.c ⟨1, by omega⟩ + s.B ≤ s.f ⟨0, by omega⟩ ∧ s.f ⟨0, by omega⟩ ≤ s.c ⟨1, by omega⟩ :=
  ⟨{ B := 0, c := fun _ => 1, f := fun _ => 1, blk := fun v => if v.val = 0 then .write 1 else .read 0 },
   rfl, fun _ => Nat.le_refl _, by simp, by simp, by simp, by simp⟩

end SciVerif.C05

#print axioms SciVerif.C05.c05_run_waits_for_driver_and_sink
#print axioms SciVerif.C05.c05_process_exit_all_forwarded
#print axioms SciVerif.C05.c05_no_stuck_core
#print axioms SciVerif.C05.c05_needs_buffer
