import SciVerif.Lemmas.Components
/-!
# C19 — bundled components compute what they advertise

* `c19_combine_is_product`: for every number of ports, every stream length (also 0) and **every
  key order** (the columns are listed in the order of the `keys` slice, an arbitrary Go map
  iteration order), the streams emitted by `combine` are exactly the columns of the Cartesian
  product of the inputs listed in lexicographic order of that key order; so the i-th items of the
  out-ports are aligned tuples, every tuple of the product occurs (`c19_product_mem`), and exactly
  once when the inputs have no duplicates (`c19_product_nodup`); all out-ports carry the same number
  of items (`c19_combine_aligned`).
* `c19_selector`: `IPSelectorSync` forwards exactly the aligned tuples all of whose members pass.
* `c19_split_concat` / `c19_split_bound` / `c19_split_count`: `FileSplitter`'s parts concatenate
  back to the scanned lines, no part exceeds `L` lines (L ≥ 1) and there are ⌊n/L⌋+1 parts (one
  empty trailing part at exact multiples and for the empty file).
* `c19_scanlines_roundtrip`: for LF-terminated, CR-free input, rendering the scanned lines gives the
  input back, so the parts' bytes concatenate to the input file.
* `c19_concat`: `Concatenator` output is each input followed by LF, in arrival order;
  `c19_concat_grouped`: with `GroupByTag` the Go loop (one file per step, group outputs created on first use)
  puts every file whole into the output of its own group and nowhere else, in arrival order.
-/
namespace SciVerif.Comp

variable {α : Type}

theorem c19_combine_is_product (cols : List (List α)) :
    combine cols = unrows cols.length (product cols) := combine_eq_unrows_product cols

/-- all emitted streams have the length of the product -/
theorem c19_combine_aligned (cols : List (List α)) :
    ∀ c ∈ combine cols, c.length = (product cols).length := by
  rw [c19_combine_is_product]; exact unrows_head_length _ _

/-- `r` takes its i-th element from the i-th column -/
def InProduct : List α → List (List α) → Prop
  | [], [] => True
  | x :: xs, c :: cs => x ∈ c ∧ InProduct xs cs
  | _, _ => False

theorem c19_product_mem (cols : List (List α)) (r : List α) : r ∈ product cols ↔ InProduct r cols := by
  induction cols generalizing r with
  | nil => cases r <;> simp [product, InProduct]
  | cons c cs ih =>
    simp only [product, List.mem_flatMap, List.mem_map]
    constructor
    · rintro ⟨x, hx, p, hp, rfl⟩
      exact ⟨hx, (ih p).1 hp⟩
    · intro h
      cases r with
      | nil => simp [InProduct] at h
      | cons x xs => exact ⟨x, h.1, xs, (ih xs).2 h.2, rfl⟩

theorem nodup_flatMap_cons (P : List (List α)) (hP : P.Nodup) (c : List α) (hc : c.Nodup) :
    (c.flatMap fun x => P.map (x :: ·)).Nodup := by
  induction c with
  | nil => simp
  | cons x xs ih =>
    rw [List.nodup_cons] at hc
    simp only [List.flatMap_cons]
    rw [List.nodup_append]
    refine ⟨?_, ih hc.2, ?_⟩
    · exact List.Pairwise.map _ (fun a b hab h => hab (by simpa using h)) hP
    · intro a ha b hb hab
      simp only [List.mem_map] at ha
      simp only [List.mem_flatMap, List.mem_map] at hb
      obtain ⟨p1, _, rfl⟩ := ha
      obtain ⟨y, hy, p2, _, rfl⟩ := hb
      simp at hab
      exact hc.1 (hab.1 ▸ hy)

theorem c19_product_nodup (cols : List (List α)) (h : ∀ c ∈ cols, c.Nodup) : (product cols).Nodup := by
  induction cols with
  | nil => simp [product]
  | cons c cs ih =>
    exact nodup_flatMap_cons _ (ih (fun x hx => h x (List.mem_cons_of_mem _ hx))) c (h c (by simp))

theorem c19_selector (pred : α → Bool) (c : List α) (cs : List (List α))
    (h : cs.all (·.length = c.length) = true) :
    select pred (c :: cs) = some ((rows (c :: cs)).filter (·.all pred)) := by
  simp [select, h]

theorem c19_selector_inconsistent (pred : α → Bool) (c : List α) (cs : List (List α))
    (h : cs.all (·.length = c.length) = false) : select pred (c :: cs) = none := by
  simp [select, h]

theorem c19_split_concat (L : Nat) (lines : List (List Nat)) : (split L lines).flatten = lines := by
  simpa [split] using splitLoop_flatten L lines 1 1 []

theorem c19_split_bound (L : Nat) (hL : 1 ≤ L) (lines : List (List Nat)) :
    ∀ part ∈ split L lines, part.length ≤ L :=
  splitLoop_bound L hL lines 1 1 [] (by omega) (by simp) (by simp; omega)

theorem c19_split_count (L : Nat) (hL : 1 ≤ L) (lines : List (List Nat)) :
    (split L lines).length = lines.length / L + 1 := by
  have := splitLoop_count L hL lines 1 1 [] (by omega) (by simp) (by simp; omega)
  simpa [split] using this

/-- rendering distributes over the parts: the part files' bytes concatenate to the rendered lines -/
theorem c19_split_bytes (L : Nat) (lines : List (List Nat)) :
    ((split L lines).map render).flatten = render lines := by
  have h := c19_split_concat L lines
  conv => rhs; rw [← h]
  simp only [render]
  induction split L lines with
  | nil => rfl
  | cons p ps ih => simp [ih, render]

theorem scanLines_render (bytes cur : List Nat) (hcur : 10 ∉ cur ∧ 13 ∉ cur) (hb : 13 ∉ bytes)
    (hterm : bytes = [] ∨ bytes.getLast? = some 10) (hc : bytes = [] → cur = []) :
    render (scanLines bytes cur) = cur ++ bytes := by
  induction bytes generalizing cur with
  | nil =>
    have := hc rfl; subst this
    simp [scanLines, render]
  | cons b bs ih =>
    simp only [scanLines]
    have hbs : 13 ∉ bs := fun h => hb (List.mem_cons_of_mem _ h)
    have hb13 : b ≠ 13 := fun h => hb (by simp [h])
    split
    · rename_i h10; subst h10
      have hdrop : scanLines.dropCR cur = cur := by
        unfold scanLines.dropCR
        split
        · rename_i hl
          have := List.mem_of_getLast? hl
          exact absurd this hcur.2
        · rfl
      rw [hdrop]
      have hterm' : bs = [] ∨ bs.getLast? = some 10 := by
        cases bs with
        | nil => exact Or.inl rfl
        | cons c cs =>
          right
          rcases hterm with h | h
          · simp at h
          · simpa [List.getLast?_cons_cons] using h
      have := ih [] (by simp) hbs hterm' (fun _ => rfl)
      simp only [render, List.flatMap_cons] at this ⊢
      rw [this]; simp
    · rename_i h10
      have hterm' : bs = [] ∨ bs.getLast? = some 10 := by
        cases bs with
        | nil =>
          rcases hterm with h | h
          · simp at h
          · simp at h; exact absurd h h10
        | cons c cs =>
          right
          rcases hterm with h | h
          · simp at h
          · simpa [List.getLast?_cons_cons] using h
      have hne : bs ≠ [] := by
        intro hnil; subst hnil
        rcases hterm with h | h
        · simp at h
        · simp at h; exact h10 h
      have := ih (cur ++ [b]) ⟨by simp [hcur.1]; exact fun h => h10 h.symm, by simp [hcur.2]; exact fun h => hb13 h.symm⟩ hbs hterm'
        (fun h => absurd h hne)
      rw [this]; simp

/-- for LF-terminated, CR-free bytes the scanned lines render back to the bytes -/
theorem c19_scanlines_roundtrip (bytes : List Nat) (hb : 13 ∉ bytes)
    (hterm : bytes = [] ∨ bytes.getLast? = some 10) : render (scanLines bytes []) = bytes := by
  simpa using scanLines_render bytes [] (by simp) hb hterm (fun _ => rfl)

theorem c19_concat (contents : List (List Nat)) :
    concatFiles contents = (contents.map (· ++ [10])).flatten := by
  simp [concatFiles, List.flatMap]

theorem lookup_addTo_same (gs : List (Nat × List Nat)) (t : Nat) (b : List Nat) :
    (addTo gs t b).lookup t = some (((gs.lookup t).getD []) ++ b) := by
  induction gs with
  | nil => simp [addTo, List.lookup]
  | cons x xs ih =>
    obtain ⟨t', acc⟩ := x
    simp only [addTo]
    by_cases h : t' = t
    · subst h; simp [List.lookup]
    · have h' : (t == t') = false := by simp; exact fun e => h e.symm
      simp [h, List.lookup, h', ih]

theorem lookup_addTo_other (gs : List (Nat × List Nat)) (t t2 : Nat) (b : List Nat) (hne : t2 ≠ t) :
    (addTo gs t b).lookup t2 = gs.lookup t2 := by
  induction gs with
  | nil =>
    have : (t2 == t) = false := by simp [hne]
    simp [addTo, List.lookup, this]
  | cons x xs ih =>
    obtain ⟨t', acc⟩ := x
    simp only [addTo]
    by_cases h : t' = t
    · subst h
      have : (t2 == t') = false := by simp [hne]
      simp [List.lookup, this]
    · simp only [h, if_false, List.lookup]
      split <;> simp_all

theorem ofGroup_cons_eq (g : Option Nat) (c : List Nat) (fs : List (Option Nat × List Nat)) :
    ofGroup ((g, c) :: fs) g = c :: ofGroup fs g := by
  simp [ofGroup, List.filter_cons]

theorem ofGroup_cons_ne (g g' : Option Nat) (c : List Nat) (fs : List (Option Nat × List Nat)) (h : g' ≠ g) :
    ofGroup ((g', c) :: fs) g = ofGroup fs g := by
  have : (g' == g) = false := by simp [h]
  simp [ofGroup, List.filter_cons, this]

theorem concatFiles_cons (c : List Nat) (cs : List (List Nat)) : concatFiles (c :: cs) = (c ++ [10]) ++ concatFiles cs := by
  simp [concatFiles]

theorem concatLoop_spec (fs : List (Option Nat × List Nat)) :
    ∀ (m : List Nat) (gs : List (Nat × List Nat)),
      (concatLoop fs (m, gs)).1 = m ++ concatFiles (ofGroup fs none) ∧
      ∀ t, (concatLoop fs (m, gs)).2.lookup t =
        if ofGroup fs (some t) = [] then gs.lookup t
        else some (((gs.lookup t).getD []) ++ concatFiles (ofGroup fs (some t))) := by
  induction fs with
  | nil => intro m gs; simp [concatLoop, ofGroup, concatFiles]
  | cons f fs ih =>
    intro m gs
    obtain ⟨tg, c⟩ := f
    cases tg with
    | none =>
      simp only [concatLoop]
      obtain ⟨h1, h2⟩ := ih (m ++ (c ++ [10])) gs
      refine ⟨?_, ?_⟩
      · rw [h1, ofGroup_cons_eq, concatFiles_cons]; simp [List.append_assoc]
      · intro t
        rw [h2 t, ofGroup_cons_ne (some t) none c fs (by simp)]
    | some t0 =>
      simp only [concatLoop]
      obtain ⟨h1, h2⟩ := ih m (addTo gs t0 (c ++ [10]))
      refine ⟨?_, ?_⟩
      · rw [h1, ofGroup_cons_ne none (some t0) c fs (by simp)]
      · intro t
        rw [h2 t]
        by_cases ht : t = t0
        · subst ht
          rw [lookup_addTo_same, ofGroup_cons_eq, concatFiles_cons]
          by_cases he : ofGroup fs (some t) = []
          · rw [if_pos he, if_neg (by simp), he]
            simp [concatFiles]
          · rw [if_neg he, if_neg (by simp)]
            simp [List.append_assoc]
        · rw [lookup_addTo_other _ _ _ _ ht, ofGroup_cons_ne (some t) (some t0) c fs (by simp; exact fun e => ht e.symm)]

/-- `Concatenator` with `GroupByTag`: the main output holds exactly the untagged files, each followed by LF, in
arrival order; the output of a tag value exists iff some file carries it and holds exactly that group's files in
arrival order — every file goes whole into the output of its own group and nowhere else -/
theorem c19_concat_grouped (fs : List (Option Nat × List Nat)) :
    (concatGrouped fs).1 = concatFiles (ofGroup fs none) ∧
    ∀ t, (concatGrouped fs).2.lookup t =
      if ofGroup fs (some t) = [] then none else some (concatFiles (ofGroup fs (some t))) := by
  obtain ⟨h1, h2⟩ := concatLoop_spec fs [] []
  refine ⟨by simpa [concatGrouped] using h1, ?_⟩
  intro t
  have := h2 t
  simpa [concatGrouped] using this

example : concatGrouped [(none, [1]), (some 7, [2]), (none, [3]), (some 8, [4]), (some 7, [5])] =
    ([1, 10, 3, 10], [(7, [2, 10, 5, 10]), (8, [4, 10])]) := by decide

/-- instances: the documented 2 x 3 example, an empty stream, exact multiples, the empty file -/
example : combine [["a", "b"], ["1", "2", "3"]] = [["a", "a", "a", "b", "b", "b"], ["1", "2", "3", "1", "2", "3"]] := by decide
example : combine [["a", "b"], ([] : List String), ["x"]] = [[], [], []] := by decide
example : (split 2 [[1], [2], [3], [4]]).length = 3 ∧ split 2 [] = [[]] ∧ split 0 [[1], [2]] = [[[1], [2]]] := by decide

end SciVerif.Comp

#print axioms SciVerif.Comp.c19_combine_is_product
#print axioms SciVerif.Comp.c19_combine_aligned
#print axioms SciVerif.Comp.c19_product_mem
#print axioms SciVerif.Comp.nodup_flatMap_cons
#print axioms SciVerif.Comp.c19_product_nodup
#print axioms SciVerif.Comp.c19_selector
#print axioms SciVerif.Comp.c19_selector_inconsistent
#print axioms SciVerif.Comp.c19_split_concat
#print axioms SciVerif.Comp.c19_split_bound
#print axioms SciVerif.Comp.c19_split_count
#print axioms SciVerif.Comp.c19_split_bytes
#print axioms SciVerif.Comp.scanLines_render
#print axioms SciVerif.Comp.c19_scanlines_roundtrip
#print axioms SciVerif.Comp.c19_concat
#print axioms SciVerif.Comp.lookup_addTo_same
#print axioms SciVerif.Comp.lookup_addTo_other
#print axioms SciVerif.Comp.ofGroup_cons_eq
#print axioms SciVerif.Comp.ofGroup_cons_ne
#print axioms SciVerif.Comp.concatFiles_cons
#print axioms SciVerif.Comp.concatLoop_spec
#print axioms SciVerif.Comp.c19_concat_grouped
