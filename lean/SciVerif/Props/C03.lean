import SciVerif.Lemmas.TaskSkip
import SciVerif.Lemmas.TaskSim
import SciVerif.Props.C01
import SciVerif.Props.C02
/-!
# C03 — restart after a crash converges to the uninterrupted result

Histories are lists of attempts `(n, clean)`: the attempt is killed after `n` micro-steps (any
instant), then leftovers are or are not removed, then the same task is started again; crashes
during recovery are simply further attempts.

* `c03_any_history_safe`: after **every** history and at every instant of the next attempt, each
  file at a final path that was not there before the first run is complete and stems from a
  successfully finished command ("whatever it finalizes before stopping is still correct").
* `c03_leftover_refuses`: with leftovers in place the re-run stops with a failure in its first
  step and changes nothing.
* `c03_finalized_not_reexecuted`: after cleanup, a task one of whose outputs was finalized is not
  executed again and its files are not touched.
* `c03_rerun_is_fresh_run`: after cleanup the re-run is, at every instant and in every file, temp dir,
  program counter and status, the run of the same task started for the first time in a directory that
  holds exactly the outputs finalized so far; so when nothing was finalized yet, the re-run **is** the
  uninterrupted run (`c03_converges`: for every history either some declared output is final — and
  then it is complete and the task is skipped, reaching `done` — or the next attempt after cleanup is
  step for step an uninterrupted first run). For tasks with one non-streaming output these two cases
  are the whole statement of the property; for several outputs the first case contains the window of F13.
* `c03_fails_in_window` (negative, listed finding F13): a two-output task killed between its two
  renames is skipped by the re-run, which reports success while the second output never appears.
-/
namespace SciVerif.TaskFS

theorem c03_any_history_safe (sem : Sem) (hwf : WF_C01 sem) (hwf3 : WF_C03 sem) (c : Cfg)
    (pre : Nat → Option File) (hist : List (Nat × Bool)) (n : Nat) (p : Nat) (f : File)
    (h : (stepN sem c n (runHistory sem c pre hist)).finalOut p = some f) (hfresh : f.fresh = true) :
    f.complete = true :=
  (B_history sem hwf hwf3 c pre hist n).fin_ok p f h hfresh

theorem c03_leftover_refuses (sem : Sem) (hwf3 : WF_C03 sem) (c : Cfg) (s : St) (htmp : s.tmp = true)
    (n : Nat) :
    (stepN sem c (n + 1) (restart sem s)).status = .failed ∧
    (stepN sem c (n + 1) (restart sem s)).finalOut = s.finalOut ∧
    (stepN sem c (n + 1) (restart sem s)).executed = s.executed := by
  unfold WF_C03 at hwf3
  cases hops : sem.ops with
  | nil => simp [hops] at hwf3
  | cons op rest =>
    simp [hops] at hwf3; subst hwf3
    have hstep : step sem c (restart sem s) = some (fail { restart sem s with pc := rest }) := by
      simp [step, restart, hops, htmp]
    simp only [stepN, hstep]
    rw [stepN_of_not_active sem c _ (by simp [fail]) n]
    simp [fail, restart]

theorem c03_finalized_not_reexecuted (sem : Sem) (hwf : WF_C02 sem) (c : Cfg) (s : St)
    (hex : anyFinalExists c s = true) (n : Nat) :
    (stepN sem c n (restart sem (cleanup s))).executed = s.executed ∧
    (stepN sem c n (restart sem (cleanup s))).finalOut = s.finalOut := by
  have hex' : anyFinalExists c (cleanup s) = true := by
    rw [anyFinalExists_congr c s (cleanup s) rfl]; exact hex
  exact c02_rerun_idempotent sem hwf c (cleanup s) rfl hex' n

/-- the state in which a task is started for the first time in a directory whose output files are `fo` -/
def freshStart (sem : Sem) (c : Cfg) (fo : Nat → Option File) : St :=
  { init sem c (fun _ => none) with finalOut := fo }

theorem c03_rerun_is_fresh_run (sem : Sem) (c : Cfg) (s : St) (n : Nat) :
    R (stepN sem c n (restart sem (cleanup s))) (stepN sem c n (freshStart sem c s.finalOut)) :=
  stepN_sim sem c n _ _ ⟨rfl, rfl, rfl, rfl, rfl, rfl, rfl, rfl⟩

/-- a first run in an empty directory is `freshStart` on no files -/
theorem init_eq_freshStart (sem : Sem) (c : Cfg) : init sem c (fun _ => none) = freshStart sem c (fun _ => none) := by
  simp [freshStart, init]

theorem c03_converges (sem : Sem) (hwf : WF_C01 sem) (hwf2 : WF_C02 sem) (hwf3 : WF_C03 sem) (c : Cfg)
    (hist : List (Nat × Bool)) (m : Nat) :
    let s := stepN sem c m (runHistory sem c (fun _ => none) hist)   -- killed here, then cleaned up
    (anyFinalExists c s = true ∧
      (∀ p f, s.finalOut p = some f → f.fresh = true → f.complete = true) ∧
      (∀ n, (stepN sem c n (restart sem (cleanup s))).finalOut = s.finalOut ∧
            (stepN sem c n (restart sem (cleanup s))).executed = s.executed) ∧
      (stepN sem c (sem.ops.length + 1) (restart sem (cleanup s))).status = .done) ∨
    (anyFinalExists c s = false ∧
      ∀ n, R (stepN sem c n (restart sem (cleanup s))) (stepN sem c n (freshStart sem c s.finalOut))) := by
  intro s
  cases hex : anyFinalExists c s with
  | false => exact Or.inr ⟨rfl, fun n => c03_rerun_is_fresh_run sem c s n⟩
  | true =>
    refine Or.inl ⟨rfl, ?_, ?_, ?_⟩
    · intro p f hf hfresh
      exact c03_any_history_safe sem hwf hwf3 c (fun _ => none) hist m p f hf hfresh
    · intro n
      have := c03_finalized_not_reexecuted sem hwf2 c s hex n
      exact ⟨this.2, this.1⟩
    · have hst : Start sem (restart sem (cleanup s)) := ⟨rfl, rfl, rfl, rfl, rfl⟩
      have hex' : anyFinalExists c (restart sem (cleanup s)) = true := by
        rw [anyFinalExists_congr c s (restart sem (cleanup s)) rfl]; exact hex
      exact K_progress sem c _ hex' sem.ops.length _ (K_start sem hwf2 c _ hst) (Nat.le_refl _)

/-- negative (F13): two outputs, killed right after the first rename, cleaned up, re-run to the
end: the run reports `done` (skipped), output 1 is missing for good -/
theorem c03_fails_in_window :
    let c : Cfg := { streams := [false, false], beh := { acts := [.write 0 1, .write 1 2], exit := .ok } }
    let crashed := stepN semGood c 12 (init semGood c fun _ => none)
    let rerun := stepN semGood c 100 (restart semGood (cleanup crashed))
    ((crashed.finalOut 0).isSome, (crashed.finalOut 1).isSome) = (true, false) ∧
    (rerun.status, rerun.skipped, (rerun.finalOut 1).isSome) = (.done, true, false) := by decide

end SciVerif.TaskFS

#print axioms SciVerif.TaskFS.c03_any_history_safe
#print axioms SciVerif.TaskFS.c03_leftover_refuses
#print axioms SciVerif.TaskFS.c03_finalized_not_reexecuted
#print axioms SciVerif.TaskFS.c03_fails_in_window
#print axioms SciVerif.TaskFS.c03_rerun_is_fresh_run
#print axioms SciVerif.TaskFS.init_eq_freshStart
#print axioms SciVerif.TaskFS.c03_converges
