import SciVerif.Model.Access
/-!
# C12 — no data races (partial: lock discipline at protocol level)

`c12_lockset`: in every well-formed trace (mutexes behave as mutexes), two accesses to the same
object made while holding the same mutex are ordered by happens-before — by program order if they
are by the same goroutine, and otherwise through a release of that mutex by the first goroutine and
a later acquire by the second. Hence every pair of conflicting accesses that the access table
(Tie A) shows to be under the object's lock is race-free, for every schedule.

`c12_channel_handover` / `c12_two_hops`: what an owner did to an object before it sent it on a channel
happens before everything the receiver does after receiving that message, through any number of hops — the
ownership discipline of IPs, tasks and parameter values travelling through ports needs no lock.

What the theorems do not cover and the evidence names: that each site really follows one of the two
disciplines (the access table shows the lock sites; the ownership and wiring-phase sites are listed site by
site in `Tie/C12.lean`) — and the Go memory model itself (the race detector's
happens-before analysis on real runs is the validation / search side).
-/
namespace SciVerif.Access

theorem holderAt_succ (tr : List Ev) (i : Nat) (hi : i < tr.length) :
    holderAt tr (i + 1) = upd (holderAt tr i) tr[i] := by
  unfold holderAt
  rw [List.take_succ_eq_append_getElem hi, List.foldl_append]
  rfl

/-- the holder of `m` stays `a` as long as `a` does not release it -/
theorem holder_stays (tr : List Ev) (hwf : WF tr) (m a i : Nat) (hh : holderAt tr i m = some a) :
    ∀ q, i ≤ q → q ≤ tr.length → (∀ k, i ≤ k → k < q → tr[k]? ≠ some (.rel a m)) → holderAt tr q m = some a := by
  intro q hiq
  induction q with
  | zero => intro _ _; have : i = 0 := by omega
            subst this; exact hh
  | succ q ih =>
    intro hql hno
    rcases Nat.lt_or_ge i (q + 1) with hlt | hge
    · have hq : q < tr.length := by omega
      have ihq := ih (by omega) (by omega) (fun k h1 h2 => hno k h1 (by omega))
      rw [holderAt_succ tr q hq]
      have hok := hwf q hq
      cases hev : tr[q] with
      | acq t m' =>
        simp only [upd]
        split
        · rename_i hmm; subst hmm
          rw [hev] at hok; simp only [okEv] at hok; rw [ihq] at hok; simp at hok
        · exact ihq
      | rel t m' =>
        simp only [upd]
        split
        · rename_i hmm; subst hmm
          rw [hev] at hok; simp only [okEv] at hok; rw [ihq] at hok
          simp at hok; subst hok
          exact absurd (by rw [List.getElem?_eq_getElem hq, hev]) (hno q (by omega) (by omega))
        · exact ihq
      | acc t x w => simpa [upd] using ihq
      | snd t c k => simpa [upd] using ihq
      | rcv t c k => simpa [upd] using ihq
    · have : i = q + 1 := by omega
      subst this; exact hh

/-- `b` holds `m` at `q` only if it acquired it at or after `p` — unless it already held it at `p` -/
theorem holder_needs_acq (tr : List Ev) (m b p : Nat) (hp : holderAt tr p m ≠ some b) :
    ∀ q, p ≤ q → q ≤ tr.length → (∀ k, p ≤ k → k < q → tr[k]? ≠ some (.acq b m)) → holderAt tr q m ≠ some b := by
  intro q hpq
  induction q with
  | zero => intro _ _; have : p = 0 := by omega
            subst this; exact hp
  | succ q ih =>
    intro hql hno
    rcases Nat.lt_or_ge p (q + 1) with hlt | hge
    · have hq : q < tr.length := by omega
      have ihq := ih (by omega) (by omega) (fun k h1 h2 => hno k h1 (by omega))
      rw [holderAt_succ tr q hq]
      cases hev : tr[q] with
      | acq t m' =>
        simp only [upd]
        split
        · rename_i hmm; subst hmm
          intro hcon; simp at hcon; subst hcon
          exact absurd (by rw [List.getElem?_eq_getElem hq, hev]) (hno q (by omega) (by omega))
        · exact ihq
      | rel t m' =>
        simp only [upd]
        split
        · simp
        · exact ihq
      | acc t x w => simpa [upd] using ihq
      | snd t c k => simpa [upd] using ihq
      | rcv t c k => simpa [upd] using ihq
    · have : p = q + 1 := by omega
      subst this; exact hp

/-- hand-over: if `a` holds `m` at `i` and a different `b` holds it at `j ≥ i`, then `a` released it
and `b` acquired it later, both in between -/
theorem handover (tr : List Ev) (hwf : WF tr) (m a b : Nat) (hab : a ≠ b) :
    ∀ (d i j : Nat), j = i + d → j ≤ tr.length → holderAt tr i m = some a → holderAt tr j m = some b →
      ∃ k k', i ≤ k ∧ k < k' ∧ k' < j ∧ tr[k]? = some (.rel a m) ∧ tr[k']? = some (.acq b m) := by
  intro d
  induction d with
  | zero =>
    intro i j hj _ ha hb
    subst hj; rw [ha] at hb; simp at hb; exact absurd hb hab
  | succ d ih =>
    intro i j hj hjl ha hb
    have hi : i < tr.length := by omega
    by_cases hrel : tr[i]? = some (.rel a m)
    · -- released right here; the acquisition by b comes later
      have hnone : holderAt tr (i + 1) m ≠ some b := by
        rw [holderAt_succ tr i hi]
        rw [List.getElem?_eq_getElem hi] at hrel
        simp at hrel
        simp [hrel, upd]
      have : ¬ (∀ k, i + 1 ≤ k → k < j → tr[k]? ≠ some (.acq b m)) := by
        intro hno
        exact holder_needs_acq tr m b (i + 1) hnone j (by omega) hjl hno hb
      have hex : ∃ k, i + 1 ≤ k ∧ k < j ∧ tr[k]? = some (.acq b m) := by
        apply Classical.byContradiction
        intro hne
        apply this
        intro k h1 h2 h3
        exact hne ⟨k, h1, h2, h3⟩
      obtain ⟨k', h1, h2, h3⟩ := hex
      exact ⟨i, k', Nat.le_refl _, by omega, h2, hrel, h3⟩
    · -- still held by a one step later
      have hstay : holderAt tr (i + 1) m = some a :=
        holder_stays tr hwf m a i ha (i + 1) (by omega) (by omega) (by
          intro k h1 h2
          have : k = i := by omega
          subst this; exact hrel)
      obtain ⟨k, k', h1, h2, h3, h4, h5⟩ := ih (i + 1) j (by omega) hjl hstay hb
      exact ⟨k, k', by omega, h2, h3, h4, h5⟩

/-- C12's core: two accesses under the same mutex are ordered by happens-before -/
theorem c12_lockset (tr : List Ev) (hwf : WF tr) (i j a b x m : Nat) (w1 w2 : Bool)
    (hij : i < j) (hj : j < tr.length)
    (hi_ev : tr[i]? = some (.acc a x w1)) (hj_ev : tr[j]? = some (.acc b x w2))
    (hli : holderAt tr i m = some a) (hlj : holderAt tr j m = some b) : HB tr i j := by
  have hi : i < tr.length := by omega
  by_cases hab : a = b
  · subst hab
    apply HB.po hij hi hj
    rw [List.getElem?_eq_getElem hi] at hi_ev
    rw [List.getElem?_eq_getElem hj] at hj_ev
    simp at hi_ev hj_ev
    simp [hi_ev, hj_ev, Ev.tid]
  · obtain ⟨k, k', h1, h2, h3, h4, h5⟩ := handover tr hwf m a b hab (j - i) i j (by omega) (by omega) hli hlj
    have hk : k < tr.length := by omega
    have hk' : k' < tr.length := by omega
    have hik : i < k := by
      rcases Nat.lt_or_ge i k with h | h
      · exact h
      · have : k = i := by omega
        subst this; rw [hi_ev] at h4; simp at h4
    -- i →po k →sync k' →po j
    refine HB.trans (HB.po hik hi hk ?_) (HB.trans (HB.sync h2 h4 h5) (HB.po h3 hk' hj ?_))
    · rw [List.getElem?_eq_getElem hi] at hi_ev
      rw [List.getElem?_eq_getElem hk] at h4
      simp at hi_ev h4
      simp [hi_ev, h4, Ev.tid]
    · rw [List.getElem?_eq_getElem hk'] at h5
      rw [List.getElem?_eq_getElem hj] at hj_ev
      simp at h5 hj_ev
      simp [h5, hj_ev, Ev.tid]

/-- ownership handed over through a channel: what the sender did to an object before the `k`-th send on
a channel happens before everything the receiver of that message does afterwards — so an object that is
accessed only by its current owner (creator until it is sent, receiver from then on) is race-free without
any lock. This is the discipline of IPs, tasks and parameter values travelling through ports. -/
theorem c12_channel_handover (tr : List Ev) (p i j q a b x c k : Nat) (w1 w2 : Bool)
    (hpi : p < i) (hij : i < j) (hjq : j < q) (hq : q < tr.length)
    (hp_ev : tr[p]? = some (.acc a x w1)) (hi_ev : tr[i]? = some (.snd a c k))
    (hj_ev : tr[j]? = some (.rcv b c k)) (hq_ev : tr[q]? = some (.acc b x w2)) : HB tr p q := by
  have hp : p < tr.length := by omega
  have hi : i < tr.length := by omega
  have hj : j < tr.length := by omega
  refine HB.trans (HB.po hpi hp hi ?_) (HB.trans (HB.chan hij hi_ev hj_ev) (HB.po hjq hj hq ?_))
  · rw [List.getElem?_eq_getElem hp] at hp_ev
    rw [List.getElem?_eq_getElem hi] at hi_ev
    simp at hp_ev hi_ev
    simp [hp_ev, hi_ev, Ev.tid]
  · rw [List.getElem?_eq_getElem hj] at hj_ev
    rw [List.getElem?_eq_getElem hq] at hq_ev
    simp at hj_ev hq_ev
    simp [hj_ev, hq_ev, Ev.tid]

/-- two hops (source → process → downstream): the first owner's access before it passed the object on happens
before the third owner's access after it received it, although the middle owner never touches a lock; longer
chains compose in the same way (`HB.trans`) -/
theorem c12_two_hops (tr : List Ev) (p i j i2 j2 q a b c3 x c k c' k' : Nat) (w1 w2 : Bool)
    (h1 : p < i) (h2 : i < j) (h3 : j < i2) (h4 : i2 < j2) (h5 : j2 < q) (hq : q < tr.length)
    (hp_ev : tr[p]? = some (.acc a x w1)) (hi_ev : tr[i]? = some (.snd a c k)) (hj_ev : tr[j]? = some (.rcv b c k))
    (hi2_ev : tr[i2]? = some (.snd b c' k')) (hj2_ev : tr[j2]? = some (.rcv c3 c' k'))
    (hq_ev : tr[q]? = some (.acc c3 x w2)) : HB tr p q := by
  have hp : p < tr.length := by omega
  have hi : i < tr.length := by omega
  have hj : j < tr.length := by omega
  have hi2 : i2 < tr.length := by omega
  have hj2 : j2 < tr.length := by omega
  have e1 : HB tr p i := by
    apply HB.po h1 hp hi
    rw [List.getElem?_eq_getElem hp] at hp_ev; rw [List.getElem?_eq_getElem hi] at hi_ev
    simp at hp_ev hi_ev; simp [hp_ev, hi_ev, Ev.tid]
  have e3 : HB tr j i2 := by
    apply HB.po h3 hj hi2
    rw [List.getElem?_eq_getElem hj] at hj_ev; rw [List.getElem?_eq_getElem hi2] at hi2_ev
    simp at hj_ev hi2_ev; simp [hj_ev, hi2_ev, Ev.tid]
  have e5 : HB tr j2 q := by
    apply HB.po h5 hj2 hq
    rw [List.getElem?_eq_getElem hj2] at hj2_ev; rw [List.getElem?_eq_getElem hq] at hq_ev
    simp at hj2_ev hq_ev; simp [hj2_ev, hq_ev, Ev.tid]
  exact HB.trans e1 (HB.trans (HB.chan h2 hi_ev hj_ev) (HB.trans e3 (HB.trans (HB.chan h4 hi2_ev hj2_ev) e5)))

/-- non-vacuity of the hand-over theorem: an IP written by its creator, sent on a port, read by the receiver -/
def demoChan : List Ev := [.acc 0 7 true, .snd 0 3 0, .rcv 1 3 0, .acc 1 7 false]
example : demoChan[0]? = some (.acc 0 7 true) ∧ demoChan[1]? = some (.snd 0 3 0) ∧
    demoChan[2]? = some (.rcv 1 3 0) ∧ demoChan[3]? = some (.acc 1 7 false) ∧ ChanWF demoChan := by
  refine ⟨rfl, rfl, rfl, rfl, ?_⟩
  intro j b c k h
  have : j = 2 := by
    match j with
    | 0 => simp [demoChan] at h
    | 1 => simp [demoChan] at h
    | 2 => rfl
    | 3 => simp [demoChan] at h
    | j + 4 => simp [demoChan] at h
  subst this
  simp [demoChan] at h
  obtain ⟨rfl, rfl, rfl⟩ := h
  exact ⟨1, 0, by omega, rfl⟩

/-- non-vacuity: a two-goroutine trace in which both access object 7 under mutex 1 is well formed -/
def demo : List Ev := [.acq 0 1, .acc 0 7 true, .rel 0 1, .acq 1 1, .acc 1 7 false, .rel 1 1]
example : holderAt demo 1 1 = some 0 ∧ holderAt demo 4 1 = some 1 := by decide

/-- negative: without the mutex around the first access nothing orders the two accesses by the
rules above — the trace is well formed, the first access holds no lock -/
example : holderAt [Ev.acc 0 7 true, .acq 1 1, .acc 1 7 false, .rel 1 1] 0 1 = none := by decide

end SciVerif.Access

#print axioms SciVerif.Access.holderAt_succ
#print axioms SciVerif.Access.holder_stays
#print axioms SciVerif.Access.holder_needs_acq
#print axioms SciVerif.Access.handover
#print axioms SciVerif.Access.c12_lockset
#print axioms SciVerif.Access.c12_channel_handover
#print axioms SciVerif.Access.c12_two_hops
