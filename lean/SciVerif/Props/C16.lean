import SciVerif.Lemmas.Graph
/-!
# C16 — only fully wired workflows run; RunTo executes exactly the upstream closure

* `c16_closure_is_upstream`: for every acyclic graph the recursion of `upstreamProcsForProc`
  (skipping self-fed parameter ports) terminates and returns exactly the processes from which the
  target is reachable through file or parameter connections.
* `c16_runset_is_closure`: the set handed to `runProcs` by `RunTo(ts)` is `ts` plus the upstream
  closure of every target, without duplicates.
* `c16_outside_never_started`: whatever the record, nothing outside that set is started.
* `c16_each_started_once`: with a good record every process of the run set is started exactly once
  (as a goroutine or as the driver), and the sink is run and waited for when it is not the driver.
* `c16_unconnected_refused`: with a good record an unconnected in- or parameter port of any process of
  the run set — including the one that becomes the driver — makes `runProcs` fail before start.
* negatives (what each flag of the record protects): `c16_recursion_without_skipSelf` (F9),
  `c16_double_start_runto` (F2), `c16_double_start_single` (F21), `c16_driver_not_checked` (F16),
  `c16_sink_not_run` (F1), `c16_param_closure_not_merged` (closure through parameter connections dropped).
-/
namespace SciVerif.Graph

theorem c16_closure_is_upstream (wf : Wf) (hac : acyclic wf) (p f : Nat) (hf : p < f) :
    ∃ l, closureF wf true f p = some l ∧ ∀ q, q ∈ l ↔ Reach wf q p := closure_spec wf hac p f hf

theorem c16_runset_is_closure (sem : RunSem) (hs : sem.skipSelf = true) (hmf : sem.mergesFile = true)
    (hmp : sem.mergesParam = true) (wf : Wf) (hac : acyclic wf)
    (ts : List Nat) (hts : ∀ t ∈ ts, t ≤ wf.n) :
    ∃ rs, runSet sem wf (some ts) = some rs ∧ rs.Nodup ∧
      ∀ q, q ∈ rs ↔ q ∈ ts ∨ ∃ t ∈ ts, Reach wf q t := by
  have hall : ∀ t ∈ ts, ∃ a, closureF wf true (wf.n + 1) t = some a := by
    intro t ht
    obtain ⟨l, hl, _⟩ := closure_spec wf hac t (wf.n + 1) (by have := hts t ht; omega)
    exact ⟨l, hl⟩
  obtain ⟨l, hl, hm⟩ := collect_spec _ ts hall
  have hfun : closureK wf true true true (wf.n + 1) = closureF wf true (wf.n + 1) := funext fun p => closureK_true wf true _ p
  refine ⟨dedup l, by simp [runSet, hs, hmf, hmp, hfun, hl], nodup_dedup l, ?_⟩
  intro q
  rw [mem_dedup, hm q]
  constructor
  · rintro ⟨t, ht, rfl | ⟨a, ha, hq⟩⟩
    · exact Or.inl ht
    · obtain ⟨l', hl', hm'⟩ := closure_spec wf hac t (wf.n + 1) (by have := hts t ht; omega)
      rw [hl'] at ha; simp at ha; subst ha
      exact Or.inr ⟨t, ht, (hm' q).1 hq⟩
  · rintro (h | ⟨t, ht, hr⟩)
    · exact ⟨q, h, Or.inl rfl⟩
    · obtain ⟨l', hl', hm'⟩ := closure_spec wf hac t (wf.n + 1) (by have := hts t ht; omega)
      exact ⟨t, ht, Or.inr ⟨l', hl', (hm' q).2 hr⟩⟩

/-- reachability composes -/
theorem reach_trans (wf : Wf) {a b c : Nat} (h1 : Reach wf a b) (h2 : Reach wf b c) : Reach wf a c := by
  induction h2 with
  | direct hb => exact Reach.trans hb h1
  | trans hu _ ih => exact Reach.trans hu ih

/-- the run set of `RunTo` is closed under "upstream of": every process that feeds a started process is started
too, so no started process waits on an in-port whose producer does not run (the other direction — out-ports
whose consumers do not run — is what `reconnectDeadEndConnections` redirects to the sink) -/
theorem c16_runset_upstream_closed (sem : RunSem) (hs : sem.skipSelf = true) (hmf : sem.mergesFile = true)
    (hmp : sem.mergesParam = true) (wf : Wf) (hac : acyclic wf)
    (ts : List Nat) (hts : ∀ t ∈ ts, t ≤ wf.n) (rs : List Nat) (hrs : runSet sem wf (some ts) = some rs)
    (q u : Nat) (hq : q ∈ rs) (hu : u ∈ ups wf true q) : u ∈ rs := by
  obtain ⟨rs', hrs', _, hmem⟩ := c16_runset_is_closure sem hs hmf hmp wf hac ts hts
  rw [hrs] at hrs'; simp at hrs'; subst hrs'
  rw [hmem] at hq ⊢
  rcases hq with hq | ⟨t, ht, hr⟩
  · exact Or.inr ⟨q, hq, Reach.direct hu⟩
  · exact Or.inr ⟨t, ht, reach_trans wf (Reach.direct hu) hr⟩

/-! ### rewiring for `RunTo` -/

/-- no connection leaves the run set: both ends of every remaining connection are started processes (or the sink) -/
theorem c16_reconnect_confined (rs : List Nat) (ops : List OutP) (conns : List (OutP × InP))
    (c : OutP × Option InP) (hc : c ∈ reconnect rs ops conns) :
    c.1.1 ∈ rs ∧ ∀ d, c.2 = some d → d.1 ∈ rs := by
  simp only [reconnect, List.mem_append, List.mem_map, List.mem_filter] at hc
  rcases hc with ⟨x, ⟨_, hx⟩, rfl⟩ | ⟨op, ⟨_, hop⟩, rfl⟩
  · simp at hx
    exact ⟨hx.1, by intro d hd; simp at hd; subst hd; exact hx.2⟩
  · simp at hop
    exact ⟨hop.1, by intro d hd; simp at hd⟩

/-- every out-port of a started process ends up with a consumer — a started process or the sink — so the
process is `Ready` and none of its sends waits for a process that does not run -/
theorem c16_reconnect_every_outport_consumed (rs : List Nat) (ops : List OutP) (conns : List (OutP × InP))
    (op : OutP) (hop : op ∈ ops) (hrs : op.1 ∈ rs) : ∃ c ∈ reconnect rs ops conns, c.1 = op := by
  by_cases hk : ((conns.filter fun c => rs.contains c.1.1 && rs.contains c.2.1).any fun c => c.1 == op) = true
  · obtain ⟨x, hx, hxo⟩ := List.any_eq_true.1 hk
    refine ⟨(x.1, some x.2), ?_, by simpa using hxo⟩
    simp only [reconnect, List.mem_append, List.mem_map]
    exact Or.inl ⟨x, hx, rfl⟩
  · refine ⟨(op, none), ?_, rfl⟩
    simp only [reconnect, List.mem_append, List.mem_map, List.mem_filter]
    refine Or.inr ⟨op, ⟨hop, ?_⟩, rfl⟩
    simp only [Bool.not_eq_true] at hk
    simp only [Bool.and_eq_true, Bool.not_eq_true']
    exact ⟨by simpa using hrs, hk⟩

/-- a started process keeps every producer of its in-ports, provided the run set is closed under "upstream of"
(`c16_runset_upstream_closed`) -/
theorem c16_reconnect_keeps_producers (rs : List Nat) (ops : List OutP) (conns : List (OutP × InP))
    (hup : ∀ c ∈ conns, c.2.1 ∈ rs → c.1.1 ∈ rs) (c : OutP × InP) (hc : c ∈ conns) (hp : c.2.1 ∈ rs) :
    (c.1, some c.2) ∈ reconnect rs ops conns := by
  simp only [reconnect, List.mem_append, List.mem_map, List.mem_filter]
  exact Or.inl ⟨c, ⟨hc, by simp [hup c hc hp, hp]⟩, rfl⟩

/-- the sink takes over exactly the out-ports that lost (or never had) every consumer -/
theorem c16_reconnect_sink_only_dead_ends (rs : List Nat) (ops : List OutP) (conns : List (OutP × InP))
    (op : OutP) (h : (op, none) ∈ reconnect rs ops conns) : ∀ d, (op, some d) ∉ reconnect rs ops conns := by
  intro d hd
  simp only [reconnect, List.mem_append, List.mem_map, List.mem_filter] at h hd
  rcases h with ⟨x, _, hx⟩ | ⟨op', ⟨_, hdead⟩, hop'⟩
  · simp at hx
  · simp at hop'; subst hop'
    rcases hd with ⟨x, hxk, hx⟩ | ⟨op'', _, hx⟩
    · simp at hx
      simp only [Bool.and_eq_true, Bool.not_eq_true'] at hdead
      have := List.any_eq_false.1 hdead.2 x (List.mem_filter.2 hxk)
      simp [hx.1] at this
    · simp at hx

/-- non-vacuity: P0 → P1 → P2 and P0 → P3; RunTo P1 keeps P0 → P1, cuts P1 → P2 and P0 → P3 and gives both
dangling out-ports to the sink -/
example : reconnect [0, 1] [(0, 0), (0, 1), (1, 0)] [((0, 0), (1, 0)), ((1, 0), (2, 0)), ((0, 1), (3, 0))] =
    [((0, 0), some (1, 0)), ((0, 1), none), ((1, 0), none)] := by decide

theorem planLeaf_started (sem : RunSem) (wf : Wf) (rs : List Nat) (isRun : Bool) (dd : Nat) (gs : List Nat)
    (d : Option Nat) (b : Bool) (hp : planLeaf sem wf rs isRun dd = .started gs d b) :
    gs = goroutines sem rs isRun dd ∧ d = some dd ∧ b = sem.sinkWaited := by
  unfold planLeaf at hp
  split at hp
  · simp at hp
  · simp at hp; exact ⟨hp.1.symm, hp.2.1.symm, hp.2.2.symm⟩

theorem mem_goroutines (sem : RunSem) (rs : List Nat) (isRun : Bool) (dd p : Nat)
    (h : p ∈ goroutines sem rs isRun dd) : p ∈ rs := by
  unfold goroutines at h
  split at h
  · exact (List.mem_filter.1 h).1
  · exact h

theorem c16_outside_never_started (sem : RunSem) (wf : Wf) (targets : Option (List Nat)) (rs gs : List Nat)
    (d : Option Nat) (b : Bool) (hrs : runSet sem wf targets = some rs)
    (hp : plan sem wf targets = .started gs d b) :
    (∀ p ∈ gs, p ∈ rs) ∧ (∀ x, d = some x → x ∈ rs) := by
  unfold plan at hp
  rw [hrs] at hp
  simp only at hp
  split at hp
  · simp at hp
  · split at hp
    · simp at hp
    · split at hp
      · simp at hp; obtain ⟨rfl, rfl, _⟩ := hp; exact ⟨fun p hp => hp, by simp⟩
      · simp at hp
    · rename_i dd hleaves
      have hd : dd ∈ rs := by
        have : dd ∈ rs.filter fun p => !(wf.hasOut.getD p true) := by rw [hleaves]; simp
        exact (List.mem_filter.1 this).1
      obtain ⟨rfl, rfl, _⟩ := planLeaf_started sem wf rs _ dd gs d b hp
      exact ⟨fun p hp => mem_goroutines sem rs _ dd p hp, by intro x hx; simp at hx; subst hx; exact hd⟩

theorem removedB_good (sem : RunSem) (hg : good sem) (rs : List Nat) (isRun : Bool) : removedB sem rs isRun = true := by
  obtain ⟨_, hrem, hsingle, _, _, _⟩ := hg
  simp [removedB, hrem, hsingle]

theorem c16_each_started_once (sem : RunSem) (hg : good sem) (wf : Wf) (targets : Option (List Nat))
    (rs gs : List Nat) (d : Option Nat) (b : Bool) (hrs : runSet sem wf targets = some rs) (hnd : rs.Nodup)
    (hp : plan sem wf targets = .started gs d b) :
    gs.Nodup ∧ (∀ x, d = some x → x ∉ gs) ∧ (∀ p ∈ rs, p ∈ gs ∨ d = some p) ∧ b = true := by
  have hsink := hg.2.2.2.2.1
  unfold plan at hp
  rw [hrs] at hp
  simp only at hp
  split at hp
  · simp at hp
  · split at hp
    · simp at hp
    · split at hp
      · simp at hp; obtain ⟨rfl, rfl, rfl⟩ := hp
        exact ⟨hnd, by simp, fun p hp => Or.inl hp, rfl⟩
      · simp at hp
    · rename_i dd hleaves
      obtain ⟨rfl, rfl, rfl⟩ := planLeaf_started sem wf rs _ dd gs d b hp
      simp only [goroutines, removedB_good sem hg, if_true]
      refine ⟨hnd.filter _, ?_, ?_, hsink⟩
      · intro x hx; simp at hx; subst hx; simp
      · intro p hp
        by_cases hpd : p = dd
        · exact Or.inr (by rw [hpd])
        · exact Or.inl (List.mem_filter.2 ⟨hp, by simpa using hpd⟩)

theorem c16_unconnected_refused (sem : RunSem) (hg : good sem) (wf : Wf) (targets : Option (List Nat))
    (rs : List Nat) (hrs : runSet sem wf targets = some rs) (p : Nat) (hp : p ∈ rs) (hnr : ready wf p = false) :
    plan sem wf targets = .refused := by
  have hchk := hg.2.2.2.1
  have hbefore := hg.2.2.2.2.2.1
  unfold plan
  rw [hrs]
  simp only
  split
  · rfl
  · split
    · rfl
    · have : rs.all (ready wf) = false := by
        rw [List.all_eq_false]; exact ⟨p, hp, by simp [hnr]⟩
      simp [this]
    · rename_i dd hleaves
      unfold planLeaf
      have hall : (checkedSet sem rs targets.isNone dd).all (ready wf) = false := by
        rw [List.all_eq_false]
        refine ⟨p, ?_, by simp [hnr]⟩
        simp only [checkedSet, goroutines, removedB_good sem hg, hchk, Bool.and_self, if_true, List.mem_append,
          List.mem_filter, List.mem_singleton]
        by_cases hpd : p = dd
        · exact Or.inr hpd
        · exact Or.inl ⟨hp, by simpa using hpd⟩
      simp [hbefore, hall]

/-! ### negatives -/

def wfSelf : Wf := { n := 1, edges := [], inPorts := [1], hasOut := [true], selfFed := [(0, 0)] }
def wfLeaf : Wf := { n := 2, edges := [(0, 1, 0)], inPorts := [0, 1], hasOut := [true, false], selfFed := [] }
def wfLeafOpen : Wf := { n := 2, edges := [], inPorts := [0, 1], hasOut := [true, false], selfFed := [] }
def wfSingle : Wf := { n := 1, edges := [], inPorts := [0], hasOut := [false], selfFed := [] }
def semGood : RunSem := ⟨true, true, false, true, true, true, true, true⟩

/-- F9: a FromStr-fed port makes the unguarded recursion diverge for every fuel -/
theorem c16_recursion_without_skipSelf (f : Nat) : closureF wfSelf false f 0 = none :=
  closure_diverges wfSelf 0 (by decide) f

/-- F2: RunTo on a target without out-ports starts it twice when the driver is deleted from the wrong map -/
theorem c16_double_start_runto :
    plan { semGood with driverRemovedFromArg := false } wfLeaf (some [1]) = .started [1, 0] (some 1) true := by decide

/-- F21: a single process without out-ports is started twice -/
theorem c16_double_start_single :
    plan { semGood with singleProcKept := true } wfSingle none = .started [0] (some 0) true := by decide

/-- F16: an unconnected port of the process that becomes the driver is not noticed -/
theorem c16_driver_not_checked :
    plan { semGood with driverReadyChecked := false } wfLeafOpen none = .started [0] (some 1) true ∧
    plan semGood wfLeafOpen none = .refused := by decide

/-- F1: with a non-sink driver the sink is never run -/
theorem c16_sink_not_run :
    plan { semGood with sinkWaited := false } wfLeaf none = .started [0] (some 1) false := by decide

/-- a parameter producer (1) with an upstream of its own (0), feeding the parameter port of 2 -/
def wfParamChain : Wf :=
  { n := 3, edges := [(0, 1, 0), (1, 2, 0)], inPorts := [0, 1, 1], hasOut := [true, true, true], selfFed := [],
    paramPorts := [(1, 0), (2, 0)] }

/-- when the closure reached through a parameter connection is not merged, `RunTo` leaves out the
processes upstream of the parameter producer (which then waits for them forever) -/
theorem c16_param_closure_not_merged :
    plan { semGood with mergesParam := false } wfParamChain (some [2]) = .started [2, 1] none true ∧
    plan semGood wfParamChain (some [2]) = .started [2, 1, 0] none true := by decide

example : good semGood ∧ acyclic wfLeaf := by decide

end SciVerif.Graph

#print axioms SciVerif.Graph.c16_closure_is_upstream
#print axioms SciVerif.Graph.c16_runset_is_closure
#print axioms SciVerif.Graph.reach_trans
#print axioms SciVerif.Graph.c16_runset_upstream_closed
#print axioms SciVerif.Graph.c16_reconnect_confined
#print axioms SciVerif.Graph.c16_reconnect_every_outport_consumed
#print axioms SciVerif.Graph.c16_reconnect_keeps_producers
#print axioms SciVerif.Graph.c16_reconnect_sink_only_dead_ends
#print axioms SciVerif.Graph.planLeaf_started
#print axioms SciVerif.Graph.mem_goroutines
#print axioms SciVerif.Graph.removedB_good
#print axioms SciVerif.Graph.c16_outside_never_started
#print axioms SciVerif.Graph.c16_each_started_once
#print axioms SciVerif.Graph.c16_unconnected_refused
#print axioms SciVerif.Graph.c16_recursion_without_skipSelf
#print axioms SciVerif.Graph.c16_double_start_runto
#print axioms SciVerif.Graph.c16_double_start_single
#print axioms SciVerif.Graph.c16_driver_not_checked
#print axioms SciVerif.Graph.c16_sink_not_run
#print axioms SciVerif.Graph.c16_param_closure_not_merged
