import SciVerif.Model.Stream
import SciVerif.Lemmas.TaskFS
import SciVerif.Lemmas.SlotsBarrier
import SciVerif.Props.C04
/-!
# C17 — streaming outputs through a FIFO (partial: protocol level)

Proved:
* `c17_no_regular_file`: in the task / file-system model, for every record with `WF_C01` whose
  finalization leaves streaming outputs alone, nothing ever appears at the final path of a streaming
  out-port — whatever the command does and whenever the run stops.
* `c17_pair_no_deadlock`, `c17_pair_fifo_removed`: in a fresh run of a producer/consumer pair every
  reachable non-final state has an enabled step, and in every final state the FIFO is gone
  (finite protocol: closure computed by `explore`, checked by `decide`, lifted by `reach_in_closure`).
* `c17_slots_suffice`: with enough slots for all 2n tasks at once, slot acquisition never blocks the
  pairs even though no producer can finish before its consumer runs (rendezvous theorem of C07).
* `c17_bytes_equal`: what the consumer has read when the pipe is closed and drained is exactly what
  the producer wrote, in order (the byte stream is a bounded FIFO channel: C04's theorem).
* `c17_audit_link_partial`: if the consumer's record says "linked", the producer had set its
  record before the consumer read it.
Negative (both reproduced on the real code, listed findings):
* `c17_rerun_hangs` (F10): when the consumer's outputs exist the consumer is skipped, never opens
  the pipe, and the producer stays blocked in `open` for ever.
* `c17_audit_link_race` (F15): the consumer may read the streamed IP's record before the producer
  has set it, and then records an empty upstream.
Not exhibited by the model: kernel pipe buffering and `open(2)` blocking semantics, relative timing
of process exit (covered by the harness with payloads around the pipe buffer and lingering variants).
-/
namespace SciVerif.Stream

theorem step_mem_succs (e : Bool) (s s' : St) (l : Label) (h : step e s l = some s') : s' ∈ succs e s := by
  unfold succs
  rw [List.mem_filterMap]
  exact ⟨l, by cases l <;> simp [allLabels], h⟩

theorem run_in_closure (e : Bool) (C : List St) (hclosed : ∀ s ∈ C, ∀ s' ∈ succs e s, s' ∈ C)
    (ls : List Label) (s0 s : St) (h0 : s0 ∈ C) (hr : run e s0 ls = some s) : s ∈ C := by
  induction ls generalizing s0 with
  | nil => simp [run] at hr; subst hr; exact h0
  | cons l ls ih =>
    simp only [run] at hr
    split at hr
    · simp at hr
    · rename_i s1 hs1
      exact ih s1 (hclosed s0 h0 s1 (step_mem_succs e s0 s1 l hs1)) hr

/-- a set of states that contains the initial state and is closed under steps contains every reachable state -/
theorem reach_in_closure (e : Bool) (C : List St) (hinit : init ∈ C)
    (hclosed : ∀ s ∈ C, ∀ s' ∈ succs e s, s' ∈ C) (ls : List Label) (s : St) (h : run e init ls = some s) : s ∈ C :=
  run_in_closure e C hclosed ls init s hinit h

def closureFresh : List St := explore false 30 [init]
def closureRerun : List St := explore true 30 [init]

theorem closureFresh_closed : ∀ s ∈ closureFresh, ∀ s' ∈ succs false s, s' ∈ closureFresh := by decide
theorem closureRerun_closed : ∀ s ∈ closureRerun, ∀ s' ∈ succs true s, s' ∈ closureRerun := by decide

/-- fresh run: no reachable state is stuck before both tasks are done -/
theorem c17_pair_no_deadlock (ls : List Label) (s : St) (h : run false init ls = some s) (hnf : isFinal s = false) :
    succs false s ≠ [] := by
  have hmem := reach_in_closure false closureFresh (by decide) closureFresh_closed ls s h
  have hall : ∀ t ∈ closureFresh, isFinal t = false → succs false t ≠ [] := by decide
  exact hall s hmem hnf

/-- in every final state the FIFO has been removed -/
theorem c17_pair_fifo_removed (e : Bool) (ls : List Label) (s : St) (h : run e init ls = some s)
    (hf : isFinal s = true) : s.fifo = false := by
  cases e with
  | false =>
    have hmem := reach_in_closure false closureFresh (by decide) closureFresh_closed ls s h
    have hall : ∀ t ∈ closureFresh, isFinal t = true → t.fifo = false := by decide
    exact hall s hmem hf
  | true =>
    have hmem := reach_in_closure true closureRerun (by decide) closureRerun_closed ls s h
    have hall : ∀ t ∈ closureRerun, isFinal t = true → t.fifo = false := by decide
    exact hall s hmem hf

/-- a "linked" consumer record implies the producer's record was set before it was read -/
theorem c17_audit_link_partial (e : Bool) (ls : List Label) (s : St) (h : run e init ls = some s)
    (hl : s.cons = .auditRead true ∨ s.cons = .done true) : prodHasAudit s.prod = true := by
  cases e with
  | false =>
    have hmem := reach_in_closure false closureFresh (by decide) closureFresh_closed ls s h
    have hall : ∀ t ∈ closureFresh, (t.cons = .auditRead true ∨ t.cons = .done true) → prodHasAudit t.prod = true := by decide
    exact hall s hmem hl
  | true =>
    have hmem := reach_in_closure true closureRerun (by decide) closureRerun_closed ls s h
    have hall : ∀ t ∈ closureRerun, (t.cons = .auditRead true ∨ t.cons = .done true) → prodHasAudit t.prod = true := by decide
    exact hall s hmem hl

/-- negative (F10): re-run with the consumer's outputs on disk — stuck with the producer blocked -/
theorem c17_rerun_hangs :
    ∃ s, run true init [.accept, .create, .skip] = some s ∧ s.prod = .waitingOpen ∧ isFinal s = false ∧ succs true s = [] := by
  exact ⟨_, rfl, rfl, by decide, by decide⟩

/-- negative (F15): the consumer reads the record before the producer has set it -/
theorem c17_audit_link_race :
    ∃ s, run false init [.accept, .create, .connect, .prodFinish, .consFinish, .consAudit, .prodAudit, .prodDone, .consDone] = some s ∧
      isFinal s = true ∧ s.cons = .done false := ⟨_, rfl, by decide, rfl⟩

/-- … while the other order links them (the outcome depends on timing) -/
example : ∃ s, run false init [.accept, .create, .connect, .prodFinish, .consFinish, .prodAudit, .consAudit, .prodDone, .consDone] = some s ∧
      s.cons = .done true := ⟨_, rfl, rfl⟩

end SciVerif.Stream

namespace SciVerif.TaskFS

/-- invariant: streaming ports never get a final file; the rename list holds non-streaming ports only -/
structure NS (sem : Sem) (c : Cfg) (s0 s : St) : Prop where
  unchanged : ∀ p, isStream c p = true → s.finalOut p = s0.finalOut p
  ports     : ∀ f, s.finpc = some f → ∀ p ∈ f.ports, isStream c p = false

theorem mem_finPorts (sem : Sem) (hse : sem.streamsExempt = true) (c : Cfg) (p : Nat) (h : p ∈ finPorts sem c) :
    isStream c p = false := by
  simp only [finPorts, hse, if_true, nonStreamPorts, List.mem_filter] at h
  simpa using h.2

theorem NS_of {sem : Sem} {c : Cfg} {s0 s s' : St} (h : NS sem c s0 s) (h1 : s'.finalOut = s.finalOut)
    (h2 : ∀ f, s'.finpc = some f → ∀ p ∈ f.ports, isStream c p = false) : NS sem c s0 s' :=
  ⟨fun p hp => by rw [h1]; exact h.unchanged p hp, h2⟩

theorem ports_of_none {c : Cfg} {s' : St} (h : s'.finpc = none) :
    ∀ f, s'.finpc = some f → ∀ p ∈ f.ports, isStream c p = false := by
  intro f hf; rw [h] at hf; simp at hf

theorem step_NS (sem : Sem) (hwf : WF_C01 sem) (hse : sem.streamsExempt = true) (c : Cfg) (s0 s s' : St)
    (h : NS sem c s0 s) (hs : step sem c s = some s') : NS sem c s0 s' := by
  obtain ⟨hfat, hop, hren⟩ := hwf
  have hfp := mem_finPorts sem hse c
  unfold step at hs
  split at hs
  · simp at hs
  · split at hs
    · rename_i f hf
      simp at hs; subst hs
      unfold stepFin
      cases htodo : f.todo with
      | nil => exact NS_of h rfl (by simp)
      | cons op rest =>
        cases op with
        | renameDeclared =>
          simp only
          cases hports : f.ports with
          | nil => exact NS_of h rfl (by intro g hg p hp; simp at hg; subst hg; exact hfp p hp)
          | cons p ps =>
            simp only [hren, if_true, getF]
            have hp : isStream c p = false := h.ports f hf p (by simp [hports])
            cases ht : s.tempOut p with
            | none => exact NS_of h rfl (ports_of_none (by simp [fail, hf]))
            | some file =>
              refine ⟨?_, ?_⟩
              · intro q hq
                simp only [upd]
                split
                · rename_i hqp; subst hqp; rw [hp] at hq; simp at hq
                · exact h.unchanged q hq
              · intro g hg q hq
                simp at hg; subst hg
                exact h.ports f hf q (by simp [hports, hq])
        | moveExtras => exact NS_of h rfl (by intro g hg p hp; simp at hg; subst hg; exact hfp p hp)
        | removeTemp => exact NS_of h rfl (by intro g hg p hp; simp at hg; subst hg; exact hfp p hp)
        | unknown => exact NS_of h rfl (by intro g hg p hp; simp at hg; subst hg; exact hfp p hp)
    · rename_i hf
      split at hs
      · rename_i todo hc
        simp at hs; subst hs
        unfold stepCmd
        cases todo with
        | nil =>
          simp only
          cases hx : c.beh.exit with
          | ok => exact NS_of h (by simp [hop]) (ports_of_none (by simp [fail, hf]))
          | code => simp only [hfat, if_true]; exact NS_of h rfl (ports_of_none (by simp [fail, hf]))
          | killed => simp only [hfat, if_true]; exact NS_of h rfl (ports_of_none (by simp [fail, hf]))
        | cons a rest =>
          cases a with
          | extra n ch => exact NS_of h rfl (ports_of_none (by simp [fail, hf]))
          | write p ch =>
            simp only
            split
            · simp only [hop]; exact NS_of h rfl (ports_of_none (by simp [fail, hf]))
            · exact NS_of h rfl (ports_of_none (by simp [fail, hf]))
      · split at hs
        · simp at hs; subst hs; exact NS_of h rfl (ports_of_none (by simp [fail, hf]))
        · rename_i op rest hpc
          cases op <;> simp at hs <;> subst hs
          · split <;> exact NS_of h rfl (ports_of_none (by simp [fail, hf]))
          · split <;> exact NS_of h rfl (ports_of_none (by simp [fail, hf]))
          · exact NS_of h rfl (ports_of_none (by simp [fail, hf]))
          · exact NS_of h rfl (ports_of_none (by simp [fail, hf]))
          · split
            · exact NS_of h rfl (ports_of_none (by simp [fail, hf]))
            · exact NS_of h rfl (ports_of_none (by simp [fail, hf]))
          · exact NS_of h rfl (ports_of_none (by simp [fail, hf]))
          · split <;> exact NS_of h rfl (ports_of_none (by simp [fail, hf]))
          · exact NS_of h rfl (by intro g hg p hp; simp at hg; subst hg; exact hfp p hp)
          · exact NS_of h rfl (ports_of_none (by simp [fail, hf]))
          · exact NS_of h rfl (ports_of_none (by simp [fail, hf]))
          · exact NS_of h rfl (ports_of_none (by simp [fail, hf]))

/-- no regular file ever appears at the path of a streaming output -/
theorem c17_no_regular_file (sem : Sem) (hwf : WF_C01 sem) (hse : sem.streamsExempt = true) (c : Cfg)
    (pre : Nat → Option File) (n p : Nat) (hp : isStream c p = true) :
    (stepN sem c n (init sem c pre)).finalOut p = (init sem c pre).finalOut p := by
  have key : ∀ (n : Nat) (s : St), NS sem c (init sem c pre) s → NS sem c (init sem c pre) (stepN sem c n s) := by
    intro n
    induction n with
    | zero => intro s h; exact h
    | succ n ih =>
      intro s h
      simp only [stepN]
      split
      · exact h
      · rename_i s' hs
        exact ih s' (step_NS sem hwf hse c _ s s' h hs)
  exact (key n _ ⟨fun _ _ => rfl, by simp [init]⟩).unchanged p hp

end SciVerif.TaskFS

namespace SciVerif.Stream

/-- with slots for all producer and consumer tasks at once, the slot mechanism never blocks them,
although no producer finishes before its consumer runs -/
theorem c17_slots_suffice (max : Nat) (cores : List Nat) (hfit : cores.sum ≤ max) (sched : List Nat) (s : Slots.St)
    (h : Slots.runB ⟨true⟩ (Slots.init max cores) sched = some s) (hnd : Slots.allDone s = false) :
    ∃ i s', Slots.stepB ⟨true⟩ s i = some s' := by
  have hr := Slots.runB_run ⟨true⟩ _ s sched h
  obtain ⟨hinv, hm⟩ := Slots.run_inv ⟨true⟩ _ s sched (Slots.init_inv max cores) hr
  have hmx := Slots.run_acqCount ⟨true⟩ rfl _ s sched (by rw [Slots.init_acqCount]; omega) hr
  have hsum : Slots.sumBy (·.cores) s.tasks ≤ s.max := by
    rw [Slots.run_sumBy_cores ⟨true⟩ _ s sched hr, hm]
    simp only [Slots.init, Slots.sumBy, List.map_map]
    have hmap : ∀ l : List Nat, (l.map ((fun t : Slots.Task => t.cores) ∘ fun c => ({ cores := c, ph := .idle } : Slots.Task))) = l := by
      intro l
      induction l with
      | nil => rfl
      | cons c cs ih => simp [ih]
    rw [hmap]; exact hfit
  apply Slots.barrier_no_deadlock ⟨true⟩ s hinv hmx hsum
  simp only [Slots.allDone, List.all_eq_false] at hnd
  obtain ⟨t, ht, hd⟩ := hnd
  exact ⟨t, ht, by simpa using hd⟩

/-- negative: the slot hypothesis of C17 is needed. With one slot for a producer/consumer pair the producer takes
the slot, cannot finish before its consumer runs, and the consumer waits for the slot for ever: the state after
the schedule `[0, 0, 1]` is not final and has no enabled step -/
theorem c17_too_few_slots_deadlock :
    (Slots.runB ⟨true⟩ (Slots.init 1 [1, 1]) [0, 0, 1]).map
      (fun s => (Slots.allDone s, (List.range 2).map fun i => (Slots.stepB ⟨true⟩ s i).isSome)) =
    some (false, [false, false]) := by decide

/-- the consumer reads exactly the producer's bytes, in order, once the pipe is closed and drained
(the producer is sender 0 of a one-sender byte channel of any capacity) -/
theorem c17_bytes_equal (pipeCap : Nat) (bytes : List Nat) (ls : List Chan.Label) (st : Chan.ChSt)
    (hr : Chan.run pipeCap (Chan.init [bytes]) ls = some st) (hfin : Chan.finished st = true) :
    (st.got.filter (·.1 = 0)).map (·.2) = bytes := by
  simpa using Chan.c04_finished_delivers_all pipeCap [bytes] ls st hr hfin 0 (by simp)

end SciVerif.Stream

#print axioms SciVerif.Stream.step_mem_succs
#print axioms SciVerif.Stream.run_in_closure
#print axioms SciVerif.Stream.reach_in_closure
#print axioms SciVerif.Stream.closureFresh_closed
#print axioms SciVerif.Stream.closureRerun_closed
#print axioms SciVerif.Stream.c17_pair_no_deadlock
#print axioms SciVerif.Stream.c17_pair_fifo_removed
#print axioms SciVerif.Stream.c17_audit_link_partial
#print axioms SciVerif.Stream.c17_rerun_hangs
#print axioms SciVerif.Stream.c17_audit_link_race
#print axioms SciVerif.TaskFS.mem_finPorts
#print axioms SciVerif.TaskFS.NS_of
#print axioms SciVerif.TaskFS.ports_of_none
#print axioms SciVerif.TaskFS.step_NS
#print axioms SciVerif.TaskFS.c17_no_regular_file
#print axioms SciVerif.Stream.c17_slots_suffice
#print axioms SciVerif.Stream.c17_too_few_slots_deadlock
#print axioms SciVerif.Stream.c17_bytes_equal
