import SciVerif.Lemmas.TaskSkip
/-!
# C02 — existing outputs are never re-executed or modified

For every semantics record with `WF_C02` (all ops before the output check are read-only temp-dir
checks; streaming outputs are exempt), every task configuration and behaviour, every fresh attempt
(`Start`: first run or any re-run on a file system without this task's temp dir) in which some
declared non-streaming output exists — with arbitrary bytes, complete or not — and every number of
micro-steps: the command is never started, no file at any final or temp path changes (content,
inode/mtime abstraction `stamp`, freshness), no slot is taken, no audit file is written, the
attempt does not fail, and it reaches `done` (so the process forwards the existing IPs downstream).
-/
namespace SciVerif.TaskFS

theorem c02_skip_no_exec_no_write (sem : Sem) (hwf : WF_C02 sem) (c : Cfg) (s0 : St)
    (hst : Start sem s0) (hex : anyFinalExists c s0 = true) (n : Nat) :
    let s := stepN sem c n s0
    s.executed = s0.executed ∧ s.finalOut = s0.finalOut ∧ s.tempOut = s0.tempOut ∧
    s.holding = s0.holding ∧ s.audit = s0.audit ∧ s.tmp = false ∧ s.okRuns = s0.okRuns ∧
    s.status ≠ .failed := by
  have h := K_stepN sem c s0 s0 hex n (K_start sem hwf c s0 hst)
  exact ⟨h.executed, h.final, h.temp, h.holding, h.audit, h.tmp, h.okRuns, h.nofail⟩

/-- the skipping task signals completion within `|ops| + 1` micro-steps -/
theorem c02_skip_completes (sem : Sem) (hwf : WF_C02 sem) (c : Cfg) (s0 : St)
    (hst : Start sem s0) (hex : anyFinalExists c s0 = true) :
    (stepN sem c (sem.ops.length + 1) s0).status = .done ∧
    (stepN sem c (sem.ops.length + 1) s0).skipped = true := by
  have hK := K_start sem hwf c s0 hst
  have hd := K_progress sem c s0 hex sem.ops.length s0 hK (by rw [hst.pc]; exact Nat.le_refl _)
  exact ⟨hd, (K_stepN sem c s0 s0 hex _ hK).done hd⟩

/-- first run with pre-existing outputs (any subset containing at least one non-streaming output,
any content): nothing is executed, nothing is touched -/
theorem c02_preexisting_untouched (sem : Sem) (hwf : WF_C02 sem) (c : Cfg) (pre : Nat → Option File)
    (hex : anyFinalExists c (init sem c pre) = true) (n : Nat) (p : Nat) :
    (stepN sem c n (init sem c pre)).finalOut p = (init sem c pre).finalOut p ∧
    (stepN sem c n (init sem c pre)).executed = 0 := by
  have hst : Start sem (init sem c pre) := ⟨rfl, rfl, rfl, rfl, rfl⟩
  have h := c02_skip_no_exec_no_write sem hwf c _ hst hex n
  exact ⟨by rw [h.2.1], h.1⟩

/-- re-running after *any* earlier attempt that left some declared output on disk (a completed
run, or a run killed after a rename) and no temp dir: the command count and all files stay put -/
theorem c02_rerun_idempotent (sem : Sem) (hwf : WF_C02 sem) (c : Cfg) (s : St)
    (htmp : s.tmp = false) (hex : anyFinalExists c s = true) (n : Nat) :
    (stepN sem c n (restart sem s)).executed = s.executed ∧
    (stepN sem c n (restart sem s)).finalOut = s.finalOut := by
  have hst : Start sem (restart sem s) := ⟨rfl, rfl, rfl, htmp, rfl⟩
  have hex' : anyFinalExists c (restart sem s) = true := by
    rw [anyFinalExists_congr c s (restart sem s) rfl]; exact hex
  have h := c02_skip_no_exec_no_write sem hwf c _ hst hex' n
  exact ⟨h.1, h.2.1⟩

/-- negative: if the output check came after slot acquisition and mkdirs, a skipped task would
take a slot and create its temp dir -/
def semLateCheck : Sem :=
  { ops := [.checkTempDir, .acquire, .mkdirs, .skipIfOutputs, .run, .writeAudit, .ensureOutputs, .finalize, .release, .signalDone],
    fin := [.renameDeclared, .moveExtras, .removeTemp], cmdFailFatal := true, oPlace := .temp,
    renameSrcTemp := true, streamsExempt := true }

theorem c02_fails_if_check_is_late :
    let c : Cfg := { streams := [false], beh := { acts := [.write 0 1], exit := .ok } }
    let s := stepN semLateCheck c 20 (init semLateCheck c fun _ => some ⟨[9], true, false, 5⟩)
    (s.status, s.holding, s.tmp) = (.done, true, true) := by decide

/-- non-vacuity: hypotheses of the theorems hold for a two-output task with one output present -/
example : let c : Cfg := { streams := [false, false], beh := { acts := [.write 0 1, .write 1 2], exit := .ok } }
    anyFinalExists c (init semLateCheck c fun p => if p = 1 then some ⟨[9], false, false, 5⟩ else none) = true := by decide

end SciVerif.TaskFS

#print axioms SciVerif.TaskFS.c02_skip_no_exec_no_write
#print axioms SciVerif.TaskFS.c02_skip_completes
#print axioms SciVerif.TaskFS.c02_preexisting_untouched
#print axioms SciVerif.TaskFS.c02_rerun_idempotent
#print axioms SciVerif.TaskFS.c02_fails_if_check_is_late
