import SciVerif.Lemmas.TaskFS
/-!
# C01 — output files appear atomically: never partial, never from a failed command

Quantifiers: every semantics record `sem` satisfying `WF_C01` (the Tie A obligation on the current
source), **every** op order of `Task.Execute` / `FinalizePaths`, every task configuration, every
command behaviour (any writes, any exit kind), arbitrary pre-existing files, every number `n` of
micro-steps (= every instant at which the process group is killed), and — in the `_interleaved`
versions — every interleaving of any number of concurrently running tasks.
-/
namespace SciVerif.TaskFS

/-- A file found at a declared output path that was not there before the run was written
completely by a command of this task that finished successfully. -/
theorem c01_final_is_complete (sem : Sem) (hwf : WF_C01 sem) (c : Cfg) (pre : Nat → Option File)
    (n : Nat) (p : Nat) (f : File)
    (h : (stepN sem c n (init sem c pre)).finalOut p = some f) (hfresh : f.fresh = true) :
    f.complete = true ∧ c.beh.exit = .ok ∧ 0 < (stepN sem c n (init sem c pre)).okRuns := by
  have hJ := stepN_J sem hwf c _ _ n (J_init sem c pre)
  refine ⟨hJ.fin_ok p f h hfresh, ?_⟩
  rcases hJ.unchanged with hu | hr
  · exfalso
    rw [hu p] at h
    simp only [init] at h
    cases hp : pre p with
    | none => simp [hp] at h
    | some g => simp [hp] at h; subst h; simp at hfresh
  · exact ⟨hJ.okruns hr, hr⟩

/-- While the command is running (no run has finished successfully yet), after it failed or was
killed by a signal, and at whatever instant the workflow is killed: nothing new at any final path. -/
theorem c01_nothing_new_unless_ok (sem : Sem) (hwf : WF_C01 sem) (c : Cfg) (pre : Nat → Option File)
    (n : Nat) (h : c.beh.exit ≠ .ok ∨ (stepN sem c n (init sem c pre)).okRuns = 0) (p : Nat) :
    (stepN sem c n (init sem c pre)).finalOut p = (init sem c pre).finalOut p := by
  have hJ := stepN_J sem hwf c _ _ n (J_init sem c pre)
  rcases hJ.unchanged with hu | hr
  · exact hu p
  · rcases h with h | h
    · exact absurd (hJ.okruns hr) h
    · omega

/-- Unfinished work is confined to the temp directory: an incomplete file at a final path can only
be a file the user put there before the run. -/
theorem c01_partial_confined (sem : Sem) (hwf : WF_C01 sem) (c : Cfg) (pre : Nat → Option File)
    (n : Nat) (p : Nat) (f : File)
    (h : (stepN sem c n (init sem c pre)).finalOut p = some f) (hinc : f.complete = false) :
    f.fresh = false := by
  have hJ := stepN_J sem hwf c _ _ n (J_init sem c pre)
  cases hfr : f.fresh with
  | false => rfl
  | true => have := hJ.fin_ok p f h hfr; simp [hinc] at this

/-! ### any number of tasks, any interleaving (`gstep`/`grun`/`ginit` are defined in Lemmas/TaskFS) -/

/-- C01 for any number of concurrently running tasks under every interleaving and every stopping
point: a fresh file at any task's final path is complete and stems from a successful command. -/
theorem c01_final_is_complete_interleaved (sem : Sem) (hwf : WF_C01 sem) (cs : List Cfg)
    (pres : List (Nat → Option File)) (sched : List Nat) (i : Nat) (c : Cfg) (s : St) (p : Nat) (f : File)
    (hc : cs[i]? = some c) (hs : (grun sem cs (ginit sem cs pres) sched)[i]? = some s)
    (h : s.finalOut p = some f) (hfresh : f.fresh = true) :
    f.complete = true ∧ c.beh.exit = .ok := by
  have hG := grun_GJ sem hwf cs _ _ sched (ginit_GJ sem cs pres)
  have hlen := hG.1
  have hi : i < (ginit sem cs pres).length := by
    rcases Nat.lt_or_ge i (grun sem cs (ginit sem cs pres) sched).length with hl | hl
    · omega
    · simp [List.getElem?_eq_none hl] at hs
  have hJ := hG.2 i c _ s hc (List.getElem?_eq_getElem hi) hs
  refine ⟨hJ.fin_ok p f h hfresh, ?_⟩
  rcases hJ.unchanged with hu | hr
  · exfalso
    rw [hu p] at h
    have hs0 := List.getElem?_eq_getElem hi
    simp only [ginit, List.getElem?_map, List.getElem?_zip_eq_some, Option.map_eq_some_iff] at hs0
    obtain ⟨⟨c', pre⟩, _, heq⟩ := hs0
    have heq' : (ginit sem cs pres)[i] = init sem c' pre := by simpa [ginit] using heq.symm
    rw [heq'] at h
    simp only [init] at h
    cases hp : pre p with
    | none => simp [hp] at h
    | some g => simp [hp] at h; subst h; simp at hfresh
  · exact hJ.okruns hr

/-! ### negative results: what the obligation protects against -/

def semGood : Sem :=
  { ops := [.checkTempDir, .skipIfOutputs, .acquire, .mkdirs, .run, .writeAudit, .ensureOutputs,
            .finalize, .release, .signalDone],
    fin := [.renameDeclared, .moveExtras, .removeTemp],
    cmdFailFatal := true, oPlace := .temp, renameSrcTemp := true, streamsExempt := true }

def semFinalPlace : Sem := { semGood with oPlace := .final }
def semIgnoreErr : Sem := { semGood with cmdFailFatal := false }
def cfgPartialFail : Cfg := { streams := [false], beh := { acts := [.write 0 7], exit := .code } }
def cfgOk : Cfg := { streams := [false], beh := { acts := [.write 0 7, .write 0 8], exit := .ok } }

/-- if the `{o:..}` placeholder pointed at the final path, a running command would expose a
partial file there -/
theorem c01_fails_if_placeholder_is_final :
    ((stepN semFinalPlace cfgOk 6 (init semFinalPlace cfgOk fun _ => none)).finalOut 0).map
      (fun f => (f.fresh, f.complete)) = some (true, false) := by decide

/-- if a command error were not fatal, the partial output of a failed command would be finalized -/
theorem c01_fails_if_cmd_error_ignored :
    ((stepN semIgnoreErr cfgPartialFail 20 (init semIgnoreErr cfgPartialFail fun _ => none)).finalOut 0).map
      (fun f => (f.fresh, f.complete)) = some (true, false) := by decide

/-- non-vacuity: with the good record a successful task does finalize a complete file -/
example : ((stepN semGood cfgOk 30 (init semGood cfgOk fun _ => none)).finalOut 0).map
    (fun f => (f.chunks, f.complete)) = some ([7, 8], true) := by decide
example : WF_C01 semGood := by decide

end SciVerif.TaskFS

#print axioms SciVerif.TaskFS.c01_final_is_complete
#print axioms SciVerif.TaskFS.c01_nothing_new_unless_ok
#print axioms SciVerif.TaskFS.c01_partial_confined
#print axioms SciVerif.TaskFS.c01_final_is_complete_interleaved
#print axioms SciVerif.TaskFS.c01_fails_if_placeholder_is_final
#print axioms SciVerif.TaskFS.c01_fails_if_cmd_error_ignored
