import SciVerif.Model.Proc
/-!
# C08 — outputs leave a process in the order its inputs arrived

For every semantics record with `good` (enqueue at the tail, wait on and dequeue the head, forward
only on dequeue), every sequence of task arrivals and **every** order in which the parallel tasks
finish, the tasks whose outputs have been emitted, followed by the tasks still in flight, are
exactly the accepted tasks in acceptance order. Hence on each out-port items appear in the order in
which their input sets were received; and only finished tasks are ever forwarded (a failing task is
never forwarded, so nothing downstream of it runs: the process-level half of C09).
-/
namespace SciVerif.Proc

def Inv (s : PSt) : Prop := s.accepted = s.forwarded ++ s.started.map (·.1) ∧ s.early = []

theorem map_fst_set (l : List (Nat × Bool)) (i : Nat) (t : Nat) (b b' : Bool) (h : l[i]? = some (t, b)) :
    (l.set i (t, b')).map (·.1) = l.map (·.1) := by
  induction l generalizing i with
  | nil => simp
  | cons x xs ih =>
    cases i with
    | zero => simp at h; subst h; simp
    | succ j => simp at h; simp [ih j h]

theorem step_inv (sem : ProcSem) (hg : good sem) (s s' : PSt) (l : Label) (h : Inv s)
    (hs : step sem s l = some s') : Inv s' := by
  obtain ⟨h1, h2, h3, h4⟩ := hg
  cases l with
  | accept t =>
    simp [step, h1] at hs; subst hs
    exact ⟨by simp [h.1], h.2⟩
  | offer i =>
    simp only [step] at hs
    split at hs
    · rename_i t hi
      simp at hs; subst hs
      exact ⟨by simp only; rw [map_fst_set _ i t false true hi]; exact h.1, h.2⟩
    · simp at hs
  | take i =>
    simp only [step, h2, h3, Bool.true_and] at hs
    split at hs
    · simp at hs
    · rename_i hi0
      have hi : i = 0 := by simpa using hi0
      subst hi
      split at hs
      · rename_i t hi
        simp only [if_true] at hs
        rw [hi] at hs
        simp at hs; subst hs
        cases hst : s.started with
        | nil => simp [hst] at hi
        | cons x xs =>
          simp [hst] at hi
          refine ⟨?_, ?_⟩
          · simp [h.1, hst, hi]
          · simp [h.2]
      · simp at hs

theorem run_inv (sem : ProcSem) (hg : good sem) (ls : List Label) (s0 s : PSt) (h0 : Inv s0)
    (hr : run sem s0 ls = some s) : Inv s := by
  induction ls generalizing s0 with
  | nil => simp [run] at hr; subst hr; exact h0
  | cons l ls ih =>
    simp only [run] at hr
    split at hr
    · simp at hr
    · rename_i s1 hs1
      exact ih s1 (step_inv sem hg s0 s1 l h0 hs1) hr

/-- C08: in every reachable state, emitted ++ in-flight = accepted, in order -/
theorem c08_emission_order (sem : ProcSem) (hg : good sem) (ls : List Label) (s : PSt)
    (h : run sem init ls = some s) :
    s.accepted = s.forwarded ++ s.started.map (·.1) ∧ s.early = [] :=
  run_inv sem hg ls init s ⟨rfl, rfl⟩ h

/-- the emitted sequence is a prefix of the arrival sequence, whatever the completion order -/
theorem c08_forwarded_is_prefix (sem : ProcSem) (hg : good sem) (ls : List Label) (s : PSt)
    (h : run sem init ls = some s) : s.forwarded <+: s.accepted := by
  rw [(c08_emission_order sem hg ls s h).1]; exact List.prefix_append _ _

/-- negative: waiting on any task's Done channel (and dequeuing that task) reorders outputs when a
later task finishes first -/
theorem c08_fails_if_wait_any :
    (run ⟨true, false, false, true⟩ init [.accept 0, .accept 1, .offer 1, .take 1]).map (·.forwarded) = some [1] := by
  decide

/-- negative: dequeuing the head while waiting on any task forwards an unfinished task's outputs -/
theorem c08_fails_if_wait_any_dequeue_head :
    (run ⟨true, false, true, true⟩ init [.accept 0, .accept 1, .offer 1, .take 1]).map (·.early) = some [0] := by
  decide

/-- non-vacuity: a schedule where the later task finishes first is a run of the good record, and the
head task still leaves first -/
example : (run ⟨true, true, true, true⟩ init [.accept 0, .accept 1, .offer 1, .offer 0, .take 0, .take 0]).map (·.forwarded) = some [0, 1] := by
  decide

end SciVerif.Proc

#print axioms SciVerif.Proc.map_fst_set
#print axioms SciVerif.Proc.step_inv
#print axioms SciVerif.Proc.run_inv
#print axioms SciVerif.Proc.c08_emission_order
#print axioms SciVerif.Proc.c08_forwarded_is_prefix
#print axioms SciVerif.Proc.c08_fails_if_wait_any
#print axioms SciVerif.Proc.c08_fails_if_wait_any_dequeue_head
