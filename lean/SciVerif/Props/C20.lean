import SciVerif.Lemmas.Report
/-!
# C20 — audit report conversion is lossless

* `c20_flatten_complete`: for every audit tree (any depth, fan-in, shared ancestors reached through
  several paths, source records), `extractAuditInfosByID` yields exactly the IDs occurring in the
  tree, each once, each stored under its own ID.
* `c20_listing_perm_sorted`: with the slice-sorting algorithm, for every tree and **every** map
  iteration order, the listing is a permutation of the flattened records (every task exactly once)
  and non-decreasing in start time — including equal and zero start times.
* `c20_order_respects_lineage`: in such a listing a record with a strictly smaller start time comes
  first, so when timestamps increase along lineage edges every producer precedes its consumers
  (which is what makes the generated Bash script runnable top to bottom).
* `c20_collapse_on_ties` (negative): the map-keyed-by-start-time algorithm lists one record twice
  and loses the other when two records share a start time (finding F4, repaired by a `fix:` commit;
  Tie A checks which algorithm the source uses).
-/
namespace SciVerif.Report

theorem c20_flatten_complete (t : AT) :
    (keys (extract t)).Nodup ∧ (∀ kv ∈ extract t, kv.1 = kv.2.id) ∧
    (∀ x, x ∈ keys (extract t) ↔ x ∈ (nodes t).map (·.id)) := extract_props t

theorem le_trans_rec (a b c : Rec) (h1 : le a b = true) (h2 : le b c = true) : le a c = true := by
  simp only [le, decide_eq_true_eq] at *; omega

theorem le_total_rec (a b : Rec) : (le a b || le b a) = true := by
  simp only [le, Bool.or_eq_true, decide_eq_true_eq]; omega

theorem c20_listing_perm_sorted (rs : List Rec) :
    (listing .sliceSort rs).Perm rs ∧ (listing .sliceSort rs).Pairwise (fun a b => le a b = true) := by
  constructor
  · exact List.mergeSort_perm rs le
  · exact List.pairwise_mergeSort le_trans_rec le_total_rec rs

/-- the whole pipeline, for every tree and every iteration order of the Go map -/
theorem c20_report_lists_every_task_once (t : AT) (rs : List Rec) (hperm : rs.Perm (vals (extract t))) :
    (listing .sliceSort rs).Perm (vals (extract t)) ∧
    (listing .sliceSort rs).Pairwise (fun a b => le a b = true) ∧
    ((listing .sliceSort rs).map (·.id)).Nodup := by
  obtain ⟨hp, hs⟩ := c20_listing_perm_sorted rs
  refine ⟨hp.trans hperm, hs, ?_⟩
  have hids : ((listing .sliceSort rs).map (·.id)).Perm ((vals (extract t)).map (·.id)) := (hp.trans hperm).map _
  refine hids.nodup_iff.2 ?_
  have hp := extract_props t
  have : (vals (extract t)).map (·.id) = keys (extract t) := by
    simp only [vals, keys, List.map_map]
    apply List.map_congr_left
    intro kv hkv
    exact (hp.2.1 kv hkv).symm
  rw [this]; exact hp.1

theorem c20_order_respects_lineage (l : List Rec) (hs : l.Pairwise (fun a b => le a b = true))
    (i j : Nat) (hi : i < l.length) (hj : j < l.length) (hlt : l[i].start < l[j].start) : i < j := by
  rcases Nat.lt_or_ge i j with h | h
  · exact h
  · exfalso
    rcases Nat.lt_or_eq_of_le h with h | h
    · have := List.pairwise_iff_getElem.1 hs j i hj hi h
      simp only [le, decide_eq_true_eq] at this; omega
    · subst h; omega

def r1 : Rec := ⟨1, 0, 10⟩
def r2 : Rec := ⟨2, 0, 20⟩
def r3 : Rec := ⟨3, 5, 30⟩

/-- negative (F4): two source records with start time 0 — one is listed twice, the other lost -/
theorem c20_collapse_on_ties :
    (listing .timeMap [r1, r2, r3]).map (·.id) = [2, 2, 3] ∧
    (listing .sliceSort [r1, r2, r3]).map (·.id) = [1, 2, 3] := by
  have h1 : ([r1, r2, r3].map (·.start)).mergeSort (fun a b => decide (a ≤ b)) = [0, 0, 5] :=
    List.mergeSort_of_pairwise (by decide)
  have h2 : [r1, r2, r3].mergeSort le = [r1, r2, r3] := List.mergeSort_of_pairwise (by decide)
  constructor
  · simp only [listing, sortByTimeMap, h1]; decide
  · simp only [listing, h2]; decide

/-- non-vacuity: a tree with a shared ancestor reached through two paths flattens to 3 records -/
example : keys (extract (.node r3 [.node r1 [.node r2 []], .node r2 []])) = [3, 1, 2] := by decide

end SciVerif.Report

#print axioms SciVerif.Report.c20_flatten_complete
#print axioms SciVerif.Report.le_trans_rec
#print axioms SciVerif.Report.le_total_rec
#print axioms SciVerif.Report.c20_listing_perm_sorted
#print axioms SciVerif.Report.c20_report_lists_every_task_once
#print axioms SciVerif.Report.c20_order_respects_lineage
#print axioms SciVerif.Report.c20_collapse_on_ties
