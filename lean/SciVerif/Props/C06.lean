import SciVerif.Lemmas.Slots
/-!
# C06 — concurrently executing tasks never exceed maxConcurrentTasks

For every `SlotSem`, every `max`, every list of tasks with arbitrary `cores`, and every schedule
(list of task indices — any interleaving of the token-by-token acquisition and release),
in every reachable state the sum of `cores` over tasks whose command is executing is at most
the number of deposited tokens, which is at most `max`.
-/
namespace SciVerif.Slots

/-- C06, full statement over all reachable states of the slot model. -/
theorem c06_bound (sem : SlotSem) (max : Nat) (cores : List Nat) (sched : List Nat) (s : St)
    (h : run sem (init max cores) sched = some s) :
    running s.tasks ≤ tokens s.tasks ∧ tokens s.tasks ≤ max := by
  obtain ⟨hinv, hm⟩ := run_inv sem _ s sched (init_inv max cores) h
  refine ⟨running_le_tokens _, ?_⟩
  have := hinv.1
  simp [init] at hm
  omega

/-- a task that is not executing (idle, skipped = never leaves idle, or done) holds nothing -/
theorem c06_idle_done_hold_nothing (t : Task) (h : isIdle t = true ∨ isDone t = true) : held t = 0 := by
  obtain ⟨c, ph⟩ := t
  cases ph <;> simp_all [held, isIdle, isDone]

/-- non-vacuity: two 2-core tasks and one 1-core task on 3 slots; a schedule in which the 1-core
task runs next to a 2-core task exists and the bound is tight (3 tokens). -/
example : ∃ s, run ⟨true⟩ (init 3 [2, 1, 2]) [0, 0, 0, 1, 1] = some s ∧ running s.tasks = 3 := by
  exact ⟨_, rfl, by decide⟩

end SciVerif.Slots

#print axioms SciVerif.Slots.c06_bound
#print axioms SciVerif.Slots.c06_idle_done_hold_nothing
