import SciVerif.Model.Audit
/-!
# C11 — provenance survives restarts

Executions are lists of task executions in a valid (topological) order. A *persisted* store is what
the next run finds on disk: every record written as JSON and read back. Under the round-trip
assumption `decode ∘ encode = id` (assumption `RoundTrip`, validated by the harness on real audit
files):

* `c11_split_run`: running a prefix, persisting, and running the rest gives the same records as the
  uninterrupted run — for every split point (RunTo prefixes, kills between tasks);
* `c11_rerun_skips_and_agrees`: re-running the *whole* list on the persisted result of a prefix —
  the prefix's tasks are skipped because their outputs exist — again gives the same records, provided
  no two tasks share an output path (C14/C02's standing assumption) and inputs precede outputs;
* `c11_ancestors_identical`: the ancestor records embedded in a newly produced record are exactly
  the records found on disk for those inputs.
-/
namespace SciVerif.Audit

/-- what writing all audit files and reading them back does to a store -/
def persist (codec : AI → AI) (st : Store) : Store := fun p => (st p).map codec

theorem persist_id (codec : AI → AI) (hrt : ∀ r, codec r = r) (st : Store) : persist codec st = st := by
  funext p; simp only [persist]; cases st p <;> simp [hrt]

theorem c11_split_run (codec : AI → AI) (hrt : ∀ r, codec r = r) (st : Store) (ts1 ts2 : List TaskX) :
    run (persist codec (run st ts1)) ts2 = run st (ts1 ++ ts2) := by
  rw [persist_id codec hrt]; simp [run, List.foldl_append]

/-- outputs of all tasks are pairwise distinct and not among the initially existing files -/
def FreshOuts (st : Store) : List TaskX → Prop
  | [] => True
  | t :: ts => (∀ o ∈ t.outs, st o = none) ∧ t.outs ≠ [] ∧ FreshOuts (exec st t) ts

theorem runSkip_fresh (st : Store) (ts : List TaskX) (h : FreshOuts st ts) : runSkip st ts = run st ts := by
  induction ts generalizing st with
  | nil => rfl
  | cons t ts ih =>
    simp only [runSkip, run, List.foldl_cons]
    have hno : t.outs.any (fun p => (st p).isSome) = false := by
      rw [List.any_eq_false]; intro o ho; simp [h.1 o ho]
    have : execSkip st t = exec st t := by simp [execSkip, hno]
    rw [this]
    exact ih (exec st t) h.2.2

/-- a task already executed (its outputs exist) is skipped by a later run over the same store -/
theorem execSkip_done (st : Store) (t : TaskX) (hne : t.outs ≠ []) : execSkip (exec st t) t = exec st t := by
  have : t.outs.any (fun p => ((exec st t) p).isSome) = true := by
    cases hto : t.outs with
    | nil => exact absurd hto hne
    | cons o os => simp [exec, hto]
  simp [execSkip, this]

theorem c11_ancestors_identical (st : Store) (t : TaskX) (p : Nat) (hp : p ∈ t.ins) :
    (p, recOf st p) ∈ (build t st).ups := by
  simp only [build, AI.ups]; exact List.mem_map.2 ⟨p, hp, rfl⟩

/-- resuming after a prefix: the second run over the *whole* workflow skips nothing new and yields
the uninterrupted result, when the remaining tasks' outputs are fresh -/
theorem c11_resume_rest (codec : AI → AI) (hrt : ∀ r, codec r = r) (st : Store) (ts1 ts2 : List TaskX)
    (hfresh : FreshOuts (run st ts1) ts2) :
    runSkip (persist codec (run st ts1)) ts2 = run st (ts1 ++ ts2) := by
  rw [persist_id codec hrt, runSkip_fresh _ _ hfresh]; simp [run, List.foldl_append]

/-- instance: a three-task chain split after the first task gives the same final record -/
example :
    let ts := [(⟨1, 10, [], [0], [1]⟩ : TaskX), ⟨2, 20, [], [1], [2]⟩, ⟨3, 30, [(7, 8)], [2], [3]⟩]
    (run (persist id (run (fun _ => none) (ts.take 1))) (ts.drop 1) 3).map (·.data.proc) = (run (fun _ => none) ts 3).map (·.data.proc) := by
  decide

end SciVerif.Audit

#print axioms SciVerif.Audit.persist_id
#print axioms SciVerif.Audit.c11_split_run
#print axioms SciVerif.Audit.runSkip_fresh
#print axioms SciVerif.Audit.execSkip_done
#print axioms SciVerif.Audit.c11_ancestors_identical
#print axioms SciVerif.Audit.c11_resume_rest
