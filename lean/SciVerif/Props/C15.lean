import SciVerif.Lemmas.Fmt
import SciVerif.Lemmas.Replace
/-!
# C15 — placeholders and path modifiers expand as documented

The code models (`Str.applyPathModifiers`, `Str.tokenize`, `Fmt.formatCommand`, `Fmt.setOutPath`,
`Fmt.defaultPath`) mirror the Go control flow and the four unanchored regexes; the harness compares
them with the real functions on a grammar of patterns (evidence). Proved here, for all inputs:

* modifiers are applied strictly left to right (`c15_modifiers_left_to_right`);
* each documented modifier computes the documented function (`c15_basename`, `c15_dirname`,
  `c15_trim_suffix`, `c15_subst`) under explicit, decidable side conditions, with the
  characterisations `c15_basename_spec` / `c15_dirname_spec`;
* a missing or empty value of any referenced in-port, parameter or tag — at whatever position and
  however many placeholders precede it — makes `formatCommand` fail (`c15_missing_value_fails`),
  so no command with an empty or unreplaced placeholder is ever produced from it;
* the default output name is the documented dot-join (`c15_default_path_formula`), a function of
  its arguments only.

`c15_full` (iterative global replacement = single-pass expansion for brace-free values and
literals) is stated and not yet proved; the negative example shows the side condition is needed.
-/
namespace SciVerif.Fmt
open SciVerif.Str

theorem c15_modifiers_left_to_right (p : S) (m : S) (ms : List S) :
    applyPathModifiers p (m :: ms) = applyPathModifiers (applyModifier p m) ms := rfl

theorem c15_basename (p : S) : applyModifier p modBasename = afterLast '/' p := by
  unfold applyModifier
  rw [show substMatch modBasename = none from by decide, show trimMatch modBasename = none from by decide]
  simp

theorem c15_dirname (p : S) : applyModifier p modDirname = beforeLast '/' p := by
  unfold applyModifier
  rw [show substMatch modDirname = none from by decide, show trimMatch modDirname = none from by decide]
  rw [if_neg (by decide), if_pos rfl]

theorem contains_false_of_not_mem (f : S) (h : '/' ∉ f) : f.contains '/' = false := by
  cases hc : f.contains '/' with
  | false => rfl
  | true => exact absurd (List.contains_iff_mem.1 hc) h

theorem contains_true_append (cs f : S) : (cs ++ '/' :: f).contains '/' = true :=
  List.contains_iff_mem.2 (by simp)

/-- `basename` keeps exactly what follows the last '/' -/
theorem c15_basename_spec (d f : S) (hf : '/' ∉ f) : afterLast '/' (d ++ '/' :: f) = f := by
  induction d with
  | nil =>
    show afterLast '/' ('/' :: f) = f
    unfold afterLast
    rw [contains_false_of_not_mem f hf]
    simp
  | cons c cs ih =>
    show afterLast '/' (c :: (cs ++ '/' :: f)) = f
    unfold afterLast
    rw [contains_true_append cs f]
    simpa using ih

theorem c15_basename_noslash (f : S) (hf : '/' ∉ f) : afterLast '/' f = f := by
  induction f with
  | nil => rfl
  | cons c cs ih =>
    have hc : c ≠ '/' := fun h => hf (by simp [h])
    have hcs : '/' ∉ cs := fun h => hf (by simp [h])
    unfold afterLast
    rw [contains_false_of_not_mem cs hcs]
    simp [hc]

/-- `dirname` keeps exactly what precedes the last '/' -/
theorem c15_dirname_spec (d f : S) (hf : '/' ∉ f) : beforeLast '/' (d ++ '/' :: f) = d := by
  induction d with
  | nil =>
    show beforeLast '/' ('/' :: f) = []
    unfold beforeLast
    rw [contains_false_of_not_mem f hf]
    simp
  | cons c cs ih =>
    show beforeLast '/' (c :: (cs ++ '/' :: f)) = c :: cs
    unfold beforeLast
    rw [contains_true_append cs f]
    simpa using ih

/-- `%suffix`: for a suffix text that is not itself a substitution pattern -/
theorem c15_trim_suffix (p e : S) (hs : substMatch ('%' :: e) = none) :
    applyModifier p ('%' :: e) =
      if p.length > e.length && isSuffixB e p then p.take (p.length - e.length) else p := by
  unfold applyModifier
  rw [hs]
  have ht : trimMatch ('%' :: e) = some e := by simp [trimMatch]
  rw [ht]
  have hb : ('%' :: e) ≠ modBasename := by simp [modBasename]
  have hd : ('%' :: e) ≠ modDirname := by simp [modDirname]
  rw [if_neg hb, if_neg hd]

/-- a removed suffix really is removed: the result followed by the suffix is the input -/
theorem c15_trim_suffix_sound (p e : S) (h : isSuffixB e p = true) :
    p.take (p.length - e.length) ++ e = p := by
  simp only [isSuffixB, Bool.and_eq_true, decide_eq_true_eq, beq_iff_eq] at h
  obtain ⟨_, h2⟩ := h
  conv => rhs; rw [← List.take_append_drop (p.length - e.length) p]
  rw [h2]

/-- `s/a/b/`: replace the first occurrence of `a` by `b`, for every modifier text `m` on which the
substitution regex matches with groups `(a, b)`, that contains no '%' and is not a keyword -/
theorem c15_subst (p m a b : S) (hm : substMatch m = some (a, b)) (ht : trimMatch m = none)
    (hb : m ≠ modBasename) (hd : m ≠ modDirname) :
    applyModifier p m = replaceFirst a b p := by
  unfold applyModifier
  rw [hm, ht, if_neg hb, if_neg hd]

/-- instance: the side conditions of `c15_subst` hold for a concrete documented modifier -/
example : substMatch "s/.txt/.csv/".toList = some (".txt".toList, ".csv".toList) ∧ trimMatch "s/.txt/.csv/".toList = none ∧
    "s/.txt/.csv/".toList ≠ modBasename ∧ "s/.txt/.csv/".toList ≠ modDirname := by decide

/-! ### missing values -/

theorem fmtLoop_none_of_mem (env : Env) (phs : List PH) (cmd : S) (ph : PH) (hm : ph ∈ phs)
    (hn : replacement env ph = none) : fmtLoop env phs cmd = none := by
  induction phs generalizing cmd with
  | nil => simp at hm
  | cons q rest ih =>
    simp only [fmtLoop]
    cases hq : replacement env q with
    | none => rfl
    | some r =>
      simp only
      rcases List.mem_cons.1 hm with rfl | hm
      · rw [hn] at hq; simp at hq
      · exact ih _ hm

/-- a referenced value that is missing or empty stops the workflow: `formatCommand` fails -/
theorem c15_missing_value_fails (cmd : S) (env : Env) (ph : PH) (hm : ph ∈ placeholders cmd)
    (hn : replacement env ph = none) : formatCommand cmd env = none := by
  simp [formatCommand, fmtLoop_none_of_mem env _ cmd ph hm hn]

/-- an empty or absent parameter value is such a missing value -/
theorem c15_empty_param_is_missing (env : Env) (ph : PH) (info : PortInfo)
    (hi : env.portInfos.lookup ph.name = some info) (ht : info.typ = "p".toList)
    (hv : env.params.lookup ph.name = none ∨ env.params.lookup ph.name = some []) :
    replacement env ph = none := by
  have h1 : "p".toList ≠ "o".toList := by decide
  have h2 : "p".toList ≠ "os".toList := by decide
  have h3 : "p".toList ≠ "i".toList := by decide
  rcases hv with hv | hv <;> simp [replacement, hi, ht, h1, h2, h3, hv]

/-- … and so is an empty or absent tag value -/
theorem c15_empty_tag_is_missing (env : Env) (ph : PH) (info : PortInfo)
    (hi : env.portInfos.lookup ph.name = some info) (ht : info.typ = "t".toList)
    (hv : env.tags.lookup ph.name = none ∨ env.tags.lookup ph.name = some []) :
    replacement env ph = none := by
  have h1 : "t".toList ≠ "o".toList := by decide
  have h2 : "t".toList ≠ "os".toList := by decide
  have h3 : "t".toList ≠ "i".toList := by decide
  have h4 : "t".toList ≠ "p".toList := by decide
  rcases hv with hv | hv <;> simp [replacement, hi, ht, h1, h2, h3, h4, hv]

/-- … and a missing in-IP or an empty input path -/
theorem c15_missing_input_is_missing (env : Env) (ph : PH) (info : PortInfo)
    (hi : env.portInfos.lookup ph.name = some info) (ht : info.typ = "i".toList)
    (hj : info.join = false)
    (hv : env.inPaths.lookup ph.name = none ∨ env.inPaths.lookup ph.name = some []) :
    replacement env ph = none := by
  have h1 : "i".toList ≠ "o".toList := by decide
  have h2 : "i".toList ≠ "os".toList := by decide
  rcases hv with hv | hv <;> simp [replacement, hi, ht, h1, h2, hv, hj]

/-! ### default output name -/

theorem c15_default_path_formula (procName outName ext : S) (inPaths params tags : List (S × S)) :
    defaultPath procName outName ext inPaths params tags =
      intercalate ['.'] (inPaths.map (fun kv => base kv.2) ++ [sanitize procName] ++
        params.map (fun kv => kv.1 ++ ['_'] ++ kv.2) ++ tags.map (fun kv => kv.1 ++ ['_'] ++ kv.2) ++
        [outName] ++ (if ext = [] then [] else [ext])) := by
  simp [defaultPath, kv]

/-! ### the full statement and its necessary side condition -/

/-- For patterns whose literal chunks and all substituted values are brace-free, the iterative
global `strings.Replace` of `formatCommand` equals the single-pass expansion: every placeholder
occurrence is replaced by its own expansion (or the whole call fails when one value is missing),
whatever the number, order and repetition of placeholders. -/
theorem c15_full (cmd : S) (env : Env)
    (hlit : ∀ t ∈ tokenize cmd, match t with | .lit c => notBrace c = true | .ph _ => True)
    (hval : ∀ ph ∈ placeholders cmd, ∀ r, replacement env ph = some r → r.all notBrace = true) :
    fmtLoop env (placeholders cmd) cmd = fmtSpec env (tokenize cmd) := by
  rw [fmtLoop_eq_loopR, fmtSpec_eq_specR]
  exact loopR_full (replacement env) cmd hlit hval

/-- the same for `SetOut` path patterns: `setOutPath` is the single-pass expansion of the pattern -/
theorem c15_full_path (pattern : S) (env : PathEnv)
    (hlit : ∀ t ∈ tokenize pattern, match t with | .lit c => notBrace c = true | .ph _ => True)
    (hval : ∀ ph ∈ placeholders pattern, ∀ r, pathReplacement env ph = some r → r.all notBrace = true) :
    setOutPath pattern env = specR (pathReplacement env) (tokenize pattern) := by
  unfold setOutPath
  rw [pathLoop_eq_loopR]
  exact loopR_full (pathReplacement env) pattern hlit hval

/-- non-vacuity: a pattern with a repeated placeholder, a modifier and a literal tail meets the
hypotheses of `c15_full` -/
def envFull : Env :=
  { portInfos := [("a".toList, ⟨"p".toList, [], false, false, []⟩), ("b".toList, ⟨"p".toList, [], false, false, []⟩)],
    inPaths := [], inStream := [], subs := [], outPaths := [],
    params := [("a".toList, "x/y.txt".toList), ("b".toList, "z".toList)], tags := [], prepend := [] }

def cmdFull : S := "{p:a|basename} {p:b} {p:a|basename}!".toList

example :
    ((tokenize cmdFull).all fun t => match t with | .lit c => notBrace c | .ph _ => true) = true ∧
    ((placeholders cmdFull).all fun ph => match replacement envFull ph with | some r => r.all notBrace | none => false) = true ∧
    fmtSpec envFull (tokenize cmdFull) = some "y.txt z y.txt!".toList ∧
    fmtLoop envFull (placeholders cmdFull) cmdFull = some "y.txt z y.txt!".toList := by decide

def envReexp : Env :=
  { portInfos := [("a".toList, ⟨"p".toList, [], false, false, []⟩), ("b".toList, ⟨"p".toList, [], false, false, []⟩)],
    inPaths := [], inStream := [], subs := [], outPaths := [],
    params := [("a".toList, "{p:b}".toList), ("b".toList, "x".toList)], tags := [], prepend := [] }

/-- negative: a value that carries a placeholder of the same pattern is expanded again by the
iterative loop — outside `c15_full`'s hypotheses (values are not brace-free) -/
theorem c15_reexpansion_outside_domain :
    fmtLoop envReexp (placeholders "{p:a} {p:b}".toList) "{p:a} {p:b}".toList = some "x x".toList ∧
    fmtSpec envReexp (tokenize "{p:a} {p:b}".toList) = some "{p:b} x".toList := by decide

end SciVerif.Fmt

#print axioms SciVerif.Fmt.c15_full
#print axioms SciVerif.Fmt.c15_full_path
#print axioms SciVerif.Fmt.c15_modifiers_left_to_right
#print axioms SciVerif.Fmt.c15_basename
#print axioms SciVerif.Fmt.c15_dirname
#print axioms SciVerif.Fmt.contains_false_of_not_mem
#print axioms SciVerif.Fmt.contains_true_append
#print axioms SciVerif.Fmt.c15_basename_spec
#print axioms SciVerif.Fmt.c15_basename_noslash
#print axioms SciVerif.Fmt.c15_dirname_spec
#print axioms SciVerif.Fmt.c15_trim_suffix
#print axioms SciVerif.Fmt.c15_trim_suffix_sound
#print axioms SciVerif.Fmt.c15_subst
#print axioms SciVerif.Fmt.fmtLoop_none_of_mem
#print axioms SciVerif.Fmt.c15_missing_value_fails
#print axioms SciVerif.Fmt.c15_empty_param_is_missing
#print axioms SciVerif.Fmt.c15_empty_tag_is_missing
#print axioms SciVerif.Fmt.c15_missing_input_is_missing
#print axioms SciVerif.Fmt.c15_default_path_formula
#print axioms SciVerif.Fmt.c15_reexpansion_outside_domain
