import SciVerif.Lemmas.Fmt
import SciVerif.Props.C04
/-!
# C18 — a joined in-port receives the whole sub-stream, once, in order

* `c18_join_format`: for a joined in-port (`{i:x|…|join:SEP}`, SEP non-empty) the placeholder is
  replaced by the member paths in arrival order, each with the modifiers applied and prefixed for
  the task's directory, separated by SEP — for every number of members (0 included).
* `c18_whole_substream_once`: the members a task collects by draining the carrier's sub-stream port
  until it is closed are exactly what the upstream processes sent on that port, each once, in each
  sender's order — for every sub-stream length relative to the buffer size and every interleaving
  (C04's channel theorem with the task as the only receiver); the carrier itself is one item on the
  joined port, so there is one task per sub-stream (C04's task-creation theorem).
* `c18_members_in_identity`: every member's path segments are among the hashed pieces of the
  task's temp-dir identity, and the carrier's (random) path is not.
-/
namespace SciVerif.Fmt
open SciVerif.Str

theorem c18_join_format (env : Env) (ph : PH) (info : PortInfo) (carrier : S)
    (hi : env.portInfos.lookup ph.name = some info) (ht : info.typ = ['i'])
    (hj : info.join = true) (hs : info.joinSep ≠ []) (hc : env.inPaths.lookup ph.name = some carrier)
    (hne : ∀ m ∈ (env.subs.lookup ph.name).getD [], applyPathModifiers m ph.mods ≠ []) :
    replacement env ph =
      some (intercalate info.joinSep
        (((env.subs.lookup ph.name).getD []).map fun m => prependParent (applyPathModifiers m ph.mods))) := by
  have h1 : ['i'] ≠ ['o'] := by decide
  have h2 : ['i'] ≠ ['o', 's'] := by decide
  simp [replacement, hi, ht, h1, h2, hc, hj, hs]
  exact ⟨hne, rfl⟩

/-- a member whose modified path is empty makes the expansion fail (Go: index out of range in
`prependParentDirPath`) instead of producing an empty word -/
theorem c18_join_empty_member_fails (env : Env) (ph : PH) (info : PortInfo) (carrier : S)
    (hi : env.portInfos.lookup ph.name = some info) (ht : info.typ = ['i'])
    (hj : info.join = true) (hs : info.joinSep ≠ []) (hc : env.inPaths.lookup ph.name = some carrier)
    (m : S) (hm : m ∈ (env.subs.lookup ph.name).getD []) (he : applyPathModifiers m ph.mods = []) :
    replacement env ph = none := by
  have h1 : ['i'] ≠ ['o'] := by decide
  have h2 : ['i'] ≠ ['o', 's'] := by decide
  simp [replacement, hi, ht, h1, h2, hc, hj, hs]
  exact ⟨m, hm, he⟩

/-- the separator sits between members only: n members, n-1 separators -/
theorem intercalate_two (sep a b : S) : intercalate sep [a, b] = a ++ sep ++ b := rfl
theorem intercalate_nil (sep : S) : intercalate sep [] = [] := rfl
theorem intercalate_one (sep a : S) : intercalate sep [a] = a := rfl

open SciVerif.Chan in
/-- draining the sub-stream port until closed yields every upstream's items, once, in order -/
theorem c18_whole_substream_once (B : Nat) (streams : List (List Nat)) (ls : List Label) (st : ChSt)
    (hr : run B (init streams) ls = some st) (hfin : finished st = true) (s : Nat) (hs : s < streams.length) :
    ((st.got.filter (·.1 = s)).map (·.2)) = streams.getD s [] :=
  c04_finished_delivers_all B streams ls st hr hfin s hs

theorem c18_members_in_identity (id : Identity) (port : S) (members : List S) (m : S)
    (hsub : (port, members) ∈ id.subs) (hm : m ∈ members) :
    ∀ seg ∈ splitAllPaths m, seg ∈ hashPieces id := by
  intro seg hseg
  simp only [hashPieces, List.mem_append, List.mem_flatMap]
  left; left; right
  exact ⟨(port, members), hsub, m, hm, hseg⟩

/-- the carrier of a joined port contributes nothing to the identity -/
theorem c18_carrier_not_hashed (name port : S) (carrier1 carrier2 : S) (members : List S)
    (params tags : List (S × S)) :
    hashPieces { name := name, ins := [(port, carrier1)], subs := [(port, members)], params := params, tags := tags } =
    hashPieces { name := name, ins := [(port, carrier2)], subs := [(port, members)], params := params, tags := tags } := by
  simp [hashPieces, isJoined]

/-- instance: three members, separator ",", basename modifier -/
example :
    replacement { portInfos := [(['i', 'n'], ⟨['i'], [], false, true, [',']⟩)], inPaths := [(['i', 'n'], ['c'])], inStream := [],
                  subs := [(['i', 'n'], [['d', '/', 'a'], ['b']])], outPaths := [], params := [], tags := [], prepend := [] }
      ⟨[], ['i'], ['i', 'n', '|', 'b', 'a', 's', 'e', 'n', 'a', 'm', 'e']⟩ = some ['.', '.', '/', 'a', ',', '.', '.', '/', 'b'] := by decide

end SciVerif.Fmt

#print axioms SciVerif.Fmt.c18_join_format
#print axioms SciVerif.Fmt.c18_join_empty_member_fails
#print axioms SciVerif.Fmt.intercalate_two
#print axioms SciVerif.Fmt.intercalate_nil
#print axioms SciVerif.Fmt.intercalate_one
#print axioms SciVerif.Fmt.c18_whole_substream_once
#print axioms SciVerif.Fmt.c18_members_in_identity
#print axioms SciVerif.Fmt.c18_carrier_not_hashed
