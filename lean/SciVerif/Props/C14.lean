import SciVerif.Lemmas.Fmt
/-!
# C14 — temp directories: a single valid segment, stable, distinct up to hash collisions

`H` stands for `hex ∘ SHA-1` and is a parameter: the theorems hold for every function producing 40
characters without '/'. Identities are sorted association lists (what `TempDir` iterates over
after `sort.Strings`), so "stable" is literally "a function of the identity".

* `c14_segment`: the name never contains '/', is neither "." nor "..", and is at most 255 long —
  for every identity, including names beyond the 214-byte fold.
* `c14_injective_mod_hash`: equal names ⇒ equal prefix and equal hash of two explicit strings; so
  two tasks share a temp dir only if their `preimage`s are equal or SHA-1 collides on them.
* `c14_concat_ambiguous` (negative, listed finding F3): different identities with equal preimage —
  the pieces are joined with the empty string.
-/
namespace SciVerif.Fmt
open SciVerif.Str

/-- what is assumed of hex(SHA-1(·)) -/
structure HexHash (H : S → S) : Prop where
  len : ∀ x, (H x).length = 40
  noSlash : ∀ x, ∀ c ∈ H x, c ≠ '/'

theorem c14_segment (H : S → S) (hH : HexHash H) (id : Identity) :
    (∀ c ∈ tempDir H id, c ≠ '/') ∧ tempDir H id ≠ ['.'] ∧ tempDir H id ≠ ['.', '.'] ∧
    (tempDir H id).length ≤ 255 := by
  refine ⟨?_, ?_, ?_, ?_⟩
  · intro c hc
    simp only [tempDir, List.mem_append, List.mem_singleton] at hc
    rcases hc with (hc | hc) | hc
    · exact pathPrefix_no_slash id c hc
    · subst hc; decide
    · exact hH.noSlash _ c hc
  · obtain ⟨rest, hr⟩ := pathPrefix_head id
    simp [tempDir, hr]
  · obtain ⟨rest, hr⟩ := pathPrefix_head id
    simp [tempDir, hr]
  · have := pathPrefix_length id
    have := hH.len (preimage id)
    simp [tempDir]; omega

/-- stability: the name is a function of the identity alone (no clock, no randomness, no map
order) — Tie A checks that the Go function has no other source -/
theorem c14_deterministic (H : S → S) (a b : Identity) (h : a = b) : tempDir H a = tempDir H b := by
  rw [h]

theorem c14_injective_mod_hash (H : S → S) (hH : HexHash H) (a b : Identity)
    (h : tempDir H a = tempDir H b) :
    pathPrefix a = pathPrefix b ∧ H (preimage a) = H (preimage b) := by
  simp only [tempDir, List.append_assoc] at h
  have hl : (['.'] ++ H (preimage a)).length = (['.'] ++ H (preimage b)).length := by
    simp [hH.len]
  obtain ⟨h1, h2⟩ := List.append_inj' h hl
  exact ⟨h1, by simpa using h2⟩

/-- two tasks share a temp dir only if their hashed strings are equal or SHA-1 collides on them -/
theorem c14_collision_is_explicit (H : S → S) (hH : HexHash H) (a b : Identity)
    (h : tempDir H a = tempDir H b) :
    preimage a = preimage b ∨ (preimage a ≠ preimage b ∧ H (preimage a) = H (preimage b)) := by
  have := (c14_injective_mod_hash H hH a b h).2
  by_cases he : preimage a = preimage b
  · exact Or.inl he
  · exact Or.inr ⟨he, this⟩

def idA : Identity := { name := "p".toList, ins := [("in".toList, "a/b.txt".toList)], subs := [], params := [], tags := [] }
def idB : Identity := { name := "p".toList, ins := [("in".toList, "ab.txt".toList)], subs := [], params := [], tags := [] }
def idC : Identity := { name := "p".toList, ins := [("in1".toList, "ab".toList), ("in2".toList, "c".toList)], subs := [], params := [], tags := [] }
def idD : Identity := { name := "p".toList, ins := [("in1".toList, "a".toList), ("in2".toList, "bc".toList)], subs := [], params := [], tags := [] }

/-- negative (F3): different input paths, same hashed string, hence the same temp dir for every H -/
theorem c14_concat_ambiguous :
    idA ≠ idB ∧ preimage idA = preimage idB ∧ idC ≠ idD ∧ preimage idC = preimage idD := by decide

theorem c14_concat_ambiguous_same_dir (H : S → S) : tempDir H idA = tempDir H idB := by
  have h1 : preimage idA = preimage idB := c14_concat_ambiguous.2.1
  have h2 : pathPrefix idA = pathPrefix idB := by decide
  simp [tempDir, h1, h2]

/-! ### `splitAllPaths` returns every segment (F22, fixed)

The loop of `splitAllPaths` walks from the deepest segment upwards. With the current stop condition it
returns all segments of every path; with the former one (`dir == file`) it stopped at a directory named
like its parent, so `d/d/f` and `e/e/f` both contributed only `f` to the hash. -/

theorem splitWalk_all (abs : Bool) (up parts : List S) :
    Str.splitWalk false abs up parts = up.reverse ++ parts := by
  induction up generalizing parts with
  | nil => simp [Str.splitWalk]
  | cons f up ih => simp [Str.splitWalk, ih]

theorem c14_split_returns_all_segments (abs : Bool) (segs : List S) :
    Str.splitWalk false abs segs.reverse [] = segs := by
  simp [splitWalk_all]

theorem c14_split_old_drops_segments :
    Str.splitWalk true false ["f".toList, "d".toList, "d".toList] [] = ["f".toList] ∧
    Str.splitWalk true false ["f".toList, "e".toList, "e".toList] [] = ["f".toList] ∧
    Str.splitWalk true false ["d".toList, "d".toList] [] = [] := by decide

-- non-vacuity: an identity beyond the fold still yields a short name
set_option maxRecDepth 8000 in
example : (pathPrefix { name := List.replicate 220 'x', ins := [], subs := [], params := [], tags := [] }).length = 12 := by decide

end SciVerif.Fmt

#print axioms SciVerif.Fmt.c14_segment
#print axioms SciVerif.Fmt.c14_deterministic
#print axioms SciVerif.Fmt.c14_injective_mod_hash
#print axioms SciVerif.Fmt.c14_collision_is_explicit
#print axioms SciVerif.Fmt.c14_concat_ambiguous
#print axioms SciVerif.Fmt.c14_concat_ambiguous_same_dir
#print axioms SciVerif.Fmt.splitWalk_all
#print axioms SciVerif.Fmt.c14_split_returns_all_segments
#print axioms SciVerif.Fmt.c14_split_old_drops_segments
