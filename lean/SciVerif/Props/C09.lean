import SciVerif.Lemmas.TaskSkip
import SciVerif.Props.C01
/-!
# C09 — a failing task stops the workflow; failure is never silent (task level)

`Fail` is `os.Exit(1)`: the model's `failed` status is absorbing and stands for "the whole workflow
process is gone with a non-zero status" (no goroutine takes another step, deferred functions do not
run, `Run` never returns).

* `c09_fail_is_terminal`: a failed task never moves again, in particular never reaches `done`.
* `c09_bad_exit_fails_task`: when the command ends with a non-zero status or is killed by a signal,
  the very next state is `failed` (given `cmdFailFatal`).
* `c09_bad_exit_never_ok`: such a command never counts as a successful run, at no instant, for any
  op order — with C01 this yields `c09_outputs_never_final`.
* `c09_missing_output_fails`: finalizing an output the command did not produce fails the task.
* `c09_active_always_moves`: a task never hangs by itself; the only terminal states are `done` and
  `failed`.
-/
namespace SciVerif.TaskFS

theorem c09_fail_is_terminal (sem : Sem) (c : Cfg) (s : St) (h : s.status = .failed) (n : Nat) :
    stepN sem c n s = s ∧ (stepN sem c n s).status ≠ .done := by
  have := stepN_of_not_active sem c s (by simp [h]) n
  exact ⟨this, by rw [this, h]; simp⟩

theorem c09_bad_exit_fails_task (sem : Sem) (hfat : sem.cmdFailFatal = true) (c : Cfg)
    (hex : c.beh.exit ≠ .ok) (s : St) (hact : s.status = .active) (hfin : s.finpc = none)
    (hcmd : s.cmd = .inRun []) :
    ∃ s', step sem c s = some s' ∧ s'.status = .failed := by
  refine ⟨stepCmd sem c s [], by simp [step, hact, hfin, hcmd], ?_⟩
  unfold stepCmd
  cases hx : c.beh.exit with
  | ok => exact absurd hx hex
  | code => simp [hfat, fail]
  | killed => simp [hfat, fail]

theorem c09_bad_exit_never_ok (sem : Sem) (hfat : sem.cmdFailFatal = true) (c : Cfg)
    (hex : c.beh.exit ≠ .ok) (pre : Nat → Option File) (n : Nat) :
    (stepN sem c n (init sem c pre)).cmd ≠ .ok ∧ (stepN sem c n (init sem c pre)).okRuns = 0 := by
  have h := F_stepN sem hfat c hex (init sem c pre) n ⟨by simp [init], rfl⟩
  exact ⟨h.cmd_not_ok.1, h.okRuns⟩

/-- the failing task's outputs never appear at their final paths -/
theorem c09_outputs_never_final (sem : Sem) (hwf : WF_C01 sem) (c : Cfg) (hex : c.beh.exit ≠ .ok)
    (pre : Nat → Option File) (n p : Nat) :
    (stepN sem c n (init sem c pre)).finalOut p = (init sem c pre).finalOut p :=
  c01_nothing_new_unless_ok sem hwf c pre n (Or.inl hex) p

/-- a declared output the command did not produce makes the rename (hence the task) fail -/
theorem c09_missing_output_fails (sem : Sem) (hren : sem.renameSrcTemp = true) (c : Cfg) (s : St)
    (hact : s.status = .active) (rest : List FinOp) (p : Nat) (ps : List Nat)
    (hfin : s.finpc = some { todo := .renameDeclared :: rest, ports := p :: ps })
    (hmiss : s.tempOut p = none) :
    ∃ s', step sem c s = some s' ∧ s'.status = .failed := by
  refine ⟨stepFin sem c s { todo := .renameDeclared :: rest, ports := p :: ps }, by simp [step, hact, hfin], ?_⟩
  simp [stepFin, hren, getF, hmiss, fail]

theorem c09_active_always_moves (sem : Sem) (c : Cfg) (s : St) :
    (step sem c s = none ↔ s.status ≠ .active) := by
  constructor
  · intro h
    intro hact
    obtain ⟨s', hs'⟩ := step_some_of_active sem c s hact
    rw [hs'] at h; simp at h
  · exact step_none_of_not_active sem c s

/-- non-vacuity / end-to-end instance: a command that exits 3 after a partial write fails the task,
nothing is finalized, the partial file stays below the temp dir -/
example : let c : Cfg := { streams := [false], beh := { acts := [.write 0 7], exit := .code } }
    let s := stepN semGood c 50 (init semGood c fun _ => none)
    (s.status, (s.finalOut 0).isSome, (s.tempOut 0).isSome, s.tmp) = (.failed, false, true, true) := by decide

end SciVerif.TaskFS

#print axioms SciVerif.TaskFS.c09_fail_is_terminal
#print axioms SciVerif.TaskFS.c09_bad_exit_fails_task
#print axioms SciVerif.TaskFS.c09_bad_exit_never_ok
#print axioms SciVerif.TaskFS.c09_outputs_never_final
#print axioms SciVerif.TaskFS.c09_missing_output_fails
#print axioms SciVerif.TaskFS.c09_active_always_moves
