import SciVerif.Lemmas.Slots
import SciVerif.Lemmas.SlotsBarrier
/-!
# C07 — task slots are deadlock-free and work-conserving

* `c07_no_deadlock`: with the deposit loop under the mutex and every `cores ≤ max`, every
  reachable state that still has an unfinished task has an enabled step.
* `c07_terminates`: every enabled step strictly decreases a natural-number measure, so every
  execution is finite and (with the above) ends with all tasks done.


* `c07_work_conserving`: when the tasks of a workload fit into the slots together (Σ cores ≤ max)
  and behave as a rendezvous (none leaves `run` before all of them run — `stepB`), there is still
  no deadlock: every reachable unfinished state has an enabled step; since every step decreases the
  measure, every maximal execution ends with all tasks done, and the first task to leave `run` did
  so in a state where all of them were executing simultaneously.
* `c07_needs_mutex` (negative): without the mutex two 2-core tasks on 2 slots deadlock.
* `c07_oversize_deadlocks` (negative): a task with `cores > max` blocks forever inside the
  deposit loop — this is why `Process.Run` must reject it up front (Tie A checks that it does).
-/
namespace SciVerif.Slots

theorem c07_no_deadlock (sem : SlotSem) (hl : sem.locked = true) (max : Nat) (cores : List Nat)
    (hc : ∀ c ∈ cores, c ≤ max) (sched : List Nat) (s : St)
    (h : run sem (init max cores) sched = some s) (hnd : allDone s = false) :
    ∃ i s', step sem s i = some s' := by
  obtain ⟨hinv, hm⟩ := run_inv sem _ s sched (init_inv max cores) h
  have hmx := run_acqCount sem hl _ s sched (by rw [init_acqCount]; omega) h
  have hcs : ∀ t ∈ s.tasks, t.cores ≤ s.max := by
    rw [hm]
    apply run_cores sem _ s sched h (fun c => c ≤ (init max cores).max)
    intro t ht
    simp [init] at ht ⊢
    obtain ⟨c, hcm, rfl⟩ := ht
    exact hc c hcm
  apply no_deadlock_core sem s hinv hmx hcs
  simp only [allDone, List.all_eq_false] at hnd
  obtain ⟨t, ht, hd⟩ := hnd
  exact ⟨t, ht, by simpa using hd⟩

/-- every schedule is shorter than the initial measure: executions are finite -/
theorem c07_terminates (sem : SlotSem) (max : Nat) (cores : List Nat) (sched : List Nat) (s : St)
    (h : run sem (init max cores) sched = some s) :
    sched.length + measure s ≤ measure (init max cores) :=
  run_measure sem sched _ s (init_inv max cores) h

/-- the bound is explicit: at most Σ (2·cores + 2) steps -/
theorem c07_measure_init (max : Nat) (cores : List Nat) :
    measure (init max cores) = (cores.map fun c => 2 * c + 2).sum := by
  simp only [measure, init, sumBy]
  induction cores with
  | nil => simp
  | cons c cs ih => simp only [List.map_cons, List.sum_cons, ih]; simp [mu]

/-- work conservation: k tasks that fit together do get to execute simultaneously — under
rendezvous behaviour (nobody finishes before everybody runs) the slot mechanism never blocks -/
theorem c07_work_conserving (sem : SlotSem) (hl : sem.locked = true) (max : Nat) (cores : List Nat)
    (hfit : cores.sum ≤ max) (sched : List Nat) (s : St)
    (h : runB sem (init max cores) sched = some s) (hnd : allDone s = false) :
    ∃ i s', stepB sem s i = some s' := by
  have hr := runB_run sem _ s sched h
  obtain ⟨hinv, hm⟩ := run_inv sem _ s sched (init_inv max cores) hr
  have hmx := run_acqCount sem hl _ s sched (by rw [init_acqCount]; omega) hr
  have hsum : sumBy (·.cores) s.tasks ≤ s.max := by
    rw [run_sumBy_cores sem _ s sched hr, hm]
    simp only [init, sumBy, List.map_map]
    have hmap : ∀ l : List Nat, (l.map ((fun t : Task => t.cores) ∘ fun c => ({ cores := c, ph := .idle } : Task))) = l := by
      intro l
      induction l with
      | nil => rfl
      | cons c cs ih => simp [ih]
    rw [hmap]; exact hfit
  apply barrier_no_deadlock sem s hinv hmx hsum
  simp only [allDone, List.all_eq_false] at hnd
  obtain ⟨t, ht, hd⟩ := hnd
  exact ⟨t, ht, by simpa using hd⟩

/-- rendezvous executions are executions: the termination bound applies to them too -/
theorem c07_work_conserving_terminates (sem : SlotSem) (max : Nat) (cores : List Nat) (sched : List Nat) (s : St)
    (h : runB sem (init max cores) sched = some s) : sched.length + measure s ≤ measure (init max cores) :=
  c07_terminates sem max cores sched s (runB_run sem _ s sched h)

/-- instance: two 2-core tasks on 4 slots under rendezvous reach the state where both run -/
example : ∃ s, runB ⟨true⟩ (init 4 [2, 2]) [0, 0, 0, 1, 1, 1] = some s ∧ s.tasks.all isRun = true := ⟨_, rfl, by decide⟩

/-- negative: without the mutex, max = 2 and cores [2,2] reach a stuck, unfinished state -/
theorem c07_needs_mutex :
    ∃ s, run ⟨false⟩ (init 2 [2, 2]) [0, 1, 0, 1] = some s ∧ allDone s = false ∧ succs ⟨false⟩ s = [] := by
  exact ⟨_, rfl, by decide, by decide⟩

/-- negative: an oversize task hangs in the deposit loop (and blocks everybody else) -/
theorem c07_oversize_deadlocks :
    ∃ s, run ⟨true⟩ (init 2 [3, 1]) [0, 0, 0] = some s ∧ allDone s = false ∧ succs ⟨true⟩ s = [] := by
  exact ⟨_, rfl, by decide, by decide⟩

/-- non-vacuity of `c07_no_deadlock`: its hypotheses hold of a mixed workload mid-flight -/
example : ∃ s, run ⟨true⟩ (init 3 [2, 1, 3]) [0, 0, 0, 1, 1] = some s ∧ allDone s = false :=
  ⟨_, rfl, by decide⟩

end SciVerif.Slots

#print axioms SciVerif.Slots.c07_no_deadlock
#print axioms SciVerif.Slots.c07_terminates
#print axioms SciVerif.Slots.c07_work_conserving
#print axioms SciVerif.Slots.c07_work_conserving_terminates
#print axioms SciVerif.Slots.c07_measure_init
#print axioms SciVerif.Slots.c07_needs_mutex
#print axioms SciVerif.Slots.c07_oversize_deadlocks
