import SciVerif.Lemmas.Slots
/-!
# C07 — task slots are deadlock-free and work-conserving

* `c07_no_deadlock`: with the deposit loop under the mutex and every `cores ≤ max`, every
  reachable state that still has an unfinished task has an enabled step.
* `c07_terminates`: every enabled step strictly decreases a natural-number measure, so every
  execution is finite and (with the above) ends with all tasks done.


* `c07_needs_mutex` (negative): without the mutex two 2-core tasks on 2 slots deadlock.
* `c07_oversize_deadlocks` (negative): a task with `cores > max` blocks forever inside the
  deposit loop — this is why `Process.Run` must reject it up front (Tie A checks that it does).
-/
namespace SciVerif.Slots

theorem c07_no_deadlock (sem : SlotSem) (hl : sem.locked = true) (max : Nat) (cores : List Nat)
    (hc : ∀ c ∈ cores, c ≤ max) (sched : List Nat) (s : St)
    (h : run sem (init max cores) sched = some s) (hnd : allDone s = false) :
    ∃ i s', step sem s i = some s' := by
  obtain ⟨hinv, hm⟩ := run_inv sem _ s sched (init_inv max cores) h
  have hmx := run_acqCount sem hl _ s sched (by rw [init_acqCount]; omega) h
  have hcs : ∀ t ∈ s.tasks, t.cores ≤ s.max := by
    rw [hm]
    apply run_cores sem _ s sched h (fun c => c ≤ (init max cores).max)
    intro t ht
    simp [init] at ht ⊢
    obtain ⟨c, hcm, rfl⟩ := ht
    exact hc c hcm
  apply no_deadlock_core sem s hinv hmx hcs
  simp only [allDone, List.all_eq_false] at hnd
  obtain ⟨t, ht, hd⟩ := hnd
  exact ⟨t, ht, by simpa using hd⟩

/-- every schedule is shorter than the initial measure: executions are finite -/
theorem c07_terminates (sem : SlotSem) (max : Nat) (cores : List Nat) (sched : List Nat) (s : St)
    (h : run sem (init max cores) sched = some s) :
    sched.length + measure s ≤ measure (init max cores) :=
  run_measure sem sched _ s (init_inv max cores) h

/-- the bound is explicit: at most Σ (2·cores + 2) steps -/
theorem c07_measure_init (max : Nat) (cores : List Nat) :
    measure (init max cores) = (cores.map fun c => 2 * c + 2).sum := by
  simp only [measure, init, sumBy]
  induction cores with
  | nil => simp
  | cons c cs ih => simp only [List.map_cons, List.sum_cons, ih]; simp [mu]

/-- negative: without the mutex, max = 2 and cores [2,2] reach a stuck, unfinished state -/
theorem c07_needs_mutex :
    ∃ s, run ⟨false⟩ (init 2 [2, 2]) [0, 1, 0, 1] = some s ∧ allDone s = false ∧ succs ⟨false⟩ s = [] := by
  exact ⟨_, rfl, by decide, by decide⟩

/-- negative: an oversize task hangs in the deposit loop (and blocks everybody else) -/
theorem c07_oversize_deadlocks :
    ∃ s, run ⟨true⟩ (init 2 [3, 1]) [0, 0, 0] = some s ∧ allDone s = false ∧ succs ⟨true⟩ s = [] := by
  exact ⟨_, rfl, by decide, by decide⟩

/-- non-vacuity of `c07_no_deadlock`: its hypotheses hold of a mixed workload mid-flight -/
example : ∃ s, run ⟨true⟩ (init 3 [2, 1, 3]) [0, 0, 0, 1, 1] = some s ∧ allDone s = false :=
  ⟨_, rfl, by decide⟩

end SciVerif.Slots

#print axioms SciVerif.Slots.c07_no_deadlock
#print axioms SciVerif.Slots.c07_terminates
#print axioms SciVerif.Slots.c07_measure_init
#print axioms SciVerif.Slots.c07_needs_mutex
#print axioms SciVerif.Slots.c07_oversize_deadlocks
