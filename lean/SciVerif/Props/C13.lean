import SciVerif.Lemmas.Fmt
import SciVerif.Lemmas.Replace
/-!
# C13 — a file written at an output placeholder ends up exactly at the declared path

Where the file lands is decided by three pure functions: `tempPath` (what the command sees at
`{o:..}`, relative to the task's temp dir), `prependParent` (what it sees at `{i:..}`), and
`decodeExtra` (where `FinalizePaths` moves any other file found below the temp dir). Declared
outputs are renamed from `<tmp>/<tempPath p>` to `p` itself, so for them only confinement and
resolvability matter; extras go through encode/decode.

* `c13_input_resolves`: lexically, `<cwd>/<tmp>/` + `prependParent p` denotes the same file as
  `<cwd>/` + `p`, for every relative `p` and every temp-dir name that is a single ordinary segment
  (C14); absolute paths are passed through unchanged.
* `c13_temp_path_relative`: `tempPath p` never starts with '/', so `<tmp>/<tempPath p>` is below
  the working directory's temp dir textually.
* `c13_extras_same_place`: an extra file whose temp-relative path contains neither the parent-dir
  placeholder nor the fs-root placeholder is moved to the very same relative path.
* negatives: `decodeParent ∘ encodeParent` is not the identity on valid paths
  (`c13_decode_not_inverse`) and `tempPath` is not injective on valid paths (`c13_temp_collision`):
  both need a path segment that spells the internal placeholder.
-/
namespace SciVerif.Fmt
open SciVerif.Str

/-- lexical path resolution: a stack of segments; "." is skipped, ".." pops -/
def normStep (stack : List S) (seg : S) : List S :=
  if seg = ['.'] then stack
  else if seg = ['.', '.'] then stack.dropLast
  else stack ++ [seg]

def resolveSegs (base : List S) (segs : List S) : List S := segs.foldl normStep base

/-- from inside `<cwd>/<tmp>`, the relative path "../" ++ p denotes what p denotes from `<cwd>` -/
theorem c13_input_resolves (cwd : List S) (tmp : S) (htmp1 : tmp ≠ ['.']) (htmp2 : tmp ≠ ['.', '.'])
    (psegs : List S) :
    resolveSegs (resolveSegs cwd [tmp]) (['.', '.'] :: psegs) = resolveSegs cwd psegs := by
  simp [resolveSegs, normStep, htmp1, htmp2]

/-- `prependParent` puts exactly one "../" in front of a relative path and leaves absolute ones -/
theorem c13_prepend_shape (p : S) :
    (∀ rest, p = '/' :: rest → prependParent p = p) ∧
    ((∀ rest, p ≠ '/' :: rest) → prependParent p = '.' :: '.' :: '/' :: p) := by
  constructor
  · intro rest h; subst h; rfl
  · intro h
    cases p with
    | nil => rfl
    | cons c cs =>
      by_cases hc : c = '/'
      · exact absurd (by rw [hc]) (h cs)
      · simp [prependParent, parentTok, hc]

theorem c13_temp_path_relative (p : S) : ∀ rest, tempPath p ≠ '/' :: rest := by
  intro rest
  unfold tempPath
  cases h : encodeParent p with
  | nil => simp
  | cons c cs =>
    by_cases hc : c = '/'
    · subst hc; simp [fsrootPH]
    · simp only
      split
      · rename_i heq; simp at heq; exact absurd heq.1 hc
      · intro heq; simp at heq; exact absurd heq.1 hc

/-- `pat` occurs nowhere in `s` -/
def noOcc (pat : S) : S → Prop
  | [] => stripPrefix? pat [] = none
  | c :: cs => stripPrefix? pat (c :: cs) = none ∧ noOcc pat cs

theorem replaceAllF_noOcc (pat rep : S) (n : Nat) (s : S) (h : noOcc pat s) :
    replaceAllF pat rep n s = s := by
  induction n generalizing s with
  | zero => rfl
  | succ n ih =>
    cases s with
    | nil => rfl
    | cons c cs =>
      simp only [noOcc] at h
      simp only [replaceAllF, h.1]
      rw [ih cs h.2]

theorem replaceFirst_noOcc (pat rep : S) (s : S) (h : noOcc pat s) : replaceFirst pat rep s = s := by
  induction s with
  | nil => rfl
  | cons c cs ih =>
    simp only [noOcc] at h
    simp only [replaceFirst, h.1]
    rw [ih h.2]

/-- extras whose name does not spell a placeholder are moved to the same relative location -/
theorem c13_extras_same_place (rel : S) (h1 : noOcc parentPH rel) (h2 : noOcc (fsrootPH ++ ['/']) rel) :
    decodeExtra rel = rel := by
  unfold decodeExtra goReplace1
  have hne : fsrootPH ++ ['/'] ≠ [] := by simp
  rw [if_neg hne, replaceFirst_noOcc _ _ rel h2]
  exact replaceAllF_noOcc _ _ _ rel h1

/-- an extra file below an encoded parent / root directory is moved out to that directory -/
example : decodeExtra "__parent__sib/x.txt".toList = "../sib/x.txt".toList ∧
    decodeExtra "__fsroot__/abs/x.txt".toList = "/abs/x.txt".toList ∧
    decodeExtra "sub/dir/x.txt".toList = "sub/dir/x.txt".toList := by decide

/-- non-vacuity of `c13_extras_same_place` -/
example : noOcc parentPH "sub/x_y.txt".toList ∧ noOcc (fsrootPH ++ ['/']) "sub/x_y.txt".toList := by
  simp [noOcc, parentPH, fsrootPH, stripPrefix?]

/-! ### round trip: a file written at the temp image of `p` is moved to `p` -/

/-- decoding undoes encoding on every path without an underscore (so in particular without a
segment that spells a placeholder), however many `../` it has and wherever they are -/
theorem c13_decode_encode (p : S) (h : '_' ∉ p) : decodeParent (encodeParent p) = p :=
  decodeParent_encodeParent p h

theorem encodeParent_abs (r : S) : encodeParent ('/' :: r) = '/' :: replaceAllF parentTok parentPH r.length r := by
  simp [encodeParent, replaceAll, replaceAllF, parentTok, stripPrefix?]

/-- an absolute path: the file the command writes at `<tmp>/__fsroot__/…` is moved back to `/…` -/
theorem c13_roundtrip_absolute (r : S) (h : '_' ∉ r) : decodeExtra (tempPath ('/' :: r)) = '/' :: r := by
  have he := encodeParent_abs r
  have ht : tempPath ('/' :: r) = fsrootPH ++ encodeParent ('/' :: r) := by
    simp only [tempPath, he]
  rw [ht, he]
  unfold decodeExtra goReplace1
  have hne : fsrootPH ++ ['/'] ≠ [] := by simp
  rw [if_neg hne]
  have hform : fsrootPH ++ '/' :: replaceAllF parentTok parentPH r.length r =
      '_' :: (['_', 'f', 's', 'r', 'o', 'o', 't', '_', '_'] ++ ['/'] ++ replaceAllF parentTok parentPH r.length r) := by
    simp [fsrootPH]
  have hstrip : stripPrefix? (fsrootPH ++ ['/']) (fsrootPH ++ '/' :: replaceAllF parentTok parentPH r.length r) =
      some (replaceAllF parentTok parentPH r.length r) := by
    have := stripPrefix?_append_self (fsrootPH ++ ['/']) (replaceAllF parentTok parentPH r.length r)
    simpa using this
  rw [hform]
  simp only [replaceFirst]
  rw [← hform, hstrip]
  simp only
  have : ['/'] ++ replaceAllF parentTok parentPH r.length r = encodeParent ('/' :: r) := by rw [he]; rfl
  rw [this]
  exact decodeParent_encodeParent ('/' :: r) (by simp; exact h)

/-- a relative path whose encoded form does not spell the fs-root placeholder (decidable; it cannot when
the path has no underscore, see the examples) -/
theorem c13_roundtrip_relative (p : S) (h : '_' ∉ p) (hrel : ∀ r, p ≠ '/' :: r)
    (hfs : noOcc (fsrootPH ++ ['/']) (encodeParent p)) : decodeExtra (tempPath p) = p := by
  have hq : ∀ r, encodeParent p ≠ '/' :: r := by
    intro r hr
    cases p with
    | nil => simp [encodeParent, replaceAll, replaceAllF] at hr
    | cons c cs =>
      have hc : c ≠ '/' := fun hc => hrel cs (by rw [hc])
      simp only [encodeParent, replaceAll, List.length_cons, replaceAllF] at hr
      split at hr
      · simp [parentPH] at hr
      · simp at hr; exact hc hr.1
  have ht : tempPath p = encodeParent p := by
    unfold tempPath
    generalize encodeParent p = q at hq
    cases q with
    | nil => rfl
    | cons c cs =>
      by_cases hc : c = '/'
      · exact absurd (by rw [hc]) (hq cs)
      · simp only
  rw [ht]
  unfold decodeExtra goReplace1
  have hne : fsrootPH ++ ['/'] ≠ [] := by simp
  rw [if_neg hne, replaceFirst_noOcc _ _ _ hfs]
  exact decodeParent_encodeParent p h

/-- non-vacuity: typical relative outputs meet the hypotheses of `c13_roundtrip_relative` -/
example : '_' ∉ "../../sib/new/x.txt".toList ∧ (∀ r, "../../sib/new/x.txt".toList ≠ '/' :: r) ∧
    decodeExtra (tempPath "../../sib/new/x.txt".toList) = "../../sib/new/x.txt".toList := by
  refine ⟨by decide, by intro r h; simp at h, by decide⟩

theorem c13_decode_not_inverse :
    decodeParent (encodeParent "__parent../x".toList) = "../parent__x".toList ∧
    pathIsValid "__parent../x".toList = true := by decide

theorem c13_temp_collision :
    tempPath "../x".toList = tempPath "__parent__x".toList ∧
    pathIsValid "../x".toList = true ∧ pathIsValid "__parent__x".toList = true := by decide

/-- instances of the documented shapes -/
example : tempPath "sub/new/x.txt".toList = "sub/new/x.txt".toList ∧
    tempPath "../../up/x.txt".toList = "__parent____parent__up/x.txt".toList ∧
    tempPath "/abs/x.txt".toList = "__fsroot__/abs/x.txt".toList := by decide

end SciVerif.Fmt

#print axioms SciVerif.Fmt.c13_decode_encode
#print axioms SciVerif.Fmt.encodeParent_abs
#print axioms SciVerif.Fmt.c13_roundtrip_absolute
#print axioms SciVerif.Fmt.c13_roundtrip_relative
#print axioms SciVerif.Fmt.c13_input_resolves
#print axioms SciVerif.Fmt.c13_prepend_shape
#print axioms SciVerif.Fmt.c13_temp_path_relative
#print axioms SciVerif.Fmt.replaceAllF_noOcc
#print axioms SciVerif.Fmt.replaceFirst_noOcc
#print axioms SciVerif.Fmt.c13_extras_same_place
#print axioms SciVerif.Fmt.c13_decode_not_inverse
#print axioms SciVerif.Fmt.c13_temp_collision
