import SciVerif.Model.Chan
import SciVerif.Model.Proc
import SciVerif.Lemmas.NetVal
/-!
# C04 — every input set is processed exactly once; every item reaches every consumer

Channel level (`Model/Chan.lean`), for every capacity `B`, any number of upstream out-ports feeding
one in-port, every stream length (also beyond `B`) and **every** interleaving of sends, receives
and closes:

* `c04_no_loss_no_dup`: at every instant, for every sender, what has been delivered (received or
  still queued) followed by what it has yet to send is exactly its stream — nothing lost, nothing
  duplicated, per-sender order preserved through fan-in;
* `c04_finished_delivers_all`: once the port is closed and drained the receiver holds, for every
  sender, exactly that sender's stream in order;
* `c04_channel_progress`: with `B ≥ 1` an unfinished port always has an enabled step.

Process level:

* `c04_tasks_are_zipped_inputs`: the task-creation loop builds exactly the aligned tuples of the
  delivered streams, `min` of the lengths many — one task per complete input set.
* task bookkeeping of the main loop is C08's theorem (`accepted = forwarded ++ in flight`): every
  created task is forwarded exactly once.

Network level (`Model/NetVal.lean`: the counting network of C05 with a value on every item), for every acyclic
graph, every buffer size, every stream lengths (balanced or not) and **every** schedule:

* `c04_network_tasks_follow_zip`: in every reachable state, the `k`-th task a process has created is the
  task the zip semantics `den` prescribes — `g v` of the `k`-th tasks of its upstream processes. No input
  set is ever paired differently, whatever the interleaving;
* `c04_network_sent_is_prefix`: what a process has sent is a prefix of its zip-semantics stream;
* `c04_network_result_schedule_independent`: two maximal runs of a balanced network end with the same items
  sent by every process: `N` items each, the zip-semantics stream (Kahn determinism for scipipe networks);
* `c04_network_complete_result`: a maximal run of a balanced network has sent exactly `den … 0 … N-1`.
-/
namespace SciVerif.Chan

def Inv (streams : List (List Nat)) (st : ChSt) : Prop :=
  st.todo.length = streams.length ∧ st.isOpen.length = streams.length ∧
  ∀ s, s < streams.length → delivered st s ++ st.todo.getD s [] = streams.getD s []

theorem delivered_recv (st : ChSt) (h : Nat × Nat) (t : List (Nat × Nat)) (hq : st.queue = h :: t) (s : Nat) :
    delivered { st with queue := t, got := st.got ++ [h] } s = delivered st s := by
  simp [delivered, hq]

theorem step_inv (B : Nat) (streams : List (List Nat)) (st st' : ChSt) (l : Label) (h : Inv streams st)
    (hs : step B st l = some st') : Inv streams st' := by
  obtain ⟨h1, h2, h3⟩ := h
  cases l with
  | send s =>
    simp only [step] at hs
    split at hs
    · rename_i x rest ht ho
      split at hs
      · simp at hs; subst hs
        have hs_lt : s < st.todo.length := by
          rcases Nat.lt_or_ge s st.todo.length with hl | hl
          · exact hl
          · simp [List.getElem?_eq_none hl] at ht
        refine ⟨by simp [h1], h2, ?_⟩
        intro s' hs'
        have := h3 s' hs'
        by_cases heq : s' = s
        · subst heq
          simp only [delivered, List.getD_eq_getElem?_getD] at this ⊢
          simp only [ht, Option.getD_some] at this
          simp [List.filter_append, hs_lt, ← this]
        · simp only [delivered, List.getD_eq_getElem?_getD] at this ⊢
          rw [List.getElem?_set_ne (by omega)]
          simp [List.filter_append, heq, ← this]
          intro hcon; exact absurd hcon.symm heq
      · simp at hs
    · simp at hs
  | recv =>
    simp only [step] at hs
    split at hs
    · rename_i hh t hq
      simp at hs; subst hs
      refine ⟨h1, h2, ?_⟩
      intro s hs'
      rw [delivered_recv st hh t hq s]
      exact h3 s hs'
    · simp at hs
  | close s =>
    simp only [step] at hs
    split at hs
    · simp at hs; subst hs
      exact ⟨h1, by simp [h2], fun s' hs' => h3 s' hs'⟩
    · simp at hs

theorem init_inv (streams : List (List Nat)) : Inv streams (init streams) := by
  refine ⟨rfl, by simp [init], ?_⟩
  intro s _
  simp [delivered, init]

theorem run_inv (B : Nat) (streams : List (List Nat)) (ls : List Label) (st st' : ChSt) (h : Inv streams st)
    (hr : run B st ls = some st') : Inv streams st' := by
  induction ls generalizing st with
  | nil => simp [run] at hr; subst hr; exact h
  | cons l ls ih =>
    simp only [run] at hr
    split at hr
    · simp at hr
    · rename_i st1 hs1
      exact ih st1 (step_inv B streams st st1 l h hs1) hr

/-- nothing lost, nothing duplicated, per-sender order — at every instant, for every interleaving -/
theorem c04_no_loss_no_dup (B : Nat) (streams : List (List Nat)) (ls : List Label) (st : ChSt)
    (hr : run B (init streams) ls = some st) (s : Nat) (hs : s < streams.length) :
    delivered st s ++ st.todo.getD s [] = streams.getD s [] :=
  (run_inv B streams ls _ st (init_inv streams) hr).2.2 s hs

/-- a sender whose connection is closed has nothing left to send -/
def ClosedEmpty (st : ChSt) : Prop := ∀ s, st.isOpen.getD s true = false → st.todo.getD s [] = []

theorem step_closedEmpty (B : Nat) (st st' : ChSt) (l : Label) (h : ClosedEmpty st)
    (hs : step B st l = some st') : ClosedEmpty st' := by
  cases l with
  | send s =>
    simp only [step] at hs
    split at hs
    · rename_i x rest ht ho
      split at hs
      · simp at hs; subst hs
        intro s' hc
        by_cases heq : s' = s
        · subst heq
          simp only [List.getD_eq_getElem?_getD, ho] at hc
          simp at hc
        · have := h s' hc
          simp only [List.getD_eq_getElem?_getD] at this ⊢
          rw [List.getElem?_set_ne (by omega)]; exact this
      · simp at hs
    · simp at hs
  | recv =>
    simp only [step] at hs
    split at hs
    · simp at hs; subst hs; exact h
    · simp at hs
  | close s =>
    simp only [step] at hs
    split at hs
    · rename_i ht ho
      simp at hs; subst hs
      intro s' hc
      by_cases heq : s' = s
      · subst heq; simp [List.getD_eq_getElem?_getD, ht]
      · apply h s'
        simp only [List.getD_eq_getElem?_getD] at hc ⊢
        rw [List.getElem?_set_ne (by omega)] at hc; exact hc
    · simp at hs

theorem run_closedEmpty (B : Nat) (ls : List Label) (st st' : ChSt) (h : ClosedEmpty st)
    (hr : run B st ls = some st') : ClosedEmpty st' := by
  induction ls generalizing st with
  | nil => simp [run] at hr; subst hr; exact h
  | cons l ls ih =>
    simp only [run] at hr
    split at hr
    · simp at hr
    · rename_i st1 hs1
      exact ih st1 (step_closedEmpty B st st1 l h hs1) hr

/-- closed and drained ⇒ the receiver got exactly every sender's stream, in that sender's order -/
theorem c04_finished_delivers_all (B : Nat) (streams : List (List Nat)) (ls : List Label) (st : ChSt)
    (hr : run B (init streams) ls = some st) (hfin : finished st = true) (s : Nat) (hs : s < streams.length) :
    ((st.got.filter (·.1 = s)).map (·.2)) = streams.getD s [] := by
  have hinv := run_inv B streams ls _ st (init_inv streams) hr
  have hce := run_closedEmpty B ls _ st (by intro s hc; simp [init, List.getD_eq_getElem?_getD] at hc; cases hx : (streams[s]?) <;> simp [hx] at hc) hr
  simp only [finished, Bool.and_eq_true, List.all_eq_true, List.isEmpty_iff] at hfin
  have hq := hfin.2
  have h3 := hinv.2.2 s hs
  have hclosed : st.isOpen.getD s true = false := by
    have hlt : s < st.isOpen.length := by rw [hinv.2.1]; exact hs
    have := hfin.1 (st.isOpen[s]) (List.getElem_mem hlt)
    simp only [List.getD_eq_getElem?_getD, List.getElem?_eq_getElem hlt, Option.getD_some]
    simpa using this
  rw [hce s hclosed] at h3
  simpa [delivered, hq] using h3

/-- progress: with capacity ≥ 1, a port that is not finished can always make a step -/
theorem c04_channel_progress (B : Nat) (hB : 1 ≤ B) (streams : List (List Nat)) (ls : List Label) (st : ChSt)
    (hr : run B (init streams) ls = some st) (hnf : finished st = false) :
    ∃ l, (step B st l).isSome = true := by
  have hinv := run_inv B streams ls _ st (init_inv streams) hr
  have hce := run_closedEmpty B ls _ st (by intro s hc; simp [init, List.getD_eq_getElem?_getD] at hc; cases hx : (streams[s]?) <;> simp [hx] at hc) hr
  cases hq : st.queue with
  | cons h t => exact ⟨.recv, by simp [step, hq]⟩
  | nil =>
    simp only [finished, hq, List.isEmpty_nil, Bool.and_true, List.all_eq_false] at hnf
    obtain ⟨b, hb, hbo⟩ := hnf
    obtain ⟨s, hs⟩ := List.getElem?_of_mem hb
    have hbt : b = true := by cases b <;> simp_all
    subst hbt
    have hlt : s < st.todo.length := by
      have : s < st.isOpen.length := by
        rcases Nat.lt_or_ge s st.isOpen.length with hl | hl
        · exact hl
        · simp [List.getElem?_eq_none hl] at hs
      rw [hinv.1, ← hinv.2.1]; exact this
    cases ht : st.todo[s] with
    | nil => exact ⟨.close s, by simp [step, List.getElem?_eq_getElem hlt, ht, hs]⟩
    | cons x rest =>
      refine ⟨.send s, ?_⟩
      simp [step, List.getElem?_eq_getElem hlt, ht, hs, hq]
      omega

/-! ### task creation -/

theorem createTasks_eq_zip_single (c : List Nat) (fuel : Nat) (hf : c.length ≤ fuel) :
    createTasks fuel [c] = zipPorts [c] := by
  induction c generalizing fuel with
  | nil => cases fuel <;> simp [createTasks, zipPorts]
  | cons x xs ih =>
    cases fuel with
    | zero => simp at hf
    | succ f =>
      simp only [createTasks, List.all_cons, List.all_nil, List.isEmpty_cons, Bool.not_false, Bool.and_self, if_true,
        List.map_cons, List.map_nil, List.headD_cons, List.tail_cons]
      rw [ih f (by simpa using hf)]
      simp [zipPorts]

/-- the number of tasks is the length of the shortest delivered stream -/
theorem createTasks_length (ports : List (List Nat)) (hne : ports ≠ []) (fuel : Nat)
    (hf : ∀ p ∈ ports, p.length ≤ fuel) (m : Nat) (hm : ∀ p ∈ ports, m ≤ p.length) (hex : ∃ p ∈ ports, p.length = m) :
    (createTasks fuel ports).length = m := by
  induction fuel generalizing ports m with
  | zero =>
    obtain ⟨p, hp, hpm⟩ := hex
    have := hf p hp
    simp [createTasks]; omega
  | succ f ih =>
    simp only [createTasks]
    split
    · rename_i hall
      simp only [List.all_eq_true, Bool.not_eq_true', List.isEmpty_eq_false_iff] at hall
      have hpos : 0 < m := by
        obtain ⟨p, hp, hpm⟩ := hex
        have := hall p hp
        cases p with
        | nil => simp at this
        | cons a as => simp at hpm; omega
      simp only [List.length_cons]
      rw [ih (ports.map List.tail) (by simpa using hne) ?_ (m - 1) ?_ ?_]
      · omega
      · intro p hp
        simp only [List.mem_map] at hp
        obtain ⟨q, hq, rfl⟩ := hp
        have := hf q hq
        simp; omega
      · intro p hp
        simp only [List.mem_map] at hp
        obtain ⟨q, hq, rfl⟩ := hp
        have := hm q hq
        simp; omega
      · obtain ⟨p, hp, hpm⟩ := hex
        exact ⟨p.tail, List.mem_map.2 ⟨p, hp, rfl⟩, by simp [hpm]⟩
    · rename_i hall
      have hall' : ports.all (fun p => !p.isEmpty) = false := by simpa using hall
      rw [List.all_eq_false] at hall'
      obtain ⟨p, hp, hpe⟩ := hall'
      have hpnil : p = [] := by
        cases p with
        | nil => rfl
        | cons a as => simp at hpe
      have := hm p hp
      simp [hpnil] at this
      simp [this]

/-- every task takes the next item of every port: task `i` is the i-th aligned tuple -/
theorem c04_tasks_are_zipped_inputs (ports : List (List Nat)) (fuel : Nat) (i : Nat)
    (hi : i < (createTasks fuel ports).length) :
    (createTasks fuel ports)[i] = ports.map fun p => p.getD i 0 := by
  induction fuel generalizing ports i with
  | zero => simp [createTasks] at hi
  | succ f ih =>
    simp only [createTasks] at hi ⊢
    split
    · rename_i hall
      simp only [hall, if_true] at hi
      cases i with
      | zero =>
        simp only [List.getElem_cons_zero]
        apply List.map_congr_left
        intro p _
        cases p <;> simp
      | succ j =>
        simp only [List.getElem_cons_succ]
        rw [ih (ports.map List.tail) j (by simpa using hi)]
        simp only [List.map_map]
        apply List.map_congr_left
        intro p _
        cases p <;> simp
    · rename_i hall
      simp [hall] at hi

/-- non-vacuity / instance: three streams of lengths 3, 2, 4 give exactly two tasks -/
example : createTasks 10 [[1, 2, 3], [10, 20], [5, 6, 7, 8]] = [[1, 10, 5], [2, 20, 6]] := by decide
/-- a run beyond the buffer size: capacity 1, five items, interleaved -/
example : (run 1 (init [[1, 2, 3]]) [.send 0, .recv, .send 0, .recv, .send 0, .close 0, .recv]).map (·.got) =
    some [(0, 1), (0, 2), (0, 3)] := by decide

end SciVerif.Chan

namespace SciVerif.C04
open SciVerif.Net

variable {n : Nat} {α : Type}

/-- every task created in any schedule is the one the zip semantics prescribes -/
theorem c04_network_tasks_follow_zip [Inhabited α] (vn : VNet n α) (hac : acyclic vn.net) (ls : List (Lbl n))
    (s : VSt n α) (hr : vrun vn (vinit n α) ls = some s) (v : Fin n) (k : Nat) (hk : k < s.base.c v) :
    (s.tasks v)[k]? = some (den vn n v k) ∧ (s.tasks v).length = s.base.c v := by
  have hinv := vrun_inv vn ls _ _ (vinv_init vn) hr
  exact ⟨tasks_eq_den vn hac s hinv v.val v rfl n v.isLt k hk, hinv.len v⟩

/-- the list of tasks of a process is the zip-semantics stream up to the number of tasks created -/
theorem c04_network_tasks_eq [Inhabited α] (vn : VNet n α) (hac : acyclic vn.net) (ls : List (Lbl n))
    (s : VSt n α) (hr : vrun vn (vinit n α) ls = some s) (v : Fin n) :
    s.tasks v = (List.range (s.base.c v)).map (den vn n v) := by
  apply List.ext_getElem?
  intro k
  by_cases hk : k < s.base.c v
  · rw [(c04_network_tasks_follow_zip vn hac ls s hr v k hk).1]
    simp [hk]
  · have hinv := vrun_inv vn ls _ _ (vinv_init vn) hr
    have h1 : (s.tasks v)[k]? = none := by
      apply List.getElem?_eq_none; rw [hinv.len v]; omega
    rw [h1]
    exact (List.getElem?_eq_none (by simp; omega)).symm

/-- what has been sent is a prefix of the zip-semantics stream: its first `f v` items -/
theorem c04_network_sent_is_prefix [Inhabited α] (vn : VNet n α) (hac : acyclic vn.net) (ls : List (Lbl n))
    (s : VSt n α) (hr : vrun vn (vinit n α) ls = some s) (v : Fin n) :
    sent s v = (List.range (s.base.f v)).map (den vn n v) := by
  have hinv := vrun_inv vn ls _ _ (vinv_init vn) hr
  have hfc := hinv.base.fc v
  unfold sent
  rw [c04_network_tasks_eq vn hac ls s hr v, ← List.map_take, List.take_range]
  congr 2
  omega

/-- a maximal run of a balanced network: every process has returned after sending exactly the `N` items of
its zip-semantics stream -/
theorem c04_network_complete_result [Inhabited α] (vn : VNet n α) (N : Nat) (hbal : balanced vn.net N)
    (hac : acyclic vn.net) (hB : 1 ≤ vn.net.B) (ls : List (Lbl n)) (s : VSt n α)
    (hr : vrun vn (vinit n α) ls = some s) (hmax : vstuck vn s) (v : Fin n) :
    s.base.term v = true ∧ sent s v = (List.range N).map (den vn n v) := by
  have hb := vrun_proj vn ls _ _ hr
  have hI := run_inv vn.net N hbal ls _ _ (inv_init vn.net N) hb
  have ht := no_stuck vn.net N hbal hac hB s.base hI (vstuck_proj vn s hmax) v
  have hf := (hI.tm v ht).2
  refine ⟨ht, ?_⟩
  rw [c04_network_sent_is_prefix vn hac ls s hr v, hf]

/-- Kahn determinism: the result of a balanced workflow does not depend on the schedule -/
theorem c04_network_result_schedule_independent [Inhabited α] (vn : VNet n α) (N : Nat) (hbal : balanced vn.net N)
    (hac : acyclic vn.net) (hB : 1 ≤ vn.net.B) (ls1 ls2 : List (Lbl n)) (s1 s2 : VSt n α)
    (hr1 : vrun vn (vinit n α) ls1 = some s1) (hr2 : vrun vn (vinit n α) ls2 = some s2)
    (hm1 : vstuck vn s1) (hm2 : vstuck vn s2) (v : Fin n) : sent s1 v = sent s2 v := by
  rw [(c04_network_complete_result vn N hbal hac hB ls1 s1 hr1 hm1 v).2,
      (c04_network_complete_result vn N hbal hac hB ls2 s2 hr2 hm2 v).2]

/-- a reachable state with an unreturned process of a balanced network can always move (the progress
result of C05, carried over to the network with values) -/
theorem c04_network_values_progress (vn : VNet n α) (N : Nat) (hbal : balanced vn.net N) (hac : acyclic vn.net)
    (hB : 1 ≤ vn.net.B) (ls : List (Lbl n)) (s : VSt n α) (hr : vrun vn (vinit n α) ls = some s)
    (v : Fin n) (hv : s.base.term v = false) : ∃ l s', vstep vn s l = some s' := by
  have hb := vrun_proj vn ls _ _ hr
  have hI := run_inv vn.net N hbal ls _ _ (inv_init vn.net N) hb
  apply Classical.byContradiction
  intro hno
  have hst : vstuck vn s := by
    intro l
    cases h : vstep vn s l with
    | none => rfl
    | some s' => exact absurd ⟨l, s', h⟩ hno
  have := no_stuck vn.net N hbal hac hB s.base hI (vstuck_proj vn s hst) v
  simp [hv] at this

/-- a diamond: source 0 feeds 1 and 2, process 3 joins them; an item is the flattened record of its lineage -/
def diamond (N B : Nat) : VNet 4 (List Nat) :=
  { net := { ins := fun v => if v.val = 0 then [] else if v.val = 3 then [⟨1, by omega⟩, ⟨2, by omega⟩] else [⟨0, by omega⟩],
             src := fun _ => N, B := B },
    srcv := fun v k => [v.val, k], g := fun v as => (100 + v.val) :: as.flatten }

/-- non-vacuity: the diamond is acyclic and balanced, and a concrete interleaved schedule of it (the second
branch runs ahead of the first) creates the join's first task from the first items of both branches -/
example : acyclic (diamond 2 1).net ∧ balanced (diamond 2 1).net 2 := by
  refine ⟨?_, ?_⟩
  · unfold acyclic; decide
  · intro v _; rfl

example : (vrun (diamond 2 1) (vinit 4 (List Nat))
      [.create ⟨0, by omega⟩, .forward ⟨0, by omega⟩, .create ⟨2, by omega⟩, .create ⟨0, by omega⟩, .create ⟨1, by omega⟩,
       .forward ⟨0, by omega⟩, .forward ⟨2, by omega⟩, .create ⟨2, by omega⟩, .forward ⟨1, by omega⟩,
       .create ⟨3, by omega⟩]).map (fun s => s.tasks ⟨3, by omega⟩) =
    some [[103, 101, 0, 0, 102, 0, 0]] := by decide

example : den (diamond 2 1) 4 ⟨3, by omega⟩ 1 = [103, 101, 0, 1, 102, 0, 1] := by decide

end SciVerif.C04

#print axioms SciVerif.Chan.delivered_recv
#print axioms SciVerif.Chan.step_inv
#print axioms SciVerif.Chan.init_inv
#print axioms SciVerif.Chan.run_inv
#print axioms SciVerif.Chan.c04_no_loss_no_dup
#print axioms SciVerif.Chan.step_closedEmpty
#print axioms SciVerif.Chan.run_closedEmpty
#print axioms SciVerif.Chan.c04_finished_delivers_all
#print axioms SciVerif.Chan.c04_channel_progress
#print axioms SciVerif.Chan.createTasks_eq_zip_single
#print axioms SciVerif.Chan.createTasks_length
#print axioms SciVerif.Chan.c04_tasks_are_zipped_inputs
#print axioms SciVerif.C04.c04_network_tasks_follow_zip
#print axioms SciVerif.C04.c04_network_tasks_eq
#print axioms SciVerif.C04.c04_network_sent_is_prefix
#print axioms SciVerif.C04.c04_network_complete_result
#print axioms SciVerif.C04.c04_network_result_schedule_independent
#print axioms SciVerif.C04.c04_network_values_progress
