import SciVerif.Model.Audit
/-!
# C10 — every output carries a complete and faithful audit record

* `c10_record_fields`: the record attached to every output of an executed task names the process,
  the command, the parameters and the output paths of that task, and has one Upstream entry per
  input path holding the record that input carried at that moment.
* `c10_ancestors_contained`: sub-records nest: whatever was contained in an input's record is
  contained in the output's record — so by induction the full lineage back to the sources is there.
* `c10_tags_propagate`: every tag of every input is on the output's record (first value wins), and
  therefore (transitively) every tag attached upstream is on every downstream record.
-/
namespace SciVerif.Audit

theorem c10_record_fields (st : Store) (t : TaskX) (o : Nat) (ho : o ∈ t.outs) :
    ∃ r, exec st t o = some r ∧ r.data.proc = t.proc ∧ r.data.cmd = t.cmd ∧ r.data.params = t.params ∧
      r.data.outs = t.outs ∧ r.ups = t.ins.map fun p => (p, recOf st p) := by
  refine ⟨build t st, by simp [exec, ho], rfl, rfl, rfl, rfl, rfl⟩

theorem contains_trans {a b c : AI} (h1 : Contains a b) (h2 : Contains b c) : Contains a c := by
  induction h1 with
  | refl => exact h2
  | step hm _ ih => exact Contains.step hm (ih h2)

/-- the record of an output contains the record of each input, and everything that one contains -/
theorem c10_ancestors_contained (st : Store) (t : TaskX) (p : Nat) (hp : p ∈ t.ins) (anc : AI)
    (ha : Contains (recOf st p) anc) : Contains (build t st) anc := by
  unfold build
  exact Contains.step (List.mem_map.2 ⟨p, hp, rfl⟩) ha

theorem mem_foldl_merge (l : List (Nat × Nat)) (acc : List (Nat × Nat)) (k : Nat) :
    (∃ v, (k, v) ∈ acc) ∨ (∃ v, (k, v) ∈ l) →
    ∃ v, (k, v) ∈ l.foldl (fun acc kv => if acc.any (·.1 = kv.1) then acc else acc ++ [kv]) acc := by
  induction l generalizing acc with
  | nil => intro h; rcases h with h | ⟨v, hv⟩; exact h; simp at hv
  | cons x xs ih =>
    intro h
    simp only [List.foldl_cons]
    apply ih
    rcases h with ⟨v, hv⟩ | ⟨v, hv⟩
    · left
      split
      · exact ⟨v, hv⟩
      · exact ⟨v, List.mem_append_left _ hv⟩
    · rcases List.mem_cons.1 hv with rfl | hv
      · left
        split
        · rename_i hany
          simp only [List.any_eq_true, decide_eq_true_eq] at hany
          obtain ⟨y, hy, hk⟩ := hany
          exact ⟨y.2, by rw [← hk]; exact hy⟩
        · exact ⟨v, by simp⟩
      · right; exact ⟨v, hv⟩

/-- every tag key present on an input is present on the output's record -/
theorem c10_tags_propagate (st : Store) (t : TaskX) (p : Nat) (hp : p ∈ t.ins) (k v : Nat)
    (hk : (k, v) ∈ (recOf st p).data.tags) : ∃ v', (k, v') ∈ (build t st).data.tags := by
  simp only [build, AI.data, mergeTags]
  apply mem_foldl_merge
  right
  refine ⟨v, ?_⟩
  simp only [List.mem_flatten, List.mem_map]
  exact ⟨_, ⟨p, hp, rfl⟩, hk⟩

/-- non-vacuity: a two-step lineage — the record of the final file contains the source's record -/
example : Contains (build ⟨2, 20, [], [5], [6]⟩ (exec (fun _ => none) ⟨1, 10, [], [4], [5]⟩)) emptyRec := by
  refine Contains.step (p := 5) (u := build ⟨1, 10, [], [4], [5]⟩ fun _ => none) ?_ ?_
  · simp [build, exec, recOf]
  · exact Contains.step (p := 4) (u := emptyRec) (by simp [build, recOf]) (Contains.refl _)

end SciVerif.Audit

#print axioms SciVerif.Audit.c10_record_fields
#print axioms SciVerif.Audit.contains_trans
#print axioms SciVerif.Audit.c10_ancestors_contained
#print axioms SciVerif.Audit.mem_foldl_merge
#print axioms SciVerif.Audit.c10_tags_propagate
