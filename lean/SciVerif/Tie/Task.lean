import SciVerif.Tie.Atom
import SciVerif.Generated.Skel
import SciVerif.Generated.Consts
import SciVerif.Model.TaskFS
import SciVerif.Model.Slots
/-!
# Tie A for the task model: `Task.Execute`, `FinalizePaths`, `executeCommand`, `formatCommand`,
`IncConcurrentTasks` skeletons ↦ semantics records.

The interpretation is deliberately order-preserving and name-based: each call of a known method
becomes the op it stands for, calls known to be side-effect free are dropped, every other call
becomes `.unknown` (which no well-formedness predicate accepts).
-/
namespace SciVerif.Tie
open SciVerif.TaskFS SciVerif.Generated

/-- the skip block `if t.anyOutputsExist() { t.Done <- 1; return }` is part of `skipIfOutputs` -/
def stripSkipBlock : List Atom → Option (List Atom)
  | [] => some []
  | a :: as =>
    if a.kind == .ifB_ && a.name == "t.anyOutputsExist()" then
      match as with
      | s :: r :: e :: rest =>
        if s.isSend "Done" && r.kind == .ret_ && e.kind == .endB_ then some rest else none
      | _ => none
    else (stripSkipBlock as).map (a :: ·)

/-- the sanity block `if t.tempDirsExist() { t.Failf(..) }` is the op `checkTempDir` (fail when a temp dir
is left over); any other use of `tempDirsExist` (result stored, tested later, negated ..) is not -/
def isTempBlock (c : Atom) (tl : List Atom) : Bool :=
  match tl with
  | i :: f :: e :: _ =>
    c.isCall "tempDirsExist" && i.kind == .ifB_ && i.name == "t.tempDirsExist()" && f.isCall "Failf" && e.kind == .endB_
  | _ => false

/-- first argument: number of atoms still to skip (the rest of a folded block) -/
def foldTempBlock : Nat → List Atom → List Atom
  | _, [] => []
  | n + 1, _ :: tl => foldTempBlock n tl
  | 0, c :: tl =>
    if isTempBlock c tl then ⟨.call_, "checkTempDir#", "t", []⟩ :: foldTempBlock 3 tl else c :: foldTempBlock 0 tl

def harmlessCalls : List String :=
  ["Failf", "Fail", "Path", "TempDir", "TempPath", "FifoPath", "Name", "string", "IsNotExist", "Stat", "Dir",
   "close", "len", "append", "IsDir", "Join"]

def execOp (a : Atom) : Option TaskOp :=
  if a.kind == .call_ then
    if a.name == "checkTempDir#" then some .checkTempDir
    else if a.name == "tempDirsExist" then some .unknown
    else if a.name == "anyOutputsExist" then some .skipIfOutputs
    else if a.name == "IncConcurrentTasks" then some .acquire
    else if a.name == "createDirs" then some .mkdirs
    else if a.name == "CustomExecute" || a.name == "executeCommand" then some .run
    else if a.name == "writeAuditLogs" then some .writeAudit
    else if a.name == "ensureAllOutputsExist" then some .ensureOutputs
    else if a.name == "finalizePaths" then some .finalize
    else if a.name == "DecConcurrentTasks" then some .release
    else if harmlessCalls.contains a.name then none
    else some .unknown
  else if a.kind == .send_ then (if a.name == "Done" then some .signalDone else some .unknown)
  else if a.kind == .go_ || a.kind == .goB_ || a.kind == .other_ then some .unknown
  else none

def dedupRun : List TaskOp → List TaskOp
  | .run :: .run :: rest => dedupRun (.run :: rest)
  | a :: rest => a :: dedupRun rest
  | [] => []

def execOps : List TaskOp :=
  match stripSkipBlock Scipipe.Task_Execute with
  | none => [.unknown]
  | some l => dedupRun ((foldTempBlock 0 l).filterMap execOp)

def finOp (a : Atom) : Option FinOp :=
  if a.kind == .call_ then
    if a.name == "Rename" then some .renameDeclared
    else if a.name == "Walk" then some .moveExtras
    else if a.name == "RemoveAll" then some .removeTemp
    else if harmlessCalls.contains a.name then none
    else some .unknown
  else if a.kind == .go_ || a.kind == .goB_ || a.kind == .send_ || a.kind == .other_ then some .unknown
  else none

def finOps : List FinOp := (dropFuncBodies Scipipe.FinalizePaths 0).filterMap finOp

/-- `executeCommand`: `if err != nil { t.Failf(..) }` follows the bash invocation -/
def cmdFailFatal : Bool :=
  let l := Scipipe.Task_executeCommand
  before l (·.isCall "CombinedOutput") (fun a => a.kind == .ifB_ && a.name == "err != nil") &&
  before l (fun a => a.kind == .ifB_ && a.name == "err != nil") (·.isCall "Failf") &&
  count (fun a => a.kind == .elseB_ || a.kind == .ret_) l == 0

/-- atoms of `case "<c>"` inside the `switch portInfo.portType` of `formatCommand` -/
def caseBody (c : String) : List Atom → List Atom
  | [] => []
  | a :: as =>
    if a.kind == .caseB_ && a.name == "\"" ++ c ++ "\"" then takeCase as 0 else caseBody c as
where
  takeCase : List Atom → Nat → List Atom
    | [], _ => []
    | a :: as, d =>
      if a.kind == .endB_ && a.name == "case" && d == 0 then []
      else if a.kind == .caseB_ then a :: takeCase as (d + 1)
      else if a.kind == .endB_ && a.name == "case" then a :: takeCase as (d - 1)
      else a :: takeCase as d

/-- the "o" case builds the replacement from `TempPath()` and never from `Path()`/`FifoPath()` -/
def oPlace : PathKind :=
  let body := caseBody "o" Scipipe.Task_formatCommand
  if count (·.isCall "TempPath") body == 1 && count (·.isCall "Path") body == 0
      && count (·.isCall "FifoPath") body == 0
      && before body (·.isCall "TempPath") (·.isCall "replaceParentDirsWithPlaceholder") then .temp
  else if count (·.isCall "Path") body ≥ 1 && count (·.isCall "TempPath") body == 0 then .final
  else .other

/-- `FinalizePaths`: the declared rename is `os.Rename(tempExecDir + "/" + oip.TempPath(), oip.Path())`,
guarded by `!oip.doStream`, and `finalizePaths` passes `t.TempDir()` -/
def renameSrcTemp : Bool :=
  let l := dropFuncBodies Scipipe.FinalizePaths 0
  l.any (fun a => a.kind == .assign_ && a.name == "tempPath" && a.args == ["tempExecDir + \"/\" + oip.TempPath()"]) &&
  l.any (fun a => a.kind == .assign_ && a.name == "finPath" && a.args == ["oip.Path()"]) &&
  l.any (fun a => a.isCall "Rename" && a.recv == "os" && a.args == ["tempPath", "finPath"]) &&
  Scipipe.Task_finalizePaths.any (fun a => a.isCall "FinalizePaths" && a.args.head? == some "t.TempDir()")

def streamsExempt : Bool :=
  before (dropFuncBodies Scipipe.FinalizePaths 0) (fun a => a.kind == .ifB_ && a.name == "!oip.doStream") (·.isCall "Rename") &&
  before Scipipe.Task_anyOutputsExist (fun a => a.kind == .ifB_ && a.name == "!oip.doStream") (·.isCall "Stat")

/-- the semantics record of the current source -/
def taskSem : Sem :=
  { ops := execOps, fin := finOps, cmdFailFatal := cmdFailFatal, oPlace := oPlace,
    renameSrcTemp := renameSrcTemp, streamsExempt := streamsExempt }

/-- every statement of `Execute` and `FinalizePaths` was understood: it is one of the modelled ops or a
call known to have no effect on the footprint (`harmlessCalls`); anything else (a new call, a goroutine,
a send on another channel) makes the models of C01–C03, C09 and C17 inapplicable -/
def taskSemKnown : Bool :=
  taskSem.ops.all (· != .unknown) && taskSem.fin.all (· != .unknown)

/-! ### slots -/

/-- `IncConcurrentTasks`: Lock … for i < slots { concurrentTasks <- … } … Unlock, nothing else -/
def slotSem : Slots.SlotSem :=
  let l := Scipipe.Workflow_IncConcurrentTasks
  { locked :=
      before l (fun a => a.isCall "Lock" && a.recv == "wf.concurrentTasksMx") (·.isSend "concurrentTasks") &&
      before l (·.isSend "concurrentTasks") (fun a => a.isCall "Unlock" && a.recv == "wf.concurrentTasksMx") &&
      count (·.isCall "Unlock") l == 1 && count (·.isCall "Lock") l == 1 &&
      count (fun a => a.kind == .ret_ || a.kind == .go_ || a.kind == .goB_) l == 0 &&
      -- taken unconditionally: no branching at all, the deposit loop is the only block
      count (fun a => a.kind == .ifB_ || a.kind == .elseB_ || a.kind == .switchB_ || a.kind == .selectB_ ||
        a.kind == .caseB_ || a.kind == .rangeB_ || a.kind == .break_ || a.kind == .goto_ || a.kind == .deferB_ || a.kind == .funcB_) l == 0 &&
      count (fun a => a.kind == .forB_) l == 1 }

/-- deposits exactly `slots` tokens, takes exactly `slots` tokens; `Execute` passes `t.cores` to both;
the channel is created with capacity `maxConcurrentTasks` -/
def slotCounts : Bool :=
  let inc := Scipipe.Workflow_IncConcurrentTasks
  let dec := Scipipe.Workflow_DecConcurrentTasks
  inc.any (fun a => a.kind == .forB_ && a.name == "i < slots") &&
  count (·.isSend "concurrentTasks") inc == 1 && count (fun a => a.kind == .recv_) inc == 0 &&
  dec.any (fun a => a.kind == .forB_ && a.name == "i < slots") &&
  count (·.isRecv "concurrentTasks") dec == 1 && count (fun a => a.kind == .send_) dec == 0 &&
  Scipipe.Task_Execute.any (fun a => a.isCall "IncConcurrentTasks" && a.args == ["t.cores"]) &&
  Scipipe.Task_Execute.any (fun a => a.isCall "DecConcurrentTasks" && a.args == ["t.cores"]) &&
  Scipipe.newWorkflowWithoutLogging.any (fun a => a.isCall "make" && a.args == ["chan struct{}", "maxConcurrentTasks"])

/-- `Process.Run` rejects `CoresPerTask > cap(concurrentTasks)` before creating any task -/
def coresCheckFirst : Bool :=
  let l := Scipipe.Process_Run
  before l (fun a => a.kind == .ifB_ && a.name == "p.CoresPerTask > cap(p.workflow.concurrentTasks)") (·.isCall "createTasks") &&
  before l (fun a => a.kind == .ifB_ && a.name == "p.CoresPerTask > cap(p.workflow.concurrentTasks)") (·.isCall "Failf")

/-- order facts of `Execute` the slot model relies on: acquire < run < release, once each -/
def slotOrder (ops : List TaskOp) : Bool :=
  match ops.idxOf? .acquire, ops.idxOf? .run, ops.idxOf? .release with
  | some a, some r, some d => a < r && r < d && ops.count .acquire == 1 && ops.count .release == 1 && ops.count .run == 1
  | _, _, _ => false

end SciVerif.Tie
