import SciVerif.Tie.Atom
import SciVerif.Generated.Skel
import SciVerif.Generated.Consts
import SciVerif.Model.Fmt
/-!
# Tie A: constants and regex literals

The hand-written matchers in `Model/Str.lean` / `Model/Fmt.lean` implement exactly these literals;
a changed literal in the Go source breaks `decide` here before any differential test runs.
-/
namespace SciVerif.Tie
open SciVerif.Generated

def expectedPlaceholderRegex : String := "{(o|os|i|is|p|t):([^{}]+)}"
def expectedModifierRegexes : List String := ["s\\/([^\\/]+)\\/([^\\/]*)\\/", "%(.*)", ".*\\/", "\\/[^\\/]*$"]
def expectedPathValidRegex : String := "^[0-9A-Za-z\\/\\.\\-_]+$"
def expectedSanitizeRegex : String := "[^a-z0-9_\\-\\.]+"

def constsMatch : Bool :=
  Consts.Scipipe.tempDirPrefix == "_scipipe_tmp" &&
  Consts.Scipipe.parentDirPlaceHolder == "__parent__" &&
  Consts.Scipipe.FSRootPlaceHolder == "__fsroot__" &&
  String.ofList Fmt.tempDirPrefix == Consts.Scipipe.tempDirPrefix &&
  String.ofList Str.parentPH == Consts.Scipipe.parentDirPlaceHolder &&
  String.ofList Str.fsrootPH == Consts.Scipipe.FSRootPlaceHolder &&
  Scipipe.getShellCommandPlaceHolderRegex_lits.head? == some expectedPlaceholderRegex &&
  Scipipe.applyPathModifiers_lits.take 4 == expectedModifierRegexes &&
  Scipipe.pathIsValid_lits.head? == some expectedPathValidRegex &&
  Scipipe.sanitizePathFragment_lits == [expectedSanitizeRegex, "_"]

/-- `replaceParentDirsWithPlaceholder` / inverse are `strings.ReplaceAll` with "../" and the placeholder -/
def encodeDecodeShape : Bool :=
  Scipipe.replaceParentDirsWithPlaceholder.any (fun a => a.isCall "ReplaceAll" && a.args == ["pathSegment", "\"../\"", "parentDirPlaceHolder"]) &&
  Scipipe.replacePlaceholdersWithParentDirs.any (fun a => a.isCall "ReplaceAll" && a.args == ["pathSegment", "parentDirPlaceHolder", "\"../\""])

end SciVerif.Tie
