import SciVerif.Tie.Atom
import SciVerif.Generated.Skel
import SciVerif.Model.Report
/-! Tie A for C20 (definitions): which ordering algorithm `sortAuditInfosByStartTime` uses. -/
namespace SciVerif.Tie
open SciVerif.Generated SciVerif.Report

def isInfixOf (needle : List Char) : List Char → Bool
  | [] => needle.isEmpty
  | c :: cs => needle.isPrefixOf (c :: cs) || isInfixOf needle cs

def strHas (hay needle : String) : Bool := isInfixOf needle.toList hay.toList

def sortSem : SortSem :=
  let l0 := Cmd.sortAuditInfosByStartTime
  let l := dropFuncBodies l0 0
  if l0.any (fun a => a.kind == .assign_ && a.args.any (strHas · "map[time.Time]")) then .timeMap
  else
    match l.find? (fun a => a.kind == .ret_) with
    | some r =>
      match r.args with
      | [x] =>
        if l.any (fun a => (a.isCall "SliceStable" || a.isCall "Slice") && a.recv == "sort" && a.args.head? == some x &&
                            a.args.any (strHas · ("func(i, j int) bool { return " ++ x ++ "[i].StartTime.Before(" ++ x ++ "[j].StartTime) }"))) &&
           l.any (fun a => a.kind == .rangeB_ && a.name == "auditInfosByID" && a.args == ["_", "ai"]) &&
           l.any (fun a => a.isCall "append" && a.args == [x, "ai"]) &&
           count (fun a => a.kind == .ret_) (l.filter (fun a => a.kind == .ret_ && a.args == [x])) == 1
        then .sliceSort else .other
      | _ => .other
    | none => .other

end SciVerif.Tie
