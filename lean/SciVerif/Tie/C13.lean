import SciVerif.Tie.Consts
import SciVerif.Tie.Task
import SciVerif.Props.C13
import SciVerif.Tie.Pins
/-! Tie A obligations for C13 on the current source: the exact shape of the small path functions
the Lean model transcribes, and the order of the decoding steps in `FinalizePaths`. -/
namespace SciVerif.Tie
-- functions the model relies on without an obligation of its own naming them (pinned by bin/mkpins):
-- PIN-ALSO: Scipipe.createDirs Scipipe.FileIP_createDirs Scipipe.FileIP_Path Scipipe.FileIP_FinalizePath Scipipe.FileIP_OpenTemp Scipipe.FileIP_Open Scipipe.FileIP_Write Scipipe.FileIP_Read
open SciVerif.Generated

theorem generated_consts_c13 : constsMatch = true := by decide
theorem generated_encode_decode_shape : encodeDecodeShape = true := by decide

theorem generated_temp_path_shape :
    (Scipipe.FileIP_TempPath ==
      [⟨.call_, "replaceParentDirsWithPlaceholder", "", ["ip.path"]⟩,
       ⟨.assign_, "path", ":=", ["replaceParentDirsWithPlaceholder(ip.path)"]⟩,
       ⟨.ifB_, "path[0] == '/'", "", []⟩,
       ⟨.ret_, "", "", ["FSRootPlaceHolder + path"]⟩,
       ⟨.endB_, "if", "", []⟩,
       ⟨.ret_, "", "", ["path"]⟩] &&
     Scipipe.prependParentDirPath ==
      [⟨.ifB_, "path[0] == '/'", "", []⟩, ⟨.ret_, "", "", ["path"]⟩, ⟨.endB_, "if", "", []⟩,
       ⟨.ret_, "", "", ["\"../\" + path"]⟩]) = true := by decide

/-- extras: strip `<tmp>/` once, turn the first `__fsroot__/` into `/`, decode all parent-dir
placeholders, create the destination directory, rename -/
def extrasBody : List Atom := (Scipipe.FinalizePaths.dropWhile (·.kind != .funcB_)).takeWhile (fun a => !(a.kind == .endB_ && a.name == "func"))

theorem generated_extras_decode_order :
    (let l := extrasBody
     before l (fun a => a.isCall "Replace" && a.args == ["tempPath", "tempExecDir + \"/\"", "\"\"", "1"])
              (fun a => a.isCall "Replace" && a.args == ["finPath", "FSRootPlaceHolder + \"/\"", "\"/\"", "1"]) &&
     before l (fun a => a.isCall "Replace" && a.args == ["finPath", "FSRootPlaceHolder + \"/\"", "\"/\"", "1"])
              (fun a => a.isCall "replacePlaceholdersWithParentDirs" && a.args == ["finPath"]) &&
     before l (·.isCall "replacePlaceholdersWithParentDirs") (·.isCall "MkdirAll") &&
     before l (·.isCall "MkdirAll") (fun a => a.isCall "Rename" && a.args == ["tempPath", "finPath"])) = true := by decide

/-- `createDirs` makes `<tmp>/<dir of TempPath>` for every non-streaming output, and the command
runs with the temp dir as working directory -/
theorem generated_createdirs_and_cwd :
    (Scipipe.Task_createDirs.any (fun a => a.kind == .assign_ && a.name == "oipDir" && a.args == ["t.TempDir() + \"/\" + oipDir"]) &&
     Scipipe.Task_createDirs.any (fun a => a.isCall "TempDir" && a.recv == "oip") &&
     Scipipe.FileIP_TempDir.any (fun a => a.isCall "Dir" && a.args == ["ip.TempPath()"]) &&
     Scipipe.Task_executeCommand.any (fun a => a.isCall "Command" && a.args == ["\"bash\"", "\"-c\"", "\"cd \" + t.TempDir() + \" && \" + cmd + \" && cd ..\""])) = true := by decide

theorem generated_o_case_for_c13 : oPlace = .temp ∧ renameSrcTemp = true := by decide




















-- BEGIN PINS (written by bin/mkpins; do not edit by hand)
/-- the Go functions this property's model and obligations were written against have exactly the
pinned skeletons (SHA-256 prefix of the atom list) -/
theorem pinned_skeletons_c13 :
    pinsOk
    [("Scipipe.#decls", "08e57e98702ecd70"),
     ("Scipipe.FileIP_FinalizePath", "cf8179072e56c7ba"),
     ("Scipipe.FileIP_Open", "48d6413ed8457c06"),
     ("Scipipe.FileIP_OpenTemp", "673ff13758b5aa90"),
     ("Scipipe.FileIP_Path", "c6a514b4100d9a7c"),
     ("Scipipe.FileIP_Read", "0ea4c94276382a8a"),
     ("Scipipe.FileIP_TempDir", "36eed961c5125267"),
     ("Scipipe.FileIP_TempPath", "7eba22a35232a5cb"),
     ("Scipipe.FileIP_Write", "8a03377cb8fd8d9d"),
     ("Scipipe.FileIP_createDirs", "04008d08d8a14234"),
     ("Scipipe.FinalizePaths", "291fc0cefa37cea9"),
     ("Scipipe.Task_createDirs", "bac0633be6d72f5b"),
     ("Scipipe.Task_executeCommand", "98e77d849c0638cb"),
     ("Scipipe.Task_finalizePaths", "9cd0530d4e86fa92"),
     ("Scipipe.Task_formatCommand", "ccbe98735ce5c7d6"),
     ("Scipipe.applyPathModifiers", "8f319e3baa487b4a"),
     ("Scipipe.createDirs", "1c2f8f3ce1c57500"),
     ("Scipipe.getShellCommandPlaceHolderRegex", "2974b35d7f6e39cc"),
     ("Scipipe.pathIsValid", "769a2bbc57bb6972"),
     ("Scipipe.prependParentDirPath", "2df0014600c27296"),
     ("Scipipe.replaceParentDirsWithPlaceholder", "ff862e8e07d24e97"),
     ("Scipipe.replacePlaceholdersWithParentDirs", "0962f69b2bd711f9"),
     ("Scipipe.sanitizePathFragment", "eb309140aa9dd69d")] = true := by decide
-- END PINS

end SciVerif.Tie
#print axioms SciVerif.Tie.pinned_skeletons_c13
#print axioms SciVerif.Tie.generated_consts_c13
#print axioms SciVerif.Tie.generated_encode_decode_shape
#print axioms SciVerif.Tie.generated_temp_path_shape
#print axioms SciVerif.Tie.generated_extras_decode_order
#print axioms SciVerif.Tie.generated_createdirs_and_cwd
#print axioms SciVerif.Tie.generated_o_case_for_c13
