import SciVerif.Tie.Atom
import SciVerif.Generated.Skel
import SciVerif.Generated.Consts
import SciVerif.Tie.Task
import SciVerif.Props.C10
import SciVerif.Tie.Pins
/-! Tie A obligations for C10 on the current source. -/
namespace SciVerif.Tie
-- functions the model relies on without an obligation of its own naming them (pinned by bin/mkpins):
-- PIN-ALSO: Scipipe.FileIP_AuditInfo Scipipe.FileIP_SetAuditInfo Scipipe.UnmarshalAuditInfoJSONFile Scipipe.NewAuditInfo Scipipe.FileIP_Tags Scipipe.FileIP_Tag Scipipe.FileIP_Param Scipipe.NewBaseIP Scipipe.randSeqLC Scipipe.FileIP_AddTag Scipipe.Task_Audit Scipipe.Task_Auditf Scipipe.BaseIP_ID
open SciVerif.Generated

/-- `writeAuditLogs` fills every field of the record, keys Upstream by input path (sub-stream
members for joined ports), lists every output, and attaches + writes the record for every out-IP,
adding the tags of every in-IP -/
theorem generated_audit_record_shape :
    (let l := Scipipe.Task_writeAuditLogs
     l.any (fun a => a.kind == .assign_ && a.name == "auditInfo.Command" && a.args == ["t.Command"]) &&
     l.any (fun a => a.kind == .assign_ && a.name == "auditInfo.ProcessName" && a.args == ["t.Process.Name()"]) &&
     l.any (fun a => a.kind == .assign_ && a.name == "auditInfo.Params" && a.args == ["t.Params"]) &&
     l.any (fun a => a.kind == .assign_ && a.name == "auditInfo.StartTime" && a.args == ["startTime"]) &&
     l.any (fun a => a.kind == .assign_ && a.name == "auditInfo.FinishTime" && a.args == ["finishTime"]) &&
     l.any (fun a => a.kind == .assign_ && a.name == "auditInfo.ExecTimeNS" && a.args == ["finishTime.Sub(startTime)"]) &&
     l.any (fun a => a.kind == .assign_ && a.name == "auditInfo.Upstream[iip.Path()]" && a.args == ["iip.AuditInfo()"]) &&
     l.any (fun a => a.kind == .assign_ && a.name == "auditInfo.Upstream[subIP.Path()]" && a.args == ["subIP.AuditInfo()"]) &&
     l.any (fun a => a.kind == .assign_ && a.name == "auditInfo.OutFiles[oipName]" && a.args == ["oip.Path()"]) &&
     before l (fun a => a.isCall "SetAuditInfo" && a.args == ["auditInfo"]) (fun a => a.isCall "AddTags" && a.args == ["iip.Tags()"]) &&
     before l (fun a => a.isCall "AddTags") (·.isCall "WriteAuditLogToFile") &&
     count (·.kind == .break_) l == 0 && count (·.kind == .ret_) l == 0) = true := by decide

/-- the times bracket the command: start is taken before, finish after it, and the record is
written before outputs are finalized -/
theorem generated_times_bracket_command :
    (let l := Scipipe.Task_Execute
     before l (fun a => a.kind == .assign_ && a.name == "startTime" && a.args == ["time.Now()"]) (·.isCall "executeCommand") &&
     before l (·.isCall "executeCommand") (fun a => a.kind == .assign_ && a.name == "finishTime" && a.args == ["time.Now()"]) &&
     before l (fun a => a.kind == .assign_ && a.name == "finishTime") (fun a => a.isCall "writeAuditLogs" && a.args == ["startTime", "finishTime"]) &&
     before l (·.isCall "writeAuditLogs") (·.isCall "finalizePaths")) = true := by decide

/-- all fields of `AuditInfo` are exported (so `encoding/json` writes and reads every one of them),
and the audit file is the indented JSON of the IP's record at `<path>.audit.json` -/
theorem generated_auditinfo_fields :
    (Consts.Scipipe.AuditInfo_fields == ["ID string", "ProcessName string", "Command string", "Params map[string]string",
        "Tags map[string]string", "StartTime time.Time", "FinishTime time.Time", "ExecTimeNS time.Duration",
        "OutFiles map[string]string", "Upstream map[string]*AuditInfo"] &&
     Scipipe.FileIP_WriteAuditLogToFile.any (fun a => a.isCall "MarshalIndent" && a.recv == "json") &&
     Scipipe.FileIP_WriteAuditLogToFile.any (fun a => a.isCall "WriteFile" && a.args.head? == some "ip.AuditFilePath()") &&
     Scipipe.FileIP_AuditFilePath.any (fun a => a.kind == .ret_ && a.args == ["ip.Path() + \".audit.json\""])) = true := by decide

/-- `MapToTags` adds the tags to the record of the IP it passes on and rewrites its audit file -/
theorem generated_maptotags_shape :
    (let l := Components.MapToTags_Run
     before l (·.isCall "mapFunc") (fun a => a.isCall "AddTags" && a.args == ["newTags"]) &&
     before l (·.isCall "AddTags") (·.isCall "WriteAuditLogToFile") &&
     before l (·.isCall "WriteAuditLogToFile") (fun a => a.isCall "Send" && a.args == ["ip"])) = true := by decide

/-- the record is complete before any copy of it is written: the loop that fills `OutFiles` is closed
before the loop that attaches and writes the record starts; and the command that is executed is
exactly the recorded `t.Command` (wrapped in `cd <tmp> && … && cd ..`) -/
theorem generated_record_complete_before_written :
    (let l := Scipipe.Task_writeAuditLogs
     let rem := (l.dropWhile (fun a => !(a.kind == .assign_ && a.name == "auditInfo.OutFiles[oipName]"))).drop 1
     (rem.head?.map fun a => a.kind == .endB_ && a.name == "range") == some true &&
     before rem (fun a => a.kind == .rangeB_ && a.name == "OutIPs") (·.isCall "SetAuditInfo") &&
     count (fun a => a.kind == .rangeB_ && a.name == "OutIPs") l == 2 &&
     count (·.isCall "WriteAuditLogToFile") l == 1 &&
     Scipipe.Task_Execute.any (fun a => a.isCall "executeCommand" && a.args == ["t.Command"]) &&
     Scipipe.Task_executeCommand.any (fun a => a.isCall "Command" && a.recv == "exec" &&
       a.args == ["\"bash\"", "\"-c\"", "\"cd \" + t.TempDir() + \" && \" + cmd + \" && cd ..\""]) &&
     count (fun a => a.kind == .assign_ && a.name == "cmd") Scipipe.Task_executeCommand == 0 &&
     Scipipe.NewTask.any (fun a => a.kind == .assign_ && a.name == "t.Command" &&
       a.args == ["t.formatCommand(cmdPat, portInfos, inIPs, t.subStreamIPs, t.OutIPs, params, tags, prepend)"])) = true := by decide

/-- tags are copied entry by entry into the record's own map: `AddTags` is exactly a loop of `AddTag`,
and `AddTag` only writes `ai.Tags[k]` (no map is ever adopted by reference, so two records never share
a tag map) -/
theorem generated_tags_copied :
    (Scipipe.FileIP_AddTags == [⟨.rangeB_, "tags", "", ["k", "v"]⟩, ⟨.call_, "AddTag", "ip", ["k", "v"]⟩, ⟨.endB_, "range", "", []⟩] &&
     count (fun a => a.kind == .assign_) Scipipe.FileIP_AddTag == 2 &&
     Scipipe.FileIP_AddTag.any (fun a => a.kind == .assign_ && a.name == "ai.Tags[k]" && a.args == ["v"]) &&
     Scipipe.FileIP_AddTag.any (fun a => a.kind == .assign_ && a.name == "ai" && a.args == ["ip.AuditInfo()"])) = true := by decide




















-- BEGIN PINS (written by bin/mkpins; do not edit by hand)
/-- the Go functions this property's model and obligations were written against have exactly the
pinned skeletons (SHA-256 prefix of the atom list) -/
theorem pinned_skeletons_c10 :
    pinsOk
    [("Components.#decls", "84eddb1c2309452c"),
     ("Components.MapToTags_Run", "639dd3a11150ec10"),
     ("Scipipe.#decls", "08e57e98702ecd70"),
     ("Scipipe.BaseIP_ID", "91629a632bc54fec"),
     ("Scipipe.FileIP_AddTag", "f8c4aaf3b95c7e7d"),
     ("Scipipe.FileIP_AddTags", "7f98650d842d4c76"),
     ("Scipipe.FileIP_AuditFilePath", "23da9f52635ce6f9"),
     ("Scipipe.FileIP_AuditInfo", "5adb309a1fd92bb2"),
     ("Scipipe.FileIP_Param", "e7d07bd717bdbe5b"),
     ("Scipipe.FileIP_SetAuditInfo", "9888139e5f6ebe46"),
     ("Scipipe.FileIP_Tag", "726fd1d65b837092"),
     ("Scipipe.FileIP_Tags", "058631429d637201"),
     ("Scipipe.FileIP_WriteAuditLogToFile", "4600f6f7f2efa41b"),
     ("Scipipe.NewAuditInfo", "e3a18a6fa50d658d"),
     ("Scipipe.NewBaseIP", "df4327cd0ddbcbbb"),
     ("Scipipe.NewTask", "95298f03c320cb96"),
     ("Scipipe.Task_Audit", "394f07db7cf58ac1"),
     ("Scipipe.Task_Auditf", "e3b0c44298fc1c14"),
     ("Scipipe.Task_Execute", "40fd1fec0c69deb2"),
     ("Scipipe.Task_executeCommand", "98e77d849c0638cb"),
     ("Scipipe.Task_writeAuditLogs", "5ee6e36ed2566be6"),
     ("Scipipe.UnmarshalAuditInfoJSONFile", "d5d56678b2f7b950"),
     ("Scipipe.randSeqLC", "bad63c98d4ac4014")] = true := by decide
-- END PINS

end SciVerif.Tie
#print axioms SciVerif.Tie.pinned_skeletons_c10
#print axioms SciVerif.Tie.generated_tags_copied
#print axioms SciVerif.Tie.generated_record_complete_before_written
#print axioms SciVerif.Tie.generated_audit_record_shape
#print axioms SciVerif.Tie.generated_times_bracket_command
#print axioms SciVerif.Tie.generated_auditinfo_fields
#print axioms SciVerif.Tie.generated_maptotags_shape
