import SciVerif.Tie.Consts
import SciVerif.Tie.Task
import SciVerif.Props.C15
import SciVerif.Tie.Pins
/-! Tie A obligations for C15 on the current source: regex literals, and the call sequence of each
`case` of `formatCommand` / `SetOut` that the Lean model mirrors. -/
namespace SciVerif.Tie
-- functions the model relies on without an obligation of its own naming them (pinned by bin/mkpins):
-- PIN-ALSO: Scipipe.Process_initPortsFromCmdPattern Scipipe.NewTask Scipipe.strInSlice Scipipe.Task_Param Scipipe.Task_Tag Scipipe.FileIP_Path Scipipe.Task_InPath Scipipe.Task_OutPath Scipipe.Task_InIP Scipipe.Task_OutIP Scipipe.Process_SetOutFunc
open SciVerif.Generated

theorem generated_consts_c15 : constsMatch = true := by decide

def callNames (l : List Atom) : List String := (l.filter (·.kind == .call_)).map (·.name)

/-- the sequence of (non-logging) calls in each case of `formatCommand` -/
theorem generated_format_cases :
    (callNames (caseBody "o" Scipipe.Task_formatCommand) == ["Failf", "TempPath", "applyPathModifiers", "replaceParentDirsWithPlaceholder"] &&
     callNames (caseBody "os" Scipipe.Task_formatCommand) == ["Failf", "FifoPath", "applyPathModifiers", "strInSlice", "prependParentDirPath"] &&
     callNames (caseBody "i" Scipipe.Task_formatCommand) ==
       ["Failf", "Path", "applyPathModifiers", "prependParentDirPath", "append", "Join", "Path", "Failf", "FifoPath", "Path", "applyPathModifiers", "strInSlice", "prependParentDirPath"] &&
     callNames (caseBody "p" Scipipe.Task_formatCommand) == ["Failf", "applyPathModifiers"] &&
     callNames (caseBody "t" Scipipe.Task_formatCommand) == ["Failf", "applyPathModifiers"]) = true := by decide

/-- matches come from `FindAllStringSubmatch(cmd, -1)`, names and modifiers from `Split(.., "|")`,
the port type from `portInfos[portName]`, and every placeholder is replaced globally (`-1`) -/
theorem generated_format_loop :
    (let l := Scipipe.Task_formatCommand
     l.any (fun a => a.isCall "FindAllStringSubmatch" && a.args == ["cmd", "-1"]) &&
     l.any (fun a => a.isCall "Split" && a.args == ["restMatch", "\"|\""]) &&
     l.any (fun a => a.kind == .switchB_ && a.name == "portInfo.portType") &&
     l.any (fun a => a.kind == .assign_ && a.name == "portInfo" && a.args == ["portInfos[portName]"]) &&
     l.any (fun a => a.isCall "Replace" && a.args == ["cmd", "placeHolder.match", "replacement", "-1"]) &&
     count (·.isCall "Replace") l == 1) = true := by decide

/-- the `SetOut` path function: own placeholder type, modifiers only when present, global replace -/
theorem generated_setout_shape :
    (let l := Scipipe.Process_SetOut
     l.any (fun a => a.isCall "FindAllStringSubmatch" && a.args == ["path", "-1"]) &&
     l.any (fun a => a.kind == .switchB_ && a.name == "phType") &&
     l.any (fun a => a.isCall "InPath" && a.args == ["portName"]) &&
     l.any (fun a => a.isCall "Param" && a.args == ["portName"]) &&
     l.any (fun a => a.isCall "Tag" && a.args == ["portName"]) &&
     l.any (fun a => a.kind == .ifB_ && a.name == "len(restParts) > 0") &&
     l.any (fun a => a.isCall "Replace" && a.args == ["path", "placeHolder", "replacement", "-1"])) = true := by decide

/-- `applyPathModifiers`: substitution replaces once, the suffix trim needs a strictly longer
path, and the keyword switch knows exactly basename and dirname -/
theorem generated_modifiers_shape :
    (let l := Scipipe.applyPathModifiers
     l.any (fun a => a.isCall "Replace" && a.args == ["replacement", "search", "replace", "1"]) &&
     l.any (fun a => a.kind == .ifB_ && a.name == "startPos > 0") &&
     l.any (fun a => a.kind == .assign_ && a.name == "startPos" && a.args == ["len(replacement) - len(end)"]) &&
     -- the suffix is compared with and cut off as a slice of exactly len(end) bytes
     l.any (fun a => a.kind == .ifB_ && a.name == "end == replacement[len(replacement)-len(end):]") &&
     l.any (fun a => a.kind == .assign_ && a.name == "replacement" && a.args == ["replacement[:len(replacement)-len(end)]"]) &&
     before l (fun a => a.kind == .ifB_ && a.name == "startPos > 0") (fun a => a.kind == .ifB_ && a.name == "end == replacement[len(replacement)-len(end):]") &&
     count (fun a => a.isCall "TrimRight" || a.isCall "TrimSuffix" || a.isCall "Trim" || a.isCall "TrimLeft" || a.isCall "ReplaceAll") l == 0 &&
     count (fun a => a.kind == .assign_ && a.name == "replacement") l == 5 &&
     l.any (fun a => a.kind == .caseB_ && a.name == "\"basename\"") &&
     l.any (fun a => a.kind == .caseB_ && a.name == "\"dirname\"") &&
     count (fun a => a.kind == .caseB_) l == 2 &&
     before l (·.isCall "FindStringSubmatch") (fun a => a.kind == .switchB_)) = true := by decide

/-- the default path function: basenames of inputs (sorted ports), sanitized process name, sorted
params, sorted tags, port name, extension, joined by "." -/
theorem generated_default_path_shape :
    (let l := Scipipe.Process_initDefaultPathFuncs
     l.any (fun a => a.isCall "sortedFileIPMapKeys" && a.args == ["t.InIPs"]) &&
     l.any (fun a => a.isCall "Base" && a.recv == "filepath") &&
     l.any (fun a => a.isCall "sanitizePathFragment") &&
     count (·.isCall "sortedStringMapKeys") l == 2 &&
     l.any (fun a => a.isCall "Join" && a.args == ["pathPcs", "\".\""])) = true := by decide




















-- BEGIN PINS (written by bin/mkpins; do not edit by hand)
/-- the Go functions this property's model and obligations were written against have exactly the
pinned skeletons (SHA-256 prefix of the atom list) -/
theorem pinned_skeletons_c15 :
    pinsOk
    [("Scipipe.#decls", "08e57e98702ecd70"),
     ("Scipipe.FileIP_Path", "c6a514b4100d9a7c"),
     ("Scipipe.NewTask", "95298f03c320cb96"),
     ("Scipipe.Process_SetOut", "a1605d3714f8fc2a"),
     ("Scipipe.Process_SetOutFunc", "b6f15ffb47edbc31"),
     ("Scipipe.Process_initDefaultPathFuncs", "012072977ffdc36d"),
     ("Scipipe.Process_initPortsFromCmdPattern", "4f7c6ade86c29af6"),
     ("Scipipe.Task_InIP", "a94b869f8d5b10ae"),
     ("Scipipe.Task_InPath", "6adc85e09a57f591"),
     ("Scipipe.Task_OutIP", "98399cf1e18a83b3"),
     ("Scipipe.Task_OutPath", "ef3f5a7b76578e05"),
     ("Scipipe.Task_Param", "f6b2d87a93ffc9ba"),
     ("Scipipe.Task_Tag", "c339c17bc1c1a114"),
     ("Scipipe.Task_formatCommand", "ccbe98735ce5c7d6"),
     ("Scipipe.applyPathModifiers", "8f319e3baa487b4a"),
     ("Scipipe.getShellCommandPlaceHolderRegex", "2974b35d7f6e39cc"),
     ("Scipipe.pathIsValid", "769a2bbc57bb6972"),
     ("Scipipe.sanitizePathFragment", "eb309140aa9dd69d"),
     ("Scipipe.strInSlice", "a899dfa0324d572f")] = true := by decide
-- END PINS

end SciVerif.Tie
#print axioms SciVerif.Tie.pinned_skeletons_c15
#print axioms SciVerif.Tie.generated_consts_c15
#print axioms SciVerif.Tie.generated_format_cases
#print axioms SciVerif.Tie.generated_format_loop
#print axioms SciVerif.Tie.generated_setout_shape
#print axioms SciVerif.Tie.generated_modifiers_shape
#print axioms SciVerif.Tie.generated_default_path_shape
