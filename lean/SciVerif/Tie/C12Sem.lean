import SciVerif.Tie.Atom
import SciVerif.Generated.Skel
import SciVerif.Generated.Access
/-! Tie A for C12 (definitions): the lock / ownership / phase discipline evaluated on the access
table and skeletons that goextract regenerates. -/
namespace SciVerif.Tie
open SciVerif.Generated

def tbl : List Acc := Access.table

/-- functions that only run while the workflow is being wired (no library goroutine touches the
same objects yet) -/
def wiringFns : List String :=
  ["Scipipe.InPort.AddRemotePort", "Scipipe.InPort.Disconnect", "Scipipe.InPort.removeRemotePort", "Scipipe.InPort.SetReady", "Scipipe.InPort.Ready",
   "Scipipe.OutPort.AddRemotePort", "Scipipe.OutPort.Disconnect", "Scipipe.OutPort.SetReady", "Scipipe.OutPort.Ready",
   "Scipipe.InParamPort.AddRemotePort", "Scipipe.InParamPort.SetReady", "Scipipe.InParamPort.Ready",
   "Scipipe.OutParamPort.AddRemotePort", "Scipipe.OutParamPort.Disconnect", "Scipipe.OutParamPort.SetReady", "Scipipe.OutParamPort.Ready",
   "Scipipe.newWorkflowWithoutLogging", "Scipipe.Workflow.Proc", "Scipipe.Workflow.Procs", "Scipipe.Workflow.AddProc", "Scipipe.Workflow.DotGraph",
   "Scipipe.Workflow.Run", "Scipipe.Workflow.runProcs", "Scipipe.Workflow.readyToRun", "Scipipe.Workflow.reconnectDeadEndConnections",
   "Scipipe.Process.initPortsFromCmdPattern", "Scipipe.Process.initDefaultPathFuncs"]

/-- out-port maps are touched during the run only by the goroutine that owns the port -/
def ownerFns : List String :=
  ["Scipipe.OutPort.Send", "Scipipe.OutPort.Close", "Scipipe.OutPort.removeRemotePort",
   "Scipipe.OutParamPort.Send", "Scipipe.OutParamPort.Close", "Scipipe.OutParamPort.removeRemotePort"]

/-- R1: the record pointer of an IP is only read / written under the IP's lock -/
def r1 : Bool := (tbl.filter (·.field == "auditInfo")).all fun a => a.locks.contains "ip.lock"

/-- R2: in-port maps: during the run only under the port's closeLock (the file-port half of
`upstreamProcsForProc` runs before any process is started; only FromStr feeders are already alive,
and they touch parameter in-ports only) -/
def r2 : Bool :=
  (tbl.filter (·.field == "RemotePorts")).all fun a =>
    wiringFns.contains a.fn || ownerFns.contains a.fn ||
    (a.fn == "Scipipe.InPort.CloseConnection" && a.locks.contains "pt.closeLock") ||
    (a.fn == "Scipipe.InParamPort.CloseConnection" && a.locks.contains "pip.closeLock") ||
    (a.fn == "Scipipe.upstreamProcsForProc" && (a.recv == "inp" || a.locks.contains "pip.closeLock"))

/-- R4: readiness flags, the process map and the driver are wiring-time state -/
def r4 : Bool :=
  (tbl.filter fun a => a.field == "ready" || a.field == "procs" || a.field == "driver").all fun a => wiringFns.contains a.fn

/-- R5: `doStream` / `SubStream` are written only before the object is published -/
def r5 : Bool :=
  (tbl.filter fun a => (a.field == "doStream" || a.field == "SubStream") && a.write).all fun a =>
    a.fn == "Scipipe.NewTask" || a.fn == "Scipipe.Process.initPortsFromCmdPattern" || a.fn == "Components.StreamToSubStream.Run"

/-- R6: the maps inside an audit record are written only on a fresh record (`writeAuditLogs`), by
`AddTag`, or by the CLI's report code -/
def r6 : Bool :=
  (tbl.filter fun a => (a.field == "Tags" || a.field == "Upstream" || a.field == "Params" || a.field == "OutFiles") && a.write).all fun a =>
    a.fn == "Scipipe.Task.writeAuditLogs" || a.fn == "Scipipe.FileIP.AddTag" || a.fn == "Cmd.auditInfoToHTML"

/-- run-phase functions that mutate the record of an IP they *received* (the object is shared with
every other consumer of the same out-port and with the producing task's other out-IPs) -/
def mutatesReceived (l : List Atom) : Bool :=
  match l.find? (fun a => a.kind == .rangeB_ && a.name == "Chan") with
  | some r =>
    let v := r.args.headD ""
    v != "" && l.any (fun a => (a.isCall "AddTag" || a.isCall "AddTags" || a.isCall "SetAuditInfo") && a.recv == v)
  | none => false

def racySites : List String :=
  [("Components.MapToTags.Run", Components.MapToTags_Run), ("Components.Concatenator.Run", Components.Concatenator_Run),
   ("Components.FileSplitter.Run", Components.FileSplitter_Run), ("Components.IPSelectorSync.Run", Components.IPSelectorSync_Run),
   ("Components.FileCombinator.Run", Components.FileCombinator_Run), ("Components.StreamToSubStream.Run", Components.StreamToSubStream_Run),
   ("Components.FileGlobber.Run", Components.FileGlobber_Run), ("Scipipe.Sink.Run", Scipipe.Sink_Run),
   ("Scipipe.Process.Run", Scipipe.Process_Run), ("Scipipe.Process.createTasks", Scipipe.Process_createTasks)].filterMap
    fun (n, l) => if mutatesReceived l then some n else none

def disciplineOk : Bool := r1 && r2 && r4 && r5 && r6

end SciVerif.Tie
