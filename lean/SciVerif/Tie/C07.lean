import SciVerif.Tie.Task
import SciVerif.Props.C07
import SciVerif.Tie.Pins
/-! Tie A obligations for C07 on the current source. -/
namespace SciVerif.Tie
open SciVerif.Slots

/-- the deposit loop of `IncConcurrentTasks` is bracketed by the mutex -/
theorem generated_slot_locked : slotSem.locked = true := by decide
theorem generated_slot_counts_c07 : slotCounts = true := by decide
/-- `Process.Run` rejects `CoresPerTask > maxConcurrentTasks` before creating tasks -/
theorem generated_cores_check_first : coresCheckFirst = true := by decide

/-- C07 (no deadlock) for the semantics record of the current source -/
theorem c07_on_source (max : Nat) (cores : List Nat) (hc : ∀ c ∈ cores, c ≤ max) (sched : List Nat) (s : St)
    (h : run slotSem (init max cores) sched = some s) (hnd : allDone s = false) :
    ∃ i s', step slotSem s i = some s' :=
  c07_no_deadlock slotSem generated_slot_locked max cores hc sched s h hnd




















-- BEGIN PINS (written by bin/mkpins; do not edit by hand)
/-- the Go functions this property's model and obligations were written against have exactly the
pinned skeletons (SHA-256 prefix of the atom list) -/
theorem pinned_skeletons_c07 :
    pinsOk
    [("Scipipe.#decls", "08e57e98702ecd70"),
     ("Scipipe.Process_Run", "40f832903317f455"),
     ("Scipipe.Task_Execute", "40fd1fec0c69deb2"),
     ("Scipipe.Workflow_DecConcurrentTasks", "2862c41bbe9893c5"),
     ("Scipipe.Workflow_IncConcurrentTasks", "acd0e561d4db6cb8"),
     ("Scipipe.newWorkflowWithoutLogging", "6bb5eb2ae17350a8")] = true := by decide
-- END PINS

end SciVerif.Tie
#print axioms SciVerif.Tie.pinned_skeletons_c07
#print axioms SciVerif.Tie.generated_slot_locked
#print axioms SciVerif.Tie.generated_slot_counts_c07
#print axioms SciVerif.Tie.generated_cores_check_first
#print axioms SciVerif.Tie.c07_on_source
