import SciVerif.Tie.Task
import SciVerif.Props.C09
import SciVerif.Tie.Pins
/-! Tie A obligations for C09 on the current source. -/
namespace SciVerif.Tie
-- functions the model relies on without an obligation of its own naming them (pinned by bin/mkpins):
-- PIN-ALSO: Scipipe.Sink_Run Scipipe.Workflow_runProcs Scipipe.Task_TempDir Scipipe.BaseProcess_receiveOnInPorts Scipipe.BaseProcess_receiveOnInParamPorts Scipipe.Process_createTasks
open SciVerif.TaskFS SciVerif.Generated

theorem generated_cmd_fail_fatal : taskSem.cmdFailFatal = true := by decide
theorem generated_rename_src_temp : taskSem.renameSrcTemp = true := by decide
theorem generated_wf_c01_for_c09 : WF_C01 taskSem := by decide

/-- `Fail` ends the process with status 1; every `Failf`/`Fail` wrapper reaches it -/
theorem generated_fail_exits :
    (Scipipe.Fail.any (fun a => a.isCall "Exit" && a.recv == "os" && a.args == ["1"]) &&
     Scipipe.Failf.any (·.isCall "Fail") && Scipipe.Task_Fail.any (·.isCall "Failf") &&
     Scipipe.Task_Failf.any (·.isCall "Fail") && Scipipe.BaseProcess_Fail.any (·.isCall "Failf") &&
     Scipipe.BaseProcess_Failf.any (·.isCall "Fail") && Scipipe.CheckWithMsg.any (·.isCall "Fail")) = true := by decide

/-- every other `Fail` / `Failf` wrapper of the library (workflow, IPs, the four kinds of ports, `Check`) ends in
`Fail` as well: no failure path of the library returns to its caller -/
theorem generated_all_fail_wrappers_exit :
    (Scipipe.Workflow_Fail.any (·.isCall "Failf") && Scipipe.Workflow_Failf.any (·.isCall "Fail") &&
     Scipipe.FileIP_Fail.any (·.isCall "Failf") && Scipipe.FileIP_Failf.any (·.isCall "Fail") &&
     Scipipe.InPort_Fail.any (·.isCall "Failf") && Scipipe.InPort_Failf.any (·.isCall "Fail") &&
     Scipipe.OutPort_Fail.any (·.isCall "Failf") && Scipipe.OutPort_Failf.any (·.isCall "Fail") &&
     Scipipe.InParamPort_Fail.any (·.isCall "Failf") && Scipipe.InParamPort_Failf.any (·.isCall "Fail") &&
     Scipipe.OutParamPort_Fail.any (·.isCall "Failf") && Scipipe.OutParamPort_Failf.any (·.isCall "Fail") &&
     Scipipe.Check.any (·.isCall "Fail") &&
     -- none of them has a branch or an early return in front of the call
     ([Scipipe.Workflow_Fail, Scipipe.Workflow_Failf, Scipipe.FileIP_Fail, Scipipe.FileIP_Failf, Scipipe.InPort_Fail,
       Scipipe.InPort_Failf, Scipipe.OutPort_Fail, Scipipe.OutPort_Failf, Scipipe.InParamPort_Fail, Scipipe.InParamPort_Failf,
       Scipipe.OutParamPort_Fail, Scipipe.OutParamPort_Failf, Scipipe.Fail, Scipipe.Failf, Scipipe.Task_Fail, Scipipe.Task_Failf,
       Scipipe.BaseProcess_Fail, Scipipe.BaseProcess_Failf].all fun l =>
         count (fun a => a.kind == .ifB_ || a.kind == .ret_ || a.kind == .go_ || a.kind == .goB_ || a.kind == .defer_) l == 0)) = true := by decide

/-- a missing temp output is fatal; a failing `finalizePaths` is fatal; an invalid out path is fatal -/
theorem generated_error_branches_fail :
    (before Scipipe.Task_ensureAllOutputsExist (·.isCall "IsNotExist") (·.isCall "Failf") &&
     before Scipipe.Task_Execute (fun a => a.kind == .ifB_ && a.name == "finErr != nil") (fun a => a.isCall "Fail" && a.args == ["finErr"]) &&
     before Scipipe.NewTask (fun a => a.kind == .ifB_ && a.name == "err != nil") (·.isCall "Failf")) = true := by decide

/-- every value lookup of `formatCommand` that can miss fails the task -/
theorem generated_missing_value_fails :
    ((["o", "os", "i", "p", "t"].all fun c => (caseBody c Scipipe.Task_formatCommand).any (·.isCall "Failf")) &&
     (caseBody "default" Scipipe.Task_formatCommand).length == 0 &&
     Scipipe.Task_formatCommand.any (fun a => a.kind == .caseB_ && a.name == "default")) = true := by decide

theorem c09_on_source (c : Cfg) (hex : c.beh.exit ≠ .ok) (pre : Nat → Option File) (n p : Nat) :
    (stepN taskSem c n (init taskSem c pre)).finalOut p = (init taskSem c pre).finalOut p :=
  c09_outputs_never_final taskSem generated_wf_c01_for_c09 c hex pre n p


theorem generated_all_ops_known_c09 : taskSemKnown = true := by decide



















-- BEGIN PINS (written by bin/mkpins; do not edit by hand)
/-- the Go functions this property's model and obligations were written against have exactly the
pinned skeletons (SHA-256 prefix of the atom list) -/
theorem pinned_skeletons_c09 :
    pinsOk
    [("Scipipe.#decls", "08e57e98702ecd70"),
     ("Scipipe.BaseProcess_Fail", "06794419eac40800"),
     ("Scipipe.BaseProcess_Failf", "536c85ecebfbb5bd"),
     ("Scipipe.BaseProcess_receiveOnInParamPorts", "80f48a9a3ce80c41"),
     ("Scipipe.BaseProcess_receiveOnInPorts", "fc9972cf4f754181"),
     ("Scipipe.Check", "8c079622ba7281b9"),
     ("Scipipe.CheckWithMsg", "9c35c41ab8e8dc71"),
     ("Scipipe.Fail", "6dc9afa8d61b0d24"),
     ("Scipipe.Failf", "4eb8bd4d81ed1ce9"),
     ("Scipipe.FileIP_Fail", "3a5659c15d57c048"),
     ("Scipipe.FileIP_Failf", "fe61f00c155d968e"),
     ("Scipipe.FinalizePaths", "291fc0cefa37cea9"),
     ("Scipipe.InParamPort_Fail", "3d176eec0bfabf4c"),
     ("Scipipe.InParamPort_Failf", "f66582574c708db5"),
     ("Scipipe.InPort_Fail", "ea20baf8a3372fdd"),
     ("Scipipe.InPort_Failf", "f66582574c708db5"),
     ("Scipipe.NewTask", "95298f03c320cb96"),
     ("Scipipe.OutParamPort_Fail", "04e21bf277fda47a"),
     ("Scipipe.OutParamPort_Failf", "f66582574c708db5"),
     ("Scipipe.OutPort_Fail", "9599b0eba9214966"),
     ("Scipipe.OutPort_Failf", "f66582574c708db5"),
     ("Scipipe.Process_createTasks", "8c856d9ef4492f5d"),
     ("Scipipe.Sink_Run", "2d6c7d95ef617224"),
     ("Scipipe.Task_Execute", "40fd1fec0c69deb2"),
     ("Scipipe.Task_Fail", "7efd50bffbc769dd"),
     ("Scipipe.Task_Failf", "9750abd3cdce8d29"),
     ("Scipipe.Task_TempDir", "6d565a2ddd3d0eb2"),
     ("Scipipe.Task_anyOutputsExist", "0609a842b7aaf7a8"),
     ("Scipipe.Task_ensureAllOutputsExist", "02a49c3c493368f3"),
     ("Scipipe.Task_executeCommand", "98e77d849c0638cb"),
     ("Scipipe.Task_finalizePaths", "9cd0530d4e86fa92"),
     ("Scipipe.Task_formatCommand", "ccbe98735ce5c7d6"),
     ("Scipipe.Workflow_Fail", "d0b195ce154de1ab"),
     ("Scipipe.Workflow_Failf", "3ec88e62b4857c47"),
     ("Scipipe.Workflow_runProcs", "62dfa98c32085220")] = true := by decide
-- END PINS

end SciVerif.Tie
#print axioms SciVerif.Tie.pinned_skeletons_c09
#print axioms SciVerif.Tie.generated_all_ops_known_c09
#print axioms SciVerif.Tie.generated_cmd_fail_fatal
#print axioms SciVerif.Tie.generated_rename_src_temp
#print axioms SciVerif.Tie.generated_wf_c01_for_c09
#print axioms SciVerif.Tie.generated_fail_exits
#print axioms SciVerif.Tie.generated_all_fail_wrappers_exit
#print axioms SciVerif.Tie.generated_error_branches_fail
#print axioms SciVerif.Tie.generated_missing_value_fails
#print axioms SciVerif.Tie.c09_on_source
