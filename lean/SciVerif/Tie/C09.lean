import SciVerif.Tie.Task
import SciVerif.Props.C09
/-! Tie A obligations for C09 on the current source. -/
namespace SciVerif.Tie
open SciVerif.TaskFS SciVerif.Generated

theorem generated_cmd_fail_fatal : taskSem.cmdFailFatal = true := by decide
theorem generated_rename_src_temp : taskSem.renameSrcTemp = true := by decide
theorem generated_wf_c01_for_c09 : WF_C01 taskSem := by decide

/-- `Fail` ends the process with status 1; every `Failf`/`Fail` wrapper reaches it -/
theorem generated_fail_exits :
    (Scipipe.Fail.any (fun a => a.isCall "Exit" && a.recv == "os" && a.args == ["1"]) &&
     Scipipe.Failf.any (·.isCall "Fail") && Scipipe.Task_Fail.any (·.isCall "Failf") &&
     Scipipe.Task_Failf.any (·.isCall "Fail") && Scipipe.BaseProcess_Fail.any (·.isCall "Failf") &&
     Scipipe.BaseProcess_Failf.any (·.isCall "Fail") && Scipipe.CheckWithMsg.any (·.isCall "Fail")) = true := by decide

/-- a missing temp output is fatal; a failing `finalizePaths` is fatal; an invalid out path is fatal -/
theorem generated_error_branches_fail :
    (before Scipipe.Task_ensureAllOutputsExist (·.isCall "IsNotExist") (·.isCall "Failf") &&
     before Scipipe.Task_Execute (fun a => a.kind == .ifB_ && a.name == "finErr != nil") (fun a => a.isCall "Fail" && a.args == ["finErr"]) &&
     before Scipipe.NewTask (fun a => a.kind == .ifB_ && a.name == "err != nil") (·.isCall "Failf")) = true := by decide

/-- every value lookup of `formatCommand` that can miss fails the task -/
theorem generated_missing_value_fails :
    ((["o", "os", "i", "p", "t"].all fun c => (caseBody c Scipipe.Task_formatCommand).any (·.isCall "Failf")) &&
     (caseBody "default" Scipipe.Task_formatCommand).length == 0 &&
     Scipipe.Task_formatCommand.any (fun a => a.kind == .caseB_ && a.name == "default")) = true := by decide

theorem c09_on_source (c : Cfg) (hex : c.beh.exit ≠ .ok) (pre : Nat → Option File) (n p : Nat) :
    (stepN taskSem c n (init taskSem c pre)).finalOut p = (init taskSem c pre).finalOut p :=
  c09_outputs_never_final taskSem generated_wf_c01_for_c09 c hex pre n p

end SciVerif.Tie
#print axioms SciVerif.Tie.generated_cmd_fail_fatal
#print axioms SciVerif.Tie.generated_rename_src_temp
#print axioms SciVerif.Tie.generated_wf_c01_for_c09
#print axioms SciVerif.Tie.generated_fail_exits
#print axioms SciVerif.Tie.generated_error_branches_fail
#print axioms SciVerif.Tie.generated_missing_value_fails
#print axioms SciVerif.Tie.c09_on_source
