import SciVerif.Tie.Task
import SciVerif.Props.C06
import SciVerif.Tie.Pins
/-! Tie A obligations for C06 on the current source. -/
namespace SciVerif.Tie
-- functions the model relies on without an obligation of its own naming them (pinned by bin/mkpins):
-- PIN-ALSO: Scipipe.Process_Run Scipipe.NewTask
-- PIN-NOT: Scipipe.Task_executeCommand Scipipe.Task_formatCommand Scipipe.FinalizePaths Scipipe.Task_finalizePaths Scipipe.Task_anyOutputsExist
open SciVerif.Slots

/-- `Inc`/`Dec` move exactly `t.cores` tokens through a channel of capacity `maxConcurrentTasks` -/
theorem generated_slot_counts : slotCounts = true := by decide
/-- `Execute`: acquire before the command, release after it, once each -/
theorem generated_slot_order : slotOrder taskSem.ops = true := by decide

/-- C06 for the semantics record of the current source -/
theorem c06_on_source (max : Nat) (cores : List Nat) (sched : List Nat) (s : St)
    (h : run slotSem (init max cores) sched = some s) :
    running s.tasks ≤ tokens s.tasks ∧ tokens s.tasks ≤ max := c06_bound slotSem max cores sched s h




















-- BEGIN PINS (written by bin/mkpins; do not edit by hand)
/-- the Go functions this property's model and obligations were written against have exactly the
pinned skeletons (SHA-256 prefix of the atom list) -/
theorem pinned_skeletons_c06 :
    pinsOk
    [("Scipipe.#decls", "08e57e98702ecd70"),
     ("Scipipe.NewTask", "95298f03c320cb96"),
     ("Scipipe.Process_Run", "40f832903317f455"),
     ("Scipipe.Task_Execute", "40fd1fec0c69deb2"),
     ("Scipipe.Workflow_DecConcurrentTasks", "2862c41bbe9893c5"),
     ("Scipipe.Workflow_IncConcurrentTasks", "acd0e561d4db6cb8"),
     ("Scipipe.newWorkflowWithoutLogging", "6bb5eb2ae17350a8")] = true := by decide
-- END PINS

end SciVerif.Tie
#print axioms SciVerif.Tie.pinned_skeletons_c06
#print axioms SciVerif.Tie.generated_slot_counts
#print axioms SciVerif.Tie.generated_slot_order
#print axioms SciVerif.Tie.c06_on_source
