import SciVerif.Tie.Task
import SciVerif.Props.C06
/-! Tie A obligations for C06 on the current source. -/
namespace SciVerif.Tie
open SciVerif.Slots

/-- `Inc`/`Dec` move exactly `t.cores` tokens through a channel of capacity `maxConcurrentTasks` -/
theorem generated_slot_counts : slotCounts = true := by decide
/-- `Execute`: acquire before the command, release after it, once each -/
theorem generated_slot_order : slotOrder taskSem.ops = true := by decide

/-- C06 for the semantics record of the current source -/
theorem c06_on_source (max : Nat) (cores : List Nat) (sched : List Nat) (s : St)
    (h : run slotSem (init max cores) sched = some s) :
    running s.tasks ≤ tokens s.tasks ∧ tokens s.tasks ≤ max := c06_bound slotSem max cores sched s h

end SciVerif.Tie
#print axioms SciVerif.Tie.generated_slot_counts
#print axioms SciVerif.Tie.generated_slot_order
#print axioms SciVerif.Tie.c06_on_source
