import SciVerif.Tie.ProcSem
import SciVerif.Props.C04
import SciVerif.Props.C08
/-! Tie A obligations for C04: the port and task-creation code has the shape the channel and
task-creation models assume. -/
namespace SciVerif.Tie
open SciVerif.Generated

def noEarlyExit (l : List Atom) : Bool := count (fun a => a.kind == .break_ || a.kind == .ret_ || a.kind == .goto_) l == 0

/-- `OutPort.Send` / `OutParamPort.Send` deliver to every remote port (no early exit); the in-port
side is a plain channel send / receive on a channel of capacity `getBufsize()` -/
theorem generated_send_to_all_remotes :
    (Scipipe.OutPort_Send.any (fun a => a.kind == .rangeB_ && a.name == "RemotePorts" && a.recv == "pt") &&
     Scipipe.OutPort_Send.any (fun a => a.isCall "Send" && a.recv == "rpt" && a.args == ["ip"]) && noEarlyExit Scipipe.OutPort_Send &&
     count (·.kind == .continue_) Scipipe.OutPort_Send == 0 &&
     Scipipe.OutParamPort_Send.any (fun a => a.kind == .rangeB_ && a.name == "RemotePorts" && a.recv == "pop") &&
     Scipipe.OutParamPort_Send.any (fun a => a.isCall "Send" && a.recv == "pip" && a.args == ["param"]) && noEarlyExit Scipipe.OutParamPort_Send &&
     Scipipe.InPort_Send == [⟨.send_, "Chan", "pt", ["ip"]⟩] &&
     Scipipe.InParamPort_Send == [⟨.send_, "Chan", "pip", ["param"]⟩] &&
     Scipipe.NewInPort.any (fun a => a.isCall "make" && a.args == ["chan *FileIP", "getBufsize()"]) &&
     Scipipe.NewInParamPort.any (fun a => a.isCall "make" && a.args == ["chan string", "getBufsize()"])) = true := by decide

/-- an in-port is closed exactly when its last upstream connection is closed, under `closeLock` -/
theorem generated_close_when_last :
    (Scipipe.InPort_CloseConnection ==
       [⟨.call_, "Lock", "pt.closeLock", []⟩, ⟨.call_, "delete", "", ["pt.RemotePorts", "rptName"]⟩, ⟨.call_, "len", "", ["pt.RemotePorts"]⟩,
        ⟨.ifB_, "len(pt.RemotePorts) == 0", "", []⟩, ⟨.call_, "close", "", ["pt.Chan"]⟩, ⟨.endB_, "if", "", []⟩, ⟨.call_, "Unlock", "pt.closeLock", []⟩] &&
     Scipipe.InParamPort_CloseConnection ==
       [⟨.call_, "Lock", "pip.closeLock", []⟩, ⟨.call_, "delete", "", ["pip.RemotePorts", "popName"]⟩, ⟨.call_, "len", "", ["pip.RemotePorts"]⟩,
        ⟨.ifB_, "len(pip.RemotePorts) == 0", "", []⟩, ⟨.call_, "close", "", ["pip.Chan"]⟩, ⟨.endB_, "if", "", []⟩, ⟨.call_, "Unlock", "pip.closeLock", []⟩] &&
     Scipipe.OutPort_Close.any (fun a => a.isCall "CloseConnection" && a.recv == "rpt" && a.args == ["pt.Name()"]) && noEarlyExit Scipipe.OutPort_Close &&
     Scipipe.OutParamPort_Close.any (fun a => a.isCall "CloseConnection" && a.recv == "pip" && a.args == ["pop.Name()"]) && noEarlyExit Scipipe.OutParamPort_Close &&
     Scipipe.BaseProcess_CloseOutPorts.any (fun a => a.isCall "Close" && a.recv == "p") &&
     Scipipe.Process_Run.head?.map (fun a => a.kind == .defer_ && a.name == "CloseOutPorts") == some true) = true := by decide

/-- one receive per in-port (and per parameter port) per round, a closed port does not stop the
round (`continue`), the round's result is discarded as soon as some port was closed -/
theorem generated_round_shape :
    (let r := Scipipe.BaseProcess_receiveOnInPorts
     let rp := Scipipe.BaseProcess_receiveOnInParamPorts
     let ct := Scipipe.Process_createTasks
     count (fun a => a.kind == .recv_ && a.name == "Chan") r == 1 && count (fun a => a.kind == .recv_ && a.name == "Chan") rp == 1 &&
     r.any (fun a => a.kind == .rangeB_ && a.name == "InPorts()") && rp.any (fun a => a.kind == .rangeB_ && a.name == "InParamPorts()") &&
     count (·.kind == .break_) r == 0 && count (·.kind == .break_) rp == 0 &&
     before r (fun a => a.kind == .ifB_ && a.name == "!open") (fun a => a.kind == .assign_ && a.name == "inPortsOpen" && a.args == ["false"]) &&
     before ct (·.isCall "receiveOnInPorts") (fun a => a.kind == .ifB_ && a.name == "!inPortsOpen") &&
     before ct (fun a => a.kind == .ifB_ && a.name == "!inPortsOpen") (·.kind == .break_) &&
     before ct (·.isCall "receiveOnInParamPorts") (fun a => a.kind == .ifB_ && a.name == "!paramPortsOpen") &&
     before ct (fun a => a.kind == .ifB_ && a.name == "!paramPortsOpen") (·.isCall "NewTask") &&
     before ct (·.isCall "NewTask") (fun a => a.kind == .ifB_ && a.name == "len(p.inPorts) == 0 && len(p.inParamPorts) == 0") &&
     count (·.isCall "NewTask") ct == 1 && count (fun a => a.isSend "ch") ct == 1 &&
     ct.any (fun a => a.kind == .defer_ && a.name == "close" && a.args == ["ch"])) = true := by decide

theorem generated_proc_sem_good_c04 : Proc.good procSem := by decide

end SciVerif.Tie
#print axioms SciVerif.Tie.generated_send_to_all_remotes
#print axioms SciVerif.Tie.generated_close_when_last
#print axioms SciVerif.Tie.generated_round_shape
#print axioms SciVerif.Tie.generated_proc_sem_good_c04
