import SciVerif.Tie.ProcSem
import SciVerif.Props.C04
import SciVerif.Props.C08
import SciVerif.Tie.Pins
/-! Tie A obligations for C04: the port and task-creation code has the shape the channel and
task-creation models assume. -/
namespace SciVerif.Tie
-- PIN-NOT: Scipipe.Task_Execute Scipipe.FinalizePaths Scipipe.Task_writeAuditLogs
-- functions the model relies on without an obligation of its own naming them (pinned by bin/mkpins):
-- PIN-ALSO: Scipipe.Workflow_reconnectDeadEndConnections Scipipe.Workflow_RunToProcs Scipipe.Workflow_runProcs Scipipe.Sink_Run Scipipe.InPort_Recv Scipipe.InParamPort_Recv Scipipe.InPort_From Scipipe.InParamPort_From Scipipe.OutPort_To Scipipe.OutParamPort_To Scipipe.InPort_AddRemotePort Scipipe.OutPort_AddRemotePort Scipipe.InParamPort_AddRemotePort Scipipe.OutParamPort_AddRemotePort Scipipe.InPort_removeRemotePort Scipipe.OutPort_removeRemotePort Scipipe.BaseProcess_CloseAllOutPorts Scipipe.BaseProcess_CloseOutParamPorts Scipipe.getBufsize Scipipe.NewOutPort Scipipe.NewOutParamPort Scipipe.InParamPort_FromStr Scipipe.BaseProcess_InitInPort Scipipe.BaseProcess_InitOutPort Scipipe.BaseProcess_InitInParamPort Scipipe.BaseProcess_InitOutParamPort Scipipe.Process_In Scipipe.Process_Out Scipipe.Process_InParam Scipipe.Process_OutParam Scipipe.NewProc Scipipe.Workflow_NewProc Scipipe.NewBaseProcess Scipipe.BaseProcess_InPort Scipipe.BaseProcess_OutPort Scipipe.BaseProcess_InParamPort Scipipe.BaseProcess_OutParamPort Scipipe.BaseProcess_InPorts Scipipe.BaseProcess_OutPorts Scipipe.BaseProcess_InParamPorts Scipipe.BaseProcess_OutParamPorts Scipipe.InPort_SetProcess Scipipe.OutPort_SetProcess Scipipe.InPort_Process Scipipe.OutPort_Process Scipipe.OutParamPort_Process Scipipe.InParamPort_Process Scipipe.InParamPort_FromInt Scipipe.InParamPort_FromFloat Scipipe.InPort_Name Scipipe.OutPort_Name Scipipe.InParamPort_Name Scipipe.OutParamPort_Name Scipipe.InParamPort_SetProcess Scipipe.OutParamPort_SetProcess
open SciVerif.Generated

def noEarlyExit (l : List Atom) : Bool := count (fun a => a.kind == .break_ || a.kind == .ret_ || a.kind == .goto_) l == 0

/-- `OutPort.Send` / `OutParamPort.Send` deliver to every remote port (no early exit); the in-port
side is a plain channel send / receive on a channel of capacity `getBufsize()` -/
theorem generated_send_to_all_remotes :
    (Scipipe.OutPort_Send.any (fun a => a.kind == .rangeB_ && a.name == "RemotePorts" && a.recv == "pt") &&
     Scipipe.OutPort_Send.any (fun a => a.isCall "Send" && a.recv == "rpt" && a.args == ["ip"]) && noEarlyExit Scipipe.OutPort_Send &&
     count (·.kind == .continue_) Scipipe.OutPort_Send == 0 &&
     Scipipe.OutParamPort_Send.any (fun a => a.kind == .rangeB_ && a.name == "RemotePorts" && a.recv == "pop") &&
     Scipipe.OutParamPort_Send.any (fun a => a.isCall "Send" && a.recv == "pip" && a.args == ["param"]) && noEarlyExit Scipipe.OutParamPort_Send &&
     Scipipe.InPort_Send == [⟨.send_, "Chan", "pt", ["ip"]⟩] &&
     Scipipe.InParamPort_Send == [⟨.send_, "Chan", "pip", ["param"]⟩] &&
     Scipipe.NewInPort.any (fun a => a.isCall "make" && a.args == ["chan *FileIP", "getBufsize()"]) &&
     Scipipe.NewInParamPort.any (fun a => a.isCall "make" && a.args == ["chan string", "getBufsize()"])) = true := by decide

/-- an in-port is closed exactly when its last upstream connection is closed, under `closeLock` -/
theorem generated_close_when_last :
    (Scipipe.InPort_CloseConnection ==
       [⟨.call_, "Lock", "pt.closeLock", []⟩, ⟨.call_, "delete", "", ["pt.RemotePorts", "rptName"]⟩, ⟨.call_, "len", "", ["pt.RemotePorts"]⟩,
        ⟨.ifB_, "len(pt.RemotePorts) == 0", "", []⟩, ⟨.call_, "close", "", ["pt.Chan"]⟩, ⟨.endB_, "if", "", []⟩, ⟨.call_, "Unlock", "pt.closeLock", []⟩] &&
     Scipipe.InParamPort_CloseConnection ==
       [⟨.call_, "Lock", "pip.closeLock", []⟩, ⟨.call_, "delete", "", ["pip.RemotePorts", "popName"]⟩, ⟨.call_, "len", "", ["pip.RemotePorts"]⟩,
        ⟨.ifB_, "len(pip.RemotePorts) == 0", "", []⟩, ⟨.call_, "close", "", ["pip.Chan"]⟩, ⟨.endB_, "if", "", []⟩, ⟨.call_, "Unlock", "pip.closeLock", []⟩] &&
     Scipipe.OutPort_Close.any (fun a => a.isCall "CloseConnection" && a.recv == "rpt" && a.args == ["pt.Name()"]) && noEarlyExit Scipipe.OutPort_Close &&
     Scipipe.OutParamPort_Close.any (fun a => a.isCall "CloseConnection" && a.recv == "pip" && a.args == ["pop.Name()"]) && noEarlyExit Scipipe.OutParamPort_Close &&
     Scipipe.BaseProcess_CloseOutPorts.any (fun a => a.isCall "Close" && a.recv == "p") &&
     Scipipe.Process_Run.head?.map (fun a => a.kind == .defer_ && a.name == "CloseOutPorts") == some true) = true := by decide

/-- one receive per in-port (and per parameter port) per round, a closed port does not stop the
round (`continue`), the round's result is discarded as soon as some port was closed -/
theorem generated_round_shape :
    (let r := Scipipe.BaseProcess_receiveOnInPorts
     let rp := Scipipe.BaseProcess_receiveOnInParamPorts
     let ct := Scipipe.Process_createTasks
     count (fun a => a.kind == .recv_ && a.name == "Chan") r == 1 && count (fun a => a.kind == .recv_ && a.name == "Chan") rp == 1 &&
     r.any (fun a => a.kind == .rangeB_ && a.name == "InPorts()") && rp.any (fun a => a.kind == .rangeB_ && a.name == "InParamPorts()") &&
     count (·.kind == .break_) r == 0 && count (·.kind == .break_) rp == 0 &&
     before r (fun a => a.kind == .ifB_ && a.name == "!open") (fun a => a.kind == .assign_ && a.name == "inPortsOpen" && a.args == ["false"]) &&
     before ct (·.isCall "receiveOnInPorts") (fun a => a.kind == .ifB_ && a.name == "!inPortsOpen") &&
     before ct (fun a => a.kind == .ifB_ && a.name == "!inPortsOpen") (·.kind == .break_) &&
     before ct (·.isCall "receiveOnInParamPorts") (fun a => a.kind == .ifB_ && a.name == "!paramPortsOpen") &&
     before ct (fun a => a.kind == .ifB_ && a.name == "!paramPortsOpen") (·.isCall "NewTask") &&
     before ct (·.isCall "NewTask") (fun a => a.kind == .ifB_ && a.name == "len(p.inPorts) == 0 && len(p.inParamPorts) == 0") &&
     count (·.isCall "NewTask") ct == 1 && count (fun a => a.isSend "ch") ct == 1 &&
     ct.any (fun a => a.kind == .defer_ && a.name == "close" && a.args == ["ch"])) = true := by decide

theorem generated_proc_sem_good_c04 : Proc.good procSem := by decide




















-- BEGIN PINS (written by bin/mkpins; do not edit by hand)
/-- the Go functions this property's model and obligations were written against have exactly the
pinned skeletons (SHA-256 prefix of the atom list) -/
theorem pinned_skeletons_c04 :
    pinsOk
    [("Scipipe.#decls", "08e57e98702ecd70"),
     ("Scipipe.BaseProcess_CloseAllOutPorts", "50efd798f96bd05b"),
     ("Scipipe.BaseProcess_CloseOutParamPorts", "b55e88685818f821"),
     ("Scipipe.BaseProcess_CloseOutPorts", "be86bddf379df111"),
     ("Scipipe.BaseProcess_InParamPort", "762e516a21734441"),
     ("Scipipe.BaseProcess_InParamPorts", "8d8b15053d2db87f"),
     ("Scipipe.BaseProcess_InPort", "c48f106edaf85c15"),
     ("Scipipe.BaseProcess_InPorts", "133f57ebe0b686e2"),
     ("Scipipe.BaseProcess_InitInParamPort", "95bcc8146185d37d"),
     ("Scipipe.BaseProcess_InitInPort", "9316d3eb7fe6dfdf"),
     ("Scipipe.BaseProcess_InitOutParamPort", "014c85d604f145e4"),
     ("Scipipe.BaseProcess_InitOutPort", "36e733e6aa5f2644"),
     ("Scipipe.BaseProcess_OutParamPort", "63c94d8619dd6290"),
     ("Scipipe.BaseProcess_OutParamPorts", "7dc497a7f8b09750"),
     ("Scipipe.BaseProcess_OutPort", "c8e19a354c1d12ce"),
     ("Scipipe.BaseProcess_OutPorts", "c28508c01ef2c5b0"),
     ("Scipipe.BaseProcess_receiveOnInParamPorts", "80f48a9a3ce80c41"),
     ("Scipipe.BaseProcess_receiveOnInPorts", "fc9972cf4f754181"),
     ("Scipipe.InParamPort_AddRemotePort", "3305ddf163d24713"),
     ("Scipipe.InParamPort_CloseConnection", "0b1304b246603bb9"),
     ("Scipipe.InParamPort_From", "91dcfa2a5059be8c"),
     ("Scipipe.InParamPort_FromFloat", "8797bd84fe4529ce"),
     ("Scipipe.InParamPort_FromInt", "7c687761b07c0588"),
     ("Scipipe.InParamPort_FromStr", "82f932a5d19fe28f"),
     ("Scipipe.InParamPort_Name", "b8c33e9fda3e0cad"),
     ("Scipipe.InParamPort_Process", "9128e2db1c92bb3d"),
     ("Scipipe.InParamPort_Recv", "118dc198fdd7a631"),
     ("Scipipe.InParamPort_Send", "4622aa49739ca34b"),
     ("Scipipe.InParamPort_SetProcess", "e216d2f6c79f87ea"),
     ("Scipipe.InPort_AddRemotePort", "2b23c2eefc8a18f5"),
     ("Scipipe.InPort_CloseConnection", "19d2a9417eaebec1"),
     ("Scipipe.InPort_From", "39357be56d46a631"),
     ("Scipipe.InPort_Name", "32050bdd567c3af3"),
     ("Scipipe.InPort_Process", "5542a8a79e33c127"),
     ("Scipipe.InPort_Recv", "e48def2c3f368dd0"),
     ("Scipipe.InPort_Send", "62cb51bf3ab53084"),
     ("Scipipe.InPort_SetProcess", "f6f6fdb502d7548a"),
     ("Scipipe.InPort_removeRemotePort", "7b8fd26a958e69e5"),
     ("Scipipe.NewBaseProcess", "44bcb5795d2c0c17"),
     ("Scipipe.NewInParamPort", "987eb734aafc07fd"),
     ("Scipipe.NewInPort", "7ed3bbccc81e8535"),
     ("Scipipe.NewOutParamPort", "9934e9f3149ad37e"),
     ("Scipipe.NewOutPort", "fc9bc8de2927b9b5"),
     ("Scipipe.NewProc", "87c3cac25a30f9dc"),
     ("Scipipe.OutParamPort_AddRemotePort", "d1ae040a8ec1308b"),
     ("Scipipe.OutParamPort_Close", "601ec3b610e0f2df"),
     ("Scipipe.OutParamPort_Name", "9e2390387954d7b4"),
     ("Scipipe.OutParamPort_Process", "b038149df3b6386e"),
     ("Scipipe.OutParamPort_Send", "001f43b441bb5996"),
     ("Scipipe.OutParamPort_SetProcess", "e247cf5eded0bbbc"),
     ("Scipipe.OutParamPort_To", "62d0c49416911f20"),
     ("Scipipe.OutPort_AddRemotePort", "711a5e501451ebce"),
     ("Scipipe.OutPort_Close", "82e44734c725a956"),
     ("Scipipe.OutPort_Name", "32050bdd567c3af3"),
     ("Scipipe.OutPort_Process", "5542a8a79e33c127"),
     ("Scipipe.OutPort_Send", "06287c7bef096378"),
     ("Scipipe.OutPort_SetProcess", "f6f6fdb502d7548a"),
     ("Scipipe.OutPort_To", "39357be56d46a631"),
     ("Scipipe.OutPort_removeRemotePort", "7b8fd26a958e69e5"),
     ("Scipipe.Process_In", "5c55db4a17c5e657"),
     ("Scipipe.Process_InParam", "c8e48924f704b354"),
     ("Scipipe.Process_Out", "a8336ddcad83e773"),
     ("Scipipe.Process_OutParam", "c9bda6ebf69a5f59"),
     ("Scipipe.Process_Run", "40f832903317f455"),
     ("Scipipe.Process_createTasks", "8c856d9ef4492f5d"),
     ("Scipipe.Sink_Run", "2d6c7d95ef617224"),
     ("Scipipe.Workflow_NewProc", "0c40600b4fc86df2"),
     ("Scipipe.Workflow_RunToProcs", "397593629fe3c425"),
     ("Scipipe.Workflow_reconnectDeadEndConnections", "9ed90a908028bbfc"),
     ("Scipipe.Workflow_runProcs", "62dfa98c32085220"),
     ("Scipipe.getBufsize", "65b7d390dc0d0c72"),
     ("Scipipe.taskQueue_NextTaskDone", "749f6263d8a0c13f")] = true := by decide
-- END PINS

end SciVerif.Tie
#print axioms SciVerif.Tie.pinned_skeletons_c04
#print axioms SciVerif.Tie.generated_send_to_all_remotes
#print axioms SciVerif.Tie.generated_close_when_last
#print axioms SciVerif.Tie.generated_round_shape
#print axioms SciVerif.Tie.generated_proc_sem_good_c04
