import SciVerif.Tie.Atom
import SciVerif.Generated.Skel
import SciVerif.Generated.Consts
import SciVerif.Props.C11
import SciVerif.Tie.Pins
/-! Tie A obligations for C11 on the current source. -/
namespace SciVerif.Tie
-- functions the model relies on without an obligation of its own naming them (pinned by bin/mkpins):
-- PIN-ALSO: Scipipe.Task_Execute Scipipe.Task_anyOutputsExist Scipipe.FileIP_SetAuditInfo Scipipe.FileIP_WriteAuditLogToFile Scipipe.FileIP_UnMarshalJSON
open SciVerif.Generated

/-- a file found on disk gets its record from its audit file: `NewFileIP` loads it when the file
exists, `AuditInfo()` loads lazily (once) under the IP's lock, a missing audit file gives a fresh
empty record and a present one is unmarshalled completely or the workflow fails -/
theorem generated_record_loaded_from_disk :
    (before Scipipe.NewFileIP (fun a => a.kind == .ifB_ && a.name == "ip.Exists()") (fun a => a.isCall "AuditInfo" && a.recv == "ip") &&
     Scipipe.FileIP_AuditInfo ==
       [⟨.defer_, "Unlock", "ip.lock", []⟩, ⟨.call_, "Lock", "ip.lock", []⟩, ⟨.ifB_, "ip.auditInfo == nil", "", []⟩,
        ⟨.call_, "AuditFilePath", "ip", []⟩, ⟨.call_, "UnmarshalAuditInfoJSONFile", "", ["ip.AuditFilePath()"]⟩,
        ⟨.assign_, "ip.auditInfo", "=", ["UnmarshalAuditInfoJSONFile(ip.AuditFilePath())"]⟩, ⟨.endB_, "if", "", []⟩,
        ⟨.ret_, "", "", ["ip.auditInfo"]⟩] &&
     (let u := Scipipe.UnmarshalAuditInfoJSONFile
      before u (·.isCall "NewAuditInfo") (·.isCall "ReadFile") &&
      before u (·.isCall "ReadFile") (fun a => a.isCall "Unmarshal" && a.recv == "json" && a.args == ["auditFileData", "auditInfo"]) &&
      before u (fun a => a.isCall "Unmarshal") (fun a => a.isCall "CheckWithMsg" && a.args.head? == some "unmarshalErr"))) = true := by decide

/-- every field of the record is exported, hence written and read back by `encoding/json` -/
theorem generated_all_fields_exported :
    (Consts.Scipipe.AuditInfo_fields.all fun f => match f.toList.head? with | some c => c.isUpper | none => false) = true := by decide

/-- the upstream records embedded in a new record are the in-IPs' own records (no copy, no filter) -/
theorem generated_upstream_is_input_record :
    (Scipipe.Task_writeAuditLogs.any (fun a => a.kind == .assign_ && a.name == "auditInfo.Upstream[iip.Path()]" && a.args == ["iip.AuditInfo()"])) = true := by decide




















-- BEGIN PINS (written by bin/mkpins; do not edit by hand)
/-- the Go functions this property's model and obligations were written against have exactly the
pinned skeletons (SHA-256 prefix of the atom list) -/
theorem pinned_skeletons_c11 :
    pinsOk
    [("Scipipe.#decls", "08e57e98702ecd70"),
     ("Scipipe.FileIP_AuditInfo", "5adb309a1fd92bb2"),
     ("Scipipe.FileIP_SetAuditInfo", "9888139e5f6ebe46"),
     ("Scipipe.FileIP_UnMarshalJSON", "53871f3581412391"),
     ("Scipipe.FileIP_WriteAuditLogToFile", "4600f6f7f2efa41b"),
     ("Scipipe.NewFileIP", "5736f17570081214"),
     ("Scipipe.Task_Execute", "40fd1fec0c69deb2"),
     ("Scipipe.Task_anyOutputsExist", "0609a842b7aaf7a8"),
     ("Scipipe.Task_writeAuditLogs", "5ee6e36ed2566be6"),
     ("Scipipe.UnmarshalAuditInfoJSONFile", "d5d56678b2f7b950")] = true := by decide
-- END PINS

end SciVerif.Tie
#print axioms SciVerif.Tie.pinned_skeletons_c11
#print axioms SciVerif.Tie.generated_record_loaded_from_disk
#print axioms SciVerif.Tie.generated_all_fields_exported
#print axioms SciVerif.Tie.generated_upstream_is_input_record
