import SciVerif.Tie.Atom
import SciVerif.Generated.Skel
import SciVerif.Generated.Consts
import SciVerif.Props.C11
/-! Tie A obligations for C11 on the current source. -/
namespace SciVerif.Tie
open SciVerif.Generated

/-- a file found on disk gets its record from its audit file: `NewFileIP` loads it when the file
exists, `AuditInfo()` loads lazily (once) under the IP's lock, a missing audit file gives a fresh
empty record and a present one is unmarshalled completely or the workflow fails -/
theorem generated_record_loaded_from_disk :
    (before Scipipe.NewFileIP (fun a => a.kind == .ifB_ && a.name == "ip.Exists()") (fun a => a.isCall "AuditInfo" && a.recv == "ip") &&
     Scipipe.FileIP_AuditInfo ==
       [⟨.defer_, "Unlock", "ip.lock", []⟩, ⟨.call_, "Lock", "ip.lock", []⟩, ⟨.ifB_, "ip.auditInfo == nil", "", []⟩,
        ⟨.call_, "AuditFilePath", "ip", []⟩, ⟨.call_, "UnmarshalAuditInfoJSONFile", "", ["ip.AuditFilePath()"]⟩,
        ⟨.assign_, "ip.auditInfo", "=", ["UnmarshalAuditInfoJSONFile(ip.AuditFilePath())"]⟩, ⟨.endB_, "if", "", []⟩,
        ⟨.ret_, "", "", ["ip.auditInfo"]⟩] &&
     (let u := Scipipe.UnmarshalAuditInfoJSONFile
      before u (·.isCall "NewAuditInfo") (·.isCall "ReadFile") &&
      before u (·.isCall "ReadFile") (fun a => a.isCall "Unmarshal" && a.recv == "json" && a.args == ["auditFileData", "auditInfo"]) &&
      before u (fun a => a.isCall "Unmarshal") (fun a => a.isCall "CheckWithMsg" && a.args.head? == some "unmarshalErr"))) = true := by decide

/-- every field of the record is exported, hence written and read back by `encoding/json` -/
theorem generated_all_fields_exported :
    (Consts.Scipipe.AuditInfo_fields.all fun f => match f.toList.head? with | some c => c.isUpper | none => false) = true := by decide

/-- the upstream records embedded in a new record are the in-IPs' own records (no copy, no filter) -/
theorem generated_upstream_is_input_record :
    (Scipipe.Task_writeAuditLogs.any (fun a => a.kind == .assign_ && a.name == "auditInfo.Upstream[iip.Path()]" && a.args == ["iip.AuditInfo()"])) = true := by decide

end SciVerif.Tie
#print axioms SciVerif.Tie.generated_record_loaded_from_disk
#print axioms SciVerif.Tie.generated_all_fields_exported
#print axioms SciVerif.Tie.generated_upstream_is_input_record
