import SciVerif.Tie.RunSem
import SciVerif.Props.C16
import SciVerif.Tie.Pins
/-! Tie A obligations for C16 on the current source. -/
namespace SciVerif.Tie
-- functions the model relies on without an obligation of its own naming them (pinned by bin/mkpins):
-- PIN-ALSO: Scipipe.OutPort_To Scipipe.OutParamPort_To Scipipe.InPort_From Scipipe.InParamPort_From Scipipe.InPort_AddRemotePort Scipipe.OutPort_AddRemotePort Scipipe.InParamPort_AddRemotePort Scipipe.OutParamPort_AddRemotePort Scipipe.InPort_Ready Scipipe.OutPort_Ready Scipipe.InParamPort_Ready Scipipe.OutParamPort_Ready Scipipe.InPort_Disconnect Scipipe.OutPort_Disconnect Scipipe.OutParamPort_Disconnect Scipipe.InPort_SetReady Scipipe.OutPort_SetReady Scipipe.InParamPort_SetReady Scipipe.OutParamPort_SetReady Scipipe.Sink_From Scipipe.Sink_FromParam Scipipe.Workflow_AddProc Scipipe.Workflow_Proc Scipipe.InParamPort_FromStr Scipipe.BaseProcess_InitInPort Scipipe.BaseProcess_InitOutPort Scipipe.BaseProcess_InitInParamPort Scipipe.BaseProcess_InitOutParamPort Scipipe.Process_In Scipipe.Process_Out Scipipe.Process_InParam Scipipe.Process_OutParam Scipipe.NewProc Scipipe.Workflow_NewProc Scipipe.NewBaseProcess Scipipe.BaseProcess_InPort Scipipe.BaseProcess_OutPort Scipipe.BaseProcess_InParamPort Scipipe.BaseProcess_OutParamPort Scipipe.BaseProcess_InPorts Scipipe.BaseProcess_OutPorts Scipipe.BaseProcess_InParamPorts Scipipe.BaseProcess_OutParamPorts Scipipe.InPort_SetProcess Scipipe.OutPort_SetProcess Scipipe.InPort_Process Scipipe.OutPort_Process Scipipe.OutParamPort_Process Scipipe.InParamPort_Process Scipipe.Workflow_AddProcs Scipipe.Workflow_Procs Scipipe.BaseProcess_DeleteInPort Scipipe.BaseProcess_DeleteOutPort Scipipe.BaseProcess_DeleteInParamPort Scipipe.BaseProcess_DeleteOutParamPort Scipipe.OutParamPort_removeRemotePort Scipipe.NewSink Scipipe.Workflow_SetSink Scipipe.Workflow_Sink Scipipe.Workflow_Name Scipipe.NewWorkflowCustomLogFile
open SciVerif.Generated SciVerif.Graph

theorem generated_run_sem_good : good runSem := by decide

/-- `reconnectDeadEndConnections` disconnects remotes outside the run set and reconnects emptied
out-ports (file and parameter) to the sink; `RunTo*` all go through `RunToProcs` -/
theorem generated_reconnect_shape :
    (let l := Scipipe.Workflow_reconnectDeadEndConnections
     count (fun a => a.isCall "Disconnect") l == 4 &&
     l.any (fun a => a.isCall "From" && a.recv == "wf.sink" && a.args == ["opt"]) &&
     l.any (fun a => a.isCall "FromParam" && a.recv == "wf.sink" && a.args == ["pop"]) &&
     before l (fun a => a.kind == .ifB_ && a.name == "!opt.Ready()") (fun a => a.isCall "From" && a.recv == "wf.sink") &&
     Scipipe.Workflow_RunTo.any (·.isCall "RunToProcs") && Scipipe.Workflow_RunToRegex.any (·.isCall "RunToProcs") &&
     Scipipe.Workflow_RunToProcs.any (fun a => a.isCall "upstreamProcsForProc" && a.args == ["finalProc"]) &&
     Scipipe.Workflow_RunToProcs.any (fun a => a.kind == .assign_ && a.name == "procsToRun[finalProc.Name()]" && a.args == ["finalProc"]) &&
     Scipipe.Workflow_RunToProcs.any (fun a => a.isCall "runProcs" && a.args == ["procsToRun"]) &&
     Scipipe.Workflow_Run.any (fun a => a.isCall "runProcs" && a.args == ["wf.procs"])) = true := by decide

/-- the rewiring loop is the one `Graph.reconnect` models: for every process of the run set, every out-port
(file and parameter), every remote: disconnect when the remote's process is nil or not in `procs`; afterwards
connect the out-port to the sink iff it is not `Ready`; `Disconnect` marks a port without remotes as not ready -/
theorem generated_reconnect_loop :
    (let l := Scipipe.Workflow_reconnectDeadEndConnections
     before l (fun a => a.kind == .rangeB_ && a.name == "procs") (fun a => a.kind == .rangeB_ && a.name == "OutPorts()") &&
     before l (fun a => a.kind == .rangeB_ && a.name == "RemotePorts" && a.recv == "opt") (fun a => a.kind == .ifB_ && a.name == "ipt.Process() == nil") &&
     before l (fun a => a.kind == .ifB_ && a.name == "ipt.Process() == nil") (fun a => a.isCall "Disconnect" && a.recv == "opt" && a.args == ["iptName"]) &&
     l.any (fun a => a.kind == .assign_ && a.name == "_,ok" && a.args == ["procs[ipt.Process().Name()]"]) &&
     l.any (fun a => a.kind == .assign_ && a.name == "_,ok" && a.args == ["procs[rpp.Process().Name()]"]) &&
     count (fun a => a.kind == .ifB_ && a.name == "!ok") l == 2 &&
     before l (fun a => a.isCall "Disconnect" && a.recv == "pop") (fun a => a.kind == .ifB_ && a.name == "!pop.Ready()") &&
     before l (fun a => a.kind == .ifB_ && a.name == "!pop.Ready()") (fun a => a.isCall "FromParam" && a.recv == "wf.sink") &&
     count (fun a => a.kind == .break_ || a.kind == .continue_ || a.kind == .ret_) l == 0 &&
     Scipipe.OutPort_Disconnect.any (fun a => a.isCall "removeRemotePort") &&
     Scipipe.OutPort_Disconnect.any (fun a => a.kind == .ifB_ && a.name == "len(pt.RemotePorts) == 0") &&
     Scipipe.OutPort_Disconnect.any (fun a => a.isCall "SetReady" && a.args == ["false"]) &&
     Scipipe.OutParamPort_Disconnect.any (fun a => a.kind == .ifB_ && a.name == "len(pop.RemotePorts) == 0") &&
     Scipipe.OutParamPort_Disconnect.any (fun a => a.isCall "SetReady" && a.args == ["false"])) = true := by decide

/-- `BaseProcess.Ready` looks at every in-port, out-port and both kinds of parameter ports -/
theorem generated_ready_shape :
    (let l := Scipipe.BaseProcess_Ready
     l.any (fun a => a.kind == .rangeB_ && a.name == "inPorts") && l.any (fun a => a.kind == .rangeB_ && a.name == "outPorts") &&
     l.any (fun a => a.kind == .rangeB_ && a.name == "inParamPorts") && l.any (fun a => a.kind == .rangeB_ && a.name == "outParamPorts") &&
     count (fun a => a.kind == .break_) l == 0) = true := by decide

theorem c16_on_source (wf : Wf) (hac : acyclic wf) (ts : List Nat) (hts : ∀ t ∈ ts, t ≤ wf.n) :
    ∃ rs, runSet runSem wf (some ts) = some rs ∧ rs.Nodup ∧ ∀ q, q ∈ rs ↔ q ∈ ts ∨ ∃ t ∈ ts, Reach wf q t :=
  c16_runset_is_closure runSem generated_run_sem_good.1 generated_run_sem_good.2.2.2.2.2.2.1 generated_run_sem_good.2.2.2.2.2.2.2 wf hac ts hts




















-- BEGIN PINS (written by bin/mkpins; do not edit by hand)
/-- the Go functions this property's model and obligations were written against have exactly the
pinned skeletons (SHA-256 prefix of the atom list) -/
theorem pinned_skeletons_c16 :
    pinsOk
    [("Scipipe.#decls", "08e57e98702ecd70"),
     ("Scipipe.BaseProcess_DeleteInParamPort", "2d3e0aee982e111c"),
     ("Scipipe.BaseProcess_DeleteInPort", "307bc0f4dc52af7c"),
     ("Scipipe.BaseProcess_DeleteOutParamPort", "c10e7aa0567cbb4f"),
     ("Scipipe.BaseProcess_DeleteOutPort", "6aaa448dbdf404df"),
     ("Scipipe.BaseProcess_InParamPort", "762e516a21734441"),
     ("Scipipe.BaseProcess_InParamPorts", "8d8b15053d2db87f"),
     ("Scipipe.BaseProcess_InPort", "c48f106edaf85c15"),
     ("Scipipe.BaseProcess_InPorts", "133f57ebe0b686e2"),
     ("Scipipe.BaseProcess_InitInParamPort", "95bcc8146185d37d"),
     ("Scipipe.BaseProcess_InitInPort", "9316d3eb7fe6dfdf"),
     ("Scipipe.BaseProcess_InitOutParamPort", "014c85d604f145e4"),
     ("Scipipe.BaseProcess_InitOutPort", "36e733e6aa5f2644"),
     ("Scipipe.BaseProcess_OutParamPort", "63c94d8619dd6290"),
     ("Scipipe.BaseProcess_OutParamPorts", "7dc497a7f8b09750"),
     ("Scipipe.BaseProcess_OutPort", "c8e19a354c1d12ce"),
     ("Scipipe.BaseProcess_OutPorts", "c28508c01ef2c5b0"),
     ("Scipipe.BaseProcess_Ready", "71e6e586b2c2ee4c"),
     ("Scipipe.InParamPort_AddRemotePort", "3305ddf163d24713"),
     ("Scipipe.InParamPort_From", "91dcfa2a5059be8c"),
     ("Scipipe.InParamPort_FromStr", "82f932a5d19fe28f"),
     ("Scipipe.InParamPort_Process", "9128e2db1c92bb3d"),
     ("Scipipe.InParamPort_Ready", "338b778c4d30bafe"),
     ("Scipipe.InParamPort_SetReady", "1d81cf7a998ea142"),
     ("Scipipe.InPort_AddRemotePort", "2b23c2eefc8a18f5"),
     ("Scipipe.InPort_Disconnect", "2d058fead9c77bdd"),
     ("Scipipe.InPort_From", "39357be56d46a631"),
     ("Scipipe.InPort_Process", "5542a8a79e33c127"),
     ("Scipipe.InPort_Ready", "e7c4d0f1d8ce491c"),
     ("Scipipe.InPort_SetProcess", "f6f6fdb502d7548a"),
     ("Scipipe.InPort_SetReady", "28ab5e17a572a39d"),
     ("Scipipe.NewBaseProcess", "44bcb5795d2c0c17"),
     ("Scipipe.NewProc", "87c3cac25a30f9dc"),
     ("Scipipe.NewSink", "a492528b88e6e985"),
     ("Scipipe.NewWorkflowCustomLogFile", "973414122f728bb6"),
     ("Scipipe.OutParamPort_AddRemotePort", "d1ae040a8ec1308b"),
     ("Scipipe.OutParamPort_Disconnect", "1a71a40de11b44f8"),
     ("Scipipe.OutParamPort_Process", "b038149df3b6386e"),
     ("Scipipe.OutParamPort_Ready", "4e1487fcb30ac148"),
     ("Scipipe.OutParamPort_SetReady", "ac7757c9aa44795d"),
     ("Scipipe.OutParamPort_To", "62d0c49416911f20"),
     ("Scipipe.OutParamPort_removeRemotePort", "c4aa2de45b72f662"),
     ("Scipipe.OutPort_AddRemotePort", "711a5e501451ebce"),
     ("Scipipe.OutPort_Disconnect", "2d058fead9c77bdd"),
     ("Scipipe.OutPort_Process", "5542a8a79e33c127"),
     ("Scipipe.OutPort_Ready", "e7c4d0f1d8ce491c"),
     ("Scipipe.OutPort_SetProcess", "f6f6fdb502d7548a"),
     ("Scipipe.OutPort_SetReady", "28ab5e17a572a39d"),
     ("Scipipe.OutPort_To", "39357be56d46a631"),
     ("Scipipe.Process_In", "5c55db4a17c5e657"),
     ("Scipipe.Process_InParam", "c8e48924f704b354"),
     ("Scipipe.Process_Out", "a8336ddcad83e773"),
     ("Scipipe.Process_OutParam", "c9bda6ebf69a5f59"),
     ("Scipipe.Sink_From", "c72c1df4af5c0d68"),
     ("Scipipe.Sink_FromParam", "be5cd0eedafe3561"),
     ("Scipipe.Workflow_AddProc", "bc7195e782cf60e1"),
     ("Scipipe.Workflow_AddProcs", "dfa1b13bda2696c6"),
     ("Scipipe.Workflow_Name", "acadd928dcada2d0"),
     ("Scipipe.Workflow_NewProc", "0c40600b4fc86df2"),
     ("Scipipe.Workflow_Proc", "d0b2b26039d5b3fe"),
     ("Scipipe.Workflow_Procs", "3ea5684b3662347e"),
     ("Scipipe.Workflow_Run", "7a0a30673bb14a0e"),
     ("Scipipe.Workflow_RunTo", "7a0a61bbd770cc4c"),
     ("Scipipe.Workflow_RunToProcs", "397593629fe3c425"),
     ("Scipipe.Workflow_RunToRegex", "bee9945ee58084e1"),
     ("Scipipe.Workflow_SetSink", "7da5ff0b1e07295f"),
     ("Scipipe.Workflow_Sink", "a9fd1dd78a9338c6"),
     ("Scipipe.Workflow_readyToRun", "378c8cdc8eb779a8"),
     ("Scipipe.Workflow_reconnectDeadEndConnections", "9ed90a908028bbfc"),
     ("Scipipe.Workflow_runProcs", "62dfa98c32085220"),
     ("Scipipe.mergeWFMaps", "c658dad781cfdc20"),
     ("Scipipe.upstreamProcsForProc", "f9ed2dcd363d8677")] = true := by decide
-- END PINS

end SciVerif.Tie
#print axioms SciVerif.Tie.pinned_skeletons_c16
#print axioms SciVerif.Tie.generated_run_sem_good
#print axioms SciVerif.Tie.generated_reconnect_shape
#print axioms SciVerif.Tie.generated_reconnect_loop
#print axioms SciVerif.Tie.generated_ready_shape
#print axioms SciVerif.Tie.c16_on_source
