import SciVerif.Tie.RunSem
import SciVerif.Props.C16
/-! Tie A obligations for C16 on the current source. -/
namespace SciVerif.Tie
open SciVerif.Generated SciVerif.Graph

theorem generated_run_sem_good : good runSem := by decide

/-- `reconnectDeadEndConnections` disconnects remotes outside the run set and reconnects emptied
out-ports (file and parameter) to the sink; `RunTo*` all go through `RunToProcs` -/
theorem generated_reconnect_shape :
    (let l := Scipipe.Workflow_reconnectDeadEndConnections
     count (fun a => a.isCall "Disconnect") l == 4 &&
     l.any (fun a => a.isCall "From" && a.recv == "wf.sink" && a.args == ["opt"]) &&
     l.any (fun a => a.isCall "FromParam" && a.recv == "wf.sink" && a.args == ["pop"]) &&
     before l (fun a => a.kind == .ifB_ && a.name == "!opt.Ready()") (fun a => a.isCall "From" && a.recv == "wf.sink") &&
     Scipipe.Workflow_RunTo.any (·.isCall "RunToProcs") && Scipipe.Workflow_RunToRegex.any (·.isCall "RunToProcs") &&
     Scipipe.Workflow_RunToProcs.any (fun a => a.isCall "upstreamProcsForProc" && a.args == ["finalProc"]) &&
     Scipipe.Workflow_RunToProcs.any (fun a => a.kind == .assign_ && a.name == "procsToRun[finalProc.Name()]" && a.args == ["finalProc"]) &&
     Scipipe.Workflow_RunToProcs.any (fun a => a.isCall "runProcs" && a.args == ["procsToRun"]) &&
     Scipipe.Workflow_Run.any (fun a => a.isCall "runProcs" && a.args == ["wf.procs"])) = true := by decide

/-- `BaseProcess.Ready` looks at every in-port, out-port and both kinds of parameter ports -/
theorem generated_ready_shape :
    (let l := Scipipe.BaseProcess_Ready
     l.any (fun a => a.kind == .rangeB_ && a.name == "inPorts") && l.any (fun a => a.kind == .rangeB_ && a.name == "outPorts") &&
     l.any (fun a => a.kind == .rangeB_ && a.name == "inParamPorts") && l.any (fun a => a.kind == .rangeB_ && a.name == "outParamPorts") &&
     count (fun a => a.kind == .break_) l == 0) = true := by decide

theorem c16_on_source (wf : Wf) (hac : acyclic wf) (ts : List Nat) (hts : ∀ t ∈ ts, t ≤ wf.n) :
    ∃ rs, runSet runSem wf (some ts) = some rs ∧ rs.Nodup ∧ ∀ q, q ∈ rs ↔ q ∈ ts ∨ ∃ t ∈ ts, Reach wf q t :=
  c16_runset_is_closure runSem generated_run_sem_good.1 generated_run_sem_good.2.2.2.2.2.2.1 generated_run_sem_good.2.2.2.2.2.2.2 wf hac ts hts

end SciVerif.Tie
#print axioms SciVerif.Tie.generated_run_sem_good
#print axioms SciVerif.Tie.generated_reconnect_shape
#print axioms SciVerif.Tie.generated_ready_shape
#print axioms SciVerif.Tie.c16_on_source
