import SciVerif.Tie.RunSem
import SciVerif.Props.C16
import SciVerif.Tie.Pins
/-! Tie A obligations for C16 on the current source. -/
namespace SciVerif.Tie
-- functions the model relies on without an obligation of its own naming them (pinned by bin/mkpins):
-- PIN-ALSO: Scipipe.InPort_Ready Scipipe.OutPort_Ready Scipipe.InParamPort_Ready Scipipe.OutParamPort_Ready Scipipe.InPort_Disconnect Scipipe.OutPort_Disconnect Scipipe.OutParamPort_Disconnect Scipipe.InPort_SetReady Scipipe.OutPort_SetReady Scipipe.InParamPort_SetReady Scipipe.OutParamPort_SetReady Scipipe.Sink_From Scipipe.Sink_FromParam Scipipe.Workflow_AddProc Scipipe.Workflow_Proc Scipipe.InParamPort_FromStr
open SciVerif.Generated SciVerif.Graph

theorem generated_run_sem_good : good runSem := by decide

/-- `reconnectDeadEndConnections` disconnects remotes outside the run set and reconnects emptied
out-ports (file and parameter) to the sink; `RunTo*` all go through `RunToProcs` -/
theorem generated_reconnect_shape :
    (let l := Scipipe.Workflow_reconnectDeadEndConnections
     count (fun a => a.isCall "Disconnect") l == 4 &&
     l.any (fun a => a.isCall "From" && a.recv == "wf.sink" && a.args == ["opt"]) &&
     l.any (fun a => a.isCall "FromParam" && a.recv == "wf.sink" && a.args == ["pop"]) &&
     before l (fun a => a.kind == .ifB_ && a.name == "!opt.Ready()") (fun a => a.isCall "From" && a.recv == "wf.sink") &&
     Scipipe.Workflow_RunTo.any (·.isCall "RunToProcs") && Scipipe.Workflow_RunToRegex.any (·.isCall "RunToProcs") &&
     Scipipe.Workflow_RunToProcs.any (fun a => a.isCall "upstreamProcsForProc" && a.args == ["finalProc"]) &&
     Scipipe.Workflow_RunToProcs.any (fun a => a.kind == .assign_ && a.name == "procsToRun[finalProc.Name()]" && a.args == ["finalProc"]) &&
     Scipipe.Workflow_RunToProcs.any (fun a => a.isCall "runProcs" && a.args == ["procsToRun"]) &&
     Scipipe.Workflow_Run.any (fun a => a.isCall "runProcs" && a.args == ["wf.procs"])) = true := by decide

/-- `BaseProcess.Ready` looks at every in-port, out-port and both kinds of parameter ports -/
theorem generated_ready_shape :
    (let l := Scipipe.BaseProcess_Ready
     l.any (fun a => a.kind == .rangeB_ && a.name == "inPorts") && l.any (fun a => a.kind == .rangeB_ && a.name == "outPorts") &&
     l.any (fun a => a.kind == .rangeB_ && a.name == "inParamPorts") && l.any (fun a => a.kind == .rangeB_ && a.name == "outParamPorts") &&
     count (fun a => a.kind == .break_) l == 0) = true := by decide

theorem c16_on_source (wf : Wf) (hac : acyclic wf) (ts : List Nat) (hts : ∀ t ∈ ts, t ≤ wf.n) :
    ∃ rs, runSet runSem wf (some ts) = some rs ∧ rs.Nodup ∧ ∀ q, q ∈ rs ↔ q ∈ ts ∨ ∃ t ∈ ts, Reach wf q t :=
  c16_runset_is_closure runSem generated_run_sem_good.1 generated_run_sem_good.2.2.2.2.2.2.1 generated_run_sem_good.2.2.2.2.2.2.2 wf hac ts hts






-- BEGIN PINS (written by bin/mkpins; do not edit by hand)
/-- the Go functions this property's model and obligations were written against have exactly the
pinned skeletons (SHA-256 prefix of the atom list) -/
theorem pinned_skeletons_c16 :
    pinsOk
    [("Scipipe.#decls", "7633eb8a74616d59"),
     ("Scipipe.BaseProcess_Ready", "71e6e586b2c2ee4c"),
     ("Scipipe.InParamPort_FromStr", "82f932a5d19fe28f"),
     ("Scipipe.InParamPort_Ready", "338b778c4d30bafe"),
     ("Scipipe.InParamPort_SetReady", "1d81cf7a998ea142"),
     ("Scipipe.InPort_Disconnect", "2d058fead9c77bdd"),
     ("Scipipe.InPort_Ready", "e7c4d0f1d8ce491c"),
     ("Scipipe.InPort_SetReady", "28ab5e17a572a39d"),
     ("Scipipe.OutParamPort_Disconnect", "1a71a40de11b44f8"),
     ("Scipipe.OutParamPort_Ready", "4e1487fcb30ac148"),
     ("Scipipe.OutParamPort_SetReady", "ac7757c9aa44795d"),
     ("Scipipe.OutPort_Disconnect", "2d058fead9c77bdd"),
     ("Scipipe.OutPort_Ready", "e7c4d0f1d8ce491c"),
     ("Scipipe.OutPort_SetReady", "28ab5e17a572a39d"),
     ("Scipipe.Sink_From", "c72c1df4af5c0d68"),
     ("Scipipe.Sink_FromParam", "be5cd0eedafe3561"),
     ("Scipipe.Workflow_AddProc", "bc7195e782cf60e1"),
     ("Scipipe.Workflow_Proc", "d0b2b26039d5b3fe"),
     ("Scipipe.Workflow_Run", "7a0a30673bb14a0e"),
     ("Scipipe.Workflow_RunTo", "7a0a61bbd770cc4c"),
     ("Scipipe.Workflow_RunToProcs", "397593629fe3c425"),
     ("Scipipe.Workflow_RunToRegex", "bee9945ee58084e1"),
     ("Scipipe.Workflow_readyToRun", "378c8cdc8eb779a8"),
     ("Scipipe.Workflow_reconnectDeadEndConnections", "9ed90a908028bbfc"),
     ("Scipipe.Workflow_runProcs", "e319d71e11b8d924"),
     ("Scipipe.mergeWFMaps", "c658dad781cfdc20"),
     ("Scipipe.upstreamProcsForProc", "f9ed2dcd363d8677")] = true := by decide
-- END PINS

end SciVerif.Tie
#print axioms SciVerif.Tie.pinned_skeletons_c16
#print axioms SciVerif.Tie.generated_run_sem_good
#print axioms SciVerif.Tie.generated_reconnect_shape
#print axioms SciVerif.Tie.generated_ready_shape
#print axioms SciVerif.Tie.c16_on_source
