import SciVerif.Tie.Consts
import SciVerif.Props.C14
import SciVerif.Tie.Pins
/-! Tie A obligations for C14 on the current source. -/
-- PIN-ALSO: Scipipe.BaseProcess_Name
namespace SciVerif.Tie
open SciVerif.Generated

theorem generated_consts_c14 : constsMatch = true := by decide

/-- `TempDir` hashes name, sorted in-paths, sorted sub-stream members, sorted params, sorted tags,
folds at 255-40-1, joins with "", applies SHA-1 and hex, and uses no clock / random source -/
theorem generated_tempdir_shape :
    (let l := Scipipe.Task_TempDir
     l.any (fun a => a.isCall "sanitizePathFragment" && a.args == ["t.Name"]) &&
     -- the hash starts from the raw process name (the sanitised one only decorates the prefix)
     l.any (fun a => a.kind == .assign_ && a.name == "hashPcs" && a.recv == ":=" && a.args == ["[]string{t.Name}"]) &&
     l.any (fun a => a.kind == .assign_ && a.name == "pathPrefix" && a.recv == ":=" && a.args == ["tempDirPrefix + \".\" + sanitizePathFragment(t.Name)"]) &&
     l.any (fun a => a.isCall "sortedFileIPMapKeys" && a.args == ["t.InIPs"]) &&
     l.any (fun a => a.isCall "sortedFileIPSliceMapKeys" && a.args == ["t.subStreamIPs"]) &&
     l.any (fun a => a.isCall "sortedStringMapKeys" && a.args == ["t.Params"]) &&
     l.any (fun a => a.isCall "sortedStringMapKeys" && a.args == ["t.Tags"]) &&
     count (·.isCall "splitAllPaths") l == 2 &&
     -- the carrier IP of a joined port is skipped, before its path would be hashed
     before l (fun a => a.kind == .ifB_ && a.name == "ok && ptInfo.join") (·.kind == .continue_) &&
     before l (·.kind == .continue_) (fun a => a.isCall "splitAllPaths" && a.args == ["t.InIP(ipName).Path()"]) &&
     l.any (fun a => a.kind == .assign_ && a.name == "ptInfo,ok" && a.args == ["t.portInfos[ipName]"]) &&
     l.any (fun a => a.isCall "append" && a.args == ["hashPcs", "paramName + \"_\" + t.Param(paramName)"]) &&
     l.any (fun a => a.isCall "append" && a.args == ["hashPcs", "tagName + \"_\" + t.Tag(tagName)"]) &&
     l.any (fun a => a.kind == .ifB_ && a.name == "len(pathPrefix) > (255 - 40 - 1)") &&
     l.any (fun a => a.isCall "Join" && a.args == ["hashPcs", "\"\""]) &&
     l.any (fun a => a.isCall "Sum" && a.recv == "sha1") &&
     l.any (fun a => a.isCall "EncodeToString" && a.recv == "hex") &&
     count (fun a => a.isCall "Now" || a.isCall "randSeqLC" || a.isCall "Intn" || a.isCall "Getpid" || a.isCall "ID") l == 0 &&
     Scipipe.sortedStringMapKeys.any (·.isCall "Strings") && Scipipe.sortedFileIPMapKeys.any (·.isCall "Strings") &&
     Scipipe.sortedFileIPSliceMapKeys.any (·.isCall "Strings")) = true := by decide

/-- what the source of `splitAllPaths` says: the stop condition of its loop (`true` = the former
`dir != file`), and that the loop prepends `file` and moves to `Dir(dir)`, `Base(dir)` -/
def splitStopEq (l : List Atom) : Option Bool :=
  match l.find? (·.kind == .forB_) with
  | some a => if a.name == "dir != file" then some true
              else if a.name == "file != \".\" && file != \"/\"" then some false else none
  | none => none

theorem generated_split_walk :
    (let l := Scipipe.splitAllPaths
     splitStopEq l == some false &&
     l.any (fun a => a.kind == .assign_ && a.name == "dir,file" && a.recv == ":=" && a.args == ["filepath.Dir(path)", "filepath.Base(path)"]) &&
     l.any (fun a => a.kind == .assign_ && a.name == "parts" && a.args == ["append([]string{file}, parts...)"]) &&
     l.any (fun a => a.kind == .assign_ && a.name == "dir,file" && a.recv == "=" && a.args == ["filepath.Dir(dir)", "filepath.Base(dir)"]) &&
     l.any (fun a => a.kind == .ret_ && a.args == ["parts"]) &&
     count (fun a => a.kind == .ifB_ || a.kind == .continue_ || a.kind == .break_) l == 0) = true := by decide

theorem c14_split_on_source (abs : Bool) (segs : List Str.S) :
    Str.splitWalk ((splitStopEq Scipipe.splitAllPaths).getD true) abs segs.reverse [] = segs := by
  have h : splitStopEq Scipipe.splitAllPaths = some false := by decide
  rw [h]; exact Fmt.c14_split_returns_all_segments abs segs




















-- BEGIN PINS (written by bin/mkpins; do not edit by hand)
/-- the Go functions this property's model and obligations were written against have exactly the
pinned skeletons (SHA-256 prefix of the atom list) -/
theorem pinned_skeletons_c14 :
    pinsOk
    [("Scipipe.#decls", "08e57e98702ecd70"),
     ("Scipipe.BaseProcess_Name", "859baffae60539bd"),
     ("Scipipe.Task_TempDir", "6d565a2ddd3d0eb2"),
     ("Scipipe.applyPathModifiers", "8f319e3baa487b4a"),
     ("Scipipe.getShellCommandPlaceHolderRegex", "2974b35d7f6e39cc"),
     ("Scipipe.pathIsValid", "769a2bbc57bb6972"),
     ("Scipipe.sanitizePathFragment", "eb309140aa9dd69d"),
     ("Scipipe.sortedFileIPMapKeys", "f65d6e00fb717f3e"),
     ("Scipipe.sortedFileIPSliceMapKeys", "f65d6e00fb717f3e"),
     ("Scipipe.sortedStringMapKeys", "f65d6e00fb717f3e"),
     ("Scipipe.splitAllPaths", "f0f86c4e61d62025")] = true := by decide
-- END PINS

end SciVerif.Tie
#print axioms SciVerif.Tie.pinned_skeletons_c14
#print axioms SciVerif.Tie.generated_split_walk
#print axioms SciVerif.Tie.c14_split_on_source
#print axioms SciVerif.Tie.generated_consts_c14
#print axioms SciVerif.Tie.generated_tempdir_shape
