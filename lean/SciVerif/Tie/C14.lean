import SciVerif.Tie.Consts
import SciVerif.Props.C14
/-! Tie A obligations for C14 on the current source. -/
namespace SciVerif.Tie
open SciVerif.Generated

theorem generated_consts_c14 : constsMatch = true := by decide

/-- `TempDir` hashes name, sorted in-paths, sorted sub-stream members, sorted params, sorted tags,
folds at 255-40-1, joins with "", applies SHA-1 and hex, and uses no clock / random source -/
theorem generated_tempdir_shape :
    (let l := Scipipe.Task_TempDir
     l.any (fun a => a.isCall "sanitizePathFragment" && a.args == ["t.Name"]) &&
     l.any (fun a => a.isCall "sortedFileIPMapKeys" && a.args == ["t.InIPs"]) &&
     l.any (fun a => a.isCall "sortedFileIPSliceMapKeys" && a.args == ["t.subStreamIPs"]) &&
     l.any (fun a => a.isCall "sortedStringMapKeys" && a.args == ["t.Params"]) &&
     l.any (fun a => a.isCall "sortedStringMapKeys" && a.args == ["t.Tags"]) &&
     count (·.isCall "splitAllPaths") l == 2 &&
     -- the carrier IP of a joined port is skipped, before its path would be hashed
     before l (fun a => a.kind == .ifB_ && a.name == "ok && ptInfo.join") (·.kind == .continue_) &&
     before l (·.kind == .continue_) (fun a => a.isCall "splitAllPaths" && a.args == ["t.InIP(ipName).Path()"]) &&
     l.any (fun a => a.kind == .assign_ && a.name == "ptInfo,ok" && a.args == ["t.portInfos[ipName]"]) &&
     l.any (fun a => a.isCall "append" && a.args == ["hashPcs", "paramName + \"_\" + t.Param(paramName)"]) &&
     l.any (fun a => a.isCall "append" && a.args == ["hashPcs", "tagName + \"_\" + t.Tag(tagName)"]) &&
     l.any (fun a => a.kind == .ifB_ && a.name == "len(pathPrefix) > (255 - 40 - 1)") &&
     l.any (fun a => a.isCall "Join" && a.args == ["hashPcs", "\"\""]) &&
     l.any (fun a => a.isCall "Sum" && a.recv == "sha1") &&
     l.any (fun a => a.isCall "EncodeToString" && a.recv == "hex") &&
     count (fun a => a.isCall "Now" || a.isCall "randSeqLC" || a.isCall "Intn" || a.isCall "Getpid" || a.isCall "ID") l == 0 &&
     Scipipe.sortedStringMapKeys.any (·.isCall "Strings") && Scipipe.sortedFileIPMapKeys.any (·.isCall "Strings") &&
     Scipipe.sortedFileIPSliceMapKeys.any (·.isCall "Strings")) = true := by decide

end SciVerif.Tie
#print axioms SciVerif.Tie.generated_consts_c14
#print axioms SciVerif.Tie.generated_tempdir_shape
