import SciVerif.Generated.Hashes
/-! Skeleton pins (Tie A): the hand-written models and the interpretation functions of `Tie/` were written
against exactly these function bodies. `bin/mkpins` records, per property, the hash of the skeleton of
every Go function its obligations look at; a changed hash means the code that the model was validated
against has changed, so the obligation no longer checks (the check then looks for a failing input). -/
namespace SciVerif.Tie

def pinsOk (expected : List (String × String)) : Bool :=
  expected.all fun e => SciVerif.Generated.hashes.lookup e.1 == some e.2

/-- the functions whose skeleton differs from the pinned one (for reporting) -/
def pinsChanged (expected : List (String × String)) : List String :=
  (expected.filter fun e => SciVerif.Generated.hashes.lookup e.1 != some e.2).map (·.1)

end SciVerif.Tie
