import SciVerif.Tie.ProcSem
import SciVerif.Props.C08
import SciVerif.Tie.Pins
/-! Tie A obligations for C08 on the current source. -/
namespace SciVerif.Tie
-- PIN-NOT: Scipipe.FinalizePaths Scipipe.Task_writeAuditLogs
-- functions the model relies on without an obligation of its own naming them (pinned by bin/mkpins):
-- PIN-ALSO: Scipipe.InPort_Send Scipipe.OutPort_Send Scipipe.InPort_CloseConnection Scipipe.Process_createTasks Scipipe.InPort_Recv
open SciVerif.Proc

theorem generated_proc_sem_good : good procSem := by decide

/-- the Done channel is unbuffered and signalled after everything else in `Execute` -/
theorem generated_done_unbuffered :
    (Generated.Scipipe.NewTask.any (fun a => a.isCall "make" && a.args == ["chan int"]) &&
     (Generated.Scipipe.Task_Execute.getLast?.map fun a => a.isSend "Done") == some true) = true := by decide

theorem c08_on_source (ls : List Label) (s : PSt) (h : run procSem init ls = some s) :
    s.forwarded <+: s.accepted := c08_forwarded_is_prefix procSem generated_proc_sem_good ls s h




















-- BEGIN PINS (written by bin/mkpins; do not edit by hand)
/-- the Go functions this property's model and obligations were written against have exactly the
pinned skeletons (SHA-256 prefix of the atom list) -/
theorem pinned_skeletons_c08 :
    pinsOk
    [("Scipipe.#decls", "08e57e98702ecd70"),
     ("Scipipe.InPort_CloseConnection", "19d2a9417eaebec1"),
     ("Scipipe.InPort_Recv", "e48def2c3f368dd0"),
     ("Scipipe.InPort_Send", "62cb51bf3ab53084"),
     ("Scipipe.NewTask", "95298f03c320cb96"),
     ("Scipipe.OutPort_Send", "06287c7bef096378"),
     ("Scipipe.Process_Run", "40f832903317f455"),
     ("Scipipe.Process_createTasks", "8c856d9ef4492f5d"),
     ("Scipipe.Task_Execute", "40fd1fec0c69deb2"),
     ("Scipipe.taskQueue_NextTaskDone", "749f6263d8a0c13f")] = true := by decide
-- END PINS

end SciVerif.Tie
#print axioms SciVerif.Tie.pinned_skeletons_c08
#print axioms SciVerif.Tie.generated_proc_sem_good
#print axioms SciVerif.Tie.generated_done_unbuffered
#print axioms SciVerif.Tie.c08_on_source
