import SciVerif.Tie.ProcSem
import SciVerif.Props.C08
/-! Tie A obligations for C08 on the current source. -/
namespace SciVerif.Tie
open SciVerif.Proc

theorem generated_proc_sem_good : good procSem := by decide

/-- the Done channel is unbuffered and signalled after everything else in `Execute` -/
theorem generated_done_unbuffered :
    (Generated.Scipipe.NewTask.any (fun a => a.isCall "make" && a.args == ["chan int"]) &&
     (Generated.Scipipe.Task_Execute.getLast?.map fun a => a.isSend "Done") == some true) = true := by decide

theorem c08_on_source (ls : List Label) (s : PSt) (h : run procSem init ls = some s) :
    s.forwarded <+: s.accepted := c08_forwarded_is_prefix procSem generated_proc_sem_good ls s h

end SciVerif.Tie
#print axioms SciVerif.Tie.generated_proc_sem_good
#print axioms SciVerif.Tie.generated_done_unbuffered
#print axioms SciVerif.Tie.c08_on_source
