import SciVerif.Tie.Atom
import SciVerif.Generated.Skel
import SciVerif.Model.Proc
/-! Tie A (definitions): the semantics record of `Process.Run`'s main loop. -/
namespace SciVerif.Tie
open SciVerif.Generated SciVerif.Proc

/-- atoms of the select case whose comm clause is `name` -/
def selectCase (l : List Atom) (name : String) : List Atom :=
  go l false 0
where
  go : List Atom → Bool → Nat → List Atom
    | [], _, _ => []
    | a :: as, inside, d =>
      if !inside then
        (if a.kind == .caseB_ && a.name == name then go as true 0 else go as false 0)
      else if a.kind == .caseB_ then a :: go as true (d + 1)
      else if a.kind == .endB_ && a.name == "case" then (if d == 0 then [] else a :: go as true (d - 1))
      else a :: go as true d

def procSem : ProcSem :=
  let run := Scipipe.Process_Run
  let doneCase := selectCase run "<-startedTasks.NextTaskDone()"
  let taskCase := selectCase run "t, ok := <-tasks"
  { appendTail := taskCase.any (fun a => a.kind == .assign_ && a.name == "startedTasks" && a.args == ["append(startedTasks, t)"]) &&
                  count (fun a => a.kind == .assign_ && (a.name == "startedTasks" || a.name == "nextTask,startedTasks")) run == 3,
    waitHead := Scipipe.taskQueue_NextTaskDone ==
        [⟨.call_, "len", "", ["tq"]⟩, ⟨.ifB_, "len(tq) > 0", "", []⟩, ⟨.ret_, "", "", ["tq[0].Done"]⟩, ⟨.endB_, "if", "", []⟩, ⟨.ret_, "", "", ["nil"]⟩] &&
      doneCase.any (fun a => a.kind == .recv_ && a.name == "NextTaskDone()" && a.recv == "startedTasks"),
    dequeueHead := doneCase.any (fun a => a.kind == .assign_ && a.name == "nextTask,startedTasks" && a.args == ["startedTasks[0]", "startedTasks[1:]"]),
    forwardOnDequeueOnly :=
      -- the non-streaming send sits in the Done case, is about `nextTask`, and task goroutines never send on ports
      before doneCase (fun a => a.kind == .rangeB_ && a.name == "OutIPs" && a.recv == "nextTask") (fun a => a.kind == .ifB_ && a.name == "!oip.doStream") &&
      before doneCase (fun a => a.kind == .ifB_ && a.name == "!oip.doStream") (fun a => a.isCall "Send" && a.args == ["oip"]) &&
      (taskCase.filter (fun a => a.isCall "Send")).length == 1 &&
      before taskCase (fun a => a.kind == .ifB_ && a.name == "oip.doStream") (·.isCall "Send") &&
      count (·.isCall "Send") Scipipe.Task_Execute == 0 && count (·.isCall "Send") Scipipe.FinalizePaths == 0 &&
      count (·.isCall "Send") Scipipe.Task_writeAuditLogs == 0 &&
      taskCase.any (fun a => a.kind == .go_ && a.name == "Execute" && a.recv == "t") }

end SciVerif.Tie
