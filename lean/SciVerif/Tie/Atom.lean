/-! Atoms of function skeletons emitted by `goextract` (Tie A). -/
namespace SciVerif.Tie

inductive Kind where
  | call_ | send_ | recv_ | assign_ | go_ | goB_ | defer_ | deferB_ | funcB_ | ret_
  | break_ | continue_ | goto_ | fallthrough_ | label_
  | ifB_ | elseB_ | forB_ | rangeB_ | selectB_ | switchB_ | caseB_ | endB_ | other_
deriving DecidableEq, Repr

structure Atom where
  kind : Kind
  name : String
  recv : String
  args : List String
deriving DecidableEq, Repr

/-- one syntactic access to a watched struct field (Tie A, C12) -/
structure Acc where
  fn    : String        -- `<Package>.<Type>.<method>` or `<Package>.<func>`
  field : String
  recv  : String        -- the expression whose field is accessed
  write : Bool
  locks : List String   -- mutex expressions syntactically held
deriving DecidableEq, Repr

/-- is this atom a call of a function / method named `f` (whatever the receiver)? -/
def Atom.isCall (a : Atom) (f : String) : Bool := a.kind == .call_ && a.name == f
def Atom.isSend (a : Atom) (ch : String) : Bool := a.kind == .send_ && a.name == ch
def Atom.isRecv (a : Atom) (ch : String) : Bool := a.kind == .recv_ && a.name == ch

/-- index of the first atom satisfying `p` -/
def findIdx? (p : Atom → Bool) : List Atom → Option Nat
  | [] => none
  | a :: as => if p a then some 0 else (findIdx? p as).map (· + 1)

def idxCall (l : List Atom) (f : String) : Option Nat := findIdx? (·.isCall f) l

/-- `a` occurs, `b` occurs, and the first `a` is before the first `b` -/
def before (l : List Atom) (p q : Atom → Bool) : Bool :=
  match findIdx? p l, findIdx? q l with
  | some i, some j => i < j
  | _, _ => false

def count (p : Atom → Bool) (l : List Atom) : Nat := (l.filter p).length

/-- remove the bodies of function literals (they run when the callee decides, e.g. `filepath.Walk`) -/
def dropFuncBodies : List Atom → Nat → List Atom
  | [], _ => []
  | a :: as, depth =>
    if a.kind == .funcB_ then dropFuncBodies as (depth + 1)
    else if a.kind == .endB_ && a.name == "func" then dropFuncBodies as (depth - 1)
    else if depth > 0 then dropFuncBodies as depth
    else a :: dropFuncBodies as depth

end SciVerif.Tie
