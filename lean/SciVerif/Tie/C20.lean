import SciVerif.Tie.Atom
import SciVerif.Generated.Skel
import SciVerif.Props.C20
import SciVerif.Tie.C20Sem
/-! Tie A for C20: which ordering algorithm `sortAuditInfosByStartTime` uses, and the shape of
`extractAuditInfosByID`. -/
namespace SciVerif.Tie
open SciVerif.Generated SciVerif.Report

theorem generated_sort_sem : sortSem = .sliceSort := by decide

/-- `extractAuditInfosByID`: own record stored under its ID, every upstream merged recursively -/
theorem generated_extract_shape :
    (let l := Cmd.extractAuditInfosByID
     l.any (fun a => a.kind == .assign_ && a.name == "auditInfosByID[auditInfo.ID]" && a.args == ["auditInfo"]) &&
     l.any (fun a => a.kind == .rangeB_ && a.name == "Upstream" && a.recv == "auditInfo") &&
     l.any (fun a => a.isCall "mergeStringAuditInfoMaps" && a.args == ["auditInfosByID", "extractAuditInfosByID(ai)"]) &&
     count (fun a => a.kind == .break_ || a.kind == .continue_) l == 0) = true := by decide

/-- C20 for the algorithm the source uses -/
theorem c20_on_source (t : AT) (rs : List Rec) (hperm : rs.Perm (vals (extract t))) :
    (listing sortSem rs).Perm (vals (extract t)) ∧ ((listing sortSem rs).map (·.id)).Nodup := by
  rw [generated_sort_sem]
  exact ⟨(c20_report_lists_every_task_once t rs hperm).1, (c20_report_lists_every_task_once t rs hperm).2.2⟩

end SciVerif.Tie
#print axioms SciVerif.Tie.generated_sort_sem
#print axioms SciVerif.Tie.generated_extract_shape
#print axioms SciVerif.Tie.c20_on_source
