import SciVerif.Tie.Atom
import SciVerif.Generated.Skel
import SciVerif.Props.C20
import SciVerif.Tie.C20Sem
import SciVerif.Tie.Pins
/-! Tie A for C20: which ordering algorithm `sortAuditInfosByStartTime` uses, and the shape of
`extractAuditInfosByID`. -/
namespace SciVerif.Tie
-- functions the model relies on without an obligation of its own naming them (pinned by bin/mkpins):
-- PIN-ALSO: Cmd.mergeStringAuditInfoMaps Cmd.auditInfoToHTML Cmd.auditInfoToBash Cmd.auditInfoToTeX Cmd.formatTaskHTML Cmd.parseArgsAudit2X Cmd.parseFlags Cmd.main
open SciVerif.Generated SciVerif.Report

theorem generated_sort_sem : sortSem = .sliceSort := by decide

/-- `extractAuditInfosByID`: own record stored under its ID, every upstream merged recursively -/
theorem generated_extract_shape :
    (let l := Cmd.extractAuditInfosByID
     l.any (fun a => a.kind == .assign_ && a.name == "auditInfosByID[auditInfo.ID]" && a.args == ["auditInfo"]) &&
     l.any (fun a => a.kind == .rangeB_ && a.name == "Upstream" && a.recv == "auditInfo") &&
     l.any (fun a => a.isCall "mergeStringAuditInfoMaps" && a.args == ["auditInfosByID", "extractAuditInfosByID(ai)"]) &&
     count (fun a => a.kind == .break_ || a.kind == .continue_) l == 0) = true := by decide

/-- C20 for the algorithm the source uses -/
theorem c20_on_source (t : AT) (rs : List Rec) (hperm : rs.Perm (vals (extract t))) :
    (listing sortSem rs).Perm (vals (extract t)) ∧ ((listing sortSem rs).map (·.id)).Nodup := by
  rw [generated_sort_sem]
  exact ⟨(c20_report_lists_every_task_once t rs hperm).1, (c20_report_lists_every_task_once t rs hperm).2.2⟩




















-- BEGIN PINS (written by bin/mkpins; do not edit by hand)
/-- the Go functions this property's model and obligations were written against have exactly the
pinned skeletons (SHA-256 prefix of the atom list) -/
theorem pinned_skeletons_c20 :
    pinsOk
    [("Cmd.#decls", "89450b1c59cda39b"),
     ("Cmd.auditInfoToBash", "f6e390e820bddca3"),
     ("Cmd.auditInfoToHTML", "c3cd59286ae045b7"),
     ("Cmd.auditInfoToTeX", "941e026968db81bd"),
     ("Cmd.extractAuditInfosByID", "fd28dc4ce98be517"),
     ("Cmd.formatTaskHTML", "9fb5b5a88d6120b2"),
     ("Cmd.main", "a8e0f10b19e7bfe1"),
     ("Cmd.mergeStringAuditInfoMaps", "d031cc7d0e121947"),
     ("Cmd.parseArgsAudit2X", "af1f62b9e216f030"),
     ("Cmd.parseFlags", "729e280c375698e8"),
     ("Cmd.sortAuditInfosByStartTime", "e0c98edf32a42d1b")] = true := by decide
-- END PINS

end SciVerif.Tie
#print axioms SciVerif.Tie.pinned_skeletons_c20
#print axioms SciVerif.Tie.generated_sort_sem
#print axioms SciVerif.Tie.generated_extract_shape
#print axioms SciVerif.Tie.c20_on_source
