import SciVerif.Tie.Task
import SciVerif.Props.C03
import SciVerif.Tie.Pins
/-! Tie A obligations for C03 on the current source. -/
namespace SciVerif.Tie
-- functions the model relies on without an obligation of its own naming them (pinned by bin/mkpins):
-- PIN-ALSO: Scipipe.NewTask Scipipe.NewFileIP Scipipe.FileIP_AuditInfo Scipipe.FileIP_SetAuditInfo Scipipe.Task_tempDirsExist Scipipe.Process_Run Scipipe.FileIP_FifoFileExists Scipipe.FileIP_CreateFifo Scipipe.Process_initDefaultPathFuncs
open SciVerif.TaskFS

theorem generated_wf_c03 : WF_C03 taskSem := by decide
theorem generated_wf_c01_for_c03 : WF_C01 taskSem := by decide
theorem generated_wf_c02_for_c03 : WF_C02 taskSem := by decide

/-- `Task.TempDir` uses no clock and no random source (the re-run looks for the same directory) -/
theorem generated_tempdir_deterministic :
    count (fun a => a.isCall "Now" || a.isCall "randSeqLC" || a.isCall "Intn" || a.isCall "Int" || a.isCall "Getpid" || a.isCall "TempFile")
      Generated.Scipipe.Task_TempDir = 0 := by decide

theorem c03_on_source (c : Cfg) (pre : Nat → Option File) (hist : List (Nat × Bool)) (n p : Nat) (f : File)
    (h : (stepN taskSem c n (runHistory taskSem c pre hist)).finalOut p = some f) (hfresh : f.fresh = true) :
    f.complete = true :=
  c03_any_history_safe taskSem generated_wf_c01_for_c03 generated_wf_c03 c pre hist n p f h hfresh

/-- convergence, instantiated with the semantics record of the current source -/
theorem c03_converges_on_source (c : Cfg) (hist : List (Nat × Bool)) (m : Nat) :
    let s := stepN taskSem c m (runHistory taskSem c (fun _ => none) hist)
    (anyFinalExists c s = true ∧
      (∀ p f, s.finalOut p = some f → f.fresh = true → f.complete = true) ∧
      (∀ n, (stepN taskSem c n (restart taskSem (cleanup s))).finalOut = s.finalOut ∧
            (stepN taskSem c n (restart taskSem (cleanup s))).executed = s.executed) ∧
      (stepN taskSem c (taskSem.ops.length + 1) (restart taskSem (cleanup s))).status = .done) ∨
    (anyFinalExists c s = false ∧
      ∀ n, R (stepN taskSem c n (restart taskSem (cleanup s))) (stepN taskSem c n (freshStart taskSem c s.finalOut))) :=
  c03_converges taskSem generated_wf_c01_for_c03 generated_wf_c02_for_c03 generated_wf_c03 c hist m


theorem generated_all_ops_known_c03 : taskSemKnown = true := by decide



















-- BEGIN PINS (written by bin/mkpins; do not edit by hand)
/-- the Go functions this property's model and obligations were written against have exactly the
pinned skeletons (SHA-256 prefix of the atom list) -/
theorem pinned_skeletons_c03 :
    pinsOk
    [("Scipipe.#decls", "08e57e98702ecd70"),
     ("Scipipe.FileIP_AuditInfo", "5adb309a1fd92bb2"),
     ("Scipipe.FileIP_CreateFifo", "f6360b33d779c2ee"),
     ("Scipipe.FileIP_FifoFileExists", "b822f2c3227ef952"),
     ("Scipipe.FileIP_SetAuditInfo", "9888139e5f6ebe46"),
     ("Scipipe.FinalizePaths", "291fc0cefa37cea9"),
     ("Scipipe.NewFileIP", "5736f17570081214"),
     ("Scipipe.NewTask", "95298f03c320cb96"),
     ("Scipipe.Process_Run", "40f832903317f455"),
     ("Scipipe.Process_initDefaultPathFuncs", "012072977ffdc36d"),
     ("Scipipe.Task_Execute", "40fd1fec0c69deb2"),
     ("Scipipe.Task_TempDir", "6d565a2ddd3d0eb2"),
     ("Scipipe.Task_anyOutputsExist", "0609a842b7aaf7a8"),
     ("Scipipe.Task_executeCommand", "98e77d849c0638cb"),
     ("Scipipe.Task_finalizePaths", "9cd0530d4e86fa92"),
     ("Scipipe.Task_formatCommand", "ccbe98735ce5c7d6"),
     ("Scipipe.Task_tempDirsExist", "be2c7ee34f64913e")] = true := by decide
-- END PINS

end SciVerif.Tie
#print axioms SciVerif.Tie.pinned_skeletons_c03
#print axioms SciVerif.Tie.generated_all_ops_known_c03
#print axioms SciVerif.Tie.c03_converges_on_source
#print axioms SciVerif.Tie.generated_wf_c03
#print axioms SciVerif.Tie.generated_wf_c01_for_c03
#print axioms SciVerif.Tie.generated_wf_c02_for_c03
#print axioms SciVerif.Tie.generated_tempdir_deterministic
#print axioms SciVerif.Tie.c03_on_source
