import SciVerif.Tie.Atom
import SciVerif.Generated.Skel
import SciVerif.Model.Graph
/-! Tie A (definitions): the start-up semantics record from `runProcs`, `readyToRun`,
`reconnectDeadEndConnections` and `upstreamProcsForProc`. -/
namespace SciVerif.Tie
open SciVerif.Generated SciVerif.Graph

def lastIdx? (p : Atom → Bool) (l : List Atom) : Option Nat :=
  (findIdx? p l.reverse).map fun i => l.length - 1 - i

/-- the condition of the innermost `if` that encloses the first atom satisfying `p` -/
def guardOf (p : Atom → Bool) (l : List Atom) : Option String :=
  go l []
where
  go : List Atom → List String → Option String
    | [], _ => none
    | a :: as, stack =>
      if p a then stack.head? else
      if a.kind == .ifB_ then go as (a.name :: stack)
      else if a.kind == .elseB_ then go as (("else:" ++ stack.headD "") :: stack.drop 1)
      else if a.kind == .endB_ && a.name == "if" then go as (stack.drop 1)
      else go as stack

/-- `mergeWFMaps(a, b)`: `for k, v := range b { a[k] = v }; return a`, and nothing else -/
def mergeInPlace : Bool :=
  let l := Scipipe.mergeWFMaps
  l.any (fun a => a.kind == .rangeB_ && a.name == "b") &&
  l.any (fun a => a.kind == .assign_ && a.name == "a[k]" && a.recv == "=" && a.args == ["v"]) &&
  l.any (fun a => a.kind == .ret_ && a.args == ["a"]) &&
  count (fun a => a.kind == .assign_) l == 1 && count (fun a => a.kind == .call_) l == 0

/-- the recursion result for `who` is merged into `procs` -/
def mergedCall (up : List Atom) (who : String) : Bool :=
  up.any (fun a => a.isCall "mergeWFMaps" && a.args == ["procs", "upstreamProcsForProc(" ++ who ++ ")"]) &&
  up.any (fun a => a.kind == .assign_ && a.name == "procs[" ++ who ++ ".Name()]" && a.args == [who])

def runSem : RunSem :=
  let up := Scipipe.upstreamProcsForProc
  let rec_ := Scipipe.Workflow_reconnectDeadEndConnections
  let rdy := Scipipe.Workflow_readyToRun
  let run := Scipipe.Workflow_runProcs
  { skipSelf :=
      -- in the parameter-port loop, `if rpp.Process() == proc { continue }` precedes the recursion,
      -- and the remote ports are copied under the port's lock
      before up (fun a => a.kind == .ifB_ && a.name == "rpp.Process() == proc") (fun a => a.isCall "upstreamProcsForProc" && a.args == ["rpp.Process()"]) &&
      before up (fun a => a.kind == .ifB_ && a.name == "rpp.Process() == proc") (fun a => a.kind == .continue_) &&
      before up (fun a => a.isCall "Lock" && a.recv == "pip.closeLock") (fun a => a.kind == .rangeB_ && a.name == "RemotePorts" && a.recv == "pip") &&
      before up (fun a => a.kind == .rangeB_ && a.name == "RemotePorts" && a.recv == "pip") (fun a => a.isCall "Unlock" && a.recv == "pip.closeLock"),
    driverRemovedFromArg :=
      rec_.any (fun a => a.isCall "delete" && a.args == ["procs", "wf.driver.Name()"]) && count (·.isCall "delete") rec_ == 1,
    singleProcKept := guardOf (·.isCall "delete") rec_ != some "foundNewDriverProc",
    driverReadyChecked :=
      rdy.any (fun a => a.kind == .ifB_ && a.name == "wf.driver != WorkflowProcess(wf.sink) && !wf.driver.Ready()") &&
      before rdy (fun a => a.kind == .ifB_ && a.name == "wf.driver != WorkflowProcess(wf.sink) && !wf.driver.Ready()") (fun a => a.kind == .ret_ && a.args == ["true"]) &&
      rdy.any (fun a => a.kind == .ifB_ && a.name == "len(procs) == 0 && wf.driver == WorkflowProcess(wf.sink)"),
    sinkWaited :=
      before run (fun a => a.kind == .ifB_ && a.name == "wf.driver != WorkflowProcess(wf.sink)") (·.kind == .goB_) &&
      before run (·.kind == .goB_) (fun a => a.isCall "Run" && a.recv == "wf.sink") &&
      before run (fun a => a.isCall "Run" && a.recv == "wf.sink") (fun a => a.isCall "close" && a.args == ["sinkDone"]) &&
      before run (fun a => a.isCall "Run" && a.recv == "wf.driver") (fun a => a.kind == .recv_ && a.name == "sinkDone") &&
      count (·.kind == .ret_) run == 0,
    readyBeforeStart :=
      -- `readyToRun` itself visits every process of the set and answers false at the first unready one
      before rdy (fun a => a.kind == .rangeB_ && a.name == "procs") (fun a => a.kind == .ifB_ && a.name == "!proc.Ready()") &&
      before rdy (fun a => a.kind == .ifB_ && a.name == "!proc.Ready()") (fun a => a.kind == .ret_ && a.args == ["true"]) &&
      count (fun a => a.kind == .break_ || a.kind == .continue_ || a.kind == .goto_) rdy == 0 &&
      before run (·.isCall "reconnectDeadEndConnections") (·.isCall "readyToRun") &&
      before run (fun a => a.kind == .ifB_ && a.name == "!wf.readyToRun(procs)") (fun a => a.isCall "Fail" && a.recv == "wf") &&
      before run (fun a => a.isCall "Fail" && a.recv == "wf") (fun a => a.kind == .go_ && a.name == "Run") &&
      before run (fun a => a.kind == .go_ && a.name == "Run") (fun a => a.isCall "Run" && a.recv == "wf.driver"),
    -- the closure of an upstream process reaches `procs`: `mergeWFMaps` writes into its first argument
    -- and is called with `procs` as that argument (or its result is assigned back to `procs`)
    mergesFile := mergeInPlace && mergedCall up "rpt.Process()",
    mergesParam := mergeInPlace && mergedCall up "rpp.Process()" }

end SciVerif.Tie
