import SciVerif.Tie.RunSem
import SciVerif.Tie.ProcSem
import SciVerif.Tie.Task
import SciVerif.Props.C05
/-! Tie A obligations for C05 on the current source. -/
namespace SciVerif.Tie
open SciVerif.Generated

theorem generated_run_sem_good_c05 : Graph.good runSem := by decide
theorem generated_proc_sem_good_c05 : Proc.good procSem := by decide
theorem generated_slot_locked_c05 : slotSem.locked = true := by decide

/-- the main loop runs while tasks may still arrive or tasks are in flight; out-ports are closed by
a deferred call, i.e. only when the loop has been left -/
theorem generated_loop_and_close :
    (Scipipe.Process_Run.any (fun a => a.kind == .forB_ && a.name == "tasks != nil || len(startedTasks) > 0") &&
     Scipipe.Process_Run.head?.map (fun a => a.kind == .defer_ && a.name == "CloseOutPorts") == some true &&
     count (fun a => a.kind == .ret_ || a.kind == .break_ || a.kind == .goto_) Scipipe.Process_Run == 0 &&
     count (·.isCall "CloseOutPorts") Scipipe.Process_Run == 0) = true := by decide

/-- `Done` is signalled only after outputs are finalized and slots released -/
theorem generated_done_last :
    (match taskSem.ops.idxOf? .finalize, taskSem.ops.idxOf? .release, taskSem.ops.idxOf? .signalDone with
     | some f, some r, some d => f < r && r < d && d + 1 == taskSem.ops.length
     | _, _, _ => false) = true := by decide

/-- the sink drains the file port and the parameter port concurrently and waits for each one that
is connected -/
theorem generated_sink_waits :
    (let l := Scipipe.Sink_Run
     count (·.kind == .goB_) l == 2 && count (fun a => a.kind == .rangeB_ && a.name == "Chan") l == 2 &&
     count (fun a => a.isSend "merged") l == 2 && count (fun a => a.isRecv "merged") l == 2 &&
     before l (fun a => a.isRecv "merged") (fun a => a.isCall "close" && a.args == ["merged"])) = true := by decide

theorem c05_on_source (ls : List Proc.Label) (s : Proc.PSt)
    (h : Proc.run procSem Proc.init ls = some s) (hexit : s.started = []) : s.forwarded = s.accepted :=
  C05.c05_process_exit_all_forwarded procSem generated_proc_sem_good_c05 ls s h hexit

end SciVerif.Tie
#print axioms SciVerif.Tie.generated_run_sem_good_c05
#print axioms SciVerif.Tie.generated_proc_sem_good_c05
#print axioms SciVerif.Tie.generated_slot_locked_c05
#print axioms SciVerif.Tie.generated_loop_and_close
#print axioms SciVerif.Tie.generated_done_last
#print axioms SciVerif.Tie.generated_sink_waits
#print axioms SciVerif.Tie.c05_on_source
