import SciVerif.Tie.RunSem
import SciVerif.Tie.ProcSem
import SciVerif.Tie.Task
import SciVerif.Props.C05
import SciVerif.Tie.Pins
/-! Tie A obligations for C05 on the current source. -/
namespace SciVerif.Tie
-- PIN-NOT: Scipipe.Task_executeCommand Scipipe.Task_formatCommand Scipipe.FinalizePaths Scipipe.Task_finalizePaths Scipipe.Task_anyOutputsExist Scipipe.Task_writeAuditLogs
-- functions the model relies on without an obligation of its own naming them (pinned by bin/mkpins):
-- PIN-ALSO: Scipipe.getBufsize Scipipe.NewSink Scipipe.Sink_From Scipipe.Sink_FromParam Scipipe.Sink_in Scipipe.Sink_paramIn Scipipe.BaseProcess_CloseAllOutPorts Scipipe.BaseProcess_CloseOutParamPorts Scipipe.Workflow_SetSink Scipipe.NewWorkflow
open SciVerif.Generated

theorem generated_run_sem_good_c05 : Graph.good runSem := by decide
theorem generated_proc_sem_good_c05 : Proc.good procSem := by decide
theorem generated_slot_locked_c05 : slotSem.locked = true := by decide
/-- hypothesis `cores v ≤ max` of the network-with-slots theorems: `Process.Run` rejects larger requests -/
theorem generated_cores_checked_c05 : coresCheckFirst = true := by decide

/-- the main loop runs while tasks may still arrive or tasks are in flight; out-ports are closed by
a deferred call, i.e. only when the loop has been left -/
theorem generated_loop_and_close :
    (Scipipe.Process_Run.any (fun a => a.kind == .forB_ && a.name == "tasks != nil || len(startedTasks) > 0") &&
     Scipipe.Process_Run.head?.map (fun a => a.kind == .defer_ && a.name == "CloseOutPorts") == some true &&
     count (fun a => a.kind == .ret_ || a.kind == .break_ || a.kind == .goto_) Scipipe.Process_Run == 0 &&
     count (·.isCall "CloseOutPorts") Scipipe.Process_Run == 0) = true := by decide

/-- `Done` is signalled only after outputs are finalized and slots released -/
theorem generated_done_last :
    (match taskSem.ops.idxOf? .finalize, taskSem.ops.idxOf? .release, taskSem.ops.idxOf? .signalDone with
     | some f, some r, some d => f < r && r < d && d + 1 == taskSem.ops.length
     | _, _, _ => false) = true := by decide

/-- the sink drains the file port and the parameter port concurrently and waits for each one that
is connected -/
theorem generated_sink_waits :
    (let l := Scipipe.Sink_Run
     count (·.kind == .goB_) l == 2 && count (fun a => a.kind == .rangeB_ && a.name == "Chan") l == 2 &&
     count (fun a => a.isSend "merged") l == 2 && count (fun a => a.isRecv "merged") l == 2 &&
     before l (fun a => a.isRecv "merged") (fun a => a.isCall "close" && a.args == ["merged"])) = true := by decide

theorem c05_on_source (ls : List Proc.Label) (s : Proc.PSt)
    (h : Proc.run procSem Proc.init ls = some s) (hexit : s.started = []) : s.forwarded = s.accepted :=
  C05.c05_process_exit_all_forwarded procSem generated_proc_sem_good_c05 ls s h hexit




















-- BEGIN PINS (written by bin/mkpins; do not edit by hand)
/-- the Go functions this property's model and obligations were written against have exactly the
pinned skeletons (SHA-256 prefix of the atom list) -/
theorem pinned_skeletons_c05 :
    pinsOk
    [("Scipipe.#decls", "08e57e98702ecd70"),
     ("Scipipe.BaseProcess_CloseAllOutPorts", "50efd798f96bd05b"),
     ("Scipipe.BaseProcess_CloseOutParamPorts", "b55e88685818f821"),
     ("Scipipe.NewSink", "a492528b88e6e985"),
     ("Scipipe.NewWorkflow", "17163fd29d8fb373"),
     ("Scipipe.Process_Run", "40f832903317f455"),
     ("Scipipe.Sink_From", "c72c1df4af5c0d68"),
     ("Scipipe.Sink_FromParam", "be5cd0eedafe3561"),
     ("Scipipe.Sink_Run", "2d6c7d95ef617224"),
     ("Scipipe.Sink_in", "e43f9286d549e5df"),
     ("Scipipe.Sink_paramIn", "51d9e45f831b6ec7"),
     ("Scipipe.Task_Execute", "40fd1fec0c69deb2"),
     ("Scipipe.Workflow_IncConcurrentTasks", "acd0e561d4db6cb8"),
     ("Scipipe.Workflow_SetSink", "7da5ff0b1e07295f"),
     ("Scipipe.Workflow_readyToRun", "378c8cdc8eb779a8"),
     ("Scipipe.Workflow_reconnectDeadEndConnections", "9ed90a908028bbfc"),
     ("Scipipe.Workflow_runProcs", "62dfa98c32085220"),
     ("Scipipe.getBufsize", "65b7d390dc0d0c72"),
     ("Scipipe.mergeWFMaps", "c658dad781cfdc20"),
     ("Scipipe.taskQueue_NextTaskDone", "749f6263d8a0c13f"),
     ("Scipipe.upstreamProcsForProc", "f9ed2dcd363d8677")] = true := by decide
-- END PINS

end SciVerif.Tie
#print axioms SciVerif.Tie.pinned_skeletons_c05
#print axioms SciVerif.Tie.generated_run_sem_good_c05
#print axioms SciVerif.Tie.generated_proc_sem_good_c05
#print axioms SciVerif.Tie.generated_slot_locked_c05
#print axioms SciVerif.Tie.generated_cores_checked_c05
#print axioms SciVerif.Tie.generated_loop_and_close
#print axioms SciVerif.Tie.generated_done_last
#print axioms SciVerif.Tie.generated_sink_waits
#print axioms SciVerif.Tie.c05_on_source
