import SciVerif.Tie.C12Sem
import SciVerif.Props.C12
import SciVerif.Tie.Pins
/-! Tie A obligations for C12 on the current source. -/
-- PIN-ALSO: Scipipe.Task_writeAuditLogs Scipipe.FileIP_SetAuditInfo Scipipe.FileIP_AuditInfo Scipipe.FileIP_WriteAuditLogToFile Scipipe.FileIP_AddTags Scipipe.FileIP_AddTag Scipipe.FileIP_Tags Components.NewMapToTags Components.MapToTags_In Components.MapToTags_Out
namespace SciVerif.Tie

/-- every syntactic access to the watched shared fields is under the object's lock, or in a
wiring-time function, or by the owning goroutine, or before publication -/
theorem generated_discipline : disciplineOk = true := by decide

/-- the only run-phase code that mutates a received IP's record is the listed finding F12 -/
theorem generated_racy_sites_known : racySites.all (["Components.MapToTags.Run"].contains ·) = true := by decide




















-- BEGIN PINS (written by bin/mkpins; do not edit by hand)
/-- the Go functions this property's model and obligations were written against have exactly the
pinned skeletons (SHA-256 prefix of the atom list) -/
theorem pinned_skeletons_c12 :
    pinsOk
    [("Cmd.#decls", "89450b1c59cda39b"),
     ("Cmd.auditInfoToHTML", "c3cd59286ae045b7"),
     ("Components.#decls", "84eddb1c2309452c"),
     ("Components.Concatenator_Run", "31b9a713ae609514"),
     ("Components.FileCombinator_Run", "c80f07b773d07bc8"),
     ("Components.FileGlobber_Run", "ade3767bb72e9c64"),
     ("Components.FileSplitter_Run", "5b56a840c637c735"),
     ("Components.IPSelectorSync_Run", "bdc706bc9ab92453"),
     ("Components.MapToTags_In", "338c289a3d0957ee"),
     ("Components.MapToTags_Out", "00960848d5f3d1bb"),
     ("Components.MapToTags_Run", "639dd3a11150ec10"),
     ("Components.NewMapToTags", "8aee09683e838d92"),
     ("Components.StreamToSubStream_Run", "3877054697bb0416"),
     ("Scipipe.#decls", "08e57e98702ecd70"),
     ("Scipipe.FileIP_AddTag", "f8c4aaf3b95c7e7d"),
     ("Scipipe.FileIP_AddTags", "7f98650d842d4c76"),
     ("Scipipe.FileIP_AuditInfo", "5adb309a1fd92bb2"),
     ("Scipipe.FileIP_SetAuditInfo", "9888139e5f6ebe46"),
     ("Scipipe.FileIP_Tags", "058631429d637201"),
     ("Scipipe.FileIP_WriteAuditLogToFile", "4600f6f7f2efa41b"),
     ("Scipipe.NewTask", "95298f03c320cb96"),
     ("Scipipe.Process_Run", "40f832903317f455"),
     ("Scipipe.Process_createTasks", "8c856d9ef4492f5d"),
     ("Scipipe.Sink_Run", "2d6c7d95ef617224"),
     ("Scipipe.Task_writeAuditLogs", "5ee6e36ed2566be6"),
     ("Scipipe.newWorkflowWithoutLogging", "6bb5eb2ae17350a8"),
     ("Scipipe.upstreamProcsForProc", "f9ed2dcd363d8677")] = true := by decide
-- END PINS

end SciVerif.Tie
#print axioms SciVerif.Tie.pinned_skeletons_c12
#print axioms SciVerif.Tie.generated_discipline
#print axioms SciVerif.Tie.generated_racy_sites_known
