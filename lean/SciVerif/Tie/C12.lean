import SciVerif.Tie.C12Sem
import SciVerif.Props.C12
/-! Tie A obligations for C12 on the current source. -/
namespace SciVerif.Tie

/-- every syntactic access to the watched shared fields is under the object's lock, or in a
wiring-time function, or by the owning goroutine, or before publication -/
theorem generated_discipline : disciplineOk = true := by decide

/-- the only run-phase code that mutates a received IP's record is the listed finding F12 -/
theorem generated_racy_sites_known : racySites.all (["Components.MapToTags.Run"].contains ·) = true := by decide

end SciVerif.Tie
#print axioms SciVerif.Tie.generated_discipline
#print axioms SciVerif.Tie.generated_racy_sites_known
