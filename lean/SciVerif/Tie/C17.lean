import SciVerif.Tie.ProcSem
import SciVerif.Tie.Task
import SciVerif.Props.C17
import SciVerif.Tie.Pins
/-! Tie A obligations for C17 on the current source. -/
namespace SciVerif.Tie
-- functions the model relies on without an obligation of its own naming them (pinned by bin/mkpins):
-- PIN-ALSO: Scipipe.Process_initPortsFromCmdPattern Scipipe.FileIP_FifoFileExists Scipipe.InPort_Send Scipipe.OutPort_Send Scipipe.FileIP_RemoveFifo
open SciVerif.Generated SciVerif.TaskFS

theorem generated_wf_c01_for_c17 : WF_C01 taskSem := by decide
theorem generated_streams_exempt : taskSem.streamsExempt = true := by decide

/-- on accepting a task: an existing FIFO is fatal, the FIFO is created and the streaming IP sent
downstream *before* the task goroutine is spawned; after the task's Done the FIFO is removed -/
theorem generated_fifo_protocol :
    (let taskCase := selectCase Scipipe.Process_Run "t, ok := <-tasks"
     let doneCase := selectCase Scipipe.Process_Run "<-startedTasks.NextTaskDone()"
     before taskCase (fun a => a.kind == .ifB_ && a.name == "oip.FifoFileExists()") (·.isCall "Failf") &&
     before taskCase (·.isCall "Failf") (·.isCall "CreateFifo") &&
     before taskCase (·.isCall "CreateFifo") (fun a => a.isCall "Send" && a.args == ["oip"]) &&
     before taskCase (fun a => a.isCall "Send" && a.args == ["oip"]) (fun a => a.kind == .go_ && a.name == "Execute") &&
     before doneCase (fun a => a.kind == .ifB_ && a.name == "oip.doStream && oip.FifoFileExists()") (fun a => a.isCall "Remove" && a.recv == "os" && a.args == ["oip.FifoPath()"])) = true := by decide

/-- the command writes to / reads from `<path>.fifo`; the FIFO lives at the final location (no temp
dir), `NewTask` marks the out-IP of an `{os:..}` port as streaming -/
theorem generated_fifo_paths :
    (Scipipe.FileIP_FifoPath == [⟨.ret_, "", "", ["ip.path + \".fifo\""]⟩] &&
     (caseBody "os" Scipipe.Task_formatCommand).any (·.isCall "FifoPath") &&
     count (·.isCall "TempPath") (caseBody "os" Scipipe.Task_formatCommand) == 0 &&
     (caseBody "i" Scipipe.Task_formatCommand).any (fun a => a.kind == .ifB_ && a.name == "inIPs[portName].doStream") &&
     Scipipe.NewTask.any (fun a => a.kind == .assign_ && a.name == "oip.doStream" && a.args == ["true"]) &&
     Scipipe.FileIP_CreateFifo.any (fun a => a.kind == .assign_ && a.name == "cmd" && a.args == ["\"mkfifo \" + ip.FifoPath()"])) = true := by decide

theorem c17_on_source (c : Cfg) (pre : Nat → Option File) (n p : Nat) (hp : isStream c p = true) :
    (stepN taskSem c n (init taskSem c pre)).finalOut p = (init taskSem c pre).finalOut p :=
  c17_no_regular_file taskSem generated_wf_c01_for_c17 generated_streams_exempt c pre n p hp


theorem generated_all_ops_known_c17 : taskSemKnown = true := by decide



















-- BEGIN PINS (written by bin/mkpins; do not edit by hand)
/-- the Go functions this property's model and obligations were written against have exactly the
pinned skeletons (SHA-256 prefix of the atom list) -/
theorem pinned_skeletons_c17 :
    pinsOk
    [("Scipipe.#decls", "08e57e98702ecd70"),
     ("Scipipe.FileIP_CreateFifo", "f6360b33d779c2ee"),
     ("Scipipe.FileIP_FifoFileExists", "b822f2c3227ef952"),
     ("Scipipe.FileIP_FifoPath", "03369ad2f75ce2a0"),
     ("Scipipe.FileIP_RemoveFifo", "d75e1f9b7c4511cb"),
     ("Scipipe.FinalizePaths", "291fc0cefa37cea9"),
     ("Scipipe.InPort_Send", "62cb51bf3ab53084"),
     ("Scipipe.NewTask", "95298f03c320cb96"),
     ("Scipipe.OutPort_Send", "06287c7bef096378"),
     ("Scipipe.Process_Run", "40f832903317f455"),
     ("Scipipe.Process_initPortsFromCmdPattern", "4f7c6ade86c29af6"),
     ("Scipipe.Task_Execute", "40fd1fec0c69deb2"),
     ("Scipipe.Task_anyOutputsExist", "0609a842b7aaf7a8"),
     ("Scipipe.Task_executeCommand", "98e77d849c0638cb"),
     ("Scipipe.Task_finalizePaths", "9cd0530d4e86fa92"),
     ("Scipipe.Task_formatCommand", "ccbe98735ce5c7d6")] = true := by decide
-- END PINS

end SciVerif.Tie
#print axioms SciVerif.Tie.pinned_skeletons_c17
#print axioms SciVerif.Tie.generated_all_ops_known_c17
#print axioms SciVerif.Tie.generated_wf_c01_for_c17
#print axioms SciVerif.Tie.generated_streams_exempt
#print axioms SciVerif.Tie.generated_fifo_protocol
#print axioms SciVerif.Tie.generated_fifo_paths
#print axioms SciVerif.Tie.c17_on_source
