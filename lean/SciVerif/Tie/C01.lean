import SciVerif.Tie.Task
import SciVerif.Props.C01
/-! Tie A obligations for C01 on the current source. -/
namespace SciVerif.Tie
open SciVerif.TaskFS



theorem generated_wf_c01 : WF_C01 taskSem := by decide

/-- C01 for the semantics record of the current source -/
theorem c01_on_source (c : Cfg) (pre : Nat → Option File) (n p : Nat) (f : File)
    (h : (stepN taskSem c n (init taskSem c pre)).finalOut p = some f) (hfresh : f.fresh = true) :
    f.complete = true ∧ c.beh.exit = .ok ∧ 0 < (stepN taskSem c n (init taskSem c pre)).okRuns :=
  c01_final_is_complete taskSem generated_wf_c01 c pre n p f h hfresh

end SciVerif.Tie
#print axioms SciVerif.Tie.generated_wf_c01
#print axioms SciVerif.Tie.c01_on_source
