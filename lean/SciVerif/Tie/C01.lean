import SciVerif.Tie.Task
import SciVerif.Props.C01
import SciVerif.Tie.Pins
/-! Tie A obligations for C01 on the current source. -/
namespace SciVerif.Tie
-- functions the model relies on without an obligation of its own naming them (pinned by bin/mkpins):
-- PIN-ALSO: Scipipe.FileIP_TempPath Scipipe.Task_createDirs Scipipe.Task_ensureAllOutputsExist Scipipe.Task_tempDirsExist Scipipe.FileIP_FinalizePath Scipipe.FileIP_TempFileExists Scipipe.FileIP_Exists Scipipe.Task_TempDir
open SciVerif.TaskFS



theorem generated_wf_c01 : WF_C01 taskSem := by decide

/-- C01 for the semantics record of the current source -/
theorem c01_on_source (c : Cfg) (pre : Nat → Option File) (n p : Nat) (f : File)
    (h : (stepN taskSem c n (init taskSem c pre)).finalOut p = some f) (hfresh : f.fresh = true) :
    f.complete = true ∧ c.beh.exit = .ok ∧ 0 < (stepN taskSem c n (init taskSem c pre)).okRuns :=
  c01_final_is_complete taskSem generated_wf_c01 c pre n p f h hfresh


theorem generated_all_ops_known_c01 : taskSemKnown = true := by decide



















-- BEGIN PINS (written by bin/mkpins; do not edit by hand)
/-- the Go functions this property's model and obligations were written against have exactly the
pinned skeletons (SHA-256 prefix of the atom list) -/
theorem pinned_skeletons_c01 :
    pinsOk
    [("Scipipe.#decls", "08e57e98702ecd70"),
     ("Scipipe.FileIP_Exists", "1916709587285b24"),
     ("Scipipe.FileIP_FinalizePath", "cf8179072e56c7ba"),
     ("Scipipe.FileIP_TempFileExists", "b451ff234c47445a"),
     ("Scipipe.FileIP_TempPath", "7eba22a35232a5cb"),
     ("Scipipe.FinalizePaths", "291fc0cefa37cea9"),
     ("Scipipe.Task_Execute", "40fd1fec0c69deb2"),
     ("Scipipe.Task_TempDir", "6d565a2ddd3d0eb2"),
     ("Scipipe.Task_anyOutputsExist", "0609a842b7aaf7a8"),
     ("Scipipe.Task_createDirs", "bac0633be6d72f5b"),
     ("Scipipe.Task_ensureAllOutputsExist", "02a49c3c493368f3"),
     ("Scipipe.Task_executeCommand", "98e77d849c0638cb"),
     ("Scipipe.Task_finalizePaths", "9cd0530d4e86fa92"),
     ("Scipipe.Task_formatCommand", "ccbe98735ce5c7d6"),
     ("Scipipe.Task_tempDirsExist", "be2c7ee34f64913e")] = true := by decide
-- END PINS

end SciVerif.Tie
#print axioms SciVerif.Tie.pinned_skeletons_c01
#print axioms SciVerif.Tie.generated_all_ops_known_c01
#print axioms SciVerif.Tie.generated_wf_c01
#print axioms SciVerif.Tie.c01_on_source
