import SciVerif.Tie.Task
import SciVerif.Props.C02
/-! Tie A obligations for C02 on the current source. -/
namespace SciVerif.Tie
open SciVerif.TaskFS

theorem generated_wf_c02 : WF_C02 taskSem := by decide

/-- `anyOutputsExist` looks at *every* out-IP: the loop has no early exit -/
theorem generated_outcheck_all :
    (count (fun a => a.kind == .break_ || a.kind == .ret_ && a.args != []) Generated.Scipipe.Task_anyOutputsExist == 0
     && Generated.Scipipe.Task_anyOutputsExist.any (fun a => a.kind == .rangeB_ && a.name == "OutIPs")) = true := by decide

theorem c02_on_source (c : Cfg) (pre : Nat → Option File)
    (hex : anyFinalExists c (init taskSem c pre) = true) (n p : Nat) :
    (stepN taskSem c n (init taskSem c pre)).finalOut p = (init taskSem c pre).finalOut p ∧
    (stepN taskSem c n (init taskSem c pre)).executed = 0 :=
  c02_preexisting_untouched taskSem generated_wf_c02 c pre hex n p

end SciVerif.Tie
#print axioms SciVerif.Tie.generated_wf_c02
#print axioms SciVerif.Tie.generated_outcheck_all
#print axioms SciVerif.Tie.c02_on_source
