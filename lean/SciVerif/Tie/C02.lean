import SciVerif.Tie.Task
import SciVerif.Props.C02
import SciVerif.Tie.Pins
/-! Tie A obligations for C02 on the current source. -/
namespace SciVerif.Tie
-- functions the model relies on without an obligation of its own naming them (pinned by bin/mkpins):
-- PIN-ALSO: Scipipe.FileIP_TempPath Scipipe.FileIP_Exists Scipipe.FileIP_TempFileExists Scipipe.Process_initDefaultPathFuncs Scipipe.Task_TempDir
open SciVerif.TaskFS

theorem generated_wf_c02 : WF_C02 taskSem := by decide

/-- `anyOutputsExist` looks at *every* out-IP: the loop has no early exit -/
theorem generated_outcheck_all :
    (count (fun a => a.kind == .break_ || a.kind == .ret_ && a.args != []) Generated.Scipipe.Task_anyOutputsExist == 0
     && Generated.Scipipe.Task_anyOutputsExist.any (fun a => a.kind == .rangeB_ && a.name == "OutIPs")) = true := by decide

theorem c02_on_source (c : Cfg) (pre : Nat → Option File)
    (hex : anyFinalExists c (init taskSem c pre) = true) (n p : Nat) :
    (stepN taskSem c n (init taskSem c pre)).finalOut p = (init taskSem c pre).finalOut p ∧
    (stepN taskSem c n (init taskSem c pre)).executed = 0 :=
  c02_preexisting_untouched taskSem generated_wf_c02 c pre hex n p


theorem generated_all_ops_known_c02 : taskSemKnown = true := by decide



















-- BEGIN PINS (written by bin/mkpins; do not edit by hand)
/-- the Go functions this property's model and obligations were written against have exactly the
pinned skeletons (SHA-256 prefix of the atom list) -/
theorem pinned_skeletons_c02 :
    pinsOk
    [("Scipipe.#decls", "08e57e98702ecd70"),
     ("Scipipe.FileIP_Exists", "1916709587285b24"),
     ("Scipipe.FileIP_TempFileExists", "b451ff234c47445a"),
     ("Scipipe.FileIP_TempPath", "7eba22a35232a5cb"),
     ("Scipipe.FinalizePaths", "291fc0cefa37cea9"),
     ("Scipipe.Process_initDefaultPathFuncs", "012072977ffdc36d"),
     ("Scipipe.Task_Execute", "40fd1fec0c69deb2"),
     ("Scipipe.Task_TempDir", "6d565a2ddd3d0eb2"),
     ("Scipipe.Task_anyOutputsExist", "0609a842b7aaf7a8"),
     ("Scipipe.Task_executeCommand", "98e77d849c0638cb"),
     ("Scipipe.Task_finalizePaths", "9cd0530d4e86fa92"),
     ("Scipipe.Task_formatCommand", "ccbe98735ce5c7d6")] = true := by decide
-- END PINS

end SciVerif.Tie
#print axioms SciVerif.Tie.pinned_skeletons_c02
#print axioms SciVerif.Tie.generated_all_ops_known_c02
#print axioms SciVerif.Tie.generated_wf_c02
#print axioms SciVerif.Tie.generated_outcheck_all
#print axioms SciVerif.Tie.c02_on_source
