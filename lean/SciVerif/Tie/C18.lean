import SciVerif.Tie.Consts
import SciVerif.Tie.Task
import SciVerif.Props.C18
import SciVerif.Tie.Pins
/-! Tie A obligations for C18 on the current source. -/
namespace SciVerif.Tie
-- functions the model relies on without an obligation of its own naming them (pinned by bin/mkpins):
-- PIN-ALSO: Scipipe.Process_initPortsFromCmdPattern Components.NewStreamToSubStream Components.StreamToSubStream_In Components.StreamToSubStream_OutSubStream
open SciVerif.Generated

/-- `NewTask` drains the carrier's sub-stream port until it is closed, for joined ports with a
non-empty separator, before the command is formatted -/
theorem generated_newtask_drains_substream :
    (let l := Scipipe.NewTask
     before l (fun a => a.kind == .ifB_ && a.name == "ptInfo.join && ptInfo.joinSep != \"\"") (fun a => a.kind == .rangeB_ && a.name == "Chan" && a.recv == "inIPs[ptName].SubStream") &&
     before l (fun a => a.kind == .rangeB_ && a.name == "Chan" && a.recv == "inIPs[ptName].SubStream") (fun a => a.isCall "append" && a.args == ["ips", "ip"]) &&
     before l (fun a => a.kind == .assign_ && a.name == "t.subStreamIPs[ptName]" && a.args == ["ips"]) (·.isCall "formatCommand") &&
     count (fun a => a.kind == .break_) l == 0) = true := by decide

/-- the join branch of the "i" case: Path, modifiers, prependParentDirPath per member, then Join -/
theorem generated_join_branch :
    (let body := caseBody "i" Scipipe.Task_formatCommand
     before body (fun a => a.kind == .ifB_ && a.name == "portInfo.join && portInfo.joinSep != \"\"") (fun a => a.kind == .rangeB_ && a.name == "subStreamIPs[]") &&
     before body (fun a => a.kind == .rangeB_ && a.name == "subStreamIPs[]") (·.isCall "applyPathModifiers") &&
     before body (·.isCall "applyPathModifiers") (·.isCall "prependParentDirPath") &&
     before body (·.isCall "prependParentDirPath") (fun a => a.isCall "Join" && a.args == ["paths", "portInfo.joinSep"])) = true := by decide

/-- `StreamToSubStream` sends exactly one carrier IP whose sub-stream is its own in-port;
the members of a joined port are recorded as upstream and hashed into the temp-dir identity -/
theorem generated_substream_component_and_audit :
    (let l := Components.StreamToSubStream_Run
     count (·.isCall "Send") l == 1 &&
     before l (fun a => a.kind == .assign_ && a.name == "subStreamIP.SubStream" && a.args == ["p.In()"]) (fun a => a.isCall "Send" && a.args == ["subStreamIP"]) &&
     count (fun a => a.kind == .forB_ || a.kind == .rangeB_) l == 0 &&
     Scipipe.Task_writeAuditLogs.any (fun a => a.kind == .assign_ && a.name == "auditInfo.Upstream[subIP.Path()]" && a.args == ["subIP.AuditInfo()"]) &&
     Scipipe.Task_TempDir.any (fun a => a.isCall "splitAllPaths" && a.args == ["subIPs.Path()"])) = true := by decide




















-- BEGIN PINS (written by bin/mkpins; do not edit by hand)
/-- the Go functions this property's model and obligations were written against have exactly the
pinned skeletons (SHA-256 prefix of the atom list) -/
theorem pinned_skeletons_c18 :
    pinsOk
    [("Components.#decls", "84eddb1c2309452c"),
     ("Components.NewStreamToSubStream", "ce8b00b0893c5c85"),
     ("Components.StreamToSubStream_In", "338c289a3d0957ee"),
     ("Components.StreamToSubStream_OutSubStream", "5e0e80c1d90b04ed"),
     ("Components.StreamToSubStream_Run", "3877054697bb0416"),
     ("Scipipe.#decls", "08e57e98702ecd70"),
     ("Scipipe.NewTask", "95298f03c320cb96"),
     ("Scipipe.Process_initPortsFromCmdPattern", "4f7c6ade86c29af6"),
     ("Scipipe.Task_TempDir", "6d565a2ddd3d0eb2"),
     ("Scipipe.Task_formatCommand", "ccbe98735ce5c7d6"),
     ("Scipipe.Task_writeAuditLogs", "5ee6e36ed2566be6")] = true := by decide
-- END PINS

end SciVerif.Tie
#print axioms SciVerif.Tie.pinned_skeletons_c18
#print axioms SciVerif.Tie.generated_newtask_drains_substream
#print axioms SciVerif.Tie.generated_join_branch
#print axioms SciVerif.Tie.generated_substream_component_and_audit
