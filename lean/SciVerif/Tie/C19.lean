import SciVerif.Tie.Atom
import SciVerif.Generated.Skel
import SciVerif.Props.C19
import SciVerif.Tie.Pins
/-! Tie A obligations for C19: the shape of both copies of `combine`, of `FileSplitter.Run`'s loop,
of `IPSelectorSync.Run`/`recvOneEach`, of `Concatenator.Run` and of the source components. -/
namespace SciVerif.Tie
-- functions the model relies on without an obligation of its own naming them (pinned by bin/mkpins):
-- PIN-ALSO: Components.IPSelectorSync_syncRead Components.FileSplitter_createNewSplitFile Components.FileSplitter_newSplitIPFromIndex Components.cleanFilePatterns Components.cleanFiles Components.NewCommandToParams Components.CommandToParams_OutParam Components.NewConcatenator Components.Concatenator_In Components.Concatenator_Out Components.NewFileCombinator Components.FileCombinator_In Components.FileCombinator_Out Components.NewFileGlobber Components.NewFileGlobberDependent Components.FileGlobber_Out Components.FileGlobber_InDependency Components.NewFileSource Components.FileSource_Out Components.NewFileSplitter Components.FileSplitter_InFile Components.FileSplitter_OutSplitFile Components.getRandString Components.NewFileToParamsReader Components.FileToParamsReader_OutLine Components.NewIPSelectorSync Components.IPSelectorSync_In Components.IPSelectorSync_Out Components.NewParamCombinator Components.ParamCombinator_InParam Components.ParamCombinator_OutParam Components.NewParamSource Components.ParamSource_Out
open SciVerif.Generated

/-- the recursion and the two inner loops of `combine`, for the map called `inName` / `outName` -/
def combineShape (l : List Atom) (inName outName : String) : Bool :=
  l.any (fun a => a.kind == .ifB_ && a.name == "len(" ++ inName ++ ") <= 1") &&
  before l (fun a => a.kind == .ifB_ && a.name == "len(" ++ inName ++ ") <= 1") (fun a => a.kind == .ret_ && a.args == [inName]) &&
  l.any (fun a => a.kind == .assign_ && a.name == "headKey" && a.args == ["keys[0]"]) &&
  l.any (fun a => a.kind == .assign_ && a.name == "head" && a.args == [inName ++ "[headKey]"]) &&
  l.any (fun a => a.kind == .assign_ && a.name == "tailKeys" && a.args == ["keys[1:]"]) &&
  l.any (fun a => a.kind == .assign_ && a.name == "tail[k]" && a.args == [inName ++ "[k]"]) &&
  l.any (fun a => a.isCall "combine" && a.args == ["tail", "tailKeys"]) &&
  before l (fun a => a.isCall "combine") (fun a => a.kind == .rangeB_ && a.name == "head") &&
  before l (fun a => a.kind == .rangeB_ && a.name == "head") (fun a => a.kind == .forB_ && a.name == "i < len(tail[tailKeys[0]])") &&
  before l (fun a => a.kind == .forB_ && a.name == "i < len(tail[tailKeys[0]])") (fun a => a.isCall "append" && a.args == [outName ++ "[headKey]", "ip"]) &&
  before l (fun a => a.isCall "append" && a.args == [outName ++ "[headKey]", "ip"]) (fun a => a.kind == .forB_ && a.name == "j < len(tail)") &&
  before l (fun a => a.kind == .forB_ && a.name == "j < len(tail)") (fun a => a.isCall "append" && a.args == [outName ++ "[tailKeys[j]]", "tail[tailKeys[j]]"]) &&
  count (·.isCall "append") l == 2 && count (fun a => a.kind == .break_ || a.kind == .continue_) l == 0 &&
  l.getLast?.map (fun a => a.kind == .ret_ && a.args == [outName]) == some true

theorem generated_combine_shape :
    (combineShape Components.combine "inParams" "outParams" &&
     combineShape Components.FileCombinator_combine "inIPs" "outIPs") = true := by decide

/-- combinators read every in-port to the end, pass the keys in one (arbitrary) order, send all -/
theorem generated_combinator_run :
    (Components.FileCombinator_Run.any (fun a => a.kind == .rangeB_ && a.name == "Chan" && a.recv == "inPort") &&
     Components.FileCombinator_Run.any (fun a => a.isCall "combine" && a.args == ["inIPs", "keys"]) &&
     Components.ParamCombinator_Run.any (fun a => a.kind == .rangeB_ && a.name == "Chan" && a.recv == "inPort") &&
     Components.ParamCombinator_Run.any (fun a => a.isCall "combine" && a.args == ["inParams", "keys"]) &&
     Components.FileCombinator_Run.any (fun a => a.kind == .defer_ && a.name == "CloseAllOutPorts") &&
     Components.ParamCombinator_Run.any (fun a => a.kind == .defer_ && a.name == "CloseAllOutPorts")) = true := by decide

/-- `FileSplitter.Run`: counters start at 1, one LF-terminated line per scanned line, a new part
exactly when `lineNo == splitNo*LinesPerSplit`, the last part always sent -/
theorem generated_splitter_shape :
    (let l := Components.FileSplitter_Run
     l.any (fun a => a.kind == .assign_ && a.name == "lineNo" && a.args == ["1"]) &&
     l.any (fun a => a.kind == .assign_ && a.name == "splitNo" && a.args == ["1"]) &&
     l.any (fun a => a.kind == .assign_ && a.name == "line" && a.args == ["scanner.Text() + \"\\n\""]) &&
     before l (·.isCall "WriteString") (fun a => a.kind == .ifB_ && a.name == "lineNo == splitNo*p.LinesPerSplit") &&
     before l (fun a => a.kind == .ifB_ && a.name == "lineNo == splitNo*p.LinesPerSplit") (fun a => a.kind == .assign_ && a.name == "splitNo" && a.recv == "++") &&
     before l (fun a => a.kind == .assign_ && a.name == "splitNo" && a.recv == "++") (fun a => a.kind == .assign_ && a.name == "lineNo" && a.recv == "++") &&
     count (fun a => a.isCall "Send") l == 2 && count (fun a => a.isCall "FinalizePaths") l == 2 &&
     count (fun a => a.kind == .assign_ && a.name == "lineNo" && a.recv == "++") l == 1) = true := by decide

/-- `IPSelectorSync`: one receive per in-port per round, inconsistent closing fails, a tuple is
dropped as a whole, survivors go out on the port of the same name -/
theorem generated_selector_shape :
    (Components.IPSelectorSync_recvOneEach.any (fun a => a.kind == .rangeB_ && a.name == "InPorts()") &&
     count (fun a => a.kind == .recv_ && a.name == "Chan") Components.IPSelectorSync_recvOneEach == 1 &&
     Components.IPSelectorSync_recvOneEach.any (·.isCall "Failf") &&
     Components.IPSelectorSync_Run.any (fun a => a.kind == .goto_ && a.name == "End") &&
     Components.IPSelectorSync_Run.any (fun a => a.isCall "Send" && a.recv == "p.Out(iname)" && a.args == ["ip"])) = true := by decide

/-- `Concatenator` writes each input followed by "\n"; sources send their list in order -/
theorem generated_concat_and_sources :
    (Components.Concatenator_Run.any (fun a => a.isCall "Write" && a.recv == "outFh" && a.args == ["append(dat)"]) &&
     Components.Concatenator_Run.any (fun a => a.isCall "Write" && a.recv == "outFh" && a.args == ["append([]byte(\"\\n\"))"]) &&
     Components.FileSource_Run.any (fun a => a.kind == .rangeB_ && a.name == "filePaths") &&
     Components.FileSource_Run.any (fun a => a.isCall "Send" && a.args == ["ip"]) &&
     Components.ParamSource_Run.any (fun a => a.kind == .rangeB_ && a.name == "params") &&
     Components.ParamSource_Run.any (fun a => a.isCall "Send" && a.args == ["param"]) &&
     Components.FileToParamsReader_Run.any (fun a => a.isCall "Text" && a.recv == "scan") &&
     Components.CommandToParams_Run.any (fun a => a.isCall "Text" && a.recv == "scanner") &&
     Components.FileGlobber_globFiles.any (fun a => a.isCall "Glob" && a.recv == "filepath")) = true := by decide




















-- BEGIN PINS (written by bin/mkpins; do not edit by hand)
/-- the Go functions this property's model and obligations were written against have exactly the
pinned skeletons (SHA-256 prefix of the atom list) -/
theorem pinned_skeletons_c19 :
    pinsOk
    [("Components.#decls", "84eddb1c2309452c"),
     ("Components.CommandToParams_OutParam", "26c5f796efb9d3c4"),
     ("Components.CommandToParams_Run", "5332a14740c49675"),
     ("Components.Concatenator_In", "338c289a3d0957ee"),
     ("Components.Concatenator_Out", "00960848d5f3d1bb"),
     ("Components.Concatenator_Run", "31b9a713ae609514"),
     ("Components.FileCombinator_In", "6a5035182f952fdb"),
     ("Components.FileCombinator_Out", "d22a23aa25096e6d"),
     ("Components.FileCombinator_Run", "c80f07b773d07bc8"),
     ("Components.FileCombinator_combine", "469f973aa97a6873"),
     ("Components.FileGlobber_InDependency", "fb65998ae9c329db"),
     ("Components.FileGlobber_Out", "00960848d5f3d1bb"),
     ("Components.FileGlobber_globFiles", "ee82b1a1db56bffd"),
     ("Components.FileSource_Out", "00960848d5f3d1bb"),
     ("Components.FileSource_Run", "301d30b840f1f193"),
     ("Components.FileSplitter_InFile", "2eb241e4238bec17"),
     ("Components.FileSplitter_OutSplitFile", "4d163e1a13ff832b"),
     ("Components.FileSplitter_Run", "5b56a840c637c735"),
     ("Components.FileSplitter_createNewSplitFile", "d5b42d9115976cfa"),
     ("Components.FileSplitter_newSplitIPFromIndex", "e828aaa7fdf98ca3"),
     ("Components.FileToParamsReader_OutLine", "119dc6dfd2dbff59"),
     ("Components.FileToParamsReader_Run", "73e9b69121ec7f25"),
     ("Components.IPSelectorSync_In", "2591e5685d6c8274"),
     ("Components.IPSelectorSync_Out", "56c989aa893a8e4f"),
     ("Components.IPSelectorSync_Run", "bdc706bc9ab92453"),
     ("Components.IPSelectorSync_recvOneEach", "61813e5b75ed7704"),
     ("Components.IPSelectorSync_syncRead", "c002d25cd3f8836d"),
     ("Components.NewCommandToParams", "32f304bfe1104d4e"),
     ("Components.NewConcatenator", "10b42796b1c99f0e"),
     ("Components.NewFileCombinator", "cc16872679faf2a0"),
     ("Components.NewFileGlobber", "91bf4c8ab8653014"),
     ("Components.NewFileGlobberDependent", "86a7c404198760d3"),
     ("Components.NewFileSource", "bc65e1a0f7fcacbe"),
     ("Components.NewFileSplitter", "d34f724fa938f5cf"),
     ("Components.NewFileToParamsReader", "62ccc43d63859879"),
     ("Components.NewIPSelectorSync", "9b991132839d7018"),
     ("Components.NewParamCombinator", "bb6a7155eb925737"),
     ("Components.NewParamSource", "1e126ed5b1f79266"),
     ("Components.ParamCombinator_InParam", "2dc335745ca293c3"),
     ("Components.ParamCombinator_OutParam", "63fa36d115829e11"),
     ("Components.ParamCombinator_Run", "f5dcec212739b17f"),
     ("Components.ParamSource_Out", "2f96033f1467cd1a"),
     ("Components.ParamSource_Run", "e8fb20620214e0d2"),
     ("Components.cleanFilePatterns", "d7d8d66bd51f800c"),
     ("Components.cleanFiles", "59305c7d8422deb9"),
     ("Components.combine", "821eee6a8fd86d62"),
     ("Components.getRandString", "e0d0c1e522ab3e0f")] = true := by decide
-- END PINS

end SciVerif.Tie
#print axioms SciVerif.Tie.pinned_skeletons_c19
#print axioms SciVerif.Tie.generated_combine_shape
#print axioms SciVerif.Tie.generated_combinator_run
#print axioms SciVerif.Tie.generated_splitter_shape
#print axioms SciVerif.Tie.generated_selector_shape
#print axioms SciVerif.Tie.generated_concat_and_sources
